import Sop.Lemmas.BTreeInsert7
/-! # C17 update side, `Btree.Add`, STAGE 5 (root) — the promote cascade that reaches a full ROOT: `promoteStep`'s
`isRoot` branch spelled out (`promoteStep_rootSplit`), its pure part (`root_split_step`), the last step
(`root_final`) and the theorem `addU_leaf_split_cascade_root`. -/
namespace Sop.BTree.Ins
open Sop.BTree
set_option linter.unusedVariables false
set_option linter.unusedSimpArgs false

/-! Insert proofs for Model B, part 43: STAGE 5 (root) — `promoteStep` on a full ROOT inner node, spelled out. -/

def rootLeft (t : BTree) (g : NodeId) (temp : Array Item) (tc : Array NodeId) : Node :=
  { id := t.nextId, parent := g, slots := goCopy (zeros t.sl) 0 temp 0 (t.sl / 2), count := t.sl / 2,
    children := some (goCopy (zeroIds (t.sl + 1)) 0 tc 0 (t.sl / 2 + 1)), ion := -1 }

def rootRight (t : BTree) (g : NodeId) (temp : Array Item) (tc : Array NodeId) : Node :=
  { id := t.nextId + 1, parent := g, slots := goCopy (zeros t.sl) 0 temp (t.sl / 2 + 1) (t.sl / 2 + 1 + t.sl / 2),
    count := t.sl / 2,
    children := some (goCopy (zeroIds (t.sl + 1)) 0 tc (t.sl / 2 + 1) (t.sl / 2 + 1 + t.sl / 2 + 1)), ion := -1 }

def rootF (sl : Nat) (l' : NodeId) (mid : Item) (x : Node) : Node :=
  { x with slots := (zeros x.slots.size).setIfInBounds 0 mid, count := 1,
           children := some (((zeroIds (sl + 1)).setIfInBounds 0 l').setIfInBounds 1 (l' + 1)) }

/-- a splitting `promote` step on the root, after the children were re-parented -/
def rootInnerU (t : BTree) (g : NodeId) (gnd : Node) (cs : Array NodeId) (idx : Nat) : BTree :=
  (({ t with nextId := t.nextId + 1 + 1 } : BTree).updateChildrenParent t.nextId
      ((rootLeft t g (innerTemp t gnd idx) (innerTc t gnd cs idx)).children.getD #[])).updateChildrenParent (t.nextId + 1)
      ((rootRight t g (innerTemp t gnd idx) (innerTc t gnd cs idx)).children.getD #[])

/-- a splitting `promote` step on the root -/
def rootInnerSplit (t : BTree) (g : NodeId) (gnd : Node) (cs : Array NodeId) (idx : Nat) : BTree :=
  (((rootInnerU t g gnd cs idx).upd g
      (rootF (rootInnerU t g gnd cs idx).sl t.nextId ((innerTemp t gnd idx).getD (t.sl / 2) {}))).put
      (rootLeft t g (innerTemp t gnd idx) (innerTc t gnd cs idx))).put
      (rootRight t g (innerTemp t gnd idx) (innerTc t gnd cs idx))

theorem promoteStep_rootSplit {t : BTree} {g : NodeId} {gnd : Node} {cs : Array NodeId} {idx : Nat}
    (hg : t.get? g = some gnd) (hcs : gnd.children = some cs) (hfull : ¬ gnd.count < t.sl) (hidx : idx ≤ t.sl)
    (hr : gnd.isRoot = true) :
    t.promoteStep g (idx : Int) = rootInnerSplit t g gnd cs idx := by
  unfold BTree.promoteStep
  simp only [get_of_get? hg, hcs]
  have h1 : ¬ ((idx : Int) < 0) := by omega
  have h2 : ¬ idx > t.sl := by omega
  simp only [h1, if_false, hfull, Int.toNat_natCast, h2, hr, if_true]
  unfold rootInnerSplit rootInnerU rootLeft rootRight rootF innerTemp innerTc BTree.newNode BTree.newId
  simp only []


theorem rootInnerU_get? (t : BTree) (g : NodeId) (gnd : Node) (cs : Array NodeId) (idx : Nat) (y : NodeId) :
    (rootInnerU t g gnd cs idx).get? y =
      ((t.get? y).map (fun n => if y ≠ 0 ∧ y ∈ (goCopy (zeroIds (t.sl + 1)) 0 (innerTc t gnd cs idx) 0 (t.sl / 2 + 1)).toList
        then { n with parent := t.nextId } else n)).map
      (fun n => if y ≠ 0 ∧ y ∈ (goCopy (zeroIds (t.sl + 1)) 0 (innerTc t gnd cs idx) (t.sl / 2 + 1)
        (t.sl / 2 + 1 + t.sl / 2 + 1)).toList then { n with parent := t.nextId + 1 } else n) := by
  unfold rootInnerU
  rw [updateChildrenParent_get?, updateChildrenParent_get?]
  rfl

theorem rootInnerU_fields (t : BTree) (g : NodeId) (gnd : Node) (cs : Array NodeId) (idx : Nat) :
    ({ rootInnerU t g gnd cs idx with nodes := t.nodes } : BTree) = { t with nextId := t.nextId + 1 + 1 } ∧
    (rootInnerU t g gnd cs idx).nodes.length = t.nodes.length ∧ (Fresh t → Fresh (rootInnerU t g gnd cs idx)) := by
  obtain ⟨hA1, hA2, hA3⟩ := ucp_fields ({ t with nextId := t.nextId + 1 + 1 } : BTree) t.nextId
    ((rootLeft t g (innerTemp t gnd idx) (innerTc t gnd cs idx)).children.getD #[])
  obtain ⟨A, hA⟩ : ∃ A, A = ({ t with nextId := t.nextId + 1 + 1 } : BTree).updateChildrenParent t.nextId
    ((rootLeft t g (innerTemp t gnd idx) (innerTc t gnd cs idx)).children.getD #[]) := ⟨_, rfl⟩
  rw [← hA] at hA1 hA2 hA3
  obtain ⟨hB1, hB2, hB3⟩ := ucp_fields A (t.nextId + 1)
    ((rootRight t g (innerTemp t gnd idx) (innerTc t gnd cs idx)).children.getD #[])
  have hU : rootInnerU t g gnd cs idx = A.updateChildrenParent (t.nextId + 1)
      ((rootRight t g (innerTemp t gnd idx) (innerTc t gnd cs idx)).children.getD #[]) := by
    unfold rootInnerU; rw [hA]
  rw [hU]
  refine ⟨?_, by rw [hB2, hA2], fun hf => hB3 (hA3 ?_)⟩
  · have h1 := congrArg (fun b : BTree => ({ b with nodes := t.nodes } : BTree)) hB1
    have h2 := congrArg (fun b : BTree => ({ b with nodes := t.nodes } : BTree)) hA1
    simp only at h1 h2
    rw [h1, h2]
  · exact ⟨Nat.succ_pos _, fun x hx => Nat.lt_succ_of_lt (Nat.lt_succ_of_lt (hf.2 x hx))⟩

theorem rootInnerSplit_get? (t : BTree) (g : NodeId) (gnd : Node) (cs : Array NodeId) (idx : Nat) (y : NodeId) :
    (rootInnerSplit t g gnd cs idx).get? y =
      if t.nextId + 1 = y then some (rootRight t g (innerTemp t gnd idx) (innerTc t gnd cs idx))
      else if t.nextId = y then some (rootLeft t g (innerTemp t gnd idx) (innerTc t gnd cs idx))
      else ((rootInnerU t g gnd cs idx).get? y).map (fun n => if y = g then
        rootF (rootInnerU t g gnd cs idx).sl t.nextId ((innerTemp t gnd idx).getD (t.sl / 2) {}) n else n) := by
  unfold rootInnerSplit
  rw [get?_put, get?_put, get?_upd _ g y (rootF _ _ _) (fun _ => rfl)]
  rfl

theorem rootInnerSplit_fields (t : BTree) (g : NodeId) (gnd : Node) (cs : Array NodeId) (idx : Nat)
    (h1 : t.get? t.nextId = none) (h2 : t.get? (t.nextId + 1) = none) :
    ({ rootInnerSplit t g gnd cs idx with nodes := t.nodes } : BTree) = { t with nextId := t.nextId + 1 + 1 } ∧
    (rootInnerSplit t g gnd cs idx).nodes.length = t.nodes.length + 2 ∧ (Fresh t → Fresh (rootInnerSplit t g gnd cs idx)) := by
  obtain ⟨hU1, hU2, hU3⟩ := rootInnerU_fields t g gnd cs idx
  obtain ⟨U, hU⟩ : ∃ U, U = rootInnerU t g gnd cs idx := ⟨_, rfl⟩
  have hUget : ∀ y, t.get? y = none → U.get? y = none := by
    intro y hy; rw [hU, rootInnerU_get?, hy]; rfl
  unfold rootInnerSplit
  rw [← hU] at hU1 hU2 hU3 ⊢
  have hnext : U.nextId = t.nextId + 1 + 1 := by
    have := congrArg (fun b : BTree => b.nextId) hU1
    exact this
  refine ⟨?_, ?_, ?_⟩
  · have := congrArg (fun b : BTree => b) hU1
    exact hU1
  · rw [put_length_fresh, put_length_fresh, upd_nodes_length, hU2]
    · show (U.upd g _).get? t.nextId = none
      rw [get?_upd _ g _ (rootF _ _ _) (fun _ => rfl)]
      show Option.map _ (U.get? t.nextId) = none
      rw [hUget _ h1]; rfl
    · rw [get?_put]
      show (if t.nextId = t.nextId + 1 then _ else _) = none
      rw [if_neg (by omega), get?_upd _ g _ (rootF _ _ _) (fun _ => rfl)]
      show Option.map _ (U.get? (t.nextId + 1)) = none
      rw [hUget _ h2]; rfl
  · intro hf
    refine fresh_put (fresh_put (fresh_upd (hU3 hf) g (rootF U.sl t.nextId ((innerTemp t gnd idx).getD (t.sl / 2) {})) (fun _ => rfl)) ?_) ?_
    · show t.nextId < U.nextId; rw [hnext]; omega
    · show t.nextId + 1 < U.nextId; rw [hnext]; omega

/-! Insert proofs for Model B, part 44: STAGE 5 (root) — the root split inside `promote`: pure part. -/

/-- STAGE 5, pure part of the ROOT split inside `promote`: the over-full virtual root `g` keeps only the
    middle item; its lower and upper halves go to the fresh nodes `l'` and `r'`, whose children are re-parented -/
theorem root_split_step {T Tk T' : BTree} {item : Item} {g gg r l' r' : NodeId} {sep : Item} {f : Nat} {news : List NodeId}
    {lo hi : Option Int} {gnd gN gL gR : Node} {idx : Nat} {csL csR : Array NodeId}
    (hslk : Tk.sl = T.sl) (hsl' : T'.sl = T.sl) (hsl2 : 2 ≤ T.sl ∧ T.sl % 2 = 0)
    (hg0 : g ≠ 0) (hfull : gnd.count = T.sl) (hshape : NodeShape T gnd) (hidxle : idx ≤ gnd.count)
    (hV1 : KidsOk (fun x l h => WFNode Tk f x g l h) lo hi (kidsIns gnd idx r) (itemsIns gnd idx sep))
    (hV3 : ((kidsIns gnd idx r).flatMap (reach Tk f)).Perm (gnd.kids.flatMap (reach T f) ++ news))
    (hV2 : ∃ L R, absNode T (f + 1) g = L ++ R ∧
      weave (absNode Tk f) (kidsIns gnd idx r) (itemsIns gnd idx sep) = L ++ item :: R ∧
      (∀ x ∈ L, x.key < item.key) ∧ (∀ x ∈ R, item.key ≤ x.key))
    (hVg : g ∉ (kidsIns gnd idx r).flatMap (reach Tk f))
    (hVnd : ((kidsIns gnd idx r).flatMap (reach Tk f)).Nodup)
    (hl'k : Tk.get? l' = none) (hl'0 : l' ≠ 0) (hr'k : Tk.get? r' = none) (hr'0 : r' ≠ 0) (hlr : l' ≠ r')
    (hgN : T'.get? g = some gN) (hgL : T'.get? l' = some gL) (hgR : T'.get? r' = some gR)
    (hother : ∀ y, y ≠ g → y ≠ l' → y ≠ r' → T'.get? y =
      ((Tk.get? y).map (fun n => if y ≠ 0 ∧ y ∈ (kidsIns gnd idx r).take (T.sl / 2 + 1) then { n with parent := l' } else n)).map
        (fun n => if y ≠ 0 ∧ y ∈ (kidsIns gnd idx r).drop (T.sl / 2 + 1) then { n with parent := r' } else n))
    (hNd : NodeShape T' gN ∧ gN.parent = gg ∧ gN.count = 1 ∧ gN.items = [(itemsIns gnd idx sep).getD (T.sl / 2) {}] ∧
      Node.kidArr gN = [l', r'] ∧ ∃ csN, gN.children = some csN ∧ csN.toList.take 2 = [l', r'])
    (hL : NodeShape T' gL ∧ gL.parent = g ∧ gL.count = T.sl / 2 ∧ gL.items = (itemsIns gnd idx sep).take (T.sl / 2) ∧
      gL.children = some csL ∧ csL.toList.take (T.sl / 2 + 1) = (kidsIns gnd idx r).take (T.sl / 2 + 1))
    (hR : NodeShape T' gR ∧ gR.parent = g ∧ gR.count = T.sl / 2 ∧ gR.items = (itemsIns gnd idx sep).drop (T.sl / 2 + 1) ∧
      gR.children = some csR ∧ csR.toList.take (T.sl / 2 + 1) = (kidsIns gnd idx r).drop (T.sl / 2 + 1))
    (hreachT : reach T (f + 1) g = g :: gnd.kids.flatMap (reach T f)) :
    WFNode T' (f + 1 + 1) g gg lo hi ∧
    (reach T' (f + 1 + 1) g).Perm (reach T (f + 1) g ++ (news ++ [l', r'])) ∧
    ∃ L R, absNode T (f + 1) g = L ++ R ∧ absNode T' (f + 1 + 1) g = L ++ item :: R ∧
      (∀ x ∈ L, x.key < item.key) ∧ (∀ x ∈ R, item.key ≤ x.key) := by
  obtain ⟨hLs, hLp, hLcnt, hLi, hLc, hLk⟩ := hL
  obtain ⟨hRs, hRp, hRcnt, hRi, hRc, hRk⟩ := hR
  obtain ⟨hNs, hNp, hNcnt, hNi, hNk, csN, hNc, hNck⟩ := hNd
  have hhalf : T.sl = 2 * (T.sl / 2) := by omega
  have hklen0 := Node.kids_length hshape
  have hilen0 := Node.items_length hshape
  have hKlen : (kidsIns gnd idx r).length = T.sl + 2 := by
    unfold kidsIns; simp; omega
  have hXlen : (itemsIns gnd idx sep).length = T.sl + 1 := by
    unfold itemsIns; simp; omega
  generalize hK : kidsIns gnd idx r = K at *
  generalize hX : itemsIns gnd idx sep = X at *
  have hslx : T'.sl = Tk.sl := by rw [hsl', hslk]
  -- every child subtree, re-parented
  have hkid : ∀ j, j < K.length → K.getD j 0 ≠ 0 → ∀ l h, WFNode Tk f (K.getD j 0) g l h →
      WFNode T' f (K.getD j 0) (if j ≤ T.sl / 2 then l' else r') l h ∧
      absNode T' f (K.getD j 0) = absNode Tk f (K.getD j 0) ∧ reach T' f (K.getD j 0) = reach Tk f (K.getD j 0) := by
    intro j hj hj0 l h hw
    have hjm : K.getD j 0 ∈ K := by rw [getD_of_lt _ _ _ hj]; exact List.getElem_mem hj
    have hxg : K.getD j 0 ≠ g := fun e => hVg (e ▸ List.mem_flatMap.mpr ⟨_, hjm, self_mem_reach hw⟩)
    have hsome : (Tk.get? (K.getD j 0)).isSome := mem_reach_isSome Tk f _ _ (self_mem_reach hw)
    have hxl : K.getD j 0 ≠ l' := by intro e; rw [e, hl'k] at hsome; simp at hsome
    have hxr : K.getD j 0 ≠ r' := by intro e; rw [e, hr'k] at hsome; simp at hsome
    refine reparent hslx hw hg0 ?_ ?_ (reach_child_nodup hVnd hj)
    · rw [hother _ hxg hxl hxr]
      by_cases hle : j ≤ T.sl / 2
      · rw [if_pos hle]
        have hin : K.getD j 0 ∈ K.take (T.sl / 2 + 1) := by
          rw [getD_of_lt _ _ _ hj]
          exact List.mem_take_iff_getElem.mpr ⟨j, by omega, rfl⟩
        have hnot : ¬ (K.getD j 0 ∈ K.drop (T.sl / 2 + 1)) := by
          intro hd
          obtain ⟨j2, hj2, e2⟩ := List.mem_drop_iff_getElem.mp hd
          have := kid_pos_unique hV1 hVnd hj (show T.sl / 2 + 1 + j2 < K.length by omega)
            (by rw [getD_of_lt _ _ _ (show T.sl / 2 + 1 + j2 < K.length by omega), e2]) hj0
          omega
        have c1 : K.getD j 0 ≠ 0 ∧ K.getD j 0 ∈ K.take (T.sl / 2 + 1) := ⟨hj0, hin⟩
        have c2 : ¬ (K.getD j 0 ≠ 0 ∧ K.getD j 0 ∈ K.drop (T.sl / 2 + 1)) := fun h => hnot h.2
        cases Tk.get? (K.getD j 0) with
        | none => rfl
        | some n => simp only [Option.map_some, if_pos c1, if_neg c2]
      · rw [if_neg hle]
        have hin : K.getD j 0 ∈ K.drop (T.sl / 2 + 1) := by
          rw [getD_of_lt _ _ _ hj]
          exact List.mem_drop_iff_getElem.mpr ⟨j - (T.sl / 2 + 1), by omega, by
            congr 1; omega⟩
        have hnot : ¬ (K.getD j 0 ∈ K.take (T.sl / 2 + 1)) := by
          intro hd
          obtain ⟨j2, hj2, e2⟩ := List.mem_take_iff_getElem.mp hd
          have := kid_pos_unique hV1 hVnd hj (show j2 < K.length by omega)
            (by rw [getD_of_lt _ _ _ (show j2 < K.length by omega), e2]) hj0
          omega
        have c1 : ¬ (K.getD j 0 ≠ 0 ∧ K.getD j 0 ∈ K.take (T.sl / 2 + 1)) := fun h => hnot h.2
        have c2 : K.getD j 0 ≠ 0 ∧ K.getD j 0 ∈ K.drop (T.sl / 2 + 1) := ⟨hj0, hin⟩
        cases Tk.get? (K.getD j 0) with
        | none => rfl
        | some n => simp only [Option.map_some, if_neg c1, if_pos c2]
    · intro y hy hyx
      have hy0 := mem_reach_ne_zero Tk f _ y hy
      have hyg : y ≠ g := fun e => hVg (e ▸ List.mem_flatMap.mpr ⟨_, hjm, hy⟩)
      have hyr : y ≠ r' := by
        intro e
        have := mem_reach_isSome Tk f _ y hy
        rw [e, hr'k] at this; simp at this
      have hyl : y ≠ l' := by
        intro e
        have := mem_reach_isSome Tk f _ y hy
        rw [e, hl'k] at this; simp at this
      have hyK : y ∉ K := by
        intro hyK
        obtain ⟨j2, hj2, e2⟩ := List.mem_iff_getElem.mp hyK
        have e2' : K.getD j2 0 = y := by rw [getD_of_lt _ _ _ hj2]; exact e2
        have hself : y ∈ reach Tk f (K.getD j2 0) := by
          rw [e2']
          have := mem_kid_reach hV1 hyK hy0
          exact this
        by_cases hjj : j2 = j
        · subst hjj; exact hyx e2'.symm
        · exact reach_disjoint hVnd hj hj2 (Ne.symm hjj) hy hself
      rw [hother y hyg hyl hyr]
      have h1 : ¬ (y ≠ 0 ∧ y ∈ K.drop (T.sl / 2 + 1)) := fun h => hyK (List.mem_of_mem_drop h.2)
      have h2 : ¬ (y ≠ 0 ∧ y ∈ K.take (T.sl / 2 + 1)) := fun h => hyK (List.mem_of_mem_take h.2)
      cases Tk.get? y with
      | none => rfl
      | some n => simp only [Option.map_some, if_neg h1, if_neg h2]
  -- pointwise facts over the two halves
  have hkidz : ∀ j, j < K.length → (K.getD j 0 = 0 ∨ ∃ l h, WFNode Tk f (K.getD j 0) g l h) := by
    intro j hj
    have hjm : K.getD j 0 ∈ K := by rw [getD_of_lt _ _ _ hj]; exact List.getElem_mem hj
    exact KidsOk.mem _ _ _ _ hV1 _ hjm
  have hA : ∀ x ∈ K, absNode T' f x = absNode Tk f x := by
    intro x hx
    obtain ⟨j, hj, e⟩ := List.mem_iff_getElem.mp hx
    have e' : K.getD j 0 = x := by rw [getD_of_lt _ _ _ hj]; exact e
    rcases hkidz j hj with h0 | ⟨l, h, hw⟩
    · rw [← e', h0, absNode_zero, absNode_zero]
    · rw [← e']
      by_cases hz : K.getD j 0 = 0
      · rw [hz, absNode_zero, absNode_zero]
      · exact (hkid j hj hz l h hw).2.1
  have hRch : ∀ x ∈ K, reach T' f x = reach Tk f x := by
    intro x hx
    obtain ⟨j, hj, e⟩ := List.mem_iff_getElem.mp hx
    have e' : K.getD j 0 = x := by rw [getD_of_lt _ _ _ hj]; exact e
    rcases hkidz j hj with h0 | ⟨l, h, hw⟩
    · rw [← e', h0, reach_zero, reach_zero]
    · rw [← e']
      by_cases hz : K.getD j 0 = 0
      · rw [hz, reach_zero, reach_zero]
      · exact (hkid j hj hz l h hw).2.2
  have hmidmem : X.getD (T.sl / 2) {} ∈ X := by
    rw [getD_of_lt _ _ _ (by omega)]; exact List.getElem_mem _
  have hmid := (itemsOk_good _ _ _ (KidsOk.itemsOk _ _ _ _ (by omega) hV1)).2 _ hmidmem
  have hKL : KidsOk (fun x l h => WFNode T' f x l' l h) lo (some (X.getD (T.sl / 2) {}).key)
      (K.take (T.sl / 2 + 1)) (X.take (T.sl / 2)) := by
    have h1 := KidsOk.takeSucc (T.sl / 2) K X lo hi (by omega) (by omega) hV1
    refine KidsOk.imp_idx _ _ _ _ ?_ h1
    intro j hj l h hw
    have hj' : j < T.sl / 2 + 1 := by simp at hj; omega
    have e : (K.take (T.sl / 2 + 1)).getD j 0 = K.getD j 0 := by
      simp only [List.getD_eq_getElem?_getD, List.getElem?_take, hj', if_true]
    rw [e] at hw ⊢
    by_cases hz : K.getD j 0 = 0
    · exfalso
      rw [hz] at hw
      cases f with
      | zero => exact absurd hw (by simp [WFNode])
      | succ f => exact hw.1 rfl
    · have := (hkid j (by omega) hz l h hw).1
      rwa [if_pos (by omega)] at this
  have hKR : KidsOk (fun x l h => WFNode T' f x r' l h) (some (X.getD (T.sl / 2) {}).key) hi
      (K.drop (T.sl / 2 + 1)) (X.drop (T.sl / 2 + 1)) := by
    have h1 := KidsOk.drop_succ (T.sl / 2) K X lo hi (by omega) hV1
    refine KidsOk.imp_idx _ _ _ _ ?_ h1
    intro j hj l h hw
    have hj' : T.sl / 2 + 1 + j < K.length := by simp at hj; omega
    have e : (K.drop (T.sl / 2 + 1)).getD j 0 = K.getD (T.sl / 2 + 1 + j) 0 := by
      simp only [List.getD_eq_getElem?_getD, List.getElem?_drop]
    rw [e] at hw ⊢
    by_cases hz : K.getD (T.sl / 2 + 1 + j) 0 = 0
    · exfalso
      rw [hz] at hw
      cases f with
      | zero => exact absurd hw (by simp [WFNode])
      | succ f => exact hw.1 rfl
    · have := (hkid _ hj' hz l h hw).1
      rwa [if_neg (by omega)] at this
  have hkAL : Node.kidArr gL = K.take (T.sl / 2 + 1) := by rw [← hLk]; simp [Node.kidArr, hLc, hLcnt]
  have hkAR : Node.kidArr gR = K.drop (T.sl / 2 + 1) := by rw [← hRk]; simp [Node.kidArr, hRc, hRcnt]
  have hAL : absNode T' (f + 1) l' = weave (absNode Tk f) (K.take (T.sl / 2 + 1)) (X.take (T.sl / 2)) := by
    rw [absNode]
    simp only [hl'0, if_false, hgL, hLc]
    rw [hLcnt, hLk, hLi]
    exact weave_congr _ _ (fun x hx => hA x (List.mem_of_mem_take hx))
  have hAR : absNode T' (f + 1) r' = weave (absNode Tk f) (K.drop (T.sl / 2 + 1)) (X.drop (T.sl / 2 + 1)) := by
    rw [absNode]
    simp only [hr'0, if_false, hgR, hRc]
    rw [hRcnt, hRk, hRi]
    exact weave_congr _ _ (fun x hx => hA x (List.mem_of_mem_drop hx))
  have hRL : reach T' (f + 1) l' = l' :: (K.take (T.sl / 2 + 1)).flatMap (reach Tk f) := by
    rw [reach_succ hl'0 hgL, hkAL]
    congr 1
    exact flatMap_congr' _ (fun x hx => hRch x (List.mem_of_mem_take hx))
  have hRR : reach T' (f + 1) r' = r' :: (K.drop (T.sl / 2 + 1)).flatMap (reach Tk f) := by
    rw [reach_succ hr'0 hgR, hkAR]
    congr 1
    exact flatMap_congr' _ (fun x hx => hRch x (List.mem_of_mem_drop hx))
  have hWL : WFNode T' (f + 1) l' g lo (some (X.getD (T.sl / 2) {}).key) := by
    refine ⟨hl'0, gL, hgL, hLp, hLs, Or.inr (by rw [hLcnt]; omega), ?_⟩
    rw [hLc]; simp only; rw [hLcnt, hLk, hLi]; exact hKL
  have hWR : WFNode T' (f + 1) r' g (some (X.getD (T.sl / 2) {}).key) hi := by
    refine ⟨hr'0, gR, hgR, hRp, hRs, Or.inr (by rw [hRcnt]; omega), ?_⟩
    rw [hRc]; simp only; rw [hRcnt, hRk, hRi]; exact hKR
  refine ⟨⟨hg0, gN, hgN, hNp, hNs, Or.inr (by rw [hNcnt]; omega), ?_⟩, ?_, ?_⟩
  · rw [hNc]; simp only; rw [hNcnt, hNck, hNi]
    exact ⟨Or.inr hWL, hmid.1, hmid.2.1, hmid.2.2, Or.inr hWR, rfl⟩
  · rw [reach_succ hg0 hgN, hNk, hreachT]
    simp only [List.flatMap_cons, List.flatMap_nil, List.append_nil, hRL, hRR, List.cons_append]
    apply List.Perm.cons
    have hsplit : K.flatMap (reach Tk f) =
        (K.take (T.sl / 2 + 1)).flatMap (reach Tk f) ++ (K.drop (T.sl / 2 + 1)).flatMap (reach Tk f) := by
      rw [← List.flatMap_append, List.take_append_drop]
    rw [hsplit] at hV3
    -- l' :: A ++ r' :: B  ~  kidsT ++ (news ++ [l', r'])
    have h1 : (l' :: ((K.take (T.sl / 2 + 1)).flatMap (reach Tk f) ++ r' :: (K.drop (T.sl / 2 + 1)).flatMap (reach Tk f))).Perm
        (l' :: r' :: ((K.take (T.sl / 2 + 1)).flatMap (reach Tk f) ++ (K.drop (T.sl / 2 + 1)).flatMap (reach Tk f))) :=
      List.Perm.cons _ List.perm_middle
    refine h1.trans ?_
    refine (List.Perm.cons l' (List.Perm.cons r' hV3)).trans ?_
    have h2 : (gnd.kids.flatMap (reach T f) ++ (news ++ [l', r'])) =
        (gnd.kids.flatMap (reach T f) ++ news) ++ [l', r'] := by simp
    rw [h2]
    have h3 : (l' :: r' :: (gnd.kids.flatMap (reach T f) ++ news)) = [l', r'] ++ (gnd.kids.flatMap (reach T f) ++ news) := rfl
    rw [h3]
    exact List.perm_append_comm
  · obtain ⟨L, R, hA0, hA1, hLb, hRb⟩ := hV2
    refine ⟨L, R, hA0, ?_, hLb, hRb⟩
    rw [absNode]
    simp only [hg0, if_false, hgN, hNc]
    rw [hNcnt, hNck, hNi]
    simp only [weave]
    rw [hAL, hAR, List.append_nil, ← hA1]
    exact (weave_halves _ (T.sl / 2) K X (by omega) (by omega)).symm

/-! Insert proofs for Model B, part 45: STAGE 5 (root) — the root split inside `promote`: nodes and final step. -/

theorem nodeShape_of_eq {t : BTree} {a b : Node} (h1 : b.slots = a.slots) (h2 : b.count = a.count) (h3 : b.ion = a.ion)
    (h4 : b.children = a.children) (h : NodeShape t a) : NodeShape t b := by
  unfold NodeShape at *
  rw [h1, h2, h3, h4]; exact h

theorem rootF_facts {T T' : BTree} {nd : Node} (hs : NodeShape T nd) (sl' : Nat) (l' : NodeId) (mid : Item) (hsl : 2 ≤ T.sl)
    (hsl' : T'.sl = T.sl) (hsl'' : sl' = T.sl) :
    NodeShape T' (rootF sl' l' mid nd) ∧ (rootF sl' l' mid nd).items = [mid] ∧
      Node.kidArr (rootF sl' l' mid nd) = [l', l' + 1] ∧
      ∃ csN, (rootF sl' l' mid nd).children = some csN ∧ csN.toList.take 2 = [l', l' + 1] := by
  subst hsl''
  obtain ⟨h1, h2, h3, h4, h5⟩ := hs
  have hz : (zeros nd.slots.size).toList = ({} : Item) :: List.replicate (T.sl - 1) {} := by
    rw [h1]
    have : T.sl = (T.sl - 1) + 1 := by omega
    conv => lhs; rw [this]
    simp [zeros, List.replicate_succ]
  have hk : (((zeroIds (T.sl + 1)).setIfInBounds 0 l').setIfInBounds 1 (l' + 1)).toList =
      l' :: (l' + 1) :: List.replicate (T.sl - 1) 0 := by
    have : T.sl + 1 = (T.sl - 1) + 1 + 1 := by omega
    rw [this]
    simp [zeroIds, List.replicate_succ]
  have hkids : ((((zeroIds (T.sl + 1)).setIfInBounds 0 l').setIfInBounds 1 (l' + 1)).toList).take (1 + 1) =
      [l', l' + 1] := by rw [hk]; rfl
  refine ⟨⟨?_, ?_, by rw [hsl']; exact h3, ?_, ?_⟩, ?_, hkids, _, rfl, hkids⟩
  · show ((zeros nd.slots.size).setIfInBounds 0 mid).size = T'.sl
    simp [zeros, h1, hsl']
  · show 1 ≤ T'.sl; omega
  · intro x hx
    have hx' : x ∈ ((zeros nd.slots.size).setIfInBounds 0 mid).toList.drop 1 := hx
    rw [Array.toList_setIfInBounds, hz] at hx'
    simp only [List.set_cons_zero, List.drop_succ_cons, List.drop_zero] at hx'
    exact List.eq_of_mem_replicate hx'
  · intro cs hcs
    have : cs = (((zeroIds (T.sl + 1)).setIfInBounds 0 l').setIfInBounds 1 (l' + 1)) := by
      have h : (rootF T.sl l' mid nd).children = some _ := rfl
      rw [h] at hcs; exact (Option.some.inj hcs).symm
    subst this
    refine ⟨by simp [zeroIds, hsl'], ?_⟩
    intro c hc
    have hc' : c ∈ ((((zeroIds (T.sl + 1)).setIfInBounds 0 l').setIfInBounds 1 (l' + 1)).toList).drop (1 + 1) := hc
    rw [hk] at hc'
    simp only [List.drop_succ_cons, List.drop_zero] at hc'
    exact List.eq_of_mem_replicate hc'
  · show ((zeros nd.slots.size).setIfInBounds 0 mid).toList.take 1 = [mid]
    rw [Array.toList_setIfInBounds, hz]; rfl


/-- what is known about the tree after the promote loop ended with a root split -/
structure RootOut (T T' : BTree) (saved : Bool) (news : List NodeId) : Prop where
  newsEq : news = List.range' T.nextId news.length
  newsNone : ∀ x ∈ news, T.get? x = none
  newsNodup : news.Nodup
  len : T'.nodes.length = T.nodes.length + news.length
  sl : T'.sl = T.sl
  prom : T'.promTarget = 0
  ok : T'.panicked = false
  fresh : Fresh T'
  base : SameBase T T'
  uniq : T'.unique = saved
  nextId : T.nextId < T'.nextId
  keep : ∀ x, (T.get? x).isSome → (T'.get? x).isSome
  news1 : 1 ≤ news.length

/-- LAST STEP at a full ROOT: `promote` splits the root in place (two fresh children), the loop stops -/
theorem root_final {T Tk : BTree} {saved : Bool} {item : Item} {g gg c r : NodeId} {sep : Item} {f : Nat}
    {news : List NodeId} {idx : Nat} {lo hi : Option Int} {gnd : Node} {cs : Array NodeId}
    (hS : PState T Tk saved item g c r sep f news idx)
    (hW : WFNode T (f + 1) g gg lo hi) (hN : (reach T (f + 1) g).Nodup) (hlo : LeO lo item.key) (hhi : OLe item.key hi)
    (hgg : T.get? g = some gnd) (hcs : gnd.children = some cs)
    (hidx : idx = (getIndexToInsertTo T gnd item.key).1) (hchild : gnd.child idx = c) (hc0 : c ≠ 0)
    (hfull : gnd.count = T.sl) (hgg0 : gg = 0) (hfreshT : Fresh T) (hsl2 : 2 ≤ T.sl ∧ T.sl % 2 = 0) :
    (∀ l h, WFNode T (f + 1) g gg l h → LeO l item.key → OLe item.key h →
      WFNode (({ Tk with promTarget := 0, promIdx := 0 } : BTree).promoteStep g (idx : Int)) (f + 1 + 1) g gg l h ∧
      (reach (({ Tk with promTarget := 0, promIdx := 0 } : BTree).promoteStep g (idx : Int)) (f + 1 + 1) g).Perm
        (reach T (f + 1) g ++ (news ++ [Tk.nextId, Tk.nextId + 1])) ∧
      ∃ L R, absNode T (f + 1) g = L ++ R ∧
        absNode (({ Tk with promTarget := 0, promIdx := 0 } : BTree).promoteStep g (idx : Int)) (f + 1 + 1) g = L ++ item :: R ∧
        (∀ x ∈ L, x.key < item.key) ∧ (∀ x ∈ R, item.key ≤ x.key)) ∧
    (∀ x, (T.get? x).isSome → x ∉ reach T (f + 1) g →
      (({ Tk with promTarget := 0, promIdx := 0 } : BTree).promoteStep g (idx : Int)).get? x = T.get? x) ∧
    RootOut T (({ Tk with promTarget := 0, promIdx := 0 } : BTree).promoteStep g (idx : Int)) saved
      (news ++ [Tk.nextId, Tk.nextId + 1]) := by
  obtain ⟨hP, ⟨hp1, hp2, hp3, hp4, hp5⟩, hok, hlen, hfr, hnext, hbase, huq, hkeep, hnews1, hnexteq, hnewseq⟩ := hS
  have hgch : gnd.hasChildren = true := by simp [Node.hasChildren, hcs]
  obtain ⟨hgk, hidxle, hV1, hV3, hV2, hVfr, hVg, hVnd⟩ := virt hP hW hN hlo hhi hgg hgch hidx hchild hc0
  have hW' := hW
  obtain ⟨hg0, nd0, hg1, hgp, hgs, _, _⟩ := hW
  rw [hgg] at hg1; cases hg1
  have hreachT : reach T (f + 1) g = g :: gnd.kids.flatMap (reach T f) := by
    rw [reach_succ hg0 hgg]; simp [Node.kidArr, Node.kids, hcs]
  obtain ⟨Tk0, hTk0⟩ : ∃ Tk0, Tk0 = ({ Tk with promTarget := 0, promIdx := 0 } : BTree) := ⟨_, rfl⟩
  have h0get : ∀ x, Tk0.get? x = Tk.get? x := by intro x; rw [hTk0]; rfl
  have h0sl : Tk0.sl = T.sl := by rw [hTk0]; exact hP.sl
  have h0next : Tk0.nextId = Tk.nextId := by rw [hTk0]
  have h0tp : Tk0.tempParent = sep := by rw [hTk0]; exact hp3
  have h0c : Tk0.tpc0 = c := by rw [hTk0]; exact hp4
  have h0r : Tk0.tpc1 = r := by rw [hTk0]; exact hp5
  rw [← hTk0]
  have hisr : gnd.isRoot = true := by simp [Node.isRoot, hgp, hgg0]
  rw [promoteStep_rootSplit (t := Tk0) (by rw [h0get]; exact hgk) hcs (by rw [h0sl, hfull]; omega) (by rw [h0sl, ← hfull]; exact hidxle) hisr]
  have hci : cs.getD idx 0 = Tk0.tpc0 := by
    rw [h0c, ← hchild]; simp [Node.child, hcs]
  have hgs0 : NodeShape Tk0 gnd := nodeShape_congr h0sl hgs
  obtain ⟨hXl, hXsz⟩ := innerTemp_toList (t := Tk0) hgs0 (by rw [h0sl]; exact hfull) hidxle
  obtain ⟨hKl, hKsz⟩ := innerTc_toList (t := Tk0) hgs0 hcs (by rw [h0sl]; exact hfull) hidxle hci
  rw [h0tp] at hXl
  rw [h0r] at hKl
  have hklen0 := Node.kids_length hgs
  have hilen0 := Node.items_length hgs
  have hKlen : (kidsIns gnd idx r).length = T.sl + 2 := by unfold kidsIns; simp; omega
  have hXlen : (itemsIns gnd idx sep).length = T.sl + 1 := by unfold itemsIns; simp; omega
  generalize hKdef : kidsIns gnd idx r = K at *
  generalize hXdef : itemsIns gnd idx sep = X at *
  have hhalf : T.sl = 2 * (T.sl / 2) := by omega
  have hKflat : ∀ y ∈ K, y ≠ 0 → y ∈ K.flatMap (reach Tk f) :=
    fun y hy hy0 => List.mem_flatMap.mpr ⟨y, hy, mem_kid_reach hV1 hy hy0⟩
  have hgK : ∀ (l : List NodeId), (∀ y ∈ l, y ∈ K) → ¬ (g ≠ 0 ∧ g ∈ l) := fun l hl h => hVg (hKflat g (hl g h.2) h.1)
  have hl'k : Tk.get? Tk.nextId = none := fresh_get? hfr (Nat.le_refl _)
  have hr'k : Tk.get? (Tk.nextId + 1) = none := fresh_get? hfr (Nat.le_succ _)
  have hl'0 : Tk.nextId ≠ 0 := Nat.ne_of_gt hfr.1
  have hinT : ∀ y ∈ K, y ≠ 0 → y ∈ reach T (f + 1) g ∨ y ∈ news := by
    intro y hy hy0
    rcases List.mem_append.mp (hV3.mem_iff.mp (hKflat y hy hy0)) with h | h
    · left; rw [hreachT]; exact List.mem_cons_of_mem _ h
    · right; exact h
  have hgl' : g ≠ Tk.nextId := by intro e; rw [e, hl'k] at hgk; cases hgk
  have hgr' : g ≠ Tk.nextId + 1 := by intro e; rw [e, hr'k] at hgk; cases hgk
  obtain ⟨⟨hLs0, hLi0, hLAk, hLA⟩, ⟨hRs0, hRi0, hRAk, hRA⟩⟩ := inner_nodes (T := T)
    (T' := rootInnerSplit Tk0 g gnd cs idx) (t := Tk0) (cs := cs) hgs h0sl (by
      have := (rootInnerSplit_fields Tk0 g gnd cs idx (by rw [h0get, h0next]; exact hl'k) (by rw [h0get, h0next]; exact hr'k)).1
      have h9 := congrArg (fun b : BTree => b.sl) this
      exact h9.trans h0sl) hsl2 hXl hXlen hKl hKlen (-1) (by omega)
  have hLAmem : ∀ y ∈ (goCopy (zeroIds (Tk0.sl + 1)) 0 (innerTc Tk0 gnd cs idx) 0 (Tk0.sl / 2 + 1)).toList, y ≠ 0 → y ∈ K := by
    intro y hy hy0
    rw [hLA] at hy
    exact List.mem_of_mem_take ((mem_pad_iff _ _ y).mp ⟨hy0, hy⟩).2
  have hRAmem : ∀ y ∈ (goCopy (zeroIds (Tk0.sl + 1)) 0 (innerTc Tk0 gnd cs idx) (Tk0.sl / 2 + 1)
      (Tk0.sl / 2 + 1 + Tk0.sl / 2 + 1)).toList, y ≠ 0 → y ∈ K := by
    intro y hy hy0
    rw [hRA] at hy
    exact List.mem_of_mem_drop ((mem_pad_iff _ _ y).mp ⟨hy0, hy⟩).2
  have hnotin : ∀ z : NodeId, (∀ (l : List NodeId), (∀ y ∈ l, y ∈ K) → ¬ (z ≠ 0 ∧ z ∈ l)) →
      ¬ (z ≠ 0 ∧ z ∈ (goCopy (zeroIds (Tk0.sl + 1)) 0 (innerTc Tk0 gnd cs idx) 0 (Tk0.sl / 2 + 1)).toList) ∧
      ¬ (z ≠ 0 ∧ z ∈ (goCopy (zeroIds (Tk0.sl + 1)) 0 (innerTc Tk0 gnd cs idx) (Tk0.sl / 2 + 1)
        (Tk0.sl / 2 + 1 + Tk0.sl / 2 + 1)).toList) := by
    intro z hz
    refine ⟨fun h => hz (K.filter (· = z)) (fun y hy => (List.mem_filter.mp hy).1)
      ⟨h.1, List.mem_filter.mpr ⟨hLAmem z h.2 h.1, by simp⟩⟩,
      fun h => hz (K.filter (· = z)) (fun y hy => (List.mem_filter.mp hy).1)
      ⟨h.1, List.mem_filter.mpr ⟨hRAmem z h.2 h.1, by simp⟩⟩⟩
  -- fields and lookups
  obtain ⟨rf1, rf2, rf3⟩ := rootInnerSplit_fields Tk0 g gnd cs idx (by rw [h0get, h0next]; exact hl'k)
    (by rw [h0get, h0next]; exact hr'k)
  obtain ⟨uf1, _, _⟩ := rootInnerU_fields Tk0 g gnd cs idx
  have hUsl : (rootInnerU Tk0 g gnd cs idx).sl = T.sl := by
    have h9 := congrArg (fun b : BTree => b.sl) uf1
    exact h9.trans h0sl
  obtain ⟨T', hT'⟩ : ∃ T', T' = rootInnerSplit Tk0 g gnd cs idx := ⟨_, rfl⟩
  rw [← hT'] at rf1 rf2 rf3 hLs0 hRs0 ⊢
  have hPf : ∀ {α} (F : BTree → α), (∀ B : BTree, ∀ l, F { B with nodes := l } = F B) →
      F T' = F ({ Tk0 with nextId := Tk0.nextId + 1 + 1 } : BTree) := by
    intro α F hF
    rw [← hF _ Tk0.nodes, rf1]
  have hsl' : T'.sl = T.sl := by rw [hPf (·.sl) (fun _ _ => rfl)]; exact h0sl
  have hUg : (rootInnerU Tk0 g gnd cs idx).get? g = some gnd := by
    rw [rootInnerU_get?, h0get, hgk]
    simp only [Option.map_some, if_neg (hnotin g hgK).1, if_neg (hnotin g hgK).2]
  have hgN : T'.get? g = some (rootF (rootInnerU Tk0 g gnd cs idx).sl Tk0.nextId
      ((innerTemp Tk0 gnd idx).getD (Tk0.sl / 2) {}) gnd) := by
    rw [hT', rootInnerSplit_get?, h0next, if_neg (Ne.symm hgr'), if_neg (Ne.symm hgl'), hUg]
    simp
  have hgL : T'.get? Tk.nextId = some (rootLeft Tk0 g (innerTemp Tk0 gnd idx) (innerTc Tk0 gnd cs idx)) := by
    rw [hT', rootInnerSplit_get?, h0next, if_neg (by omega), if_pos rfl]
  have hgR : T'.get? (Tk.nextId + 1) = some (rootRight Tk0 g (innerTemp Tk0 gnd idx) (innerTc Tk0 gnd cs idx)) := by
    rw [hT', rootInnerSplit_get?, h0next, if_pos rfl]
  have hother : ∀ y, y ≠ g → y ≠ Tk.nextId → y ≠ Tk.nextId + 1 → T'.get? y =
      ((Tk.get? y).map (fun n => if y ≠ 0 ∧ y ∈ K.take (T.sl / 2 + 1) then { n with parent := Tk.nextId } else n)).map
        (fun n => if y ≠ 0 ∧ y ∈ K.drop (T.sl / 2 + 1) then { n with parent := Tk.nextId + 1 } else n) := by
    intro y hyg hyl hyr
    rw [hT', rootInnerSplit_get?, h0next, if_neg (Ne.symm hyr), if_neg (Ne.symm hyl), rootInnerU_get?, h0get, hLA, hRA, h0next]
    have e1 : (y ≠ 0 ∧ y ∈ K.drop (T.sl / 2 + 1) ++ List.replicate (T.sl + 1 - (T.sl / 2 + 1)) 0) =
        (y ≠ 0 ∧ y ∈ K.drop (T.sl / 2 + 1)) := propext (mem_pad_iff _ _ y)
    have e2 : (y ≠ 0 ∧ y ∈ K.take (T.sl / 2 + 1) ++ List.replicate (T.sl + 1 - (T.sl / 2 + 1)) 0) =
        (y ≠ 0 ∧ y ∈ K.take (T.sl / 2 + 1)) := propext (mem_pad_iff _ _ y)
    cases Tk.get? y with
    | none => rfl
    | some n =>
      simp only [Option.map_some, if_neg hyg, Option.some.injEq]
      simp only [e1, e2]
  -- the three nodes
  have hmidE : (innerTemp Tk0 gnd idx).getD (Tk0.sl / 2) {} = X.getD (T.sl / 2) {} := by
    rw [h0sl, ← hXl]; simp [Array.getD_eq_getD_getElem?, List.getD_eq_getElem?_getD]
  obtain ⟨hNs, hNi, hNk, csN, hNc, hNck⟩ := rootF_facts (T := T) (T' := T') hgs (rootInnerU Tk0 g gnd cs idx).sl Tk0.nextId
    ((innerTemp Tk0 gnd idx).getD (Tk0.sl / 2) {}) hsl2.1 hsl' hUsl
  have hNi' : (rootF (rootInnerU Tk0 g gnd cs idx).sl Tk0.nextId ((innerTemp Tk0 gnd idx).getD (Tk0.sl / 2) {}) gnd).items =
      [X.getD (T.sl / 2) {}] := by rw [hNi, hmidE]
  have hNk' : Node.kidArr (rootF (rootInnerU Tk0 g gnd cs idx).sl Tk0.nextId ((innerTemp Tk0 gnd idx).getD (Tk0.sl / 2) {}) gnd) =
      [Tk.nextId, Tk.nextId + 1] := by rw [hNk, h0next]
  have hNck' : csN.toList.take 2 = [Tk.nextId, Tk.nextId + 1] := by rw [hNck, h0next]
  have hLs : NodeShape T' (rootLeft Tk0 g (innerTemp Tk0 gnd idx) (innerTc Tk0 gnd cs idx)) :=
    nodeShape_of_eq (a := ({ innerLeftF Tk0 (innerTemp Tk0 gnd idx) (innerTc Tk0 gnd cs idx) gnd with ion := -1 } : Node))
      (b := rootLeft Tk0 g (innerTemp Tk0 gnd idx) (innerTc Tk0 gnd cs idx))
      (by show goCopy (zeros Tk0.sl) 0 _ 0 _ = goCopy (zeros gnd.slots.size) 0 _ 0 _; rw [hgs.1, h0sl]) rfl rfl rfl hLs0
  have hLi : (rootLeft Tk0 g (innerTemp Tk0 gnd idx) (innerTc Tk0 gnd cs idx)).items = X.take (T.sl / 2) := by
    rw [← hLi0]
    show (goCopy (zeros Tk0.sl) 0 _ 0 _).toList.take _ = (goCopy (zeros gnd.slots.size) 0 _ 0 _).toList.take _
    rw [hgs.1, h0sl]
    rfl
  have hRs : NodeShape T' (rootRight Tk0 g (innerTemp Tk0 gnd idx) (innerTc Tk0 gnd cs idx)) :=
    nodeShape_of_eq rfl rfl rfl rfl hRs0
  have hRi : (rootRight Tk0 g (innerTemp Tk0 gnd idx) (innerTc Tk0 gnd cs idx)).items = X.drop (T.sl / 2 + 1) := hRi0
  have main : ∀ l h, WFNode T (f + 1) g gg l h → LeO l item.key → OLe item.key h →
      WFNode T' (f + 1 + 1) g gg l h ∧
      (reach T' (f + 1 + 1) g).Perm (reach T (f + 1) g ++ (news ++ [Tk.nextId, Tk.nextId + 1])) ∧
      ∃ L R, absNode T (f + 1) g = L ++ R ∧ absNode T' (f + 1 + 1) g = L ++ item :: R ∧
        (∀ x ∈ L, x.key < item.key) ∧ (∀ x ∈ R, item.key ≤ x.key) := by
    intro l h hw hl hh
    obtain ⟨_, _, hV1', hV3', hV2', _, hVg', hVnd'⟩ := virt hP hw hN hl hh hgg hgch hidx hchild hc0
    rw [hKdef, hXdef] at hV1' hV2'
    rw [hKdef] at hV3' hVg' hVnd'
    have := root_split_step (T := T) (Tk := Tk) (T' := T') (item := item) (g := g) (gg := gg) (r := r)
      (l' := Tk.nextId) (r' := Tk.nextId + 1) (sep := sep) (f := f) (news := news) (lo := l) (hi := h) (gnd := gnd) (idx := idx)
      hP.sl hsl' hsl2 hg0 hfull hgs hidxle (by rw [hKdef, hXdef]; exact hV1') (by rw [hKdef]; exact hV3')
      (by rw [hKdef, hXdef]; exact hV2') (by rw [hKdef]; exact hVg') (by rw [hKdef]; exact hVnd')
      hl'k hl'0 hr'k (Nat.succ_ne_zero _) (Nat.ne_of_lt (Nat.lt_succ_self _)) hgN hgL hgR (by rw [hKdef]; exact hother)
      ⟨hNs, hgp, rfl, by rw [hXdef]; exact hNi', hNk', csN, hNc, hNck'⟩
      ⟨hLs, rfl, by show Tk0.sl / 2 = T.sl / 2; rw [h0sl], by rw [hXdef]; exact hLi, rfl, by rw [hKdef]; exact hLAk⟩
      ⟨hRs, rfl, by show Tk0.sl / 2 = T.sl / 2; rw [h0sl], by rw [hXdef]; exact hRi, rfl, by rw [hKdef]; exact hRAk⟩ hreachT
    exact this
  have hnewsSome : ∀ x ∈ news, (Tk.get? x).isSome := by
    intro x hx
    have : x ∈ reach Tk f c ++ reach Tk f r := hP.reach.mem_iff.mpr (List.mem_append_right _ hx)
    rcases List.mem_append.mp this with h | h
    · exact mem_reach_isSome Tk f c x h
    · exact mem_reach_isSome Tk f r x h
  have hTl' : T.get? Tk.nextId = none := fresh_get? hfreshT (Nat.le_of_lt hnext)
  have hTr' : T.get? (Tk.nextId + 1) = none := fresh_get? hfreshT (by omega)
  refine ⟨main, ?_, ?_⟩
  · intro x hs hx
    have hxg : x ≠ g := fun e => hx (by rw [e]; exact self_mem_reach hW')
    have hxl : x ≠ Tk.nextId := by intro e; rw [e, hTl'] at hs; simp at hs
    have hxr : x ≠ Tk.nextId + 1 := by intro e; rw [e, hTr'] at hs; simp at hs
    have hxK : ∀ (l : List NodeId), (∀ y ∈ l, y ∈ K) → ¬ (x ≠ 0 ∧ x ∈ l) := by
      intro l hl h
      rcases hinT x (hl _ h.2) h.1 with h1 | h1
      · exact hx h1
      · have := hP.newsNone x h1; rw [this] at hs; simp at hs
    rw [hother x hxg hxl hxr, hVfr x hs hx]
    have c1 := hxK (K.drop (T.sl / 2 + 1)) (fun y hy => List.mem_of_mem_drop hy)
    have c2 := hxK (K.take (T.sl / 2 + 1)) (fun y hy => List.mem_of_mem_take hy)
    cases T.get? x with
    | none => rfl
    | some n => simp only [Option.map_some, if_neg c1, if_neg c2]
  · obtain ⟨b1, b2, b3, b4, b5, b6, b7, b8⟩ := hbase
    refine ⟨?_, ?_, ?_, ?_, hsl', ?_, ?_, ?_, ⟨?_, ?_, ?_, ?_, ?_, ?_, ?_, ?_⟩, ?_, ?_, ?_, by simp⟩
    · rw [List.length_append]
      show _ = List.range' T.nextId (news.length + 2)
      rw [show news.length + 2 = (news.length + 1) + 1 by omega, List.range'_concat, List.range'_concat, ← hnewseq, hnexteq]
      simp
      omega
    · intro x hx
      rcases List.mem_append.mp hx with h | h
      · exact hP.newsNone x h
      · simp only [List.mem_cons, List.not_mem_nil, or_false] at h
        rcases h with rfl | rfl
        · exact hTl'
        · exact hTr'
    · rw [List.nodup_append]
      refine ⟨hP.newsNodup, by simp, ?_⟩
      intro a ha b hb e
      have := hnewsSome a ha
      simp only [List.mem_cons, List.not_mem_nil, or_false] at hb
      rcases hb with rfl | rfl
      · rw [e, hl'k] at this; simp at this
      · rw [e, hr'k] at this; simp at this
    · have h0len : Tk0.nodes.length = Tk.nodes.length := by rw [hTk0]
      rw [rf2, h0len, hlen, List.length_append]; simp; omega
    · rw [hPf (·.promTarget) (fun _ _ => rfl), hTk0]
    · rw [hPf (·.panicked) (fun _ _ => rfl), hTk0]; exact hok
    · exact rf3 (by rw [hTk0]; exact hfr)
    · rw [hPf (·.root) (fun _ _ => rfl), hTk0]; exact b1
    · rw [hPf (·.count) (fun _ _ => rfl), hTk0]; exact b2
    · rw [hPf (·.cur) (fun _ _ => rfl), hTk0]; exact b3
    · rw [hPf (·.lb) (fun _ _ => rfl), hTk0]; exact b4
    · rw [hPf (·.fixFast) (fun _ _ => rfl), hTk0]; exact b5
    · rw [hPf (·.fixErr) (fun _ _ => rfl), hTk0]; exact b6
    · rw [hPf (·.fixId) (fun _ _ => rfl), hTk0]; exact b7
    · rw [hPf (·.distSrc) (fun _ _ => rfl), hTk0]; exact b8
    · rw [hPf (·.unique) (fun _ _ => rfl), hTk0]; exact huq
    · rw [hPf (·.nextId) (fun _ _ => rfl)]
      show T.nextId < Tk0.nextId + 1 + 1
      rw [h0next]; omega
    · intro x hx
      have hk := hkeep x hx
      by_cases hxg : x = g
      · rw [hxg, hgN]; rfl
      · have hxl : x ≠ Tk.nextId := by intro e; rw [e, hl'k] at hk; simp at hk
        have hxr : x ≠ Tk.nextId + 1 := by intro e; rw [e, hr'k] at hk; simp at hk
        rw [hother x hxg hxl hxr]
        cases hT : Tk.get? x with
        | none => rw [hT] at hk; simp at hk
        | some n => rfl

/-! Insert proofs for Model B, part 46: STAGE 5 (root) — the promote cascade that splits the root. -/

theorem fullPath_succ (key : Int) : ∀ (fuel : Nat) (t : BTree) (c n : NodeId),
    fullPath key fuel t c n → fullPath key (fuel + 1) t c n
  | 0, _, _, _, h => absurd h (by simp [fullPath])
  | fuel + 1, t, c, n, h => by
    unfold fullPath at h ⊢
    refine ⟨h.1, ?_⟩
    rcases h.2 with e | ⟨h1, h2, h3⟩
    · exact Or.inl e
    · exact Or.inr ⟨h1, h2, fullPath_succ key fuel t _ n h3⟩

/-- the promote loop after a leaf split when every node from the root down to the leaf is full: the loop ends
    with the root split -/
theorem cascade_root_at {T : BTree} (saved : Bool) {item : Item} {q n : NodeId} {i idx : Nat} {gnd : Node} {cs : Array NodeId}
    (hfreshT : Fresh T) (hsl2 : 2 ≤ T.sl ∧ T.sl % 2 = 0) (hid : item.id ≠ 0) (hok : T.panicked = false)
    (hleafn : (T.get n).hasChildren = false) (hieq : i = (getIndexToInsertTo T (T.get n) item.key).1) (hn0 : n ≠ 0)
    (hgq : T.get? q = some gnd) (hcs : gnd.children = some cs) (hidx : idx = (getIndexToInsertTo T gnd item.key).1)
    (hc0 : gnd.child idx ≠ 0) (hfull : gnd.count = T.sl) (hfp : fullPath item.key T.fuel T (gnd.child idx) n)
    {f : Nat} {p : NodeId} {l h : Option Int} (hW : WFNode T (f + 1) q p l h) (hp0 : p = 0)
    (hfl : f + 1 ≤ T.nodes.length + 1)
    (hN : (reach T (f + 1) q).Nodup) (hl : LeO l item.key) (hh : OLe item.key h) :
    ∃ news,
      (WFNode (promoteLoop (({ leafSplit T n item i with unique := saved } : BTree).fuel + 2)
          ({ leafSplit T n item i with unique := saved } : BTree)) (f + 1 + 1) q p l h ∧
        (reach (promoteLoop (({ leafSplit T n item i with unique := saved } : BTree).fuel + 2)
          ({ leafSplit T n item i with unique := saved } : BTree)) (f + 1 + 1) q).Perm (reach T (f + 1) q ++ news) ∧
        ∃ L R, absNode T (f + 1) q = L ++ R ∧
          absNode (promoteLoop (({ leafSplit T n item i with unique := saved } : BTree).fuel + 2)
            ({ leafSplit T n item i with unique := saved } : BTree)) (f + 1 + 1) q = L ++ item :: R ∧
          (∀ x ∈ L, x.key < item.key) ∧ (∀ x ∈ R, item.key ≤ x.key)) ∧
      (∀ x, (T.get? x).isSome → x ∉ reach T (f + 1) q →
        (promoteLoop (({ leafSplit T n item i with unique := saved } : BTree).fuel + 2)
          ({ leafSplit T n item i with unique := saved } : BTree)).get? x = T.get? x) ∧
      RootOut T (promoteLoop (({ leafSplit T n item i with unique := saved } : BTree).fuel + 2)
          ({ leafSplit T n item i with unique := saved } : BTree)) saved news := by
  obtain ⟨T0, hT0⟩ : ∃ T0, T0 = ({ leafSplit T n item i with unique := saved } : BTree) := ⟨_, rfl⟩
  rw [← hT0]
  obtain ⟨k, r, sep, news, hkf, hS, hrun, hlen0⟩ := up saved hfreshT hsl2 hid hok hleafn hieq hn0 f q p (gnd.child idx) l h
    T.fuel gnd cs idx hW hN hl hh hgq hcs hidx rfl hc0 (by unfold BTree.fuel; omega) hfp
  rw [← hT0] at hS hrun hlen0
  obtain ⟨hwf, hframe, hout⟩ := root_final hS hW hN hl hh hgq hcs hidx rfl hc0 hfull hp0 hfreshT hsl2
  obtain ⟨Tk, hTk⟩ : ∃ Tk, Tk = iter k T0 := ⟨_, rfl⟩
  rw [← hTk] at hS hwf hframe hout
  have hq0 : q ≠ 0 := hW.1
  have hfin : promoteLoop (T0.fuel + 2) T0 = ({ Tk with promTarget := 0, promIdx := 0 } : BTree).promoteStep q (idx : Int) := by
    have hfuel : T0.fuel + 2 = k + ((T0.fuel - k) + 2) := by
      unfold BTree.fuel; omega
    rw [hfuel, promoteLoop_iter k _ T0 hrun, ← hTk]
    have hdone : (({ Tk with promTarget := 0, promIdx := 0 } : BTree).promoteStep q Tk.promIdx).promTarget = 0 := by
      rw [hS.prom.2.1]; exact hout.prom
    rw [promoteLoop_one hS.prom.1 hq0 hS.ok hdone, hS.prom.2.1]
  rw [hfin]
  exact ⟨_, hwf l h hW hl hh, hframe, hout⟩

/-- STAGE 5 (cascade that splits the root): the descent ends in a full non-root leaf `n` and every node on the
    path from the root down to `n` is full (leaf load balancing off): the leaf is split, `promote` splits every
    inner node on the way up and finally the root, in place -/
theorem addU_leaf_split_cascade_root (t : BTree) (uniq : Bool) (key : Int) (val : Nat) (n : NodeId) (i : Nat)
    (hwf : WF t) (hok : t.panicked = false) (hidle : Idle t) (hfresh : Fresh t) (hlb : t.lb = false)
    (htgt : addTargetOf t uniq key = .leaf n i)
    (hfull : ¬ ((addStart t uniq).1.get n).count < t.sl)
    (hnotroot : ((addStart t uniq).1.get n).isRoot = false)
    (hfp : fullPath key (addStart t uniq).1.fuel (addStart t uniq).1 (addStart t uniq).1.root n) :
    AddOk t key val (t.addU uniq key val) := by
  have so := addStart_ok t uniq hwf
  rw [addU_eq, htgt]
  unfold addTargetOf at htgt
  obtain ⟨saved, hsaved⟩ : ∃ b, b = ({ t with nextId := t.nextId + 1 } : BTree).getRootNode.1.unique := ⟨_, rfl⟩
  rw [← hsaved]
  have hsaved' : saved = t.unique := by rw [hsaved]; exact so.saved
  obtain ⟨T, hTdef⟩ : ∃ T, T = (addStart t uniq).1 := ⟨_, rfl⟩
  rw [← hTdef] at hfp hfull hnotroot
  have hsl : T.sl = t.sl := by rw [hTdef]; exact so.sl
  have hroot : T.root ≠ 0 := by rw [hTdef]; exact so.root
  have hT : WF T := by rw [hTdef]; exact so.wf
  have hf : Fresh T := by rw [hTdef]; exact so.fresh hfresh
  rw [← hsl] at hfull
  have hlb' : T.lb = false := by rw [hTdef, so.lb]; exact hlb
  have hok' : T.panicked = false := by rw [hTdef, so.ok]; exact hok
  rw [so.rootEq, ← hTdef] at htgt
  rw [← hTdef]
  simp only [Target.apply]
  have hw := hT
  unfold WF at hw
  rw [if_neg hroot] at hw
  obtain ⟨hsl2, hW, hN, hL, hC⟩ := hw
  obtain ⟨hleaf, hi⟩ := target_leaf key _ _ _ htgt
  have hnroot : n ≠ T.root := by
    intro e
    obtain ⟨_, rd, hgr, hpr, _⟩ := hW
    rw [e, get_of_get? hgr] at hnotroot
    simp [Node.isRoot, hpr] at hnotroot
  obtain ⟨g0, hpath0, hg0ch, hchildOf0, hn0⟩ := target_parent key _ _ _ htgt hnroot
  have hpsome : (T.get? (T.get n).parent).isSome := by
    obtain ⟨fq, pq, lq, hq', _, hWg, hNg, hlq, hhq⟩ :=
      onPath_wf key (T.nodes.length + 1) T.root 0 none none T.fuel hW hN (leO_none _) (oLe_none _)
        (by unfold BTree.fuel; omega) hpath0
    cases fq with
    | zero => exact absurd hWg (by simp [WFNode])
    | succ f =>
    obtain ⟨_, gnd0, hgg0, _⟩ := hWg
    have hWg' : WFNode T (f + 1) g0 pq lq hq' := ⟨by assumption, gnd0, hgg0, by assumption⟩
    have hgetg := get_of_get? hgg0
    rw [hgetg] at hg0ch hchildOf0
    obtain ⟨cs0, hcs0⟩ : ∃ cs, gnd0.children = some cs := by
      cases hh : gnd0.children with
      | none => simp [Node.hasChildren, hh] at hg0ch
      | some cs => exact ⟨cs, rfl⟩
    obtain ⟨hce, hc0⟩ := childOf_eq (by rw [hchildOf0]; exact hn0 : T.childOf g0 (getIndexToInsertTo T gnd0 key).1 ≠ 0)
    rw [hgetg, hchildOf0] at hce
    obtain ⟨_, _, _, _, _, _, _, _, l2, h2, hwn, _, _⟩ :=
      child_facts hWg' hNg hlq hhq hgg0 hcs0 rfl hce.symm hn0
    cases f with
    | zero => exact absurd hwn (by simp [WFNode])
    | succ f =>
    obtain ⟨_, nd, hgn, hnp, _⟩ := hwn
    rw [get_of_get? hgn, hnp, hgg0]; rfl
  -- the full root
  obtain ⟨gnd, hgq⟩ : ∃ gnd, T.get? T.root = some gnd := by
    obtain ⟨_, gnd, hg, _⟩ := hW; exact ⟨gnd, hg⟩
  have hgetq := get_of_get? hgq
  have hfuelT : T.fuel = (T.nodes.length + 2) + 1 := by unfold BTree.fuel; omega
  rw [hfuelT] at hfp
  unfold fullPath at hfp
  rw [hgetq] at hfp
  obtain ⟨hrfull, hcase⟩ := hfp
  rcases hcase with e | ⟨hqch, hqc, hfp'⟩
  · exact absurd e.symm hnroot
  obtain ⟨hce, hc0⟩ := childOf_eq hqc
  rw [hgetq] at hce hc0
  rw [hce] at hfp'
  obtain ⟨cs, hcs⟩ : ∃ cs, gnd.children = some cs := by
    cases hh : gnd.children with
    | none => simp [Node.child, hh] at hc0
    | some cs => exact ⟨cs, rfl⟩
  have hgfull : gnd.count = T.sl := by
    obtain ⟨_, g1, hg1, _, hs1, _⟩ := hW
    rw [hgq] at hg1; cases hg1
    have := hs1.2.1; omega
  have hid : (⟨t.nextId, key, val⟩ : Item).id ≠ 0 := Nat.ne_of_gt hfresh.1
  -- `fullPath` at the larger fuel `T.fuel`
  have hfpT : fullPath key T.fuel T (gnd.child (getIndexToInsertTo T gnd key).1) n := by
    rw [hfuelT]; exact fullPath_succ _ _ _ _ _ hfp'
  obtain ⟨news, _, _, hout⟩ := cascade_root_at (T := T) saved (item := ⟨t.nextId, key, val⟩) (q := T.root) (n := n) (i := i)
    hf hsl2 hid hok' hleaf hi hn0 hgq hcs rfl hc0 hgfull hfpT hW rfl (Nat.le_refl _) hN (leO_none _) (oLe_none _)
  have hnlen : ∀ (news' : List NodeId) (T' : BTree), RootOut T T' saved news' →
      news' = List.range' T.nextId (T'.nodes.length - T.nodes.length) := by
    intro news' T' ho
    have := ho.newsEq
    rw [ho.len, Nat.add_sub_cancel_left]; exact this
  have hloc : LocalOkG T (promoteLoop (({ leafSplit T n ⟨t.nextId, key, val⟩ i with unique := saved } : BTree).fuel + 2)
      ({ leafSplit T n ⟨t.nextId, key, val⟩ i with unique := saved } : BTree)) T.root ⟨t.nextId, key, val⟩ 1 news := by
    refine ⟨hout.sl, ?_, hout.newsNone, hout.newsNodup, ?_⟩
    · intro f' p l h hw hfl hnd hl hh x hs hx
      cases f' with
      | zero => exact absurd hw (by simp [WFNode])
      | succ f' =>
        have hp0 : p = 0 := by
          obtain ⟨_, g1, hg1, hp1, _⟩ := hw
          obtain ⟨_, g2, hg2, hp2, _⟩ := hW
          rw [hg2] at hg1; cases hg1; rw [← hp1, hp2]
        obtain ⟨_, _, hfr', _⟩ := cascade_root_at (T := T) saved (item := ⟨t.nextId, key, val⟩) (q := T.root) (n := n) (i := i)
          hf hsl2 hid hok' hleaf hi hn0 hgq hcs rfl hc0 hgfull hfpT hw hp0 hfl hnd hl hh
        exact hfr' x hs hx
    · intro f' p l h hw hfl hnd hl hh
      cases f' with
      | zero => exact absurd hw (by simp [WFNode])
      | succ f' =>
        have hp0 : p = 0 := by
          obtain ⟨_, g1, hg1, hp1, _⟩ := hw
          obtain ⟨_, g2, hg2, hp2, _⟩ := hW
          rw [hg2] at hg1; cases hg1; rw [← hp1, hp2]
        obtain ⟨news', hwf', _, ho'⟩ := cascade_root_at (T := T) saved (item := ⟨t.nextId, key, val⟩) (q := T.root) (n := n) (i := i)
          hf hsl2 hid hok' hleaf hi hn0 hgq hcs rfl hc0 hgfull hfpT hw hp0 hfl hnd hl hh
        have : news' = news := by rw [hnlen _ _ ho', hnlen _ _ hout]
        rw [this] at hwf'
        exact hwf'
  -- the model's computation
  rw [addOnLeaf_leafSplit hfull hnotroot hlb' hpsome]
  have hd0 : (leafSplit T n ⟨t.nextId, key, val⟩ i).distSrc = 0 := by
    rw [leafSplit_distSrc, hTdef, so.idle.1]; exact hidle.1
  unfold addFinish
  simp only [Bool.not_true, Bool.false_eq_true, if_false]
  rw [distributeLoop_idle (by exact hd0)]
  obtain ⟨T', hT'⟩ : ∃ T', T' = promoteLoop (({ leafSplit T n ⟨t.nextId, key, val⟩ i with unique := saved } : BTree).fuel + 2)
      ({ leafSplit T n ⟨t.nextId, key, val⟩ i with unique := saved } : BTree) := ⟨_, rfl⟩
  rw [← hT'] at hloc hout ⊢
  obtain ⟨b1, b2, b3, b4, b5, b6, b7, b8⟩ := hout.base
  have hasm := assembleG (T := T) (T' := T') (n := T.root) saved hT hroot hloc b1 hout.len hout.news1 b2
    (by rw [hfuelT]; unfold onPath; left; rfl)
  have heq : ({ T' with unique := saved, count := T'.count + 1 } : BTree) = { T' with count := T'.count + 1 } := by
    rw [← hout.uniq]
  rw [heq] at hasm
  obtain ⟨hWF, L, R, hA, hA', hLb, hRb⟩ := hasm
  have hTabs : T.abs = t.abs := by rw [hTdef]; exact so.abs
  rw [hTabs] at hA
  refine ⟨rfl, hWF, hout.ok, ⟨?_, hout.prom⟩, hout.fresh, ?_, ⟨L, R, hA, hA', hLb, hRb⟩, ⟨?_, ?_, ?_, ?_, ?_, ?_⟩, ?_, ?_, ?_⟩
  · show T'.distSrc = 0
    rw [b8, hTdef, so.idle.1]; exact hidle.1
  · show T'.count + 1 = t.count + 1; rw [b2, hTdef, so.count]
  · show T'.sl = t.sl; rw [hout.sl]; exact hsl
  · show T'.unique = t.unique; rw [hout.uniq]; exact hsaved'
  · show T'.lb = t.lb; rw [b4, hTdef]; exact so.lb
  · show T'.fixFast = t.fixFast; rw [b5, hTdef]; exact so.fix.1
  · show T'.fixErr = t.fixErr; rw [b6, hTdef]; exact so.fix.2.1
  · show T'.fixId = t.fixId; rw [b7, hTdef]; exact so.fix.2.2
  · show t.nextId < T'.nextId
    have h1 : t.nextId < T.nextId := by rw [hTdef]; exact so.nextId
    have h2 := hout.nextId
    omega
  · show T'.cur = t.cur; rw [b3, hTdef]; exact so.cur
  · intro x hx
    have h1 : (T.get? x).isSome := by rw [hTdef]; exact so.keep x hx
    exact hout.keep x h1

/-- non-vacuity of `addU_leaf_split_cascade_root`: slot length 2, keys 1..6 added in order; `Add 7` ends in the
    full leaf 9 whose parent, the root 2, is full too: leaf and root are split, the tree grows by one level -/
def exRootCascade : BTree :=
  (BTree.new 2 false false true).run [.add 1 1, .add 2 2, .add 3 3, .add 4 4, .add 5 5, .add 6 6]

theorem exRootCascade_hyps : WF exRootCascade ∧ exRootCascade.panicked = false ∧ Idle exRootCascade ∧ Fresh exRootCascade ∧
    exRootCascade.lb = false ∧ addTargetOf exRootCascade false 7 = .leaf 9 2 ∧
    ¬ ((addStart exRootCascade false).1.get 9).count < exRootCascade.sl ∧
    ((addStart exRootCascade false).1.get 9).isRoot = false ∧
    fullPath 7 (addStart exRootCascade false).1.fuel (addStart exRootCascade false).1
      (addStart exRootCascade false).1.root 9 := by
  refine ⟨checkWF_sound _ (by decide +kernel), by decide +kernel, ⟨by decide +kernel, by decide +kernel⟩,
    ⟨by decide +kernel, by decide +kernel⟩, by decide +kernel, by decide +kernel, by decide +kernel, by decide +kernel,
    by decide +kernel⟩

end Sop.BTree.Ins
