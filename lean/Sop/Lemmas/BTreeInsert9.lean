import Sop.Lemmas.BTreeInsert8
/-! # C17 update side, `Btree.Add` is total on well-formed trees (leaf load balancing off): the case analysis over
all branches of `node.add` / `addOnLeaf` / `promote` is exhaustive (`target_ok`, `path_cases`), theorem `addU_total`. -/
namespace Sop.BTree.Ins
open Sop.BTree
set_option linter.unusedVariables false
set_option linter.unusedSimpArgs false

/-! Insert proofs for Model B, part 47: `Btree.Add` is total on well-formed trees (load balancing off): the
case analysis over all branches is exhaustive. -/

/-- on a well-formed subtree the descent neither runs out of fuel nor meets a dangling child id -/
theorem target_ok {T : BTree} (key : Int) : ∀ (f : Nat) (m p : NodeId) (lo hi : Option Int) (fuel : Nat),
    WFNode T f m p lo hi → f ≤ fuel → addTarget key fuel T m ≠ .stuck ∧ addTarget key fuel T m ≠ .fuel
  | 0, _, _, _, _, _, h, _ => absurd h (by simp [WFNode])
  | f + 1, m, p, lo, hi, 0, _, hf => by omega
  | f + 1, m, p, lo, hi, fuel + 1, hW, hf => by
    have hW' := hW
    obtain ⟨hn, nd, hg, hp, hs, hne, hbody⟩ := hW
    have hget := get_of_get? hg
    unfold addTarget
    simp only [hget]
    split
    · exact ⟨by simp, by simp⟩
    · split
      · rename_i h2
        split
        · exact ⟨by simp, by simp⟩
        · rename_i h3
          obtain ⟨cs, hcs⟩ : ∃ cs, nd.children = some cs := by
            cases hh : nd.children with
            | none => simp [Node.hasChildren, hh] at h2
            | some cs => exact ⟨cs, rfl⟩
          rw [hcs] at hbody
          simp only at hbody
          have hkids : nd.kids = cs.toList.take (nd.count + 1) := by simp [Node.kids, hcs]
          rw [← hkids] at hbody
          have hsorted : Sorted nd.items :=
            (itemsOk_good _ _ _ (KidsOk.itemsOk _ _ _ _ (by rw [Node.kids_length hs, Node.items_length hs]) hbody)).1
          obtain ⟨hidx, _, _⟩ := insIdx_spec T nd key hs hsorted
          have hc0 : nd.child (getIndexToInsertTo T nd key).1 ≠ 0 := by simpa using h3
          rcases WFNode.kid hW' hg hidx with h0 | ⟨l2, h2', hw⟩
          · exact absurd h0 hc0
          · have hcsome : (T.get? (nd.child (getIndexToInsertTo T nd key).1)).isSome :=
              mem_reach_isSome T f _ _ (self_mem_reach hw)
            have hco : T.childOf m (getIndexToInsertTo T nd key).1 = nd.child (getIndexToInsertTo T nd key).1 := by
              unfold BTree.childOf
              rw [hget]
              simp only [hc0, if_false, hcsome, if_true]
            rw [hco]
            simp only [hc0, if_false]
            exact target_ok key f _ m l2 h2' fuel hw (by omega)
      · split
        · exact ⟨by simp, by simp⟩
        · exact ⟨by simp, by simp⟩

theorem fullPath_le (key : Int) {t : BTree} {c n : NodeId} : ∀ {fuel fuel' : Nat}, fuel ≤ fuel' →
    fullPath key fuel t c n → fullPath key fuel' t c n := by
  intro fuel fuel' hle h
  obtain ⟨k, rfl⟩ := Nat.exists_eq_add_of_le hle
  induction k with
  | zero => exact h
  | succ k ih => exact fullPath_succ key _ t c n (ih (Nat.le_add_right _ _))

theorem onPath_succ (key : Int) : ∀ (fuel : Nat) (t : BTree) (m q : NodeId),
    onPath key fuel t m q → onPath key (fuel + 1) t m q
  | 0, _, _, _, h => absurd h (by simp [onPath])
  | fuel + 1, t, m, q, h => by
    unfold onPath at h ⊢
    rcases h with e | ⟨h1, h2, h3, h4⟩
    · exact Or.inl e
    · exact Or.inr ⟨h1, h2, h3, onPath_succ key fuel t _ q h4⟩

/-- EXHAUSTIVE: below `m`, on the way to the full target leaf `n`, either some node has room and everything
    strictly below it on the path is full, or everything from `m` down is full -/
theorem path_cases (key : Int) {n : NodeId} {i : Nat} : ∀ (fuel : Nat) (t : BTree) (m : NodeId),
    addTarget key fuel t m = .leaf n i → ¬ (t.get n).count < t.sl →
    (∃ q, onPath key fuel t m q ∧ (t.get q).count < t.sl ∧
      t.childOf q (getIndexToInsertTo t (t.get q) key).1 ≠ 0 ∧
      fullPath key fuel t (t.childOf q (getIndexToInsertTo t (t.get q) key).1) n) ∨
    fullPath key fuel t m n
  | 0, _, _, h, _ => by simp [addTarget] at h
  | fuel + 1, t, m, h, hfull => by
    unfold addTarget at h
    simp only at h
    split at h
    · cases h
    · rename_i h1
      split at h
      · rename_i h2
        split at h
        · cases h
        · split at h
          · cases h
          · rename_i h4
            rcases path_cases key fuel t _ h hfull with ⟨q, hq1, hq2, hq3, hq4⟩ | hfp
            · left
              refine ⟨q, ?_, hq2, hq3, fullPath_succ key _ t _ n hq4⟩
              unfold onPath
              exact Or.inr ⟨by simpa using h1, h2, h4, hq1⟩
            · by_cases hroom : (t.get m).count < t.sl
              · left
                refine ⟨m, ?_, hroom, h4, fullPath_succ key _ t _ n hfp⟩
                unfold onPath; exact Or.inl rfl
              · right
                unfold fullPath
                exact ⟨hroom, Or.inr ⟨h2, h4, hfp⟩⟩
      · split at h
        · cases h
        · cases h
          right
          unfold fullPath
          exact ⟨hfull, Or.inl rfl⟩

/-! Insert proofs for Model B, part 48: `Btree.Add` on a well-formed tree, every branch (load balancing off). -/

/-- C17, `Add` side, complete for leaf load balancing off: on every well-formed idle tree `Btree.Add` /
    `AddIfNotExist` either inserts the item at the lower-bound position of the in-order contents and keeps the
    tree well-formed (`AddOk`), or rejects an existing key of a unique store leaving the contents unchanged
    (`AddRejected`) -/
theorem addU_total (t : BTree) (uniq : Bool) (key : Int) (val : Nat)
    (hwf : WF t) (hok : t.panicked = false) (hidle : Idle t) (hfresh : Fresh t) (hlb : t.lb = false) :
    AddOk t key val (t.addU uniq key val) ∨ AddRejected t (t.addU uniq key val) := by
  have so := addStart_ok t uniq hwf
  cases htg : addTargetOf t uniq key with
  | dup n i => exact Or.inr (addU_dup t uniq key val n i hwf hok hidle hfresh htg)
  | nilc n i => exact Or.inl (addU_nilc t uniq key val n i hwf hok hidle hfresh htg)
  | leaf n i =>
    left
    by_cases hroom : ((addStart t uniq).1.get n).count < t.sl
    · exact addU_leaf_room t uniq key val n i hwf hok hidle hfresh htg hroom
    · by_cases hroot : ((addStart t uniq).1.get n).isRoot = true
      · exact addU_root_split t uniq key val n i hwf hok hidle hfresh htg hroom hroot
      · have hnotroot : ((addStart t uniq).1.get n).isRoot = false := by simpa using hroot
        have htg' := htg
        unfold addTargetOf at htg'
        rw [so.rootEq] at htg'
        have hroom' : ¬ ((addStart t uniq).1.get n).count < (addStart t uniq).1.sl := by rw [so.sl]; exact hroom
        rcases path_cases key _ _ _ htg' hroom' with ⟨q, hq1, hq2, hq3, hq4⟩ | hfp
        · exact addU_leaf_split_cascade t uniq key val n i q hwf hok hidle hfresh hlb htg hroom hnotroot hq1
            (by rw [← so.sl]; exact hq2) hq3 hq4
        · exact addU_leaf_split_cascade_root t uniq key val n i hwf hok hidle hfresh hlb htg hroom hnotroot hfp
  | stuck =>
    exfalso
    have hw := so.wf
    unfold WF at hw
    rw [if_neg so.root] at hw
    unfold addTargetOf at htg
    rw [so.rootEq] at htg
    exact (target_ok key _ _ _ _ _ _ hw.2.1 (by unfold BTree.fuel; omega)).1 htg
  | fuel =>
    exfalso
    have hw := so.wf
    unfold WF at hw
    rw [if_neg so.root] at hw
    unfold addTargetOf at htg
    rw [so.rootEq] at htg
    exact (target_ok key _ _ _ _ _ _ hw.2.1 (by unfold BTree.fuel; omega)).2 htg

/-- the same for `Btree.Add` with the store's own uniqueness flag -/
theorem addU_total_add (t : BTree) (key : Int) (val : Nat)
    (hwf : WF t) (hok : t.panicked = false) (hidle : Idle t) (hfresh : Fresh t) (hlb : t.lb = false) :
    AddOk t key val (t.add key val) ∨ AddRejected t (t.add key val) :=
  addU_total t t.unique key val hwf hok hidle hfresh hlb

end Sop.BTree.Ins
