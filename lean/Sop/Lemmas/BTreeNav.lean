import Sop.Lemmas.BTreeCtx
/-! In-order positions inside a node and the `getIndexOfChild` memo. -/
namespace Sop.BTree
set_option linter.unusedVariables false
set_option linter.unusedSimpArgs false

/-! ### positions -/

/-- just before child `s` of node `m`: `L` is everything before, `R` everything from child `s` on -/
def Pre (t : BTree) (f : Nat) (m : NodeId) (s : Nat) (L R : List Item) : Prop :=
  ∃ p pre post nd, Ctx t f m p pre post ∧ t.get? m = some nd ∧ s ≤ nd.count ∧
    L = pre ++ nd.pre (A t) s ∧ R = A t (nd.child s) ++ nd.post (A t) s ++ post

/-- between child `s` and separator `s` of node `m` -/
def Gap (t : BTree) (f : Nat) (m : NodeId) (s : Nat) (L R : List Item) : Prop :=
  ∃ p pre post nd, Ctx t f m p pre post ∧ t.get? m = some nd ∧ s ≤ nd.count ∧
    L = pre ++ nd.pre (A t) s ++ A t (nd.child s) ∧ R = nd.post (A t) s ++ post

/-- slot `s` of node `m` is occupied and is the head of `R`; `L` is everything before it -/
def At (t : BTree) (f : Nat) (m : NodeId) (s : Nat) (L R : List Item) : Prop :=
  Gap t f m s L R ∧ ∃ nd, t.get? m = some nd ∧ s < nd.count

theorem Pre.abs {t : BTree} (hw : WFR t) {f m s L R} (h : Pre t f m s L R) : t.abs = L ++ R := by
  obtain ⟨p, pre, post, nd, hctx, hg, hs, rfl, rfl⟩ := h
  obtain ⟨hf, lo, hi, hwf⟩ := hctx.wf hw
  rw [hctx.abs hw, A_split t hwf hf hg hs]; simp [List.append_assoc]

theorem Gap.abs {t : BTree} (hw : WFR t) {f m s L R} (h : Gap t f m s L R) : t.abs = L ++ R := by
  obtain ⟨p, pre, post, nd, hctx, hg, hs, rfl, rfl⟩ := h
  obtain ⟨hf, lo, hi, hwf⟩ := hctx.wf hw
  rw [hctx.abs hw, A_split t hwf hf hg hs]; simp [List.append_assoc]

theorem Pre.toGap {t : BTree} {f m s L R} (h : Pre t f m s L R) (h0 : ∀ nd, t.get? m = some nd → nd.child s = 0) :
    Gap t f m s L R := by
  obtain ⟨p, pre, post, nd, hctx, hg, hs, rfl, rfl⟩ := h
  refine ⟨p, pre, post, nd, hctx, hg, hs, ?_, ?_⟩ <;> simp [h0 nd hg, A_zero]

theorem Gap.toPre {t : BTree} {f m s L R} (h : Gap t f m s L R) (h0 : ∀ nd, t.get? m = some nd → nd.child s = 0) :
    Pre t f m s L R := by
  obtain ⟨p, pre, post, nd, hctx, hg, hs, rfl, rfl⟩ := h
  refine ⟨p, pre, post, nd, hctx, hg, hs, ?_, ?_⟩ <;> simp [h0 nd hg, A_zero]

theorem Node.post_of_lt {t : BTree} {nd : Node} (hs : NodeShape t nd) (g : NodeId → List Item) {s : Nat} (h : s < nd.count) :
    nd.post g s = nd.slot s :: weave g (nd.kids.drop (s + 1)) (nd.items.drop (s + 1)) := by
  unfold Node.post
  rw [weaveTail_drop g _ _ s (by rw [Node.items_length hs]; exact h), Node.items_getD hs h]

theorem Node.post_count {t : BTree} {nd : Node} (hs : NodeShape t nd) (g : NodeId → List Item) :
    nd.post g nd.count = [] := by
  have : nd.items.drop nd.count = [] := List.drop_of_length_le (by rw [Node.items_length hs]; exact Nat.le_refl _)
  unfold Node.post
  rw [this]
  rfl

theorem Node.pre_zero (nd : Node) (g : NodeId → List Item) : nd.pre g 0 = [] := by
  simp [Node.pre, weave]

theorem Node.pre_succ {t : BTree} {nd : Node} (hs : NodeShape t nd) (g : NodeId → List Item) {s : Nat} (h : s < nd.count) :
    nd.pre g (s + 1) = nd.pre g s ++ g (nd.child s) ++ [nd.slot s] := by
  unfold Node.pre
  rw [weave_take_succ g s _ _ (by rw [Node.items_length hs]; exact h) (by rw [Node.kids_length hs]; omega),
    Node.kids_getD hs (Nat.le_of_lt h), Node.items_getD hs h]

theorem Node.weave_drop_succ {t : BTree} {nd : Node} (hs : NodeShape t nd) (g : NodeId → List Item) {s : Nat} (h : s < nd.count) :
    weave g (nd.kids.drop (s + 1)) (nd.items.drop (s + 1)) = g (nd.child (s + 1)) ++ nd.post g (s + 1) := by
  rw [weave_drop_split g _ _ (s + 1) (by rw [Node.kids_length hs, Node.items_length hs])
    (by rw [Node.items_length hs]; exact h), Node.kids_getD hs h]
  rfl

/-- the head of `R` at an `At` position is the slot content -/
theorem At.head {t : BTree} (hw : WFR t) {f m s L R} (h : At t f m s L R) :
    ∃ nd R', t.get? m = some nd ∧ s < nd.count ∧ R = nd.slot s :: R' := by
  obtain ⟨⟨p, pre, post, nd, hctx, hg, hs, rfl, rfl⟩, nd', hg', hlt⟩ := h
  rw [hg] at hg'; cases hg'
  obtain ⟨hsh, _⟩ := hctx.shape hw hg
  exact ⟨nd, _, hg, hlt, by rw [Node.post_of_lt hsh _ hlt]; rfl⟩

/-- stepping over the separator: from `At … s` to just before child `s + 1` -/
theorem At.toPre_succ {t : BTree} (hw : WFR t) {f m s L x R} (h : At t f m s L (x :: R)) :
    Pre t f m (s + 1) (L ++ [x]) R := by
  obtain ⟨⟨p, pre, post, nd, hctx, hg, hs, rfl, hR⟩, nd', hg', hlt⟩ := h
  rw [hg] at hg'; cases hg'
  obtain ⟨hsh, _⟩ := hctx.shape hw hg
  rw [Node.post_of_lt hsh _ hlt, List.cons_append, List.cons.injEq] at hR
  refine ⟨p, pre, post, nd, hctx, hg, hlt, ?_, ?_⟩
  · rw [Node.pre_succ hsh _ hlt, hR.1]; simp [List.append_assoc]
  · rw [hR.2, Node.weave_drop_succ hsh _ hlt]

theorem At.gap {t : BTree} {f m s L R} (h : At t f m s L R) : Gap t f m s L R := h.1

/-- descending into child `s` -/
theorem Pre.down {t : BTree} (hw : WFR t) {f m s L R} (h : Pre t (f + 1) m s L R) {nd : Node}
    (hg : t.get? m = some nd) (hc : nd.child s ≠ 0) : Pre t f (nd.child s) 0 L R := by
  obtain ⟨p, pre, post, nd', hctx, hg', hs, rfl, rfl⟩ := h
  rw [hg] at hg'; cases hg'
  have hchild := Ctx.child hctx hg hs rfl hc
  obtain ⟨cn, hgc⟩ := hctx.kid_some hw hg hs hc
  obtain ⟨hf, lo, hi, hwf⟩ := hchild.wf hw
  refine ⟨m, _, _, cn, hchild, hgc, Nat.zero_le _, by rw [Node.pre_zero]; simp, ?_⟩
  rw [A_split t hwf hf hgc (Nat.zero_le _), Node.pre_zero]; simp [List.append_assoc]

theorem Gap.down {t : BTree} (hw : WFR t) {f m s L R} (h : Gap t (f + 1) m s L R) {nd : Node}
    (hg : t.get? m = some nd) (hc : nd.child s ≠ 0) :
    ∃ cn, t.get? (nd.child s) = some cn ∧ Gap t f (nd.child s) cn.count L R := by
  obtain ⟨p, pre, post, nd', hctx, hg', hs, rfl, rfl⟩ := h
  rw [hg] at hg'; cases hg'
  have hchild := Ctx.child hctx hg hs rfl hc
  obtain ⟨cn, hgc⟩ := hctx.kid_some hw hg hs hc
  obtain ⟨hf, lo, hi, hwf⟩ := hchild.wf hw
  obtain ⟨hsh, _⟩ := hchild.shape hw hgc
  refine ⟨cn, hgc, m, _, _, cn, hchild, hgc, Nat.le_refl _, ?_, by rw [Node.post_count hsh]; simp⟩
  rw [A_split t hwf hf hgc (Nat.le_refl _), Node.post_count hsh]; simp [List.append_assoc]

/-- inversion of a context: the root, or a child of a context one level up -/
theorem Ctx.inv {t : BTree} {f : Nat} {c p : NodeId} {pre post : List Item} (h : Ctx t f c p pre post) :
    (f = t.nodes.length + 1 ∧ c = t.root ∧ p = 0 ∧ pre = [] ∧ post = []) ∨
    (∃ pp pre' post' pn i, Ctx t (f + 1) p pp pre' post' ∧ t.get? p = some pn ∧ i ≤ pn.count ∧ pn.child i = c ∧ c ≠ 0 ∧
      pre = pre' ++ pn.pre (A t) i ∧ post = pn.post (A t) i ++ post') := by
  cases h with
  | root => left; exact ⟨rfl, rfl, rfl, rfl, rfl⟩
  | child hctx hg hi hc hc0 => right; exact ⟨_, _, _, _, _, hctx, hg, hi, hc, hc0, rfl, rfl⟩

/-- what climbing out of node `c` needs: the parent node and the index of `c` in it, or `c` is the root -/
theorem Ctx.up {t : BTree} (hw : WFR t) {f : Nat} {c p : NodeId} {pre post : List Item} (h : Ctx t f c p pre post)
    {cn : Node} (hgc : t.get? c = some cn) :
    (cn.parent = 0 ∧ pre = [] ∧ post = []) ∨
    (cn.parent = p ∧ p ≠ 0 ∧ ∃ pp pre' post' pn i, Ctx t (f + 1) p pp pre' post' ∧ t.get? p = some pn ∧ i ≤ pn.count ∧
      pn.child i = c ∧ c ≠ 0 ∧ pre = pre' ++ pn.pre (A t) i ∧ post = pn.post (A t) i ++ post') := by
  obtain ⟨_, hpar, _, _, _⟩ := h.shape hw hgc
  rcases h.inv with ⟨_, _, rfl, rfl, rfl⟩ | ⟨pp, pre', post', pn, i, hctx, hg, hi, hc, hc0, rfl, rfl⟩
  · left; exact ⟨hpar, rfl, rfl⟩
  · right
    obtain ⟨_, _, _, hp0, _⟩ := hctx.shape hw hg
    exact ⟨hpar, hp0, pp, pre', post', pn, i, hctx, hg, hi, hc, hc0, rfl, rfl⟩

/-- leaving node `c` (all of it consumed) = standing between child `i` and separator `i` of the parent -/
theorem Gap.up {t : BTree} (hw : WFR t) {f c L R} (h : Gap t f c s L R) {cn : Node} (hgc : t.get? c = some cn)
    (hs : s = cn.count) {p : NodeId} (hp : cn.parent = p) (hp0 : p ≠ 0) :
    ∃ pn i, t.get? p = some pn ∧ i ≤ pn.count ∧ pn.child i = c ∧ c ≠ 0 ∧ Gap t (f + 1) p i L R ∧
      ∃ pp pre post, Ctx t (f + 1) p pp pre post := by
  obtain ⟨p', pre, post, cn', hctx, hg', hs', rfl, rfl⟩ := h
  rw [hgc] at hg'; cases hg'
  subst hs
  obtain ⟨hsh, _⟩ := hctx.shape hw hgc
  obtain ⟨hf, lo, hi, hwf⟩ := hctx.wf hw
  rcases hctx.up hw hgc with ⟨h0, _, _⟩ | ⟨hpar, _, pp, pre', post', pn, i, hctx', hg, hi', hc, hc0, rfl, rfl⟩
  · rw [hp] at h0; exact absurd h0 hp0
  · rw [hp] at hpar; subst hpar
    refine ⟨pn, i, hg, hi', hc, hc0, ⟨pp, pre', post', pn, hctx', hg, hi', ?_, ?_⟩, pp, pre', post', hctx'⟩
    · rw [hc, A_split t hwf hf hgc (Nat.le_refl _), Node.post_count hsh]; simp [List.append_assoc]
    · rw [Node.post_count hsh]; simp

/-- leaving node `c` to the left (nothing of it consumed) = standing just before child `i` of the parent -/
theorem Pre.up {t : BTree} (hw : WFR t) {f c L R} (h : Pre t f c 0 L R) {cn : Node} (hgc : t.get? c = some cn)
    {p : NodeId} (hp : cn.parent = p) (hp0 : p ≠ 0) :
    ∃ pn i, t.get? p = some pn ∧ i ≤ pn.count ∧ pn.child i = c ∧ c ≠ 0 ∧ Pre t (f + 1) p i L R ∧
      ∃ pp pre post, Ctx t (f + 1) p pp pre post := by
  obtain ⟨p', pre, post, cn', hctx, hg', hs', rfl, rfl⟩ := h
  rw [hgc] at hg'; cases hg'
  obtain ⟨hf, lo, hi, hwf⟩ := hctx.wf hw
  rcases hctx.up hw hgc with ⟨h0, _, _⟩ | ⟨hpar, _, pp, pre', post', pn, i, hctx', hg, hi', hc, hc0, rfl, rfl⟩
  · rw [hp] at h0; exact absurd h0 hp0
  · rw [hp] at hpar; subst hpar
    refine ⟨pn, i, hg, hi', hc, hc0, ⟨pp, pre', post', pn, hctx', hg, hi', ?_, ?_⟩, pp, pre', post', hctx'⟩
    · rw [Node.pre_zero]; simp
    · rw [hc, A_split t hwf hf hgc (Nat.zero_le _), Node.pre_zero]; simp [List.append_assoc]

/-- at the root, nothing follows a fully consumed node / precedes an untouched one -/
theorem Gap.root_end {t : BTree} (hw : WFR t) {f c s L R} (h : Gap t f c s L R) {cn : Node} (hgc : t.get? c = some cn)
    (hs : s = cn.count) (hp : cn.parent = 0) : R = [] := by
  obtain ⟨p', pre, post, cn', hctx, hg', hs', rfl, rfl⟩ := h
  rw [hgc] at hg'; cases hg'
  subst hs
  obtain ⟨hsh, _⟩ := hctx.shape hw hgc
  rcases hctx.up hw hgc with ⟨h0, _, rfl⟩ | ⟨hpar, hp0, _⟩
  · rw [Node.post_count hsh]; rfl
  · rw [hp] at hpar; exact absurd hpar.symm hp0

theorem Pre.root_start {t : BTree} (hw : WFR t) {f c L R} (h : Pre t f c 0 L R) {cn : Node} (hgc : t.get? c = some cn)
    (hp : cn.parent = 0) : L = [] := by
  obtain ⟨p', pre, post, cn', hctx, hg', hs', rfl, rfl⟩ := h
  rw [hgc] at hg'; cases hg'
  rcases hctx.up hw hgc with ⟨h0, rfl, _⟩ | ⟨hpar, hp0, _⟩
  · rw [Node.pre_zero]; rfl
  · rw [hp] at hpar; exact absurd hpar.symm hp0

/-! ### `getIndexOfChild` -/

theorem scan_spec (pn cn : Node) (cs : Array NodeId) (i : Nat) (hi : i ≤ pn.slots.size) (hci : cs.getD i 0 = cn.id)
    (hid : cn.id ≠ 0) (huniq : ∀ j, cs.getD j 0 = cn.id → j = i) :
    ∀ (fuel k : Nat), k ≤ i → i < k + fuel → BTree.getIndexOfChild.scan pn cn cs fuel k = i
  | 0, k, _, h => by omega
  | fuel + 1, k, hk, h => by
    rw [BTree.getIndexOfChild.scan]
    have hk' : k ≤ pn.slots.size := by omega
    simp only [hk', if_true]
    by_cases hkz : cs.getD k 0 = 0
    · simp only [hkz, beq_self_eq_true, if_true]
      have : k ≠ i := by intro e; subst e; rw [hci] at hkz; exact hid hkz
      exact scan_spec pn cn cs i hi hci hid huniq fuel (k + 1) (by omega) (by omega)
    · have : (cs.getD k 0 == 0) = false := by simpa using hkz
      simp only [this, Bool.false_eq_true, if_false]
      by_cases hke : cs.getD k 0 = cn.id
      · simp only [hke, beq_self_eq_true, if_true]
        exact huniq k hke
      · have h2 : (cs.getD k 0 == cn.id) = false := by simpa using hke
        simp only [h2, Bool.false_eq_true, if_false]
        have : k ≠ i := by intro e; subst e; exact hke hci
        exact scan_spec pn cn cs i hi hci hid huniq fuel (k + 1) (by omega) (by omega)

/-- with `t` equal to a well-formed `t₀` up to memoised indices: the index of child `c` in its parent `p`
    is what the context says; only `c`'s memo changes -/
theorem getIndexOfChild_spec {t₀ t : BTree} (hw : WFR t₀) (he : HeapEq t₀ t) {f : Nat} {p pp : NodeId}
    {pre post : List Item} (hctx : Ctx t₀ (f + 1) p pp pre post) {pn : Node} (hg : t₀.get? p = some pn) {i : Nat}
    (hi : i ≤ pn.count) {c : NodeId} (hc : pn.child i = c) (hc0 : c ≠ 0) (hpan : t.panicked = false) :
    (t.getIndexOfChild p c).2 = (i : Int) ∧ HeapEq t₀ (t.getIndexOfChild p c).1 ∧
      (t.getIndexOfChild p c).1.panicked = false ∧ (t.getIndexOfChild p c).1.cur = t.cur := by
  obtain ⟨hsh, _, _, hp0, _⟩ := hctx.shape hw hg
  have hc' : pn.child i ≠ 0 := by rw [hc]; exact hc0
  obtain ⟨cn, hgc⟩ := hctx.kid_some hw hg hi hc'
  rw [hc] at hgc
  obtain ⟨pn', hgp', hpc⟩ := he.get_some hg
  obtain ⟨cn', hgc', hcc⟩ := he.get_some hgc
  have hchild := Ctx.child hctx hg hi hc hc0
  obtain ⟨hshc, _⟩ := hchild.shape hw hgc
  have hion := he.ion c cn cn' hgc hgc' hshc.2.2.1
  obtain ⟨e1, e2, e3, e4, e5⟩ := core_eq hpc
  obtain ⟨d1, _, _, _, _⟩ := core_eq hcc
  have hcid : cn'.id = c := by rw [d1]; exact get?_id hgc
  cases hcs : pn.children with
  | none => simp [Node.child, hcs] at hc; exact absurd hc.symm hc0
  | some cs =>
    have hsz : cs.size = t₀.sl + 1 := (hsh.2.2.2.2 cs hcs).1
    have hci : cs.getD i 0 = c := by rw [← hc]; simp [Node.child, hcs]
    have huniq : ∀ j, cs.getD j 0 = c → j = i := by
      intro j hj
      by_cases hjc : j ≤ pn.count
      · have : pn.child j = pn.child i := by rw [hc]; simp [Node.child, hcs, hj]
        exact (hctx.kid_inj hw hg hi hjc hc' this.symm).symm
      · exfalso
        by_cases hjs : j < cs.size
        · have hz := (hsh.2.2.2.2 cs hcs).2 (cs.getD j 0) (by
            rw [List.mem_drop_iff_getElem]
            refine ⟨j - (pn.count + 1), by simp; omega, ?_⟩
            simp [Array.getD, hjs, show pn.count + 1 + (j - (pn.count + 1)) = j by omega])
          rw [hj] at hz; exact hc0 hz
        · have : cs.getD j 0 = 0 := by simp [Array.getD, hjs]
          rw [hj] at this; exact hc0 this
    unfold BTree.getIndexOfChild
    simp only [get_of_get? hgp', get_of_get? hgc', e5, hcs]
    have hnot : ¬ (cn'.ion ≥ (cs.size : Int)) := by rw [hsz]; have := hion.2; omega
    simp only [hnot, if_false]
    split
    · -- rescan
      have hscan := scan_spec pn' cn' cs i (by rw [e3, hsh.1]; have := hsh.2.1; omega) (by rw [hcid]; exact hci)
        (by rw [hcid]; exact hc0) (by rw [hcid]; exact huniq) (pn'.slots.size + 2) 0 (Nat.zero_le _) (by
          rw [e3, hsh.1]; have := hsh.2.1; omega)
      simp only [hscan]
      refine ⟨by first | rfl | trivial, ?_, by simpa [BTree.upd] using hpan, by first | rfl | trivial⟩
      have hf : ∀ x : Node, ({ x with ion := (i : Int) } : Node).id = x.id := fun _ => rfl
      refine ⟨?_, by rw [upd_nodes_length]; exact he.len, ?_, ?_⟩
      · exact he.frame
      · intro n
        rw [get?_upd _ _ _ _ hf, ← he.get n]
        cases t.get? n with
        | none => rfl
        | some x => simp only [Option.map_some]; split <;> rfl
      · intro n nd nd' h1 h2 hb
        rw [get?_upd _ _ _ _ hf] at h2
        obtain ⟨x, hx, hcx⟩ := he.get_some h1
        rw [hx] at h2
        simp only [Option.map_some, Option.some.injEq] at h2
        by_cases hn : n = c
        · simp only [hn, if_true] at h2
          subst h2
          simp only
          have := hsh.2.1
          omega
        · simp only [hn, if_false] at h2
          subst h2
          exact he.ion n nd x h1 hx hb
    · -- memo is right
      rename_i hmemo
      simp only [Bool.or_eq_true, beq_iff_eq, bne_iff_ne, ne_eq, not_or, Decidable.not_not] at hmemo
      have h1 : cn'.ion ≠ -1 := hmemo.1
      have h2 := hmemo.2
      rw [hcid] at h2
      have := huniq _ h2.symm
      refine ⟨?_, he, hpan, rfl⟩
      simp only
      have h3 := hion.1
      omega

end Sop.BTree
