import Sop.Lemmas.BTreeFind
/-! The public cursor calls of Model B (`First`, `Last`, `Next`, `Previous`, `Find`) on a well-formed tree,
stated with `CursorPos`: the cursor stands on a definite in-order position `L | R` of the tree. -/
namespace Sop.BTree
set_option linter.unusedVariables false
set_option linter.unusedSimpArgs false

/-- `t` is the well-formed tree `t₀` up to memoised child indices and cursor, it has not panicked, and its
    cursor designates the occupied slot that is the head of `R` in the in-order contents `L ++ R` -/
def CursorPos (t₀ t : BTree) (L R : List Item) : Prop :=
  HeapEq t₀ t ∧ t.panicked = false ∧
    ∃ (f : Nat) (m : NodeId) (s : Nat), t.cur.node = m ∧ t.cur.idx = (s : Int) ∧ At t₀ f m s L R

/-- `getCurrentItem` cannot fail: no cursor, a cached item, or a cursor inside the slot array of a stored node -/
def CursorValid (t : BTree) : Prop :=
  t.cur.node = 0 ∨ t.cur.cached = true ∨ ∃ nd, t.get? t.cur.node = some nd ∧ 0 ≤ t.cur.idx ∧ t.cur.idx < (nd.slots.size : Int)

theorem WF.count_ne {t : BTree} (h : WF t) (hne : t.abs ≠ []) : (t.count == 0) = false ∧ t.root ≠ 0 := by
  have hc := (abs_sorted_of_WF t h).2.2
  have hlen : t.abs.length ≠ 0 := fun e => hne (List.eq_nil_of_length_eq_zero e)
  refine ⟨by simp only [beq_eq_false_iff_ne, ne_eq]; omega, ?_⟩
  intro hr
  apply hne
  simp [BTree.abs, hr, absNode_zero]

theorem WF.root_ne_of_get {t : BTree} (h : WF t) {m : NodeId} {nd : Node} (hg : t.get? m = some nd) : t.root ≠ 0 := by
  intro hr
  have := h.2
  simp only [hr, if_true] at this
  simp [BTree.get?, this.1] at hg

theorem getRootNode_eq {t : BTree} (hc : (t.count == 0) = false) (hr : t.root ≠ 0) : t.getRootNode = (t, t.root) := by
  unfold BTree.getRootNode
  have : (t.root == 0) = false := by simpa using hr
  simp [hc, this]

theorem HeapEq.cur {t₀ t : BTree} (he : HeapEq t₀ t) (c : Cursor) : HeapEq t₀ { t with cur := c } :=
  ⟨he.frame, he.len, he.get, he.ion⟩

theorem getCurrentItem_valid {t₀ t : BTree} (he : HeapEq t₀ t) (hp : t.panicked = false) (hv : CursorValid t) :
    HeapEq t₀ t.getCurrentItem.1 ∧ t.getCurrentItem.1.panicked = false ∧
      t.getCurrentItem.1.cur.node = t.cur.node ∧ t.getCurrentItem.1.cur.idx = t.cur.idx ∧
      (t.cur.node ≠ 0 → t.getCurrentItem.1.cur.cached = true) := by
  unfold BTree.getCurrentItem
  by_cases h0 : t.cur.node = 0
  · rw [if_pos h0]
    exact ⟨he.cur _, hp, rfl, rfl, fun h => absurd h0 h⟩
  · rw [if_neg h0]
    by_cases hc : t.cur.cached = true
    · rw [if_pos hc]
      exact ⟨he, hp, rfl, rfl, fun _ => hc⟩
    · rw [if_neg hc]
      rcases hv with h | h | ⟨nd, hg, h1, h2⟩
      · exact absurd h h0
      · exact absurd h hc
      · rw [hg]
        have : ¬ (t.cur.idx < 0 ∨ t.cur.idx ≥ (nd.slots.size : Int)) := by omega
        simp only []
        rw [if_neg this]
        exact ⟨he.cur _, hp, rfl, rfl, fun _ => rfl⟩

theorem At.valid {t₀ t : BTree} (hw : WFR t₀) (he : HeapEq t₀ t) {f m s L R} (hat : At t₀ f m s L R)
    (hn : t.cur.node = m) (hi : t.cur.idx = (s : Int)) : CursorValid t := by
  obtain ⟨⟨p, pre, post, nd, hctx, hg, hs, _, _⟩, nd', hg', hlt⟩ := hat
  rw [hg] at hg'; cases hg'
  obtain ⟨hsh, _⟩ := hctx.shape hw hg
  obtain ⟨nd', hgt, hc⟩ := he.get_some hg
  right; right
  refine ⟨nd', by rw [hn]; exact hgt, by omega, ?_⟩
  rw [(core_eq hc).2.2.1, hsh.1, hi]
  have := hsh.2.1
  omega

/-- after a successful move the public call caches the item: still the same position -/
theorem cursorPos_cache {t₀ t : BTree} (hw : WFR t₀) {L R : List Item} (h : CursorPos t₀ t L R) :
    CursorPos t₀ t.getCurrentItem.1 L R ∧ t.getCurrentItem.1.cur.cached = true := by
  obtain ⟨he, hp, f, m, s, hn, hi, hat⟩ := h
  have hv := hat.valid hw he hn hi
  obtain ⟨he', hp', hn', hi', hc'⟩ := getCurrentItem_valid he hp hv
  have hm0 : m ≠ 0 := by
    obtain ⟨⟨p, pre, post, nd, hctx, hg, _⟩, _⟩ := hat
    exact (hctx.shape hw hg).2.2.2.1
  exact ⟨⟨he', hp', f, m, s, by rw [hn', hn], by rw [hi', hi], hat⟩, hc' (by rw [hn]; exact hm0)⟩

theorem FwdResult.pos {t₀ : BTree} {L R : List Item} {r : BTree × Bool} (h : FwdResult t₀ L R r) (hR : R ≠ []) :
    r.2 = true ∧ CursorPos t₀ r.1 L R := by
  obtain ⟨he, hp, ⟨hnil, _⟩ | ⟨hr, f, m, s, hcur, hat⟩⟩ := h
  · exact absurd hnil hR
  · exact ⟨hr, he, hp, f, m, s, by rw [hcur], by rw [hcur], hat⟩

theorem BwdResult.pos {t₀ : BTree} {L R : List Item} {r : BTree × Bool} (h : BwdResult t₀ L R r) (hL : L ≠ []) :
    r.2 = true ∧ ∃ L' x, L = L' ++ [x] ∧ CursorPos t₀ r.1 L' (x :: R) := by
  obtain ⟨he, hp, ⟨hnil, _⟩ | ⟨hr, f, m, s, L', x, hLx, hcur, hat⟩⟩ := h
  · exact absurd hnil hL
  · exact ⟨hr, L', x, hLx, he, hp, f, m, s, by rw [hcur], by rw [hcur], hat⟩

/-! ### root positions -/

theorem WFR.root_node {t : BTree} (hw : WFR t) : ∃ nd, t.get? t.root = some nd := by
  obtain ⟨_, nd, hg, _⟩ := hw.wf
  exact ⟨nd, hg⟩

theorem Pre.root {t : BTree} (hw : WFR t) : Pre t (t.nodes.length + 1) t.root 0 [] t.abs := by
  obtain ⟨nd, hg⟩ := hw.root_node
  refine ⟨0, [], [], nd, Ctx.root, hg, Nat.zero_le _, by rw [Node.pre_zero]; rfl, ?_⟩
  rw [abs_eq_A, A_split t hw.wf (Nat.le_refl _) hg (Nat.zero_le _), Node.pre_zero]; simp

theorem Gap.root {t : BTree} (hw : WFR t) {nd : Node} (hg : t.get? t.root = some nd) :
    Gap t (t.nodes.length + 1) t.root nd.count t.abs [] := by
  have hsh : NodeShape t nd := (Ctx.root.shape hw hg).1
  refine ⟨0, [], [], nd, Ctx.root, hg, Nat.le_refl _, ?_, by rw [Node.post_count hsh]; rfl⟩
  rw [abs_eq_A, A_split t hw.wf (Nat.le_refl _) hg (Nat.le_refl _), Node.post_count hsh]; simp

/-! ### First / Last -/

theorem first_spec {t : BTree} (hwf : WF t) (hp : t.panicked = false) (hne : t.abs ≠ []) :
    t.first.2 = true ∧ CursorPos t t.first.1 [] t.abs ∧ t.first.1.cur.cached = true := by
  obtain ⟨hc, hr⟩ := hwf.count_ne hne
  have hw := hwf.wfr hr
  have h := moveToFirst_spec hw t.fuel t _ _ _ _ (HeapEq.refl t) hp (Pre.root hw) (by simp [BTree.fuel]) hne
  obtain ⟨h1, h2⟩ := h.pos hne
  obtain ⟨h3, h4⟩ := cursorPos_cache hw h2
  unfold BTree.first
  simp only [hc, Bool.false_eq_true, if_false, getRootNode_eq hc hr]
  exact ⟨h1, h3, h4⟩

theorem last_spec {t : BTree} (hwf : WF t) (hp : t.panicked = false) (hne : t.abs ≠ []) :
    t.last.2 = true ∧ ∃ L x, t.abs = L ++ [x] ∧ CursorPos t t.last.1 L [x] ∧ t.last.1.cur.cached = true := by
  obtain ⟨hc, hr⟩ := hwf.count_ne hne
  have hw := hwf.wfr hr
  obtain ⟨nd, hg⟩ := hw.root_node
  have h := moveToLast_spec hw t.fuel t _ _ nd.count _ _ (HeapEq.refl t) hp (Gap.root hw hg) (by simp [BTree.fuel]) hne
    (fun nd' h' => by rw [hg] at h'; cases h'; rfl)
  obtain ⟨h1, L, x, hLx, h2⟩ := h.pos hne
  obtain ⟨h3, h4⟩ := cursorPos_cache hw h2
  unfold BTree.last
  simp only [hc, Bool.false_eq_true, if_false, getRootNode_eq hc hr]
  exact ⟨h1, L, x, hLx, h3, h4⟩

/-! ### Next / Previous -/

theorem cursorPos_abs {t₀ t : BTree} (hw : WFR t₀) {L R : List Item} (h : CursorPos t₀ t L R) :
    t₀.abs = L ++ R ∧ t.abs = L ++ R ∧ ∃ x R', R = x :: R' ∧ t.curItem = x := by
  obtain ⟨he, hp, f, m, s, hn, hi, hat⟩ := h
  have habs := hat.gap.abs hw
  obtain ⟨nd, R', hg, hlt, hR⟩ := hat.head hw
  refine ⟨habs, by rw [abs_heapEq he]; exact habs, nd.slot s, R', hR, ?_⟩
  unfold BTree.curItem
  rw [hn, hi, Int.toNat_natCast]
  exact core_eq_slot (he.node hg).1 s

/-- the head of the public `next`/`prev`: the cursor is selected and inside its node -/
theorem cursorPos_head {t₀ t : BTree} (hwf : WF t₀) (hw : WFR t₀) {L R : List Item} (h : CursorPos t₀ t L R) :
    (t.count == 0 || !t.isCurSelected) = false ∧
      ∃ nd, t.get? t.cur.node = some nd ∧ ¬ (t.cur.idx ≥ (nd.count : Int)) ∧ nd.id = t.cur.node := by
  obtain ⟨habs, _, x, R', hR, _⟩ := cursorPos_abs hw h
  obtain ⟨he, hp, f, m, s, hn, hi, hat⟩ := h
  have hne : t₀.abs ≠ [] := by rw [habs, hR]; simp
  obtain ⟨hc, _⟩ := hwf.count_ne hne
  obtain ⟨nd, _, hg, hlt, _⟩ := hat.head hw
  have hm0 : m ≠ 0 := by
    obtain ⟨⟨p, pre, post, nd, hctx, hg, _⟩, _⟩ := hat
    exact (hctx.shape hw hg).2.2.2.1
  obtain ⟨nd', hgt, hcore⟩ := he.get_some hg
  refine ⟨?_, nd', by rw [hn]; exact hgt, ?_, by rw [hn]; exact get?_id hgt⟩
  · have h1 : (t.count == 0) = false := by rw [he.count]; exact hc
    have h2 : t.isCurSelected = true := by
      unfold BTree.isCurSelected
      rw [hn, hi]
      simp [hm0]
    simp [h1, h2]
  · rw [(core_eq hcore).2.2.2.1, hi]; omega

theorem next_spec {t₀ t : BTree} (hwf : WF t₀) {L R : List Item} {x : Item} (h : CursorPos t₀ t L (x :: R)) :
    HeapEq t₀ t.next.1 ∧ t.next.1.panicked = false ∧ (R = [] → t.next.2 = false) ∧
      (R ≠ [] → t.next.2 = true ∧ CursorPos t₀ t.next.1 (L ++ [x]) R ∧ t.next.1.cur.cached = true) := by
  have hr : t₀.root ≠ 0 := by
    obtain ⟨_, _, _, _, _, _, _, _, nd, hg, _⟩ := h
    exact hwf.root_ne_of_get hg
  have hw := hwf.wfr hr
  obtain ⟨hhead, nd, hg, hidx, hid⟩ := cursorPos_head hwf hw h
  obtain ⟨he, hp, f, m, s, hn, hi, hat⟩ := h
  have hmv := moveToNext_spec hw he hp hat hi
  rw [← hn, ← hid] at hmv
  unfold BTree.next
  simp only [hhead, Bool.false_eq_true, if_false, hg, hidx]
  obtain ⟨he1, hp1, hres⟩ := id hmv
  by_cases hR : R = []
  · rcases hres with ⟨_, hr2, hn0⟩ | ⟨hr2, f', m', s', hcur, hat'⟩
    · obtain ⟨he2, hp2, _⟩ := getCurrentItem_valid he1 hp1 (Or.inl hn0)
      exact ⟨he2, hp2, fun _ => hr2, fun h' => absurd hR h'⟩
    · exfalso
      obtain ⟨_, _, _, _, hh⟩ := hat'.head hw
      rw [hR] at hh; simp at hh
  · obtain ⟨h1, h2⟩ := hmv.pos hR
    obtain ⟨h3, h4⟩ := cursorPos_cache hw h2
    exact ⟨h3.1, h3.2.1, fun h' => absurd h' hR, fun _ => ⟨h1, h3, h4⟩⟩

theorem prev_spec {t₀ t : BTree} (hwf : WF t₀) {L R : List Item} (h : CursorPos t₀ t L R) :
    HeapEq t₀ t.prev.1 ∧ t.prev.1.panicked = false ∧ (L = [] → t.prev.2 = false) ∧
      (L ≠ [] → t.prev.2 = true ∧ ∃ L' x, L = L' ++ [x] ∧ CursorPos t₀ t.prev.1 L' (x :: R) ∧
        t.prev.1.cur.cached = true) := by
  have hr : t₀.root ≠ 0 := by
    obtain ⟨_, _, _, _, _, _, _, _, nd, hg, _⟩ := h
    exact hwf.root_ne_of_get hg
  have hw := hwf.wfr hr
  obtain ⟨hhead, nd, hg, hidx, hid⟩ := cursorPos_head hwf hw h
  obtain ⟨he, hp, f, m, s, hn, hi, hat⟩ := h
  have hmv := moveToPrevious_spec hw he hp hat hi
  rw [← hn, ← hid] at hmv
  unfold BTree.prev
  simp only [hhead, Bool.false_eq_true, if_false, hg, hidx]
  obtain ⟨he1, hp1, hres⟩ := id hmv
  by_cases hL : L = []
  · rcases hres with ⟨_, hr2, hn0⟩ | ⟨hr2, f', m', s', L', x', hLx, _⟩
    · obtain ⟨he2, hp2, _⟩ := getCurrentItem_valid he1 hp1 (Or.inl hn0)
      exact ⟨he2, hp2, fun _ => hr2, fun h' => absurd hL h'⟩
    · exfalso
      rw [hL] at hLx; simp at hLx
  · obtain ⟨h1, L', x, hLx, h2⟩ := hmv.pos hL
    obtain ⟨h3, h4⟩ := cursorPos_cache hw h2
    exact ⟨h3.1, h3.2.1, fun h' => absurd h' hL, fun _ => ⟨h1, L', x, hLx, h3, h4⟩⟩

/-! ### Find -/

theorem find_first_unfold (t : BTree) (k : Int) (hc : (t.count == 0) = false) :
    t.find k true =
      (if (if t.isCurSelected then t.getCurrentItem.1 else t).panicked then
        ((if t.isCurSelected then t.getCurrentItem.1 else t), false)
      else
        ((findAux k true (if t.isCurSelected then t.getCurrentItem.1 else t).getRootNode.1.fuel
            (if t.isCurSelected then t.getCurrentItem.1 else t).getRootNode.1
            (if t.isCurSelected then t.getCurrentItem.1 else t).getRootNode.2 none).1.getCurrentItem.1,
         (findAux k true (if t.isCurSelected then t.getCurrentItem.1 else t).getRootNode.1.fuel
            (if t.isCurSelected then t.getCurrentItem.1 else t).getRootNode.1
            (if t.isCurSelected then t.getCurrentItem.1 else t).getRootNode.2 none).2)) := by
  unfold BTree.find
  simp only [hc, Bool.false_eq_true, if_false]
  cases hsel : t.isCurSelected with
  | false => simp
  | true =>
    simp only [if_true]
    rcases hgc : t.getCurrentItem with ⟨t', ci⟩
    cases ci <;> simp

/-- `Find(k, true)` on a non-empty well-formed tree: a hit iff the key is stored, with the cursor on the first
    item of key `k` in order; on a miss the cursor is on the first greater item or on the last smaller one -/
theorem find_spec {t : BTree} (hwf : WF t) (hp : t.panicked = false) (hv : CursorValid t) (hne : t.abs ≠ []) (k : Int) :
    HeapEq t (t.find k true).1 ∧ (t.find k true).1.panicked = false ∧ (t.find k true).1.cur.cached = true ∧
    (((t.find k true).2 = true ∧ ∃ L y R, CursorPos t (t.find k true).1 L (y :: R) ∧ y.key = k ∧ ∀ x ∈ L, x.key < k) ∨
     ((t.find k true).2 = false ∧ ∃ Lo Hi, (∀ x ∈ Lo, x.key < k) ∧ (∀ x ∈ Hi, k < x.key) ∧
        (CursorPos t (t.find k true).1 Lo Hi ∨ ∃ Lo' x, Lo = Lo' ++ [x] ∧ CursorPos t (t.find k true).1 Lo' (x :: Hi)))) := by
  obtain ⟨hc, hr⟩ := hwf.count_ne hne
  have hw := hwf.wfr hr
  have hsorted := (abs_sorted_of_WF t hwf).1
  rw [find_first_unfold t k hc]
  -- the state after the fast-path probe
  have h1 : HeapEq t (if t.isCurSelected then t.getCurrentItem.1 else t) ∧
      (if t.isCurSelected then t.getCurrentItem.1 else t).panicked = false := by
    cases t.isCurSelected with
    | false => exact ⟨HeapEq.refl t, hp⟩
    | true =>
      obtain ⟨a, b, _⟩ := getCurrentItem_valid (HeapEq.refl t) hp hv
      exact ⟨a, b⟩
  generalize (if t.isCurSelected then t.getCurrentItem.1 else t) = t1 at h1 ⊢
  obtain ⟨he1, hp1⟩ := h1
  simp only [hp1, Bool.false_eq_true, if_false]
  have hc1 : (t1.count == 0) = false := by rw [he1.count]; exact hc
  have hr1 : t1.root ≠ 0 := by rw [he1.root]; exact hr
  rw [getRootNode_eq hc1 hr1]
  simp only [he1.root]
  have hfa := findAux_spec hw hsorted hne k true t1.fuel t1 _ t.root 0 [] [] none he1 hp1 Ctx.root
    (by simp [BTree.fuel, he1.len]) (by simp) (by simp) (by simp [FoundInv])
  generalize findAux k true t1.fuel t1 t.root none = r at hfa ⊢
  obtain ⟨he2, hp2, hres⟩ := hfa
  rcases hres with ⟨hr2, f, m, s, L, y, R, hcur, hat, hy, hL⟩ | ⟨hr2, Lo, Hi, hLo, hHi, f, m, s, hcur, hat⟩
  · have hpos : CursorPos t r.1 L (y :: R) := ⟨he2, hp2, f, m, s, by rw [hcur], by rw [hcur], hat⟩
    obtain ⟨h3, h4⟩ := cursorPos_cache hw hpos
    exact ⟨h3.1, h3.2.1, h4, Or.inl ⟨hr2, L, y, R, h3, hy, hL rfl⟩⟩
  · rcases hat with hat | ⟨Lo', x, hLx, hat⟩
    · have hpos : CursorPos t r.1 Lo Hi := ⟨he2, hp2, f, m, s, by rw [hcur], by rw [hcur], hat⟩
      obtain ⟨h3, h4⟩ := cursorPos_cache hw hpos
      exact ⟨h3.1, h3.2.1, h4, Or.inr ⟨hr2, Lo, Hi, hLo, hHi, Or.inl h3⟩⟩
    · have hpos : CursorPos t r.1 Lo' (x :: Hi) := ⟨he2, hp2, f, m, s, by rw [hcur], by rw [hcur], hat⟩
      obtain ⟨h3, h4⟩ := cursorPos_cache hw hpos
      exact ⟨h3.1, h3.2.1, h4, Or.inr ⟨hr2, Lo, Hi, hLo, hHi, Or.inr ⟨Lo', x, hLx, h3⟩⟩⟩

end Sop.BTree
