import Sop.Lemmas.BTreeScanDesc
/-! Every node stored in a well-formed repository is reachable from the root, so every occupied slot of a
stored node is an in-order position; `Find(k, false)` including its fast path (with the proposed repair
`fixFast`: the fast path trusts the cursor only if it holds a live item). -/
namespace Sop.BTree
set_option linter.unusedVariables false
set_option linter.unusedSimpArgs false

theorem nodup_subset_all : ∀ (l m : List Nat), l.Nodup → (∀ x ∈ l, x ∈ m) → l.length = m.length → ∀ x ∈ m, x ∈ l
  | [], m, _, _, hlen, x, hx => by
    have : m = [] := List.eq_nil_of_length_eq_zero hlen.symm
    rw [this] at hx; exact hx
  | a :: l, m, hnd, hsub, hlen, x, hx => by
    have hnd' := List.nodup_cons.mp hnd
    have ha : a ∈ m := hsub a List.mem_cons_self
    have hsub' : ∀ y ∈ l, y ∈ m.erase a := by
      intro y hy
      have hya : y ≠ a := fun e => hnd'.1 (e ▸ hy)
      exact (List.mem_erase_of_ne hya).mpr (hsub y (List.mem_cons_of_mem _ hy))
    have hlen' : l.length = (m.erase a).length := by
      rw [List.length_erase_of_mem ha]; simp at hlen; omega
    by_cases hxa : x = a
    · rw [hxa]; exact List.mem_cons_self
    · have := nodup_subset_all l (m.erase a) hnd'.2 hsub' hlen' x ((List.mem_erase_of_ne hxa).mpr hx)
      exact List.mem_cons_of_mem _ this

theorem get?_mem {t : BTree} {n : NodeId} {nd : Node} (h : t.get? n = some nd) : n ∈ t.nodes.map (·.id) := by
  unfold BTree.get? at h
  have h1 := List.mem_of_find?_eq_some h
  have h2 : nd.id = n := by simpa using List.find?_some h
  exact List.mem_map.mpr ⟨nd, h1, h2⟩

theorem mem_get? {t : BTree} {n : NodeId} (h : n ∈ t.nodes.map (·.id)) : ∃ nd, t.get? n = some nd := by
  obtain ⟨nd, hm, hid⟩ := List.mem_map.mp h
  unfold BTree.get?
  cases hf : List.find? (fun x => x.id == n) t.nodes with
  | some nd' => exact ⟨nd', rfl⟩
  | none =>
    have := List.find?_eq_none.mp hf nd hm
    simp [hid] at this

theorem reach_mem_heap (t : BTree) : ∀ (f : Nat) (m n : NodeId), n ∈ reach t f m → n ∈ t.nodes.map (·.id)
  | 0, _, _, h => by simp [reach] at h
  | f + 1, m, n, h => by
    rw [reach] at h
    by_cases hm : m = 0
    · simp [hm] at h
    · simp only [hm, if_false] at h
      cases hg : t.get? m with
      | none => rw [hg] at h; simp at h
      | some nd =>
        rw [hg] at h
        simp only at h
        rcases List.mem_cons.mp h with rfl | h
        · exact get?_mem hg
        · obtain ⟨c, _, hc⟩ := List.mem_flatMap.mp h
          exact reach_mem_heap t f c n hc

/-- in a well-formed repository every stored node is reachable from the root -/
theorem WF.all_reachable {t : BTree} (h : WF t) (hr : t.root ≠ 0) {n : NodeId} {nd : Node} (hg : t.get? n = some nd) :
    n ∈ reach t (t.nodes.length + 1) t.root := by
  have h' := h.2
  simp only [hr, if_false] at h'
  exact nodup_subset_all _ (t.nodes.map (·.id)) h'.2.1 (fun x hx => reach_mem_heap t _ _ x hx)
    (by rw [h'.2.2.1]; simp) n (get?_mem hg)

/-- a node reachable below a context has a context -/
theorem Ctx.of_reach {t : BTree} (hw : WFR t) : ∀ (f : Nat) (m p : NodeId) (pre post : List Item) (n : NodeId),
    Ctx t f m p pre post → n ∈ reach t f m → ∃ f' p' pre' post', Ctx t f' n p' pre' post'
  | 0, m, p, pre, post, n, _, h => by simp [reach] at h
  | f + 1, m, p, pre, post, n, hctx, h => by
    rw [reach] at h
    by_cases hm : m = 0
    · simp [hm] at h
    · simp only [hm, if_false] at h
      cases hg : t.get? m with
      | none => rw [hg] at h; simp at h
      | some nd =>
        rw [hg] at h
        simp only at h
        obtain ⟨hsh, _⟩ := hctx.shape hw hg
        rcases List.mem_cons.mp h with rfl | h
        · exact ⟨_, _, _, _, hctx⟩
        · obtain ⟨c, hc, hn⟩ := List.mem_flatMap.mp h
          have hc0 : c ≠ 0 := by
            intro e; rw [e] at hn
            cases f with
            | zero => simp [reach] at hn
            | succ f => simp [reach] at hn
          cases hcs : nd.children with
          | none => rw [hcs] at hc; simp at hc
          | some cs =>
            rw [hcs] at hc
            simp only [Option.getD_some] at hc
            have hk : nd.kids = cs.toList.take (nd.count + 1) := by simp [Node.kids, hcs]
            rw [← hk] at hc
            obtain ⟨i, hi, hci⟩ := List.getElem_of_mem hc
            have hi' : i ≤ nd.count := by rw [Node.kids_length hsh] at hi; omega
            have hchild : nd.child i = c := by
              rw [← Node.kids_getD hsh hi', List.getD_eq_getElem?_getD, List.getElem?_eq_getElem hi, Option.getD_some, hci]
            exact Ctx.of_reach hw f c m _ _ n (Ctx.child hctx hg hi' hchild hc0) hn

/-- every occupied slot of a stored node is an in-order position -/
theorem WF.at_of_slot {t : BTree} (h : WF t) {n : NodeId} {nd : Node} (hg : t.get? n = some nd) {s : Nat}
    (hs : s < nd.count) : ∃ f L R, At t f n s L R := by
  have hr := h.root_ne_of_get hg
  have hw := h.wfr hr
  obtain ⟨f, p, pre, post, hctx⟩ := Ctx.of_reach hw _ _ _ _ _ n Ctx.root (h.all_reachable hr hg)
  exact ⟨f, _, _, ⟨p, pre, post, nd, hctx, hg, Nat.le_of_lt hs, rfl, rfl⟩, nd, hg, hs⟩

/-- a slot holding a live item is an occupied slot -/
theorem slot_live_lt {t : BTree} {nd : Node} (hsh : NodeShape t nd) {s : Nat} (h : (nd.slot s).id ≠ 0) : s < nd.count := by
  apply Classical.byContradiction
  intro hge
  have hge : nd.count ≤ s := by omega
  apply h
  unfold Node.slot
  by_cases hsz : s < nd.slots.size
  · have hz := hsh.2.2.2.1 (nd.slots.getD s {}) (by
      rw [List.mem_drop_iff_getElem]
      refine ⟨s - nd.count, by simp; omega, ?_⟩
      simp [Array.getD, hsz, show nd.count + (s - nd.count) = s by omega])
    rw [hz]
  · simp [Array.getD, hsz]

/-- `Find(k, false)` (the search used by `Update`, `Remove`, `UpdateKey`) on a non-empty well-formed tree, with the
    repaired fast path: a hit leaves the cursor on SOME item of key `k`; a miss means `k` is not stored -/
theorem find_any_spec {t : BTree} (hwf : WF t) (hp : t.panicked = false) (hv : CursorValid t) (hfix : t.fixFast = true)
    (hne : t.abs ≠ []) (k : Int) :
    HeapEq t (t.find k false).1 ∧ (t.find k false).1.panicked = false ∧
    (((t.find k false).2 = true ∧ ∃ L y R, CursorPos t (t.find k false).1 L (y :: R) ∧ y.key = k) ∨
     ((t.find k false).2 = false ∧ (∀ x ∈ t.abs, x.key ≠ k) ∧ ∃ L R, CursorPos t (t.find k false).1 L R)) := by
  obtain ⟨hc, hr⟩ := hwf.count_ne hne
  have hw := hwf.wfr hr
  have hsorted := (abs_sorted_of_WF t hwf).1
  -- the slow path from any state equal to `t` up to memo/cursor
  have hslow : ∀ t1 : BTree, HeapEq t t1 → t1.panicked = false →
      HeapEq t (findAux k false t1.fuel t1 t.root none).1.getCurrentItem.1 ∧
      (findAux k false t1.fuel t1 t.root none).1.getCurrentItem.1.panicked = false ∧
      (((findAux k false t1.fuel t1 t.root none).2 = true ∧ ∃ L y R,
          CursorPos t (findAux k false t1.fuel t1 t.root none).1.getCurrentItem.1 L (y :: R) ∧ y.key = k) ∨
       ((findAux k false t1.fuel t1 t.root none).2 = false ∧ (∀ x ∈ t.abs, x.key ≠ k) ∧
          ∃ L R, CursorPos t (findAux k false t1.fuel t1 t.root none).1.getCurrentItem.1 L R)) := by
    intro t1 he1 hp1
    have hfa := findAux_spec hw hsorted hne k false t1.fuel t1 _ t.root 0 [] [] none he1 hp1 Ctx.root
      (by simp [BTree.fuel, he1.len]) (by simp) (by simp) (by simp [FoundInv])
    generalize findAux k false t1.fuel t1 t.root none = r at hfa ⊢
    obtain ⟨he2, hp2, hres⟩ := hfa
    rcases hres with ⟨hr2, f, m, s, L, y, R, hcur, hat, hy, _⟩ | ⟨hr2, Lo, Hi, hLo, hHi, f, m, s, hcur, hat⟩
    · have hpos : CursorPos t r.1 L (y :: R) := ⟨he2, hp2, f, m, s, by rw [hcur], by rw [hcur], hat⟩
      obtain ⟨h3, _⟩ := cursorPos_cache hw hpos
      exact ⟨h3.1, h3.2.1, Or.inl ⟨hr2, L, y, R, h3, hy⟩⟩
    · have habs : t.abs = Lo ++ Hi := by
        rcases hat with hat | ⟨Lo', x, hLx, hat⟩
        · exact hat.gap.abs hw
        · rw [hat.gap.abs hw, hLx]; simp
      have hpos : ∃ L R, CursorPos t r.1 L R := by
        rcases hat with hat | ⟨Lo', x, hLx, hat⟩
        · exact ⟨_, _, he2, hp2, f, m, s, by rw [hcur], by rw [hcur], hat⟩
        · exact ⟨_, _, he2, hp2, f, m, s, by rw [hcur], by rw [hcur], hat⟩
      obtain ⟨L, R, hpos⟩ := hpos
      obtain ⟨h3, _⟩ := cursorPos_cache hw hpos
      refine ⟨h3.1, h3.2.1, Or.inr ⟨hr2, ?_, L, R, h3⟩⟩
      intro x hx
      rw [habs] at hx
      rcases List.mem_append.mp hx with hx | hx
      · have := hLo x hx; omega
      · have := hHi x hx; omega
  unfold BTree.find
  simp only [hc, Bool.false_eq_true, if_false]
  cases hsel : t.isCurSelected with
  | false =>
    simp only [Bool.false_eq_true, if_false, hp, getRootNode_eq hc hr]
    exact hslow t (HeapEq.refl t) hp
  | true =>
    simp only [if_true]
    obtain ⟨he1, hp1, hn1, hi1, hc1⟩ := getCurrentItem_valid (HeapEq.refl t) hp hv
    have hnode : t.cur.node ≠ 0 := by
      unfold BTree.isCurSelected at hsel
      simp only [Bool.and_eq_true, bne_iff_ne, ne_eq, decide_eq_true_eq] at hsel
      exact hsel.1
    have hidx : 0 ≤ t.cur.idx := by
      unfold BTree.isCurSelected at hsel
      simp only [Bool.and_eq_true, bne_iff_ne, ne_eq, decide_eq_true_eq] at hsel
      exact hsel.2
    -- `getCurrentItem` answers the cached item
    have hci : ∃ ci, t.getCurrentItem = (t.getCurrentItem.1, some ci) ∧ ci = t.getCurrentItem.1.curItem := by
      unfold BTree.getCurrentItem
      rw [if_neg hnode]
      by_cases hcc : t.cur.cached = true
      · rw [if_pos hcc]; exact ⟨_, rfl, rfl⟩
      · rw [if_neg hcc]
        rcases hv with h | h | ⟨nd, hg, h1, h2⟩
        · exact absurd h hnode
        · exact absurd h hcc
        · rw [hg]
          have : ¬ (t.cur.idx < 0 ∨ t.cur.idx ≥ (nd.slots.size : Int)) := by omega
          simp only []
          rw [if_neg this]
          exact ⟨_, rfl, rfl⟩
    obtain ⟨ci, hgc, hcie⟩ := hci
    generalize t.getCurrentItem.1 = t1 at he1 hp1 hn1 hi1 hc1 hgc hcie
    rw [hgc]
    simp only [Bool.not_false, Bool.true_and, he1.fixFast, hfix, Bool.not_true, Bool.false_or, hp1,
      Bool.false_eq_true, if_false]
    have hc1' : (t1.count == 0) = false := by rw [he1.count]; exact hc
    have hr1 : t1.root ≠ 0 := by rw [he1.root]; exact hr
    by_cases hfast : (ci.id != 0 && ci.key == k) = true
    · simp only [hfast, if_true]
      simp only [Bool.and_eq_true, bne_iff_ne, ne_eq, beq_iff_eq] at hfast
      refine ⟨he1, hp1, Or.inl ⟨by first | rfl | trivial, ?_⟩⟩
      -- the cursor's slot is an occupied slot of a stored node
      rw [hcie] at hfast
      unfold BTree.curItem at hfast
      rw [hn1, hi1] at hfast
      have hstored : ∃ nd, t.get? t.cur.node = some nd := by
        cases hg : t.get? t.cur.node with
        | some nd => exact ⟨nd, rfl⟩
        | none =>
          exfalso
          have := he1.get_none hg
          apply hfast.1
          simp [BTree.get, this, Node.slot]
      obtain ⟨nd, hg⟩ := hstored
      have hslot : (t1.get t.cur.node).slot t.cur.idx.toNat = nd.slot t.cur.idx.toNat :=
        core_eq_slot (he1.node hg).1 _
      rw [hslot] at hfast
      obtain ⟨f, p, pre, post, hctx⟩ := Ctx.of_reach hw _ _ _ _ _ _ Ctx.root (hwf.all_reachable hr hg)
      obtain ⟨hsh, _⟩ := hctx.shape hw hg
      have hlt := slot_live_lt hsh hfast.1
      obtain ⟨f', L, R, hat⟩ := hwf.at_of_slot hg hlt
      obtain ⟨nd', R', hg', _, hR⟩ := hat.head hw
      rw [hg] at hg'; cases hg'
      subst hR
      exact ⟨L, _, R', ⟨he1, hp1, f', _, _, hn1, by rw [hi1]; omega, hat⟩, hfast.2⟩
    · have hfast' : (ci.id != 0 && ci.key == k) = false := by simpa using hfast
      simp only [hfast', Bool.false_eq_true, if_false, getRootNode_eq hc1' hr1, he1.root]
      exact hslow t1 he1 hp1

end Sop.BTree
