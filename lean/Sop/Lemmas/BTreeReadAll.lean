import Sop.Lemmas.BTreeReadOps
/-! Every read-only operation of Model B meets the ordered-collection specification on a well-formed tree and
keeps it well-formed (the read-only part of `Statement_C17`). -/
namespace Sop.BTree
set_option linter.unusedVariables false
set_option linter.unusedSimpArgs false

/-- on an empty well-formed store the cached current key is the zero item -/
theorem empty_curKey {t : BTree} (hwf : WF t) (hne : t.abs = []) : t.getCurrentKey.id = 0 := by
  unfold BTree.getCurrentKey
  by_cases hc : t.cur.cached = true
  · rw [if_pos hc]
    apply Classical.byContradiction
    intro hid
    unfold BTree.curItem at hid
    cases hg : t.get? t.cur.node with
    | none =>
      apply hid
      simp [BTree.get, hg, Node.slot]
    | some nd =>
      rw [get_of_get? hg] at hid
      have hr := hwf.root_ne_of_get hg
      have hw := hwf.wfr hr
      obtain ⟨f, p, pre, post, hctx⟩ := Ctx.of_reach hw _ _ _ _ _ _ Ctx.root (hwf.all_reachable hr hg)
      obtain ⟨hsh, _⟩ := hctx.shape hw hg
      have hlt := slot_live_lt hsh hid
      obtain ⟨f', L, R, hat⟩ := hwf.at_of_slot hg hlt
      obtain ⟨_, R', _, _, hR⟩ := hat.head hw
      have := hat.gap.abs hw
      rw [hne, hR] at this
      simp at this
  · rw [if_neg hc]

theorem bool_eq_of_iff {a b : Bool} (h : a = true ↔ b = true) : (a == b) = true := by
  cases a <;> cases b <;> simp_all

theorem accepts_same {l : List Item} (hs : Sorted l) : keysSorted l = true ∧ l.isPerm l = true :=
  ⟨(keysSorted_iff l).mpr hs, List.isPerm_iff.mpr (List.Perm.refl l)⟩

/-- the read-only operations -/
def isReadOp : Op → Bool
  | .find _ _ | .findDesc _ | .findWithID _ _ | .first | .last | .next | .prev | .range _ _ | .rangeDesc _ _ => true
  | _ => false

theorem hasKey_iff' {l : List Item} {k : Int} : hasKey l k = true ↔ ∃ x ∈ l, x.key = k := by
  simp [hasKey]

/-- the state part: after a read-only call the tree is the same up to memo/cursor, has not panicked, and its
    current item can still be read -/
theorem read_op_state {t : BTree} (hwf : WF t) (hp : t.panicked = false) (hv : CursorValid t)
    (hix : t.cur.node = 0 ∨ 0 ≤ t.cur.idx)
    (hff : t.fixFast = true) (hfi : t.fixId = true) (op : Op) (hro : isReadOp op = true) :
    GoodSt t (t.step op).1 := by
  have hemp : t.abs = [] → (t.count == 0) = true := by
    intro hne
    have := (abs_sorted_of_WF t hwf).2.2
    rw [hne] at this; simp [this]
  have hself : GoodSt t t := ⟨HeapEq.refl t, hp, hv, hix⟩
  cases op with
  | find k f =>
    by_cases hne : t.abs = []
    · have : t.find k f = (t, false) := by unfold BTree.find; simp [hemp hne]
      simp only [BTree.step, okb, this]; exact hself
    · cases f with
      | true =>
        obtain ⟨_, _, _, hres⟩ := find_spec hwf hp hv hne k
        rcases hres with ⟨_, _, _, _, hpos, _⟩ | ⟨_, _, _, _, _, hpos | ⟨_, _, _, hpos⟩⟩ <;> exact cursorPos_good hwf hpos
      | false =>
        obtain ⟨_, _, hres⟩ := find_any_spec hwf hp hv hff hne k
        rcases hres with ⟨_, _, _, _, hpos, _⟩ | ⟨_, _, _, _, hpos⟩ <;> exact cursorPos_good hwf hpos
  | findDesc k =>
    by_cases hne : t.abs = []
    · have : t.findDesc k = (t, false) := by unfold BTree.findDesc; simp [hemp hne]
      simp only [BTree.step, okb, this]; exact hself
    · obtain ⟨_, _, _, hres⟩ := findDesc_spec hwf hp hne k
      rcases hres with ⟨_, _, _, _, hpos, _⟩ | ⟨_, _, _, _, _, hpos | ⟨_, _, _, hpos⟩⟩ <;> exact cursorPos_good hwf hpos
  | findWithID k id => exact (findWithID_spec hwf hp hv hix hfi k id).1
  | first =>
    by_cases hne : t.abs = []
    · have : t.first = (t, false) := by unfold BTree.first; simp [hemp hne]
      simp only [BTree.step, okb, this]; exact hself
    · obtain ⟨_, h2, _⟩ := first_spec hwf hp hne; exact cursorPos_good hwf h2
  | last =>
    by_cases hne : t.abs = []
    · have : t.last = (t, false) := by unfold BTree.last; simp [hemp hne]
      simp only [BTree.step, okb, this]; exact hself
    · obtain ⟨_, L, x, _, h2, _⟩ := last_spec hwf hp hne; exact cursorPos_good hwf h2
  | next => exact next_any hwf hself
  | prev => exact prev_any hwf hself
  | range a b => exact range_state hwf hp hv hix a b true
  | rangeDesc a b => exact range_state hwf hp hv hix a b false
  | _ => simp [isReadOp] at hro

/-- READ-ONLY PART OF `Statement_C17`: every read-only public call on a well-formed tree (cursor readable, the
    two read-side repairs in place) leaves a well-formed tree with the same contents, does not panic, and
    returns what the ordered multiset/map specification says -/
theorem read_op_accepts {t : BTree} (hwf : WF t) (hp : t.panicked = false) (hv : CursorValid t)
    (hix : t.cur.node = 0 ∨ 0 ≤ t.cur.idx)
    (hff : t.fixFast = true) (hfi : t.fixId = true) (op : Op) (hro : isReadOp op = true) :
    WF (t.step op).1 ∧ (t.step op).1.panicked = false ∧ (t.step op).1.abs = t.abs ∧ GoodSt t (t.step op).1 ∧
      Spec.accepts t.unique t.abs op (t.step op).2 (t.step op).1.abs = true := by
  have hgood := read_op_state hwf hp hv hix hff hfi op hro
  obtain ⟨he, hp', _⟩ := id hgood
  have habs := abs_heapEq he
  have hsorted := (abs_sorted_of_WF t hwf).1
  obtain ⟨hks, hperm⟩ := accepts_same hsorted
  refine ⟨WF_heapEq he hwf, hp', habs, hgood, ?_⟩
  rw [habs]
  have hemp : t.abs = [] → (t.count == 0) = true := by
    intro hne
    have := (abs_sorted_of_WF t hwf).2.2
    rw [hne] at this; simp [this]
  cases op with
  | find k f =>
    have hiff : (t.find k f).2 = true ↔ hasKey t.abs k = true := by
      by_cases hne : t.abs = []
      · have : t.find k f = (t, false) := by unfold BTree.find; simp [hemp hne]
        rw [this, hne]; simp [hasKey]
      · have hw := hwf.wfr (hwf.count_ne hne).2
        cases f with
        | true =>
          obtain ⟨_, _, _, hres⟩ := find_spec hwf hp hv hne k
          rcases hres with ⟨hr, L, y, R, hpos, hy, _⟩ | ⟨hr, Lo, Hi, hLo, hHi, hpos⟩
          · rw [hr]; simp only [true_iff]
            exact hasKey_iff'.mpr ⟨y, by rw [(cursorPos_abs hw hpos).1]; simp, hy⟩
          · rw [hr]
            constructor
            · intro h; exact absurd h (by simp)
            · intro h
              exfalso
              obtain ⟨x, hx, hk⟩ := hasKey_iff'.mp h
              have habs' : t.abs = Lo ++ Hi := by
                rcases hpos with hpos | ⟨Lo', x', hLx, hpos⟩
                · exact (cursorPos_abs hw hpos).1
                · rw [(cursorPos_abs hw hpos).1, hLx]; simp
              rw [habs'] at hx
              rcases List.mem_append.mp hx with hx | hx
              · have := hLo x hx; omega
              · have := hHi x hx; omega
        | false =>
          obtain ⟨_, _, hres⟩ := find_any_spec hwf hp hv hff hne k
          rcases hres with ⟨hr, L, y, R, hpos, hy⟩ | ⟨hr, hno, _⟩
          · rw [hr]; simp only [true_iff]
            exact hasKey_iff'.mpr ⟨y, by rw [(cursorPos_abs hw hpos).1]; simp, hy⟩
          · rw [hr]
            constructor
            · intro h; exact absurd h (by simp)
            · intro h
              obtain ⟨x, hx, hk⟩ := hasKey_iff'.mp h
              exact absurd hk (hno x hx)
    simp only [Spec.accepts, BTree.step, okb, hks, hperm, bool_eq_of_iff hiff, Bool.and_self]
  | findDesc k =>
    have hiff : (t.findDesc k).2 = true ↔ hasKey t.abs k = true := by
      by_cases hne : t.abs = []
      · have : t.findDesc k = (t, false) := by unfold BTree.findDesc; simp [hemp hne]
        rw [this, hne]; simp [hasKey]
      · have hw := hwf.wfr (hwf.count_ne hne).2
        obtain ⟨_, _, _, hres⟩ := findDesc_spec hwf hp hne k
        rcases hres with ⟨hr, L, y, R, hpos, hy, _⟩ | ⟨hr, Lo, Hi, hLo, hHi, hpos⟩
        · rw [hr]; simp only [true_iff]
          exact hasKey_iff'.mpr ⟨y, by rw [(cursorPos_abs hw hpos).1]; simp, hy⟩
        · rw [hr]
          constructor
          · intro h; exact absurd h (by simp)
          · intro h
            exfalso
            obtain ⟨x, hx, hk⟩ := hasKey_iff'.mp h
            have habs' : t.abs = Lo ++ Hi := by
              rcases hpos with hpos | ⟨Lo', x', hLx, hpos⟩
              · exact (cursorPos_abs hw hpos).1
              · rw [(cursorPos_abs hw hpos).1, hLx]; simp
            rw [habs'] at hx
            rcases List.mem_append.mp hx with hx | hx
            · have := hLo x hx; omega
            · have := hHi x hx; omega
    simp only [Spec.accepts, BTree.step, okb, hks, hperm, bool_eq_of_iff hiff, Bool.and_self]
  | findWithID k id =>
    obtain ⟨_, hiff⟩ := findWithID_spec hwf hp hv hix hfi k id
    have hiff' : (t.findWithID k id).2 = true ↔ (t.abs.any (fun x => x.key == k && x.id == id)) = true := by
      rw [hiff]; simp
    simp only [Spec.accepts, BTree.step, okb, hks, hperm, bool_eq_of_iff hiff', Bool.and_self]
  | first =>
    have hiff : t.first.2 = true ↔ (!t.abs.isEmpty) = true := by
      by_cases hne : t.abs = []
      · have : t.first = (t, false) := by unfold BTree.first; simp [hemp hne]
        rw [this, hne]; simp
      · rw [(first_spec hwf hp hne).1]; simp [hne]
    simp only [Spec.accepts, BTree.step, okb, hks, hperm, bool_eq_of_iff hiff, Bool.and_self]
  | last =>
    have hiff : t.last.2 = true ↔ (!t.abs.isEmpty) = true := by
      by_cases hne : t.abs = []
      · have : t.last = (t, false) := by unfold BTree.last; simp [hemp hne]
        rw [this, hne]; simp
      · rw [(last_spec hwf hp hne).1]; simp [hne]
    simp only [Spec.accepts, BTree.step, okb, hks, hperm, bool_eq_of_iff hiff, Bool.and_self]
  | next => simp only [Spec.accepts, BTree.step, okb, hks, hperm, Bool.and_self]
  | prev => simp only [Spec.accepts, BTree.step, okb, hks, hperm, Bool.and_self]
  | range a b =>
    have := range_asc_spec hwf hp hv (empty_curKey hwf) a b
    simp only [Spec.accepts, BTree.step, hks, hperm, this, beq_self_eq_true, Bool.and_self]
  | rangeDesc a b =>
    have := range_desc_spec hwf hp (empty_curKey hwf) a b
    simp only [Spec.accepts, BTree.step, hks, hperm, this, List.map_reverse, beq_self_eq_true, Bool.and_self]
  | _ => simp [isReadOp] at hro

end Sop.BTree
