import Sop.Lemmas.BTreeReach
/-! The read-only public calls never damage a well-formed tree: `Next`/`Previous` from ANY cursor state, the range
iterators' final state, and `FindWithID` (with the proposed repair `fixId`). -/
namespace Sop.BTree
set_option linter.unusedVariables false
set_option linter.unusedSimpArgs false

theorem HeapEq.fixId {t t' : BTree} (h : HeapEq t t') : t'.fixId = t.fixId := by
  have := congrArg BTree.fixId h.frame; exact this

/-- `t` is the well-formed `t₀` up to memo/cursor, has not panicked, and its current item can be read -/
def GoodSt (t₀ t : BTree) : Prop :=
  HeapEq t₀ t ∧ t.panicked = false ∧ CursorValid t ∧ (t.cur.node = 0 ∨ 0 ≤ t.cur.idx)

theorem cursorPos_good {t₀ t : BTree} (hwf : WF t₀) {L R : List Item} (h : CursorPos t₀ t L R) : GoodSt t₀ t := by
  obtain ⟨he, hp, f, m, s, hn, hi, hat⟩ := h
  have hr : t₀.root ≠ 0 := by
    obtain ⟨_, nd, hg, _⟩ := hat
    exact hwf.root_ne_of_get hg
  exact ⟨he, hp, hat.valid (hwf.wfr hr) he hn hi, Or.inr (by omega)⟩

theorem getCurrentItem_good {t₀ t : BTree} (h : GoodSt t₀ t) : GoodSt t₀ t.getCurrentItem.1 := by
  obtain ⟨he, hp, hv, hx⟩ := h
  obtain ⟨h1, h2, h3, h4, h5⟩ := getCurrentItem_valid he hp hv
  refine ⟨h1, h2, ?_, by rw [h3, h4]; exact hx⟩
  by_cases h0 : t.cur.node = 0
  · left; rw [h3]; exact h0
  · right; left; exact h5 h0

/-- any cursor that passes the guards of the public `Next`/`Previous` stands on an in-order position -/
theorem cursorPos_of_guard {t₀ t : BTree} (hwf : WF t₀) (he : HeapEq t₀ t) (hp : t.panicked = false)
    (hsel : t.isCurSelected = true) {nd : Node} (hg : t.get? t.cur.node = some nd) (hidx : ¬ (t.cur.idx ≥ (nd.count : Int))) :
    ∃ L R, CursorPos t₀ t L R := by
  have hsel' := hsel
  unfold BTree.isCurSelected at hsel'
  simp only [Bool.and_eq_true, bne_iff_ne, ne_eq, decide_eq_true_eq] at hsel'
  have hg0 : ∃ nd0, t₀.get? t.cur.node = some nd0 := by
    cases h : t₀.get? t.cur.node with
    | some nd0 => exact ⟨nd0, rfl⟩
    | none => rw [he.get_none h] at hg; cases hg
  obtain ⟨nd0, hg0⟩ := hg0
  obtain ⟨nd', hg', hcore⟩ := he.get_some hg0
  rw [hg] at hg'; cases hg'
  have hcnt : nd.count = nd0.count := (core_eq hcore).2.2.2.1
  have hlt : t.cur.idx.toNat < nd0.count := by omega
  obtain ⟨f, L, R, hat⟩ := hwf.at_of_slot hg0 hlt
  exact ⟨L, R, he, hp, f, _, _, rfl, by omega, hat⟩

theorem next_end_cursor {t₀ t : BTree} (hwf : WF t₀) {L : List Item} {x : Item} (h : CursorPos t₀ t L [x]) :
    t.next.1.cur.node = 0 := by
  have hr : t₀.root ≠ 0 := by
    obtain ⟨_, _, _, _, _, _, _, _, nd, hg, _⟩ := h
    exact hwf.root_ne_of_get hg
  have hw := hwf.wfr hr
  obtain ⟨hhead, nd, hg, hidx, hid⟩ := cursorPos_head hwf hw h
  obtain ⟨he, hp, f, m, s, hn, hi, hat⟩ := h
  have hmv := moveToNext_spec hw he hp hat hi
  rw [← hn, ← hid] at hmv
  unfold BTree.next
  simp only [hhead, Bool.false_eq_true, if_false, hg, hidx]
  obtain ⟨he1, hp1, hres⟩ := hmv
  rcases hres with ⟨_, hr2, hn0⟩ | ⟨hr2, f', m', s', hcur, hat'⟩
  · obtain ⟨_, _, h3, _⟩ := getCurrentItem_valid he1 hp1 (Or.inl hn0)
    rw [h3]; exact hn0
  · exfalso
    obtain ⟨_, _, _, _, hh⟩ := hat'.head hw
    simp at hh

theorem prev_end_cursor {t₀ t : BTree} (hwf : WF t₀) {R : List Item} (h : CursorPos t₀ t [] R) :
    t.prev.1.cur.node = 0 := by
  have hr : t₀.root ≠ 0 := by
    obtain ⟨_, _, _, _, _, _, _, _, nd, hg, _⟩ := h
    exact hwf.root_ne_of_get hg
  have hw := hwf.wfr hr
  obtain ⟨hhead, nd, hg, hidx, hid⟩ := cursorPos_head hwf hw h
  obtain ⟨he, hp, f, m, s, hn, hi, hat⟩ := h
  have hmv := moveToPrevious_spec hw he hp hat hi
  rw [← hn, ← hid] at hmv
  unfold BTree.prev
  simp only [hhead, Bool.false_eq_true, if_false, hg, hidx]
  obtain ⟨he1, hp1, hres⟩ := hmv
  rcases hres with ⟨_, hr2, hn0⟩ | ⟨hr2, f', m', s', L', x', hLx, _⟩
  · obtain ⟨_, _, h3, _⟩ := getCurrentItem_valid he1 hp1 (Or.inl hn0)
    rw [h3]; exact hn0
  · exfalso; simp at hLx

/-- `Next` from ANY cursor state keeps the tree (up to memo/cursor) and leaves a readable cursor -/
theorem next_any {t₀ t : BTree} (hwf : WF t₀) (hgood : GoodSt t₀ t) : GoodSt t₀ t.next.1 := by
  obtain ⟨he, hp, hv, hx⟩ := id hgood
  by_cases hguard : (t.count == 0 || !t.isCurSelected) = true
  · have : t.next = (t, false) := by unfold BTree.next; simp [hguard]
    rw [this]; exact hgood
  · have hguard' : (t.count == 0 || !t.isCurSelected) = false := by simpa using hguard
    cases hg : t.get? t.cur.node with
    | none =>
      have : t.next = (t, false) := by unfold BTree.next; simp [hguard', hg]
      rw [this]; exact hgood
    | some nd =>
      by_cases hidx : t.cur.idx ≥ (nd.count : Int)
      · have : t.next = (t, false) := by unfold BTree.next; simp [hguard', hg, hidx]
        rw [this]; exact hgood
      · have hsel : t.isCurSelected = true := by
          simp only [Bool.or_eq_false_iff, Bool.not_eq_false'] at hguard'
          exact hguard'.2
        obtain ⟨L, R, hpos⟩ := cursorPos_of_guard hwf he hp hsel hg hidx
        have hr : t₀.root ≠ 0 := by
          obtain ⟨_, _, _, _, _, _, _, _, nd, hg, _⟩ := hpos
          exact hwf.root_ne_of_get hg
        obtain ⟨_, _, x, R', hR, _⟩ := cursorPos_abs (hwf.wfr hr) hpos
        subst hR
        obtain ⟨h1, h2, _, hcons⟩ := next_spec hwf hpos
        by_cases hR' : R' = []
        · subst hR'
          exact ⟨h1, h2, Or.inl (next_end_cursor hwf hpos), Or.inl (next_end_cursor hwf hpos)⟩
        · exact cursorPos_good hwf (hcons hR').2.1

/-- `Previous` from ANY cursor state keeps the tree (up to memo/cursor) and leaves a readable cursor -/
theorem prev_any {t₀ t : BTree} (hwf : WF t₀) (hgood : GoodSt t₀ t) : GoodSt t₀ t.prev.1 := by
  obtain ⟨he, hp, hv, hx⟩ := id hgood
  by_cases hguard : (t.count == 0 || !t.isCurSelected) = true
  · have : t.prev = (t, false) := by unfold BTree.prev; simp [hguard]
    rw [this]; exact hgood
  · have hguard' : (t.count == 0 || !t.isCurSelected) = false := by simpa using hguard
    cases hg : t.get? t.cur.node with
    | none =>
      have : t.prev = (t, false) := by unfold BTree.prev; simp [hguard', hg]
      rw [this]; exact hgood
    | some nd =>
      by_cases hidx : t.cur.idx ≥ (nd.count : Int)
      · have : t.prev = (t, false) := by unfold BTree.prev; simp [hguard', hg, hidx]
        rw [this]; exact hgood
      · have hsel : t.isCurSelected = true := by
          simp only [Bool.or_eq_false_iff, Bool.not_eq_false'] at hguard'
          exact hguard'.2
        obtain ⟨L, R, hpos⟩ := cursorPos_of_guard hwf he hp hsel hg hidx
        obtain ⟨h1, h2, _, hcons⟩ := prev_spec hwf hpos
        by_cases hL : L = []
        · subst hL
          exact ⟨h1, h2, Or.inl (prev_end_cursor hwf hpos), Or.inl (prev_end_cursor hwf hpos)⟩
        · obtain ⟨_, L', x, _, hp', _⟩ := hcons hL
          exact cursorPos_good hwf hp'

theorem rangeSkip_good {t₀ : BTree} (hwf : WF t₀) (a : Int) (asc : Bool) : ∀ (fuel : Nat) (t : BTree),
    GoodSt t₀ t → GoodSt t₀ (rangeSkip a asc fuel t).1
  | 0, t, h => h
  | fuel + 1, t, h => by
    have hstep : GoodSt t₀ (if asc = true then t.next else t.prev).1 := by
      cases asc with
      | true => exact next_any hwf h
      | false => exact prev_any hwf h
    rw [rangeSkip]
    by_cases hcond : (if asc = true then t.getCurrentKey.key < a else t.getCurrentKey.key > a)
    · rw [if_pos hcond]
      rcases hx : (if asc = true then t.next else t.prev) with ⟨t', ok⟩
      rw [hx] at hstep
      cases ok with
      | false => simpa using hstep
      | true => simpa using rangeSkip_good hwf a asc fuel t' hstep
    · rw [if_neg hcond]; exact h

theorem rangeCollect_good {t₀ : BTree} (hwf : WF t₀) (b : Int) (asc : Bool) : ∀ (fuel : Nat) (t : BTree) (acc : List Item),
    GoodSt t₀ t → GoodSt t₀ (rangeCollect b asc fuel t acc).1
  | 0, t, acc, h => h
  | fuel + 1, t, acc, h => by
    rw [rangeCollect]
    by_cases hcond : (if asc = true then t.getCurrentKey.key > b else t.getCurrentKey.key < b)
    · rw [if_pos hcond]; exact h
    · rw [if_neg hcond]
      have h1 := getCurrentItem_good h
      rcases hgc : t.getCurrentItem with ⟨t1, v⟩
      rw [hgc] at h1
      simp only at h1 ⊢
      have hstep : GoodSt t₀ (if asc = true then t1.next else t1.prev).1 := by
        cases asc with
        | true => exact next_any hwf h1
        | false => exact prev_any hwf h1
      rcases hx : (if asc = true then t1.next else t1.prev) with ⟨t', ok⟩
      rw [hx] at hstep
      cases ok with
      | false => simpa using hstep
      | true => simpa using rangeCollect_good hwf b asc fuel t' _ hstep

/-- the state after a range iterator is the same tree up to memo/cursor, not panicked -/
theorem range_state {t : BTree} (hwf : WF t) (hp : t.panicked = false) (hv : CursorValid t)
    (hix : t.cur.node = 0 ∨ 0 ≤ t.cur.idx) (a b : Int) (asc : Bool) : GoodSt t (t.range a b asc).1 := by
  -- the state after the initial search
  have hfind : GoodSt t (if asc = true then t.find a true else t.findDesc a).1 := by
    by_cases hne : t.abs = []
    · have hc : (t.count == 0) = true := by
        have := (abs_sorted_of_WF t hwf).2.2
        rw [hne] at this; simp [this]
      have h1 : t.find a true = (t, false) := by unfold BTree.find; simp [hc]
      have h2 : t.findDesc a = (t, false) := by unfold BTree.findDesc; simp [hc]
      cases asc <;> simp [h1, h2] <;> exact ⟨HeapEq.refl t, hp, hv, hix⟩
    · cases asc with
      | true =>
        obtain ⟨_, _, _, hres⟩ := find_spec hwf hp hv hne a
        rcases hres with ⟨_, _, _, _, hpos, _⟩ | ⟨_, _, _, _, _, hpos | ⟨_, _, _, hpos⟩⟩ <;> exact cursorPos_good hwf hpos
      | false =>
        obtain ⟨_, _, _, hres⟩ := findDesc_spec hwf hp hne a
        rcases hres with ⟨_, _, _, _, hpos, _⟩ | ⟨_, _, _, _, _, hpos | ⟨_, _, _, hpos⟩⟩ <;> exact cursorPos_good hwf hpos
  unfold BTree.range
  rcases hfd : (if asc = true then t.find a true else t.findDesc a) with ⟨t1, found⟩
  rw [hfd] at hfind
  simp only at hfind ⊢
  have hgo : GoodSt t (if found = true then (t1, true) else if t1.getCurrentKey.id = 0 then (t1, false)
      else rangeSkip a asc (t1.count.toNat + 3) t1).1 := by
    split
    · exact hfind
    · split
      · exact hfind
      · exact rangeSkip_good hwf a asc _ t1 hfind
  rcases hg : (if found = true then (t1, true) else if t1.getCurrentKey.id = 0 then (t1, false)
      else rangeSkip a asc (t1.count.toNat + 3) t1) with ⟨t2, go⟩
  rw [hg] at hgo
  simp only at hgo ⊢
  cases go with
  | false => exact hgo
  | true => exact rangeCollect_good hwf b asc (t1.count.toNat + 3) t2 [] hgo

/-! ### FindWithID -/

theorem getCurrentItem_pos {t₀ t : BTree} (hwf : WF t₀) {L R : List Item} {y : Item} (h : CursorPos t₀ t L (y :: R)) :
    t.getCurrentItem = (t.getCurrentItem.1, some y) := by
  have hr : t₀.root ≠ 0 := by
    obtain ⟨_, _, _, _, _, _, _, _, nd, hg, _⟩ := h
    exact hwf.root_ne_of_get hg
  have hw := hwf.wfr hr
  have hnode := cursorPos_node_ne hw h
  obtain ⟨_, _, y', R', hR, hcur⟩ := cursorPos_abs hw h
  simp only [List.cons.injEq] at hR
  rw [← hR.1] at hcur
  have hv := (cursorPos_good hwf h).2.2
  unfold BTree.getCurrentItem
  rw [if_neg hnode]
  by_cases hcc : t.cur.cached = true
  · rw [if_pos hcc, hcur]
  · rw [if_neg hcc]
    rcases hv with hv | hv | ⟨nd, hg, h1, h2⟩
    · exact absurd hv hnode
    · exact absurd hv hcc
    · rw [hg]
      have : ¬ (t.cur.idx < 0 ∨ t.cur.idx ≥ (nd.slots.size : Int)) := by omega
      simp only []
      rw [if_neg this]
      have : ({ t with cur := { t.cur with cached := true } } : BTree).curItem = t.curItem := rfl
      rw [this, hcur]

theorem findWithIdLoop_spec {t₀ : BTree} (hwf : WF t₀) (hw : WFR t₀) (hsorted : Sorted t₀.abs) (hfix : t₀.fixId = true)
    (k : Int) (id : Nat) : ∀ (fuel : Nat) (t : BTree) (L R : List Item) (y : Item),
    CursorPos t₀ t L (y :: R) → (∀ x ∈ L, ¬ (x.key = k ∧ x.id = id)) → k ≤ y.key → R.length + 1 ≤ fuel →
    GoodSt t₀ (findWithIdLoop k id fuel t).1 ∧
      ((findWithIdLoop k id fuel t).2 = true ↔ ∃ x ∈ t₀.abs, x.key = k ∧ x.id = id)
  | 0, t, L, R, y, h, hL, hy, hf => by omega
  | fuel + 1, t, L, R, y, h, hL, hy, hf => by
    obtain ⟨hc1, hc2⟩ := cursorPos_cache hw h
    obtain ⟨habs, _⟩ := cursorPos_abs hw h
    have hs : Sorted (L ++ y :: R) := by rw [← habs]; exact hsorted
    rw [findWithIdLoop, getCurrentItem_pos hwf h]
    simp only [hc1.1.fixId, hfix, Bool.true_and]
    by_cases hyk : y.key = k
    · have : (y.key != k) = false := by simp [hyk]
      simp only [this, Bool.false_eq_true, if_false]
      by_cases hyid : y.id = id
      · simp only [hyid, beq_self_eq_true, if_true]
        exact ⟨cursorPos_good hwf hc1, fun _ => ⟨y, by rw [habs]; simp, hyk, hyid⟩, fun _ => by first | rfl | trivial⟩
      · have : (y.id == id) = false := by simpa using hyid
        simp only [this, Bool.false_eq_true, if_false]
        obtain ⟨hn1, hn2, hnil, hcons⟩ := next_spec hwf hc1
        have hng := next_any hwf (cursorPos_good hwf hc1)
        by_cases hR : R = []
        · have h2 := hnil hR
          rcases hnx : t.getCurrentItem.1.next with ⟨t', ok⟩
          rw [hnx] at h2 hn1 hn2 hng
          simp only at h2 hn1 hn2 hng
          subst h2
          simp only [Bool.not_false, if_true]
          refine ⟨hng, fun h' => absurd h' (by simp), ?_⟩
          rintro ⟨x, hx, hxk, hxi⟩
          exfalso
          rw [habs, hR] at hx
          rcases List.mem_append.mp hx with hx | hx
          · exact hL x hx ⟨hxk, hxi⟩
          · have : x = y := by simpa using hx
            subst this; exact hyid hxi
        · obtain ⟨h1, h2, _⟩ := hcons hR
          rcases hnx : t.getCurrentItem.1.next with ⟨t', ok⟩
          rw [hnx] at h1 h2
          simp only at h1 h2
          subst h1
          simp only [Bool.not_true, Bool.false_eq_true, if_false]
          obtain ⟨_, _, y', R', hR', _⟩ := cursorPos_abs hw h2
          subst hR'
          have hy' : k ≤ y'.key := by
            have := (sorted_mid hs).2 y' (by simp)
            omega
          exact findWithIdLoop_spec hwf hw hsorted hfix k id fuel t' (L ++ [y]) R' y' h2
            (by
              intro x hx
              rcases List.mem_append.mp hx with hx | hx
              · exact hL x hx
              · have : x = y := by simpa using hx
                subst this; exact fun h' => hyid h'.2)
            hy' (by simp at hf; omega)
    · have : (y.key != k) = true := by simp [hyk]
      simp only [this, if_true]
      refine ⟨cursorPos_good hwf hc1, fun h' => absurd h' (by simp), ?_⟩
      rintro ⟨x, hx, hxk, hxi⟩
      exfalso
      rw [habs] at hx
      rcases List.mem_append.mp hx with hx | hx
      · exact hL x hx ⟨hxk, hxi⟩
      · rcases List.mem_cons.mp hx with rfl | hx
        · exact hyk hxk
        · have := (sorted_mid hs).2 x hx
          omega

/-- `FindWithID(k, id)` (with the proposed repair) answers true iff an item with that key and id is stored -/
theorem findWithID_spec {t : BTree} (hwf : WF t) (hp : t.panicked = false) (hv : CursorValid t)
    (hix : t.cur.node = 0 ∨ 0 ≤ t.cur.idx) (hfix : t.fixId = true) (k : Int) (id : Nat) :
    GoodSt t (t.findWithID k id).1 ∧
      ((t.findWithID k id).2 = true ↔ ∃ x ∈ t.abs, x.key = k ∧ x.id = id) := by
  unfold BTree.findWithID
  by_cases hne : t.abs = []
  · have hc : (t.count == 0) = true := by
      have := (abs_sorted_of_WF t hwf).2.2
      rw [hne] at this; simp [this]
    have h1 : t.find k true = (t, false) := by unfold BTree.find; simp [hc]
    simp only [h1, Bool.false_eq_true, if_false, hne]
    exact ⟨⟨HeapEq.refl t, hp, hv, hix⟩, by simp⟩
  · have hw := hwf.wfr (hwf.count_ne hne).2
    have hsorted := (abs_sorted_of_WF t hwf).1
    obtain ⟨he, hp', _, hres⟩ := find_spec hwf hp hv hne k
    rcases hfd : t.find k true with ⟨t1, found⟩
    rw [hfd] at he hp' hres
    simp only at he hp' hres ⊢
    rcases hres with ⟨hr, L, y, R, hpos, hy, hL⟩ | ⟨hr, Lo, Hi, hLo, hHi, hpos⟩
    · subst hr
      simp only [if_true]
      obtain ⟨habs, _⟩ := cursorPos_abs hw hpos
      exact findWithIdLoop_spec hwf hw hsorted hfix k id _ t1 L R y hpos
        (fun x hx h' => by have := hL x hx; omega) (by omega) (by
          have : (L ++ y :: R).length = t.abs.length := by rw [habs]
          rw [he.count, count_toNat hwf]; simp at this; omega)
    · subst hr
      simp only [Bool.false_eq_true, if_false]
      have hgood : GoodSt t t1 := by
        rcases hpos with hpos | ⟨_, _, _, hpos⟩ <;> exact cursorPos_good hwf hpos
      refine ⟨hgood, fun h' => absurd h' (by simp), ?_⟩
      rintro ⟨x, hx, hxk, _⟩
      exfalso
      have habs : t.abs = Lo ++ Hi := by
        rcases hpos with hpos | ⟨Lo', x', hLx, hpos⟩
        · exact (cursorPos_abs hw hpos).1
        · rw [(cursorPos_abs hw hpos).1, hLx]; simp
      rw [habs] at hx
      rcases List.mem_append.mp hx with hx | hx
      · have := hLo x hx; omega
      · have := hHi x hx; omega

end Sop.BTree
