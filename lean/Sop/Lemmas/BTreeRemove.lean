import Sop.Lemmas.BTreeHeap
/-! C17, update-in-place side of Model B: the splice/context lemmas for a mutation of ONE node
(`frame_out`, `ctx`, `wf_of_ctx`) and `UpdateCurrentItem/Key/Value` (`updateCurrentValue_ok`,
`updateCurrent_ok`, `updateCurrent_reject`). -/
namespace Sop.BTree.Rem
open Sop.BTree
set_option linter.unusedVariables false
set_option linter.unusedSimpArgs false


/-! ### splice: `l'` is `l` with one occurrence of the segment `X` replaced by `X'` -/

def Splice {α : Type} (X X' l l' : List α) : Prop := ∃ L R, l = L ++ X ++ R ∧ l' = L ++ X' ++ R

theorem Splice.here {α : Type} (X X' : List α) : Splice X X' X X' := ⟨[], [], by simp, by simp⟩

theorem Splice.pre {α : Type} {X X' l l' : List α} (A : List α) (h : Splice X X' l l') :
    Splice X X' (A ++ l) (A ++ l') := by
  obtain ⟨L, R, h1, h2⟩ := h
  exact ⟨A ++ L, R, by simp [h1], by simp [h2]⟩

theorem Splice.post {α : Type} {X X' l l' : List α} (B : List α) (h : Splice X X' l l') :
    Splice X X' (l ++ B) (l' ++ B) := by
  obtain ⟨L, R, h1, h2⟩ := h
  exact ⟨L, R ++ B, by simp [h1], by simp [h2]⟩

theorem Splice.cons {α : Type} {X X' l l' : List α} (a : α) (h : Splice X X' l l') :
    Splice X X' (a :: l) (a :: l') := Splice.pre [a] h

theorem Splice.same {α : Type} {X l l' : List α} (h : Splice X X l l') : l' = l := by
  obtain ⟨L, R, h1, h2⟩ := h; rw [h1, h2]

theorem Splice.length {α : Type} {X X' l l' : List α} (h : Splice X X' l l') :
    l'.length + X.length = l.length + X'.length := by
  obtain ⟨L, R, h1, h2⟩ := h; rw [h1, h2]; simp; omega

/-! ### reach -/

theorem reach_zero (t : BTree) : ∀ f, reach t f 0 = []
  | 0 => rfl
  | _ + 1 => by simp [reach]

theorem reach_unfold {t : BTree} {f : Nat} {m : NodeId} {nd : Node} (hm : m ≠ 0) (hg : t.get? m = some nd) :
    reach t (f + 1) m = m :: ((nd.children.getD #[]).toList.take (nd.count + 1)).flatMap (reach t f) := by
  simp [reach, hm, hg]

theorem reach_get (t : BTree) : ∀ (f : Nat) (m k : NodeId), k ∈ reach t f m → ∃ nd, t.get? k = some nd
  | 0, _, _, h => by simp [reach] at h
  | f + 1, m, k, h => by
    by_cases hm : m = 0
    · subst hm; simp [reach] at h
    · cases hg : t.get? m with
      | none => simp [reach, hm, hg] at h
      | some nd =>
        rw [reach_unfold hm hg] at h
        rcases List.mem_cons.mp h with rfl | h
        · exact ⟨nd, hg⟩
        · obtain ⟨c, _, hc⟩ := List.mem_flatMap.mp h
          exact reach_get t f c k hc

theorem reach_ne_zero (t : BTree) : ∀ (f : Nat) (m k : NodeId), k ∈ reach t f m → k ≠ 0
  | 0, _, _, h => by simp [reach] at h
  | f + 1, m, k, h => by
    by_cases hm : m = 0
    · subst hm; simp [reach] at h
    · cases hg : t.get? m with
      | none => simp [reach, hm, hg] at h
      | some nd =>
        rw [reach_unfold hm hg] at h
        rcases List.mem_cons.mp h with rfl | h
        · exact hm
        · obtain ⟨c, _, hc⟩ := List.mem_flatMap.mp h
          exact reach_ne_zero t f c k hc

theorem flatMap_congr' {α β : Type} {f g : α → List β} : ∀ (l : List α), (∀ x ∈ l, f x = g x) → l.flatMap f = l.flatMap g
  | [], _ => rfl
  | a :: l, h => by
    simp only [List.flatMap_cons]
    rw [h a (List.mem_cons_self), flatMap_congr' l (fun x hx => h x (List.mem_cons_of_mem _ hx))]

/-! ### KidsOk / ItemsOk helpers -/

theorem KidsOk.imp_mem {P Q : NodeId → Option Int → Option Int → Prop} :
    ∀ (cs : List NodeId) (is : List Item) (lo hi : Option Int),
      (∀ c ∈ cs, ∀ l h, P c l h → Q c l h) → KidsOk P lo hi cs is → KidsOk Q lo hi cs is
  | [], _, _, _, _, _ => trivial
  | c :: cs, [], lo, hi, hPQ, h => ⟨h.1.imp id (hPQ c (List.mem_cons_self) _ _), h.2⟩
  | c :: cs, i :: is, lo, hi, hPQ, h =>
    ⟨h.1.imp id (hPQ c (List.mem_cons_self) _ _), h.2.1, h.2.2.1, h.2.2.2.1,
      KidsOk.imp_mem cs is _ _ (fun x hx => hPQ x (List.mem_cons_of_mem _ hx)) h.2.2.2.2⟩

theorem nodeShape_sl {t t' : BTree} (hsl : t'.sl = t.sl) {nd : Node} (h : NodeShape t nd) : NodeShape t' nd := by
  unfold NodeShape at *
  rw [hsl]; exact h

/-! ### frame: a subtree none of whose nodes changed -/

theorem frame_out (t t' : BTree) (hsl : t'.sl = t.sl) : ∀ (f : Nat) (m p : NodeId) (lo hi : Option Int),
    WFNode t f m p lo hi → (∀ k ∈ reach t f m, t'.get? k = t.get? k) →
      WFNode t' f m p lo hi ∧ absNode t' f m = absNode t f m ∧ reach t' f m = reach t f m
  | 0, _, _, _, _, h, _ => absurd h (by simp [WFNode])
  | f + 1, m, p, lo, hi, h, hk => by
    obtain ⟨hn, nd, hg, hp, hs, hne, hbody⟩ := h
    have hr := reach_unfold (f := f) hn hg
    have hg' : t'.get? m = some nd := by rw [hk m (by rw [hr]; exact List.mem_cons_self)]; exact hg
    have hsub : ∀ c ∈ (nd.children.getD #[]).toList.take (nd.count + 1), ∀ k ∈ reach t f c, t'.get? k = t.get? k := by
      intro c hc k hkc
      apply hk; rw [hr]
      exact List.mem_cons_of_mem _ (List.mem_flatMap.mpr ⟨c, hc, hkc⟩)
    refine ⟨⟨hn, nd, hg', hp, nodeShape_sl hsl hs, hne, ?_⟩, ?_, ?_⟩
    · cases hc : nd.children with
      | none => rw [hc] at hbody; exact hbody
      | some cs =>
        rw [hc] at hbody hsub
        exact KidsOk.imp_mem _ _ _ _ (fun c hcm l h' hw => (frame_out t t' hsl f c m l h' hw (hsub c hcm)).1) hbody
    · rw [absNode, absNode]
      simp only [hn, if_false, hg, hg']
      cases hc : nd.children with
      | none => rfl
      | some cs =>
        rw [hc] at hbody hsub
        simp only
        apply weave_congr
        intro c hcm
        rcases KidsOk.mem _ _ _ _ hbody c hcm with rfl | ⟨l, h', hw⟩
        · rw [absNode_zero, absNode_zero]
        · exact (frame_out t t' hsl f c m l h' hw (hsub c hcm)).2.1
    · rw [hr, reach_unfold hn hg']
      congr 1
      apply flatMap_congr'
      intro c hcm
      cases hc : nd.children with
      | none => rw [hc] at hcm; simp at hcm
      | some cs =>
        rw [hc] at hbody hsub hcm
        simp only [Option.getD_some] at hcm hsub
        rcases KidsOk.mem _ _ _ _ hbody c hcm with rfl | ⟨l, h', hw⟩
        · rw [reach_zero, reach_zero]
        · exact (frame_out t t' hsl f c m l h' hw (hsub c hcm)).2.2

/-! ### context: exactly one node `n` changed -/

theorem weave_ctx {n : NodeId} {X X' : List Item} {r : NodeId → List NodeId} {g g' : NodeId → List Item} :
    ∀ (cs : List NodeId) (is : List Item), (cs.flatMap r).Nodup → n ∈ cs.flatMap r →
      (∀ c ∈ cs, n ∉ r c → g c = g' c) → (∀ c ∈ cs, n ∈ r c → (r c).Nodup → Splice X X' (g c) (g' c)) →
      Splice X X' (weave g cs is) (weave g' cs is)
  | [], _, _, hin, _, _ => by simp at hin
  | c :: cs, is, hnd, hin, hout, hsp => by
    simp only [List.flatMap_cons] at hnd hin
    obtain ⟨hnc, hncs, hdisj⟩ := List.nodup_append.mp hnd
    by_cases hc : n ∈ r c
    · have hrest : weave g cs is.tail = weave g' cs is.tail := by
        apply weave_congr
        intro x hx
        apply hout x (List.mem_cons_of_mem _ hx)
        intro hnx
        exact hdisj n hc n (List.mem_flatMap.mpr ⟨x, hx, hnx⟩) rfl
      have h1 := hsp c (List.mem_cons_self) hc hnc
      cases is with
      | nil =>
        simp only [weave]
        simp only [List.tail_nil] at hrest
        rw [hrest]; exact h1.post _
      | cons i is =>
        simp only [weave]
        simp only [List.tail_cons] at hrest
        rw [hrest]; exact h1.post _
    · have hin' : n ∈ cs.flatMap r := by
        rcases List.mem_append.mp hin with h | h
        · exact absurd h hc
        · exact h
      have h0 := hout c (List.mem_cons_self) hc
      have ih := fun is' => weave_ctx cs is' hncs hin' (fun x hx => hout x (List.mem_cons_of_mem _ hx))
        (fun x hx => hsp x (List.mem_cons_of_mem _ hx))
      cases is with
      | nil => simp only [weave]; rw [h0]; exact (ih []).pre _
      | cons i is => simp only [weave]; rw [h0]; exact ((ih is).cons i).pre _

theorem flatMap_ctx {n : NodeId} {Y Y' : List NodeId} {r r' : NodeId → List NodeId} :
    ∀ (cs : List NodeId), (cs.flatMap r).Nodup → n ∈ cs.flatMap r →
      (∀ c ∈ cs, n ∉ r c → r c = r' c) → (∀ c ∈ cs, n ∈ r c → (r c).Nodup → Splice Y Y' (r c) (r' c)) →
      Splice Y Y' (cs.flatMap r) (cs.flatMap r')
  | [], _, hin, _, _ => by simp at hin
  | c :: cs, hnd, hin, hout, hsp => by
    simp only [List.flatMap_cons] at hnd hin ⊢
    obtain ⟨hnc, hncs, hdisj⟩ := List.nodup_append.mp hnd
    by_cases hc : n ∈ r c
    · have hrest : cs.flatMap r = cs.flatMap r' := by
        apply flatMap_congr'
        intro x hx
        apply hout x (List.mem_cons_of_mem _ hx)
        intro hnx
        exact hdisj n hc n (List.mem_flatMap.mpr ⟨x, hx, hnx⟩) rfl
      rw [hrest]
      exact (hsp c (List.mem_cons_self) hc hnc).post _
    · have hin' : n ∈ cs.flatMap r := by
        rcases List.mem_append.mp hin with h | h
        · exact absurd h hc
        · exact h
      rw [hout c (List.mem_cons_self) hc]
      exact (flatMap_ctx cs hncs hin' (fun x hx => hout x (List.mem_cons_of_mem _ hx))
        (fun x hx => hsp x (List.mem_cons_of_mem _ hx))).pre _

/-- the three facts about one subtree that the context lemma transports -/
def Step (t t' : BTree) (X X' : List Item) (Y Y' : List NodeId) (f : Nat) (m p : NodeId) (lo hi : Option Int) : Prop :=
  WFNode t' f m p lo hi ∧ Splice X X' (absNode t f m) (absNode t' f m) ∧ Splice Y Y' (reach t f m) (reach t' f m)

theorem ctx (t t' : BTree) (n : NodeId) (X X' : List Item) (Y Y' : List NodeId) (hsl : t'.sl = t.sl)
    (hout : ∀ k, k ≠ n → t'.get? k = t.get? k)
    (hloc : ∀ f p lo hi, WFNode t f n p lo hi → (reach t f n).Nodup → Step t t' X X' Y Y' f n p lo hi) :
    ∀ (f : Nat) (m p : NodeId) (lo hi : Option Int), WFNode t f m p lo hi → (reach t f m).Nodup → n ∈ reach t f m →
      Step t t' X X' Y Y' f m p lo hi
  | 0, _, _, _, _, h, _, _ => absurd h (by simp [WFNode])
  | f + 1, m, p, lo, hi, h, hnd, hin => by
    by_cases hmn : m = n
    · subst hmn; exact hloc _ _ _ _ h hnd
    · obtain ⟨hn, nd, hg, hp, hs, hne, hbody⟩ := h
      have hr := reach_unfold (f := f) hn hg
      have hg' : t'.get? m = some nd := by rw [hout m hmn]; exact hg
      rw [hr] at hnd hin
      have hin' : n ∈ ((nd.children.getD #[]).toList.take (nd.count + 1)).flatMap (reach t f) := by
        rcases List.mem_cons.mp hin with h | h
        · exact absurd h.symm hmn
        · exact h
      have hnd' := (List.nodup_cons.mp hnd).2
      cases hc : nd.children with
      | none => rw [hc] at hin'; simp at hin'
      | some cs =>
        rw [hc] at hbody hin' hnd'
        simp only [Option.getD_some] at hin' hnd'
        -- per child: unchanged if `n` is not below it, induction otherwise
        have hkid_out : ∀ c ∈ cs.toList.take (nd.count + 1), n ∉ reach t f c → ∀ l h', WFNode t f c m l h' →
            WFNode t' f c m l h' ∧ absNode t' f c = absNode t f c ∧ reach t' f c = reach t f c := by
          intro c hcm hnc l h' hw
          exact frame_out t t' hsl f c m l h' hw (fun k hk => hout k (fun hkn => hnc (hkn ▸ hk)))
        have hkid_in : ∀ c ∈ cs.toList.take (nd.count + 1), n ∈ reach t f c → (reach t f c).Nodup → ∀ l h',
            WFNode t f c m l h' → Step t t' X X' Y Y' f c m l h' := by
          intro c hcm hnc hndc l h' hw
          exact ctx t t' n X X' Y Y' hsl hout hloc f c m l h' hw hndc hnc
        have hsubnd : ∀ c ∈ cs.toList.take (nd.count + 1), (reach t f c).Nodup := by
          intro c hcm
          obtain ⟨l1, l2, hl⟩ := List.append_of_mem hcm
          rw [hl, List.flatMap_append, List.flatMap_cons] at hnd'
          exact (List.nodup_append.mp (List.nodup_append.mp hnd').2.1).1
        refine ⟨⟨hn, nd, hg', hp, nodeShape_sl hsl hs, hne, ?_⟩, ?_, ?_⟩
        · rw [hc]
          refine KidsOk.imp_mem _ _ _ _ ?_ hbody
          intro c hcm l h' hw
          by_cases hnc : n ∈ reach t f c
          · exact (hkid_in c hcm hnc (hsubnd c hcm) l h' hw).1
          · exact (hkid_out c hcm hnc l h' hw).1
        · rw [absNode, absNode]
          simp only [hn, if_false, hg, hg', hc]
          apply weave_ctx (r := reach t f) _ _ hnd' hin'
          · intro c hcm hnc
            rcases KidsOk.mem _ _ _ _ hbody c hcm with rfl | ⟨l, h', hw⟩
            · rw [absNode_zero, absNode_zero]
            · exact (hkid_out c hcm hnc l h' hw).2.1.symm
          · intro c hcm hnc hndc
            rcases KidsOk.mem _ _ _ _ hbody c hcm with rfl | ⟨l, h', hw⟩
            · rw [reach_zero] at hnc; simp at hnc
            · exact (hkid_in c hcm hnc hndc l h' hw).2.1
        · rw [hr, reach_unfold hn hg', hc]
          simp only [Option.getD_some]
          apply Splice.cons
          apply flatMap_ctx _ hnd' hin'
          · intro c hcm hnc
            rcases KidsOk.mem _ _ _ _ hbody c hcm with rfl | ⟨l, h', hw⟩
            · rw [reach_zero, reach_zero]
            · exact (hkid_out c hcm hnc l h' hw).2.2.symm
          · intro c hcm hnc hndc
            rcases KidsOk.mem _ _ _ _ hbody c hcm with rfl | ⟨l, h', hw⟩
            · rw [reach_zero] at hnc; simp at hnc
            · exact (hkid_in c hcm hnc hndc l h' hw).2.2


/-! ### from the context lemma to `WF` of the whole tree -/

theorem root_ne_zero_of_reach {t : BTree} {f : Nat} {n : NodeId} (h : n ∈ reach t f t.root) : t.root ≠ 0 := by
  intro h0; rw [h0, reach_zero] at h; simp at h

theorem wf_of_ctx (t t' : BTree) (n : NodeId) (X X' : List Item) (hwf : WF t)
    (hin : n ∈ reach t (t.nodes.length + 1) t.root)
    (hsl : t'.sl = t.sl) (hroot : t'.root = t.root) (hlen : t'.nodes.length = t.nodes.length)
    (hout : ∀ k, k ≠ n → t'.get? k = t.get? k)
    (hloc : ∀ f p lo hi, WFNode t f n p lo hi → (reach t f n).Nodup → Step t t' X X' [n] [n] f n p lo hi)
    (hcount : t'.count + X.length = t.count + X'.length) :
    WF t' ∧ Splice X X' t.abs t'.abs := by
  have hr := root_ne_zero_of_reach hin
  unfold WF at hwf
  simp only [hr, if_false] at hwf
  obtain ⟨hsl0, hw, hnd, hl, hc⟩ := hwf
  have h := ctx t t' n X X' [n] [n] hsl hout hloc _ _ _ _ _ hw hnd hin
  obtain ⟨h1, h2, h3⟩ := h
  have h3' := h3.same
  refine ⟨?_, ?_⟩
  · unfold WF
    rw [hsl, hroot]
    simp only [hr, if_false]
    rw [hlen]
    refine ⟨hsl0, h1, by rw [h3']; exact hnd, by rw [h3']; exact hl, ?_⟩
    have := h2.length
    unfold BTree.abs
    rw [hroot, hlen]
    unfold BTree.abs at hc
    omega
  · unfold BTree.abs
    rw [hroot, hlen]; exact h2

/-! ### list helpers for a slot overwrite that keeps key and id -/

theorem ItemsOk.set {x' : Item} : ∀ (l : List Item) (i : Nat) (lo hi : Option Int), ItemsOk lo hi l →
    (∀ x, l[i]? = some x → x'.key = x.key ∧ x'.id = x.id) → ItemsOk lo hi (l.set i x')
  | [], _, _, _, _, _ => trivial
  | a :: l, 0, lo, hi, h, hx => by
    obtain ⟨hk, hid⟩ := hx a rfl
    simp only [List.set_cons_zero, ItemsOk]
    rw [hk, hid]; exact h
  | a :: l, i + 1, lo, hi, h, hx => by
    simp only [List.set_cons_succ, ItemsOk]
    exact ⟨h.1, h.2.1, h.2.2.1, ItemsOk.set l i _ _ h.2.2.2 (fun x hxx => hx x (by simpa using hxx))⟩

theorem KidsOk.set {P : NodeId → Option Int → Option Int → Prop} {x' : Item} :
    ∀ (cs : List NodeId) (l : List Item) (i : Nat) (lo hi : Option Int), KidsOk P lo hi cs l →
    (∀ x, l[i]? = some x → x'.key = x.key ∧ x'.id = x.id) → KidsOk P lo hi cs (l.set i x')
  | [], _, _, _, _, _, _ => trivial
  | c :: cs, [], _, lo, hi, h, _ => h
  | c :: cs, a :: l, 0, lo, hi, h, hx => by
    obtain ⟨hk, hid⟩ := hx a rfl
    simp only [List.set_cons_zero, KidsOk]
    rw [hk, hid]; exact h
  | c :: cs, a :: l, i + 1, lo, hi, h, hx => by
    simp only [List.set_cons_succ, KidsOk]
    exact ⟨h.1, h.2.1, h.2.2.1, h.2.2.2.1, KidsOk.set cs l i _ _ h.2.2.2.2 (fun x hxx => hx x (by simpa using hxx))⟩

theorem weave_set (g : NodeId → List Item) {x x' : Item} : ∀ (cs : List NodeId) (l : List Item) (i : Nat),
    l[i]? = some x → i + 1 ≤ cs.length → Splice [x] [x'] (weave g cs l) (weave g cs (l.set i x'))
  | [], _, _, _, hc => by simp at hc
  | c :: cs, [], _, hx, _ => by simp at hx
  | c :: cs, a :: l, 0, hx, _ => by
    simp only [List.getElem?_cons_zero, Option.some.injEq] at hx
    subst hx
    simp only [List.set_cons_zero, weave]
    exact ⟨g c, weave g cs l, by simp, by simp⟩
  | c :: cs, a :: l, i + 1, hx, hc => by
    simp only [List.set_cons_succ, weave]
    exact ((weave_set g cs l i (by simpa using hx) (by simpa using hc)).cons a).pre _

theorem splice_set {x x' : Item} (l : List Item) (i : Nat) (hx : l[i]? = some x) : Splice [x] [x'] l (l.set i x') := by
  have hi : i < l.length := by
    rcases Nat.lt_or_ge i l.length with h | h
    · exact h
    · rw [List.getElem?_eq_none h] at hx; cases hx
  refine ⟨l.take i, l.drop (i + 1), ?_, ?_⟩
  · rw [List.getElem?_eq_getElem hi] at hx
    simp only [Option.some.injEq] at hx
    rw [← hx]; simp
  · rw [List.set_eq_take_append_cons_drop]; simp [hi]

/-! ### node helpers -/

theorem items_setSlot (nd : Node) (i : Nat) (x' : Item) : (nd.setSlot i x').items = nd.items.set i x' := by
  simp [Node.items, Node.setSlot, List.take_set]

theorem items_getElem? {t : BTree} {nd : Node} (hs : NodeShape t nd) {i : Nat} (hi : i < nd.count) :
    nd.items[i]? = some (nd.slot i) := by
  have h1 := hs.1; have h2 := hs.2.1
  have hx' : i < nd.slots.size := by omega
  simp [Node.items, Node.slot, hi, Array.getD, hx']

theorem nodeShape_setSlot {t : BTree} {nd : Node} (hs : NodeShape t nd) {i : Nat} (hi : i < nd.count) (x' : Item) :
    NodeShape t (nd.setSlot i x') := by
  obtain ⟨h1, h2, h3, h4, h5⟩ := hs
  refine ⟨by simpa [Node.setSlot] using h1, h2, h3, ?_, h5⟩
  intro y hy
  apply h4
  simp only [Node.setSlot, Array.toList_setIfInBounds] at hy
  rwa [List.drop_set_of_lt hi] at hy

/-- children of the changed node: nothing below them changed -/
theorem kids_frame (t t' : BTree) (n : NodeId) (hsl : t'.sl = t.sl) (hout : ∀ k, k ≠ n → t'.get? k = t.get? k)
    {f : Nat} {nd : Node} (hn : n ≠ 0) (hg : t.get? n = some nd) (hnd : (reach t (f + 1) n).Nodup) :
    ∀ c ∈ (nd.children.getD #[]).toList.take (nd.count + 1), ∀ l h, WFNode t f c n l h →
      WFNode t' f c n l h ∧ absNode t' f c = absNode t f c ∧ reach t' f c = reach t f c := by
  intro c hc l h hw
  rw [reach_unfold hn hg] at hnd
  have hnot := (List.nodup_cons.mp hnd).1
  apply frame_out t t' hsl f c n l h hw
  intro k hk
  apply hout
  intro hkn
  apply hnot
  exact List.mem_flatMap.mpr ⟨c, hc, hkn ▸ hk⟩

/-! ### the local step of an in-place slot overwrite -/

theorem setSlot_local (t : BTree) (n : NodeId) (i : Nat) (x' : Item) (nd0 : Node) (hg0 : t.get? n = some nd0)
    (hi : i < nd0.count) (hk : x'.key = (nd0.slot i).key) (hid : x'.id = (nd0.slot i).id) :
    ∀ f p lo hi, WFNode t f n p lo hi → (reach t f n).Nodup →
      Step t (t.upd n (fun x => x.setSlot i x')) [nd0.slot i] [x'] [n] [n] f n p lo hi
  | 0, _, _, _, h, _ => absurd h (by simp [WFNode])
  | f + 1, p, lo, hi', h, hnd => by
    have hidp : ∀ x : Node, (x.setSlot i x').id = x.id := fun _ => rfl
    have hout : ∀ k, k ≠ n → (t.upd n (fun x => x.setSlot i x')).get? k = t.get? k :=
      fun k hk => get?_upd_ne t _ hidp hk
    obtain ⟨hn, nd, hg, hp, hs, hne, hbody⟩ := h
    rw [hg0] at hg; cases hg
    have hg' : (t.upd n (fun x => x.setSlot i x')).get? n = some (nd0.setSlot i x') := by
      rw [get?_upd_eq t n _ hidp, hg0]; rfl
    have hkf := kids_frame t (t.upd n (fun x => x.setSlot i x')) n rfl hout hn hg0 hnd
    have hx := items_getElem? hs hi
    have hxx : ∀ x, nd0.items[i]? = some x → x'.key = x.key ∧ x'.id = x.id := by
      intro x h; rw [hx] at h; cases h; exact ⟨hk, hid⟩
    have hr := reach_unfold (f := f) hn hg0
    refine ⟨⟨hn, _, hg', hp, nodeShape_sl rfl (nodeShape_setSlot hs hi x'), hne, ?_⟩, ?_, ?_⟩
    · show match nd0.children with
        | none => ItemsOk lo hi' (nd0.setSlot i x').items
        | some cs => KidsOk _ lo hi' (cs.toList.take (nd0.count + 1)) (nd0.setSlot i x').items
      rw [items_setSlot]
      cases hc : nd0.children with
      | none => rw [hc] at hbody; exact ItemsOk.set _ _ _ _ hbody hxx
      | some cs =>
        rw [hc] at hbody hkf
        simp only
        apply KidsOk.set _ _ _ _ _ _ hxx
        exact KidsOk.imp_mem _ _ _ _ (fun c hcm l h hw => (hkf c hcm l h hw).1) hbody
    · rw [absNode, absNode]
      simp only [hn, if_false, hg0, hg']
      show Splice _ _ _ (match nd0.children with
        | none => (nd0.setSlot i x').items
        | some cs => weave _ (cs.toList.take (nd0.count + 1)) (nd0.setSlot i x').items)
      rw [items_setSlot]
      cases hc : nd0.children with
      | none => exact splice_set _ _ hx
      | some cs =>
        rw [hc] at hbody hkf
        simp only
        have : weave (absNode (t.upd n (fun x => x.setSlot i x')) f) (cs.toList.take (nd0.count + 1)) (nd0.items.set i x')
            = weave (absNode t f) (cs.toList.take (nd0.count + 1)) (nd0.items.set i x') := by
          apply weave_congr
          intro c hcm
          rcases KidsOk.mem _ _ _ _ hbody c hcm with rfl | ⟨l, h', hw⟩
          · rw [absNode_zero, absNode_zero]
          · exact (hkf c hcm l h' hw).2.1
        rw [this]
        apply weave_set _ _ _ _ hx
        have := (hs.2.2.2.2 cs hc).1
        have := hs.2.1
        simp; omega
    · rw [hr, reach_unfold hn hg']
      have : ((((nd0.setSlot i x').children.getD #[]).toList.take ((nd0.setSlot i x').count + 1)).flatMap
            (reach (t.upd n (fun x => x.setSlot i x')) f))
          = (((nd0.children.getD #[]).toList.take (nd0.count + 1)).flatMap (reach t f)) := by
        show (((nd0.children.getD #[]).toList.take (nd0.count + 1)).flatMap _) = _
        apply flatMap_congr'
        intro c hcm
        cases hc : nd0.children with
        | none => rw [hc] at hcm; simp at hcm
        | some cs =>
          rw [hc] at hbody hkf hcm
          simp only [Option.getD_some] at hcm hkf
          rcases KidsOk.mem _ _ _ _ hbody c hcm with rfl | ⟨l, h', hw⟩
          · rw [reach_zero, reach_zero]
          · exact (hkf c hcm l h' hw).2.2
      rw [this]
      exact ⟨[], _, rfl, rfl⟩


/-- the cursor designates an occupied slot of a node reachable from the root -/
def CursorOn (t : BTree) : Prop :=
  t.cur.node ∈ reach t (t.nodes.length + 1) t.root ∧ 0 ≤ t.cur.idx ∧ t.cur.idx < ((t.get t.cur.node).count : Int)

theorem CursorOn.node {t : BTree} (h : CursorOn t) :
    ∃ nd, t.get? t.cur.node = some nd ∧ t.curNode? = some nd ∧ nd.id = t.cur.node ∧ t.get t.cur.node = nd ∧
      t.cur.idx.toNat < nd.count ∧ ¬ t.cur.idx < 0 := by
  obtain ⟨h1, h2, h3⟩ := h
  obtain ⟨nd, hg⟩ := reach_get _ _ _ _ h1
  have hne := reach_ne_zero _ _ _ _ h1
  have hget := get_of_get? hg
  rw [hget] at h3
  refine ⟨nd, hg, ?_, get?_id hg, hget, by omega, by omega⟩
  unfold BTree.curNode?
  simp only [hne, if_false, hg]
  rw [if_neg (by omega)]

theorem splice_one {x x' : Item} {l l' : List Item} (h : Splice [x] [x'] l l') :
    ∃ L R, l = L ++ x :: R ∧ l' = L ++ x' :: R := by
  obtain ⟨L, R, h1, h2⟩ := h
  exact ⟨L, R, by simpa using h1, by simpa using h2⟩

/-- overwriting an occupied slot of a reachable node by an item with the same key and id -/
theorem upd_setSlot_ok (t : BTree) (n : NodeId) (i : Nat) (x' : Item) (nd : Node) (hwf : WF t)
    (hin : n ∈ reach t (t.nodes.length + 1) t.root) (hg : t.get? n = some nd) (hi : i < nd.count)
    (hk : x'.key = (nd.slot i).key) (hid : x'.id = (nd.slot i).id) :
    WF (t.upd n (fun x => x.setSlot i x')) ∧
      ∃ L R, t.abs = L ++ nd.slot i :: R ∧ (t.upd n (fun x => x.setSlot i x')).abs = L ++ x' :: R := by
  have hidp : ∀ x : Node, (x.setSlot i x').id = x.id := fun _ => rfl
  have h := wf_of_ctx t (t.upd n (fun x => x.setSlot i x')) n [nd.slot i] [x'] hwf hin rfl rfl (by simp)
    (fun k hk => get?_upd_ne t _ hidp hk) (setSlot_local t n i x' nd hg hi hk hid) (by simp [BTree.upd])
  exact ⟨h.1, splice_one h.2⟩

/-- `UpdateCurrentValue` on a well-formed tree with the cursor on an occupied slot: the tree stays
    well-formed, nothing panics, and the in-order contents change in exactly that one item's value. -/
theorem updateCurrentValue_ok (t : BTree) (v : Nat) (hwf : WF t) (hp : t.panicked = false) (hc : CursorOn t) :
    WF (t.updateCurrentValue v).1 ∧ (t.updateCurrentValue v).1.panicked = false ∧
    (t.updateCurrentValue v).2 = .ok true ∧ (t.updateCurrentValue v).1.cur = t.cur ∧
    (t.updateCurrentValue v).1.count = t.count ∧
    ∃ L R, t.abs = L ++ t.curItem :: R ∧ (t.updateCurrentValue v).1.abs = L ++ { t.curItem with val := v } :: R := by
  obtain ⟨nd, hg, hcn, hid, hget, hi, hneg⟩ := hc.node
  have h := upd_setSlot_ok t t.cur.node t.cur.idx.toNat { nd.slot t.cur.idx.toNat with val := v } nd hwf hc.1 hg hi rfl rfl
  have hr : t.updateCurrentValue v =
      (t.upd t.cur.node (fun x => x.setSlot t.cur.idx.toNat { nd.slot t.cur.idx.toNat with val := v }), .ok true) := by
    unfold BTree.updateCurrentValue
    rw [hcn]
    simp only [hneg, if_false, hid]
  rw [hr]
  refine ⟨h.1, hp, rfl, rfl, rfl, ?_⟩
  unfold BTree.curItem
  rw [hget]
  exact h.2

/-- `UpdateCurrentItem` (`val = some v`) / `UpdateCurrentKey` (`val = none`) with the current item's key. -/
theorem updateCurrent_ok (t : BTree) (key : Int) (val : Option Nat) (hwf : WF t) (hp : t.panicked = false)
    (hc : CursorOn t) (hkey : t.curItem.key = key) :
    WF (t.updateCurrent key val).1 ∧ (t.updateCurrent key val).1.panicked = false ∧
    (t.updateCurrent key val).2 = .ok true ∧ (t.updateCurrent key val).1.cur = t.cur ∧
    (t.updateCurrent key val).1.count = t.count ∧
    ∃ L R, t.abs = L ++ t.curItem :: R ∧
      (t.updateCurrent key val).1.abs = L ++ { t.curItem with val := val.getD t.curItem.val } :: R := by
  obtain ⟨nd, hg, hcn, hid, hget, hi, hneg⟩ := hc.node
  have hkey' : (nd.slot t.cur.idx.toNat).key = key := by
    unfold BTree.curItem at hkey; rw [hget] at hkey; exact hkey
  have h := upd_setSlot_ok t t.cur.node t.cur.idx.toNat
    { nd.slot t.cur.idx.toNat with key := key, val := val.getD (nd.slot t.cur.idx.toNat).val } nd hwf hc.1 hg hi
    hkey'.symm rfl
  have hr : t.updateCurrent key val =
      (t.upd t.cur.node (fun x => x.setSlot t.cur.idx.toNat
        { nd.slot t.cur.idx.toNat with key := key, val := val.getD (nd.slot t.cur.idx.toNat).val }), .ok true) := by
    unfold BTree.updateCurrent
    rw [hcn]
    simp only [hneg, if_false, hid, hkey', ne_eq, not_true_eq_false]
  rw [hr]
  refine ⟨h.1, hp, rfl, rfl, rfl, ?_⟩
  unfold BTree.curItem
  rw [hget]
  have he : ({ nd.slot t.cur.idx.toNat with val := val.getD (nd.slot t.cur.idx.toNat).val } : Item)
      = { nd.slot t.cur.idx.toNat with key := key, val := val.getD (nd.slot t.cur.idx.toNat).val } := by
    rw [← hkey']
  rw [he]
  exact h.2

/-- `UpdateCurrentKey` with the current key leaves the contents as they are -/
theorem updateCurrentKey_abs (t : BTree) (key : Int) (hwf : WF t) (hp : t.panicked = false)
    (hc : CursorOn t) (hkey : t.curItem.key = key) : (t.updateCurrent key none).1.abs = t.abs := by
  obtain ⟨L, R, h1, h2⟩ := (updateCurrent_ok t key none hwf hp hc hkey).2.2.2.2.2
  rw [h1, h2]; rfl

/-- a different key is rejected and the tree is left unchanged (on the pinned tree the rejection path
    dereferences the cached item pointer: unchanged only if it is cached or the repair is on) -/
theorem updateCurrent_reject (t : BTree) (key : Int) (val : Option Nat) (hc : CursorOn t)
    (hkey : t.curItem.key ≠ key) :
    (t.updateCurrent key val).2 = .err ∧
      ((t.cur.cached || t.fixErr) = true → (t.updateCurrent key val).1 = t) := by
  obtain ⟨nd, hg, hcn, hid, hget, hi, hneg⟩ := hc.node
  have hkey' : (nd.slot t.cur.idx.toNat).key ≠ key := by
    unfold BTree.curItem at hkey; rw [hget] at hkey; exact hkey
  unfold BTree.updateCurrent
  rw [hcn]
  simp only [hneg, if_false, hkey', ne_eq, not_false_eq_true, if_true]
  constructor
  · split <;> rfl
  · intro h; rw [if_pos h]

end Sop.BTree.Rem
