import Sop.Lemmas.BTreeRemove
/-! C17, remove side of Model B, part 1: list-level meaning of the Go slice helpers (`writeAt_toList`,
`vacate_toList`), the local step of a leaf losing one item (`leaf_local`), and `RemoveCurrentItem` on a leaf
that keeps at least one item (`removeCurrent_leaf_many_ok`) or that is the root with one item (`removeCurrent_root_one_ok`). -/
namespace Sop.BTree.Rem
open Sop.BTree
set_option linter.unusedVariables false
set_option linter.unusedSimpArgs false


/-! ### Go slice helpers at list level -/

theorem writeAt_size {α : Type} : ∀ (xs : List α) (dst : Array α) (off : Nat), (writeAt dst off xs).size = dst.size
  | [], _, _ => rfl
  | x :: xs, dst, off => by
    unfold writeAt
    split
    · rw [writeAt_size xs]; simp
    · rfl

theorem writeAt_toList {α : Type} : ∀ (xs : List α) (dst : Array α) (off : Nat), off + xs.length ≤ dst.size →
    (writeAt dst off xs).toList = dst.toList.take off ++ xs ++ dst.toList.drop (off + xs.length)
  | [], dst, off, _ => by simp [writeAt]
  | x :: xs, dst, off, h => by
    have hlt : off < dst.size := by simp at h; omega
    unfold writeAt
    rw [if_pos hlt, writeAt_toList xs _ _ (by simp at h ⊢; omega)]
    simp only [Array.toList_setIfInBounds, List.length_cons]
    have h1 : (dst.toList.set off x).take (off + 1) = dst.toList.take off ++ [x] := by
      rw [List.take_set, List.take_add_one]
      have : off < dst.toList.length := by simpa using hlt
      rw [List.getElem?_eq_getElem this]
      simp only [Option.toList_some]
      rw [List.set_append_right _ _ (by simp; omega)]
      have hm : min off dst.size = off := Nat.min_eq_left (Nat.le_of_lt hlt)
      simp [List.length_take, hm]
    have h2 : (dst.toList.set off x).drop (off + 1 + xs.length) = dst.toList.drop (off + (xs.length + 1)) := by
      rw [List.drop_set_of_lt (by omega)]
      congr 1; omega
    rw [h1, h2]; simp


/-- the slot array `fixVacatedSlot` leaves in a node that keeps at least one item -/
def vacate (a : Array Item) (pos c : Nat) : Array Item :=
  (if pos < c - 1 then moveElems a pos (pos + 1) ((c : Int) - pos - 1) else a).setIfInBounds (c - 1) {}

theorem eraseIdx_take_split (l : List Item) (pos c : Nat) (hc : c ≤ l.length) (hpos : pos < c) :
    (l.take c).eraseIdx pos = l.take pos ++ (l.drop (pos + 1)).take (c - (pos + 1)) := by
  rw [List.eraseIdx_eq_take_drop_succ, List.take_take, List.drop_take, Nat.min_eq_left (by omega)]

theorem vacate_toList (a : Array Item) (pos c : Nat) (hc : c ≤ a.size) (hpos : pos < c) :
    (vacate a pos c).toList = (a.toList.take c).eraseIdx pos ++ ({} : Item) :: a.toList.drop c := by
  have hlen : c ≤ a.toList.length := by simpa using hc
  have hdrop : a.toList.drop (c - 1) = a.toList[c - 1]'(by omega) :: a.toList.drop c := by
    have := List.drop_eq_getElem_cons (l := a.toList) (i := c - 1) (by omega)
    rw [this]; congr 2; omega
  unfold vacate
  rw [Array.toList_setIfInBounds, eraseIdx_take_split _ _ _ hlen hpos]
  by_cases h : pos < c - 1
  · rw [if_pos h]
    have hm : moveElems a pos (pos + 1) ((c : Int) - pos - 1)
        = writeAt a pos ((a.toList.drop (pos + 1)).take (c - (pos + 1))) := by
      unfold moveElems goCopy
      rw [if_neg (by omega)]
      have : min (pos + 1 + ((c : Int) - pos - 1).toNat) a.size = c := by omega
      simp only [this]
    have hxl : ((a.toList.drop (pos + 1)).take (c - (pos + 1))).length = c - (pos + 1) := by
      simp; omega
    rw [hm, writeAt_toList _ _ _ (by rw [hxl]; omega), hxl]
    have : pos + (c - (pos + 1)) = c - 1 := by omega
    rw [this, hdrop, List.set_append_right _ _ (by simp; omega)]
    congr 1
    have : c - 1 - (a.toList.take pos ++ (a.toList.drop (pos + 1)).take (c - (pos + 1))).length = 0 := by
      simp; omega
    rw [this]; rfl
  · rw [if_neg h]
    have hp : pos = c - 1 := by omega
    have h0 : c - (pos + 1) = 0 := by omega
    rw [h0, List.take_zero, List.append_nil, hp]
    conv => lhs; rw [← List.take_append_drop (c - 1) a.toList]
    rw [hdrop, List.set_append_right _ _ (by simp; omega)]
    congr 1
    have : c - 1 - (a.toList.take (c - 1)).length = 0 := by simp; omega
    rw [this]; rfl

theorem vacate_size (a : Array Item) (pos c : Nat) : (vacate a pos c).size = a.size := by
  unfold vacate
  split
  · unfold moveElems
    split
    · simp
    · simp [goCopy, writeAt_size]
  · simp


theorem ItemsOk.lo_weaken {lo : Option Int} {k : Int} (hk : LeO lo k) : ∀ (l : List Item) (hi : Option Int),
    ItemsOk (some k) hi l → ItemsOk lo hi l
  | [], _, _ => trivial
  | a :: l, hi, h => ⟨hk.trans (h.1 _ rfl), h.2.1, h.2.2.1, h.2.2.2⟩

theorem ItemsOk.eraseIdx : ∀ (l : List Item) (i : Nat) (lo hi : Option Int), ItemsOk lo hi l → ItemsOk lo hi (l.eraseIdx i)
  | [], _, _, _, _ => by simp [ItemsOk]
  | a :: l, 0, lo, hi, h => by
    simp only [List.eraseIdx_cons_zero]
    exact ItemsOk.lo_weaken h.1 l hi h.2.2.2
  | a :: l, i + 1, lo, hi, h => by
    simp only [List.eraseIdx_cons_succ]
    exact ⟨h.1, h.2.1, h.2.2.1, ItemsOk.eraseIdx l i _ _ h.2.2.2⟩

theorem splice_eraseIdx {x : Item} (l : List Item) (i : Nat) (hx : l[i]? = some x) : Splice [x] [] l (l.eraseIdx i) := by
  have hi : i < l.length := by
    rcases Nat.lt_or_ge i l.length with h | h
    · exact h
    · rw [List.getElem?_eq_none h] at hx; cases hx
  refine ⟨l.take i, l.drop (i + 1), ?_, ?_⟩
  · rw [List.getElem?_eq_getElem hi] at hx
    simp only [Option.some.injEq] at hx
    rw [← hx]; simp
  · rw [List.eraseIdx_eq_take_drop_succ]; simp

/-- the local step of "a leaf loses the item at `pos`" -/
theorem leaf_local (t t' : BTree) (n : NodeId) (nd nd' : Node) (pos : Nat) (hsl : t'.sl = t.sl)
    (hg : t.get? n = some nd) (hg' : t'.get? n = some nd')
    (hleaf : nd.children = none) (hleaf' : nd'.children = none) (hpar : nd'.parent = nd.parent)
    (hshape : NodeShape t nd') (hne : nd.parent = 0 ∨ 1 ≤ nd'.count) (hpos : pos < nd.count)
    (hitems : nd'.items = nd.items.eraseIdx pos) :
    ∀ f p lo hi, WFNode t f n p lo hi → (reach t f n).Nodup → Step t t' [nd.slot pos] [] [n] [n] f n p lo hi
  | 0, _, _, _, h, _ => absurd h (by simp [WFNode])
  | f + 1, p, lo, hi, h, hnd => by
    obtain ⟨hn, nd0, hg0, hp, hs, hne0, hbody⟩ := h
    rw [hg] at hg0; cases hg0
    rw [hleaf] at hbody
    refine ⟨⟨hn, nd', hg', by rw [hpar, hp], nodeShape_sl hsl hshape, by rw [← hp]; exact hne, ?_⟩, ?_, ?_⟩
    · rw [hleaf', hitems]
      exact ItemsOk.eraseIdx _ _ _ _ hbody
    · rw [absNode, absNode]
      simp only [hn, if_false, hg, hg', hleaf, hleaf', hitems]
      exact splice_eraseIdx _ _ (items_getElem? hs hpos)
    · rw [reach_unfold hn hg, reach_unfold hn hg', hleaf, hleaf']
      simp only [Option.getD_none, List.take_nil, List.flatMap_nil, Array.toList_empty]
      exact ⟨[], [], rfl, rfl⟩

/-- every node reachable from a well-formed subtree is itself the root of a well-formed subtree -/
theorem wfNode_of_reach (t : BTree) : ∀ (f : Nat) (m p : NodeId) (lo hi : Option Int) (n : NodeId),
    WFNode t f m p lo hi → n ∈ reach t f m → ∃ f' p' lo' hi', f' ≤ f ∧ WFNode t f' n p' lo' hi'
  | 0, _, _, _, _, _, h, _ => absurd h (by simp [WFNode])
  | f + 1, m, p, lo, hi, n, h, hin => by
    obtain ⟨hn, nd, hg, hp, hs, hne, hbody⟩ := id h
    rw [reach_unfold hn hg] at hin
    rcases List.mem_cons.mp hin with rfl | hin
    · exact ⟨_, _, _, _, Nat.le_refl _, h⟩
    · obtain ⟨c, hc, hnc⟩ := List.mem_flatMap.mp hin
      cases hch : nd.children with
      | none => rw [hch] at hc; simp at hc
      | some cs =>
        rw [hch] at hbody hc
        simp only [Option.getD_some] at hc
        rcases KidsOk.mem _ _ _ _ hbody c hc with rfl | ⟨l, h', hw⟩
        · rw [reach_zero] at hnc; simp at hnc
        · obtain ⟨f', p', lo', hi', hle, hw'⟩ := wfNode_of_reach t f c m l h' n hw hnc
          exact ⟨f', p', lo', hi', by omega, hw'⟩

theorem ItemsOk.live : ∀ (l : List Item) (lo hi : Option Int), ItemsOk lo hi l → ∀ x ∈ l, x.id ≠ 0
  | [], _, _, _, x, hx => by simp at hx
  | a :: l, lo, hi, h, x, hx => by
    rcases List.mem_cons.mp hx with rfl | hx
    · exact h.2.2.1
    · exact ItemsOk.live l _ _ h.2.2.2 x hx

theorem KidsOk.live {P : NodeId → Option Int → Option Int → Prop} :
    ∀ (cs : List NodeId) (l : List Item) (lo hi : Option Int), cs.length = l.length + 1 → KidsOk P lo hi cs l →
      ∀ x ∈ l, x.id ≠ 0
  | _, [], _, _, _, _, x, hx => by simp at hx
  | [], a :: l, _, _, hc, _, _, _ => by simp at hc
  | c :: cs, a :: l, lo, hi, hc, h, x, hx => by
    rcases List.mem_cons.mp hx with rfl | hx
    · exact h.2.2.2.1
    · exact KidsOk.live cs l _ _ (by simpa using hc) h.2.2.2.2 x hx

/-- occupied slots of a reachable node of a well-formed tree hold live items -/
theorem slot_live {t : BTree} {f : Nat} {n p : NodeId} {lo hi : Option Int} {nd : Node}
    (h : WFNode t f n p lo hi) (hg : t.get? n = some nd) {i : Nat} (hi' : i < nd.count) : (nd.slot i).id ≠ 0 := by
  cases f with
  | zero => exact absurd h (by simp [WFNode])
  | succ f =>
    obtain ⟨hn, nd0, hg0, hp, hs, hne, hbody⟩ := h
    rw [hg] at hg0; cases hg0
    have hm : nd.slot i ∈ nd.items := List.mem_of_getElem? (items_getElem? hs hi')
    cases hc : nd.children with
    | none => rw [hc] at hbody; exact ItemsOk.live _ _ _ hbody _ hm
    | some cs =>
      rw [hc] at hbody
      refine KidsOk.live _ _ _ _ ?_ hbody _ hm
      have := (hs.2.2.2.2 cs hc).1
      have := hs.2.1
      rw [Node.items_length hs]; simp; omega


theorem splice_del {x : Item} {l l' : List Item} (h : Splice [x] [] l l') : ∃ L R, l = L ++ x :: R ∧ l' = L ++ R := by
  obtain ⟨L, R, h1, h2⟩ := h
  exact ⟨L, R, by simpa using h1, by simpa using h2⟩

theorem eraseIdx_length_lt (l : List Item) (pos c : Nat) (hc : c ≤ l.length) (hpos : pos < c) :
    ((l.take c).eraseIdx pos).length = c - 1 := by
  rw [List.length_eraseIdx, List.length_take, Nat.min_eq_left hc, if_pos hpos]

/-- the node `fixVacatedSlot` leaves when the node keeps at least one item -/
def vacNode (nd : Node) (pos : Nat) : Node := { nd with slots := vacate nd.slots pos nd.count, count := nd.count - 1 }

theorem vacNode_items {t : BTree} {nd : Node} (hs : NodeShape t nd) {pos : Nat} (hpos : pos < nd.count) :
    (vacNode nd pos).items = nd.items.eraseIdx pos := by
  have hc : nd.count ≤ nd.slots.size := by rw [hs.1]; exact hs.2.1
  unfold vacNode Node.items
  simp only
  rw [vacate_toList _ _ _ hc hpos]
  have hl := eraseIdx_length_lt nd.slots.toList pos nd.count (by simpa using hc) hpos
  rw [List.take_append_of_le_length (by omega), List.take_of_length_le (by omega)]

theorem vacNode_shape {t : BTree} {nd : Node} (hs : NodeShape t nd) (hleaf : nd.children = none) {pos : Nat}
    (hpos : pos < nd.count) :
    NodeShape t (vacNode nd pos) := by
  have hc : nd.count ≤ nd.slots.size := by rw [hs.1]; exact hs.2.1
  obtain ⟨h1, h2, h3, h4, h5⟩ := hs
  refine ⟨by simp [vacNode, vacate_size, h1], by simp [vacNode]; omega, h3, ?_, ?_⟩
  · intro y hy
    simp only [vacNode] at hy
    rw [vacate_toList _ _ _ hc hpos] at hy
    have hl := eraseIdx_length_lt nd.slots.toList pos nd.count (by simpa using hc) hpos
    rw [List.drop_append_of_le_length (by omega), List.drop_of_length_le (by omega)] at hy
    simp only [List.nil_append, List.mem_cons] at hy
    rcases hy with rfl | hy
    · rfl
    · exact h4 y hy
  · intro cs hcs
    simp only [vacNode] at hcs
    rw [hleaf] at hcs; cases hcs

theorem fixVacatedSlot_many (t : BTree) (n : NodeId) (nd : Node) (hget : t.get n = nd) (hneg : ¬ t.cur.idx < 0)
    (hmany : 1 < nd.count) :
    t.fixVacatedSlot n = t.upd n (fun x => { x with slots := vacate nd.slots t.cur.idx.toNat nd.count, count := nd.count - 1 }) := by
  unfold BTree.fixVacatedSlot
  simp only [hget, hneg, if_false]
  rw [if_pos (by omega)]
  rfl

/-- the common head of `RemoveCurrentItem` when the cursor is on an occupied slot of a leaf -/
theorem removeCurrent_leaf_eq (t : BTree) (hwf : WF t) (hc : CursorOn t) (hleaf : (t.get t.cur.node).children = none) :
    t.removeCurrent =
      ({ (t.fixVacatedSlot t.cur.node).setCur 0 0 with count := ((t.fixVacatedSlot t.cur.node).setCur 0 0).count - 1 }, .ok true) := by
  obtain ⟨nd, hg, hcn, hid, hget, hi, hneg⟩ := hc.node
  have hr := root_ne_zero_of_reach hc.1
  have hw := hwf
  unfold WF at hw
  simp only [hr, if_false] at hw
  obtain ⟨f', p', lo', hi', _, hwn⟩ := wfNode_of_reach t _ _ _ _ _ _ hw.2.1 hc.1
  have hlive := slot_live hwn hg hi
  rw [hget] at hleaf
  unfold BTree.removeCurrent
  rw [hcn]
  simp only [hneg, if_false, hlive, Node.hasChildren, hleaf, Option.isSome_none, Bool.false_eq_true, hid]

/-- LEAF REMOVAL WITHOUT UNDERFLOW: `RemoveCurrentItem` with the cursor on an occupied slot of a leaf that
    holds more than one item. -/
theorem removeCurrent_leaf_many_ok (t : BTree) (hwf : WF t) (hp : t.panicked = false) (hc : CursorOn t)
    (hleaf : (t.get t.cur.node).children = none) (hmany : 1 < (t.get t.cur.node).count) :
    WF t.removeCurrent.1 ∧ t.removeCurrent.1.panicked = false ∧ t.removeCurrent.2 = .ok true ∧
    t.removeCurrent.1.cur = { node := 0, idx := 0, cached := false } ∧ t.removeCurrent.1.count = t.count - 1 ∧
    ∃ L R, t.abs = L ++ t.curItem :: R ∧ t.removeCurrent.1.abs = L ++ R := by
  obtain ⟨nd, hg, hcn, hid, hget, hi, hneg⟩ := hc.node
  rw [removeCurrent_leaf_eq t hwf hc hleaf]
  rw [hget] at hleaf hmany
  rw [fixVacatedSlot_many t _ nd hget hneg hmany]
  have hr := root_ne_zero_of_reach hc.1
  have hw := hwf
  unfold WF at hw
  simp only [hr, if_false] at hw
  obtain ⟨f', p', lo', hi', _, hwn⟩ := wfNode_of_reach t _ _ _ _ _ _ hw.2.1 hc.1
  have hs : NodeShape t nd := by
    cases f' with
    | zero => exact absurd hwn (by simp [WFNode])
    | succ f' =>
      obtain ⟨_, nd0, hg0, _, hs, _, _⟩ := hwn
      rw [hg] at hg0; cases hg0; exact hs
  have hidp : ∀ x : Node, ({ x with slots := vacate nd.slots t.cur.idx.toNat nd.count, count := nd.count - 1 } : Node).id = x.id :=
    fun _ => rfl
  have h := wf_of_ctx t
    { (t.upd t.cur.node (fun x => { x with slots := vacate nd.slots t.cur.idx.toNat nd.count, count := nd.count - 1 })).setCur 0 0
        with count := t.count - 1 }
    t.cur.node [nd.slot t.cur.idx.toNat] [] hwf hc.1 rfl rfl (by simp [BTree.setCur])
    (fun k hk => get?_upd_ne t _ hidp hk)
    (leaf_local t _ t.cur.node nd (vacNode nd t.cur.idx.toNat) t.cur.idx.toNat rfl hg
      (by show (t.upd _ _).get? _ = _; rw [get?_upd_eq t _ _ hidp, hg]; rfl)
      hleaf hleaf rfl (vacNode_shape hs hleaf hi) (Or.inr (by simp [vacNode]; omega)) hi (vacNode_items hs hi))
    (by simp)
  refine ⟨h.1, hp, rfl, rfl, rfl, ?_⟩
  unfold BTree.curItem
  rw [hget]
  exact splice_del h.2


/-- the node `fixVacatedSlot` leaves in a root that held one item -/
def emptyRoot (nd : Node) : Node := { nd with count := 0, slots := nd.slots.setIfInBounds 0 {} }

theorem emptyRoot_shape {t : BTree} {nd : Node} (hs : NodeShape t nd) (hleaf : nd.children = none) (h1 : nd.count = 1) :
    NodeShape t (emptyRoot nd) := by
  obtain ⟨h1', h2, h3, h4, h5⟩ := hs
  refine ⟨by simp [emptyRoot, h1'], by simp [emptyRoot], h3, ?_, ?_⟩
  · intro y hy
    simp only [emptyRoot, Array.toList_setIfInBounds, List.drop_zero] at hy
    rw [h1] at h4
    cases hl : nd.slots.toList with
    | nil => rw [hl] at hy; simp at hy
    | cons a l =>
      rw [hl] at hy h4
      simp only [List.set_cons_zero, List.mem_cons] at hy
      rcases hy with rfl | hy
      · rfl
      · exact h4 y (by simpa using hy)
  · intro cs hcs
    simp only [emptyRoot] at hcs
    rw [hleaf] at hcs; cases hcs

theorem emptyRoot_items {t : BTree} {nd : Node} (hs : NodeShape t nd) (h1 : nd.count = 1) :
    (emptyRoot nd).items = nd.items.eraseIdx 0 := by
  have hl := Node.items_length hs
  rw [h1] at hl
  cases hi : nd.items with
  | nil => rw [hi] at hl; simp at hl
  | cons a l =>
    rw [hi] at hl
    have : l = [] := by simpa using hl
    subst this
    simp [emptyRoot, Node.items]

theorem fixVacatedSlot_rootOne (t : BTree) (n : NodeId) (nd : Node) (hget : t.get n = nd) (hneg : ¬ t.cur.idx < 0)
    (h1 : nd.count = 1) (hroot : nd.parent = 0) :
    t.fixVacatedSlot n = (t.upd n emptyRoot).setCur 0 0 := by
  unfold BTree.fixVacatedSlot
  simp only [hget, hneg, if_false, h1, Nat.lt_irrefl, Node.isRoot, hroot, beq_self_eq_true, if_true]
  rfl

/-- node, shape and parent link of a reachable node of a well-formed tree -/
theorem wf_node_facts {t : BTree} (hwf : WF t) {n : NodeId} (hin : n ∈ reach t (t.nodes.length + 1) t.root) :
    ∃ nd, t.get? n = some nd ∧ NodeShape t nd ∧ (n = t.root → nd.parent = 0) := by
  have hr := root_ne_zero_of_reach hin
  have hw := hwf
  unfold WF at hw
  simp only [hr, if_false] at hw
  obtain ⟨f', p', lo', hi', _, hwn⟩ := wfNode_of_reach t _ _ _ _ _ _ hw.2.1 hin
  cases f' with
  | zero => exact absurd hwn (by simp [WFNode])
  | succ f' =>
    obtain ⟨_, nd, hg, _, hs, _, _⟩ := hwn
    refine ⟨nd, hg, hs, ?_⟩
    intro hnr
    obtain ⟨_, nd0, hg0, hp0, _⟩ := hw.2.1
    rw [← hnr, hg] at hg0; cases hg0; exact hp0

/-- ROOT LEAF WITH ONE ITEM: `RemoveCurrentItem` empties the root (the root node stays, `count := 0`). -/
theorem removeCurrent_root_one_ok (t : BTree) (hwf : WF t) (hp : t.panicked = false) (hc : CursorOn t)
    (hleaf : (t.get t.cur.node).children = none) (hone : (t.get t.cur.node).count = 1) (hroot : t.cur.node = t.root) :
    WF t.removeCurrent.1 ∧ t.removeCurrent.1.panicked = false ∧ t.removeCurrent.2 = .ok true ∧
    t.removeCurrent.1.cur = { node := 0, idx := 0, cached := false } ∧ t.removeCurrent.1.count = t.count - 1 ∧
    ∃ L R, t.abs = L ++ t.curItem :: R ∧ t.removeCurrent.1.abs = L ++ R := by
  obtain ⟨nd, hg, hcn, hid, hget, hi, hneg⟩ := hc.node
  rw [removeCurrent_leaf_eq t hwf hc hleaf]
  rw [hget] at hleaf hone
  obtain ⟨nd0, hg0, hs, hpar⟩ := wf_node_facts hwf hc.1
  rw [hg] at hg0; cases hg0
  have hpar := hpar hroot
  rw [fixVacatedSlot_rootOne t _ nd hget hneg hone hpar]
  have hpos : t.cur.idx.toNat = 0 := by omega
  have hidp : ∀ x : Node, (emptyRoot x).id = x.id := fun _ => rfl
  have h := wf_of_ctx t
    { ((t.upd t.cur.node emptyRoot).setCur 0 0).setCur 0 0 with count := t.count - 1 }
    t.cur.node [nd.slot 0] [] hwf hc.1 rfl rfl (by simp [BTree.setCur])
    (fun k hk => get?_upd_ne t _ hidp hk)
    (leaf_local t _ t.cur.node nd (emptyRoot nd) 0 rfl hg
      (by show (t.upd _ _).get? _ = _; rw [get?_upd_eq t _ _ hidp, hg]; rfl)
      hleaf hleaf rfl (emptyRoot_shape hs hleaf hone) (Or.inl hpar) (by omega) (emptyRoot_items hs hone))
    (by simp)
  refine ⟨h.1, hp, rfl, rfl, rfl, ?_⟩
  unfold BTree.curItem
  rw [hget, hpos]
  exact splice_del h.2

end Sop.BTree.Rem
