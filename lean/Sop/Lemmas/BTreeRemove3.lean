import Sop.Lemmas.BTreeRemove2
/-! C17, remove side of Model B, part 2: the uniform kids view of a node, the local step of an inner node
losing its one-item leaf child (`dropKid_local`), the parent of a reachable node (`parent_of_reach`), fuel
shrinking, `del`, `getIndexOfChild_spec`, `unlink_eq`, and `RemoveCurrentItem` on a non-root leaf with one
item (`removeCurrent_unlink_ok`); `removeCurrent_leaf_ok` joins the three leaf cases. -/
namespace Sop.BTree.Rem
open Sop.BTree
set_option linter.unusedVariables false
set_option linter.unusedSimpArgs false


/-! ### the uniform "kids" view of a node (a leaf has `count + 1` nil kids) -/

theorem KidsOk.zeros {P : NodeId → Option Int → Option Int → Prop} : ∀ (l : List Item) (lo hi : Option Int),
    ItemsOk lo hi l → KidsOk P lo hi (List.replicate (l.length + 1) 0) l
  | [], _, _, _ => by simp [List.replicate, KidsOk]
  | a :: l, lo, hi, h => by
    simp only [List.length_cons, List.replicate_succ, KidsOk]
    have ih := KidsOk.zeros (P := P) l _ _ h.2.2.2
    simp only [List.replicate_succ] at ih
    exact ⟨Or.inl trivial, h.1, h.2.1, h.2.2.1, ih⟩

theorem KidsOk.items {P : NodeId → Option Int → Option Int → Prop} : ∀ (cs : List NodeId) (l : List Item) (lo hi : Option Int),
    cs.length = l.length + 1 → KidsOk P lo hi cs l → ItemsOk lo hi l
  | _, [], _, _, _, _ => trivial
  | [], a :: l, _, _, hc, _ => by simp at hc
  | c :: cs, a :: l, lo, hi, hc, h =>
    ⟨h.2.1, h.2.2.1, h.2.2.2.1, KidsOk.items cs l _ _ (by simpa using hc) h.2.2.2.2⟩

theorem mem_kids {nd : Node} {c : NodeId} (hc : c ∈ nd.kids) (h0 : c ≠ 0) :
    c ∈ (nd.children.getD #[]).toList.take (nd.count + 1) := by
  unfold Node.kids at hc
  cases hch : nd.children with
  | none => rw [hch] at hc; simp at hc; exact absurd hc h0
  | some cs => rw [hch] at hc; simpa using hc

theorem flatMap_zeros {β : Type} (r : NodeId → List β) (r0 : r 0 = []) : ∀ k, (List.replicate k 0).flatMap r = []
  | 0 => rfl
  | k + 1 => by simp [List.replicate_succ, r0, flatMap_zeros r r0 k]

theorem absNode_kids {t : BTree} {n : NodeId} {nd : Node} (f : Nat) (hn : n ≠ 0) (hg : t.get? n = some nd)
    (hs : NodeShape t nd) : absNode t (f + 1) n = weave (absNode t f) nd.kids nd.items := by
  rw [absNode]
  simp only [hn, if_false, hg]
  unfold Node.kids
  cases hc : nd.children with
  | none => simp only; rw [weave_zero _ (absNode_zero t _) _ _ (by rw [Node.items_length hs])]
  | some cs => rfl

theorem reach_kids {t : BTree} {n : NodeId} {nd : Node} (f : Nat) (hn : n ≠ 0) (hg : t.get? n = some nd) :
    reach t (f + 1) n = n :: nd.kids.flatMap (reach t f) := by
  rw [reach_unfold hn hg]
  unfold Node.kids
  cases hc : nd.children with
  | none => simp [flatMap_zeros _ (reach_zero t f)]
  | some cs => rfl

theorem wfNode_kids {t : BTree} {f : Nat} {n p : NodeId} {lo hi : Option Int} {nd : Node}
    (h : WFNode t (f + 1) n p lo hi) (hg : t.get? n = some nd) :
    n ≠ 0 ∧ nd.parent = p ∧ NodeShape t nd ∧ (p = 0 ∨ 1 ≤ nd.count) ∧
      KidsOk (fun c l h => WFNode t f c n l h) lo hi nd.kids nd.items := by
  obtain ⟨hn, nd0, hg0, hp, hs, hne, hbody⟩ := h
  rw [hg] at hg0; cases hg0
  refine ⟨hn, hp, hs, hne, ?_⟩
  unfold Node.kids
  cases hc : nd.children with
  | none =>
    rw [hc] at hbody
    simp only
    rw [← Node.items_length hs]
    exact KidsOk.zeros _ _ _ hbody
  | some cs => rw [hc] at hbody; exact hbody

theorem wfNode_of_kids {t : BTree} {f : Nat} {n p : NodeId} {lo hi : Option Int} {nd : Node}
    (hn : n ≠ 0) (hg : t.get? n = some nd) (hp : nd.parent = p) (hs : NodeShape t nd) (hne : p = 0 ∨ 1 ≤ nd.count)
    (hk : KidsOk (fun c l h => WFNode t f c n l h) lo hi nd.kids nd.items) : WFNode t (f + 1) n p lo hi := by
  refine ⟨hn, nd, hg, hp, hs, hne, ?_⟩
  unfold Node.kids at hk
  cases hc : nd.children with
  | none =>
    rw [hc] at hk
    exact KidsOk.items _ _ _ _ (by simp [Node.items_length hs]) hk
  | some cs => rw [hc] at hk; exact hk


theorem KidsOk.set_zero {P : NodeId → Option Int → Option Int → Prop} :
    ∀ (cs : List NodeId) (l : List Item) (i : Nat) (lo hi : Option Int), KidsOk P lo hi cs l → KidsOk P lo hi (cs.set i 0) l
  | [], _, _, _, _, _ => trivial
  | c :: cs, [], 0, lo, hi, h => ⟨Or.inl rfl, h.2⟩
  | c :: cs, [], i + 1, lo, hi, h => by
    have := h.2; subst this
    simpa [KidsOk] using h.1
  | c :: cs, a :: l, 0, lo, hi, h => ⟨Or.inl rfl, h.2⟩
  | c :: cs, a :: l, i + 1, lo, hi, h => ⟨h.1, h.2.1, h.2.2.1, h.2.2.2.1, KidsOk.set_zero cs l i _ _ h.2.2.2.2⟩

theorem weave_set_kid (g : NodeId → List Item) (g0 : g 0 = []) {n : NodeId} :
    ∀ (cs : List NodeId) (l : List Item) (i : Nat), cs[i]? = some n →
      Splice (g n) [] (weave g cs l) (weave g (cs.set i 0) l)
  | [], _, _, h => by simp at h
  | c :: cs, l, 0, h => by
    simp only [List.getElem?_cons_zero, Option.some.injEq] at h
    subst h
    cases l with
    | nil => simp only [List.set_cons_zero, weave, g0]; exact ⟨[], weave g cs [], by simp, by simp⟩
    | cons a l => simp only [List.set_cons_zero, weave, g0]; exact ⟨[], a :: weave g cs l, by simp, by simp⟩
  | c :: cs, l, i + 1, h => by
    have h' : cs[i]? = some n := by simpa using h
    cases l with
    | nil => simp only [List.set_cons_succ, weave]; exact (weave_set_kid g g0 cs [] i h').pre _
    | cons a l => simp only [List.set_cons_succ, weave]; exact ((weave_set_kid g g0 cs l i h').cons a).pre _

theorem flatMap_set_kid (r : NodeId → List NodeId) (r0 : r 0 = []) {n : NodeId} :
    ∀ (cs : List NodeId) (i : Nat), cs[i]? = some n → Splice (r n) [] (cs.flatMap r) ((cs.set i 0).flatMap r)
  | [], _, h => by simp at h
  | c :: cs, 0, h => by
    simp only [List.getElem?_cons_zero, Option.some.injEq] at h
    subst h
    simp only [List.set_cons_zero, List.flatMap_cons, r0]
    exact ⟨[], cs.flatMap r, by simp, by simp⟩
  | c :: cs, i + 1, h => by
    simp only [List.set_cons_succ, List.flatMap_cons]
    exact (flatMap_set_kid r r0 cs i (by simpa using h)).pre _

/-- a leaf holding exactly one item -/
theorem leaf_one {t : BTree} {f : Nat} {n p : NodeId} {lo hi : Option Int} {cn : Node}
    (h : WFNode t f n p lo hi) (hg : t.get? n = some cn) (hleaf : cn.children = none) (hone : cn.count = 1) :
    absNode t f n = [cn.slot 0] ∧ reach t f n = [n] := by
  cases f with
  | zero => exact absurd h (by simp [WFNode])
  | succ f =>
    obtain ⟨hn, nd0, hg0, hp, hs, hne, hbody⟩ := h
    rw [hg] at hg0; cases hg0
    constructor
    · rw [absNode]
      simp only [hn, if_false, hg, hleaf]
      have hl := Node.items_length hs
      have h0 := items_getElem? hs (show 0 < cn.count by omega)
      rw [hone] at hl
      cases hi : cn.items with
      | nil => rw [hi] at hl; simp at hl
      | cons a l =>
        rw [hi] at hl h0
        have : l = [] := by simpa using hl
        subst this
        simp at h0; rw [h0]
    · rw [reach_unfold hn hg, hleaf]; simp

/-- the local step of "the inner node `p` loses its one-item leaf child at kid position `i`" -/
theorem dropKid_local (t t' : BTree) (p n : NodeId) (pn pn' cn : Node) (i : Nat) (hsl : t'.sl = t.sl)
    (hout : ∀ k, k ≠ p → t'.get? k = t.get? k)
    (hg : t.get? p = some pn) (hg' : t'.get? p = some pn')
    (hpar : pn'.parent = pn.parent) (hcount : pn'.count = pn.count) (hitems : pn'.items = pn.items)
    (hshape : NodeShape t pn') (hkids : pn'.kids = pn.kids.set i 0) (hi : pn.kids[i]? = some n) (hn0 : n ≠ 0)
    (hgn : t.get? n = some cn) (hleaf : cn.children = none) (hone : cn.count = 1) :
    ∀ f q lo hi, WFNode t f p q lo hi → (reach t f p).Nodup → Step t t' [cn.slot 0] [] [n] [] f p q lo hi
  | 0, _, _, _, h, _ => absurd h (by simp [WFNode])
  | f + 1, q, lo, hi', h, hnd => by
    obtain ⟨hp0, hq, hs, hne, hk⟩ := wfNode_kids h hg
    have hkf := kids_frame t t' p hsl hout hp0 hg hnd
    have hmem : n ∈ pn.kids := List.mem_of_getElem? hi
    obtain ⟨ln, hn', hwn⟩ : ∃ l h', WFNode t f n p l h' := by
      rcases KidsOk.mem _ _ _ _ hk n hmem with h | h
      · exact absurd h hn0
      · exact h
    obtain ⟨habs, hreach⟩ := leaf_one hwn hgn hleaf hone
    have hframe : ∀ c ∈ pn.kids.set i 0, absNode t' f c = absNode t f c ∧ reach t' f c = reach t f c := by
      intro c hc
      by_cases hc0 : c = 0
      · subst hc0; simp [absNode_zero, reach_zero]
      · have hc' : c ∈ pn.kids := by
          rcases List.mem_or_eq_of_mem_set hc with h | h
          · exact h
          · exact absurd h hc0
        rcases KidsOk.mem _ _ _ _ hk c hc' with h | ⟨l, h', hw⟩
        · exact absurd h hc0
        · exact (hkf c (mem_kids hc' hc0) l h' hw).2
    refine ⟨?_, ?_, ?_⟩
    · refine wfNode_of_kids hp0 hg' (by rw [hpar, hq]) (nodeShape_sl hsl hshape) (by rw [hcount]; exact hne) ?_
      rw [hkids, hitems]
      refine KidsOk.imp_mem _ _ _ _ ?_ (KidsOk.set_zero _ _ i _ _ hk)
      intro c hc l h' hw
      have hc0 : c ≠ 0 := by
        cases f with
        | zero => exact absurd hw (by simp [WFNode])
        | succ f => exact hw.1
      have hc' : c ∈ pn.kids := by
        rcases List.mem_or_eq_of_mem_set hc with h | h
        · exact h
        · exact absurd h hc0
      exact (hkf c (mem_kids hc' hc0) l h' hw).1
    · rw [absNode_kids f hp0 hg hs, absNode_kids f hp0 hg' (nodeShape_sl hsl hshape), hkids, hitems]
      rw [weave_congr (g := absNode t' f) (g' := absNode t f) _ _ (fun c hc => (hframe c hc).1)]
      rw [← habs]
      exact weave_set_kid _ (absNode_zero t f) _ _ _ hi
    · rw [reach_kids f hp0 hg, reach_kids f hp0 hg', hkids]
      rw [flatMap_congr' (f := reach t' f) (g := reach t f) _ (fun c hc => (hframe c hc).2)]
      rw [← hreach]
      exact (flatMap_set_kid _ (reach_zero t f) _ _ hi).cons p


/-! ### the parent of a reachable non-root node -/

theorem parent_of_reach (t : BTree) : ∀ (f : Nat) (m q : NodeId) (lo hi : Option Int) (n : NodeId),
    WFNode t f m q lo hi → n ∈ reach t f m → n ≠ m →
      ∃ (p : NodeId) (pn : Node) (i : Nat), p ∈ reach t f m ∧ t.get? p = some pn ∧ pn.kids[i]? = some n ∧ ∃ cn, t.get? n = some cn ∧ cn.parent = p
  | 0, _, _, _, _, _, h, _, _ => absurd h (by simp [WFNode])
  | f + 1, m, q, lo, hi, n, h, hin, hne => by
    obtain ⟨hm0, nd, hg, _⟩ := id h
    obtain ⟨_, _, hs, _, hk⟩ := wfNode_kids h hg
    rw [reach_kids f hm0 hg] at hin ⊢
    rcases List.mem_cons.mp hin with h1 | hin
    · exact absurd h1 hne
    · obtain ⟨c, hc, hnc⟩ := List.mem_flatMap.mp hin
      rcases KidsOk.mem _ _ _ _ hk c hc with rfl | ⟨l, h', hw⟩
      · rw [reach_zero] at hnc; simp at hnc
      · by_cases hnc' : n = c
        · subst hnc'
          obtain ⟨i, hi⟩ := List.getElem?_of_mem hc
          cases f with
          | zero => exact absurd hw (by simp [WFNode])
          | succ f =>
            obtain ⟨_, cn, hgc, hpc, _⟩ := hw
            exact ⟨m, nd, i, List.mem_cons_self, hg, hi, cn, hgc, hpc⟩
        · obtain ⟨p, pn, i, hp, hgp, hi, hcn⟩ := parent_of_reach t f c m l h' n hw hnc hnc'
          exact ⟨p, pn, i, List.mem_cons_of_mem _ (List.mem_flatMap.mpr ⟨c, hc, hp⟩), hgp, hi, hcn⟩

/-! ### fuel: a well-formed subtree needs no more fuel than it has nodes -/

theorem length_le_flatMap {α β : Type} (r : α → List β) : ∀ (l : List α) (c : α), c ∈ l → (r c).length ≤ (l.flatMap r).length
  | [], _, h => by simp at h
  | a :: l, c, h => by
    simp only [List.flatMap_cons, List.length_append]
    rcases List.mem_cons.mp h with rfl | h
    · omega
    · have := length_le_flatMap r l c h; omega

theorem WFNode.shrink (t : BTree) : ∀ (f : Nat) (m p : NodeId) (lo hi : Option Int),
    WFNode t f m p lo hi → WFNode t (reach t f m).length m p lo hi
  | 0, _, _, _, _, h => absurd h (by simp [WFNode])
  | f + 1, m, p, lo, hi, h => by
    obtain ⟨hm0, nd, hg, _⟩ := id h
    obtain ⟨_, hp, hs, hne, hk⟩ := wfNode_kids h hg
    rw [reach_kids f hm0 hg, List.length_cons]
    refine wfNode_of_kids hm0 hg hp hs hne ?_
    refine KidsOk.imp_mem _ _ _ _ ?_ hk
    intro c hc l h' hw
    exact WFNode.le t (WFNode.shrink t f c m l h' hw) (length_le_flatMap _ _ _ hc)

theorem reach_succ (t : BTree) : ∀ (f : Nat) (n p : NodeId) (lo hi : Option Int),
    WFNode t f n p lo hi → reach t (f + 1) n = reach t f n
  | 0, _, _, _, _, h => absurd h (by simp [WFNode])
  | f + 1, n, p, lo, hi, h => by
    obtain ⟨hm0, nd, hg, _⟩ := id h
    obtain ⟨_, hp, hs, hne, hk⟩ := wfNode_kids h hg
    rw [reach_kids _ hm0 hg, reach_kids _ hm0 hg]
    congr 1
    apply flatMap_congr'
    intro c hc
    rcases KidsOk.mem _ _ _ _ hk c hc with rfl | ⟨l, h', hw⟩
    · rw [reach_zero, reach_zero]
    · exact reach_succ t f c n l h' hw

theorem reach_add (t : BTree) {f : Nat} {n p : NodeId} {lo hi : Option Int} (h : WFNode t f n p lo hi) :
    ∀ k, reach t (f + k) n = reach t f n
  | 0 => rfl
  | k + 1 => by rw [← Nat.add_assoc, reach_succ t _ _ _ _ _ (WFNode.add t h k), reach_add t h k]

theorem reach_le (t : BTree) {f f' : Nat} {n p : NodeId} {lo hi : Option Int} (h : WFNode t f n p lo hi)
    (hle : f ≤ f') : reach t f' n = reach t f n := by
  have := reach_add t h (f' - f)
  rwa [Nat.add_sub_cancel' hle] at this

/-! ### deleting a node from the repository -/

theorem find?_filter_ne (l : List Node) (n k : NodeId) :
    (l.filter (fun x => !(x.id == n))).find? (fun x => x.id == k) = if k = n then none else l.find? (fun x => x.id == k) := by
  induction l with
  | nil => simp
  | cons a l ih =>
    by_cases ha : a.id = n
    · simp only [List.filter_cons, ha, beq_self_eq_true, Bool.not_true, Bool.false_eq_true, if_false, ih, List.find?_cons]
      by_cases hk : k = n
      · simp [hk]
      · have : (n == k) = false := by simpa using (fun h => hk h.symm)
        simp [hk, this]
    · have hb : (a.id == n) = false := by simpa using ha
      simp only [List.filter_cons, hb, Bool.not_false, if_true, List.find?_cons, ih]
      by_cases hk : k = n
      · have : (a.id == k) = false := by rw [hk]; exact hb
        simp [hk, this, hb]
      · simp [hk]

theorem get?_del (t : BTree) {n : NodeId} (hn : n ≠ 0) (k : NodeId) :
    (t.del n).get? k = if k = n then none else t.get? k := by
  unfold BTree.del BTree.get?
  rw [if_neg hn]
  exact find?_filter_ne _ _ _

theorem del_length_lt (t : BTree) {n : NodeId} (hn : n ≠ 0) {nd : Node} (hg : t.get? n = some nd) :
    (t.del n).nodes.length < t.nodes.length := by
  unfold BTree.del
  rw [if_neg hn]
  apply List.length_filter_lt_length_iff_exists.mpr
  unfold BTree.get? at hg
  refine ⟨nd, List.mem_of_find?_eq_some hg, ?_⟩
  have := List.find?_some hg
  simpa using this

theorem get?_mem_ids {t : BTree} {k : NodeId} {nd : Node} (hg : t.get? k = some nd) : k ∈ t.nodes.map (·.id) := by
  unfold BTree.get? at hg
  have h1 := List.mem_of_find?_eq_some hg
  have h2 : nd.id = k := by simpa using List.find?_some hg
  exact List.mem_map.mpr ⟨nd, h1, h2⟩

theorem splice_drop_nodup {n : NodeId} {l l' : List NodeId} (h : Splice [n] [] l l') (hnd : l.Nodup) :
    l'.Nodup ∧ n ∉ l' ∧ l'.length + 1 = l.length := by
  obtain ⟨L, R, h1, h2⟩ := h
  subst h1 h2
  simp only [List.append_nil, List.append_assoc, List.singleton_append] at hnd ⊢
  obtain ⟨hL, hR, hd⟩ := List.nodup_append.mp hnd
  obtain ⟨hnR, hR'⟩ := List.nodup_cons.mp hR
  refine ⟨List.nodup_append.mpr ⟨hL, hR', fun a ha b hb => hd a ha b (List.mem_cons_of_mem _ hb)⟩, ?_, by simp; omega⟩
  intro hm
  rcases List.mem_append.mp hm with h | h
  · exact hd n h n List.mem_cons_self rfl
  · exact hnR h


/-! ### `getIndexOfChild` -/

theorem scan_spec (pn cn : Node) (cs : Array NodeId) (hid : cn.id ≠ 0) (j : Nat) (hj : j ≤ pn.slots.size)
    (hcj : cs.getD j 0 = cn.id) : ∀ (fuel i : Nat), i ≤ j → j - i < fuel →
      i ≤ BTree.getIndexOfChild.scan pn cn cs fuel i ∧ BTree.getIndexOfChild.scan pn cn cs fuel i ≤ j ∧
        cs.getD (BTree.getIndexOfChild.scan pn cn cs fuel i) 0 = cn.id
  | 0, i, _, hf => by omega
  | fuel + 1, i, hij, hf => by
    rw [BTree.getIndexOfChild.scan]
    rw [if_pos (by omega)]
    by_cases h0 : cs.getD i 0 = 0
    · have hne : i ≠ j := by intro h; subst h; rw [h0] at hcj; exact hid hcj.symm
      simp only [h0, beq_self_eq_true, if_true]
      have ih := scan_spec pn cn cs hid j hj hcj fuel (i + 1) (by omega) (by omega)
      exact ⟨by omega, ih.2.1, ih.2.2⟩
    · have h0' : (cs.getD i 0 == 0) = false := by simpa using h0
      simp only [h0', Bool.false_eq_true, if_false]
      by_cases h1 : cs.getD i 0 = cn.id
      · simp only [h1, beq_self_eq_true, if_true]
        exact ⟨Nat.le_refl _, hij, by simp [h1]⟩
      · have h1' : (cs.getD i 0 == cn.id) = false := by simpa using h1
        have hne : i ≠ j := by intro h; subst h; exact h1 hcj
        simp only [h1', Bool.false_eq_true, if_false]
        have ih := scan_spec pn cn cs hid j hj hcj fuel (i + 1) (by omega) (by omega)
        exact ⟨by omega, ih.2.1, ih.2.2⟩

theorem upd_id (t : BTree) (n : NodeId) : t.upd n (fun x => x) = t := by
  unfold BTree.upd
  have : (fun x : Node => if (x.id == n) = true then x else x) = id := by funext x; simp
  rw [this, List.map_id]

/-- `parent.getIndexOfChild(child)` on a parent that lists the child: it answers a position of the child in
    the children array, and changes at most the child's memoised index -/
theorem getIndexOfChild_spec (t : BTree) (p n : NodeId) (pn cn : Node) (cs : Array NodeId)
    (hgp : t.get? p = some pn) (hgn : t.get? n = some cn) (hcs : pn.children = some cs)
    (hsz : cs.size = t.sl + 1) (hps : pn.slots.size = t.sl) (hion : -1 ≤ cn.ion ∧ cn.ion ≤ (t.sl : Int)) (hn0 : n ≠ 0)
    (j : Nat) (hj : j ≤ t.sl) (hcj : cs.getD j 0 = n) :
    ∃ (i : Nat) (g : Node → Node), (∀ x, (g x).id = x.id) ∧ t.getIndexOfChild p n = (t.upd n g, (i : Int)) ∧
      cs.getD i 0 = n ∧ i < cs.size := by
  have hidn := get?_id hgn
  unfold BTree.getIndexOfChild
  simp only [get_of_get? hgp, get_of_get? hgn, hcs]
  rw [if_neg (by rw [hsz]; omega)]
  split
  · -- scan
    have hs := scan_spec pn cn cs (by rw [hidn]; exact hn0) j (by omega) (by rw [hidn]; exact hcj) (pn.slots.size + 2) 0
      (Nat.zero_le _) (by omega)
    refine ⟨BTree.getIndexOfChild.scan pn cn cs (pn.slots.size + 2) 0,
      fun x => { x with ion := (BTree.getIndexOfChild.scan pn cn cs (pn.slots.size + 2) 0 : Nat) }, fun _ => rfl, rfl,
      by rw [hs.2.2, hidn], by omega⟩
  · rename_i hmemo
    simp only [Bool.or_eq_true, beq_iff_eq, bne_iff_ne, ne_eq, not_or, Decidable.not_not] at hmemo
    obtain ⟨h1, h2⟩ := hmemo
    have hnn : 0 ≤ cn.ion := by omega
    refine ⟨cn.ion.toNat, fun x => x, fun _ => rfl, ?_, ?_, ?_⟩
    · rw [upd_id]; congr 1; omega
    · rw [← h2, hidn]
    · omega


/-- what `unlink` does to the parent: nil the child entry, and turn the parent into a leaf when no child is left -/
def dropKid (i : Nat) (x : Node) : Node :=
  if (x.setChild i 0).isNilChildren then { x.setChild i 0 with children := none } else x.setChild i 0

theorem dropKid_id (i : Nat) (x : Node) : (dropKid i x).id = x.id := by
  unfold dropKid; split <;> rfl

theorem upd_upd (t : BTree) (p : NodeId) (f g : Node → Node) (hf : ∀ x, (f x).id = x.id) :
    (t.upd p f).upd p g = t.upd p (fun x => g (f x)) := by
  unfold BTree.upd
  simp only [List.map_map]
  congr 1
  apply List.map_congr_left
  intro x _
  simp only [Function.comp]
  by_cases h : x.id = p
  · simp [h, hf]
  · have : (x.id == p) = false := by simpa using h
    simp [this]

theorem unlink_eq (t : BTree) (p n : NodeId) (pn cn : Node) (cs : Array NodeId)
    (hgp : t.get? p = some pn) (hgn : t.get? n = some cn) (hpar : cn.parent = p) (hp0 : p ≠ 0) (hpn : p ≠ n)
    (hcs : pn.children = some cs) (i : Nat) (g : Node → Node) (hg : ∀ x, (g x).id = x.id)
    (hioc : t.getIndexOfChild p n = (t.upd n g, (i : Int))) (hi : i < cs.size) :
    t.unlink n = ((t.upd n g).upd p (dropKid i)).del n := by
  have hgp1 : (t.upd n g).get? p = some pn := by rw [get?_upd_ne t g hg hpn]; exact hgp
  unfold BTree.unlink
  have hpo : t.parentOf n = p := by
    unfold BTree.parentOf
    simp only [get_of_get? hgn, hpar, hp0, if_false, hgp, Option.isSome_some, if_true]
  simp only [hpo, hp0, if_false, get_of_get? hgp, Node.hasChildren, hcs, Option.isSome_some, Bool.not_true,
    Bool.false_eq_true, hioc, get_of_get? hgp1, Option.getD_some]
  rw [if_neg (by omega)]
  rw [upd_upd (t.upd n g) p (fun x => x.setChild (i : Int).toNat 0) _ (fun _ => rfl)]
  have : (fun x : Node => if ((x.setChild (i : Int).toNat 0).isNilChildren) = true
      then { x.setChild (i : Int).toNat 0 with children := none } else x.setChild (i : Int).toNat 0) = dropKid i := by
    funext x; simp [dropKid]
  rw [this]


theorem dropKid_parent (i : Nat) (x : Node) : (dropKid i x).parent = x.parent := by unfold dropKid; split <;> rfl
theorem dropKid_count (i : Nat) (x : Node) : (dropKid i x).count = x.count := by unfold dropKid; split <;> rfl
theorem dropKid_slots (i : Nat) (x : Node) : (dropKid i x).slots = x.slots := by unfold dropKid; split <;> rfl
theorem dropKid_ion (i : Nat) (x : Node) : (dropKid i x).ion = x.ion := by unfold dropKid; split <;> rfl
theorem dropKid_items (i : Nat) (x : Node) : (dropKid i x).items = x.items := by
  unfold Node.items; rw [dropKid_slots, dropKid_count]

theorem kid_index_le {t : BTree} {pn : Node} {cs : Array NodeId} (hs : NodeShape t pn) (hcs : pn.children = some cs)
    {i : Nat} {n : NodeId} (hi : i < cs.size) (hci : cs.getD i 0 = n) (hn0 : n ≠ 0) : i ≤ pn.count := by
  rcases Nat.lt_or_ge pn.count i with h | h
  · exfalso
    have hz := (hs.2.2.2.2 cs hcs).2
    apply hn0
    rw [← hci]
    apply hz
    have : cs.getD i 0 = cs.toList[i]'(by simpa using hi) := by simp [Array.getD, hi]
    rw [this]
    apply List.mem_drop_iff_getElem.mpr
    exact ⟨i - (pn.count + 1), by simp; omega, by congr 1; omega⟩
  · exact h

theorem kids_getElem? {t : BTree} {pn : Node} {cs : Array NodeId} (hs : NodeShape t pn) (hcs : pn.children = some cs)
    {i : Nat} {n : NodeId} (hi : i < cs.size) (hci : cs.getD i 0 = n) (hn0 : n ≠ 0) : pn.kids[i]? = some n := by
  have hle := kid_index_le hs hcs hi hci hn0
  unfold Node.kids
  rw [hcs]
  simp only
  rw [List.getElem?_take, if_pos (by omega)]
  have : cs.getD i 0 = cs.toList[i]'(by simpa using hi) := by simp [Array.getD, hi]
  rw [← hci, this, List.getElem?_eq_getElem]

theorem dropKid_kids {t : BTree} {pn : Node} {cs : Array NodeId} (hs : NodeShape t pn) (hcs : pn.children = some cs)
    (i : Nat) : (dropKid i pn).kids = pn.kids.set i 0 := by
  have hsz := (hs.2.2.2.2 cs hcs).1
  have hc := hs.2.1
  have hk : pn.kids = cs.toList.take (pn.count + 1) := by unfold Node.kids; rw [hcs]
  rw [hk]
  unfold dropKid
  split
  · rename_i hnil
    simp only [Node.isNilChildren, Node.setChild, hcs, Option.map_some, Option.getD_some] at hnil
    show List.replicate (pn.count + 1) 0 = _
    rw [← List.take_set, ← Array.toList_setIfInBounds]
    symm
    apply List.eq_replicate_iff.mpr
    constructor
    · simp; omega
    · intro b hb
      have hb' := List.mem_of_mem_take hb
      have := Array.all_eq_true_iff_forall_mem.mp hnil b (Array.mem_def.mpr hb')
      simpa using this
  · unfold Node.kids
    simp only [Node.setChild, hcs, Option.map_some]
    rw [Array.toList_setIfInBounds, List.take_set]

theorem dropKid_shape {t : BTree} {pn : Node} {cs : Array NodeId} (hs : NodeShape t pn) (hcs : pn.children = some cs)
    {i : Nat} (hi : i ≤ pn.count) : NodeShape t (dropKid i pn) := by
  obtain ⟨h1, h2, h3, h4, h5⟩ := hs
  refine ⟨by rw [dropKid_slots]; exact h1, by rw [dropKid_count]; exact h2, by rw [dropKid_ion]; exact h3,
    by rw [dropKid_slots, dropKid_count]; exact h4, ?_⟩
  intro cs' hcs'
  rw [dropKid_count]
  unfold dropKid at hcs'
  split at hcs'
  · cases hcs'
  · simp only [Node.setChild, hcs, Option.map_some, Option.some.injEq] at hcs'
    subst hcs'
    have := h5 cs hcs
    refine ⟨by simpa using this.1, ?_⟩
    intro c hc
    rw [Array.toList_setIfInBounds, List.drop_set_of_lt (by omega)] at hc
    exact this.2 c hc


/-- from "the parent dropped its one-item leaf child `n`" (tree `T1`, same repository) to the tree `U` in which
    node `n` is also gone from the repository -/
theorem wf_after_drop (t T1 U : BTree) (n : NodeId) (x : Item) (hwf : WF t) (hr : t.root ≠ 0)
    (hsl1 : T1.sl = t.sl)
    (hstep : Step t T1 [x] [] [n] [] (t.nodes.length + 1) t.root 0 none none)
    (hslU : U.sl = t.sl) (hrootU : U.root = t.root) (hget : ∀ k, k ≠ n → U.get? k = T1.get? k)
    (hlen : U.nodes.length < t.nodes.length) (hcount : U.count = t.count - 1) :
    WF U ∧ U.nodes.length + 1 = t.nodes.length ∧ ∃ L R, t.abs = L ++ x :: R ∧ U.abs = L ++ R := by
  have hw := hwf
  unfold WF at hw
  simp only [hr, if_false] at hw
  obtain ⟨hsl0, hwt, hnd, hl, hc⟩ := hw
  obtain ⟨h1, h2, h3⟩ := hstep
  obtain ⟨hndR, hnR, hlenR⟩ := splice_drop_nodup h3 hnd
  have hfr := frame_out T1 U (by rw [hslU, hsl1]) _ _ _ _ _ h1 (fun k hk => hget k (fun hkn => hnR (hkn ▸ hk)))
  obtain ⟨hwU, habsU, hreachU⟩ := hfr
  -- the repository of `U` holds exactly the reachable nodes
  have hsub : reach T1 (t.nodes.length + 1) t.root ⊆ U.nodes.map (·.id) := by
    intro k hk
    rw [← hreachU] at hk
    obtain ⟨nd, hg⟩ := reach_get _ _ _ _ hk
    exact get?_mem_ids hg
  have hle := hndR.length_le_of_subset hsub
  rw [List.length_map] at hle
  have hN : U.nodes.length = (reach T1 (t.nodes.length + 1) t.root).length := by omega
  have hwU' : WFNode U (U.nodes.length + 1) t.root 0 none none := by
    have := WFNode.shrink U _ _ _ _ _ hwU
    rw [hreachU, ← hN] at this
    exact WFNode.le U this (Nat.le_succ _)
  have hreachU' : reach U (U.nodes.length + 1) t.root = reach T1 (t.nodes.length + 1) t.root := by
    rw [← hreachU]; exact (reach_le U hwU' (by omega)).symm
  have habsU' : absNode U (U.nodes.length + 1) t.root = absNode T1 (t.nodes.length + 1) t.root := by
    rw [← habsU]; exact (absNode_le U hwU' (by omega)).symm
  have hsp := splice_del h2
  refine ⟨?_, by omega, ?_⟩
  · unfold WF
    rw [hslU, hrootU]
    simp only [hr, if_false]
    refine ⟨hsl0, hwU', by rw [hreachU']; exact hndR, by rw [hreachU']; exact hN.symm, ?_⟩
    unfold BTree.abs
    rw [hrootU, habsU', hcount, hc]
    obtain ⟨L, R, e1, e2⟩ := hsp
    unfold BTree.abs
    rw [e1, e2]; simp; omega
  · unfold BTree.abs
    rw [hrootU, habsU']
    exact hsp

theorem del_sl (t : BTree) (n : NodeId) : (t.del n).sl = t.sl := by unfold BTree.del; split <;> rfl
theorem del_root (t : BTree) (n : NodeId) : (t.del n).root = t.root := by unfold BTree.del; split <;> rfl
theorem del_count (t : BTree) (n : NodeId) : (t.del n).count = t.count := by unfold BTree.del; split <;> rfl
theorem del_panicked (t : BTree) (n : NodeId) : (t.del n).panicked = t.panicked := by unfold BTree.del; split <;> rfl

theorem fixVacatedSlot_unlink (t : BTree) (n : NodeId) (cn : Node) (hget : t.get n = cn) (hneg : ¬ t.cur.idx < 0)
    (hone : cn.count = 1) (hpar : cn.parent ≠ 0) (hleaf : cn.children = none) :
    t.fixVacatedSlot n = t.unlink n := by
  unfold BTree.fixVacatedSlot
  have hr : (cn.parent == 0) = false := by simpa using hpar
  simp [hget, hneg, hone, Node.isRoot, hr, Node.isNilChildren, hleaf]

theorem kids_leaf_zero {nd : Node} (hleaf : nd.children = none) {i : Nat} {n : NodeId} (h : nd.kids[i]? = some n) : n = 0 := by
  unfold Node.kids at h
  rw [hleaf] at h
  simp only [List.getElem?_replicate] at h
  split at h
  · cases h; rfl
  · cases h

/-- NON-ROOT LEAF WITH ONE ITEM: `RemoveCurrentItem` unlinks the leaf (the parent's child entry becomes nil; the
    parent turns into a leaf when that was its last child) and drops the node from the repository. -/
theorem removeCurrent_unlink_ok (t : BTree) (hwf : WF t) (hp : t.panicked = false) (hc : CursorOn t)
    (hleaf : (t.get t.cur.node).children = none) (hone : (t.get t.cur.node).count = 1) (hnroot : t.cur.node ≠ t.root) :
    WF t.removeCurrent.1 ∧ t.removeCurrent.1.panicked = false ∧ t.removeCurrent.2 = .ok true ∧
    t.removeCurrent.1.cur = { node := 0, idx := 0, cached := false } ∧ t.removeCurrent.1.count = t.count - 1 ∧
    t.removeCurrent.1.nodes.length + 1 = t.nodes.length ∧
    ∃ L R, t.abs = L ++ t.curItem :: R ∧ t.removeCurrent.1.abs = L ++ R := by
  obtain ⟨cn, hgn, hcn, hid, hget, hi, hneg⟩ := hc.node
  rw [removeCurrent_leaf_eq t hwf hc hleaf]
  rw [hget] at hleaf hone
  have hr := root_ne_zero_of_reach hc.1
  have hn0 := reach_ne_zero _ _ _ _ hc.1
  have hw := hwf
  unfold WF at hw
  simp only [hr, if_false] at hw
  obtain ⟨hsl0, hwt, hnd, hl, hcnt⟩ := hw
  obtain ⟨p, pn, i0, hpin, hgp, hki, cn', hgn', hpar⟩ := parent_of_reach t _ _ _ _ _ _ hwt hc.1 hnroot
  rw [hgn] at hgn'; cases hgn'
  have hp0 := reach_ne_zero _ _ _ _ hpin
  obtain ⟨pn', hgp', hsp, _⟩ := wf_node_facts hwf hpin
  rw [hgp] at hgp'; cases hgp'
  obtain ⟨cn', hgn', hsn, _⟩ := wf_node_facts hwf hc.1
  rw [hgn] at hgn'; cases hgn'
  -- the parent has a children array, and is not the leaf itself
  obtain ⟨cs, hcs⟩ : ∃ cs, pn.children = some cs := by
    cases hch : pn.children with
    | none => exact absurd (kids_leaf_zero hch hki) hn0
    | some cs => exact ⟨cs, rfl⟩
  have hpn : p ≠ t.cur.node := by
    intro h
    rw [h, hgn] at hgp; cases hgp
    exact hn0 (kids_leaf_zero hleaf hki)
  have hsz := (hsp.2.2.2.2 cs hcs).1
  have hk : pn.kids = cs.toList.take (pn.count + 1) := by unfold Node.kids; rw [hcs]
  have hi0 : i0 < pn.count + 1 ∧ cs.toList[i0]? = some t.cur.node := by
    rw [hk, List.getElem?_take] at hki
    split at hki
    · exact ⟨by assumption, hki⟩
    · cases hki
  have hcj : cs.getD i0 0 = t.cur.node := by
    rw [Array.getD_eq_getD_getElem?, ← Array.getElem?_toList, hi0.2]; rfl
  obtain ⟨i, g, hg, hioc, hci, hilt⟩ := getIndexOfChild_spec t p t.cur.node pn cn cs hgp hgn hcs hsz hsp.1 hsn.2.2.1 hn0
    i0 (by have := hsp.2.1; omega) hcj
  have hile := kid_index_le hsp hcs hilt hci hn0
  rw [fixVacatedSlot_unlink t _ cn hget hneg hone (by rw [hpar]; exact hp0) hleaf,
    unlink_eq t p t.cur.node pn cn cs hgp hgn hpar hp0 hpn hcs i g hg hioc hilt]
  have hdk := dropKid_id i
  have hstep := ctx t (t.upd p (dropKid i)) p [cn.slot 0] [] [t.cur.node] [] rfl
    (fun k hk => get?_upd_ne t _ hdk hk)
    (dropKid_local t _ p t.cur.node pn (dropKid i pn) cn i rfl (fun k hk => get?_upd_ne t _ hdk hk) hgp
      (by rw [get?_upd_eq t _ _ hdk, hgp]; rfl) (dropKid_parent _ _) (dropKid_count _ _) (dropKid_items _ _)
      (dropKid_shape hsp hcs hile) (dropKid_kids hsp hcs i) (kids_getElem? hsp hcs hilt hci hn0) hn0 hgn hleaf hone)
    _ _ _ _ _ hwt hnd hpin
  have hgetU : ∀ k, k ≠ t.cur.node →
      (((t.upd t.cur.node g).upd p (dropKid i)).del t.cur.node).get? k = (t.upd p (dropKid i)).get? k := by
    intro k hk
    rw [get?_del _ hn0, if_neg hk, get?_upd _ _ _ _ hdk, get?_upd_ne t g hg hk, get?_upd _ _ _ _ hdk]
  have hlenU : (((t.upd t.cur.node g).upd p (dropKid i)).del t.cur.node).nodes.length < t.nodes.length := by
    have hgu : ((t.upd t.cur.node g).upd p (dropKid i)).get? t.cur.node = some (g cn) := by
      rw [get?_upd_ne _ _ hdk hpn.symm, get?_upd_eq t _ _ hg, hgn]; rfl
    have := del_length_lt _ hn0 hgu
    simpa using this
  have h := wf_after_drop t (t.upd p (dropKid i))
    { (((t.upd t.cur.node g).upd p (dropKid i)).del t.cur.node).setCur 0 0 with
        count := ((((t.upd t.cur.node g).upd p (dropKid i)).del t.cur.node).setCur 0 0).count - 1 }
    t.cur.node (cn.slot 0) hwf hr rfl hstep (del_sl _ _) (del_root _ _) hgetU hlenU
    (by show (BTree.del _ _).count - 1 = _; rw [del_count]; rfl)
  have hpos : t.cur.idx.toNat = 0 := by omega
  refine ⟨h.1, by show (BTree.del _ _).panicked = false; rw [del_panicked]; exact hp, rfl, rfl,
    by show (BTree.del _ _).count - 1 = _; rw [del_count]; rfl, ?_, ?_⟩
  · exact h.2.1
  · unfold BTree.curItem
    rw [hget, hpos]
    exact h.2.2

/-- LEAF REMOVAL, all three cases: `RemoveCurrentItem` with the cursor on an occupied slot of any leaf of a
    well-formed tree keeps the tree well-formed, does not panic, answers `true`, resets the cursor, decrements
    `Count`, and removes exactly the cursor's item from the in-order contents. -/
theorem removeCurrent_leaf_ok (t : BTree) (hwf : WF t) (hp : t.panicked = false) (hc : CursorOn t)
    (hleaf : (t.get t.cur.node).children = none) :
    WF t.removeCurrent.1 ∧ t.removeCurrent.1.panicked = false ∧ t.removeCurrent.2 = .ok true ∧
    t.removeCurrent.1.cur = { node := 0, idx := 0, cached := false } ∧ t.removeCurrent.1.count = t.count - 1 ∧
    ∃ L R, t.abs = L ++ t.curItem :: R ∧ t.removeCurrent.1.abs = L ++ R := by
  by_cases hmany : 1 < (t.get t.cur.node).count
  · exact removeCurrent_leaf_many_ok t hwf hp hc hleaf hmany
  · have hone : (t.get t.cur.node).count = 1 := by
      have := hc.2.1; have := hc.2.2; omega
    by_cases hroot : t.cur.node = t.root
    · exact removeCurrent_root_one_ok t hwf hp hc hleaf hone hroot
    · obtain ⟨h1, h2, h3, h4, h5, _, h7⟩ := removeCurrent_unlink_ok t hwf hp hc hleaf hone hroot
      exact ⟨h1, h2, h3, h4, h5, h7⟩

end Sop.BTree.Rem
