import Sop.Lemmas.BTreeRemove3
/-! C17, remove side of Model B, part 3: `removeItemOnNodeWithNilChild`. List-level meaning of the shifting
`moveElems` calls (`shift_toList`), monotonicity of the bounds of `WFNode` (`WFNode.mono`), the local step of an
inner node losing an item together with an adjacent nil child (`rnc_local`), the rewritten node (`rncNode_*`),
and `RemoveCurrentItem` on an inner node next to a nil child that keeps an item
(`removeCurrent_nilchild_many_ok`). -/
namespace Sop.BTree.Rem
open Sop.BTree
set_option linter.unusedVariables false
set_option linter.unusedSimpArgs false


theorem writeAt_getElem? {α : Type} (xs : List α) (dst : Array α) (off : Nat) (h : off + xs.length ≤ dst.size) (k : Nat) :
    (writeAt dst off xs).toList[k]? =
      if k < off then dst.toList[k]? else if k < off + xs.length then xs[k - off]? else dst.toList[k]? := by
  rw [writeAt_toList xs dst off h]
  have hl : (dst.toList.take off).length = off := by simp; omega
  by_cases h1 : k < off
  · rw [if_pos h1, List.append_assoc, List.getElem?_append_left (by omega), List.getElem?_take, if_pos h1]
  · rw [if_neg h1, List.append_assoc, List.getElem?_append_right (by omega), hl]
    by_cases h2 : k < off + xs.length
    · rw [if_pos h2, List.getElem?_append_left (by omega)]
    · rw [if_neg h2, List.getElem?_append_right (by omega), List.getElem?_drop]
      congr 1; omega

/-- "shift left over position `i` and pad": what `moveElems a i (i+1) m` followed by zeroing slot `c - 1` yields when
    everything from `c` on is already the zero value and the copied range reaches `c` -/
theorem shift_toList {α : Type} (a : Array α) (z : α) (i c : Nat) (m : Int) (hi : i < c) (hc : c ≤ a.size)
    (hm : (c : Int) ≤ i + 1 + m) (hz : ∀ k, c ≤ k → k < a.size → a.toList[k]? = some z) :
    ((moveElems a i (i + 1) m).setIfInBounds (c - 1) z).toList = a.toList.eraseIdx i ++ [z] := by
  have hlen : a.toList.length = a.size := by simp
  have hR : ∀ k, (a.toList.eraseIdx i ++ [z])[k]? =
      if k + 1 < a.size then (if k < i then a.toList[k]? else a.toList[k + 1]?) else if k + 1 = a.size then some z else none := by
    intro k
    have hle : (a.toList.eraseIdx i).length = a.size - 1 := by rw [List.length_eraseIdx]; simp; omega
    by_cases h1 : k + 1 < a.size
    · rw [if_pos h1, List.getElem?_append_left (by omega), List.getElem?_eraseIdx]
    · rw [if_neg h1]
      by_cases h2 : k + 1 = a.size
      · rw [if_pos h2, List.getElem?_append_right (by omega), hle]
        have : k - (a.size - 1) = 0 := by omega
        rw [this]; rfl
      · rw [if_neg h2]
        apply List.getElem?_eq_none
        simp; omega
  by_cases hg : m ≤ 0 ∨ i ≥ a.size ∨ i + 1 ≥ a.size
  · have hM : moveElems a i (i + 1) m = a := by unfold moveElems; rw [if_pos hg]
    rw [hM]
    apply List.ext_getElem?
    intro k
    rw [Array.toList_setIfInBounds, List.getElem?_set, hR]
    have hci : c = i + 1 := by omega
    subst hci
    simp only [Nat.add_sub_cancel, hlen]
    by_cases hk : i = k
    · subst hk
      rw [if_pos rfl, if_pos (by omega)]
      by_cases h1 : i + 1 < a.size
      · rw [if_pos h1, if_neg (Nat.lt_irrefl _), hz (i + 1) (Nat.le_refl _) h1]
      · rw [if_neg h1, if_pos (by omega)]
    · rw [if_neg hk]
      by_cases h1 : k + 1 < a.size
      · rw [if_pos h1]
        by_cases h2 : k < i
        · rw [if_pos h2]
        · rw [if_neg h2, hz k (by omega) (by omega), hz (k + 1) (by omega) h1]
      · rw [if_neg h1]
        by_cases h2 : k + 1 = a.size
        · rw [if_pos h2]; exact hz k (by omega) (by omega)
        · rw [if_neg h2]; apply List.getElem?_eq_none; omega
  · have hM : moveElems a i (i + 1) m
        = writeAt a i ((a.toList.drop (i + 1)).take (min (i + 1 + m.toNat) a.size - (i + 1))) := by
      unfold moveElems; rw [if_neg hg]; rfl
    rw [hM]
    have he : min (i + 1 + m.toNat) a.size - (i + 1) ≤ a.size - (i + 1) := by omega
    have hxl : ((a.toList.drop (i + 1)).take (min (i + 1 + m.toNat) a.size - (i + 1))).length
        = min (i + 1 + m.toNat) a.size - (i + 1) := by
      rw [List.length_take, List.length_drop, hlen]; omega
    have hsz : (writeAt a i ((a.toList.drop (i + 1)).take (min (i + 1 + m.toNat) a.size - (i + 1)))).toList.length = a.size := by
      rw [Array.length_toList, writeAt_size]
    apply List.ext_getElem?
    intro k
    rw [Array.toList_setIfInBounds, List.getElem?_set, hR, hsz, writeAt_getElem? _ _ _ (by rw [hxl]; omega), hxl]
    by_cases hk : c - 1 = k
    · subst hk
      rw [if_pos rfl, if_pos (by omega)]
      by_cases h1 : c - 1 + 1 < a.size
      · rw [if_pos h1, if_neg (by omega), hz (c - 1 + 1) (by omega) h1]
      · rw [if_neg h1, if_pos (by omega)]
    · rw [if_neg hk]
      by_cases h0 : k < i
      · rw [if_pos h0, if_pos (by omega), if_pos h0]
      · rw [if_neg h0]
        by_cases h1 : k < i + (min (i + 1 + m.toNat) a.size - (i + 1))
        · rw [if_pos h1, List.getElem?_take, if_pos (by omega), List.getElem?_drop, if_pos (by omega), if_neg h0]
          congr 1; omega
        · rw [if_neg h1]
          -- k ≥ c - 1 here, and k ≠ c - 1, so k ≥ c: both sides are the zero value (or out of range)
          by_cases h2 : k + 1 < a.size
          · rw [if_pos h2, if_neg h0, hz k (by omega) (by omega), hz (k + 1) (by omega) h2]
          · rw [if_neg h2]
            by_cases h3 : k + 1 = a.size
            · rw [if_pos h3]; exact hz k (by omega) (by omega)
            · rw [if_neg h3]; apply List.getElem?_eq_none; omega


/-! ### bounds are monotone -/

def LoLe (lo lo' : Option Int) : Prop := ∀ k, LeO lo k → LeO lo' k
def HiLe (hi hi' : Option Int) : Prop := ∀ k, OLe k hi → OLe k hi'

theorem LoLe.refl (lo : Option Int) : LoLe lo lo := fun _ h => h
theorem HiLe.refl (hi : Option Int) : HiLe hi hi := fun _ h => h
theorem LoLe.of_le {lo : Option Int} {k : Int} (h : LeO lo k) : LoLe (some k) lo :=
  fun k' hk' => h.trans (hk' _ rfl)
theorem HiLe.of_le {hi : Option Int} {k : Int} (h : OLe k hi) : HiLe (some k) hi :=
  fun k' hk' => OLe.trans' (hk' _ rfl) h
theorem HiLe.some {a b : Int} (h : a ≤ b) : HiLe (some a) (some b) :=
  fun k hk => by intro x hx; cases hx; exact Int.le_trans (hk _ rfl) h

theorem ItemsOk.mono {lo lo' hi hi' : Option Int} (hl : LoLe lo lo') (hh : HiLe hi hi') :
    ∀ (l : List Item), ItemsOk lo hi l → ItemsOk lo' hi' l
  | [], _ => trivial
  | a :: l, h => ⟨hl _ h.1, hh _ h.2.1, h.2.2.1, ItemsOk.mono (LoLe.refl _) hh l h.2.2.2⟩

theorem KidsOk.mono {P Q : NodeId → Option Int → Option Int → Prop}
    (hPQ : ∀ c l l' h h', LoLe l l' → HiLe h h' → P c l h → Q c l' h') :
    ∀ (cs : List NodeId) (is : List Item) (lo lo' hi hi' : Option Int), LoLe lo lo' → HiLe hi hi' →
      KidsOk P lo hi cs is → KidsOk Q lo' hi' cs is
  | [], _, _, _, _, _, _, _, _ => trivial
  | c :: cs, [], lo, lo', hi, hi', hl, hh, h => ⟨h.1.imp id (hPQ _ _ _ _ _ hl hh), h.2⟩
  | c :: cs, a :: is, lo, lo', hi, hi', hl, hh, h =>
    ⟨h.1.imp id (hPQ _ _ _ _ _ hl (HiLe.refl _)), hl _ h.2.1, hh _ h.2.2.1, h.2.2.2.1,
      KidsOk.mono hPQ cs is _ _ _ _ (LoLe.refl _) hh h.2.2.2.2⟩

theorem WFNode.mono (t : BTree) : ∀ (f : Nat) (n p : NodeId) (lo lo' hi hi' : Option Int), LoLe lo lo' → HiLe hi hi' →
    WFNode t f n p lo hi → WFNode t f n p lo' hi'
  | 0, _, _, _, _, _, _, _, _, h => absurd h (by simp [WFNode])
  | f + 1, n, p, lo, lo', hi, hi', hl, hh, h => by
    obtain ⟨hn, nd, hg, hp, hs, hne, hbody⟩ := h
    refine ⟨hn, nd, hg, hp, hs, hne, ?_⟩
    cases hc : nd.children with
    | none => rw [hc] at hbody; exact ItemsOk.mono hl hh _ hbody
    | some cs =>
      rw [hc] at hbody
      exact KidsOk.mono (fun c l l' h h' hl' hh' hw => WFNode.mono t f c n l l' h h' hl' hh' hw) _ _ _ _ _ _ hl hh hbody

/-! ### a node loses item `i` together with the nil kid at `i` or `i + 1` -/

theorem KidsOk.erase {P : NodeId → Option Int → Option Int → Prop}
    (hP : ∀ c l l' h h', LoLe l l' → HiLe h h' → P c l h → P c l' h') :
    ∀ (i j : Nat) (cs : List NodeId) (is : List Item) (lo hi : Option Int), (j = i ∨ j = i + 1) → cs[j]? = some 0 →
      i < is.length → cs.length = is.length + 1 → KidsOk P lo hi cs is → KidsOk P lo hi (cs.eraseIdx j) (is.eraseIdx i)
  | _, _, _, [], _, _, _, _, hi', _, _ => by simp at hi'
  | _, _, [], _ :: _, _, _, _, _, _, hl, _ => by simp at hl
  | 0, j, c :: cs, a :: is, lo, hi, hj, hz, _, hl, h => by
    obtain ⟨h1, h2, h3, h4, h5⟩ := h
    rcases hj with rfl | rfl
    · -- the nil kid is the one left of the item
      simp only [List.eraseIdx_cons_zero]
      exact KidsOk.mono hP _ _ _ _ _ _ (LoLe.of_le h2) (HiLe.refl _) h5
    · -- the nil kid is the one right of the item
      cases cs with
      | nil => simp at hl
      | cons c1 cs =>
        simp only [List.getElem?_cons_succ, List.getElem?_cons_zero, Option.some.injEq] at hz
        subst hz
        simp only [List.eraseIdx_cons_succ, List.eraseIdx_cons_zero]
        cases is with
        | nil =>
          obtain ⟨_, h6⟩ := h5
          exact ⟨h1.imp id (hP _ _ _ _ _ (LoLe.refl _) (HiLe.of_le h3)), h6⟩
        | cons b is =>
          obtain ⟨_, g2, g3, g4, g5⟩ := h5
          have hab : a.key ≤ b.key := g2 _ rfl
          exact ⟨h1.imp id (hP _ _ _ _ _ (LoLe.refl _) (HiLe.some hab)), h2.trans hab, g3, g4, g5⟩
  | i + 1, j, c :: cs, a :: is, lo, hi, hj, hz, hi', hl, h => by
    obtain ⟨h1, h2, h3, h4, h5⟩ := h
    have hj' : ∃ j', j = j' + 1 ∧ (j' = i ∨ j' = i + 1) := by
      rcases hj with rfl | rfl
      · exact ⟨i, rfl, Or.inl rfl⟩
      · exact ⟨i + 1, rfl, Or.inr rfl⟩
    obtain ⟨j', rfl, hj''⟩ := hj'
    simp only [List.eraseIdx_cons_succ]
    exact ⟨h1, h2, h3, h4, KidsOk.erase hP i j' cs is _ _ hj'' (by simpa using hz) (by simpa using hi') (by simpa using hl) h5⟩

theorem weave_erase (g : NodeId → List Item) (g0 : g 0 = []) :
    ∀ (i j : Nat) (cs : List NodeId) (is : List Item) (x : Item), (j = i ∨ j = i + 1) → cs[j]? = some 0 →
      is[i]? = some x → cs.length = is.length + 1 → Splice [x] [] (weave g cs is) (weave g (cs.eraseIdx j) (is.eraseIdx i))
  | _, _, _, [], _, _, _, hx, _ => by simp at hx
  | _, _, [], _ :: _, _, _, _, _, hl => by simp at hl
  | 0, j, c :: cs, a :: is, x, hj, hz, hx, hl => by
    simp only [List.getElem?_cons_zero, Option.some.injEq] at hx
    subst hx
    rcases hj with rfl | rfl
    · simp only [List.getElem?_cons_zero, Option.some.injEq] at hz
      subst hz
      simp only [List.eraseIdx_cons_zero, weave, g0, List.nil_append]
      exact ⟨[], weave g cs is, by simp, by simp⟩
    · cases cs with
      | nil => simp at hl
      | cons c1 cs =>
        simp only [List.getElem?_cons_succ, List.getElem?_cons_zero, Option.some.injEq] at hz
        subst hz
        simp only [List.eraseIdx_cons_succ, List.eraseIdx_cons_zero]
        cases is with
        | nil => simp only [weave, g0, List.nil_append]; exact ⟨g c, weave g cs [], by simp, by simp⟩
        | cons b is => simp only [weave, g0, List.nil_append]; exact ⟨g c, b :: weave g cs is, by simp, by simp⟩
  | i + 1, j, c :: cs, a :: is, x, hj, hz, hx, hl => by
    have hj' : ∃ j', j = j' + 1 ∧ (j' = i ∨ j' = i + 1) := by
      rcases hj with rfl | rfl
      · exact ⟨i, rfl, Or.inl rfl⟩
      · exact ⟨i + 1, rfl, Or.inr rfl⟩
    obtain ⟨j', rfl, hj''⟩ := hj'
    simp only [List.eraseIdx_cons_succ, weave]
    exact ((weave_erase g g0 i j' cs is x hj'' (by simpa using hz) (by simpa using hx) (by simpa using hl)).cons a).pre _

theorem flatMap_erase_zero {β : Type} (r : NodeId → List β) (r0 : r 0 = []) :
    ∀ (j : Nat) (cs : List NodeId), cs[j]? = some 0 → (cs.eraseIdx j).flatMap r = cs.flatMap r
  | _, [], h => by simp at h
  | 0, c :: cs, h => by
    simp only [List.getElem?_cons_zero, Option.some.injEq] at h
    subst h; simp [r0]
  | j + 1, c :: cs, h => by
    simp only [List.eraseIdx_cons_succ, List.flatMap_cons]
    rw [flatMap_erase_zero r r0 j cs (by simpa using h)]


/-- the local step of "an inner node loses item `i` together with its nil kid at `i` or `i + 1`" -/
theorem rnc_local (t t' : BTree) (n : NodeId) (nd nd' : Node) (i j : Nat) (hsl : t'.sl = t.sl)
    (hout : ∀ k, k ≠ n → t'.get? k = t.get? k)
    (hg : t.get? n = some nd) (hg' : t'.get? n = some nd') (hpar : nd'.parent = nd.parent)
    (hshape : NodeShape t nd') (hne : nd.parent = 0 ∨ 1 ≤ nd'.count) (hi : i < nd.count)
    (hj : j = i ∨ j = i + 1) (hz : nd.kids[j]? = some 0)
    (hitems : nd'.items = nd.items.eraseIdx i) (hkids : nd'.kids = nd.kids.eraseIdx j) :
    ∀ f p lo hi, WFNode t f n p lo hi → (reach t f n).Nodup → Step t t' [nd.slot i] [] [n] [n] f n p lo hi
  | 0, _, _, _, h, _ => absurd h (by simp [WFNode])
  | f + 1, q, lo, hi', h, hnd => by
    obtain ⟨hp0, hq, hs, hne0, hk⟩ := wfNode_kids h hg
    have hkf := kids_frame t t' n hsl hout hp0 hg hnd
    have hframe : ∀ c ∈ nd.kids.eraseIdx j, absNode t' f c = absNode t f c ∧ reach t' f c = reach t f c := by
      intro c hc
      have hc' : c ∈ nd.kids := List.mem_of_mem_eraseIdx hc
      by_cases hc0 : c = 0
      · subst hc0; simp [absNode_zero, reach_zero]
      · rcases KidsOk.mem _ _ _ _ hk c hc' with h | ⟨l, h', hw⟩
        · exact absurd h hc0
        · exact (hkf c (mem_kids hc' hc0) l h' hw).2
    have hil : i < nd.items.length := by rw [Node.items_length hs]; exact hi
    have hlen : nd.kids.length = nd.items.length + 1 := by rw [Node.kids_length hs, Node.items_length hs]
    refine ⟨?_, ?_, ?_⟩
    · refine wfNode_of_kids hp0 hg' (by rw [hpar, hq]) (nodeShape_sl hsl hshape) (by rw [← hq]; exact hne) ?_
      rw [hkids, hitems]
      refine KidsOk.imp_mem _ _ _ _ ?_
        (KidsOk.erase (fun c l l' h h' hl hh hw => WFNode.mono t f c n l l' h h' hl hh hw) i j _ _ _ _ hj hz hil hlen hk)
      intro c hc l h' hw
      have hc0 : c ≠ 0 := by
        cases f with
        | zero => exact absurd hw (by simp [WFNode])
        | succ f => exact hw.1
      exact (hkf c (mem_kids (List.mem_of_mem_eraseIdx hc) hc0) l h' hw).1
    · rw [absNode_kids f hp0 hg hs, absNode_kids f hp0 hg' (nodeShape_sl hsl hshape), hkids, hitems]
      rw [weave_congr (g := absNode t' f) (g' := absNode t f) _ _ (fun c hc => (hframe c hc).1)]
      exact weave_erase _ (absNode_zero t f) i j _ _ _ hj hz (items_getElem? hs hi) hlen
    · rw [reach_kids f hp0 hg, reach_kids f hp0 hg', hkids]
      rw [flatMap_congr' (f := reach t' f) (g := reach t f) _ (fun c hc => (hframe c hc).2)]
      rw [flatMap_erase_zero _ (reach_zero t f) j _ hz]
      exact ⟨[], _, rfl, rfl⟩

/-! ### list helpers: erase inside the occupied prefix, pad at the end -/

theorem eraseIdx_pad_take {α : Type} (l : List α) (z : α) (i c : Nat) (hi : i < c) (hc : c ≤ l.length) :
    (l.eraseIdx i ++ [z]).take (c - 1) = (l.take c).eraseIdx i := by
  have h1 : l.eraseIdx i = (l.take c).eraseIdx i ++ l.drop c := by
    conv => lhs; rw [← List.take_append_drop c l]
    rw [List.eraseIdx_append_of_lt_length (by simp; omega)]
  have h2 : ((l.take c).eraseIdx i).length = c - 1 := by
    rw [List.length_eraseIdx, List.length_take, Nat.min_eq_left hc, if_pos hi]
  rw [h1, List.append_assoc, List.take_append_of_le_length (by omega), List.take_of_length_le (by omega)]

theorem eraseIdx_pad_drop {α : Type} (l : List α) (z : α) (i c : Nat) (hi : i < c) (hc : c ≤ l.length) :
    (l.eraseIdx i ++ [z]).drop (c - 1) = l.drop c ++ [z] := by
  have h1 : l.eraseIdx i = (l.take c).eraseIdx i ++ l.drop c := by
    conv => lhs; rw [← List.take_append_drop c l]
    rw [List.eraseIdx_append_of_lt_length (by simp; omega)]
  have h2 : ((l.take c).eraseIdx i).length = c - 1 := by
    rw [List.length_eraseIdx, List.length_take, Nat.min_eq_left hc, if_pos hi]
  rw [h1, List.append_assoc, List.drop_append_of_le_length (by omega), List.drop_of_length_le (by omega)]
  rfl


def rncSlots (nd : Node) (index : Nat) : Array Item :=
  (moveElems nd.slots index (index + 1) ((nd.count : Int) - index)).setIfInBounds (nd.count - 1) {}

def rncKids (nd : Node) (index : Nat) : Array NodeId :=
  (if nd.child index == 0 then moveElems (nd.children.getD #[]) index (index + 1) ((nd.count : Int) - index + 1)
   else moveElems (nd.children.getD #[]) (index + 1) (index + 2) ((nd.count : Int) - index + 1)).setIfInBounds nd.count 0

def rncNode (nd : Node) (index : Nat) : Node :=
  { nd with slots := rncSlots nd index, children := some (rncKids nd index), count := nd.count - 1 }

/-- the tail of `removeItemOnNodeWithNilChild` after the node has been rewritten -/
def rncTail (t : BTree) (n : NodeId) (nd : Node) (index : Nat) : Option (BTree × Ret) :=
  let kids := rncKids nd index
  let cnt := nd.count - 1
  if cnt = 0 ∧ kids.getD 0 0 ≠ 0 then
    if nd.isRoot then
      let ncId := t.childOf n 0
      if ncId = 0 then some (t, .err)
      else
        let nc := t.get ncId
        let t := t.upd n (fun x => { x with slots := goCopy x.slots 0 nc.slots 0 nc.slots.size, count := nc.count })
        let t :=
          if nc.hasChildren then
            let t := t.upd n (fun x => { x with children := some (goCopy kids 0 (nc.children.getD #[]) 0 (nc.children.getD #[]).size) })
            t.updateChildrenParent n ((t.get n).children.getD #[])
          else
            let t := t.upd n (fun x => x.setChild 0 0)
            t.upd n (fun x => if x.isNilChildren then { x with children := none } else x)
        some (t.del ncId, .ok true)
    else
      match t.promoteSingleChild n with
      | none => some (t, .err)
      | some t => some (t, .ok true)
  else if cnt = 0 then some (t.unlink n, .ok true)
  else some (t, .ok true)

theorem rnc_eq (t : BTree) (n : NodeId) (index : Nat) (nd : Node) (hget : t.get n = nd) (hch : nd.children.isSome = true)
    (hnil : nd.child index = 0 ∨ nd.child (index + 1) = 0) (hi : index < nd.count) :
    t.removeItemOnNodeWithNilChild n index =
      rncTail (t.upd n (fun x => { x with slots := rncSlots nd index, children := some (rncKids nd index), count := nd.count - 1 }))
        n nd index := by
  unfold BTree.removeItemOnNodeWithNilChild
  have hcond : (!nd.hasChildren || (nd.child index != 0 && nd.child (index + 1) != 0)) = false := by
    rcases hnil with h | h <;> simp [Node.hasChildren, hch, h]
  simp only [hget, hcond, Bool.false_eq_true, if_false, hi, if_true]
  by_cases h0 : nd.child index = 0
  · simp only [h0, beq_self_eq_true, if_true]
    unfold rncTail rncKids rncSlots
    simp only [h0, beq_self_eq_true, if_true]
    rfl
  · have h0' : (nd.child index == 0) = false := by simpa using h0
    simp only [h0', Bool.false_eq_true, if_false]
    unfold rncTail rncKids rncSlots
    simp only [h0', Bool.false_eq_true, if_false]
    rfl


theorem tail_getElem? {α : Type} {l : List α} {z : α} {c : Nat} (h : ∀ x ∈ l.drop c, x = z) :
    ∀ k, c ≤ k → k < l.length → l[k]? = some z := by
  intro k hck hk
  rw [List.getElem?_eq_getElem hk]
  congr 1
  apply h
  apply List.mem_drop_iff_getElem.mpr
  exact ⟨k - c, by omega, by congr 1; omega⟩

theorem rncSlots_toList {t : BTree} {nd : Node} (hs : NodeShape t nd) {index : Nat} (hi : index < nd.count) :
    (rncSlots nd index).toList = nd.slots.toList.eraseIdx index ++ [({} : Item)] := by
  have hc : nd.count ≤ nd.slots.size := by rw [hs.1]; exact hs.2.1
  unfold rncSlots
  exact shift_toList nd.slots {} index nd.count _ hi hc (by omega)
    (fun k h1 h2 => tail_getElem? hs.2.2.2.1 k h1 (by simpa using h2))

/-- the position of the nil kid that goes away with item `index` -/
def nilPos (nd : Node) (index : Nat) : Nat := if nd.child index == 0 then index else index + 1

theorem rncKids_toList {t : BTree} {nd : Node} {cs : Array NodeId} (hs : NodeShape t nd) (hcs : nd.children = some cs)
    {index : Nat} (hi : index < nd.count) :
    (rncKids nd index).toList = cs.toList.eraseIdx (nilPos nd index) ++ [0] := by
  obtain ⟨hsz, htail⟩ := hs.2.2.2.2 cs hcs
  have hc := hs.2.1
  have hz : ∀ k, nd.count + 1 ≤ k → k < cs.size → cs.toList[k]? = some 0 :=
    fun k h1 h2 => tail_getElem? htail k h1 (by simpa using h2)
  unfold rncKids nilPos
  rw [hcs]
  simp only [Option.getD_some]
  by_cases h0 : nd.child index = 0
  · simp only [h0, beq_self_eq_true, if_true]
    have := shift_toList cs 0 index (nd.count + 1) ((nd.count : Int) - index + 1) (by omega) (by omega) (by omega) hz
    simpa using this
  · have h0' : (nd.child index == 0) = false := by simpa using h0
    simp only [h0', Bool.false_eq_true, if_false]
    have := shift_toList cs 0 (index + 1) (nd.count + 1) ((nd.count : Int) - index + 1) (by omega) (by omega)
      (by push_cast; omega) hz
    simpa using this

theorem rncNode_items {t : BTree} {nd : Node} (hs : NodeShape t nd) {index : Nat} (hi : index < nd.count) :
    (rncNode nd index).items = nd.items.eraseIdx index := by
  have hc : nd.count ≤ nd.slots.size := by rw [hs.1]; exact hs.2.1
  unfold Node.items rncNode
  simp only
  rw [rncSlots_toList hs hi, eraseIdx_pad_take _ _ _ _ hi (by simpa using hc)]

theorem rncNode_kids {t : BTree} {nd : Node} {cs : Array NodeId} (hs : NodeShape t nd) (hcs : nd.children = some cs)
    {index : Nat} (hi : index < nd.count) : (rncNode nd index).kids = nd.kids.eraseIdx (nilPos nd index) := by
  obtain ⟨hsz, htail⟩ := hs.2.2.2.2 cs hcs
  have hc := hs.2.1
  have hk : nd.kids = cs.toList.take (nd.count + 1) := by unfold Node.kids; rw [hcs]
  have hj : nilPos nd index < nd.count + 1 := by unfold nilPos; split <;> omega
  rw [hk]
  unfold Node.kids rncNode
  simp only
  rw [rncKids_toList hs hcs hi]
  have : nd.count - 1 + 1 = nd.count + 1 - 1 := by omega
  rw [this, eraseIdx_pad_take _ _ _ _ hj (by simp; omega)]

theorem rncNode_shape {t : BTree} {nd : Node} {cs : Array NodeId} (hs : NodeShape t nd) (hcs : nd.children = some cs)
    {index : Nat} (hi : index < nd.count) : NodeShape t (rncNode nd index) := by
  obtain ⟨hsz, htail⟩ := hs.2.2.2.2 cs hcs
  have hc : nd.count ≤ nd.slots.size := by rw [hs.1]; exact hs.2.1
  have hj : nilPos nd index < nd.count + 1 := by unfold nilPos; split <;> omega
  obtain ⟨h1, h2, h3, h4, h5⟩ := hs
  refine ⟨?_, by simp [rncNode]; omega, h3, ?_, ?_⟩
  · have := congrArg List.length (rncSlots_toList ⟨h1, h2, h3, h4, h5⟩ hi)
    simp only [Array.length_toList, List.length_append, List.length_eraseIdx, List.length_singleton] at this
    simp only [rncNode]
    rw [this, if_pos (by omega)]; omega
  · intro y hy
    simp only [rncNode] at hy
    rw [rncSlots_toList ⟨h1, h2, h3, h4, h5⟩ hi, eraseIdx_pad_drop _ _ _ _ hi (by simpa using hc)] at hy
    rcases List.mem_append.mp hy with hy | hy
    · exact h4 y hy
    · simpa using hy
  · intro cs' hcs'
    simp only [rncNode, Option.some.injEq] at hcs'
    subst hcs'
    constructor
    · have := congrArg List.length (rncKids_toList ⟨h1, h2, h3, h4, h5⟩ hcs hi)
      simp only [Array.length_toList, List.length_append, List.length_eraseIdx, List.length_singleton] at this
      rw [this, if_pos (by omega)]; omega
    · intro c hc'
      simp only [rncNode] at hc'
      have e : nd.count - 1 + 1 = nd.count + 1 - 1 := by omega
      rw [rncKids_toList ⟨h1, h2, h3, h4, h5⟩ hcs hi, e, eraseIdx_pad_drop _ _ _ _ hj (by simp; omega)] at hc'
      rcases List.mem_append.mp hc' with hy | hy
      · exact htail c hy
      · simpa using hy

theorem nilPos_spec {t : BTree} {nd : Node} (hs : NodeShape t nd) {index : Nat} (hi : index < nd.count)
    (hnil : nd.child index = 0 ∨ nd.child (index + 1) = 0) :
    (nilPos nd index = index ∨ nilPos nd index = index + 1) ∧ nd.kids[nilPos nd index]? = some 0 := by
  have hl := Node.kids_length hs
  unfold nilPos
  by_cases h0 : nd.child index = 0
  · simp only [h0, beq_self_eq_true, if_true]
    refine ⟨by simp, ?_⟩
    have := Node.kids_getD hs (show index ≤ nd.count by omega)
    rw [h0, List.getD_eq_getElem?_getD, List.getElem?_eq_getElem (by omega)] at this
    rw [List.getElem?_eq_getElem (by omega)]
    simpa using this
  · have h0' : (nd.child index == 0) = false := by simpa using h0
    have h1 : nd.child (index + 1) = 0 := by rcases hnil with h | h; exact absurd h h0; exact h
    simp only [h0', Bool.false_eq_true, if_false]
    refine ⟨by simp, ?_⟩
    have := Node.kids_getD hs (show index + 1 ≤ nd.count by omega)
    rw [h1, List.getD_eq_getElem?_getD, List.getElem?_eq_getElem (by omega)] at this
    rw [List.getElem?_eq_getElem (by omega)]
    simpa using this


/-- `RemoveCurrentItem` when `removeItemOnNodeWithNilChild` handles the cursor's inner node -/
theorem removeCurrent_of_rnc (t : BTree) (hwf : WF t) (hc : CursorOn t)
    (hch : (t.get t.cur.node).children.isSome = true) (t' : BTree)
    (h : t.removeItemOnNodeWithNilChild t.cur.node t.cur.idx.toNat = some (t', .ok true)) :
    t.removeCurrent = ({ t'.setCur 0 0 with count := t'.count - 1 }, .ok true) := by
  obtain ⟨nd, hg, hcn, hid, hget, hi, hneg⟩ := hc.node
  have hr := root_ne_zero_of_reach hc.1
  have hw := hwf
  unfold WF at hw
  simp only [hr, if_false] at hw
  obtain ⟨f', p', lo', hi', _, hwn⟩ := wfNode_of_reach t _ _ _ _ _ _ hw.2.1 hc.1
  have hlive := slot_live hwn hg hi
  rw [hget] at hch
  unfold BTree.removeCurrent
  rw [hcn]
  simp only [hneg, if_false, hlive, Node.hasChildren, hch, if_true, hid, h]

/-- the node rewrite of `removeItemOnNodeWithNilChild` as a heap update -/
def rncUpd (nd : Node) (index : Nat) (x : Node) : Node :=
  { x with slots := rncSlots nd index, children := some (rncKids nd index), count := nd.count - 1 }

theorem rncUpd_self (nd : Node) (index : Nat) : rncUpd nd index nd = rncNode nd index := rfl

/-- INNER NODE, NIL NEIGHBOUR, NO UNDERFLOW: `RemoveCurrentItem` with the cursor on an occupied slot of an inner
    node one of whose adjacent children is nil and that keeps at least one item. -/
theorem removeCurrent_nilchild_many_ok (t : BTree) (hwf : WF t) (hp : t.panicked = false) (hc : CursorOn t)
    (hch : (t.get t.cur.node).children.isSome = true)
    (hnil : (t.get t.cur.node).child t.cur.idx.toNat = 0 ∨ (t.get t.cur.node).child (t.cur.idx.toNat + 1) = 0)
    (hmany : 1 < (t.get t.cur.node).count) :
    WF t.removeCurrent.1 ∧ t.removeCurrent.1.panicked = false ∧ t.removeCurrent.2 = .ok true ∧
    t.removeCurrent.1.cur = { node := 0, idx := 0, cached := false } ∧ t.removeCurrent.1.count = t.count - 1 ∧
    ∃ L R, t.abs = L ++ t.curItem :: R ∧ t.removeCurrent.1.abs = L ++ R := by
  obtain ⟨nd, hg, hcn, hid, hget, hi, hneg⟩ := hc.node
  have hrnc : t.removeItemOnNodeWithNilChild t.cur.node t.cur.idx.toNat
      = some (t.upd t.cur.node (rncUpd nd t.cur.idx.toNat), .ok true) := by
    rw [rnc_eq t _ _ nd hget (by rw [← hget]; exact hch) (by rw [← hget]; exact hnil) hi]
    unfold rncTail
    rw [hget] at hmany
    simp only [show ¬ (nd.count - 1 = 0) by omega, false_and, if_false]
    rfl
  rw [removeCurrent_of_rnc t hwf hc hch _ hrnc]
  rw [hget] at hch hnil hmany
  obtain ⟨nd0, hg0, hs, _⟩ := wf_node_facts hwf hc.1
  rw [hg] at hg0; cases hg0
  obtain ⟨cs, hcs⟩ : ∃ cs, nd.children = some cs := by
    cases h : nd.children with
    | none => rw [h] at hch; simp at hch
    | some cs => exact ⟨cs, rfl⟩
  have hidp : ∀ x : Node, (rncUpd nd t.cur.idx.toNat x).id = x.id := fun _ => rfl
  obtain ⟨hj, hz⟩ := nilPos_spec hs hi hnil
  have h := wf_of_ctx t
    { (t.upd t.cur.node (rncUpd nd t.cur.idx.toNat)).setCur 0 0 with count := t.count - 1 }
    t.cur.node [nd.slot t.cur.idx.toNat] [] hwf hc.1 rfl rfl (by simp [BTree.setCur])
    (fun k hk => get?_upd_ne t _ hidp hk)
    (rnc_local t _ t.cur.node nd (rncNode nd t.cur.idx.toNat) t.cur.idx.toNat (nilPos nd t.cur.idx.toNat) rfl
      (fun k hk => get?_upd_ne t _ hidp hk) hg
      (by show (t.upd _ _).get? _ = _; rw [get?_upd_eq t _ _ hidp, hg]; rfl)
      rfl (rncNode_shape hs hcs hi) (Or.inr (by simp [rncNode]; omega)) hi hj hz (rncNode_items hs hi)
      (rncNode_kids hs hcs hi))
    (by simp)
  refine ⟨h.1, hp, rfl, rfl, rfl, ?_⟩
  unfold BTree.curItem
  rw [hget]
  exact splice_del h.2

end Sop.BTree.Rem
