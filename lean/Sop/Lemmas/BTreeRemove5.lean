import Sop.Lemmas.BTreeRemove4
/-! C17, remove side of Model B, part 4: the inner root that loses its last item and has no live child
(`removeCurrent_nilchild_root_last_ok`); well-formedness up to `count` (`WFs`) and `fixVacatedSlot` on it
(`fix_leaf`); the minimum of a subtree (`WFNode.lo_tighten`), the copy-up step (`succ_local`), `descendRight`
to the leftmost node (`descendRight_leftmost`, `moveToNext_inner`), and `RemoveCurrentItem` on an inner node
whose in-order successor sits in a leaf (`removeCurrent_succ_leaf_ok`, `removeCurrent_succ_leaf_perm`). -/
namespace Sop.BTree.Rem
open Sop.BTree
set_option linter.unusedVariables false
set_option linter.unusedSimpArgs false


/-- the kid that survives in position 0 of the rewritten node -/
theorem rncKids_getD0 {t : BTree} {nd : Node} {cs : Array NodeId} (hs : NodeShape t nd) (hcs : nd.children = some cs)
    {index : Nat} (hi : index < nd.count) :
    (rncKids nd index).getD 0 0 = (nd.kids.eraseIdx (nilPos nd index)).getD 0 0 := by
  have h1 : (rncKids nd index).getD 0 0 = (rncNode nd index).child 0 := rfl
  rw [h1, ← Node.kids_getD (rncNode_shape hs hcs hi) (Nat.zero_le _), rncNode_kids hs hcs hi]

theorem unlink_root (t : BTree) (n : NodeId) (h : (t.get n).parent = 0) : t.unlink n = t := by
  unfold BTree.unlink BTree.parentOf
  simp [h]

/-- INNER ROOT WITH ONE ITEM AND NO LIVE CHILD: `RemoveCurrentItem` empties the root (it keeps its all-nil
    children array). -/
theorem removeCurrent_nilchild_root_last_ok (t : BTree) (hwf : WF t) (hp : t.panicked = false) (hc : CursorOn t)
    (hch : (t.get t.cur.node).children.isSome = true) (hone : (t.get t.cur.node).count = 1)
    (h0 : (t.get t.cur.node).child 0 = 0) (h1 : (t.get t.cur.node).child 1 = 0) (hroot : t.cur.node = t.root) :
    WF t.removeCurrent.1 ∧ t.removeCurrent.1.panicked = false ∧ t.removeCurrent.2 = .ok true ∧
    t.removeCurrent.1.cur = { node := 0, idx := 0, cached := false } ∧ t.removeCurrent.1.count = t.count - 1 ∧
    ∃ L R, t.abs = L ++ t.curItem :: R ∧ t.removeCurrent.1.abs = L ++ R := by
  obtain ⟨nd, hg, hcn, hid, hget, hi, hneg⟩ := hc.node
  rw [hget] at hch hone h0 h1
  have hpos : t.cur.idx.toNat = 0 := by omega
  obtain ⟨nd0, hg0, hs, hpar⟩ := wf_node_facts hwf hc.1
  rw [hg] at hg0; cases hg0
  have hpar := hpar hroot
  obtain ⟨cs, hcs⟩ : ∃ cs, nd.children = some cs := by
    cases h : nd.children with
    | none => rw [h] at hch; simp at hch
    | some cs => exact ⟨cs, rfl⟩
  have hnil : nd.child t.cur.idx.toNat = 0 ∨ nd.child (t.cur.idx.toNat + 1) = 0 := by rw [hpos]; exact Or.inl h0
  obtain ⟨hj, hz⟩ := nilPos_spec hs hi hnil
  have hidp : ∀ x : Node, (rncUpd nd t.cur.idx.toNat x).id = x.id := fun _ => rfl
  have hk0 : (rncKids nd t.cur.idx.toNat).getD 0 0 = 0 := by
    rw [rncKids_getD0 hs hcs hi]
    have hl := Node.kids_length hs
    have e0 := Node.kids_getD hs (show 0 ≤ nd.count by omega)
    have e1 := Node.kids_getD hs (show 1 ≤ nd.count by omega)
    rw [h0] at e0; rw [h1] at e1
    have : nilPos nd t.cur.idx.toNat = 0 := by simp [nilPos, hpos, h0]
    rw [this]
    cases hk : nd.kids with
    | nil => rw [hk] at hl; simp at hl
    | cons a l =>
      cases l with
      | nil => rw [hk, hone] at hl; simp at hl
      | cons b l => rw [hk] at e1; simpa using e1
  have hrnc : t.removeItemOnNodeWithNilChild t.cur.node t.cur.idx.toNat
      = some (t.upd t.cur.node (rncUpd nd t.cur.idx.toNat), .ok true) := by
    rw [rnc_eq t _ _ nd hget hch hnil hi]
    unfold rncTail
    simp only
    rw [if_neg (by rw [hk0]; simp), if_pos (by omega), unlink_root]
    · rfl
    · rw [get_of_get? (by rw [get?_upd_eq t _ _ (by intro x; rfl), hg]; rfl)]
      exact hpar
  rw [removeCurrent_of_rnc t hwf hc (by rw [hget]; exact hch) _ hrnc]
  have h := wf_of_ctx t
    { (t.upd t.cur.node (rncUpd nd t.cur.idx.toNat)).setCur 0 0 with count := t.count - 1 }
    t.cur.node [nd.slot t.cur.idx.toNat] [] hwf hc.1 rfl rfl (by simp [BTree.setCur])
    (fun k hk => get?_upd_ne t _ hidp hk)
    (rnc_local t _ t.cur.node nd (rncNode nd t.cur.idx.toNat) t.cur.idx.toNat (nilPos nd t.cur.idx.toNat) rfl
      (fun k hk => get?_upd_ne t _ hidp hk) hg
      (by show (t.upd _ _).get? _ = _; rw [get?_upd_eq t _ _ hidp, hg]; rfl)
      rfl (rncNode_shape hs hcs hi) (Or.inl hpar) hi hj hz (rncNode_items hs hi)
      (rncNode_kids hs hcs hi))
    (by simp)
  refine ⟨h.1, hp, rfl, rfl, rfl, ?_⟩
  unfold BTree.curItem
  rw [hget]
  exact splice_del h.2


/-! ### structure-only well-formedness (everything of `WF` but the `count` clause) -/

def WFs (t : BTree) : Prop :=
  (2 ≤ t.sl ∧ t.sl % 2 = 0) ∧ t.root ≠ 0 ∧
    WFNode t (t.nodes.length + 1) t.root 0 none none ∧
    (reach t (t.nodes.length + 1) t.root).Nodup ∧
    (reach t (t.nodes.length + 1) t.root).length = t.nodes.length

theorem WF.wfs {t : BTree} (h : WF t) (hr : t.root ≠ 0) : WFs t := by
  unfold WF at h
  simp only [hr, if_false] at h
  exact ⟨h.1, hr, h.2.1, h.2.2.1, h.2.2.2.1⟩

theorem WFs.wf {t : BTree} (h : WFs t) (hc : t.count = (t.abs.length : Int)) : WF t := by
  unfold WF
  simp only [h.2.1, if_false]
  exact ⟨h.1, h.2.2.1, h.2.2.2.1, h.2.2.2.2, hc⟩

theorem wfs_of_ctx (t t' : BTree) (n : NodeId) (X X' : List Item) (hwf : WFs t)
    (hin : n ∈ reach t (t.nodes.length + 1) t.root)
    (hsl : t'.sl = t.sl) (hroot : t'.root = t.root) (hlen : t'.nodes.length = t.nodes.length)
    (hout : ∀ k, k ≠ n → t'.get? k = t.get? k)
    (hloc : ∀ f p lo hi, WFNode t f n p lo hi → (reach t f n).Nodup → Step t t' X X' [n] [n] f n p lo hi) :
    WFs t' ∧ Splice X X' t.abs t'.abs ∧ reach t' (t'.nodes.length + 1) t'.root = reach t (t.nodes.length + 1) t.root := by
  obtain ⟨hsl0, hr, hw, hnd, hl⟩ := hwf
  obtain ⟨h1, h2, h3⟩ := ctx t t' n X X' [n] [n] hsl hout hloc _ _ _ _ _ hw hnd hin
  have h3' := h3.same
  refine ⟨?_, ?_, ?_⟩
  · unfold WFs
    rw [hsl, hroot, hlen]
    exact ⟨hsl0, hr, h1, by rw [h3']; exact hnd, by rw [h3']; exact hl⟩
  · unfold BTree.abs
    rw [hroot, hlen]; exact h2
  · rw [hroot, hlen]; exact h3'

theorem wfs_node_facts {t : BTree} (hwf : WFs t) {n : NodeId} (hin : n ∈ reach t (t.nodes.length + 1) t.root) :
    ∃ nd, t.get? n = some nd ∧ NodeShape t nd ∧ (n = t.root → nd.parent = 0) ∧
      ∃ f p lo hi, WFNode t f n p lo hi := by
  obtain ⟨_, hr, hw, _, _⟩ := hwf
  obtain ⟨f', p', lo', hi', _, hwn⟩ := wfNode_of_reach t _ _ _ _ _ _ hw hin
  cases f' with
  | zero => exact absurd hwn (by simp [WFNode])
  | succ f' =>
    obtain ⟨_, nd, hg, _, hs, _, _⟩ := id hwn
    refine ⟨nd, hg, hs, ?_, _, _, _, _, hwn⟩
    intro hnr
    obtain ⟨_, nd0, hg0, hp0, _⟩ := hw
    rw [← hnr, hg] at hg0; cases hg0; exact hp0

theorem wfs_after_drop (t T1 U : BTree) (n : NodeId) (x : Item) (hwf : WFs t)
    (hsl1 : T1.sl = t.sl)
    (hstep : Step t T1 [x] [] [n] [] (t.nodes.length + 1) t.root 0 none none)
    (hslU : U.sl = t.sl) (hrootU : U.root = t.root) (hget : ∀ k, k ≠ n → U.get? k = T1.get? k)
    (hlen : U.nodes.length < t.nodes.length) :
    WFs U ∧ U.nodes.length + 1 = t.nodes.length ∧ ∃ L R, t.abs = L ++ x :: R ∧ U.abs = L ++ R := by
  obtain ⟨hsl0, hr, hwt, hnd, hl⟩ := hwf
  obtain ⟨h1, h2, h3⟩ := hstep
  obtain ⟨hndR, hnR, hlenR⟩ := splice_drop_nodup h3 hnd
  have hfr := frame_out T1 U (by rw [hslU, hsl1]) _ _ _ _ _ h1 (fun k hk => hget k (fun hkn => hnR (hkn ▸ hk)))
  obtain ⟨hwU, habsU, hreachU⟩ := hfr
  have hsub : reach T1 (t.nodes.length + 1) t.root ⊆ U.nodes.map (·.id) := by
    intro k hk
    rw [← hreachU] at hk
    obtain ⟨nd, hg⟩ := reach_get _ _ _ _ hk
    exact get?_mem_ids hg
  have hle := hndR.length_le_of_subset hsub
  rw [List.length_map] at hle
  have hN : U.nodes.length = (reach T1 (t.nodes.length + 1) t.root).length := by omega
  have hwU' : WFNode U (U.nodes.length + 1) t.root 0 none none := by
    have := WFNode.shrink U _ _ _ _ _ hwU
    rw [hreachU, ← hN] at this
    exact WFNode.le U this (Nat.le_succ _)
  have hreachU' : reach U (U.nodes.length + 1) t.root = reach T1 (t.nodes.length + 1) t.root := by
    rw [← hreachU]; exact (reach_le U hwU' (by omega)).symm
  have habsU' : absNode U (U.nodes.length + 1) t.root = absNode T1 (t.nodes.length + 1) t.root := by
    rw [← habsU]; exact (absNode_le U hwU' (by omega)).symm
  have hsp := splice_del h2
  refine ⟨?_, by omega, ?_⟩
  · unfold WFs
    rw [hslU, hrootU]
    exact ⟨hsl0, hr, hwU', by rw [hreachU']; exact hndR, by rw [hreachU']; exact hN.symm⟩
  · unfold BTree.abs
    rw [hrootU, habsU']
    exact hsp

/-- `fixVacatedSlot` on a leaf that keeps an item, for a tree that is well-formed up to its `count` field -/
theorem fix_leaf_many (t : BTree) (hwf : WFs t) (hc : CursorOn t)
    (hleaf : (t.get t.cur.node).children = none) (hmany : 1 < (t.get t.cur.node).count) :
    WFs (t.fixVacatedSlot t.cur.node) ∧ (t.fixVacatedSlot t.cur.node).panicked = t.panicked ∧
    (t.fixVacatedSlot t.cur.node).count = t.count ∧
    ∃ L R, t.abs = L ++ t.curItem :: R ∧ (t.fixVacatedSlot t.cur.node).abs = L ++ R := by
  obtain ⟨nd, hg, hcn, hid, hget, hi, hneg⟩ := hc.node
  rw [hget] at hleaf hmany
  rw [fixVacatedSlot_many t _ nd hget hneg hmany]
  obtain ⟨nd0, hg0, hs, _, _⟩ := wfs_node_facts hwf hc.1
  rw [hg] at hg0; cases hg0
  have hidp : ∀ x : Node, ({ x with slots := vacate nd.slots t.cur.idx.toNat nd.count, count := nd.count - 1 } : Node).id = x.id :=
    fun _ => rfl
  have h := wfs_of_ctx t
    (t.upd t.cur.node (fun x => { x with slots := vacate nd.slots t.cur.idx.toNat nd.count, count := nd.count - 1 }))
    t.cur.node [nd.slot t.cur.idx.toNat] [] hwf hc.1 rfl rfl (by simp)
    (fun k hk => get?_upd_ne t _ hidp hk)
    (leaf_local t _ t.cur.node nd (vacNode nd t.cur.idx.toNat) t.cur.idx.toNat rfl hg
      (by rw [get?_upd_eq t _ _ hidp, hg]; rfl)
      hleaf hleaf rfl (vacNode_shape hs hleaf hi) (Or.inr (by simp [vacNode]; omega)) hi (vacNode_items hs hi))
  refine ⟨h.1, rfl, rfl, ?_⟩
  unfold BTree.curItem
  rw [hget]
  exact splice_del h.2.1

/-- `fixVacatedSlot` on a non-root leaf with one item (`unlink`), for a tree well-formed up to `count` -/
theorem fix_unlink (t : BTree) (hwf : WFs t) (hc : CursorOn t)
    (hleaf : (t.get t.cur.node).children = none) (hone : (t.get t.cur.node).count = 1) (hnroot : t.cur.node ≠ t.root) :
    WFs (t.fixVacatedSlot t.cur.node) ∧ (t.fixVacatedSlot t.cur.node).panicked = t.panicked ∧
    (t.fixVacatedSlot t.cur.node).count = t.count ∧
    ∃ L R, t.abs = L ++ t.curItem :: R ∧ (t.fixVacatedSlot t.cur.node).abs = L ++ R := by
  obtain ⟨cn, hgn, hcn, hid, hget, hi, hneg⟩ := hc.node
  rw [hget] at hleaf hone
  have hn0 := reach_ne_zero _ _ _ _ hc.1
  obtain ⟨hsl0, hr, hwt, hnd, hl⟩ := id hwf
  obtain ⟨p, pn, i0, hpin, hgp, hki, cn', hgn', hpar⟩ := parent_of_reach t _ _ _ _ _ _ hwt hc.1 hnroot
  rw [hgn] at hgn'; cases hgn'
  have hp0 := reach_ne_zero _ _ _ _ hpin
  obtain ⟨pn', hgp', hsp, _, _⟩ := wfs_node_facts hwf hpin
  rw [hgp] at hgp'; cases hgp'
  obtain ⟨cn', hgn', hsn, _, _⟩ := wfs_node_facts hwf hc.1
  rw [hgn] at hgn'; cases hgn'
  obtain ⟨cs, hcs⟩ : ∃ cs, pn.children = some cs := by
    cases hch : pn.children with
    | none => exact absurd (kids_leaf_zero hch hki) hn0
    | some cs => exact ⟨cs, rfl⟩
  have hpn : p ≠ t.cur.node := by
    intro h
    rw [h, hgn] at hgp; cases hgp
    exact hn0 (kids_leaf_zero hleaf hki)
  have hsz := (hsp.2.2.2.2 cs hcs).1
  have hk : pn.kids = cs.toList.take (pn.count + 1) := by unfold Node.kids; rw [hcs]
  have hi0 : i0 < pn.count + 1 ∧ cs.toList[i0]? = some t.cur.node := by
    rw [hk, List.getElem?_take] at hki
    split at hki
    · exact ⟨by assumption, hki⟩
    · cases hki
  have hcj : cs.getD i0 0 = t.cur.node := by
    rw [Array.getD_eq_getD_getElem?, ← Array.getElem?_toList, hi0.2]; rfl
  obtain ⟨i, g, hg, hioc, hci, hilt⟩ := getIndexOfChild_spec t p t.cur.node pn cn cs hgp hgn hcs hsz hsp.1 hsn.2.2.1 hn0
    i0 (by have := hsp.2.1; omega) hcj
  have hile := kid_index_le hsp hcs hilt hci hn0
  rw [fixVacatedSlot_unlink t _ cn hget hneg hone (by rw [hpar]; exact hp0) hleaf,
    unlink_eq t p t.cur.node pn cn cs hgp hgn hpar hp0 hpn hcs i g hg hioc hilt]
  have hdk := dropKid_id i
  have hstep := ctx t (t.upd p (dropKid i)) p [cn.slot 0] [] [t.cur.node] [] rfl
    (fun k hk => get?_upd_ne t _ hdk hk)
    (dropKid_local t _ p t.cur.node pn (dropKid i pn) cn i rfl (fun k hk => get?_upd_ne t _ hdk hk) hgp
      (by rw [get?_upd_eq t _ _ hdk, hgp]; rfl) (dropKid_parent _ _) (dropKid_count _ _) (dropKid_items _ _)
      (dropKid_shape hsp hcs hile) (dropKid_kids hsp hcs i) (kids_getElem? hsp hcs hilt hci hn0) hn0 hgn hleaf hone)
    _ _ _ _ _ hwt hnd hpin
  have hgetU : ∀ k, k ≠ t.cur.node →
      (((t.upd t.cur.node g).upd p (dropKid i)).del t.cur.node).get? k = (t.upd p (dropKid i)).get? k := by
    intro k hk
    rw [get?_del _ hn0, if_neg hk, get?_upd _ _ _ _ hdk, get?_upd_ne t g hg hk, get?_upd _ _ _ _ hdk]
  have hlenU : (((t.upd t.cur.node g).upd p (dropKid i)).del t.cur.node).nodes.length < t.nodes.length := by
    have hgu : ((t.upd t.cur.node g).upd p (dropKid i)).get? t.cur.node = some (g cn) := by
      rw [get?_upd_ne _ _ hdk hpn.symm, get?_upd_eq t _ _ hg, hgn]; rfl
    have := del_length_lt _ hn0 hgu
    simpa using this
  have h := wfs_after_drop t (t.upd p (dropKid i)) (((t.upd t.cur.node g).upd p (dropKid i)).del t.cur.node)
    t.cur.node (cn.slot 0) hwf rfl hstep (del_sl _ _) (del_root _ _) hgetU hlenU
  have hpos : t.cur.idx.toNat = 0 := by omega
  refine ⟨h.1, by rw [del_panicked]; rfl, by rw [del_count]; rfl, ?_⟩
  unfold BTree.curItem
  rw [hget, hpos]
  exact h.2.2

/-- `fixVacatedSlot` on any non-root leaf -/
theorem fix_leaf (t : BTree) (hwf : WFs t) (hc : CursorOn t)
    (hleaf : (t.get t.cur.node).children = none) (hnroot : t.cur.node ≠ t.root) :
    WFs (t.fixVacatedSlot t.cur.node) ∧ (t.fixVacatedSlot t.cur.node).panicked = t.panicked ∧
    (t.fixVacatedSlot t.cur.node).count = t.count ∧
    ∃ L R, t.abs = L ++ t.curItem :: R ∧ (t.fixVacatedSlot t.cur.node).abs = L ++ R := by
  by_cases hmany : 1 < (t.get t.cur.node).count
  · exact fix_leaf_many t hwf hc hleaf hmany
  · have hone : (t.get t.cur.node).count = 1 := by
      have := hc.2.1; have := hc.2.2; omega
    exact fix_unlink t hwf hc hleaf hone hnroot


/-! ### the minimum of a subtree -/

/-- a non-root well-formed subtree is not empty -/
theorem absNode_ne_nil (t : BTree) {f : Nat} {c p : NodeId} {lo hi : Option Int} (h : WFNode t f c p lo hi) (hp : p ≠ 0) :
    absNode t f c ≠ [] := by
  cases f with
  | zero => exact absurd h (by simp [WFNode])
  | succ f =>
    obtain ⟨hc0, nd, hg, _⟩ := id h
    obtain ⟨_, hpar, hs, hne, hk⟩ := wfNode_kids h hg
    have hcnt : 1 ≤ nd.count := by rcases hne with h | h; exact absurd h hp; exact h
    rw [absNode_kids f hc0 hg hs]
    have hl := Node.items_length hs
    have hkl := Node.kids_length hs
    cases hi' : nd.items with
    | nil => rw [hi'] at hl; simp at hl; omega
    | cons a l =>
      cases hk' : nd.kids with
      | nil => rw [hk'] at hkl; simp at hkl
      | cons k ks => simp [weave]

/-- the lower bound of a well-formed subtree can be raised to the key of its first item -/
theorem WFNode.lo_tighten (t : BTree) : ∀ (f : Nat) (c p : NodeId) (lo hi : Option Int) (s : Item) (rest : List Item),
    WFNode t f c p lo hi → absNode t f c = s :: rest → WFNode t f c p (some s.key) hi
  | 0, _, _, _, _, _, _, h, _ => absurd h (by simp [WFNode])
  | f + 1, c, p, lo, hi, s, rest, h, habs => by
    obtain ⟨hc0, nd, hg, _⟩ := id h
    obtain ⟨_, hpar, hs, hne, hk⟩ := wfNode_kids h hg
    rw [absNode_kids f hc0 hg hs] at habs
    refine wfNode_of_kids hc0 hg hpar hs hne ?_
    have hkl : nd.kids.length = nd.items.length + 1 := by rw [Node.kids_length hs, Node.items_length hs]
    cases hk' : nd.kids with
    | nil => rw [hk'] at hkl; simp at hkl
    | cons k ks =>
      rw [hk'] at hk habs hkl
      -- the first kid: nil, or a subtree whose first item is `s`
      have hfirst : ∀ h', (k = 0 ∨ WFNode t f k c lo h') →
          (k = 0 ∧ absNode t f k = []) ∨ (WFNode t f k c (some s.key) h' ∧ ∃ r', absNode t f k = s :: r' ∧
            OLe s.key h') := by
        intro h' hk0
        rcases hk0 with rfl | hw
        · exact Or.inl ⟨rfl, absNode_zero t f⟩
        · right
          have hne' := absNode_ne_nil t hw hc0
          cases hab : absNode t f k with
          | nil => exact absurd hab hne'
          | cons a r' =>
            have has : a = s := by
              cases hit : nd.items with
              | nil => rw [hit] at habs; simp only [weave, hab] at habs; simp at habs; exact habs.1
              | cons b is => rw [hit] at habs; simp only [weave, hab] at habs; simp at habs; exact habs.1
            subst has
            have hgood := wfNode_good t f k c lo h' hw
            rw [hab] at hgood
            exact ⟨WFNode.lo_tighten t f k c lo h' a r' hw hab, r', rfl, (hgood.2 a List.mem_cons_self).2.1⟩
      cases hit : nd.items with
      | nil =>
        rw [hit] at hk habs
        obtain ⟨hk1, hk2⟩ := hk
        subst hk2
        rcases hfirst hi hk1 with ⟨rfl, h0⟩ | ⟨hw, _⟩
        · simp [weave, h0] at habs
        · exact ⟨Or.inr hw, rfl⟩
      | cons b is =>
        rw [hit] at hk habs
        obtain ⟨hk1, hk2, hk3, hk4, hk5⟩ := hk
        rcases hfirst (some b.key) hk1 with ⟨rfl, h0⟩ | ⟨hw, r', hab, hle⟩
        · simp only [weave, h0, List.nil_append, List.cons.injEq] at habs
          obtain ⟨rfl, _⟩ := habs
          exact ⟨Or.inl rfl, fun l hl => by cases hl; exact Int.le_refl _, hk3, hk4, hk5⟩
        · exact ⟨Or.inr hw, fun l hl => by cases hl; exact hle _ rfl, hk3, hk4, hk5⟩

/-! ### copying the successor up into slot `i` -/

theorem KidsOk.set_succ {P : NodeId → Option Int → Option Int → Prop} {s : Item} {c : NodeId}
    (hP : ∀ c l l' h h', LoLe l l' → HiLe h h' → P c l h → P c l' h')
    (hc : ∀ l h, P c l h → LeO l s.key ∧ P c (some s.key) h ∧ OLe s.key h ∧ s.id ≠ 0) (hc0 : c ≠ 0) :
    ∀ (i : Nat) (cs : List NodeId) (is : List Item) (lo hi : Option Int), i < is.length → cs[i + 1]? = some c →
      KidsOk P lo hi cs is → KidsOk P lo hi cs (is.set i s)
  | _, _, [], _, _, hi', _, _ => by simp at hi'
  | _, [], _ :: _, _, _, _, hcs, _ => by simp at hcs
  | 0, c0 :: cs, a :: is, lo, hi, _, hcs, h => by
    obtain ⟨h1, h2, h3, h4, h5⟩ := h
    cases cs with
    | nil => simp at hcs
    | cons c1 cs =>
      simp only [List.getElem?_cons_succ, List.getElem?_cons_zero, Option.some.injEq] at hcs
      subst hcs
      simp only [List.set_cons_zero]
      cases is with
      | nil =>
        obtain ⟨g1, g2⟩ := h5
        rcases g1 with g1 | g1
        · exact absurd g1 hc0
        · obtain ⟨e1, e2, e3, e4⟩ := hc _ _ g1
          have hle : a.key ≤ s.key := e1 _ rfl
          exact ⟨h1.imp id (hP _ _ _ _ _ (LoLe.refl _) (HiLe.some hle)), h2.trans hle, e3, e4, Or.inr e2, g2⟩
      | cons b is =>
        obtain ⟨g1, g2, g3, g4, g5⟩ := h5
        rcases g1 with g1 | g1
        · exact absurd g1 hc0
        · obtain ⟨e1, e2, e3, e4⟩ := hc _ _ g1
          have hle : a.key ≤ s.key := e1 _ rfl
          have hsb : s.key ≤ b.key := e3 _ rfl
          exact ⟨h1.imp id (hP _ _ _ _ _ (LoLe.refl _) (HiLe.some hle)), h2.trans hle, OLe.trans' hsb g3, e4,
            Or.inr e2, fun l hl => by cases hl; exact hsb, g3, g4, g5⟩
  | i + 1, c0 :: cs, a :: is, lo, hi, hi', hcs, h => by
    simp only [List.set_cons_succ]
    exact ⟨h.1, h.2.1, h.2.2.1, h.2.2.2.1,
      KidsOk.set_succ hP hc hc0 i cs is _ _ (by simpa using hi') (by simpa using hcs) h.2.2.2.2⟩

theorem weave_set_succ (g : NodeId → List Item) {x s s' : Item} {c : NodeId} {rest : List Item} (hg : g c = s :: rest) :
    ∀ (cs : List NodeId) (l : List Item) (i : Nat), l[i]? = some x → cs[i + 1]? = some c →
      Splice [x, s] [s', s] (weave g cs l) (weave g cs (l.set i s'))
  | [], _, _, _, hc => by simp at hc
  | c0 :: cs, [], _, hx, _ => by simp at hx
  | c0 :: cs, a :: l, 0, hx, hc => by
    simp only [List.getElem?_cons_zero, Option.some.injEq] at hx
    subst hx
    cases cs with
    | nil => simp at hc
    | cons c1 cs =>
      simp only [List.getElem?_cons_succ, List.getElem?_cons_zero, Option.some.injEq] at hc
      subst hc
      simp only [List.set_cons_zero]
      cases l with
      | nil => simp only [weave, hg]; exact ⟨g c0, rest ++ weave g cs [], by simp, by simp⟩
      | cons b l => simp only [weave, hg]; exact ⟨g c0, rest ++ b :: weave g cs l, by simp, by simp⟩
  | c0 :: cs, a :: l, i + 1, hx, hc => by
    simp only [List.set_cons_succ, weave]
    exact ((weave_set_succ g hg cs l i (by simpa using hx) (by simpa using hc)).cons a).pre _

/-- the local step of "slot `i` of the inner node `n` is overwritten by the first item of its child `i + 1`" -/
theorem succ_local (t : BTree) (n : NodeId) (i : Nat) (s : Item) (nd0 : Node) (c : NodeId) (hg0 : t.get? n = some nd0)
    (hi : i < nd0.count) (hcc : nd0.child (i + 1) = c) (hc0 : c ≠ 0)
    (hmin : ∀ f l h, WFNode t f c n l h → ∃ rest, absNode t f c = s :: rest) :
    ∀ f p lo hi, WFNode t f n p lo hi → (reach t f n).Nodup →
      Step t (t.upd n (fun x => x.setSlot i s)) [nd0.slot i, s] [s, s] [n] [n] f n p lo hi
  | 0, _, _, _, h, _ => absurd h (by simp [WFNode])
  | f + 1, p, lo, hi', h, hnd => by
    have hidp : ∀ x : Node, (x.setSlot i s).id = x.id := fun _ => rfl
    have hout : ∀ k, k ≠ n → (t.upd n (fun x => x.setSlot i s)).get? k = t.get? k :=
      fun k hk => get?_upd_ne t _ hidp hk
    obtain ⟨hn, hp, hs, hne, hk⟩ := wfNode_kids h hg0
    have hg' : (t.upd n (fun x => x.setSlot i s)).get? n = some (nd0.setSlot i s) := by
      rw [get?_upd_eq t n _ hidp, hg0]; rfl
    have hkf := kids_frame t (t.upd n (fun x => x.setSlot i s)) n rfl hout hn hg0 hnd
    have hx := items_getElem? hs hi
    have hs' : NodeShape t (nd0.setSlot i s) := nodeShape_setSlot hs hi s
    have hkids' : (nd0.setSlot i s).kids = nd0.kids := rfl
    have hkl := Node.kids_length hs
    have hci : nd0.kids[i + 1]? = some c := by
      have := Node.kids_getD hs (show i + 1 ≤ nd0.count by omega)
      rw [hcc, List.getD_eq_getElem?_getD, List.getElem?_eq_getElem (by omega)] at this
      rw [List.getElem?_eq_getElem (by omega)]
      simpa using this
    have hcm : c ∈ nd0.kids := List.mem_of_getElem? hci
    obtain ⟨lc, hc', hwc⟩ : ∃ l h', WFNode t f c n l h' := by
      rcases KidsOk.mem _ _ _ _ hk c hcm with h | h
      · exact absurd h hc0
      · exact h
    obtain ⟨rest, hrest⟩ := hmin f lc hc' hwc
    have hframe : ∀ k ∈ nd0.kids, absNode (t.upd n (fun x => x.setSlot i s)) f k = absNode t f k ∧
        reach (t.upd n (fun x => x.setSlot i s)) f k = reach t f k := by
      intro k hkm
      by_cases hk0 : k = 0
      · subst hk0; simp [absNode_zero, reach_zero]
      · rcases KidsOk.mem _ _ _ _ hk k hkm with h | ⟨l, h', hw⟩
        · exact absurd h hk0
        · exact (hkf k (mem_kids hkm hk0) l h' hw).2
    refine ⟨?_, ?_, ?_⟩
    · refine wfNode_of_kids hn hg' hp (nodeShape_sl rfl hs') hne ?_
      rw [hkids', items_setSlot]
      refine KidsOk.imp_mem _ _ _ _ ?_ (KidsOk.set_succ
        (fun c l l' h h' hl hh hw => WFNode.mono t f c n l l' h h' hl hh hw) ?_ hc0 i _ _ _ _
        (by rw [Node.items_length hs]; exact hi) hci hk)
      · intro k hkm l h' hw
        have hk0 : k ≠ 0 := by
          cases f with
          | zero => exact absurd hw (by simp [WFNode])
          | succ f => exact hw.1
        exact (hkf k (mem_kids hkm hk0) l h' hw).1
      · intro l h' hw
        obtain ⟨r', hr'⟩ := hmin f l h' hw
        have hgood := wfNode_good t f c n l h' hw
        rw [hr'] at hgood
        have hm := hgood.2 s List.mem_cons_self
        exact ⟨hm.1, WFNode.lo_tighten t f c n l h' s r' hw hr', hm.2.1, hm.2.2⟩
    · rw [absNode_kids f hn hg0 hs, absNode_kids f hn hg' (nodeShape_sl rfl hs'), hkids', items_setSlot]
      rw [weave_congr (g := absNode (t.upd n (fun x => x.setSlot i s)) f) (g' := absNode t f) _ _
        (fun k hkm => (hframe k hkm).1)]
      exact weave_set_succ _ hrest _ _ _ hx hci
    · rw [reach_kids f hn hg0, reach_kids f hn hg', hkids']
      rw [flatMap_congr' (f := reach (t.upd n (fun x => x.setSlot i s)) f) (g := reach t f) _
        (fun k hkm => (hframe k hkm).2)]
      exact ⟨[], _, rfl, rfl⟩


theorem climbRight_here (t : BTree) (c : NodeId) (cn : Node) (hc0 : c ≠ 0) (hg : t.get? c = some cn) (i : Nat)
    (hi : i < cn.count) : climbRight t.fuel t c (i : Int) = (t.setCur c (i : Int), true) := by
  unfold BTree.fuel
  rw [climbRight]
  simp only [hc0, if_false, get_of_get? hg]
  rw [if_pos (by omega)]

/-- `descendRight … 0` from a non-root well-formed subtree: nothing but the cursor changes, and the cursor lands
    on slot 0 of the subtree's leftmost node, which is a leaf or an inner node whose child 0 is nil; that slot is the
    subtree's first item. -/
theorem descendRight_leftmost (t : BTree) : ∀ (f fuel : Nat) (c p : NodeId) (lo hi : Option Int),
    WFNode t f c p lo hi → p ≠ 0 → f ≤ fuel →
      ∃ m mn, descendRight fuel t c 0 = (t.setCur m 0, true) ∧ m ∈ reach t f c ∧ t.get? m = some mn ∧ 0 < mn.count ∧
        mn.child 0 = 0 ∧ mn.parent ≠ 0 ∧ ∃ rest, absNode t f c = mn.slot 0 :: rest
  | 0, _, _, _, _, _, h, _, _ => absurd h (by simp [WFNode])
  | f + 1, 0, _, _, _, _, _, _, hle => by omega
  | f + 1, fuel + 1, c, p, lo, hi, h, hp, hle => by
    obtain ⟨hc0, cn, hg, _⟩ := id h
    obtain ⟨_, hpar, hs, hne, hk⟩ := wfNode_kids h hg
    have hcnt : 1 ≤ cn.count := by rcases hne with h | h; exact absurd h hp; exact h
    have hkl := Node.kids_length hs
    have hil := Node.items_length hs
    have hk0 := Node.kids_getD hs (show 0 ≤ cn.count by omega)
    have hi0 := Node.items_getD hs (show 0 < cn.count by omega)
    have hself : c ∈ reach t (f + 1) c := by rw [reach_kids f hc0 hg]; exact List.mem_cons_self
    rw [descendRight]
    simp only [hc0, if_false, get_of_get? hg]
    by_cases hch : cn.hasChildren = true
    · rw [if_pos hch]
      by_cases hz : cn.child 0 = 0
      · -- inner node whose child 0 is nil
        simp only [hz, beq_self_eq_true, if_true]
        have := climbRight_here t c cn hc0 hg 0 (by omega)
        refine ⟨c, cn, ?_, hself, hg, by omega, hz, by rw [hpar]; exact hp, ?_⟩
        · simpa using this
        · rw [absNode_kids f hc0 hg hs]
          cases hkk : cn.kids with
          | nil => rw [hkk] at hkl; simp at hkl
          | cons k ks =>
            cases hit : cn.items with
            | nil => rw [hit] at hil; simp at hil; omega
            | cons a is =>
              rw [hkk] at hk0; rw [hit] at hi0
              simp only [List.getD_cons_zero] at hk0 hi0
              have hk00 : k = 0 := by rw [hk0, hz]
              subst hk00
              exact ⟨weave (absNode t f) ks is, by simp only [weave, absNode_zero, List.nil_append, hi0]⟩
      · have hz' : (cn.child 0 == 0) = false := by simpa using hz
        simp only [hz', Bool.false_eq_true, if_false]
        rcases WFNode.kid h hg (show 0 ≤ cn.count by omega) with h0 | ⟨l, h', hw⟩
        · exact absurd h0 hz
        · have hgk : ∃ kn, t.get? (cn.child 0) = some kn := by
            cases f with
            | zero => exact absurd hw (by simp [WFNode])
            | succ f => obtain ⟨_, kn, hgk, _⟩ := hw; exact ⟨kn, hgk⟩
          obtain ⟨kn, hgk⟩ := hgk
          have hco : t.childOf c 0 = cn.child 0 := by
            unfold BTree.childOf
            simp [get_of_get? hg, hz, hgk]
          rw [hco]
          obtain ⟨m, mn, hd, hm, hgm, hmc, hmz, hmp, rest, hrest⟩ :=
            descendRight_leftmost t f fuel (cn.child 0) c l h' hw hc0 (by omega)
          refine ⟨m, mn, hd, ?_, hgm, hmc, hmz, hmp, ?_⟩
          · rw [reach_kids f hc0 hg]
            refine List.mem_cons_of_mem _ (List.mem_flatMap.mpr ⟨cn.child 0, ?_, hm⟩)
            rw [← hk0, List.getD_eq_getElem?_getD, List.getElem?_eq_getElem (by omega)]
            simp
          · rw [absNode_kids f hc0 hg hs]
            cases hkk : cn.kids with
            | nil => rw [hkk] at hkl; simp at hkl
            | cons k ks =>
              rw [hkk] at hk0
              simp only [List.getD_cons_zero] at hk0
              rw [hk0]
              cases hit : cn.items with
              | nil => exact ⟨_, by simp only [weave, hrest, List.cons_append]; rfl⟩
              | cons a is => exact ⟨_, by simp only [weave, hrest, List.cons_append]; rfl⟩
    · -- leaf
      rw [if_neg hch]
      have hleaf : cn.children = none := by
        cases hc : cn.children with
        | none => rfl
        | some cs => simp [Node.hasChildren, hc] at hch
      refine ⟨c, cn, rfl, hself, hg, by omega, by simp [Node.child, hleaf], by rw [hpar]; exact hp, ?_⟩
      rw [absNode]
      simp only [hc0, if_false, hg, hleaf]
      cases hit : cn.items with
      | nil => rw [hit] at hil; simp at hil; omega
      | cons a is =>
        rw [hit] at hi0
        simp only [List.getD_cons_zero] at hi0
        exact ⟨is, by rw [hi0]⟩


/-- a tree with the same repository content is as well-formed -/
theorem WFs.congr {t t' : BTree} (h : WFs t) (hsl : t'.sl = t.sl) (hroot : t'.root = t.root)
    (hlen : t'.nodes.length = t.nodes.length) (hget : ∀ k, t'.get? k = t.get? k) :
    WFs t' ∧ t'.abs = t.abs ∧ reach t' (t'.nodes.length + 1) t'.root = reach t (t.nodes.length + 1) t.root := by
  obtain ⟨hsl0, hr, hw, hnd, hl⟩ := h
  obtain ⟨h1, h2, h3⟩ := frame_out t t' hsl _ _ _ _ _ hw (fun k _ => hget k)
  refine ⟨?_, ?_, ?_⟩
  · unfold WFs
    rw [hsl, hroot, hlen, h3]
    exact ⟨hsl0, hr, h1, hnd, hl⟩
  · unfold BTree.abs; rw [hroot, hlen]; exact h2
  · rw [hroot, hlen]; exact h3

/-- reachability is transitive along well-formed subtrees -/
theorem reach_trans (t : BTree) : ∀ (f : Nat) (r q : NodeId) (lo hi : Option Int) (n : NodeId),
    WFNode t f r q lo hi → n ∈ reach t f r → ∀ f' k, f' ≤ f → k ∈ reach t f' n → k ∈ reach t f r
  | 0, _, _, _, _, _, h, _, _, _, _, _ => absurd h (by simp [WFNode])
  | f + 1, r, q, lo, hi, n, h, hin, f', k, hle, hk => by
    obtain ⟨hr0, nd, hg, _⟩ := id h
    obtain ⟨_, _, hs, _, hkk⟩ := wfNode_kids h hg
    rw [reach_kids f hr0 hg] at hin
    rcases List.mem_cons.mp hin with rfl | hin
    · -- n is the root of this subtree: more fuel reaches at least as much
      cases f' with
      | zero => simp [reach] at hk
      | succ f' =>
        rw [reach_kids f' hr0 hg] at hk
        rw [reach_kids f hr0 hg]
        rcases List.mem_cons.mp hk with rfl | hk
        · exact List.mem_cons_self
        · obtain ⟨c, hc, hkc⟩ := List.mem_flatMap.mp hk
          refine List.mem_cons_of_mem _ (List.mem_flatMap.mpr ⟨c, hc, ?_⟩)
          rcases KidsOk.mem _ _ _ _ hkk c hc with rfl | ⟨l, h', hw⟩
          · rw [reach_zero] at hkc; simp at hkc
          · have hcc : c ∈ reach t f c := by
              cases f with
              | zero => exact absurd hw (by simp [WFNode])
              | succ f =>
                obtain ⟨hc0, cn, hgc, _⟩ := id hw
                rw [reach_kids f hc0 hgc]; exact List.mem_cons_self
            exact reach_trans t f c n l h' c hw hcc f' k (by omega) hkc
    · obtain ⟨c, hc, hnc⟩ := List.mem_flatMap.mp hin
      rw [reach_kids f hr0 hg]
      refine List.mem_cons_of_mem _ (List.mem_flatMap.mpr ⟨c, hc, ?_⟩)
      rcases KidsOk.mem _ _ _ _ hkk c hc with rfl | ⟨l, h', hw⟩
      · rw [reach_zero] at hnc; simp at hnc
      · -- fuel `f'` may exceed `f`: go through the fuel at which `n` is well-formed
        obtain ⟨fn, pn, ln, hn, hfn, hwn⟩ := wfNode_of_reach t f c r l h' n hw hnc
        by_cases hff : f' ≤ f
        · exact reach_trans t f c r l h' n hw hnc f' k hff hk
        · have : reach t f' n = reach t fn n := reach_le t hwn (by omega)
          rw [this] at hk
          exact reach_trans t f c r l h' n hw hnc fn k hfn hk

/-- a reachable node is the root of a well-formed subtree that lists every node once -/
theorem sub_nodup (t : BTree) : ∀ (f : Nat) (r q : NodeId) (lo hi : Option Int) (n : NodeId),
    WFNode t f r q lo hi → (reach t f r).Nodup → n ∈ reach t f r →
      ∃ f' p' lo' hi', f' ≤ f ∧ WFNode t f' n p' lo' hi' ∧ (reach t f' n).Nodup
  | 0, _, _, _, _, _, h, _, _ => absurd h (by simp [WFNode])
  | f + 1, r, q, lo, hi, n, h, hnd, hin => by
    obtain ⟨hr0, nd, hg, _⟩ := id h
    obtain ⟨_, _, hs, _, hkk⟩ := wfNode_kids h hg
    have hr := reach_kids f hr0 hg
    rw [hr] at hin
    rcases List.mem_cons.mp hin with rfl | hin
    · exact ⟨_, _, _, _, Nat.le_refl _, h, hnd⟩
    · obtain ⟨c, hc, hnc⟩ := List.mem_flatMap.mp hin
      rw [hr] at hnd
      have hnd' := (List.nodup_cons.mp hnd).2
      have hndc : (reach t f c).Nodup := by
        obtain ⟨l1, l2, hl⟩ := List.append_of_mem hc
        rw [hl, List.flatMap_append, List.flatMap_cons] at hnd'
        exact (List.nodup_append.mp (List.nodup_append.mp hnd').2.1).1
      rcases KidsOk.mem _ _ _ _ hkk c hc with rfl | ⟨l, h', hw⟩
      · rw [reach_zero] at hnc; simp at hnc
      · obtain ⟨f', p', lo', hi', hle, hw', hn'⟩ := sub_nodup t f c r l h' n hw hndc hnc
        exact ⟨f', p', lo', hi', by omega, hw', hn'⟩


theorem rnc_none (t : BTree) (n : NodeId) (i : Nat) (h : (t.get n).children.isSome = false ∨
    ((t.get n).child i ≠ 0 ∧ (t.get n).child (i + 1) ≠ 0)) : t.removeItemOnNodeWithNilChild n i = none := by
  unfold BTree.removeItemOnNodeWithNilChild
  simp only
  rw [if_pos]
  rcases h with h | ⟨h1, h2⟩
  · simp [Node.hasChildren, h]
  · simp [h1, h2]

/-- `moveToNext` from an occupied slot of an inner node whose right neighbour child is live -/
theorem moveToNext_inner (t : BTree) (hwf : WFs t) (hc : CursorOn t)
    (hch : (t.get t.cur.node).children.isSome = true) (hr : (t.get t.cur.node).child (t.cur.idx.toNat + 1) ≠ 0) :
    ∃ m mn, t.moveToNext t.cur.node = (t.setCur m 0, true) ∧ m ∈ reach t (t.nodes.length + 1) t.root ∧
      t.get? m = some mn ∧ 0 < mn.count ∧ mn.child 0 = 0 ∧ mn.parent ≠ 0 ∧ m ≠ t.cur.node ∧
      ∀ f l h, WFNode t f ((t.get t.cur.node).child (t.cur.idx.toNat + 1)) t.cur.node l h →
        ∃ rest, absNode t f ((t.get t.cur.node).child (t.cur.idx.toNat + 1)) = mn.slot 0 :: rest := by
  obtain ⟨nd, hg, hcn, hid, hget, hi, hneg⟩ := hc.node
  rw [hget] at hch hr ⊢
  have hn0 := reach_ne_zero _ _ _ _ hc.1
  obtain ⟨_, hroot0, hw, hndp, _⟩ := id hwf
  obtain ⟨f', p', lo', hi', hf', hwn, hndn⟩ := sub_nodup t _ _ _ _ _ _ hw hndp hc.1
  cases f' with
  | zero => exact absurd hwn (by simp [WFNode])
  | succ f0 =>
    rcases WFNode.kid hwn hg (show t.cur.idx.toNat + 1 ≤ nd.count by omega) with h0 | ⟨l, h', hwc⟩
    · exact absurd h0 hr
    · have hgc : ∃ cn, t.get? (nd.child (t.cur.idx.toNat + 1)) = some cn := by
        cases f0 with
        | zero => exact absurd hwc (by simp [WFNode])
        | succ f => obtain ⟨_, cn, hgc, _⟩ := hwc; exact ⟨cn, hgc⟩
      obtain ⟨cn, hgc⟩ := hgc
      obtain ⟨m, mn, hd, hm, hgm, hmc, hmz, hmp, rest, hrest⟩ :=
        descendRight_leftmost t f0 (t.nodes.length + 2) _ _ l h' hwc hn0 (by omega)
      have hmr : m ∈ reach t (t.nodes.length + 1) t.root := by
        refine reach_trans t _ _ _ _ _ _ hw hc.1 (f0 + 1) m hf' ?_
        rw [reach_kids f0 hn0 hg]
        refine List.mem_cons_of_mem _ (List.mem_flatMap.mpr ⟨nd.child (t.cur.idx.toNat + 1), ?_, hm⟩)
        have hs : NodeShape t nd := by obtain ⟨_, nd0, hg0, _, hs, _⟩ := hwn; rw [hg] at hg0; cases hg0; exact hs
        have hkl := Node.kids_length hs
        rw [← Node.kids_getD hs (show t.cur.idx.toNat + 1 ≤ nd.count by omega), List.getD_eq_getElem?_getD,
          List.getElem?_eq_getElem (by omega)]
        simp
      have hmn : m ≠ t.cur.node := by
        -- `m` lies below the child, `n` does not (its own subtree lists it once)
        intro h
        rw [h] at hm
        rw [reach_kids f0 hn0 hg] at hndn
        apply (List.nodup_cons.mp hndn).1
        refine List.mem_flatMap.mpr ⟨nd.child (t.cur.idx.toNat + 1), ?_, hm⟩
        have hs : NodeShape t nd := by obtain ⟨_, nd0, hg0, _, hs, _⟩ := hwn; rw [hg] at hg0; cases hg0; exact hs
        have hkl := Node.kids_length hs
        rw [← Node.kids_getD hs (show t.cur.idx.toNat + 1 ≤ nd.count by omega), List.getD_eq_getElem?_getD,
          List.getElem?_eq_getElem (by omega)]
        simp
      refine ⟨m, mn, ?_, hmr, hgm, hmc, hmz, hmp, hmn, ?_⟩
      · unfold BTree.moveToNext
        simp only [hget, Node.hasChildren, hch, if_true]
        rw [if_neg (by omega)]
        have e : (t.cur.idx + 1).toNat = t.cur.idx.toNat + 1 := by omega
        rw [e]
        unfold BTree.fuel
        rw [descendRight]
        have hr' : (nd.child (t.cur.idx.toNat + 1) == 0) = false := by simpa using hr
        simp only [hn0, if_false, hget, Node.hasChildren, hch, if_true, hr', Bool.false_eq_true]
        have hco : t.childOf t.cur.node (t.cur.idx.toNat + 1) = nd.child (t.cur.idx.toNat + 1) := by
          unfold BTree.childOf
          simp [hget, hr, hgc]
        rw [hco]; exact hd
      · intro f l2 h2 hw2
        rcases Nat.le_total f0 f with hle | hle
        · rw [absNode_le t hwc hle]; exact ⟨rest, hrest⟩
        · rw [← absNode_le t hw2 hle]; exact ⟨rest, hrest⟩


theorem WF.count_eq {t : BTree} (h : WF t) (hr : t.root ≠ 0) : t.count = (t.abs.length : Int) := by
  unfold WF at h
  simp only [hr, if_false] at h
  exact h.2.2.2.2

theorem splice_two {x s s' : Item} {l l' : List Item} (h : Splice [x, s] [s', s] l l') :
    ∃ L R, l = L ++ x :: s :: R ∧ l' = L ++ s' :: s :: R := by
  obtain ⟨L, R, h1, h2⟩ := h
  exact ⟨L, R, by simpa using h1, by simpa using h2⟩

/-- the head of `RemoveCurrentItem` on the successor path: slot `i` of the inner node `n` gets the successor
    `(m, 0)`'s item, then `m` (which `removeItemOnNodeWithNilChild` does not handle) loses its slot 0 -/
theorem removeCurrent_succ_eq (t : BTree) (hwf : WF t) (hc : CursorOn t)
    (hch : (t.get t.cur.node).children.isSome = true)
    (hl : (t.get t.cur.node).child t.cur.idx.toNat ≠ 0) (hr : (t.get t.cur.node).child (t.cur.idx.toNat + 1) ≠ 0)
    (m : NodeId) (mn : Node) (hmv : t.moveToNext t.cur.node = (t.setCur m 0, true)) (hgm : t.get? m = some mn)
    (hmn : m ≠ t.cur.node) (hleaf : mn.children = none) :
    t.removeCurrent =
      ({ (((t.setCur m 0).upd t.cur.node (fun x => x.setSlot t.cur.idx.toNat (mn.slot 0))).fixVacatedSlot m).setCur 0 0 with
          count := ((((t.setCur m 0).upd t.cur.node (fun x => x.setSlot t.cur.idx.toNat (mn.slot 0))).fixVacatedSlot m).setCur 0 0).count - 1 },
        .ok true) := by
  obtain ⟨nd, hg, hcn, hid, hget, hi, hneg⟩ := hc.node
  have hroot := root_ne_zero_of_reach hc.1
  have hw := hwf
  unfold WF at hw
  simp only [hroot, if_false] at hw
  obtain ⟨f', p', lo', hi', _, hwn⟩ := wfNode_of_reach t _ _ _ _ _ _ hw.2.1 hc.1
  have hlive := slot_live hwn hg hi
  have hidm := get?_id hgm
  have hnone1 : t.removeItemOnNodeWithNilChild t.cur.node t.cur.idx.toNat = none := rnc_none t _ _ (Or.inr ⟨hl, hr⟩)
  have hg2 : ((t.setCur m 0).upd t.cur.node (fun x => x.setSlot t.cur.idx.toNat (mn.slot 0))).get? m = some mn := by
    rw [get?_upd_ne _ _ (by intro x; rfl) hmn]; exact hgm
  have hnone2 : ((t.setCur m 0).upd t.cur.node (fun x => x.setSlot t.cur.idx.toNat (mn.slot 0))).removeItemOnNodeWithNilChild m 0 = none := by
    apply rnc_none
    left
    rw [get_of_get? hg2, hleaf]; rfl
  rw [hget] at hch
  unfold BTree.removeCurrent
  rw [hcn]
  simp only [hneg, if_false, hlive, Node.hasChildren, hch, if_true, hid, hnone1, hmv, Bool.not_true, Bool.false_eq_true]
  have hgs : (t.setCur m 0).get? (t.setCur m 0).cur.node = some mn := hgm
  rw [hgs]
  simp only
  have hidx : (t.setCur m 0).cur.idx = 0 := rfl
  rw [hidx]
  simp only [Int.lt_irrefl, if_false, Int.toNat_zero, hidm, hnone2]

/-- INNER NODE, BOTH NEIGHBOUR CHILDREN LIVE, SUCCESSOR IN A LEAF: `RemoveCurrentItem` copies the in-order successor
    `s` (slot 0 of the leftmost leaf below child `idx + 1`) over the cursor's item and removes `s` from that leaf.
    The tree stays well-formed; the contents go from `L ++ x :: s :: R` through `L ++ s :: s :: R` to that list
    with ONE occurrence of `s` removed. -/
theorem removeCurrent_succ_leaf_ok (t : BTree) (hwf : WF t) (hp : t.panicked = false) (hc : CursorOn t)
    (hch : (t.get t.cur.node).children.isSome = true)
    (hl : (t.get t.cur.node).child t.cur.idx.toNat ≠ 0) (hr : (t.get t.cur.node).child (t.cur.idx.toNat + 1) ≠ 0)
    (hsucc : (t.get (t.moveToNext t.cur.node).1.cur.node).children = none) :
    WF t.removeCurrent.1 ∧ t.removeCurrent.1.panicked = false ∧ t.removeCurrent.2 = .ok true ∧
    t.removeCurrent.1.cur = { node := 0, idx := 0, cached := false } ∧ t.removeCurrent.1.count = t.count - 1 ∧
    ∃ L s R, t.abs = L ++ t.curItem :: s :: R ∧
      ∃ L2 R2, L ++ s :: s :: R = L2 ++ s :: R2 ∧ t.removeCurrent.1.abs = L2 ++ R2 := by
  obtain ⟨nd, hg, hcn, hid, hget, hi, hneg⟩ := hc.node
  have hroot := root_ne_zero_of_reach hc.1
  have hws := WF.wfs hwf hroot
  obtain ⟨m, mn, hmv, hmr, hgm, hmc, hmz, hmp, hmn, hmin⟩ := moveToNext_inner t hws hc hch hr
  have hleaf : mn.children = none := by
    rw [hmv] at hsucc
    have : (t.setCur m 0, true).1.cur.node = m := rfl
    rw [this, get_of_get? hgm] at hsucc
    exact hsucc
  rw [removeCurrent_succ_eq t hwf hc hch hl hr m mn hmv hgm hmn hleaf]
  rw [hget] at hch hl hr hmin
  -- step 1: the copy-up
  have hidp : ∀ x : Node, (x.setSlot t.cur.idx.toNat (mn.slot 0)).id = x.id := fun _ => rfl
  have h1 := wfs_of_ctx t (t.upd t.cur.node (fun x => x.setSlot t.cur.idx.toNat (mn.slot 0))) t.cur.node
    [nd.slot t.cur.idx.toNat, mn.slot 0] [mn.slot 0, mn.slot 0] hws hc.1 rfl rfl (by simp)
    (fun k hk => get?_upd_ne t _ hidp hk)
    (succ_local t t.cur.node t.cur.idx.toNat (mn.slot 0) nd _ hg hi rfl hr hmin)
  obtain ⟨hws1, hsp1, hreach1⟩ := h1
  have h2 := WFs.congr hws1 (t' := (t.setCur m 0).upd t.cur.node (fun x => x.setSlot t.cur.idx.toNat (mn.slot 0)))
    rfl rfl (by simp) (fun k => rfl)
  obtain ⟨hws2, habs2, hreach2⟩ := h2
  -- the cursor of the intermediate tree
  have hg2 : ((t.setCur m 0).upd t.cur.node (fun x => x.setSlot t.cur.idx.toNat (mn.slot 0))).get? m = some mn := by
    rw [get?_upd_ne _ _ (by intro x; rfl) hmn]; exact hgm
  have hcur2 : CursorOn ((t.setCur m 0).upd t.cur.node (fun x => x.setSlot t.cur.idx.toNat (mn.slot 0))) := by
    refine ⟨?_, Int.le_refl _, ?_⟩
    · rw [hreach2, hreach1]; exact hmr
    · show (0 : Int) < ((BTree.get _ m).count : Int)
      rw [get_of_get? hg2]; omega
  have hnr : m ≠ t.root := by
    intro h
    obtain ⟨mn', hgm', _, hpar0, _⟩ := wfs_node_facts hws hmr
    rw [hgm] at hgm'; cases hgm'
    exact hmp (hpar0 h)
  have h3 := fix_leaf _ hws2 hcur2 (by show (BTree.get _ m).children = none; rw [get_of_get? hg2]; exact hleaf) hnr
  obtain ⟨hws3, hpan3, hcnt3, L2, R2, hab3, hab3'⟩ := h3
  have hci : (BTree.curItem ((t.setCur m 0).upd t.cur.node (fun x => x.setSlot t.cur.idx.toNat (mn.slot 0)))) = mn.slot 0 := by
    show (BTree.get _ m).slot (0 : Int).toNat = _
    rw [get_of_get? hg2]; rfl
  rw [hci] at hab3
  -- the result
  have h4 := WFs.congr hws3
    (t' := { (((t.setCur m 0).upd t.cur.node (fun x => x.setSlot t.cur.idx.toNat (mn.slot 0))).fixVacatedSlot m).setCur 0 0 with
      count := ((((t.setCur m 0).upd t.cur.node (fun x => x.setSlot t.cur.idx.toNat (mn.slot 0))).fixVacatedSlot m).setCur 0 0).count - 1 })
    rfl rfl rfl (fun k => rfl)
  obtain ⟨hws4, habs4, _⟩ := h4
  obtain ⟨L, R, e1, e2⟩ := splice_two hsp1
  have hcount := WF.count_eq hwf hroot
  refine ⟨hws4.wf ?_, ?_, rfl, rfl, ?_, L, mn.slot 0, R, ?_, L2, R2, ?_, ?_⟩
  · rw [habs4, hab3']
    show (BTree.fixVacatedSlot _ m).count - 1 = _
    have e3 : (BTree.fixVacatedSlot ((t.setCur m 0).upd t.cur.node (fun x => x.setSlot t.cur.idx.toNat (mn.slot 0))) m).count
        = t.count := hcnt3
    rw [e3, hcount, e1]
    have : (L ++ mn.slot 0 :: mn.slot 0 :: R).length = (L2 ++ mn.slot 0 :: R2).length := by
      rw [← e2, ← habs2, hab3]
    simp only [List.length_append, List.length_cons] at this ⊢
    omega
  · show (BTree.fixVacatedSlot _ m).panicked = false
    have e3 : (BTree.fixVacatedSlot ((t.setCur m 0).upd t.cur.node (fun x => x.setSlot t.cur.idx.toNat (mn.slot 0))) m).panicked
        = t.panicked := hpan3
    rw [e3]; exact hp
  · show (BTree.fixVacatedSlot _ m).count - 1 = _
    have e3 : (BTree.fixVacatedSlot ((t.setCur m 0).upd t.cur.node (fun x => x.setSlot t.cur.idx.toNat (mn.slot 0))) m).count
        = t.count := hcnt3
    rw [e3]
  · unfold BTree.curItem; rw [hget]; exact e1
  · rw [← e2, ← habs2]; exact hab3
  · rw [habs4]; exact hab3'

/-- the specification-level reading: the result is a permutation of the old contents minus the cursor's item -/
theorem removeCurrent_succ_leaf_perm (t : BTree) (hwf : WF t) (hp : t.panicked = false) (hc : CursorOn t)
    (hch : (t.get t.cur.node).children.isSome = true)
    (hl : (t.get t.cur.node).child t.cur.idx.toNat ≠ 0) (hr : (t.get t.cur.node).child (t.cur.idx.toNat + 1) ≠ 0)
    (hsucc : (t.get (t.moveToNext t.cur.node).1.cur.node).children = none) :
    ∃ L R, t.abs = L ++ t.curItem :: R ∧ (L ++ R).Perm t.removeCurrent.1.abs := by
  obtain ⟨_, _, _, _, _, L, s, R, e1, L2, R2, e2, e3⟩ := removeCurrent_succ_leaf_ok t hwf hp hc hch hl hr hsucc
  refine ⟨L, s :: R, e1, ?_⟩
  rw [e3]
  have h1 : (L ++ s :: s :: R).Perm (s :: (L ++ s :: R)) := List.perm_middle
  have h2 : (L2 ++ s :: R2).Perm (s :: (L2 ++ R2)) := List.perm_middle
  rw [e2] at h1
  exact (h1.symm.trans h2).cons_inv

end Sop.BTree.Rem
