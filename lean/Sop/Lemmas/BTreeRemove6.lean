import Sop.Lemmas.BTreeRemove5
/-! C17, remove side of Model B, part 5: `removeItemOnNodeWithNilChild` on trees well-formed up to `count`
(`rnc_many_s`, `rnc_unlink_s`, `unlink_core`), the successor-path framework (`succ_setup`,
`removeCurrent_succ_rnc_eq`, `succ_finish`), and the `RemoveCurrentItem` branches
`removeCurrent_succ_inner_many_ok`, `removeCurrent_nilchild_unlink_ok`, `removeCurrent_succ_inner_unlink_ok`. -/
namespace Sop.BTree.Rem
open Sop.BTree
set_option linter.unusedVariables false
set_option linter.unusedSimpArgs false


/-- `removeItemOnNodeWithNilChild` on a reachable inner node that keeps an item, for a tree well-formed up to
    `count` (the cursor plays no role) -/
theorem rnc_many_s (t : BTree) (hws : WFs t) (n : NodeId) (nd : Node) (i : Nat)
    (hin : n ∈ reach t (t.nodes.length + 1) t.root) (hg : t.get? n = some nd) (hch : nd.children.isSome = true)
    (hi : i < nd.count) (hnil : nd.child i = 0 ∨ nd.child (i + 1) = 0) (hmany : 1 < nd.count) :
    t.removeItemOnNodeWithNilChild n i = some (t.upd n (rncUpd nd i), .ok true) ∧ WFs (t.upd n (rncUpd nd i)) ∧
      ∃ L R, t.abs = L ++ nd.slot i :: R ∧ (t.upd n (rncUpd nd i)).abs = L ++ R := by
  have hget := get_of_get? hg
  obtain ⟨nd0, hg0, hs, _, _⟩ := wfs_node_facts hws hin
  rw [hg] at hg0; cases hg0
  obtain ⟨cs, hcs⟩ : ∃ cs, nd.children = some cs := by
    cases h : nd.children with
    | none => rw [h] at hch; simp at hch
    | some cs => exact ⟨cs, rfl⟩
  have hidp : ∀ x : Node, (rncUpd nd i x).id = x.id := fun _ => rfl
  obtain ⟨hj, hz⟩ := nilPos_spec hs hi hnil
  refine ⟨?_, ?_⟩
  · rw [rnc_eq t _ _ nd hget hch hnil hi]
    unfold rncTail
    simp only [show ¬ (nd.count - 1 = 0) by omega, false_and, if_false]
    rfl
  · have h := wfs_of_ctx t (t.upd n (rncUpd nd i)) n [nd.slot i] [] hws hin rfl rfl (by simp)
      (fun k hk => get?_upd_ne t _ hidp hk)
      (rnc_local t _ n nd (rncNode nd i) i (nilPos nd i) rfl
        (fun k hk => get?_upd_ne t _ hidp hk) hg
        (by rw [get?_upd_eq t _ _ hidp, hg]; rfl)
        rfl (rncNode_shape hs hcs hi) (Or.inr (by simp [rncNode]; omega)) hi hj hz (rncNode_items hs hi)
        (rncNode_kids hs hcs hi))
    exact ⟨h.1, splice_del h.2.1⟩


/-- the tree after the copy-up of the successor path -/
def succTree (t : BTree) (m : NodeId) (s : Item) : BTree :=
  (t.setCur m 0).upd t.cur.node (fun x => x.setSlot t.cur.idx.toNat s)

/-- the successor path up to and including the copy-up: where the cursor lands, and what the intermediate tree is -/
theorem succ_setup (t : BTree) (hwf : WF t) (hc : CursorOn t)
    (hch : (t.get t.cur.node).children.isSome = true) (hr : (t.get t.cur.node).child (t.cur.idx.toNat + 1) ≠ 0) :
    ∃ m mn, t.moveToNext t.cur.node = (t.setCur m 0, true) ∧ t.get? m = some mn ∧ m ≠ t.cur.node ∧ 0 < mn.count ∧
      mn.child 0 = 0 ∧ m ≠ t.root ∧ m ≠ 0 ∧
      WFs (succTree t m (mn.slot 0)) ∧ (succTree t m (mn.slot 0)).get? m = some mn ∧
      m ∈ reach (succTree t m (mn.slot 0)) ((succTree t m (mn.slot 0)).nodes.length + 1) (succTree t m (mn.slot 0)).root ∧
      ∃ L R, t.abs = L ++ t.curItem :: mn.slot 0 :: R ∧ (succTree t m (mn.slot 0)).abs = L ++ mn.slot 0 :: mn.slot 0 :: R := by
  obtain ⟨nd, hg, hcn, hid, hget, hi, hneg⟩ := hc.node
  have hroot := root_ne_zero_of_reach hc.1
  have hws := WF.wfs hwf hroot
  obtain ⟨m, mn, hmv, hmr, hgm, hmc, hmz, hmp, hmn, hmin⟩ := moveToNext_inner t hws hc hch hr
  rw [hget] at hch hr hmin
  have hidp : ∀ x : Node, (x.setSlot t.cur.idx.toNat (mn.slot 0)).id = x.id := fun _ => rfl
  have h1 := wfs_of_ctx t (t.upd t.cur.node (fun x => x.setSlot t.cur.idx.toNat (mn.slot 0))) t.cur.node
    [nd.slot t.cur.idx.toNat, mn.slot 0] [mn.slot 0, mn.slot 0] hws hc.1 rfl rfl (by simp)
    (fun k hk => get?_upd_ne t _ hidp hk)
    (succ_local t t.cur.node t.cur.idx.toNat (mn.slot 0) nd _ hg hi rfl hr hmin)
  obtain ⟨hws1, hsp1, hreach1⟩ := h1
  have h2 := WFs.congr hws1 (t' := succTree t m (mn.slot 0)) rfl rfl (by simp [succTree]) (fun k => rfl)
  obtain ⟨hws2, habs2, hreach2⟩ := h2
  have hg2 : (succTree t m (mn.slot 0)).get? m = some mn := by
    unfold succTree
    rw [get?_upd_ne _ _ (by intro x; rfl) hmn]; exact hgm
  have hnr : m ≠ t.root := by
    intro h
    obtain ⟨mn', hgm', _, hpar0, _⟩ := wfs_node_facts hws hmr
    rw [hgm] at hgm'; cases hgm'
    exact hmp (hpar0 h)
  obtain ⟨L, R, e1, e2⟩ := splice_two hsp1
  refine ⟨m, mn, hmv, hgm, hmn, hmc, hmz, hnr, reach_ne_zero _ _ _ _ hmr, hws2, hg2, ?_, L, R, ?_, ?_⟩
  · rw [hreach2, hreach1]; exact hmr
  · unfold BTree.curItem; rw [hget]; exact e1
  · rw [habs2]; exact e2

/-- the continuation of `RemoveCurrentItem` on the successor path when `removeItemOnNodeWithNilChild` handles the
    successor's node -/
theorem removeCurrent_succ_rnc_eq (t : BTree) (hwf : WF t) (hc : CursorOn t)
    (hch : (t.get t.cur.node).children.isSome = true)
    (hl : (t.get t.cur.node).child t.cur.idx.toNat ≠ 0) (hr : (t.get t.cur.node).child (t.cur.idx.toNat + 1) ≠ 0)
    (m : NodeId) (mn : Node) (hmv : t.moveToNext t.cur.node = (t.setCur m 0, true)) (hgm : t.get? m = some mn)
    (u : BTree) (hrnc : (succTree t m (mn.slot 0)).removeItemOnNodeWithNilChild m 0 = some (u, .ok true)) :
    t.removeCurrent = ({ u.setCur 0 0 with count := u.count - 1 }, .ok true) := by
  obtain ⟨nd, hg, hcn, hid, hget, hi, hneg⟩ := hc.node
  have hroot := root_ne_zero_of_reach hc.1
  have hw := hwf
  unfold WF at hw
  simp only [hroot, if_false] at hw
  obtain ⟨f', p', lo', hi', _, hwn⟩ := wfNode_of_reach t _ _ _ _ _ _ hw.2.1 hc.1
  have hlive := slot_live hwn hg hi
  have hidm := get?_id hgm
  have hnone1 : t.removeItemOnNodeWithNilChild t.cur.node t.cur.idx.toNat = none := rnc_none t _ _ (Or.inr ⟨hl, hr⟩)
  unfold succTree at hrnc
  rw [hget] at hch
  unfold BTree.removeCurrent
  rw [hcn]
  simp only [hneg, if_false, hlive, Node.hasChildren, hch, if_true, hid, hnone1, hmv, Bool.not_true, Bool.false_eq_true]
  have hgs : (t.setCur m 0).get? (t.setCur m 0).cur.node = some mn := hgm
  rw [hgs]
  simp only
  have hidx : (t.setCur m 0).cur.idx = 0 := rfl
  rw [hidx]
  simp only [Int.lt_irrefl, if_false, Int.toNat_zero, hidm, hrnc]

/-- closing the successor path: from the tree `u` that lost one occurrence of the successor item -/
theorem succ_finish (t u : BTree) (s : Item) (hwf : WF t) (hroot : t.root ≠ 0) (hp : t.panicked = false) (hwsu : WFs u)
    (hpan : u.panicked = t.panicked) (hcnt : u.count = t.count)
    (L R L2 R2 : List Item) (e1 : t.abs = L ++ t.curItem :: s :: R) (e2 : L ++ s :: s :: R = L2 ++ s :: R2)
    (e3 : u.abs = L2 ++ R2) :
    WF ({ u.setCur 0 0 with count := u.count - 1 } : BTree) ∧ ({ u.setCur 0 0 with count := u.count - 1 } : BTree).panicked = false ∧
    ({ u.setCur 0 0 with count := u.count - 1 } : BTree).cur = { node := 0, idx := 0, cached := false } ∧
    ({ u.setCur 0 0 with count := u.count - 1 } : BTree).count = t.count - 1 ∧
    ∃ L s R, t.abs = L ++ t.curItem :: s :: R ∧
      ∃ L2 R2, L ++ s :: s :: R = L2 ++ s :: R2 ∧ ({ u.setCur 0 0 with count := u.count - 1 } : BTree).abs = L2 ++ R2 := by
  have h4 := WFs.congr hwsu (t' := { u.setCur 0 0 with count := u.count - 1 }) rfl rfl rfl (fun k => rfl)
  obtain ⟨hws4, habs4, _⟩ := h4
  have hcount := WF.count_eq hwf hroot
  refine ⟨hws4.wf ?_, by show u.panicked = false; rw [hpan]; exact hp, rfl, by show u.count - 1 = _; rw [hcnt],
    L, s, R, e1, L2, R2, e2, by rw [habs4]; exact e3⟩
  rw [habs4, e3]
  show u.count - 1 = _
  rw [hcnt, hcount, e1]
  have := congrArg List.length e2
  simp only [List.length_append, List.length_cons] at this ⊢
  omega


/-- INNER NODE, BOTH NEIGHBOUR CHILDREN LIVE, SUCCESSOR IN AN INNER NODE THAT KEEPS AN ITEM: the in-order successor
    is slot 0 of an inner node whose child 0 is nil; it is copied up and removed there by
    `removeItemOnNodeWithNilChild`. -/
theorem removeCurrent_succ_inner_many_ok (t : BTree) (hwf : WF t) (hp : t.panicked = false) (hc : CursorOn t)
    (hch : (t.get t.cur.node).children.isSome = true)
    (hl : (t.get t.cur.node).child t.cur.idx.toNat ≠ 0) (hr : (t.get t.cur.node).child (t.cur.idx.toNat + 1) ≠ 0)
    (hsch : (t.get (t.moveToNext t.cur.node).1.cur.node).children.isSome = true)
    (hsmany : 1 < (t.get (t.moveToNext t.cur.node).1.cur.node).count) :
    WF t.removeCurrent.1 ∧ t.removeCurrent.1.panicked = false ∧ t.removeCurrent.2 = .ok true ∧
    t.removeCurrent.1.cur = { node := 0, idx := 0, cached := false } ∧ t.removeCurrent.1.count = t.count - 1 ∧
    ∃ L s R, t.abs = L ++ t.curItem :: s :: R ∧
      ∃ L2 R2, L ++ s :: s :: R = L2 ++ s :: R2 ∧ t.removeCurrent.1.abs = L2 ++ R2 := by
  have hroot := root_ne_zero_of_reach hc.1
  obtain ⟨m, mn, hmv, hgm, hmn, hmc, hmz, hnr, hm0, hws2, hg2, hmr2, L, R, e1, e2⟩ := succ_setup t hwf hc hch hr
  have hM : (t.moveToNext t.cur.node).1.cur.node = m := by rw [hmv]; rfl
  rw [hM, get_of_get? hgm] at hsch hsmany
  obtain ⟨hrnc, hwsu, L2, R2, e3, e4⟩ := rnc_many_s _ hws2 m mn 0 hmr2 hg2 hsch hmc (Or.inl hmz) hsmany
  rw [removeCurrent_succ_rnc_eq t hwf hc hch hl hr m mn hmv hgm _ hrnc]
  obtain ⟨h1, h2, h3, h4, h5⟩ := succ_finish t _ (mn.slot 0) hwf hroot hp hwsu rfl rfl L R L2 R2 e1 (by rw [← e2]; exact e3) e4
  exact ⟨h1, h2, rfl, h3, h4, h5⟩


/-- `dropKid_local` for any child subtree that holds exactly one item in exactly one node -/
theorem dropKid_local' (t t' : BTree) (p n : NodeId) (pn pn' : Node) (x : Item) (i : Nat) (hsl : t'.sl = t.sl)
    (hout : ∀ k, k ≠ p → t'.get? k = t.get? k)
    (hg : t.get? p = some pn) (hg' : t'.get? p = some pn')
    (hpar : pn'.parent = pn.parent) (hcount : pn'.count = pn.count) (hitems : pn'.items = pn.items)
    (hshape : NodeShape t pn') (hkids : pn'.kids = pn.kids.set i 0) (hi : pn.kids[i]? = some n) (hn0 : n ≠ 0)
    (hone : ∀ f l h, WFNode t f n p l h → absNode t f n = [x] ∧ reach t f n = [n]) :
    ∀ f q lo hi, WFNode t f p q lo hi → (reach t f p).Nodup → Step t t' [x] [] [n] [] f p q lo hi
  | 0, _, _, _, h, _ => absurd h (by simp [WFNode])
  | f + 1, q, lo, hi', h, hnd => by
    obtain ⟨hp0, hq, hs, hne, hk⟩ := wfNode_kids h hg
    have hkf := kids_frame t t' p hsl hout hp0 hg hnd
    have hmem : n ∈ pn.kids := List.mem_of_getElem? hi
    obtain ⟨ln, hn', hwn⟩ : ∃ l h', WFNode t f n p l h' := by
      rcases KidsOk.mem _ _ _ _ hk n hmem with h | h
      · exact absurd h hn0
      · exact h
    obtain ⟨habs, hreach⟩ := hone f ln hn' hwn
    have hframe : ∀ c ∈ pn.kids.set i 0, absNode t' f c = absNode t f c ∧ reach t' f c = reach t f c := by
      intro c hc
      by_cases hc0 : c = 0
      · subst hc0; simp [absNode_zero, reach_zero]
      · have hc' : c ∈ pn.kids := by
          rcases List.mem_or_eq_of_mem_set hc with h | h
          · exact h
          · exact absurd h hc0
        rcases KidsOk.mem _ _ _ _ hk c hc' with h | ⟨l, h', hw⟩
        · exact absurd h hc0
        · exact (hkf c (mem_kids hc' hc0) l h' hw).2
    refine ⟨?_, ?_, ?_⟩
    · refine wfNode_of_kids hp0 hg' (by rw [hpar, hq]) (nodeShape_sl hsl hshape) (by rw [hcount]; exact hne) ?_
      rw [hkids, hitems]
      refine KidsOk.imp_mem _ _ _ _ ?_ (KidsOk.set_zero _ _ i _ _ hk)
      intro c hc l h' hw
      have hc0 : c ≠ 0 := by
        cases f with
        | zero => exact absurd hw (by simp [WFNode])
        | succ f => exact hw.1
      have hc' : c ∈ pn.kids := by
        rcases List.mem_or_eq_of_mem_set hc with h | h
        · exact h
        · exact absurd h hc0
      exact (hkf c (mem_kids hc' hc0) l h' hw).1
    · rw [absNode_kids f hp0 hg hs, absNode_kids f hp0 hg' (nodeShape_sl hsl hshape), hkids, hitems]
      rw [weave_congr (g := absNode t' f) (g' := absNode t f) _ _ (fun c hc => (hframe c hc).1)]
      rw [← habs]
      exact weave_set_kid _ (absNode_zero t f) _ _ _ hi
    · rw [reach_kids f hp0 hg, reach_kids f hp0 hg', hkids]
      rw [flatMap_congr' (f := reach t' f) (g := reach t f) _ (fun c hc => (hframe c hc).2)]
      rw [← hreach]
      exact (flatMap_set_kid _ (reach_zero t f) _ _ hi).cons p

/-- a node with one item and two nil kids -/
theorem kids_two_nil {t : BTree} {nd : Node} (hs : NodeShape t nd) (hone : nd.count = 1) (h0 : nd.child 0 = 0)
    (h1 : nd.child 1 = 0) : nd.kids = [0, 0] ∧ nd.items = [nd.slot 0] := by
  have hkl := Node.kids_length hs
  have hil := Node.items_length hs
  have e0 := Node.kids_getD hs (show 0 ≤ nd.count by omega)
  have e1 := Node.kids_getD hs (show 1 ≤ nd.count by omega)
  have i0 := Node.items_getD hs (show 0 < nd.count by omega)
  rw [h0] at e0; rw [h1] at e1
  rw [hone] at hkl hil
  constructor
  · cases hk : nd.kids with
    | nil => rw [hk] at hkl; simp at hkl
    | cons a l =>
      cases l with
      | nil => rw [hk] at hkl; simp at hkl
      | cons b l =>
        cases l with
        | nil => rw [hk] at e0 e1; simp at e0 e1; rw [e0, e1]
        | cons c l => rw [hk] at hkl; simp at hkl
  · cases hk : nd.items with
    | nil => rw [hk] at hil; simp at hil
    | cons a l =>
      cases l with
      | nil => rw [hk] at i0; simp at i0; rw [i0]
      | cons b l => rw [hk] at hil; simp at hil

theorem one_item_two_nil {t : BTree} {f : Nat} {n p : NodeId} {lo hi : Option Int} {nd : Node}
    (h : WFNode t f n p lo hi) (hg : t.get? n = some nd) (hone : nd.count = 1) (h0 : nd.child 0 = 0) (h1 : nd.child 1 = 0) :
    absNode t f n = [nd.slot 0] ∧ reach t f n = [n] := by
  cases f with
  | zero => exact absurd h (by simp [WFNode])
  | succ f =>
    obtain ⟨hn0, _, hs, _, _⟩ := wfNode_kids h hg
    obtain ⟨hk, hi'⟩ := kids_two_nil hs hone h0 h1
    constructor
    · rw [absNode_kids f hn0 hg hs, hk, hi']; simp [weave, absNode_zero]
    · rw [reach_kids f hn0 hg, hk]; simp [reach_zero]

/-- `unlink` of a non-root node whose subtree is one node with one item, after that node was rewritten by `G`
    (which keeps its id, parent link and memoised index) -/
theorem unlink_core (t : BTree) (hwf : WFs t) (n : NodeId) (cn : Node) (x : Item) (G : Node → Node)
    (hG : ∀ y, (G y).id = y.id) (hGp : (G cn).parent = cn.parent) (hGi : (G cn).ion = cn.ion)
    (hin : n ∈ reach t (t.nodes.length + 1) t.root) (hgn : t.get? n = some cn) (hnroot : n ≠ t.root)
    (hone : ∀ f p l h, WFNode t f n p l h → absNode t f n = [x] ∧ reach t f n = [n])
    (hself : ∀ i : Nat, cn.kids[i]? ≠ some n) :
    WFs ((t.upd n G).unlink n) ∧ ((t.upd n G).unlink n).panicked = t.panicked ∧ ((t.upd n G).unlink n).count = t.count ∧
    ∃ L R, t.abs = L ++ x :: R ∧ ((t.upd n G).unlink n).abs = L ++ R := by
  have hn0 := reach_ne_zero _ _ _ _ hin
  obtain ⟨hsl0, hr, hwt, hnd, hl⟩ := id hwf
  obtain ⟨p, pn, i0, hpin, hgp, hki, cn', hgn', hpar⟩ := parent_of_reach t _ _ _ _ _ _ hwt hin hnroot
  rw [hgn] at hgn'; cases hgn'
  have hp0 := reach_ne_zero _ _ _ _ hpin
  obtain ⟨pn', hgp', hsp, _, _⟩ := wfs_node_facts hwf hpin
  rw [hgp] at hgp'; cases hgp'
  obtain ⟨cn', hgn', hsn, _, _⟩ := wfs_node_facts hwf hin
  rw [hgn] at hgn'; cases hgn'
  obtain ⟨cs, hcs⟩ : ∃ cs, pn.children = some cs := by
    cases hch : pn.children with
    | none => exact absurd (kids_leaf_zero hch hki) hn0
    | some cs => exact ⟨cs, rfl⟩
  have hpn : p ≠ n := by
    intro h
    rw [h, hgn] at hgp; cases hgp
    exact hself i0 hki
  have hsz := (hsp.2.2.2.2 cs hcs).1
  have hk : pn.kids = cs.toList.take (pn.count + 1) := by unfold Node.kids; rw [hcs]
  have hi0 : i0 < pn.count + 1 ∧ cs.toList[i0]? = some n := by
    rw [hk, List.getElem?_take] at hki
    split at hki
    · exact ⟨by assumption, hki⟩
    · cases hki
  have hcj : cs.getD i0 0 = n := by
    rw [Array.getD_eq_getD_getElem?, ← Array.getElem?_toList, hi0.2]; rfl
  have hgp1 : (t.upd n G).get? p = some pn := by rw [get?_upd_ne t G hG hpn]; exact hgp
  have hgn1 : (t.upd n G).get? n = some (G cn) := by rw [get?_upd_eq t n G hG, hgn]; rfl
  obtain ⟨i, g, hg, hioc, hci, hilt⟩ := getIndexOfChild_spec (t.upd n G) p n pn (G cn) cs hgp1 hgn1 hcs hsz hsp.1
    (by rw [hGi]; exact hsn.2.2.1) hn0 i0 (by have := hsp.2.1; show i0 ≤ t.sl; omega) hcj
  have hile := kid_index_le hsp hcs hilt hci hn0
  rw [unlink_eq (t.upd n G) p n pn (G cn) cs hgp1 hgn1 (by rw [hGp]; exact hpar) hp0 hpn hcs i g hg hioc hilt]
  have hdk := dropKid_id i
  have hstep := ctx t (t.upd p (dropKid i)) p [x] [] [n] [] rfl
    (fun k hk => get?_upd_ne t _ hdk hk)
    (dropKid_local' t _ p n pn (dropKid i pn) x i rfl (fun k hk => get?_upd_ne t _ hdk hk) hgp
      (by rw [get?_upd_eq t _ _ hdk, hgp]; rfl) (dropKid_parent _ _) (dropKid_count _ _) (dropKid_items _ _)
      (dropKid_shape hsp hcs hile) (dropKid_kids hsp hcs i) (kids_getElem? hsp hcs hilt hci hn0) hn0
      (fun f l h hw => hone f p l h hw))
    _ _ _ _ _ hwt hnd hpin
  have hgetU : ∀ k, k ≠ n →
      ((((t.upd n G).upd n g).upd p (dropKid i)).del n).get? k = (t.upd p (dropKid i)).get? k := by
    intro k hk
    rw [get?_del _ hn0, if_neg hk, get?_upd _ _ _ _ hdk, get?_upd_ne _ g hg hk, get?_upd_ne t G hG hk,
      get?_upd _ _ _ _ hdk]
  have hlenU : ((((t.upd n G).upd n g).upd p (dropKid i)).del n).nodes.length < t.nodes.length := by
    have hgu : (((t.upd n G).upd n g).upd p (dropKid i)).get? n = some (g (G cn)) := by
      rw [get?_upd_ne _ _ hdk hpn.symm, get?_upd_eq _ _ _ hg, hgn1]; rfl
    have := del_length_lt _ hn0 hgu
    simpa using this
  have h := wfs_after_drop t (t.upd p (dropKid i)) ((((t.upd n G).upd n g).upd p (dropKid i)).del n)
    n x hwf rfl hstep (del_sl _ _) (del_root _ _) hgetU hlenU
  exact ⟨h.1, by rw [del_panicked]; rfl, by rw [del_count]; rfl, h.2.2⟩


/-- `removeItemOnNodeWithNilChild` on a non-root inner node with one item and no live child: the node is unlinked -/
theorem rnc_unlink_s (t : BTree) (hws : WFs t) (n : NodeId) (nd : Node)
    (hin : n ∈ reach t (t.nodes.length + 1) t.root) (hg : t.get? n = some nd) (hch : nd.children.isSome = true)
    (hone : nd.count = 1) (h0 : nd.child 0 = 0) (h1 : nd.child 1 = 0) (hnroot : n ≠ t.root) :
    t.removeItemOnNodeWithNilChild n 0 = some ((t.upd n (rncUpd nd 0)).unlink n, .ok true) ∧
    WFs ((t.upd n (rncUpd nd 0)).unlink n) ∧ ((t.upd n (rncUpd nd 0)).unlink n).panicked = t.panicked ∧
    ((t.upd n (rncUpd nd 0)).unlink n).count = t.count ∧
    ∃ L R, t.abs = L ++ nd.slot 0 :: R ∧ ((t.upd n (rncUpd nd 0)).unlink n).abs = L ++ R := by
  have hget := get_of_get? hg
  have hn0 := reach_ne_zero _ _ _ _ hin
  obtain ⟨nd0, hg0, hs, _, _⟩ := wfs_node_facts hws hin
  rw [hg] at hg0; cases hg0
  obtain ⟨cs, hcs⟩ : ∃ cs, nd.children = some cs := by
    cases h : nd.children with
    | none => rw [h] at hch; simp at hch
    | some cs => exact ⟨cs, rfl⟩
  have hi : 0 < nd.count := by omega
  obtain ⟨hkk, hii⟩ := kids_two_nil hs hone h0 h1
  have hk0 : (rncKids nd 0).getD 0 0 = 0 := by
    rw [rncKids_getD0 hs hcs hi, hkk]
    have : nilPos nd 0 = 0 := by simp [nilPos, h0]
    rw [this]; rfl
  refine ⟨?_, ?_⟩
  · rw [rnc_eq t _ _ nd hget hch (Or.inl h0) hi]
    unfold rncTail
    simp only
    rw [if_neg (by rw [hk0]; simp), if_pos (by omega)]
    rfl
  · refine unlink_core t hws n nd (nd.slot 0) (rncUpd nd 0) (fun _ => rfl) rfl rfl hin hg hnroot ?_ ?_
    · intro f p l h hw
      exact one_item_two_nil hw hg hone h0 h1
    · intro i hi'
      rw [hkk] at hi'
      have : n = 0 := by
        rcases i with _ | _ | i
        · simpa using hi'.symm
        · simpa using hi'.symm
        · simp at hi'
      exact hn0 this

/-- INNER NON-ROOT NODE WITH ONE ITEM AND NO LIVE CHILD: `RemoveCurrentItem` unlinks the node. -/
theorem removeCurrent_nilchild_unlink_ok (t : BTree) (hwf : WF t) (hp : t.panicked = false) (hc : CursorOn t)
    (hch : (t.get t.cur.node).children.isSome = true) (hone : (t.get t.cur.node).count = 1)
    (h0 : (t.get t.cur.node).child 0 = 0) (h1 : (t.get t.cur.node).child 1 = 0) (hnroot : t.cur.node ≠ t.root) :
    WF t.removeCurrent.1 ∧ t.removeCurrent.1.panicked = false ∧ t.removeCurrent.2 = .ok true ∧
    t.removeCurrent.1.cur = { node := 0, idx := 0, cached := false } ∧ t.removeCurrent.1.count = t.count - 1 ∧
    ∃ L R, t.abs = L ++ t.curItem :: R ∧ t.removeCurrent.1.abs = L ++ R := by
  obtain ⟨nd, hg, hcn, hid, hget, hi, hneg⟩ := hc.node
  have hroot := root_ne_zero_of_reach hc.1
  have hws := WF.wfs hwf hroot
  rw [hget] at hch hone h0 h1
  have hpos : t.cur.idx.toNat = 0 := by omega
  obtain ⟨hrnc, hwsu, hpan, hcnt, L, R, e1, e2⟩ := rnc_unlink_s t hws t.cur.node nd hc.1 hg hch hone h0 h1 hnroot
  rw [removeCurrent_of_rnc t hwf hc (by rw [hget]; exact hch) _ (by rw [hpos]; exact hrnc)]
  have h4 := WFs.congr hwsu
    (t' := { ((t.upd t.cur.node (rncUpd nd 0)).unlink t.cur.node).setCur 0 0 with
      count := ((t.upd t.cur.node (rncUpd nd 0)).unlink t.cur.node).count - 1 }) rfl rfl rfl (fun k => rfl)
  obtain ⟨hws4, habs4, _⟩ := h4
  have hcount := WF.count_eq hwf hroot
  refine ⟨hws4.wf ?_, by show (BTree.unlink _ _).panicked = false; rw [hpan]; exact hp, rfl, rfl,
    by show (BTree.unlink _ _).count - 1 = _; rw [hcnt], L, R, ?_, by rw [habs4]; exact e2⟩
  · rw [habs4, e2]
    show (BTree.unlink _ _).count - 1 = _
    rw [hcnt, hcount, e1]
    simp only [List.length_append, List.length_cons]
    omega
  · unfold BTree.curItem; rw [hget, hpos]; exact e1

/-- INNER NODE, BOTH NEIGHBOUR CHILDREN LIVE, SUCCESSOR IN AN INNER NODE WITH ONE ITEM AND NO LIVE CHILD: the
    successor's node is unlinked after the copy-up. -/
theorem removeCurrent_succ_inner_unlink_ok (t : BTree) (hwf : WF t) (hp : t.panicked = false) (hc : CursorOn t)
    (hch : (t.get t.cur.node).children.isSome = true)
    (hl : (t.get t.cur.node).child t.cur.idx.toNat ≠ 0) (hr : (t.get t.cur.node).child (t.cur.idx.toNat + 1) ≠ 0)
    (hsch : (t.get (t.moveToNext t.cur.node).1.cur.node).children.isSome = true)
    (hsone : (t.get (t.moveToNext t.cur.node).1.cur.node).count = 1)
    (hs1 : (t.get (t.moveToNext t.cur.node).1.cur.node).child 1 = 0) :
    WF t.removeCurrent.1 ∧ t.removeCurrent.1.panicked = false ∧ t.removeCurrent.2 = .ok true ∧
    t.removeCurrent.1.cur = { node := 0, idx := 0, cached := false } ∧ t.removeCurrent.1.count = t.count - 1 ∧
    ∃ L s R, t.abs = L ++ t.curItem :: s :: R ∧
      ∃ L2 R2, L ++ s :: s :: R = L2 ++ s :: R2 ∧ t.removeCurrent.1.abs = L2 ++ R2 := by
  have hroot := root_ne_zero_of_reach hc.1
  obtain ⟨m, mn, hmv, hgm, hmn, hmc, hmz, hnr, hm0, hws2, hg2, hmr2, L, R, e1, e2⟩ := succ_setup t hwf hc hch hr
  have hM : (t.moveToNext t.cur.node).1.cur.node = m := by rw [hmv]; rfl
  rw [hM, get_of_get? hgm] at hsch hsone hs1
  obtain ⟨hrnc, hwsu, hpan, hcnt, L2, R2, e3, e4⟩ := rnc_unlink_s _ hws2 m mn hmr2 hg2 hsch hsone hmz hs1 hnr
  rw [removeCurrent_succ_rnc_eq t hwf hc hch hl hr m mn hmv hgm _ hrnc]
  obtain ⟨h1, h2, h3, h4, h5⟩ := succ_finish t _ (mn.slot 0) hwf hroot hp hwsu hpan hcnt L R L2 R2 e1
    (by rw [← e2]; exact e3) e4
  exact ⟨h1, h2, rfl, h3, h4, h5⟩

end Sop.BTree.Rem
