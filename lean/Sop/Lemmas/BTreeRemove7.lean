import Sop.Lemmas.BTreeRemove6
/-! C17, remove side of Model B, part 6: `promoteSingleChildAsParentChild`. The context lemma for changes
confined to one subtree (`ctx2`), replacing a kid (`KidsOk.set_kid`, `weave_set_kid2`), re-parenting a subtree
(`reparent_local`), the local step (`promote_local`), `promoteSingleChild_eq`, `promote_core`, `rnc_promote_s`,
and the `RemoveCurrentItem` branches `removeCurrent_nilchild_promote_ok`, `removeCurrent_succ_inner_promote_ok`. -/
namespace Sop.BTree.Rem
open Sop.BTree
set_option linter.unusedVariables false
set_option linter.unusedSimpArgs false


theorem nodup_flatMap_disjoint {α β : Type} (r : α → List β) : ∀ (l : List α), (l.flatMap r).Nodup →
    ∀ a ∈ l, ∀ b ∈ l, a ≠ b → ∀ k, k ∈ r a → k ∈ r b → False
  | [], _, a, ha, _, _, _, _, _, _ => by simp at ha
  | x :: l, hnd, a, ha, b, hb, hab, k, hka, hkb => by
    simp only [List.flatMap_cons] at hnd
    obtain ⟨_, hl, hd⟩ := List.nodup_append.mp hnd
    rcases List.mem_cons.mp ha with rfl | ha'
    · rcases List.mem_cons.mp hb with rfl | hb'
      · exact hab rfl
      · exact hd k hka k (List.mem_flatMap.mpr ⟨b, hb', hkb⟩) rfl
    · rcases List.mem_cons.mp hb with rfl | hb'
      · exact hd k hkb k (List.mem_flatMap.mpr ⟨a, ha', hka⟩) rfl
      · exact nodup_flatMap_disjoint r l hl a ha' b hb' hab k hka hkb

/-- everything below `n` (at the repository-size fuel) is below any well-formed subtree that reaches `n` -/
theorem below (t : BTree) {f : Nat} {c q : NodeId} {lo hi : Option Int} {n : NodeId} (hw : WFNode t f c q lo hi)
    (hnc : n ∈ reach t f c) (hF : f ≤ t.nodes.length + 1) : ∀ k ∈ reach t (t.nodes.length + 1) n, k ∈ reach t f c := by
  intro k hk
  obtain ⟨fn, pn, ln, hn, hfn, hwn⟩ := wfNode_of_reach t f c q lo hi n hw hnc
  rw [reach_le t hwn (by omega)] at hk
  exact reach_trans t f c q lo hi n hw hnc fn k hfn hk

/-- the context lemma when everything that changed lies in the subtree of `n` -/
theorem ctx2 (t t' : BTree) (n : NodeId) (X X' : List Item) (Y Y' : List NodeId) (hsl : t'.sl = t.sl)
    (hout : ∀ k, k ∉ reach t (t.nodes.length + 1) n → t'.get? k = t.get? k)
    (hloc : ∀ f p lo hi, f ≤ t.nodes.length + 1 → WFNode t f n p lo hi → (reach t f n).Nodup → Step t t' X X' Y Y' f n p lo hi) :
    ∀ (f : Nat) (m p : NodeId) (lo hi : Option Int), f ≤ t.nodes.length + 1 → WFNode t f m p lo hi → (reach t f m).Nodup →
      n ∈ reach t f m → Step t t' X X' Y Y' f m p lo hi
  | 0, _, _, _, _, _, h, _, _ => absurd h (by simp [WFNode])
  | f + 1, m, p, lo, hi, hF, h, hnd, hin => by
    by_cases hmn : m = n
    · subst hmn; exact hloc _ _ _ _ hF h hnd
    · obtain ⟨hn, nd, hg, hp, hs, hne, hbody⟩ := h
      have hr := reach_unfold (f := f) hn hg
      rw [hr] at hnd hin
      have hin' : n ∈ ((nd.children.getD #[]).toList.take (nd.count + 1)).flatMap (reach t f) := by
        rcases List.mem_cons.mp hin with h | h
        · exact absurd h.symm hmn
        · exact h
      have hnd' := (List.nodup_cons.mp hnd).2
      have hmnot := (List.nodup_cons.mp hnd).1
      cases hc : nd.children with
      | none => rw [hc] at hin'; simp at hin'
      | some cs =>
        rw [hc] at hbody hin' hnd' hmnot
        simp only [Option.getD_some] at hin' hnd' hmnot
        -- the child on the path to `n`
        obtain ⟨cj, hcj, hncj⟩ := List.mem_flatMap.mp hin'
        obtain ⟨lj, hj, hwj⟩ : ∃ l h', WFNode t f cj m l h' := by
          rcases KidsOk.mem _ _ _ _ hbody cj hcj with rfl | h
          · rw [reach_zero] at hncj; simp at hncj
          · exact h
        have hbelow := below t hwj hncj (by omega)
        have hg' : t'.get? m = some nd := by
          rw [hout m (fun hm => hmnot (List.mem_flatMap.mpr ⟨cj, hcj, hbelow m hm⟩))]; exact hg
        have hkid_out : ∀ c ∈ cs.toList.take (nd.count + 1), n ∉ reach t f c → ∀ l h', WFNode t f c m l h' →
            WFNode t' f c m l h' ∧ absNode t' f c = absNode t f c ∧ reach t' f c = reach t f c := by
          intro c hcm hnc l h' hw
          refine frame_out t t' hsl f c m l h' hw (fun k hk => hout k (fun hkn => ?_))
          have hne' : c ≠ cj := fun h => hnc (h ▸ hncj)
          exact nodup_flatMap_disjoint _ _ hnd' c hcm cj hcj hne' k hk (hbelow k hkn)
        have hkid_in : ∀ c ∈ cs.toList.take (nd.count + 1), n ∈ reach t f c → (reach t f c).Nodup → ∀ l h',
            WFNode t f c m l h' → Step t t' X X' Y Y' f c m l h' := by
          intro c hcm hnc hndc l h' hw
          exact ctx2 t t' n X X' Y Y' hsl hout hloc f c m l h' (by omega) hw hndc hnc
        have hsubnd : ∀ c ∈ cs.toList.take (nd.count + 1), (reach t f c).Nodup := by
          intro c hcm
          obtain ⟨l1, l2, hl⟩ := List.append_of_mem hcm
          rw [hl, List.flatMap_append, List.flatMap_cons] at hnd'
          exact (List.nodup_append.mp (List.nodup_append.mp hnd').2.1).1
        refine ⟨⟨hn, nd, hg', hp, nodeShape_sl hsl hs, hne, ?_⟩, ?_, ?_⟩
        · rw [hc]
          refine KidsOk.imp_mem _ _ _ _ ?_ hbody
          intro c hcm l h' hw
          by_cases hnc : n ∈ reach t f c
          · exact (hkid_in c hcm hnc (hsubnd c hcm) l h' hw).1
          · exact (hkid_out c hcm hnc l h' hw).1
        · rw [absNode, absNode]
          simp only [hn, if_false, hg, hg', hc]
          apply weave_ctx (r := reach t f) _ _ hnd' hin'
          · intro c hcm hnc
            rcases KidsOk.mem _ _ _ _ hbody c hcm with rfl | ⟨l, h', hw⟩
            · rw [absNode_zero, absNode_zero]
            · exact (hkid_out c hcm hnc l h' hw).2.1.symm
          · intro c hcm hnc hndc
            rcases KidsOk.mem _ _ _ _ hbody c hcm with rfl | ⟨l, h', hw⟩
            · rw [reach_zero] at hnc; simp at hnc
            · exact (hkid_in c hcm hnc hndc l h' hw).2.1
        · rw [hr, reach_unfold hn hg', hc]
          simp only [Option.getD_some]
          apply Splice.cons
          apply flatMap_ctx _ hnd' hin'
          · intro c hcm hnc
            rcases KidsOk.mem _ _ _ _ hbody c hcm with rfl | ⟨l, h', hw⟩
            · rw [reach_zero, reach_zero]
            · exact (hkid_out c hcm hnc l h' hw).2.2.symm
          · intro c hcm hnc hndc
            rcases KidsOk.mem _ _ _ _ hbody c hcm with rfl | ⟨l, h', hw⟩
            · rw [reach_zero] at hnc; simp at hnc
            · exact (hkid_in c hcm hnc hndc l h' hw).2.2


/-! ### replacing the kid at one position -/

theorem KidsOk.set_kid {P Q : NodeId → Option Int → Option Int → Prop} {n c : NodeId} (hn : ∀ l h, P n l h → Q c l h) :
    ∀ (i : Nat) (cs : List NodeId) (is : List Item) (lo hi : Option Int), cs[i]? = some n → n ≠ 0 →
      (∀ (j : Nat) k, j ≠ i → cs[j]? = some k → ∀ l h, P k l h → Q k l h) →
      KidsOk P lo hi cs is → KidsOk Q lo hi (cs.set i c) is
  | _, [], _, _, _, h, _, _, _ => by simp at h
  | 0, k :: cs, [], lo, hi, h, hn0, ho, hk => by
    simp only [List.getElem?_cons_zero, Option.some.injEq] at h
    subst h
    obtain ⟨h1, h2⟩ := hk
    rcases h1 with h1 | h1
    · exact absurd h1 hn0
    · exact ⟨Or.inr (hn _ _ h1), h2⟩
  | 0, k :: cs, a :: is, lo, hi, h, hn0, ho, hk => by
    simp only [List.getElem?_cons_zero, Option.some.injEq] at h
    subst h
    obtain ⟨h1, h2, h3, h4, h5⟩ := hk
    rcases h1 with h1 | h1
    · exact absurd h1 hn0
    · refine ⟨Or.inr (hn _ _ h1), h2, h3, h4, ?_⟩
      exact KidsOk.imp_idx cs is _ _ (fun j k' hj => ho (j + 1) k' (by omega) (by simpa using hj)) h5
  | i + 1, k :: cs, [], lo, hi, h, hn0, ho, hk => by
    obtain ⟨h1, h2⟩ := hk
    subst h2; simp at h
  | i + 1, k :: cs, a :: is, lo, hi, h, hn0, ho, hk => by
    obtain ⟨h1, h2, h3, h4, h5⟩ := hk
    simp only [List.set_cons_succ]
    exact ⟨h1.imp id (ho 0 k (by omega) rfl _ _), h2, h3, h4,
      KidsOk.set_kid hn i cs is _ _ (by simpa using h) hn0
        (fun j k' hj hjk => ho (j + 1) k' (by omega) (by simpa using hjk)) h5⟩
where
  KidsOk.imp_idx {P Q : NodeId → Option Int → Option Int → Prop} : ∀ (cs : List NodeId) (is : List Item) (lo hi : Option Int),
      (∀ (j : Nat) k, cs[j]? = some k → ∀ l h, P k l h → Q k l h) → KidsOk P lo hi cs is → KidsOk Q lo hi cs is
    | [], _, _, _, _, _ => trivial
    | k :: cs, [], lo, hi, ho, h => ⟨h.1.imp id (ho 0 k rfl _ _), h.2⟩
    | k :: cs, a :: is, lo, hi, ho, h =>
      ⟨h.1.imp id (ho 0 k rfl _ _), h.2.1, h.2.2.1, h.2.2.2.1,
        KidsOk.imp_idx cs is _ _ (fun j k' hj => ho (j + 1) k' (by simpa using hj)) h.2.2.2.2⟩

theorem weave_congr_idx {g g' : NodeId → List Item} : ∀ (cs : List NodeId) (is : List Item),
    (∀ (j : Nat) k, cs[j]? = some k → g' k = g k) → weave g' cs is = weave g cs is
  | [], _, _ => by simp [weave]
  | k :: cs, [], h => by
    simp only [weave]
    rw [h 0 k rfl, weave_congr_idx cs [] (fun j k' hj => h (j + 1) k' (by simpa using hj))]
  | k :: cs, a :: is, h => by
    simp only [weave]
    rw [h 0 k rfl, weave_congr_idx cs is (fun j k' hj => h (j + 1) k' (by simpa using hj))]

theorem weave_set_kid2 {g g' : NodeId → List Item} {X : List Item} {n c : NodeId} (hnc : Splice X [] (g n) (g' c)) :
    ∀ (i : Nat) (cs : List NodeId) (is : List Item), cs[i]? = some n →
      (∀ (j : Nat) k, j ≠ i → cs[j]? = some k → g' k = g k) →
      Splice X [] (weave g cs is) (weave g' (cs.set i c) is)
  | _, [], _, h, _ => by simp at h
  | 0, k :: cs, is, h, ho => by
    simp only [List.getElem?_cons_zero, Option.some.injEq] at h
    subst h
    have hrest : ∀ is', weave g' cs is' = weave g cs is' := fun is' =>
      weave_congr_idx cs is' (fun j k' hj => ho (j + 1) k' (by omega) (by simpa using hj))
    cases is with
    | nil => simp only [List.set_cons_zero, weave, hrest]; exact hnc.post _
    | cons a is => simp only [List.set_cons_zero, weave, hrest]; exact hnc.post _
  | i + 1, k :: cs, is, h, ho => by
    have h0 : g' k = g k := ho 0 k (by omega) rfl
    have ih := fun is' => weave_set_kid2 hnc i cs is' (by simpa using h)
      (fun j k' hj hjk => ho (j + 1) k' (by omega) (by simpa using hjk))
    cases is with
    | nil => simp only [List.set_cons_succ, weave, h0]; exact (ih []).pre _
    | cons a is => simp only [List.set_cons_succ, weave, h0]; exact ((ih is).cons a).pre _

theorem flatMap_congr_idx {r r' : NodeId → List NodeId} : ∀ (cs : List NodeId),
    (∀ (j : Nat) k, cs[j]? = some k → r' k = r k) → cs.flatMap r' = cs.flatMap r
  | [], _ => rfl
  | k :: cs, h => by
    simp only [List.flatMap_cons]
    rw [h 0 k rfl, flatMap_congr_idx cs (fun j k' hj => h (j + 1) k' (by simpa using hj))]

theorem flatMap_set_kid2 {r r' : NodeId → List NodeId} {Y : List NodeId} {n c : NodeId} (hnc : Splice Y [] (r n) (r' c)) :
    ∀ (i : Nat) (cs : List NodeId), cs[i]? = some n →
      (∀ (j : Nat) k, j ≠ i → cs[j]? = some k → r' k = r k) →
      Splice Y [] (cs.flatMap r) ((cs.set i c).flatMap r')
  | _, [], h, _ => by simp at h
  | 0, k :: cs, h, ho => by
    simp only [List.getElem?_cons_zero, Option.some.injEq] at h
    subst h
    simp only [List.set_cons_zero, List.flatMap_cons]
    rw [flatMap_congr_idx cs (fun j k' hj => ho (j + 1) k' (by omega) (by simpa using hj))]
    exact hnc.post _
  | i + 1, k :: cs, h, ho => by
    simp only [List.set_cons_succ, List.flatMap_cons]
    rw [ho 0 k (by omega) rfl]
    exact (flatMap_set_kid2 hnc i cs (by simpa using h)
      (fun j k' hj hjk => ho (j + 1) k' (by omega) (by simpa using hjk))).pre _

/-- in a duplicate-free visiting order a live kid occurs at one position only -/
theorem kid_unique {r : NodeId → List NodeId} {n : NodeId} (hn : n ∈ r n) : ∀ (cs : List NodeId) (i j : Nat),
    (cs.flatMap r).Nodup → cs[i]? = some n → cs[j]? = some n → i = j
  | [], _, _, _, h, _ => by simp at h
  | k :: cs, 0, 0, _, _, _ => rfl
  | k :: cs, 0, j + 1, hnd, hi, hj => by
    simp only [List.getElem?_cons_zero, Option.some.injEq] at hi
    subst hi
    simp only [List.flatMap_cons] at hnd
    have hm : k ∈ cs := List.mem_of_getElem? (by simpa using hj)
    exact absurd rfl ((List.nodup_append.mp hnd).2.2 k hn k (List.mem_flatMap.mpr ⟨k, hm, hn⟩))
  | k :: cs, i + 1, 0, hnd, hi, hj => by
    simp only [List.getElem?_cons_zero, Option.some.injEq] at hj
    subst hj
    simp only [List.flatMap_cons] at hnd
    have hm : k ∈ cs := List.mem_of_getElem? (by simpa using hi)
    exact absurd rfl ((List.nodup_append.mp hnd).2.2 k hn k (List.mem_flatMap.mpr ⟨k, hm, hn⟩))
  | k :: cs, i + 1, j + 1, hnd, hi, hj => by
    simp only [List.flatMap_cons] at hnd
    have := kid_unique hn cs i j (List.nodup_append.mp hnd).2.1 (by simpa using hi) (by simpa using hj)
    omega

/-- the subtree at `c` when only `c`'s parent link changed -/
theorem reparent_local (t T : BTree) (c p' : NodeId) (cn : Node) (hsl : T.sl = t.sl)
    (hgc : t.get? c = some cn) (hgc' : T.get? c = some { cn with parent := p' }) :
    ∀ (f : Nat) (q : NodeId) (l h : Option Int), q ≠ 0 → WFNode t f c q l h → (reach t f c).Nodup →
      (∀ k ∈ reach t f c, k ≠ c → T.get? k = t.get? k) →
      WFNode T f c p' l h ∧ absNode T f c = absNode t f c ∧ reach T f c = reach t f c
  | 0, _, _, _, _, hw, _, _ => absurd hw (by simp [WFNode])
  | f + 1, q, l, h, hq, hw, hnd, ho => by
    obtain ⟨hc0, hpar, hs, hne, hk⟩ := wfNode_kids hw hgc
    have hr := reach_kids f hc0 hgc
    rw [hr] at hnd ho
    have hcnot := (List.nodup_cons.mp hnd).1
    have hframe : ∀ k ∈ cn.kids, ∀ l' h', WFNode t f k c l' h' →
        WFNode T f k c l' h' ∧ absNode T f k = absNode t f k ∧ reach T f k = reach t f k := by
      intro k hkm l' h' hwk
      apply frame_out t T hsl f k c l' h' hwk
      intro j hj
      have hjm : j ∈ cn.kids.flatMap (reach t f) := List.mem_flatMap.mpr ⟨k, hkm, hj⟩
      exact ho j (List.mem_cons_of_mem _ hjm) (fun hjc => hcnot (hjc ▸ hjm))
    have hs' : NodeShape t ({ cn with parent := p' } : Node) := hs
    have hframe2 : ∀ k ∈ cn.kids, absNode T f k = absNode t f k ∧ reach T f k = reach t f k := by
      intro k hkm
      rcases KidsOk.mem _ _ _ _ hk k hkm with rfl | ⟨l', h', hwk⟩
      · simp [absNode_zero, reach_zero]
      · exact (hframe k hkm l' h' hwk).2
    refine ⟨?_, ?_, ?_⟩
    · refine wfNode_of_kids hc0 hgc' rfl (nodeShape_sl hsl hs') ?_ ?_
      · right; rcases hne with h | h; exact absurd h hq; exact h
      · exact KidsOk.imp_mem _ _ _ _ (fun k hkm l' h' hwk => (hframe k hkm l' h' hwk).1) hk
    · rw [absNode_kids f hc0 hgc hs, absNode_kids f hc0 hgc' (nodeShape_sl hsl hs')]
      exact weave_congr _ _ (fun k hkm => (hframe2 k hkm).1)
    · rw [hr, reach_kids f hc0 hgc']
      congr 1
      exact flatMap_congr' _ (fun k hkm => (hframe2 k hkm).2)


theorem one_item {t : BTree} {nd : Node} (hs : NodeShape t nd) (hone : nd.count = 1) : nd.items = [nd.slot 0] := by
  have hil := Node.items_length hs
  have i0 := Node.items_getD hs (show 0 < nd.count by omega)
  rw [hone] at hil
  cases hk : nd.items with
  | nil => rw [hk] at hil; simp at hil
  | cons a l =>
    cases l with
    | nil => rw [hk] at i0; simp at i0; rw [i0]
    | cons b l => rw [hk] at hil; simp at hil

/-- the local step of `promoteSingleChildAsParentChild`: kid `i` of `p` is the one-item node `n` whose only live
    kid is `c`; afterwards kid `i` of `p` is `c` (re-parented) -/
theorem promote_local (t T : BTree) (p n c : NodeId) (pn pn' nd cn : Node) (i : Nat) (hsl : T.sl = t.sl)
    (hother : ∀ k, k ≠ p → k ≠ c → T.get? k = t.get? k)
    (hg : t.get? p = some pn) (hg' : T.get? p = some pn')
    (hpar : pn'.parent = pn.parent) (hcount : pn'.count = pn.count) (hitems : pn'.items = pn.items)
    (hshape : NodeShape t pn') (hkids : pn'.kids = pn.kids.set i c) (hi : pn.kids[i]? = some n) (hn0 : n ≠ 0)
    (hgn : t.get? n = some nd) (hone : nd.count = 1) (hnk : nd.kids = [c, 0] ∨ nd.kids = [0, c]) (hc0 : c ≠ 0)
    (hgc : t.get? c = some cn) (hgc' : T.get? c = some { cn with parent := p }) :
    ∀ f q lo hi, WFNode t f p q lo hi → (reach t f p).Nodup → Step t T [nd.slot 0] [] [n] [] f p q lo hi
  | 0, _, _, _, h, _ => absurd h (by simp [WFNode])
  | f0 + 1, q, lo, hi', h, hnd => by
    obtain ⟨hp0, hq, hs, hne, hk⟩ := wfNode_kids h hg
    have hr := reach_kids f0 hp0 hg
    rw [hr] at hnd
    have hpnot := (List.nodup_cons.mp hnd).1
    have hndk := (List.nodup_cons.mp hnd).2
    have hmem : n ∈ pn.kids := List.mem_of_getElem? hi
    obtain ⟨ln0, hn0', hwn0⟩ : ∃ l h', WFNode t f0 n p l h' := by
      rcases KidsOk.mem _ _ _ _ hk n hmem with h | h
      · exact absurd h hn0
      · exact h
    cases f0 with
    | zero => exact absurd hwn0 (by simp [WFNode])
    | succ f1 =>
      obtain ⟨_, _, hsn, _, _⟩ := wfNode_kids hwn0 hgn
      have hit := one_item hsn hone
      -- the visiting order below `n`
      have hrn : reach t (f1 + 1) n = n :: reach t f1 c := by
        rw [reach_kids f1 hn0 hgn]
        rcases hnk with e | e <;> rw [e] <;> simp [reach_zero]
      have hnin : n ∈ reach t (f1 + 1) n := by rw [hrn]; exact List.mem_cons_self
      have hndn : (reach t (f1 + 1) n).Nodup := by
        obtain ⟨l1, l2, hl⟩ := List.append_of_mem hmem
        rw [hl, List.flatMap_append, List.flatMap_cons] at hndk
        exact (List.nodup_append.mp (List.nodup_append.mp hndk).2.1).1
      rw [hrn] at hndn
      have hndc := (List.nodup_cons.mp hndn).2
      have hsubp : ∀ k ∈ reach t f1 c, k ≠ p := by
        intro k hk' hkp
        apply hpnot
        rw [← hkp]
        exact List.mem_flatMap.mpr ⟨n, hmem, by rw [hrn]; exact List.mem_cons_of_mem _ hk'⟩
      have hcin : c ∈ reach t (f1 + 1) n := by
        rw [hrn]
        refine List.mem_cons_of_mem _ ?_
        cases f1 with
        | zero =>
          exfalso
          obtain ⟨_, _, _, _, hkn⟩ := wfNode_kids hwn0 hgn
          have hcm : c ∈ nd.kids := by rcases hnk with e | e <;> rw [e] <;> simp
          rcases KidsOk.mem _ _ _ _ hkn c hcm with h | ⟨_, _, h⟩
          · exact hc0 h
          · exact absurd h (by simp [WFNode])
        | succ f2 => rw [reach_kids f2 hc0 hgc]; exact List.mem_cons_self
      -- what happens to `n`'s position
      have key : ∀ l h', WFNode t (f1 + 1) n p l h' →
          WFNode T (f1 + 1) c p l h' ∧ Splice [nd.slot 0] [] (absNode t (f1 + 1) n) (absNode T (f1 + 1) c) ∧
            Splice [n] [] (reach t (f1 + 1) n) (reach T (f1 + 1) c) := by
        intro l h' hwn
        obtain ⟨_, _, _, _, hkn⟩ := wfNode_kids hwn hgn
        rw [hit] at hkn
        have hwc : WFNode t f1 c n l h' := by
          rcases hnk with e | e
          · rw [e] at hkn
            obtain ⟨h1, h2, h3, _, _⟩ := hkn
            rcases h1 with h1 | h1
            · exact absurd h1 hc0
            · exact WFNode.mono t _ _ _ _ _ _ _ (LoLe.refl _) (HiLe.of_le h3) h1
          · rw [e] at hkn
            obtain ⟨_, h2, h3, _, h5⟩ := hkn
            rcases h5.1 with h1 | h1
            · exact absurd h1 hc0
            · exact WFNode.mono t _ _ _ _ _ _ _ (LoLe.of_le h2) (HiLe.refl _) h1
        obtain ⟨w1, w2, w3⟩ := reparent_local t T c p cn hsl hgc hgc' f1 n l h' hn0 hwc hndc
          (fun k hk' hkc => hother k (hsubp k hk') hkc)
        refine ⟨WFNode.succ T _ _ _ _ _ w1, ?_, ?_⟩
        · rw [absNode_succ T _ _ _ _ _ w1, w2, absNode_kids f1 hn0 hgn hsn, hit]
          rcases hnk with e | e
          · rw [e]; simp only [weave, absNode_zero, List.append_nil]
            exact ⟨absNode t f1 c, [], by simp, by simp⟩
          · rw [e]; simp only [weave, absNode_zero, List.nil_append, List.append_nil]
            exact ⟨[], absNode t f1 c, by simp, by simp⟩
        · rw [reach_succ T _ _ _ _ _ w1, w3, hrn]
          exact ⟨[], reach t f1 c, by simp, by simp⟩
      -- the other kids of `p`
      have hsib : ∀ (j : Nat) k, j ≠ i → pn.kids[j]? = some k →
          (∀ l h', WFNode t (f1 + 1) k p l h' → WFNode T (f1 + 1) k p l h') ∧
            absNode T (f1 + 1) k = absNode t (f1 + 1) k ∧ reach T (f1 + 1) k = reach t (f1 + 1) k := by
        intro j k hji hjk
        have hkm : k ∈ pn.kids := List.mem_of_getElem? hjk
        by_cases hk0 : k = 0
        · subst hk0
          exact ⟨fun l h' hw => absurd hw.1 (by simp), by simp [absNode_zero], by simp [reach_zero]⟩
        · have hkn : k ≠ n := by
            intro hkn
            subst hkn
            exact hji (kid_unique hnin pn.kids j i hndk hjk hi)
          have hfr : ∀ l h', WFNode t (f1 + 1) k p l h' →
              WFNode T (f1 + 1) k p l h' ∧ absNode T (f1 + 1) k = absNode t (f1 + 1) k ∧
                reach T (f1 + 1) k = reach t (f1 + 1) k := by
            intro l h' hw
            apply frame_out t T hsl _ k p l h' hw
            intro m hm
            apply hother
            · intro hmp
              apply hpnot
              rw [← hmp]
              exact List.mem_flatMap.mpr ⟨k, hkm, hm⟩
            · intro hmc
              rw [hmc] at hm
              exact nodup_flatMap_disjoint _ _ hndk k hkm n hmem hkn c hm hcin
          rcases KidsOk.mem _ _ _ _ hk k hkm with h0 | ⟨l, h', hw⟩
          · exact absurd h0 hk0
          · exact ⟨fun l h' hw => (hfr l h' hw).1, (hfr l h' hw).2⟩
      refine ⟨?_, ?_, ?_⟩
      · refine wfNode_of_kids hp0 hg' (by rw [hpar, hq]) (nodeShape_sl hsl hshape) (by rw [hcount]; exact hne) ?_
        rw [hkids, hitems]
        exact KidsOk.set_kid (P := fun k l h => WFNode t (f1 + 1) k p l h) (Q := fun k l h => WFNode T (f1 + 1) k p l h)
          (n := n) (c := c) (fun l h' hw => (key l h' hw).1) i _ _ _ _ hi hn0
          (fun j k hji hjk l h' hw => (hsib j k hji hjk).1 l h' hw) hk
      · rw [absNode_kids _ hp0 hg hs, absNode_kids _ hp0 hg' (nodeShape_sl hsl hshape), hkids, hitems]
        exact weave_set_kid2 (key ln0 hn0' hwn0).2.1 i _ _ hi (fun j k hji hjk => (hsib j k hji hjk).2.1)
      · rw [hr, reach_kids _ hp0 hg', hkids]
        exact (flatMap_set_kid2 (key ln0 hn0' hwn0).2.2 i _ hi (fun j k hji hjk => (hsib j k hji hjk).2.2)).cons p


/-- `getIndexOfChild_spec` with the extra fact that only the memoised index of the child may change -/
theorem getIndexOfChild_spec' (t : BTree) (p n : NodeId) (pn cn : Node) (cs : Array NodeId)
    (hgp : t.get? p = some pn) (hgn : t.get? n = some cn) (hcs : pn.children = some cs)
    (hsz : cs.size = t.sl + 1) (hps : pn.slots.size = t.sl) (hion : -1 ≤ cn.ion ∧ cn.ion ≤ (t.sl : Int)) (hn0 : n ≠ 0)
    (j : Nat) (hj : j ≤ t.sl) (hcj : cs.getD j 0 = n) :
    ∃ (i : Nat) (g : Node → Node), (∀ x, (g x).id = x.id) ∧ (∀ x, ∃ v, g x = { x with ion := v }) ∧
      t.getIndexOfChild p n = (t.upd n g, (i : Int)) ∧ cs.getD i 0 = n ∧ i < cs.size := by
  have hidn := get?_id hgn
  unfold BTree.getIndexOfChild
  simp only [get_of_get? hgp, get_of_get? hgn, hcs]
  rw [if_neg (by rw [hsz]; omega)]
  split
  · have hs := scan_spec pn cn cs (by rw [hidn]; exact hn0) j (by omega) (by rw [hidn]; exact hcj) (pn.slots.size + 2) 0
      (Nat.zero_le _) (by omega)
    refine ⟨BTree.getIndexOfChild.scan pn cn cs (pn.slots.size + 2) 0,
      fun x => { x with ion := (BTree.getIndexOfChild.scan pn cn cs (pn.slots.size + 2) 0 : Nat) }, fun _ => rfl,
      fun x => ⟨_, rfl⟩, rfl, by rw [hs.2.2, hidn], by omega⟩
  · rename_i hmemo
    simp only [Bool.or_eq_true, beq_iff_eq, bne_iff_ne, ne_eq, not_or, Decidable.not_not] at hmemo
    obtain ⟨h1, h2⟩ := hmemo
    have hnn : 0 ≤ cn.ion := by omega
    refine ⟨cn.ion.toNat, fun x => x, fun _ => rfl, fun x => ⟨x.ion, rfl⟩, ?_, ?_, ?_⟩
    · rw [upd_id]; congr 1; omega
    · rw [← h2, hidn]
    · omega

/-- `promoteSingleChildAsParentChild` evaluated -/
theorem promoteSingleChild_eq (t : BTree) (p n c : NodeId) (pn nd : Node) (cs : Array NodeId)
    (hgp : t.get? p = some pn) (hgn : t.get? n = some nd) (hpar : nd.parent = p) (hp0 : p ≠ 0) (hpn : p ≠ n)
    (hcs : pn.children = some cs) (i : Nat) (g : Node → Node) (hg : ∀ x, (g x).id = x.id)
    (hgv : ∀ x, ∃ v, g x = { x with ion := v })
    (hioc : t.getIndexOfChild p n = (t.upd n g, (i : Int))) (hi : i < cs.size)
    (hc : nd.child 0 = c) (hc0 : c ≠ 0) (hgc : (t.get? c).isSome = true) :
    t.promoteSingleChild n =
      some ((((t.upd n g).upd p (fun x => x.setChild i c)).upd c (fun x => { x with parent := p })).del n) := by
  have hgp1 : (t.upd n g).get? p = some pn := by rw [get?_upd_ne t g hg hpn]; exact hgp
  have hgn1 : (t.upd n g).get? n = some (g nd) := by rw [get?_upd_eq t n g hg, hgn]; rfl
  have hgc0 : (g nd).child 0 = c := by
    obtain ⟨v, hv⟩ := hgv nd
    rw [hv]; exact hc
  have hgn2 : ((t.upd n g).upd p (fun x => x.setChild i c)).get? n = some (g nd) := by
    rw [get?_upd_ne _ _ (by intro x; rfl) hpn.symm]; exact hgn1
  have hgc2 : (((t.upd n g).upd p (fun x => x.setChild i c)).get? c).isSome = true := by
    rw [get?_upd _ _ _ _ (by intro x; rfl), get?_upd _ _ _ _ hg]
    cases h : t.get? c with
    | none => rw [h] at hgc; simp at hgc
    | some x => simp
  unfold BTree.promoteSingleChild
  have hpo : t.parentOf n = p := by
    unfold BTree.parentOf
    simp only [get_of_get? hgn, hpar, hp0, if_false, hgp, Option.isSome_some, if_true]
  simp only [hpo, hp0, if_false, hioc, get_of_get? hgp1, hcs, Option.getD_some, get_of_get? hgn1, hgc0]
  rw [if_neg (by omega)]
  have hco : ((t.upd n g).upd p (fun x => x.setChild (i : Int).toNat c)).childOf n 0 = c := by
    have e : (i : Int).toNat = i := by omega
    rw [e]
    unfold BTree.childOf
    simp only [get_of_get? hgn2, hgc0, hc0, if_false, hgc2, if_true]
  rw [hco]
  simp only [hc0, if_false]
  have e : (i : Int).toNat = i := by omega
  rw [e]


theorem setChild_kids {t : BTree} {pn : Node} {cs : Array NodeId} (hs : NodeShape t pn) (hcs : pn.children = some cs)
    (i : Nat) (c : NodeId) : (pn.setChild i c).kids = pn.kids.set i c := by
  unfold Node.kids Node.setChild
  simp only [hcs, Option.map_some]
  rw [Array.toList_setIfInBounds, List.take_set]

theorem setChild_shape {t : BTree} {pn : Node} {cs : Array NodeId} (hs : NodeShape t pn) (hcs : pn.children = some cs)
    {i : Nat} (hi : i ≤ pn.count) (c : NodeId) : NodeShape t (pn.setChild i c) := by
  obtain ⟨h1, h2, h3, h4, h5⟩ := hs
  refine ⟨h1, h2, h3, h4, ?_⟩
  intro cs' hcs'
  simp only [Node.setChild, hcs, Option.map_some, Option.some.injEq] at hcs'
  subst hcs'
  have := h5 cs hcs
  refine ⟨by simpa using this.1, ?_⟩
  intro x hx
  rw [Array.toList_setIfInBounds, List.drop_set_of_lt (by show i < pn.count + 1; omega)] at hx
  exact this.2 x hx

/-- `promoteSingleChildAsParentChild` of a non-root node with one item whose only live kid is `c`, after that node
    was rewritten by `G` (keeping id, parent link, memoised index, and showing `c` as child 0) -/
theorem promote_core (t : BTree) (hwf : WFs t) (n c : NodeId) (nd : Node) (G : Node → Node)
    (hG : ∀ y, (G y).id = y.id) (hGp : (G nd).parent = nd.parent) (hGi : (G nd).ion = nd.ion) (hGc : (G nd).child 0 = c)
    (hin : n ∈ reach t (t.nodes.length + 1) t.root) (hgn : t.get? n = some nd) (hnroot : n ≠ t.root)
    (hone : nd.count = 1) (hnk : nd.kids = [c, 0] ∨ nd.kids = [0, c]) (hc0 : c ≠ 0) :
    ∃ U, (t.upd n G).promoteSingleChild n = some U ∧ WFs U ∧ U.panicked = t.panicked ∧ U.count = t.count ∧
      ∃ L R, t.abs = L ++ nd.slot 0 :: R ∧ U.abs = L ++ R := by
  have hn0 := reach_ne_zero _ _ _ _ hin
  obtain ⟨hsl0, hr, hwt, hnd, hl⟩ := id hwf
  obtain ⟨p, pn, i0, hpin, hgp, hki, nd', hgn', hpar⟩ := parent_of_reach t _ _ _ _ _ _ hwt hin hnroot
  rw [hgn] at hgn'; cases hgn'
  have hp0 := reach_ne_zero _ _ _ _ hpin
  obtain ⟨pn', hgp', hsp, _, _⟩ := wfs_node_facts hwf hpin
  rw [hgp] at hgp'; cases hgp'
  obtain ⟨nd', hgn', hsn, _, _⟩ := wfs_node_facts hwf hin
  rw [hgn] at hgn'; cases hgn'
  obtain ⟨cs, hcs⟩ : ∃ cs, pn.children = some cs := by
    cases hch : pn.children with
    | none => exact absurd (kids_leaf_zero hch hki) hn0
    | some cs => exact ⟨cs, rfl⟩
  -- the subtree of `p`, duplicate-free
  obtain ⟨fp, qp, lop, hip, hfp, hwp, hndp⟩ := sub_nodup t _ _ _ _ _ _ hwt hnd hpin
  cases fp with
  | zero => exact absurd hwp (by simp [WFNode])
  | succ f0 =>
    obtain ⟨_, _, _, _, hkp⟩ := wfNode_kids hwp hgp
    have hrp := reach_kids f0 hp0 hgp
    rw [hrp] at hndp
    have hpnot := (List.nodup_cons.mp hndp).1
    have hmem : n ∈ pn.kids := List.mem_of_getElem? hki
    obtain ⟨ln0, hn0', hwn0⟩ : ∃ l h', WFNode t f0 n p l h' := by
      rcases KidsOk.mem _ _ _ _ hkp n hmem with h | h
      · exact absurd h hn0
      · exact h
    cases f0 with
    | zero => exact absurd hwn0 (by simp [WFNode])
    | succ f1 =>
      obtain ⟨_, _, _, _, hkn⟩ := wfNode_kids hwn0 hgn
      have hcm : c ∈ nd.kids := by rcases hnk with e | e <;> rw [e] <;> simp
      obtain ⟨lc, hc', hwc⟩ : ∃ l h', WFNode t f1 c n l h' := by
        rcases KidsOk.mem _ _ _ _ hkn c hcm with h | h
        · exact absurd h hc0
        · exact h
      obtain ⟨cn, hgc, hcpar⟩ : ∃ cn, t.get? c = some cn ∧ cn.parent = n := by
        cases f1 with
        | zero => exact absurd hwc (by simp [WFNode])
        | succ f2 => obtain ⟨_, cn, hgc, hcp, _⟩ := hwc; exact ⟨cn, hgc, hcp⟩
      have hcinn : c ∈ reach t (f1 + 1) n := by
        rw [reach_kids f1 hn0 hgn]
        refine List.mem_cons_of_mem _ (List.mem_flatMap.mpr ⟨c, hcm, ?_⟩)
        cases f1 with
        | zero => exact absurd hwc (by simp [WFNode])
        | succ f2 => rw [reach_kids f2 hc0 hgc]; exact List.mem_cons_self
      have hninp : n ∈ pn.kids.flatMap (reach t (f1 + 1)) :=
        List.mem_flatMap.mpr ⟨n, hmem, by rw [reach_kids f1 hn0 hgn]; exact List.mem_cons_self⟩
      have hcinp : c ∈ pn.kids.flatMap (reach t (f1 + 1)) := List.mem_flatMap.mpr ⟨n, hmem, hcinn⟩
      have hpn : p ≠ n := fun h => hpnot (h ▸ hninp)
      have hpc : p ≠ c := fun h => hpnot (h ▸ hcinp)
      have hcn : c ≠ n := by
        intro h
        rw [h, reach_kids f1 hn0 hgn] at hcinn
        have hndn : (reach t (f1 + 1) n).Nodup := by
          obtain ⟨l1, l2, hl⟩ := List.append_of_mem hmem
          have hndk := (List.nodup_cons.mp hndp).2
          rw [hl, List.flatMap_append, List.flatMap_cons] at hndk
          exact (List.nodup_append.mp (List.nodup_append.mp hndk).2.1).1
        rw [reach_kids f1 hn0 hgn] at hndn
        have hnn := (List.nodup_cons.mp hndn).1
        apply hnn
        refine List.mem_flatMap.mpr ⟨c, hcm, ?_⟩
        rw [h]
        cases f1 with
        | zero => exact absurd hwc (by simp [WFNode])
        | succ f2 => rw [reach_kids f2 hn0 hgn]; exact List.mem_cons_self
      -- the index of `n` in `p`
      have hsz := (hsp.2.2.2.2 cs hcs).1
      have hk : pn.kids = cs.toList.take (pn.count + 1) := by unfold Node.kids; rw [hcs]
      have hi0 : i0 < pn.count + 1 ∧ cs.toList[i0]? = some n := by
        rw [hk, List.getElem?_take] at hki
        split at hki
        · exact ⟨by assumption, hki⟩
        · cases hki
      have hcj : cs.getD i0 0 = n := by
        rw [Array.getD_eq_getD_getElem?, ← Array.getElem?_toList, hi0.2]; rfl
      have hgp1 : (t.upd n G).get? p = some pn := by rw [get?_upd_ne t G hG hpn]; exact hgp
      have hgn1 : (t.upd n G).get? n = some (G nd) := by rw [get?_upd_eq t n G hG, hgn]; rfl
      obtain ⟨i, g, hg, hgv, hioc, hci, hilt⟩ := getIndexOfChild_spec' (t.upd n G) p n pn (G nd) cs hgp1 hgn1 hcs hsz hsp.1
        (by rw [hGi]; exact hsn.2.2.1) hn0 i0 (by have := hsp.2.1; show i0 ≤ t.sl; omega) hcj
      have hile := kid_index_le hsp hcs hilt hci hn0
      have hgc1 : ((t.upd n G).get? c).isSome = true := by
        rw [get?_upd_ne t G hG hcn, hgc]; rfl
      refine ⟨_, promoteSingleChild_eq (t.upd n G) p n c pn (G nd) cs hgp1 hgn1 (by rw [hGp]; exact hpar) hp0 hpn hcs
        i g hg hgv hioc hilt hGc hc0 hgc1, ?_⟩
      -- the conceptual tree: `p` shows `c`, `c` points to `p`, `n` is garbage
      have hsc : ∀ x : Node, (x.setChild i c).id = x.id := fun _ => rfl
      have hrp' : ∀ x : Node, ({ x with parent := p } : Node).id = x.id := fun _ => rfl
      have hTp : ((t.upd p (fun x => x.setChild i c)).upd c (fun x => { x with parent := p })).get? p
          = some (pn.setChild i c) := by
        rw [get?_upd_ne _ _ hrp' hpc, get?_upd_eq t _ _ hsc, hgp]; rfl
      have hTc : ((t.upd p (fun x => x.setChild i c)).upd c (fun x => { x with parent := p })).get? c
          = some { cn with parent := p } := by
        rw [get?_upd_eq _ _ _ hrp', get?_upd_ne t _ hsc hpc.symm, hgc]; rfl
      have hTo : ∀ k, k ≠ p → k ≠ c →
          ((t.upd p (fun x => x.setChild i c)).upd c (fun x => { x with parent := p })).get? k = t.get? k := by
        intro k h1 h2
        rw [get?_upd_ne _ _ hrp' h2, get?_upd_ne t _ hsc h1]
      have hpF : ∀ k, k ∉ reach t (t.nodes.length + 1) p → k ≠ p ∧ k ≠ c := by
        intro k hk
        rw [reach_le t hwp hfp, hrp] at hk
        exact ⟨fun h => hk (h ▸ List.mem_cons_self), fun h => hk (h ▸ List.mem_cons_of_mem _ hcinp)⟩
      have hstep := ctx2 t ((t.upd p (fun x => x.setChild i c)).upd c (fun x => { x with parent := p })) p
        [nd.slot 0] [] [n] [] rfl (fun k hk => hTo k (hpF k hk).1 (hpF k hk).2)
        (fun f q lo hi _ hw hnd' =>
          promote_local t ((t.upd p (fun x => x.setChild i c)).upd c (fun x => { x with parent := p })) p n c pn
            (pn.setChild i c) nd cn i rfl hTo hgp hTp rfl rfl rfl
            (setChild_shape hsp hcs hile c) (setChild_kids hsp hcs i c) (kids_getElem? hsp hcs hilt hci hn0) hn0 hgn hone
            hnk hc0 hgc hTc f q lo hi hw hnd')
        _ _ _ _ _ (Nat.le_refl _) hwt hnd hpin
      have hgetU : ∀ k, k ≠ n →
          (((((t.upd n G).upd n g).upd p (fun x => x.setChild i c)).upd c (fun x => { x with parent := p })).del n).get? k
            = ((t.upd p (fun x => x.setChild i c)).upd c (fun x => { x with parent := p })).get? k := by
        intro k hk
        rw [get?_del _ hn0, if_neg hk, get?_upd _ _ _ _ hrp', get?_upd _ _ _ _ hsc, get?_upd_ne _ g hg hk,
          get?_upd_ne t G hG hk, get?_upd _ _ _ _ hrp', get?_upd _ _ _ _ hsc]
      have hlenU : (((((t.upd n G).upd n g).upd p (fun x => x.setChild i c)).upd c (fun x => { x with parent := p })).del n).nodes.length
          < t.nodes.length := by
        have hgu : ((((t.upd n G).upd n g).upd p (fun x => x.setChild i c)).upd c (fun x => { x with parent := p })).get? n
            = some (g (G nd)) := by
          rw [get?_upd_ne _ _ hrp' hcn.symm, get?_upd_ne _ _ hsc hpn.symm, get?_upd_eq _ _ _ hg, hgn1]; rfl
        have := del_length_lt _ hn0 hgu
        simpa using this
      have h := wfs_after_drop t ((t.upd p (fun x => x.setChild i c)).upd c (fun x => { x with parent := p }))
        (((((t.upd n G).upd n g).upd p (fun x => x.setChild i c)).upd c (fun x => { x with parent := p })).del n) n
        (nd.slot 0) hwf rfl hstep (del_sl _ _) (del_root _ _) hgetU hlenU
      exact ⟨h.1, by rw [del_panicked]; rfl, by rw [del_count]; rfl, h.2.2⟩


theorem kids_two {t : BTree} {nd : Node} (hs : NodeShape t nd) (hone : nd.count = 1) : nd.kids = [nd.child 0, nd.child 1] := by
  have hkl := Node.kids_length hs
  have e0 := Node.kids_getD hs (show 0 ≤ nd.count by omega)
  have e1 := Node.kids_getD hs (show 1 ≤ nd.count by omega)
  rw [hone] at hkl
  cases hk : nd.kids with
  | nil => rw [hk] at hkl; simp at hkl
  | cons a l =>
    cases l with
    | nil => rw [hk] at hkl; simp at hkl
    | cons b l =>
      cases l with
      | nil => rw [hk] at e0 e1; simp at e0 e1; rw [e0, e1]
      | cons c l => rw [hk] at hkl; simp at hkl

/-- `removeItemOnNodeWithNilChild` on a non-root inner node with one item and exactly one live child: the child
    takes the node's place (`promoteSingleChildAsParentChild`) -/
theorem rnc_promote_s (t : BTree) (hws : WFs t) (n : NodeId) (nd : Node)
    (hin : n ∈ reach t (t.nodes.length + 1) t.root) (hg : t.get? n = some nd) (hch : nd.children.isSome = true)
    (hone : nd.count = 1)
    (hk : (nd.child 0 = 0 ∧ nd.child 1 ≠ 0) ∨ (nd.child 0 ≠ 0 ∧ nd.child 1 = 0)) (hnroot : n ≠ t.root) :
    ∃ U, t.removeItemOnNodeWithNilChild n 0 = some (U, .ok true) ∧ WFs U ∧ U.panicked = t.panicked ∧ U.count = t.count ∧
      ∃ L R, t.abs = L ++ nd.slot 0 :: R ∧ U.abs = L ++ R := by
  have hget := get_of_get? hg
  have hn0 := reach_ne_zero _ _ _ _ hin
  obtain ⟨nd0, hg0, hs, _, _⟩ := wfs_node_facts hws hin
  rw [hg] at hg0; cases hg0
  obtain ⟨cs, hcs⟩ : ∃ cs, nd.children = some cs := by
    cases h : nd.children with
    | none => rw [h] at hch; simp at hch
    | some cs => exact ⟨cs, rfl⟩
  have hi : 0 < nd.count := by omega
  have hkk := kids_two hs hone
  have hparne : nd.parent ≠ 0 := by
    obtain ⟨_, _, hwt, _, _⟩ := id hws
    obtain ⟨p, pn, i0, hpin, hgp, hki, nd', hgn', hpar⟩ := parent_of_reach t _ _ _ _ _ _ hwt hin hnroot
    rw [hg] at hgn'; cases hgn'
    rw [hpar]; exact reach_ne_zero _ _ _ _ hpin
  have hnil : nd.child 0 = 0 ∨ nd.child (0 + 1) = 0 := by
    rcases hk with h | h
    · exact Or.inl h.1
    · exact Or.inr h.2
  -- the surviving kid
  obtain ⟨c, hc0, hnk, hkc⟩ : ∃ c, c ≠ 0 ∧ (nd.kids = [c, 0] ∨ nd.kids = [0, c]) ∧
      (nd.kids.eraseIdx (nilPos nd 0)).getD 0 0 = c := by
    rcases hk with ⟨h0, h1⟩ | ⟨h0, h1⟩
    · refine ⟨nd.child 1, h1, Or.inr (by rw [hkk, h0]), ?_⟩
      have : nilPos nd 0 = 0 := by simp [nilPos, h0]
      rw [this, hkk]; rfl
    · refine ⟨nd.child 0, h0, Or.inl (by rw [hkk, h1]), ?_⟩
      have : nilPos nd 0 = 1 := by simp [nilPos, h0]
      rw [this, hkk]; rfl
  have hK : (rncKids nd 0).getD 0 0 = c := by rw [rncKids_getD0 hs hcs hi, hkc]
  obtain ⟨U, hU, hwsU, hpan, hcnt, hab⟩ := promote_core t hws n c nd (rncUpd nd 0) (fun _ => rfl) rfl rfl hK hin hg hnroot
    hone hnk hc0
  refine ⟨U, ?_, hwsU, hpan, hcnt, hab⟩
  rw [rnc_eq t _ _ nd hget hch hnil hi]
  unfold rncTail
  simp only
  rw [if_pos ⟨by omega, by rw [hK]; exact hc0⟩]
  have hroot : nd.isRoot = false := by simp [Node.isRoot, hparne]
  rw [hroot]
  simp only [Bool.false_eq_true, if_false]
  have : (t.upd n (fun x => { x with slots := rncSlots nd 0, children := some (rncKids nd 0), count := nd.count - 1 }))
      = t.upd n (rncUpd nd 0) := rfl
  rw [this, hU]

/-- INNER NON-ROOT NODE WITH ONE ITEM AND ONE LIVE CHILD: `RemoveCurrentItem` puts the child in the node's place. -/
theorem removeCurrent_nilchild_promote_ok (t : BTree) (hwf : WF t) (hp : t.panicked = false) (hc : CursorOn t)
    (hch : (t.get t.cur.node).children.isSome = true) (hone : (t.get t.cur.node).count = 1)
    (hk : ((t.get t.cur.node).child 0 = 0 ∧ (t.get t.cur.node).child 1 ≠ 0) ∨
      ((t.get t.cur.node).child 0 ≠ 0 ∧ (t.get t.cur.node).child 1 = 0)) (hnroot : t.cur.node ≠ t.root) :
    WF t.removeCurrent.1 ∧ t.removeCurrent.1.panicked = false ∧ t.removeCurrent.2 = .ok true ∧
    t.removeCurrent.1.cur = { node := 0, idx := 0, cached := false } ∧ t.removeCurrent.1.count = t.count - 1 ∧
    ∃ L R, t.abs = L ++ t.curItem :: R ∧ t.removeCurrent.1.abs = L ++ R := by
  obtain ⟨nd, hg, hcn, hid, hget, hi, hneg⟩ := hc.node
  have hroot := root_ne_zero_of_reach hc.1
  have hws := WF.wfs hwf hroot
  rw [hget] at hch hone hk
  have hpos : t.cur.idx.toNat = 0 := by omega
  obtain ⟨U, hrnc, hwsu, hpan, hcnt, L, R, e1, e2⟩ := rnc_promote_s t hws t.cur.node nd hc.1 hg hch hone hk hnroot
  rw [removeCurrent_of_rnc t hwf hc (by rw [hget]; exact hch) _ (by rw [hpos]; exact hrnc)]
  have h4 := WFs.congr hwsu (t' := { U.setCur 0 0 with count := U.count - 1 }) rfl rfl rfl (fun k => rfl)
  obtain ⟨hws4, habs4, _⟩ := h4
  have hcount := WF.count_eq hwf hroot
  refine ⟨hws4.wf ?_, by show U.panicked = false; rw [hpan]; exact hp, rfl, rfl,
    by show U.count - 1 = _; rw [hcnt], L, R, ?_, by rw [habs4]; exact e2⟩
  · rw [habs4, e2]
    show U.count - 1 = _
    rw [hcnt, hcount, e1]
    simp only [List.length_append, List.length_cons]
    omega
  · unfold BTree.curItem; rw [hget, hpos]; exact e1

/-- INNER NODE, BOTH NEIGHBOUR CHILDREN LIVE, SUCCESSOR IN AN INNER NODE WITH ONE ITEM AND ONE LIVE CHILD: after
    the copy-up the successor's node is replaced by its live child. -/
theorem removeCurrent_succ_inner_promote_ok (t : BTree) (hwf : WF t) (hp : t.panicked = false) (hc : CursorOn t)
    (hch : (t.get t.cur.node).children.isSome = true)
    (hl : (t.get t.cur.node).child t.cur.idx.toNat ≠ 0) (hr : (t.get t.cur.node).child (t.cur.idx.toNat + 1) ≠ 0)
    (hsch : (t.get (t.moveToNext t.cur.node).1.cur.node).children.isSome = true)
    (hsone : (t.get (t.moveToNext t.cur.node).1.cur.node).count = 1)
    (hs1 : (t.get (t.moveToNext t.cur.node).1.cur.node).child 1 ≠ 0) :
    WF t.removeCurrent.1 ∧ t.removeCurrent.1.panicked = false ∧ t.removeCurrent.2 = .ok true ∧
    t.removeCurrent.1.cur = { node := 0, idx := 0, cached := false } ∧ t.removeCurrent.1.count = t.count - 1 ∧
    ∃ L s R, t.abs = L ++ t.curItem :: s :: R ∧
      ∃ L2 R2, L ++ s :: s :: R = L2 ++ s :: R2 ∧ t.removeCurrent.1.abs = L2 ++ R2 := by
  have hroot := root_ne_zero_of_reach hc.1
  obtain ⟨m, mn, hmv, hgm, hmn, hmc, hmz, hnr, hm0, hws2, hg2, hmr2, L, R, e1, e2⟩ := succ_setup t hwf hc hch hr
  have hM : (t.moveToNext t.cur.node).1.cur.node = m := by rw [hmv]; rfl
  rw [hM, get_of_get? hgm] at hsch hsone hs1
  obtain ⟨U, hrnc, hwsu, hpan, hcnt, L2, R2, e3, e4⟩ :=
    rnc_promote_s _ hws2 m mn hmr2 hg2 hsch hsone (Or.inl ⟨hmz, hs1⟩) hnr
  rw [removeCurrent_succ_rnc_eq t hwf hc hch hl hr m mn hmv hgm _ hrnc]
  obtain ⟨h1, h2, h3, h4, h5⟩ := succ_finish t U (mn.slot 0) hwf hroot hp hwsu hpan hcnt L R L2 R2 e1
    (by rw [← e2]; exact e3) e4
  exact ⟨h1, h2, rfl, h3, h4, h5⟩

end Sop.BTree.Rem
