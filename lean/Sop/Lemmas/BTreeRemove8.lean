import Sop.Lemmas.BTreeRemove7
/-! C17, remove side of Model B, part 7: the root collapse (`updateChildrenParent_get?`, `goCopy_full`,
`wfs_close`, `collapse_core`, `rncTail_root`, `rnc_collapse_s`, `removeCurrent_nilchild_collapse_ok`) and the
theorem that joins EVERY branch of `RemoveCurrentItem`: `removeCurrent_ok`. -/
namespace Sop.BTree.Rem
open Sop.BTree
set_option linter.unusedVariables false
set_option linter.unusedSimpArgs false


/-- `updateChildrenParent` at the level of node lookup -/
theorem ucp_get? (n : NodeId) : ∀ (l : List NodeId) (t : BTree) (k : NodeId),
    (l.foldl (fun t c => if c = 0 then t else t.upd c (fun x => { x with parent := n })) t).get? k =
      (t.get? k).map (fun x => if k ≠ 0 ∧ k ∈ l then { x with parent := n } else x)
  | [], t, k => by cases h : t.get? k <;> simp [h]
  | c :: l, t, k => by
    simp only [List.foldl_cons]
    rw [ucp_get? n l]
    by_cases hc : c = 0
    · subst hc
      simp only [if_true]
      cases h : t.get? k with
      | none => rfl
      | some x =>
        simp only [Option.map_some, List.mem_cons]
        by_cases hk0 : k = 0
        · simp [hk0]
        · have : (k = 0 ∨ k ∈ l) ↔ k ∈ l := by constructor; rintro (h | h); exact absurd h hk0; exact h; exact Or.inr
          simp [hk0, this]
    · simp only [hc, if_false]
      rw [get?_upd t c k _ (by intro x; rfl)]
      cases h : t.get? k with
      | none => rfl
      | some x =>
        simp only [Option.map_some, Option.map_map, List.mem_cons]
        by_cases hkc : k = c
        · subst hkc
          simp [hc]
        · simp [hkc]

theorem updateChildrenParent_get? (t : BTree) (n : NodeId) (kids : Array NodeId) (k : NodeId) :
    (t.updateChildrenParent n kids).get? k =
      (t.get? k).map (fun x => if k ≠ 0 ∧ k ∈ kids.toList then { x with parent := n } else x) := by
  unfold BTree.updateChildrenParent
  rw [← Array.foldl_toList]
  exact ucp_get? n _ t k

theorem updateChildrenParent_length (t : BTree) (n : NodeId) (kids : Array NodeId) :
    (t.updateChildrenParent n kids).nodes.length = t.nodes.length := by
  unfold BTree.updateChildrenParent
  rw [← Array.foldl_toList]
  generalize kids.toList = l
  induction l generalizing t with
  | nil => rfl
  | cons c l ih =>
    simp only [List.foldl_cons]
    rw [ih]
    split
    · rfl
    · simp

theorem goCopy_full {α : Type} (dst src : Array α) (h : dst.size = src.size) : goCopy dst 0 src 0 src.size = src := by
  apply Array.toList_inj.mp
  unfold goCopy
  have hl : ((src.toList.drop 0).take (src.size - 0)).length = src.size := by simp
  rw [writeAt_toList _ _ _ (by rw [hl]; omega), hl]
  have h1 : src.toList.take src.size = src.toList := List.take_of_length_le (by simp)
  have h2 : dst.toList.drop src.size = [] := List.drop_of_length_le (by simp; omega)
  simp [h1, h2]

/-- closing argument: a duplicate-free well-formed tree that lists at least as many nodes as the repository holds -/
theorem wfs_close (U : BTree) (f : Nat) (hsl : 2 ≤ U.sl ∧ U.sl % 2 = 0) (hr : U.root ≠ 0)
    (hw : WFNode U f U.root 0 none none) (hnd : (reach U f U.root).Nodup)
    (hlen : U.nodes.length ≤ (reach U f U.root).length) :
    WFs U ∧ U.abs = absNode U f U.root ∧ U.nodes.length = (reach U f U.root).length := by
  have hsub : reach U f U.root ⊆ U.nodes.map (·.id) := by
    intro k hk
    obtain ⟨nd, hg⟩ := reach_get _ _ _ _ hk
    exact get?_mem_ids hg
  have hle := hnd.length_le_of_subset hsub
  rw [List.length_map] at hle
  have hN : U.nodes.length = (reach U f U.root).length := by omega
  have hwg := WFNode.shrink U _ _ _ _ _ hw
  rw [← hN] at hwg
  have hwU' : WFNode U (U.nodes.length + 1) U.root 0 none none := WFNode.le U hwg (Nat.le_succ _)
  have hreach : reach U (U.nodes.length + 1) U.root = reach U f U.root := by
    rw [reach_le U hwg (Nat.le_succ _)]
    rcases Nat.le_total U.nodes.length f with h | h
    · exact (reach_le U hwg h).symm
    · exact reach_le U hw h
  have habs : absNode U (U.nodes.length + 1) U.root = absNode U f U.root := by
    rw [absNode_le U hwg (Nat.le_succ _)]
    rcases Nat.le_total U.nodes.length f with h | h
    · exact (absNode_le U hwg h).symm
    · exact absNode_le U hw h
  exact ⟨⟨hsl, hr, hwU', by rw [hreach]; exact hnd, by rw [hreach]; exact hN.symm⟩, habs, hN⟩


theorem LoLe.none (lo : Option Int) : LoLe lo none := fun k _ l hl => by cases hl
theorem HiLe.none (hi : Option Int) : HiLe hi none := fun k _ l hl => by cases hl

/-- the structural core of the root collapse: the root `n` (one item, only live kid `c`) takes over `c`'s content,
    `c`'s kids are re-parented to `n`, `c` leaves the repository -/
theorem collapse_core (t U : BTree) (hws : WFs t) (n c : NodeId) (nd cn rn : Node)
    (hroot : t.root = n) (hg : t.get? n = some nd) (hone : nd.count = 1)
    (hnk : nd.kids = [c, 0] ∨ nd.kids = [0, c]) (hc0 : c ≠ 0)
    (hslU : U.sl = t.sl) (hrootU : U.root = t.root)
    (hUn : U.get? n = some rn) (hrp : rn.parent = 0) (hrk : rn.kids = cn.kids) (hri : rn.items = cn.items)
    (hrs : NodeShape t rn) (hgc : t.get? c = some cn)
    (hUo : ∀ k, k ≠ n → k ≠ c →
      U.get? k = (t.get? k).map (fun x => if k ≠ 0 ∧ k ∈ cn.kids then { x with parent := n } else x))
    (hlen : U.nodes.length < t.nodes.length) :
    WFs U ∧ ∃ L R, t.abs = L ++ nd.slot 0 :: R ∧ U.abs = L ++ R := by
  obtain ⟨hsl0, hr, hwt, hnd, hl⟩ := id hws
  rw [hroot] at hwt hnd hl
  obtain ⟨hn0, hpar0, hs, _, hkn⟩ := wfNode_kids hwt hg
  have hit := one_item hs hone
  rw [hit] at hkn
  have hcm : c ∈ nd.kids := by rcases hnk with e | e <;> rw [e] <;> simp
  obtain ⟨lc, hc', hwc⟩ : ∃ l h', WFNode t t.nodes.length c n l h' := by
    rcases KidsOk.mem _ _ _ _ hkn c hcm with h | h
    · exact absurd h hc0
    · exact h
  cases hN : t.nodes.length with
  | zero => rw [hN] at hwc; exact absurd hwc (by simp [WFNode])
  | succ f1 =>
    rw [hN] at hwc hwt hnd hl hkn
    obtain ⟨_, _, hsc, _, hkc⟩ := wfNode_kids hwc hgc
    have hrn : reach t (f1 + 1 + 1) n = n :: reach t (f1 + 1) c := by
      rw [reach_kids _ hn0 hg]
      rcases hnk with e | e <;> rw [e] <;> simp [reach_zero]
    have hrc := reach_kids f1 hc0 hgc
    rw [hrn, hrc] at hnd hl
    have hnn := (List.nodup_cons.mp hnd).1
    have hnd1 := (List.nodup_cons.mp hnd).2
    have hcc := (List.nodup_cons.mp hnd1).1
    have hndFM := (List.nodup_cons.mp hnd1).2
    -- the kids of `c`
    have hgk : ∀ gk ∈ cn.kids, ∀ l h, WFNode t f1 gk c l h →
        WFNode U f1 gk n l h ∧ absNode U f1 gk = absNode t f1 gk ∧ reach U f1 gk = reach t f1 gk := by
      intro gk hgkm l h hw
      obtain ⟨hgk0, gkn, hggk⟩ : gk ≠ 0 ∧ ∃ gkn, t.get? gk = some gkn := by
        cases f1 with
        | zero => exact absurd hw (by simp [WFNode])
        | succ f2 => obtain ⟨h0, gkn, hg', _⟩ := hw; exact ⟨h0, gkn, hg'⟩
      have hself : gk ∈ reach t f1 gk := by
        cases f1 with
        | zero => exact absurd hw (by simp [WFNode])
        | succ f2 => rw [reach_kids f2 hgk0 hggk]; exact List.mem_cons_self
      have hinFM : ∀ k ∈ reach t f1 gk, k ∈ cn.kids.flatMap (reach t f1) :=
        fun k hk => List.mem_flatMap.mpr ⟨gk, hgkm, hk⟩
      have hne : ∀ k ∈ reach t f1 gk, k ≠ n ∧ k ≠ c := by
        intro k hk
        exact ⟨fun h => hnn (h ▸ List.mem_cons_of_mem _ (hinFM k hk)), fun h => hcc (h ▸ hinFM k hk)⟩
      have hUgk : U.get? gk = some { gkn with parent := n } := by
        rw [hUo gk (hne gk hself).1 (hne gk hself).2, hggk]
        simp [hgk0, hgkm]
      have hndgk : (reach t f1 gk).Nodup := by
        obtain ⟨l1, l2, hl'⟩ := List.append_of_mem hgkm
        rw [hl', List.flatMap_append, List.flatMap_cons] at hndFM
        exact (List.nodup_append.mp (List.nodup_append.mp hndFM).2.1).1
      refine reparent_local t U gk n gkn hslU hggk hUgk f1 c l h hc0 hw hndgk ?_
      intro k hk hkgk
      rw [hUo k (hne k hk).1 (hne k hk).2]
      have hcond : ¬ (k ≠ 0 ∧ k ∈ cn.kids) := by
        rintro ⟨hk0, hkm⟩
        obtain ⟨kn, hgkn⟩ := reach_get _ _ _ _ hk
        have hkself : k ∈ reach t f1 k := by
          cases f1 with
          | zero => simp [reach] at hk
          | succ f2 => rw [reach_kids f2 hk0 hgkn]; exact List.mem_cons_self
        exact nodup_flatMap_disjoint _ _ hndFM gk hgkm k hkm (fun h => hkgk h.symm) k hk hkself
      cases t.get? k with
      | none => rfl
      | some y => simp [hcond]
    have hframe : ∀ gk ∈ cn.kids, absNode U f1 gk = absNode t f1 gk ∧ reach U f1 gk = reach t f1 gk := by
      intro gk hgkm
      rcases KidsOk.mem _ _ _ _ hkc gk hgkm with rfl | ⟨l, h, hw⟩
      · simp [absNode_zero, reach_zero]
      · exact (hgk gk hgkm l h hw).2
    have hwU : WFNode U (f1 + 1) n 0 none none := by
      refine wfNode_of_kids hn0 hUn hrp (nodeShape_sl hslU hrs) (Or.inl rfl) ?_
      rw [hrk, hri]
      refine KidsOk.imp_mem _ _ _ _ (fun gk hgkm l h hw => (hgk gk hgkm l h hw).1) ?_
      exact KidsOk.mono (fun c' l l' h h' hl' hh' hw => WFNode.mono t f1 c' c l l' h h' hl' hh' hw) _ _ _ _ _ _
        (LoLe.none _) (HiLe.none _) hkc
    have habsU : absNode U (f1 + 1) n = absNode t (f1 + 1) c := by
      rw [absNode_kids f1 hn0 hUn (nodeShape_sl hslU hrs), absNode_kids f1 hc0 hgc hsc, hrk, hri]
      exact weave_congr _ _ (fun gk hgkm => (hframe gk hgkm).1)
    have hreachU : reach U (f1 + 1) n = n :: cn.kids.flatMap (reach t f1) := by
      rw [reach_kids f1 hn0 hUn, hrk]
      congr 1
      exact flatMap_congr' _ (fun gk hgkm => (hframe gk hgkm).2)
    have hndU : (reach U (f1 + 1) n).Nodup := by
      rw [hreachU]
      exact List.nodup_cons.mpr ⟨fun h => hnn (List.mem_cons_of_mem _ h), hndFM⟩
    have hrU : U.root = n := by rw [hrootU, hroot]
    have hclose := wfs_close U (f1 + 1) (by rw [hslU]; exact hsl0) (by rw [hrU]; exact hn0) (by rw [hrU]; exact hwU)
      (by rw [hrU]; exact hndU)
      (by rw [hrU, hreachU]; simp only [List.length_cons] at hl ⊢; omega)
    refine ⟨hclose.1, ?_⟩
    have htabs : t.abs = absNode t (f1 + 1 + 1) n := by unfold BTree.abs; rw [hroot, hN]
    rw [htabs, hclose.2.1, hrU, habsU, absNode_kids _ hn0 hg hs, hit]
    rcases hnk with e | e
    · rw [e]; simp only [weave, absNode_zero, List.append_nil]
      exact ⟨absNode t (f1 + 1) c, [], by simp, by simp⟩
    · rw [e]; simp only [weave, absNode_zero, List.nil_append, List.append_nil]
      exact ⟨[], absNode t (f1 + 1) c, by simp, by simp⟩


theorem updateChildrenParent_fields (t : BTree) (n : NodeId) (kids : Array NodeId) :
    (t.updateChildrenParent n kids).sl = t.sl ∧ (t.updateChildrenParent n kids).root = t.root ∧
    (t.updateChildrenParent n kids).count = t.count ∧ (t.updateChildrenParent n kids).panicked = t.panicked := by
  unfold BTree.updateChildrenParent
  rw [← Array.foldl_toList]
  generalize kids.toList = l
  induction l generalizing t with
  | nil => exact ⟨rfl, rfl, rfl, rfl⟩
  | cons c l ih =>
    simp only [List.foldl_cons]
    split
    · exact ih t
    · exact ih _

/-- the root branch of `removeItemOnNodeWithNilChild`'s tail, evaluated -/
theorem rncTail_root (t1 : BTree) (n c : NodeId) (nd x1 cn : Node) (hroot : nd.isRoot = true) (hone : nd.count = 1)
    (hK : (rncKids nd 0).getD 0 0 = c) (hc0 : c ≠ 0) (hcn : c ≠ n)
    (hg1 : t1.get? n = some x1) (hx1 : x1.child 0 = c) (hgc : t1.get? c = some cn) :
    rncTail t1 n nd 0 =
      some ((if cn.hasChildren then
          ((t1.upd n (fun x => { x with slots := goCopy x.slots 0 cn.slots 0 cn.slots.size, count := cn.count })).upd n
            (fun x => { x with children := some (goCopy (rncKids nd 0) 0 (cn.children.getD #[]) 0 (cn.children.getD #[]).size) })).updateChildrenParent n
            ((((t1.upd n (fun x => { x with slots := goCopy x.slots 0 cn.slots 0 cn.slots.size, count := cn.count })).upd n
              (fun x => { x with children := some (goCopy (rncKids nd 0) 0 (cn.children.getD #[]) 0 (cn.children.getD #[]).size) })).get n).children.getD #[])
        else
          ((t1.upd n (fun x => { x with slots := goCopy x.slots 0 cn.slots 0 cn.slots.size, count := cn.count })).upd n
            (fun x => x.setChild 0 0)).upd n (fun x => if x.isNilChildren then { x with children := none } else x)).del c,
        .ok true) := by
  have hco : t1.childOf n 0 = c := by
    unfold BTree.childOf
    simp [get_of_get? hg1, hx1, hc0, hgc]
  unfold rncTail
  simp only
  rw [if_pos ⟨by omega, by rw [hK]; exact hc0⟩, if_pos hroot, hco]
  simp only [hc0, if_false, get_of_get? hgc]


theorem mem_kids_of_mem_children {t : BTree} {cn : Node} {arr : Array NodeId} (hs : NodeShape t cn)
    (hc : cn.children = some arr) {k : NodeId} (hk0 : k ≠ 0) : k ∈ arr.toList ↔ k ∈ cn.kids := by
  have hk : cn.kids = arr.toList.take (cn.count + 1) := by unfold Node.kids; rw [hc]
  rw [hk]
  constructor
  · intro h
    rw [← List.take_append_drop (cn.count + 1) arr.toList] at h
    rcases List.mem_append.mp h with h | h
    · exact h
    · exact absurd ((hs.2.2.2.2 arr hc).2 k h) hk0
  · exact List.mem_of_mem_take

theorem pack4 {U t : BTree} {P : Prop} (h : WFs U ∧ P) (hp : U.panicked = t.panicked) (hc : U.count = t.count) :
    WFs U ∧ U.panicked = t.panicked ∧ U.count = t.count ∧ P := ⟨h.1, hp, hc, h.2⟩

/-- `removeItemOnNodeWithNilChild` on the inner root with one item and exactly one live child: the root takes over
    the child's content (the tree loses a level) -/
theorem rnc_collapse_s (t : BTree) (hws : WFs t) (n : NodeId) (nd : Node) (hroot : t.root = n)
    (hg : t.get? n = some nd) (hch : nd.children.isSome = true) (hone : nd.count = 1)
    (hk : (nd.child 0 = 0 ∧ nd.child 1 ≠ 0) ∨ (nd.child 0 ≠ 0 ∧ nd.child 1 = 0)) :
    ∃ U, t.removeItemOnNodeWithNilChild n 0 = some (U, .ok true) ∧ WFs U ∧ U.panicked = t.panicked ∧ U.count = t.count ∧
      ∃ L R, t.abs = L ++ nd.slot 0 :: R ∧ U.abs = L ++ R := by
  have hget := get_of_get? hg
  obtain ⟨hsl0, hr, hwt, hnd, hl⟩ := id hws
  rw [hroot] at hwt hnd hl hr
  obtain ⟨hn0, hpar0, hs, _, hkn⟩ := wfNode_kids hwt hg
  obtain ⟨cs, hcs⟩ : ∃ cs, nd.children = some cs := by
    cases h : nd.children with
    | none => rw [h] at hch; simp at hch
    | some cs => exact ⟨cs, rfl⟩
  have hi : 0 < nd.count := by omega
  have hkk := kids_two hs hone
  have hnil : nd.child 0 = 0 ∨ nd.child (0 + 1) = 0 := by
    rcases hk with h | h
    · exact Or.inl h.1
    · exact Or.inr h.2
  obtain ⟨c, hc0, hnk, hkc⟩ : ∃ c, c ≠ 0 ∧ (nd.kids = [c, 0] ∨ nd.kids = [0, c]) ∧
      (nd.kids.eraseIdx (nilPos nd 0)).getD 0 0 = c := by
    rcases hk with ⟨h0, h1⟩ | ⟨h0, h1⟩
    · refine ⟨nd.child 1, h1, Or.inr (by rw [hkk, h0]), ?_⟩
      have : nilPos nd 0 = 0 := by simp [nilPos, h0]
      rw [this, hkk]; rfl
    · refine ⟨nd.child 0, h0, Or.inl (by rw [hkk, h1]), ?_⟩
      have : nilPos nd 0 = 1 := by simp [nilPos, h0]
      rw [this, hkk]; rfl
  have hK : (rncKids nd 0).getD 0 0 = c := by rw [rncKids_getD0 hs hcs hi, hkc]
  have hisroot : nd.isRoot = true := by simp [Node.isRoot, hpar0]
  -- the live kid
  have hcm : c ∈ nd.kids := by rcases hnk with e | e <;> rw [e] <;> simp
  obtain ⟨lc, hc', hwc⟩ : ∃ l h', WFNode t t.nodes.length c n l h' := by
    rcases KidsOk.mem _ _ _ _ hkn c hcm with h | h
    · exact absurd h hc0
    · exact h
  cases hN : t.nodes.length with
  | zero => rw [hN] at hwc; exact absurd hwc (by simp [WFNode])
  | succ f1 =>
    rw [hN] at hwc hnd
    obtain ⟨_, cn, hgc, _⟩ := id hwc
    obtain ⟨_, _, hsc, _, hkcn⟩ := wfNode_kids hwc hgc
    have hrn : reach t (f1 + 1 + 1) n = n :: reach t (f1 + 1) c := by
      rw [reach_kids _ hn0 hg]
      rcases hnk with e | e <;> rw [e] <;> simp [reach_zero]
    have hrc := reach_kids f1 hc0 hgc
    rw [hrn, hrc] at hnd
    have hnn := (List.nodup_cons.mp hnd).1
    have hcn : c ≠ n := fun h => hnn (h ▸ List.mem_cons_self)
    have hnotkid : n ∉ cn.kids := by
      intro hm
      apply hnn
      refine List.mem_cons_of_mem _ (List.mem_flatMap.mpr ⟨n, hm, ?_⟩)
      rcases KidsOk.mem _ _ _ _ hkcn n hm with h | ⟨_, _, hw⟩
      · exact absurd h hn0
      · cases f1 with
        | zero => exact absurd hw (by simp [WFNode])
        | succ f2 => rw [reach_kids f2 hn0 hg]; exact List.mem_cons_self
    have hidp : ∀ x : Node, (rncUpd nd 0 x).id = x.id := fun _ => rfl
    have hg1 : (t.upd n (rncUpd nd 0)).get? n = some (rncNode nd 0) := by rw [get?_upd_eq t _ _ hidp, hg]; rfl
    have hgc1 : (t.upd n (rncUpd nd 0)).get? c = some cn := by rw [get?_upd_ne t _ hidp hcn]; exact hgc
    have htail := rncTail_root (t.upd n (rncUpd nd 0)) n c nd (rncNode nd 0) cn hisroot hone hK hc0 hcn hg1 hK hgc1
    have hrnc : t.removeItemOnNodeWithNilChild n 0 = rncTail (t.upd n (rncUpd nd 0)) n nd 0 :=
      rnc_eq t _ _ nd hget hch hnil hi
    rw [hrnc, htail]
    refine ⟨_, rfl, ?_⟩
    have hsz1 : (rncSlots nd 0).size = cn.slots.size := by
      have h1 : (rncSlots nd 0).size = t.sl := (rncNode_shape hs hcs hi).1
      rw [h1]; exact hsc.1.symm
    -- the node the root becomes
    have hrs : NodeShape t ({ nd with slots := cn.slots, count := cn.count, children := cn.children } : Node) :=
      ⟨hsc.1, hsc.2.1, hs.2.2.1, hsc.2.2.2.1, hsc.2.2.2.2⟩
    have hf2 : ∀ x : Node, ({ x with slots := goCopy x.slots 0 cn.slots 0 cn.slots.size, count := cn.count } : Node).id = x.id :=
      fun _ => rfl
    cases hcc : cn.children with
    | none =>
      have hhc : cn.hasChildren = false := by simp [Node.hasChildren, hcc]
      simp only [hhc, Bool.false_eq_true, if_false]
      have hf3 : ∀ x : Node, (x.setChild 0 0).id = x.id := fun _ => rfl
      have hf4 : ∀ x : Node, (if x.isNilChildren then { x with children := none } else x : Node).id = x.id := by
        intro x; split <;> rfl
      have hnilc : (((rncKids nd 0).setIfInBounds 0 0).all (· == 0)) = true := by
        apply Array.all_eq_true_iff_forall_mem.mpr
        intro y hy
        have hy' : y ∈ ((rncKids nd 0).toList.set 0 0) := by
          rw [← Array.toList_setIfInBounds]; exact Array.mem_def.mp hy
        have htl := (rncNode_shape hs hcs hi).2.2.2.2 (rncKids nd 0) rfl
        have hcnt : (rncNode nd 0).count = 0 := by simp [rncNode, hone]
        rw [hcnt] at htl
        cases hkl : (rncKids nd 0).toList with
        | nil => rw [hkl] at hy'; simp at hy'
        | cons a l =>
          rw [hkl] at hy' htl
          simp only [List.set_cons_zero, List.mem_cons] at hy'
          rcases hy' with rfl | hy'
          · simp
          · have := htl.2 y (by simpa using hy'); simp [this]
      refine pack4 ?_ (by rw [del_panicked]; rfl) (by rw [del_count]; rfl)
      refine collapse_core t _ hws n c nd cn { nd with slots := cn.slots, count := cn.count, children := cn.children }
        hroot hg hone hnk hc0 (by rw [del_sl]; rfl) (by rw [del_root]; rfl) ?_ hpar0 rfl rfl hrs hgc ?_ ?_
      · rw [get?_del _ hc0, if_neg hcn.symm, get?_upd_eq _ _ _ hf4, get?_upd_eq _ _ _ hf3, get?_upd_eq _ _ _ hf2, hg1]
        simp only [Option.map_some, Option.some.injEq]
        have e1 : goCopy (rncSlots nd 0) 0 cn.slots 0 cn.slots.size = cn.slots := goCopy_full _ _ hsz1
        simp only [e1, Node.setChild, rncNode, Option.map_some, Node.isNilChildren, Option.getD_some, hnilc, if_true, hcc]
      · intro k hkn' hkc'
        rw [get?_del _ hc0, if_neg hkc', get?_upd_ne _ _ hf4 hkn', get?_upd_ne _ _ hf3 hkn', get?_upd_ne _ _ hf2 hkn',
          get?_upd_ne t _ hidp hkn']
        have hcond : ¬ (k ≠ 0 ∧ k ∈ cn.kids) := by
          rintro ⟨hk0, hkm⟩
          unfold Node.kids at hkm
          rw [hcc] at hkm
          simp at hkm
          exact hk0 hkm
        cases t.get? k with
        | none => rfl
        | some y => simp [hcond]
      · have hgu : ((((t.upd n (rncUpd nd 0)).upd n (fun x => { x with slots := goCopy x.slots 0 cn.slots 0 cn.slots.size, count := cn.count })).upd n
            (fun x => x.setChild 0 0)).upd n (fun x => if x.isNilChildren then { x with children := none } else x)).get? c = some cn := by
          rw [get?_upd_ne _ _ hf4 hcn, get?_upd_ne _ _ hf3 hcn, get?_upd_ne _ _ hf2 hcn]; exact hgc1
        have := del_length_lt _ hc0 hgu
        simpa [hN] using this
    | some cnArr =>
      have hhc : cn.hasChildren = true := by simp [Node.hasChildren, hcc]
      simp only [hhc, if_true, Option.getD_some]
      have hf3 : ∀ x : Node, ({ x with children := some (goCopy (rncKids nd 0) 0 cnArr 0 cnArr.size) } : Node).id = x.id :=
        fun _ => rfl
      have hszK : (rncKids nd 0).size = cnArr.size := by
        rw [((rncNode_shape hs hcs hi).2.2.2.2 (rncKids nd 0) rfl).1, (hsc.2.2.2.2 cnArr hcc).1]
      have e2 : goCopy (rncKids nd 0) 0 cnArr 0 cnArr.size = cnArr := goCopy_full _ _ hszK
      have e1 : goCopy (rncSlots nd 0) 0 cn.slots 0 cn.slots.size = cn.slots := goCopy_full _ _ hsz1
      have hgn3 : (((t.upd n (rncUpd nd 0)).upd n (fun x => { x with slots := goCopy x.slots 0 cn.slots 0 cn.slots.size, count := cn.count })).upd n
          (fun x => { x with children := some (goCopy (rncKids nd 0) 0 cnArr 0 cnArr.size) })).get? n
          = some { nd with slots := cn.slots, count := cn.count, children := some cnArr } := by
        rw [get?_upd_eq _ _ _ hf3, get?_upd_eq _ _ _ hf2, hg1]
        simp only [Option.map_some, Option.some.injEq, rncNode, e1, e2]
      rw [get_of_get? hgn3]
      simp only [Option.getD_some]
      have hnarr : n ∉ cnArr.toList := fun h => hnotkid ((mem_kids_of_mem_children hsc hcc hn0).mp h)
      have hflds := updateChildrenParent_fields
        (((t.upd n (rncUpd nd 0)).upd n (fun x => { x with slots := goCopy x.slots 0 cn.slots 0 cn.slots.size, count := cn.count })).upd n
          (fun x => { x with children := some (goCopy (rncKids nd 0) 0 cnArr 0 cnArr.size) })) n cnArr
      refine pack4 ?_ (by rw [del_panicked, hflds.2.2.2]; rfl) (by rw [del_count, hflds.2.2.1]; rfl)
      refine collapse_core t _ hws n c nd cn { nd with slots := cn.slots, count := cn.count, children := cn.children }
        hroot hg hone hnk hc0 (by rw [del_sl, hflds.1]; rfl) (by rw [del_root, hflds.2.1]; rfl) ?_ hpar0 rfl rfl hrs hgc ?_ ?_
      · rw [get?_del _ hc0, if_neg hcn.symm, updateChildrenParent_get?, hgn3]
        simp [hnarr, hcc]
      · intro k hkn' hkc'
        rw [get?_del _ hc0, if_neg hkc', updateChildrenParent_get?, get?_upd_ne _ _ hf3 hkn', get?_upd_ne _ _ hf2 hkn',
          get?_upd_ne t _ hidp hkn']
        by_cases hk0 : k = 0
        · cases t.get? k <;> simp [hk0]
        · have := mem_kids_of_mem_children hsc hcc hk0
          cases t.get? k with
          | none => rfl
          | some y => simp only [Option.map_some, this]
      · have hgu : ((((t.upd n (rncUpd nd 0)).upd n (fun x => { x with slots := goCopy x.slots 0 cn.slots 0 cn.slots.size, count := cn.count })).upd n
            (fun x => { x with children := some (goCopy (rncKids nd 0) 0 cnArr 0 cnArr.size) })).updateChildrenParent n cnArr).get? c
              = some (if c ≠ 0 ∧ c ∈ cnArr.toList then { cn with parent := n } else cn) := by
          rw [updateChildrenParent_get?, get?_upd_ne _ _ hf3 hcn, get?_upd_ne _ _ hf2 hcn, hgc1]; rfl
        have := del_length_lt _ hc0 hgu
        rw [updateChildrenParent_length] at this
        simpa [hN] using this


/-- INNER ROOT WITH ONE ITEM AND ONE LIVE CHILD: `RemoveCurrentItem` makes the root take over the child's content
    (the tree loses a level). -/
theorem removeCurrent_nilchild_collapse_ok (t : BTree) (hwf : WF t) (hp : t.panicked = false) (hc : CursorOn t)
    (hch : (t.get t.cur.node).children.isSome = true) (hone : (t.get t.cur.node).count = 1)
    (hk : ((t.get t.cur.node).child 0 = 0 ∧ (t.get t.cur.node).child 1 ≠ 0) ∨
      ((t.get t.cur.node).child 0 ≠ 0 ∧ (t.get t.cur.node).child 1 = 0)) (hisroot : t.cur.node = t.root) :
    WF t.removeCurrent.1 ∧ t.removeCurrent.1.panicked = false ∧ t.removeCurrent.2 = .ok true ∧
    t.removeCurrent.1.cur = { node := 0, idx := 0, cached := false } ∧ t.removeCurrent.1.count = t.count - 1 ∧
    ∃ L R, t.abs = L ++ t.curItem :: R ∧ t.removeCurrent.1.abs = L ++ R := by
  obtain ⟨nd, hg, hcn, hid, hget, hi, hneg⟩ := hc.node
  have hroot := root_ne_zero_of_reach hc.1
  have hws := WF.wfs hwf hroot
  rw [hget] at hch hone hk
  have hpos : t.cur.idx.toNat = 0 := by omega
  obtain ⟨U, hrnc, hwsu, hpan, hcnt, L, R, e1, e2⟩ := rnc_collapse_s t hws t.cur.node nd hisroot.symm hg hch hone hk
  rw [removeCurrent_of_rnc t hwf hc (by rw [hget]; exact hch) _ (by rw [hpos]; exact hrnc)]
  have h4 := WFs.congr hwsu (t' := { U.setCur 0 0 with count := U.count - 1 }) rfl rfl rfl (fun k => rfl)
  obtain ⟨hws4, habs4, _⟩ := h4
  have hcount := WF.count_eq hwf hroot
  refine ⟨hws4.wf ?_, by show U.panicked = false; rw [hpan]; exact hp, rfl, rfl,
    by show U.count - 1 = _; rw [hcnt], L, R, ?_, by rw [habs4]; exact e2⟩
  · rw [habs4, e2]
    show U.count - 1 = _
    rw [hcnt, hcount, e1]
    simp only [List.length_append, List.length_cons]
    omega
  · unfold BTree.curItem; rw [hget, hpos]; exact e1

theorem twostep_perm {x : Item} {a u : List Item}
    (h : ∃ L s R, a = L ++ x :: s :: R ∧ ∃ L2 R2, L ++ s :: s :: R = L2 ++ s :: R2 ∧ u = L2 ++ R2) :
    ∃ L R, a = L ++ x :: R ∧ (L ++ R).Perm u := by
  obtain ⟨L, s, R, e1, L2, R2, e2, e3⟩ := h
  refine ⟨L, s :: R, e1, ?_⟩
  rw [e3]
  have h1 : (L ++ s :: s :: R).Perm (s :: (L ++ s :: R)) := List.perm_middle
  have h2 : (L2 ++ s :: R2).Perm (s :: (L2 ++ R2)) := List.perm_middle
  rw [e2] at h1
  exact (h1.symm.trans h2).cons_inv

theorem exact_perm {x : Item} {a u : List Item} (h : ∃ L R, a = L ++ x :: R ∧ u = L ++ R) :
    ∃ L R, a = L ++ x :: R ∧ (L ++ R).Perm u := by
  obtain ⟨L, R, e1, e2⟩ := h
  exact ⟨L, R, e1, by rw [e2]⟩

/-- `RemoveCurrentItem`, EVERY BRANCH: on a well-formed tree whose cursor designates an occupied slot of a reachable
    node, the call answers `true`, does not panic, leaves a well-formed tree with the cursor reset and `Count`
    decremented, and the in-order contents are the old ones minus the cursor's item (as a multiset; the
    tree being well-formed, they are again key-sorted). -/
theorem removeCurrent_ok (t : BTree) (hwf : WF t) (hp : t.panicked = false) (hc : CursorOn t) :
    WF t.removeCurrent.1 ∧ t.removeCurrent.1.panicked = false ∧ t.removeCurrent.2 = .ok true ∧
    t.removeCurrent.1.cur = { node := 0, idx := 0, cached := false } ∧ t.removeCurrent.1.count = t.count - 1 ∧
    ∃ L R, t.abs = L ++ t.curItem :: R ∧ (L ++ R).Perm t.removeCurrent.1.abs := by
  obtain ⟨nd, hg, hcn, hid, hget, hi, hneg⟩ := hc.node
  cases hch : (t.get t.cur.node).children.isSome with
  | false =>
    have hleaf : (t.get t.cur.node).children = none := by
      cases h : (t.get t.cur.node).children with
      | none => rfl
      | some x => rw [h] at hch; simp at hch
    obtain ⟨h1, h2, h3, h4, h5, h6⟩ := removeCurrent_leaf_ok t hwf hp hc hleaf
    exact ⟨h1, h2, h3, h4, h5, exact_perm h6⟩
  | true =>
    by_cases hnil : (t.get t.cur.node).child t.cur.idx.toNat = 0 ∨ (t.get t.cur.node).child (t.cur.idx.toNat + 1) = 0
    · by_cases hmany : 1 < (t.get t.cur.node).count
      · obtain ⟨h1, h2, h3, h4, h5, h6⟩ := removeCurrent_nilchild_many_ok t hwf hp hc hch hnil hmany
        exact ⟨h1, h2, h3, h4, h5, exact_perm h6⟩
      · have hone : (t.get t.cur.node).count = 1 := by rw [hget] at hmany ⊢; omega
        have hpos : t.cur.idx.toNat = 0 := by rw [hget] at hone; omega
        rw [hpos] at hnil
        by_cases h0 : (t.get t.cur.node).child 0 = 0
        · by_cases h1 : (t.get t.cur.node).child 1 = 0
          · by_cases hroot : t.cur.node = t.root
            · obtain ⟨g1, g2, g3, g4, g5, g6⟩ := removeCurrent_nilchild_root_last_ok t hwf hp hc hch hone h0 h1 hroot
              exact ⟨g1, g2, g3, g4, g5, exact_perm g6⟩
            · obtain ⟨g1, g2, g3, g4, g5, g6⟩ := removeCurrent_nilchild_unlink_ok t hwf hp hc hch hone h0 h1 hroot
              exact ⟨g1, g2, g3, g4, g5, exact_perm g6⟩
          · by_cases hroot : t.cur.node = t.root
            · obtain ⟨g1, g2, g3, g4, g5, g6⟩ :=
                removeCurrent_nilchild_collapse_ok t hwf hp hc hch hone (Or.inl ⟨h0, h1⟩) hroot
              exact ⟨g1, g2, g3, g4, g5, exact_perm g6⟩
            · obtain ⟨g1, g2, g3, g4, g5, g6⟩ :=
                removeCurrent_nilchild_promote_ok t hwf hp hc hch hone (Or.inl ⟨h0, h1⟩) hroot
              exact ⟨g1, g2, g3, g4, g5, exact_perm g6⟩
        · have h1 : (t.get t.cur.node).child 1 = 0 := by
            rcases hnil with h | h
            · exact absurd h h0
            · exact h
          by_cases hroot : t.cur.node = t.root
          · obtain ⟨g1, g2, g3, g4, g5, g6⟩ :=
              removeCurrent_nilchild_collapse_ok t hwf hp hc hch hone (Or.inr ⟨h0, h1⟩) hroot
            exact ⟨g1, g2, g3, g4, g5, exact_perm g6⟩
          · obtain ⟨g1, g2, g3, g4, g5, g6⟩ :=
              removeCurrent_nilchild_promote_ok t hwf hp hc hch hone (Or.inr ⟨h0, h1⟩) hroot
            exact ⟨g1, g2, g3, g4, g5, exact_perm g6⟩
    · have hl : (t.get t.cur.node).child t.cur.idx.toNat ≠ 0 := fun h => hnil (Or.inl h)
      have hr : (t.get t.cur.node).child (t.cur.idx.toNat + 1) ≠ 0 := fun h => hnil (Or.inr h)
      obtain ⟨m, mn, hmv, hgm, _, hmc, hmz, _⟩ := succ_setup t hwf hc hch hr
      have hM : (t.moveToNext t.cur.node).1.cur.node = m := by rw [hmv]; rfl
      cases hsch : (t.get (t.moveToNext t.cur.node).1.cur.node).children.isSome with
      | false =>
        have hleaf : (t.get (t.moveToNext t.cur.node).1.cur.node).children = none := by
          cases h : (t.get (t.moveToNext t.cur.node).1.cur.node).children with
          | none => rfl
          | some x => rw [h] at hsch; simp at hsch
        obtain ⟨g1, g2, g3, g4, g5, g6⟩ := removeCurrent_succ_leaf_ok t hwf hp hc hch hl hr hleaf
        exact ⟨g1, g2, g3, g4, g5, twostep_perm g6⟩
      | true =>
        by_cases hsmany : 1 < (t.get (t.moveToNext t.cur.node).1.cur.node).count
        · obtain ⟨g1, g2, g3, g4, g5, g6⟩ := removeCurrent_succ_inner_many_ok t hwf hp hc hch hl hr hsch hsmany
          exact ⟨g1, g2, g3, g4, g5, twostep_perm g6⟩
        · have hsone : (t.get (t.moveToNext t.cur.node).1.cur.node).count = 1 := by
            rw [hM, get_of_get? hgm] at hsmany ⊢; omega
          by_cases hs1 : (t.get (t.moveToNext t.cur.node).1.cur.node).child 1 = 0
          · obtain ⟨g1, g2, g3, g4, g5, g6⟩ := removeCurrent_succ_inner_unlink_ok t hwf hp hc hch hl hr hsch hsone hs1
            exact ⟨g1, g2, g3, g4, g5, twostep_perm g6⟩
          · obtain ⟨g1, g2, g3, g4, g5, g6⟩ := removeCurrent_succ_inner_promote_ok t hwf hp hc hch hl hr hsch hsone hs1
            exact ⟨g1, g2, g3, g4, g5, twostep_perm g6⟩


instance (t : BTree) : Decidable (CursorOn t) := by unfold CursorOn; infer_instance

/-- no current item: `RemoveCurrentItem` answers `false` and changes nothing -/
theorem removeCurrent_none (t : BTree) (h : t.curNode? = none) : t.removeCurrent = (t, .ok false) := by
  unfold BTree.removeCurrent; rw [h]

theorem updateCurrent_none (t : BTree) (key : Int) (val : Option Nat) (h : t.curNode? = none) :
    t.updateCurrent key val = (t, .ok false) := by
  unfold BTree.updateCurrent; rw [h]

theorem updateCurrentValue_none (t : BTree) (v : Nat) (h : t.curNode? = none) :
    t.updateCurrentValue v = (t, .ok false) := by
  unfold BTree.updateCurrentValue; rw [h]

/-- for a non-negative cursor index, "there is a current item" is exactly `CursorOn` once the node is reachable -/
theorem cursorOn_of_curNode (t : BTree) (nd : Node) (h : t.curNode? = some nd) (h0 : 0 ≤ t.cur.idx)
    (hr : t.cur.node ∈ reach t (t.nodes.length + 1) t.root) : CursorOn t := by
  unfold BTree.curNode? at h
  split at h
  · cases h
  · split at h
    · cases h
    · rename_i nd' hg
      split at h
      · cases h
      · cases h
        refine ⟨hr, h0, ?_⟩
        rw [get_of_get? hg]; omega

/-- non-vacuity: a three-level tree (slot length 2) with the cursor on an inner slot whose successor sits in a leaf -/
def demoTree : BTree :=
  ((BTree.new 2 true false true).run [.add 4 1, .add 2 2, .add 6 3, .add 1 4, .add 8 5, .add 9 6, .add 3 7, .add 5 8,
    .find 4 false])

theorem demoTree_ok : checkWF demoTree = true ∧ demoTree.panicked = false ∧ CursorOn demoTree ∧
    (demoTree.get demoTree.cur.node).children.isSome = true := by decide +kernel

end Sop.BTree.Rem
