import Sop.Lemmas.BTreeRemove8
/-! C17, remove side of Model B, part 8: with pairwise different item ids the contents after
`RemoveCurrentItem` are exact in every branch (`removeCurrent_ok_exact`), the ids stay pairwise different
(`removeCurrent_ids`), and the update-in-place calls leave the id and key sequences untouched
(`updateCurrentValue_ids`, `updateCurrent_ids`). -/
namespace Sop.BTree.Rem
open Sop.BTree
set_option linter.unusedVariables false
set_option linter.unusedSimpArgs false


theorem twostep_list {s : Item} {L R L2 R2 : List Item} (hL : s ∉ L) (hR : s ∉ R)
    (h : L ++ s :: s :: R = L2 ++ s :: R2) : L2 ++ R2 = L ++ s :: R := by
  rcases List.append_eq_append_iff.mp h with ⟨a', h1, h2⟩ | ⟨c', h1, h2⟩
  · cases a' with
    | nil =>
      simp only [List.nil_append, List.cons.injEq, true_and] at h2
      rw [h1, ← h2]; simp
    | cons y a'' =>
      simp only [List.cons_append, List.cons.injEq] at h2
      obtain ⟨rfl, h2⟩ := h2
      cases a'' with
      | nil =>
        simp only [List.nil_append, List.cons.injEq, true_and] at h2
        rw [h1, h2]; simp
      | cons z a''' =>
        simp only [List.cons_append, List.cons.injEq] at h2
        exfalso; apply hR; rw [h2.2]; simp
  · cases c' with
    | nil =>
      simp only [List.nil_append, List.cons.injEq, true_and] at h2
      rw [List.append_nil] at h1
      rw [h1, h2]
    | cons y c'' =>
      simp only [List.cons_append, List.cons.injEq] at h2
      exfalso; apply hL; rw [h1, h2.1]; simp

theorem twostep_exact {x : Item} {a u : List Item} (hids : (a.map (·.id)).Nodup)
    (h : ∃ L s R, a = L ++ x :: s :: R ∧ ∃ L2 R2, L ++ s :: s :: R = L2 ++ s :: R2 ∧ u = L2 ++ R2) :
    ∃ L R, a = L ++ x :: R ∧ u = L ++ R := by
  obtain ⟨L, s, R, e1, L2, R2, e2, e3⟩ := h
  refine ⟨L, s :: R, e1, ?_⟩
  rw [e3]
  rw [e1] at hids
  simp only [List.map_append, List.map_cons] at hids
  have h1 := List.nodup_append.mp hids
  have h2 := List.nodup_cons.mp h1.2.1
  have h3 := List.nodup_cons.mp h2.2
  refine twostep_list ?_ ?_ e2
  · intro hm
    exact h1.2.2 s.id (List.mem_map.mpr ⟨s, hm, rfl⟩) s.id (by simp) rfl
  · intro hm
    exact h3.1 (List.mem_map.mpr ⟨s, hm, rfl⟩)

/-- `RemoveCurrentItem`, EVERY BRANCH, EXACT CONTENTS: when the item ids of the tree are pairwise different (as they
    are in every tree built by the public calls), the in-order contents afterwards are exactly the old ones with the
    cursor's item taken out of its place. -/
theorem removeCurrent_ok_exact (t : BTree) (hwf : WF t) (hp : t.panicked = false) (hc : CursorOn t)
    (hids : (t.abs.map (·.id)).Nodup) :
    WF t.removeCurrent.1 ∧ t.removeCurrent.1.panicked = false ∧ t.removeCurrent.2 = .ok true ∧
    t.removeCurrent.1.cur = { node := 0, idx := 0, cached := false } ∧ t.removeCurrent.1.count = t.count - 1 ∧
    ∃ L R, t.abs = L ++ t.curItem :: R ∧ t.removeCurrent.1.abs = L ++ R := by
  obtain ⟨nd, hg, hcn, hid, hget, hi, hneg⟩ := hc.node
  cases hch : (t.get t.cur.node).children.isSome with
  | false =>
    have hleaf : (t.get t.cur.node).children = none := by
      cases h : (t.get t.cur.node).children with
      | none => rfl
      | some x => rw [h] at hch; simp at hch
    obtain ⟨h1, h2, h3, h4, h5, h6⟩ := removeCurrent_leaf_ok t hwf hp hc hleaf
    exact ⟨h1, h2, h3, h4, h5, h6⟩
  | true =>
    by_cases hnil : (t.get t.cur.node).child t.cur.idx.toNat = 0 ∨ (t.get t.cur.node).child (t.cur.idx.toNat + 1) = 0
    · by_cases hmany : 1 < (t.get t.cur.node).count
      · obtain ⟨h1, h2, h3, h4, h5, h6⟩ := removeCurrent_nilchild_many_ok t hwf hp hc hch hnil hmany
        exact ⟨h1, h2, h3, h4, h5, h6⟩
      · have hone : (t.get t.cur.node).count = 1 := by rw [hget] at hmany ⊢; omega
        have hpos : t.cur.idx.toNat = 0 := by rw [hget] at hone; omega
        rw [hpos] at hnil
        by_cases h0 : (t.get t.cur.node).child 0 = 0
        · by_cases h1 : (t.get t.cur.node).child 1 = 0
          · by_cases hroot : t.cur.node = t.root
            · obtain ⟨g1, g2, g3, g4, g5, g6⟩ := removeCurrent_nilchild_root_last_ok t hwf hp hc hch hone h0 h1 hroot
              exact ⟨g1, g2, g3, g4, g5, g6⟩
            · obtain ⟨g1, g2, g3, g4, g5, g6⟩ := removeCurrent_nilchild_unlink_ok t hwf hp hc hch hone h0 h1 hroot
              exact ⟨g1, g2, g3, g4, g5, g6⟩
          · by_cases hroot : t.cur.node = t.root
            · obtain ⟨g1, g2, g3, g4, g5, g6⟩ :=
                removeCurrent_nilchild_collapse_ok t hwf hp hc hch hone (Or.inl ⟨h0, h1⟩) hroot
              exact ⟨g1, g2, g3, g4, g5, g6⟩
            · obtain ⟨g1, g2, g3, g4, g5, g6⟩ :=
                removeCurrent_nilchild_promote_ok t hwf hp hc hch hone (Or.inl ⟨h0, h1⟩) hroot
              exact ⟨g1, g2, g3, g4, g5, g6⟩
        · have h1 : (t.get t.cur.node).child 1 = 0 := by
            rcases hnil with h | h
            · exact absurd h h0
            · exact h
          by_cases hroot : t.cur.node = t.root
          · obtain ⟨g1, g2, g3, g4, g5, g6⟩ :=
              removeCurrent_nilchild_collapse_ok t hwf hp hc hch hone (Or.inr ⟨h0, h1⟩) hroot
            exact ⟨g1, g2, g3, g4, g5, g6⟩
          · obtain ⟨g1, g2, g3, g4, g5, g6⟩ :=
              removeCurrent_nilchild_promote_ok t hwf hp hc hch hone (Or.inr ⟨h0, h1⟩) hroot
            exact ⟨g1, g2, g3, g4, g5, g6⟩
    · have hl : (t.get t.cur.node).child t.cur.idx.toNat ≠ 0 := fun h => hnil (Or.inl h)
      have hr : (t.get t.cur.node).child (t.cur.idx.toNat + 1) ≠ 0 := fun h => hnil (Or.inr h)
      obtain ⟨m, mn, hmv, hgm, _, hmc, hmz, _⟩ := succ_setup t hwf hc hch hr
      have hM : (t.moveToNext t.cur.node).1.cur.node = m := by rw [hmv]; rfl
      cases hsch : (t.get (t.moveToNext t.cur.node).1.cur.node).children.isSome with
      | false =>
        have hleaf : (t.get (t.moveToNext t.cur.node).1.cur.node).children = none := by
          cases h : (t.get (t.moveToNext t.cur.node).1.cur.node).children with
          | none => rfl
          | some x => rw [h] at hsch; simp at hsch
        obtain ⟨g1, g2, g3, g4, g5, g6⟩ := removeCurrent_succ_leaf_ok t hwf hp hc hch hl hr hleaf
        exact ⟨g1, g2, g3, g4, g5, twostep_exact hids g6⟩
      | true =>
        by_cases hsmany : 1 < (t.get (t.moveToNext t.cur.node).1.cur.node).count
        · obtain ⟨g1, g2, g3, g4, g5, g6⟩ := removeCurrent_succ_inner_many_ok t hwf hp hc hch hl hr hsch hsmany
          exact ⟨g1, g2, g3, g4, g5, twostep_exact hids g6⟩
        · have hsone : (t.get (t.moveToNext t.cur.node).1.cur.node).count = 1 := by
            rw [hM, get_of_get? hgm] at hsmany ⊢; omega
          by_cases hs1 : (t.get (t.moveToNext t.cur.node).1.cur.node).child 1 = 0
          · obtain ⟨g1, g2, g3, g4, g5, g6⟩ := removeCurrent_succ_inner_unlink_ok t hwf hp hc hch hl hr hsch hsone hs1
            exact ⟨g1, g2, g3, g4, g5, twostep_exact hids g6⟩
          · obtain ⟨g1, g2, g3, g4, g5, g6⟩ := removeCurrent_succ_inner_promote_ok t hwf hp hc hch hl hr hsch hsone hs1
            exact ⟨g1, g2, g3, g4, g5, twostep_exact hids g6⟩


/-- item ids stay pairwise different under `RemoveCurrentItem` -/
theorem removeCurrent_ids (t : BTree) (hwf : WF t) (hp : t.panicked = false) (hc : CursorOn t)
    (hids : (t.abs.map (·.id)).Nodup) : (t.removeCurrent.1.abs.map (·.id)).Nodup := by
  obtain ⟨_, _, _, _, _, L, R, e1, e2⟩ := removeCurrent_ok_exact t hwf hp hc hids
  rw [e2]
  rw [e1] at hids
  refine List.Nodup.sublist ?_ hids
  apply List.Sublist.map
  exact List.Sublist.append (List.Sublist.refl L) (List.sublist_cons_self _ R)

/-- the id sequence is untouched by `UpdateCurrentValue` / `UpdateCurrentItem/Key` -/
theorem updateCurrentValue_ids (t : BTree) (v : Nat) (hwf : WF t) (hp : t.panicked = false) (hc : CursorOn t) :
    (t.updateCurrentValue v).1.abs.map (·.id) = t.abs.map (·.id) ∧
    (t.updateCurrentValue v).1.abs.map (·.key) = t.abs.map (·.key) := by
  obtain ⟨_, _, _, _, _, L, R, e1, e2⟩ := updateCurrentValue_ok t v hwf hp hc
  rw [e1, e2]; simp

theorem updateCurrent_ids (t : BTree) (key : Int) (val : Option Nat) (hwf : WF t) (hp : t.panicked = false)
    (hc : CursorOn t) (hkey : t.curItem.key = key) :
    (t.updateCurrent key val).1.abs.map (·.id) = t.abs.map (·.id) ∧
    (t.updateCurrent key val).1.abs.map (·.key) = t.abs.map (·.key) := by
  obtain ⟨_, _, _, _, _, L, R, e1, e2⟩ := updateCurrent_ok t key val hwf hp hc hkey
  rw [e1, e2]; simp

end Sop.BTree.Rem
