import Sop.Lemmas.BTreeHeap
/-! C17: frame facts of the update-in-place / remove routines of Model B, WITHOUT hypotheses (`SameFrame`):
configuration, id counter and pending distribute/promote actions untouched, no node id invented.
`updateCurrent_frame`, `updateCurrentValue_frame`, `removeCurrent_frame` (every branch), and the routines
below them (`unlink_frame`, `promoteSingleChild_frame`, `fixVacatedSlot_frame`,
`removeItemOnNodeWithNilChild_frame`, `moveToNext_frame`, `getIndexOfChild_frame`). -/
namespace Sop.BTree.Rem
open Sop.BTree
set_option linter.unusedVariables false
set_option linter.unusedSimpArgs false


/-- `r` has the configuration, id counter and pending actions of `t`, and every node id of `r` is one of `t` -/
def SameFrame (t r : BTree) : Prop :=
  r.nextId = t.nextId ∧ r.sl = t.sl ∧ r.unique = t.unique ∧ r.lb = t.lb ∧ r.fixFast = t.fixFast ∧
  r.fixErr = t.fixErr ∧ r.fixId = t.fixId ∧ r.distSrc = t.distSrc ∧ r.promTarget = t.promTarget ∧
  (∀ nd' ∈ r.nodes, ∃ nd ∈ t.nodes, nd.id = nd'.id)

theorem SameFrame.refl (t : BTree) : SameFrame t t :=
  ⟨rfl, rfl, rfl, rfl, rfl, rfl, rfl, rfl, rfl, fun nd h => ⟨nd, h, rfl⟩⟩

theorem SameFrame.trans {a b c : BTree} (h1 : SameFrame a b) (h2 : SameFrame b c) : SameFrame a c := by
  obtain ⟨a1, a2, a3, a4, a5, a6, a7, a8, a9, a10⟩ := h1
  obtain ⟨b1, b2, b3, b4, b5, b6, b7, b8, b9, b10⟩ := h2
  refine ⟨b1.trans a1, b2.trans a2, b3.trans a3, b4.trans a4, b5.trans a5, b6.trans a6, b7.trans a7, b8.trans a8,
    b9.trans a9, ?_⟩
  intro nd' h
  obtain ⟨nd, hnd, e⟩ := b10 nd' h
  obtain ⟨nd0, hnd0, e0⟩ := a10 nd hnd
  exact ⟨nd0, hnd0, e0.trans e⟩

/-- same nodes, same frame fields -/
theorem SameFrame.of_nodes {t r : BTree} (h1 : r.nextId = t.nextId) (h2 : r.sl = t.sl) (h3 : r.unique = t.unique)
    (h4 : r.lb = t.lb) (h5 : r.fixFast = t.fixFast) (h6 : r.fixErr = t.fixErr) (h7 : r.fixId = t.fixId)
    (h8 : r.distSrc = t.distSrc) (h9 : r.promTarget = t.promTarget) (hn : r.nodes = t.nodes) : SameFrame t r :=
  ⟨h1, h2, h3, h4, h5, h6, h7, h8, h9, fun nd h => ⟨nd, hn ▸ h, rfl⟩⟩

theorem SameFrame.panic (t : BTree) : SameFrame t t.panic := SameFrame.of_nodes rfl rfl rfl rfl rfl rfl rfl rfl rfl rfl
theorem SameFrame.setCur (t : BTree) (n : NodeId) (i : Int) : SameFrame t (t.setCur n i) :=
  SameFrame.of_nodes rfl rfl rfl rfl rfl rfl rfl rfl rfl rfl
theorem SameFrame.withCount (t : BTree) (c : Int) : SameFrame t { t with count := c } :=
  SameFrame.of_nodes rfl rfl rfl rfl rfl rfl rfl rfl rfl rfl

theorem SameFrame.upd (t : BTree) (n : NodeId) (g : Node → Node) (hg : ∀ x, (g x).id = x.id) : SameFrame t (t.upd n g) := by
  refine ⟨rfl, rfl, rfl, rfl, rfl, rfl, rfl, rfl, rfl, ?_⟩
  intro nd' h
  simp only [BTree.upd, List.mem_map] at h
  obtain ⟨nd, hnd, e⟩ := h
  refine ⟨nd, hnd, ?_⟩
  rw [← e]; split
  · exact (hg nd).symm
  · rfl

theorem SameFrame.del (t : BTree) (n : NodeId) : SameFrame t (t.del n) := by
  unfold BTree.del
  split
  · exact SameFrame.refl t
  · refine ⟨rfl, rfl, rfl, rfl, rfl, rfl, rfl, rfl, rfl, ?_⟩
    intro nd' h
    exact ⟨nd', (List.mem_filter.mp h).1, rfl⟩

theorem SameFrame.upd' {t r : BTree} {n : NodeId} {g : Node → Node} (hg : ∀ x, (g x).id = x.id) (h : SameFrame t r) :
    SameFrame t (r.upd n g) := h.trans (SameFrame.upd r n g hg)
theorem SameFrame.del' {t r : BTree} {n : NodeId} (h : SameFrame t r) : SameFrame t (r.del n) := h.trans (SameFrame.del r n)
theorem SameFrame.panic' {t r : BTree} (h : SameFrame t r) : SameFrame t r.panic := h.trans (SameFrame.panic r)
theorem SameFrame.setCur' {t r : BTree} {n : NodeId} {i : Int} (h : SameFrame t r) : SameFrame t (r.setCur n i) :=
  h.trans (SameFrame.setCur r n i)

theorem getIndexOfChild_frame (t : BTree) (p c : NodeId) : SameFrame t (t.getIndexOfChild p c).1 := by
  unfold BTree.getIndexOfChild
  simp only
  split
  · exact SameFrame.refl t
  · split
    · exact SameFrame.panic t
    · split
      · exact SameFrame.upd t c _ (fun _ => rfl)
      · exact SameFrame.refl t

theorem unlink_frame (t : BTree) (n : NodeId) : SameFrame t (t.unlink n) := by
  unfold BTree.unlink
  simp only
  split
  · exact SameFrame.refl t
  · split
    · exact SameFrame.refl t
    · have h1 := getIndexOfChild_frame t (t.parentOf n) n
      split
      · exact h1.panic'
      · apply SameFrame.del'
        apply SameFrame.upd' (by intro x; split <;> rfl)
        exact SameFrame.upd' (by intro x; rfl) h1

theorem promoteSingleChild_frame (t : BTree) (n : NodeId) : ∀ r, t.promoteSingleChild n = some r → SameFrame t r := by
  intro r h
  unfold BTree.promoteSingleChild at h
  simp only at h
  split at h
  · cases h
  · have h1 := getIndexOfChild_frame t (t.parentOf n) n
    split at h
    · cases h; exact h1.panic'
    · split at h
      · cases h
        exact (SameFrame.upd' (by intro x; rfl) h1).panic'
      · cases h
        apply SameFrame.del'
        apply SameFrame.upd' (by intro x; rfl)
        exact SameFrame.upd' (by intro x; rfl) h1

theorem fixVacatedSlot_frame (t : BTree) (n : NodeId) : SameFrame t (t.fixVacatedSlot n) := by
  unfold BTree.fixVacatedSlot
  simp only
  split
  · exact SameFrame.panic t
  · split
    · exact SameFrame.upd t n _ (fun _ => rfl)
    · split
      · exact (SameFrame.upd' (by intro x; rfl) (SameFrame.refl t)).setCur'
      · split
        · cases h : t.promoteSingleChild n with
          | none => exact SameFrame.refl t
          | some r => exact promoteSingleChild_frame t n r h
        · exact unlink_frame t n

theorem updateChildrenParent_frame (t : BTree) (n : NodeId) (kids : Array NodeId) : SameFrame t (t.updateChildrenParent n kids) := by
  unfold BTree.updateChildrenParent
  rw [← Array.foldl_toList]
  generalize kids.toList = l
  have : ∀ (l : List NodeId) (r : BTree), SameFrame t r →
      SameFrame t (l.foldl (fun t c => if c = 0 then t else t.upd c (fun x => { x with parent := n })) r) := by
    intro l
    induction l with
    | nil => intro r h; exact h
    | cons c l ih =>
      intro r h
      simp only [List.foldl_cons]
      apply ih
      split
      · exact h
      · exact SameFrame.upd' (by intro x; rfl) h
  exact this l t (SameFrame.refl t)

theorem removeItemOnNodeWithNilChild_frame (t : BTree) (n : NodeId) (index : Nat) :
    ∀ r, t.removeItemOnNodeWithNilChild n index = some r → SameFrame t r.1 := by
  intro r h
  unfold BTree.removeItemOnNodeWithNilChild at h
  simp only at h
  split at h
  · cases h
  · generalize (if (t.get n).child index == 0 then
        if index < (t.get n).count then
          (moveElems (t.get n).slots index (index + 1) (((t.get n).count : Int) - index),
            moveElems ((t.get n).children.getD #[]) index (index + 1) (((t.get n).count : Int) - index + 1))
        else ((t.get n).slots, (t.get n).children.getD #[])
      else
        if index < (t.get n).count then
          (moveElems (t.get n).slots index (index + 1) (((t.get n).count : Int) - index),
            moveElems ((t.get n).children.getD #[]) (index + 1) (index + 2) (((t.get n).count : Int) - index + 1))
        else ((t.get n).slots, (t.get n).children.getD #[])) = sk at h
    generalize hT : (t.upd n fun x => ({ x with slots := sk.fst.setIfInBounds ((t.get n).count - 1) {}, children := some (sk.snd.setIfInBounds (t.get n).count 0), count := (t.get n).count - 1 } : Node)) = t1 at h
    have hf1 : SameFrame t t1 := by rw [← hT]; exact SameFrame.upd t n _ (fun _ => rfl)
    clear hT
    split at h
    · split at h
      · split at h
        · cases h; exact hf1
        · cases h
          apply SameFrame.del'
          split
          · refine SameFrame.trans ?_ (updateChildrenParent_frame _ _ _)
            apply SameFrame.upd' (by intro x; rfl)
            exact SameFrame.upd' (by intro x; rfl) hf1
          · apply SameFrame.upd' (by intro x; split <;> rfl)
            apply SameFrame.upd' (by intro x; rfl)
            exact SameFrame.upd' (by intro x; rfl) hf1
      · split at h
        · cases h; exact hf1
        · rename_i r' hr'
          cases h
          exact hf1.trans (promoteSingleChild_frame _ _ _ hr')
    · split at h
      · cases h
        exact hf1.trans (unlink_frame _ _)
      · cases h; exact hf1

theorem climbRight_frame : ∀ (fuel : Nat) (t : BTree) (n : NodeId) (i : Int), SameFrame t (climbRight fuel t n i).1
  | 0, t, _, _ => SameFrame.panic t
  | fuel + 1, t, n, i => by
    unfold climbRight
    split
    · exact SameFrame.setCur t 0 0
    · simp only
      split
      · exact SameFrame.setCur t _ _
      · split
        · exact SameFrame.setCur t 0 0
        · split
          · exact SameFrame.panic t
          · exact (getIndexOfChild_frame t _ n).trans (climbRight_frame fuel _ _ _)

theorem descendRight_frame : ∀ (fuel : Nat) (t : BTree) (n : NodeId) (s : Nat), SameFrame t (descendRight fuel t n s).1
  | 0, t, _, _ => SameFrame.panic t
  | fuel + 1, t, n, s => by
    unfold descendRight
    split
    · exact SameFrame.setCur t 0 0
    · simp only
      split
      · split
        · exact climbRight_frame _ t n s
        · exact descendRight_frame fuel t _ 0
      · exact SameFrame.setCur t n 0

theorem moveToNext_frame (t : BTree) (n : NodeId) : SameFrame t (t.moveToNext n).1 := by
  unfold BTree.moveToNext
  simp only
  split
  · split
    · exact SameFrame.panic t
    · exact descendRight_frame _ t n _
  · exact climbRight_frame _ t n _

/-- `UpdateCurrentItem/Key`: frame, and every stored node stays stored -/
theorem updateCurrent_frame (t : BTree) (key : Int) (val : Option Nat) :
    SameFrame t (t.updateCurrent key val).1 ∧ ∀ n, (t.get? n).isSome → ((t.updateCurrent key val).1.get? n).isSome := by
  unfold BTree.updateCurrent
  split
  · exact ⟨SameFrame.refl t, fun _ h => h⟩
  · simp only
    split
    · exact ⟨SameFrame.panic t, fun _ h => h⟩
    · split
      · split
        · exact ⟨SameFrame.refl t, fun _ h => h⟩
        · exact ⟨SameFrame.panic t, fun _ h => h⟩
      · refine ⟨SameFrame.upd t _ _ (fun _ => rfl), ?_⟩
        intro n h
        show ((t.upd _ _).get? n).isSome = true
        rw [get?_upd t _ _ _ (by intro x; rfl)]
        simpa using h

/-- `UpdateCurrentValue`: frame, and every stored node stays stored -/
theorem updateCurrentValue_frame (t : BTree) (v : Nat) :
    SameFrame t (t.updateCurrentValue v).1 ∧ ∀ n, (t.get? n).isSome → ((t.updateCurrentValue v).1.get? n).isSome := by
  unfold BTree.updateCurrentValue
  split
  · exact ⟨SameFrame.refl t, fun _ h => h⟩
  · simp only
    split
    · exact ⟨SameFrame.panic t, fun _ h => h⟩
    · refine ⟨SameFrame.upd t _ _ (fun _ => rfl), ?_⟩
      intro n h
      show ((t.upd _ _).get? n).isSome = true
      rw [get?_upd t _ _ _ (by intro x; rfl)]
      simpa using h

theorem SameFrame.finish {t r : BTree} (h : SameFrame t r) (n : NodeId) :
    SameFrame t { (r.fixVacatedSlot n).setCur 0 0 with count := ((r.fixVacatedSlot n).setCur 0 0).count - 1 } :=
  (h.trans (fixVacatedSlot_frame r n)).setCur'.trans (SameFrame.withCount _ _)

theorem SameFrame.rncDone {t r : BTree} (h : SameFrame t r) :
    SameFrame t { r.setCur 0 0 with count := r.count - 1 } := h.setCur'.trans (SameFrame.withCount _ _)

theorem SameFrame.setSlot' {t r : BTree} (h : SameFrame t r) (n : NodeId) (i : Nat) (it : Item) :
    SameFrame t (r.upd n (fun x => x.setSlot i it)) := SameFrame.upd' (by intro x; rfl) h

/-- `RemoveCurrentItem`, every branch: frame -/
theorem removeCurrent_frame (t : BTree) : SameFrame t t.removeCurrent.1 := by
  unfold BTree.removeCurrent
  split
  · exact SameFrame.refl t
  · simp only
    split
    · exact SameFrame.panic t
    · split
      · exact SameFrame.refl t
      · split
        · split
          · exact (removeItemOnNodeWithNilChild_frame _ _ _ _ (by assumption)).rncDone
          · exact removeItemOnNodeWithNilChild_frame _ _ _ _ (by assumption)
          · have hm := moveToNext_frame t (by assumption : Node).id
            split
            · exact hm
            · split
              · exact hm
              · split
                · exact hm.panic'
                · split
                  · exact ((hm.setSlot' _ _ _).trans (removeItemOnNodeWithNilChild_frame _ _ _ _ (by assumption))).rncDone
                  · exact (hm.setSlot' _ _ _).trans (removeItemOnNodeWithNilChild_frame _ _ _ _ (by assumption))
                  · exact (hm.setSlot' _ _ _).finish _
        · exact (SameFrame.refl t).finish _

end Sop.BTree.Rem
