import Sop.Lemmas.BTreeStep
import Sop.Lemmas.BTreeInsert2
/-! The run-level invariant `Inv` of Model B (leaf load balancing off, the three repairs on) and its preservation,
together with the specification relation, by the public calls whose proofs are complete: the nine read-only
calls, `Update`, `UpdateKey`, `UpdateCurrentItem/Key/Value`. -/
namespace Sop.BTree
set_option linter.unusedVariables false
set_option linter.unusedSimpArgs false
open Sop.BTree.Rem Sop.BTree.Ins

/-- the cursor part of the invariant: the current item can be read and a selected cursor has a non-negative index -/
def CursorOK (t : BTree) : Prop := CursorValid t ∧ (t.cur.node = 0 ∨ 0 ≤ t.cur.idx)

/-- what holds between public calls -/
structure Inv (t : BTree) : Prop where
  wf : WF t
  ok : t.panicked = false
  cur : CursorOK t
  idle : Idle t
  fresh : Fresh t
  items : ∀ x ∈ t.abs, x.id < t.nextId
  lb : t.lb = false
  ff : t.fixFast = true
  fe : t.fixErr = true
  fi : t.fixId = true

/-- everything but the repository, the cursor, `Count` and the panic flag -/
def BTree.cfg (t : BTree) : BTree := { t with nodes := [], cur := {}, count := 0, panicked := false }

theorem cfg_of_frame {t t' : BTree} (h : t'.frame = t.frame) : t'.cfg = t.cfg := by
  have := congrArg BTree.cfg h; exact this

/-- `Inv` moves along a step that keeps the configuration, creates no node id and keeps the item ids below the counter -/
theorem Inv.transfer {t t' : BTree} (h : Inv t) (hcfg : t'.cfg = t.cfg) (hwf : WF t') (hok : t'.panicked = false)
    (hcur : CursorOK t') (hids : ∀ nd' ∈ t'.nodes, ∃ nd ∈ t.nodes, nd.id = nd'.id)
    (hitems : ∀ x ∈ t'.abs, ∃ y ∈ t.abs, y.id = x.id) : Inv t' := by
  have e1 : t'.nextId = t.nextId := by have := congrArg BTree.nextId hcfg; exact this
  have e2 : t'.distSrc = t.distSrc := by have := congrArg BTree.distSrc hcfg; exact this
  have e3 : t'.promTarget = t.promTarget := by have := congrArg BTree.promTarget hcfg; exact this
  have e4 : t'.lb = t.lb := by have := congrArg BTree.lb hcfg; exact this
  have e5 : t'.fixFast = t.fixFast := by have := congrArg BTree.fixFast hcfg; exact this
  have e6 : t'.fixErr = t.fixErr := by have := congrArg BTree.fixErr hcfg; exact this
  have e7 : t'.fixId = t.fixId := by have := congrArg BTree.fixId hcfg; exact this
  refine ⟨hwf, hok, hcur, ⟨by rw [e2]; exact h.idle.1, by rw [e3]; exact h.idle.2⟩, ⟨by rw [e1]; exact h.fresh.1, ?_⟩, ?_,
    by rw [e4]; exact h.lb, by rw [e5]; exact h.ff, by rw [e6]; exact h.fe, by rw [e7]; exact h.fi⟩
  · intro nd' hnd'
    obtain ⟨nd, hnd, hid⟩ := hids nd' hnd'
    rw [e1, ← hid]; exact h.fresh.2 nd hnd
  · intro x hx
    obtain ⟨y, hy, hid⟩ := hitems x hx
    rw [e1, ← hid]; exact h.items y hy

/-- node ids of a state equal up to memo/cursor -/
theorem heapEq_ids {t t' : BTree} (he : HeapEq t t') : ∀ nd' ∈ t'.nodes, ∃ nd ∈ t.nodes, nd.id = nd'.id := by
  intro nd' hnd'
  obtain ⟨x, hx⟩ := mem_get? (t := t') (n := nd'.id) (List.mem_map.mpr ⟨nd', hnd', rfl⟩)
  cases hg : t.get? nd'.id with
  | none => rw [he.get_none hg] at hx; cases hx
  | some nd =>
    refine ⟨nd, ?_, get?_id hg⟩
    unfold BTree.get? at hg
    exact List.mem_of_find?_eq_some hg

theorem Inv.of_good {t t' : BTree} (h : Inv t) (hg : GoodSt t t') : Inv t' :=
  h.transfer (cfg_of_frame hg.1.frame) (WF_heapEq hg.1 h.wf) hg.2.1 ⟨hg.2.2.1, hg.2.2.2⟩ (heapEq_ids hg.1)
    (fun x hx => ⟨x, by rw [← abs_heapEq hg.1]; exact hx, rfl⟩)

/-- the nine read-only calls keep `Inv` and meet the specification -/
theorem inv_read {t : BTree} (h : Inv t) (op : Op) (hro : isReadOp op = true) :
    Inv (t.step op).1 ∧ Spec.accepts t.unique t.abs op (t.step op).2 (t.step op).1.abs = true := by
  obtain ⟨_, _, _, hg, hacc⟩ := read_op_accepts h.wf h.ok h.cur.1 h.cur.2 h.ff h.fi op hro
  exact ⟨h.of_good hg, hacc⟩

/-! ### the in-place updates -/

theorem upd_ids (t : BTree) (n : NodeId) (f : Node → Node) (hf : ∀ x, (f x).id = x.id) :
    ∀ nd' ∈ (t.upd n f).nodes, ∃ nd ∈ t.nodes, nd.id = nd'.id := by
  intro nd' hnd'
  simp only [BTree.upd, List.mem_map] at hnd'
  obtain ⟨nd, hnd, rfl⟩ := hnd'
  refine ⟨nd, hnd, ?_⟩
  split <;> simp [hf]

/-- the state after `UpdateCurrentItem/Key` is `t`, `t.panic` or `t` with one slot rewritten -/
theorem updateCurrent_shape (t : BTree) (k : Int) (val : Option Nat) :
    (t.updateCurrent k val).1 = t ∨ (t.updateCurrent k val).1 = t.panic ∨
      ∃ n i it, (t.updateCurrent k val).1 = t.upd n (fun x => x.setSlot i it) := by
  unfold BTree.updateCurrent
  cases t.curNode? with
  | none => left; rfl
  | some nd =>
    dsimp only
    by_cases h1 : t.cur.idx < 0
    · rw [if_pos h1]; right; left; rfl
    · rw [if_neg h1]
      by_cases h2 : (nd.slot t.cur.idx.toNat).key ≠ k
      · rw [if_pos h2]
        by_cases h3 : (t.cur.cached || t.fixErr) = true
        · rw [if_pos h3]; left; rfl
        · rw [if_neg h3]; right; left; rfl
      · rw [if_neg h2]; right; right; exact ⟨_, _, _, rfl⟩

theorem updateCurrentValue_shape (t : BTree) (v : Nat) :
    (t.updateCurrentValue v).1 = t ∨ (t.updateCurrentValue v).1 = t.panic ∨
      ∃ n i it, (t.updateCurrentValue v).1 = t.upd n (fun x => x.setSlot i it) := by
  unfold BTree.updateCurrentValue
  cases t.curNode? with
  | none => left; rfl
  | some nd =>
    dsimp only
    by_cases h1 : t.cur.idx < 0
    · rw [if_pos h1]; right; left; rfl
    · rw [if_neg h1]; right; right; exact ⟨_, _, _, rfl⟩

theorem cursorOK_upd {t : BTree} (h : CursorOK t) (n : NodeId) (i : Nat) (it : Item) :
    CursorOK (t.upd n (fun x => x.setSlot i it)) := by
  refine ⟨?_, h.2⟩
  rcases h.1 with h0 | hc | ⟨nd, hg, h1, h2⟩
  · exact Or.inl h0
  · exact Or.inr (Or.inl hc)
  · right; right
    have := get?_upd t n t.cur.node (fun x => x.setSlot i it) (fun _ => rfl)
    show ∃ nd', (t.upd n _).get? t.cur.node = some nd' ∧ _
    rw [this, hg]
    simp only [Option.map_some]
    refine ⟨_, rfl, h1, ?_⟩
    show t.cur.idx < _
    split
    · simpa [Node.setSlot] using h2
    · exact h2

/-- a state of one of the three shapes that is well-formed, not panicked, with contents of known ids keeps `Inv` -/
theorem Inv.of_shape {t t' : BTree} (h : Inv t)
    (hshape : t' = t ∨ t' = t.panic ∨ ∃ n i it, t' = t.upd n (fun x => x.setSlot i it))
    (hwf : WF t') (hok : t'.panicked = false) (hitems : ∀ x ∈ t'.abs, ∃ y ∈ t.abs, y.id = x.id) : Inv t' := by
  rcases hshape with rfl | rfl | ⟨n, i, it, rfl⟩
  · exact h
  · simp [BTree.panic] at hok
  · exact h.transfer rfl hwf hok (cursorOK_upd h.cur n i it) (upd_ids t n _ (fun _ => rfl)) hitems

theorem items_replace {L R : List Item} {x x' : Item} (hid : x'.id = x.id) :
    ∀ z ∈ L ++ x' :: R, ∃ y ∈ L ++ x :: R, y.id = z.id := by
  intro z hz
  rcases List.mem_append.mp hz with hz | hz
  · exact ⟨z, List.mem_append_left _ hz, rfl⟩
  · rcases List.mem_cons.mp hz with rfl | hz
    · exact ⟨x, by simp, hid.symm⟩
    · exact ⟨z, by simp [hz], rfl⟩

theorem CursorOK.idx {t : BTree} (h : CursorOK t) {nd : Node} (hcn : t.curNode? = some nd) : 0 ≤ t.cur.idx := by
  rcases h.2 with h0 | hi
  · unfold BTree.curNode? at hcn; simp [h0] at hcn
  · exact hi

/-- `0 ≤ idx` may be assumed by the `UpdateCurrent*`/`RemoveCurrentItem` lemmas: without a current node they do nothing -/
theorem inv_updateCurrentValue {t : BTree} (h : Inv t) (v : Nat) :
    Inv (t.step (.updateCurrentValue v)).1 ∧
      Spec.accepts t.unique t.abs (.updateCurrentValue v) (t.step (.updateCurrentValue v)).2
        (t.step (.updateCurrentValue v)).1.abs = true := by
  cases hcn : t.curNode? with
  | none =>
    have : t.updateCurrentValue v = (t, .ok false) := by unfold BTree.updateCurrentValue; rw [hcn]
    simp only [BTree.step, this]
    exact ⟨h, by simp [Spec.accepts, keysSorted_of_WF h.wf, isPerm_refl]⟩
  | some nd =>
    have hi := h.cur.idx hcn
    obtain ⟨h1, h2, h3⟩ := step_updateCurrentValue h.wf h.ok hi v
    refine ⟨?_, h3⟩
    simp only [BTree.step] at h1 h2 ⊢
    have hc := cursorOn_of_curNode h.wf hcn hi
    obtain ⟨_, _, _, _, _, L, R, h6, h7⟩ := updateCurrentValue_ok t v h.wf h.ok hc
    exact h.of_shape (updateCurrentValue_shape t v) h1 h2 (by rw [h6, h7]; exact items_replace rfl)

theorem inv_updateCurrent {t : BTree} (h : Inv t) (k : Int) (val : Option Nat) :
    Inv (t.updateCurrent k val).1 := by
  cases hcn : t.curNode? with
  | none =>
    have : t.updateCurrent k val = (t, .ok false) := by unfold BTree.updateCurrent; rw [hcn]
    rw [this]; exact h
  | some nd =>
    have hi := h.cur.idx hcn
    obtain ⟨h1, h2, h3⟩ := step_updateCurrent h.wf h.ok hi h.fe k val
    rcases h3 with ⟨_, hs⟩ | ⟨_, hs⟩ | ⟨_, _, L, R, ha, hb⟩
    · rw [hs]; exact h
    · rw [hs]; exact h
    · exact h.of_shape (updateCurrent_shape t k val) h1 h2 (by rw [ha, hb]; exact items_replace rfl)

theorem inv_updateCurrentItem {t : BTree} (h : Inv t) (k : Int) (v : Nat) :
    Inv (t.step (.updateCurrentItem k v)).1 ∧
      Spec.accepts t.unique t.abs (.updateCurrentItem k v) (t.step (.updateCurrentItem k v)).2
        (t.step (.updateCurrentItem k v)).1.abs = true := by
  cases hcn : t.curNode? with
  | none =>
    have : t.updateCurrent k (some v) = (t, .ok false) := by unfold BTree.updateCurrent; rw [hcn]
    simp only [BTree.step, this]
    exact ⟨h, by simp [Spec.accepts, keysSorted_of_WF h.wf, isPerm_refl]⟩
  | some nd =>
    exact ⟨inv_updateCurrent h k (some v), (step_updateCurrentItem h.wf h.ok (h.cur.idx hcn) h.fe k v).2.2⟩

theorem inv_updateCurrentKey {t : BTree} (h : Inv t) (k : Int) :
    Inv (t.step (.updateCurrentKey k)).1 ∧
      Spec.accepts t.unique t.abs (.updateCurrentKey k) (t.step (.updateCurrentKey k)).2
        (t.step (.updateCurrentKey k)).1.abs = true := by
  cases hcn : t.curNode? with
  | none =>
    have : t.updateCurrent k none = (t, .ok false) := by unfold BTree.updateCurrent; rw [hcn]
    simp only [BTree.step, this]
    exact ⟨h, by simp [Spec.accepts, keysSorted_of_WF h.wf, isPerm_refl]⟩
  | some nd =>
    exact ⟨inv_updateCurrent h k none, (step_updateCurrentKey h.wf h.ok (h.cur.idx hcn) h.fe k).2.2⟩

/-- the state after `Find(k, false)` keeps `Inv` -/
theorem inv_find_any {t : BTree} (h : Inv t) (k : Int) : Inv (t.find k false).1 := by
  have := inv_read h (.find k false) rfl
  exact this.1

theorem inv_update {t : BTree} (h : Inv t) (k : Int) (v : Nat) :
    Inv (t.step (.update k v)).1 ∧
      Spec.accepts t.unique t.abs (.update k v) (t.step (.update k v)).2 (t.step (.update k v)).1.abs = true := by
  refine ⟨?_, (step_update h.wf h.ok h.cur.1 h.ff h.fe k v).2.2⟩
  simp only [BTree.step, BTree.update]
  have h1 := inv_find_any h k
  rcases hfd : t.find k false with ⟨t1, ok⟩
  rw [hfd] at h1
  cases ok with
  | false => exact h1
  | true => exact inv_updateCurrent h1 k (some v)

theorem inv_updateKey {t : BTree} (h : Inv t) (k : Int) :
    Inv (t.step (.updateKey k)).1 ∧
      Spec.accepts t.unique t.abs (.updateKey k) (t.step (.updateKey k)).2 (t.step (.updateKey k)).1.abs = true := by
  refine ⟨?_, (step_updateKey h.wf h.ok h.cur.1 h.ff h.fe k).2.2⟩
  simp only [BTree.step, BTree.updateKey]
  have h1 := inv_find_any h k
  rcases hfd : t.find k false with ⟨t1, ok⟩
  rw [hfd] at h1
  cases ok with
  | false => exact h1
  | true => exact inv_updateCurrent h1 k none

end Sop.BTree
