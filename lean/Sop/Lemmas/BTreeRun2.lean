import Sop.Lemmas.BTreeAddKey
import Sop.Lemmas.BTreeRemove8
import Sop.Lemmas.BTreeInsert9
import Sop.Lemmas.BTreeRemoveFrame
/-! `Inv` along `Add`/`AddIfNotExist`/`Upsert` (every path of `node.add`, leaf load balancing off),
`RemoveCurrentItem`/`Remove` (every branch), and the run theorem `run_inv`: along ANY operation sequence every visited
state satisfies `Inv` and every step meets the specification. -/
namespace Sop.BTree
set_option linter.unusedVariables false
set_option linter.unusedSimpArgs false
open Sop.BTree.Rem Sop.BTree.Ins

theorem stored_shape {t : BTree} (hwf : WF t) {n : NodeId} {nd : Node} (hg : t.get? n = some nd) : NodeShape t nd := by
  have hr := hwf.root_ne_of_get hg
  have hw := hwf.wfr hr
  obtain ⟨f, p, pre, post, hctx⟩ := Ctx.of_reach hw _ _ _ _ _ n Ctx.root (hwf.all_reachable hr hg)
  exact (hctx.shape hw hg).1

/-- `Inv` moves along a step that keeps the configuration fields, creates no node id and no item id -/
theorem Inv.transfer' {t t' : BTree} (h : Inv t) (e1 : t'.nextId = t.nextId) (e2 : t'.distSrc = t.distSrc)
    (e3 : t'.promTarget = t.promTarget) (e4 : t'.lb = t.lb) (e5 : t'.fixFast = t.fixFast) (e6 : t'.fixErr = t.fixErr)
    (e7 : t'.fixId = t.fixId) (hwf : WF t') (hok : t'.panicked = false)
    (hcur : CursorOK t') (hids : ∀ nd' ∈ t'.nodes, ∃ nd ∈ t.nodes, nd.id = nd'.id)
    (hitems : ∀ x ∈ t'.abs, ∃ y ∈ t.abs, y.id = x.id) : Inv t' := by
  refine ⟨hwf, hok, hcur, ⟨by rw [e2]; exact h.idle.1, by rw [e3]; exact h.idle.2⟩, ⟨by rw [e1]; exact h.fresh.1, ?_⟩, ?_,
    by rw [e4]; exact h.lb, by rw [e5]; exact h.ff, by rw [e6]; exact h.fe, by rw [e7]; exact h.fi⟩
  · intro nd' hnd'
    obtain ⟨nd, hnd, hid⟩ := hids nd' hnd'
    rw [e1, ← hid]; exact h.fresh.2 nd hnd
  · intro x hx
    obtain ⟨y, hy, hid⟩ := hitems x hx
    rw [e1, ← hid]; exact h.items y hy

/-! ### Add -/

theorem Inv.of_addOk {t : BTree} (h : Inv t) {key : Int} {val : Nat} {r : BTree × Bool} (ha : AddOk t key val r) :
    Inv r.1 := by
  obtain ⟨c1, c2, c3, c4, c5, c6⟩ := ha.cfg
  refine ⟨ha.wf, ha.ok, ?_, ha.idle, ha.fresh, ?_, by rw [c3]; exact h.lb, by rw [c4]; exact h.ff,
    by rw [c5]; exact h.fe, by rw [c6]; exact h.fi⟩
  · refine ⟨?_, by rw [ha.cur]; exact h.cur.2⟩
    rcases h.cur.1 with h0 | hc | ⟨nd, hg, h1, h2⟩
    · left; rw [ha.cur]; exact h0
    · right; left; rw [ha.cur]; exact hc
    · right; right
      rw [ha.cur]
      have := ha.keep t.cur.node (by rw [hg]; rfl)
      cases hg' : r.1.get? t.cur.node with
      | none => rw [hg'] at this; simp at this
      | some nd' =>
        refine ⟨nd', rfl, h1, ?_⟩
        rw [(stored_shape ha.wf hg').1, c1, ← (stored_shape h.wf hg).1]; exact h2
  · obtain ⟨L, R, hb, ha', _⟩ := ha.abs
    intro x hx
    rw [ha'] at hx
    have hn := ha.next
    rcases List.mem_append.mp hx with hx | hx
    · have := h.items x (by rw [hb]; exact List.mem_append_left _ hx); omega
    · rcases List.mem_cons.mp hx with rfl | hx
      · exact hn
      · have := h.items x (by rw [hb]; exact List.mem_append_right _ hx); omega

theorem Inv.of_rejected {t : BTree} (h : Inv t) {r : BTree × Bool} (ha : AddRejected t r) (hcur : CursorOK r.1) :
    Inv r.1 := by
  obtain ⟨c1, c2, c3, c4, c5, c6⟩ := ha.cfg
  refine ⟨ha.wf, ha.ok, hcur, ha.idle, ha.fresh, ?_, by rw [c3]; exact h.lb, by rw [c4]; exact h.ff,
    by rw [c5]; exact h.fe, by rw [c6]; exact h.fi⟩
  intro x hx
  rw [ha.abs] at hx
  have := h.items x hx
  have := ha.next
  omega

theorem get?_of_nodes_eq {t t' : BTree} (h : t'.nodes = t.nodes) (n : NodeId) : t'.get? n = t.get? n := by
  unfold BTree.get?; rw [h]

/-- `Btree.Add` with the call's uniqueness flag, every path of `node.add` -/
theorem inv_addU {t : BTree} (h : Inv t) (uniq : Bool) (key : Int) (val : Nat) :
    Inv (t.addU uniq key val).1 ∧
    (((uniq && hasKey t.abs key) = true ∧ (t.addU uniq key val).2 = false ∧ (t.addU uniq key val).1.abs = t.abs) ∨
     ((uniq && hasKey t.abs key) = false ∧ AddOk t key val (t.addU uniq key val))) := by
  have hk := addTargetOf_key t uniq key h.wf
  have so := addStart_ok t uniq h.wf
  cases htg : addTargetOf t uniq key with
  | dup n i =>
    rw [htg] at hk
    obtain ⟨hu, hhas, nd, hg, hi⟩ := hk
    have hrej := addU_dup t uniq key val n i h.wf h.ok h.idle h.fresh htg
    obtain ⟨hc1, hc2⟩ := addU_dup_cur t uniq key val n i htg
    have hne : t.abs ≠ [] := by intro e; rw [e] at hhas; simp [hasKey] at hhas
    have hr := (h.wf.count_ne hne).2
    have hg' : (t.addU uniq key val).1.get? n = some nd := by
      rw [get?_of_nodes_eq (hrej.nodes hr).1, ← get?_of_nodes_eq (so.same hr).1]; exact hg
    have hsh := stored_shape so.wf hg
    have hcur : CursorOK (t.addU uniq key val).1 := by
      refine ⟨Or.inr (Or.inr ⟨nd, by rw [hc1]; exact hg', hc2, ?_⟩), Or.inr hc2⟩
      rw [hc1, hsh.1]; have := hsh.2.1; show (i : Int) < _; omega
    exact ⟨h.of_rejected hrej hcur, Or.inl ⟨by simp [hu, hhas], hrej.ret, hrej.abs⟩⟩
  | nilc n i =>
    rw [htg] at hk
    have hok := addU_nilc t uniq key val n i h.wf h.ok h.idle h.fresh htg
    refine ⟨h.of_addOk hok, Or.inr ⟨?_, hok⟩⟩
    cases uniq with
    | false => rfl
    | true => simp [hk rfl]
  | leaf n i =>
    rw [htg] at hk
    have hok : AddOk t key val (t.addU uniq key val) := by
      by_cases hroom : ((addStart t uniq).1.get n).count < t.sl
      · exact addU_leaf_room t uniq key val n i h.wf h.ok h.idle h.fresh htg hroom
      · by_cases hroot : ((addStart t uniq).1.get n).isRoot = true
        · exact addU_root_split t uniq key val n i h.wf h.ok h.idle h.fresh htg hroom hroot
        · have hnotroot : ((addStart t uniq).1.get n).isRoot = false := by simpa using hroot
          have htg' := htg
          unfold addTargetOf at htg'
          rw [so.rootEq] at htg'
          have hroom' : ¬ ((addStart t uniq).1.get n).count < (addStart t uniq).1.sl := by rw [so.sl]; exact hroom
          rcases path_cases key _ _ _ htg' hroom' with ⟨q, hq1, hq2, hq3, hq4⟩ | hfp
          · exact addU_leaf_split_cascade t uniq key val n i q h.wf h.ok h.idle h.fresh h.lb htg hroom hnotroot hq1
              (by rw [← so.sl]; exact hq2) hq3 hq4
          · exact addU_leaf_split_cascade_root t uniq key val n i h.wf h.ok h.idle h.fresh h.lb htg hroom hnotroot hfp
    refine ⟨h.of_addOk hok, Or.inr ⟨?_, hok⟩⟩
    cases uniq with
    | false => rfl
    | true => simp [hk rfl]
  | stuck => rw [htg] at hk; exact hk.elim
  | fuel => rw [htg] at hk; exact hk.elim

theorem inserted_ok {before L R : List Item} {item : Item} {k : Int} {v : Nat} (hb : before = L ++ R)
    (hk : item.key = k) (hv : item.val = v) (hid : ∀ x ∈ before, x.id ≠ item.id) :
    removedOne (fun x => x.key == k && x.val == v && !(before.any (·.id == x.id))) (L ++ item :: R) before = true := by
  subst hb
  apply removedOne_mid
  simp only [hk, hv, beq_self_eq_true, Bool.true_and, Bool.not_eq_true', List.any_eq_false, beq_iff_eq]
  intro x hx; exact hid x hx

/-- the specification clause shared by `Add` and `AddIfNotExist` -/
theorem accepts_add_core {t : BTree} (h : Inv t) (uniq : Bool) (key : Int) (val : Nat) :
    keysSorted (t.addU uniq key val).1.abs = true ∧
    (if (uniq && hasKey t.abs key) = true then
        (!(t.addU uniq key val).2 && t.abs.isPerm (t.addU uniq key val).1.abs) = true
     else ((t.addU uniq key val).2 &&
        removedOne (fun x => x.key == key && x.val == val && !(t.abs.any (·.id == x.id)))
          (t.addU uniq key val).1.abs t.abs) = true) := by
  obtain ⟨hinv, hres⟩ := inv_addU h uniq key val
  refine ⟨keysSorted_of_WF hinv.wf, ?_⟩
  rcases hres with ⟨hc, hr, ha⟩ | ⟨hc, hok⟩
  · rw [if_pos hc, hr, ha]; simp [isPerm_refl]
  · have hc' : ¬ ((uniq && hasKey t.abs key) = true) := by rw [hc]; simp
    rw [if_neg hc', hok.ret]
    obtain ⟨L, R, hb, ha, _⟩ := hok.abs
    rw [ha]
    simp only [Bool.true_and]
    exact inserted_ok hb rfl rfl (fun x hx => by have := h.items x hx; show x.id ≠ t.nextId; omega)

theorem inv_add {t : BTree} (h : Inv t) (k : Int) (v : Nat) :
    Inv (t.step (.add k v)).1 ∧
      Spec.accepts t.unique t.abs (.add k v) (t.step (.add k v)).2 (t.step (.add k v)).1.abs = true := by
  obtain ⟨h1, h2⟩ := accepts_add_core h t.unique k v
  refine ⟨(inv_addU h t.unique k v).1, ?_⟩
  simp only [BTree.step, okb, BTree.add, Spec.accepts, h1, Bool.true_and]
  by_cases hc : (t.unique && hasKey t.abs k) = true
  · rw [if_pos hc] at h2; rw [if_pos hc]; exact h2
  · rw [if_neg hc] at h2; rw [if_neg hc]; exact h2

theorem inv_addIfNotExist {t : BTree} (h : Inv t) (k : Int) (v : Nat) :
    Inv (t.step (.addIfNotExist k v)).1 ∧
      Spec.accepts t.unique t.abs (.addIfNotExist k v) (t.step (.addIfNotExist k v)).2
        (t.step (.addIfNotExist k v)).1.abs = true := by
  obtain ⟨h1, h2⟩ := accepts_add_core h true k v
  refine ⟨(inv_addU h true k v).1, ?_⟩
  simp only [BTree.step, okb, BTree.addIfNotExist, Spec.accepts, h1, Bool.true_and] at h2 ⊢
  by_cases hc : hasKey t.abs k = true
  · rw [if_pos hc] at h2; rw [if_pos hc]; exact h2
  · rw [if_neg hc] at h2; rw [if_neg hc]; exact h2

theorem inv_upsert {t : BTree} (h : Inv t) (k : Int) (v : Nat) :
    Inv (t.step (.upsert k v)).1 ∧
      Spec.accepts t.unique t.abs (.upsert k v) (t.step (.upsert k v)).2 (t.step (.upsert k v)).1.abs = true := by
  obtain ⟨hinv, hres⟩ := inv_addU h true k v
  have hstep : t.step (.upsert k v) =
      (if (!(t.addU true k v).2) = true then (t.addU true k v).1.update k v else ((t.addU true k v).1, .ok true)) := rfl
  rw [hstep]
  rcases hres with ⟨hc, hr, ha⟩ | ⟨hc, hok⟩
  · -- the key exists: `Update`
    rw [hr]
    simp only [Bool.not_false, if_true]
    have hhas : hasKey t.abs k = true := by simpa using hc
    obtain ⟨g1, g2⟩ := inv_update hinv k v
    simp only [BTree.step] at g1 g2
    refine ⟨g1, ?_⟩
    rw [ha] at g2
    cases hu : ((t.addU true k v).1.update k v).2 with
    | ok r =>
      rw [hu] at g2
      simp only [Spec.accepts, hhas, if_true, Bool.and_eq_true] at g2 ⊢
      exact ⟨g2.1, g2.2.1, g2.2.2⟩
    | err => rw [hu] at g2; simp [Spec.accepts] at g2
    | items l => rw [hu] at g2; simp [Spec.accepts] at g2
  · rw [hok.ret]
    simp only [Bool.not_true, Bool.false_eq_true, if_false]
    refine ⟨hinv, ?_⟩
    have hno : hasKey t.abs k = false := by simpa using hc
    obtain ⟨L, R, hb, ha, _⟩ := hok.abs
    rw [ha]
    have hks : keysSorted (L ++ (⟨t.nextId, k, v⟩ : Item) :: R) = true := by
      have := keysSorted_of_WF hinv.wf; rw [ha] at this; exact this
    simp only [Spec.accepts, hks, hno, Bool.true_and, Bool.false_eq_true, if_false]
    exact inserted_ok hb rfl rfl (fun x hx => by have := h.items x hx; show x.id ≠ t.nextId; omega)

/-! ### Remove -/

theorem removedOne_perm {p : Item → Bool} {x : Item} {L R after : List Item} (hp : p x = true)
    (h : (L ++ R).Perm after) : removedOne p (L ++ x :: R) after = true := by
  unfold removedOne
  rw [List.any_eq_true]
  exact ⟨x, by simp, by rw [hp, Bool.true_and]; exact List.isPerm_iff.mpr ((perm_erase_mid L R).trans h)⟩

/-- `RemoveCurrentItem`, every branch (leaf, nil neighbour, successor, underflow repairs) -/
theorem inv_removeCurrent' {t : BTree} (h : Inv t) :
    Inv t.removeCurrent.1 ∧
    ((t.removeCurrent.2 = .ok false ∧ t.removeCurrent.1 = t) ∨
     (t.removeCurrent.2 = .ok true ∧ t.removeCurrent.1.count = t.count - 1 ∧
        ∃ L R, t.abs = L ++ t.curItem :: R ∧ (L ++ R).Perm t.removeCurrent.1.abs)) := by
  cases hcn : t.curNode? with
  | none =>
    have : t.removeCurrent = (t, .ok false) := by unfold BTree.removeCurrent; rw [hcn]
    rw [this]; exact ⟨h, Or.inl ⟨rfl, rfl⟩⟩
  | some nd =>
    have hc := _root_.Sop.BTree.cursorOn_of_curNode h.wf hcn (h.cur.idx hcn)
    obtain ⟨h1, h2, h3, h4, h5, L, R, h6, h7⟩ := removeCurrent_ok t h.wf h.ok hc
    obtain ⟨f1, _, _, f4, f5, f6, f7, f8, f9, f10⟩ := removeCurrent_frame t
    refine ⟨h.transfer' f1 f8 f9 f4 f5 f6 f7 h1 h2 ⟨Or.inl (by rw [h4]), Or.inl (by rw [h4])⟩ f10 ?_,
      Or.inr ⟨h3, h5, L, R, h6, h7⟩⟩
    intro x hx
    have hx' : x ∈ L ++ R := h7.symm.subset hx
    refine ⟨x, ?_, rfl⟩
    rw [h6]
    rcases List.mem_append.mp hx' with hx' | hx'
    · exact List.mem_append_left _ hx'
    · exact List.mem_append_right _ (List.mem_cons_of_mem _ hx')

theorem inv_removeCurrent {t : BTree} (h : Inv t) :
    Inv (t.step .removeCurrent).1 ∧
      Spec.accepts t.unique t.abs .removeCurrent (t.step .removeCurrent).2 (t.step .removeCurrent).1.abs = true := by
  obtain ⟨h1, h2⟩ := inv_removeCurrent' h
  refine ⟨h1, ?_⟩
  simp only [BTree.step]
  rcases h2 with ⟨hr, hs⟩ | ⟨hr, _, L, R, ha, hb⟩
  · rw [hr, hs]; simp [Spec.accepts, keysSorted_of_WF h.wf, isPerm_refl]
  · rw [hr, ha]
    simp only [Spec.accepts, keysSorted_of_WF h1.wf, if_true, Bool.true_and]
    exact removedOne_perm rfl hb

theorem inv_remove {t : BTree} (h : Inv t) (k : Int) :
    Inv (t.step (.remove k)).1 ∧
      Spec.accepts t.unique t.abs (.remove k) (t.step (.remove k)).2 (t.step (.remove k)).1.abs = true := by
  simp only [BTree.step, BTree.remove]
  have hinv1 := inv_find_any h k
  obtain ⟨g1, g2, g3, hres⟩ := find_any_cases h.wf h.ok h.cur.1 h.ff k
  rcases hfd : t.find k false with ⟨t1, ok⟩
  rw [hfd] at hinv1 g1 g2 g3 hres
  simp only at hinv1 g1 g2 g3 hres ⊢
  rcases hres with ⟨hr, hno⟩ | ⟨hr, hyes, hon, hidx, hkey⟩
  · subst hr
    simp only [Bool.not_false, if_true]
    refine ⟨hinv1, ?_⟩
    rw [g3]
    simp [Spec.accepts, keysSorted_of_WF h.wf, isPerm_refl, hno]
  · subst hr
    simp only [Bool.not_true, Bool.false_eq_true, if_false]
    obtain ⟨q1, q2⟩ := inv_removeCurrent' hinv1
    refine ⟨q1, ?_⟩
    rcases q2 with ⟨qr, _⟩ | ⟨qr, _, L, R, qa, qb⟩
    · -- impossible: the cursor is on an item
      exfalso
      obtain ⟨_, _, q3, _⟩ := removeCurrent_ok t1 g1 g2 hon
      rw [qr] at q3; cases q3
    · rw [qr, ← g3, qa]
      have hk' : hasKey (L ++ t1.curItem :: R) k = true := by rw [← qa, g3]; exact hyes
      simp only [Spec.accepts, hk', keysSorted_of_WF q1.wf, if_true, Bool.true_and]
      exact removedOne_perm (by simp [hkey]) qb

/-! ### the run theorem -/

/-- ONE STEP: from a state satisfying `Inv`, EVERY public call leads to a state satisfying `Inv` and meets the
    ordered multiset/map specification -/
theorem step_inv {t : BTree} (h : Inv t) (op : Op) :
    Inv (t.step op).1 ∧ Spec.accepts t.unique t.abs op (t.step op).2 (t.step op).1.abs = true := by
  cases op with
  | add k v => exact inv_add h k v
  | addIfNotExist k v => exact inv_addIfNotExist h k v
  | upsert k v => exact inv_upsert h k v
  | update k v => exact inv_update h k v
  | updateKey k => exact inv_updateKey h k
  | remove k => exact inv_remove h k
  | find k f => exact inv_read h _ rfl
  | findDesc k => exact inv_read h _ rfl
  | findWithID k id => exact inv_read h _ rfl
  | first => exact inv_read h _ rfl
  | last => exact inv_read h _ rfl
  | next => exact inv_read h _ rfl
  | prev => exact inv_read h _ rfl
  | removeCurrent => exact inv_removeCurrent h
  | updateCurrentKey k => exact inv_updateCurrentKey h k
  | updateCurrentItem k v => exact inv_updateCurrentItem h k v
  | updateCurrentValue v => exact inv_updateCurrentValue h v
  | range a b => exact inv_read h _ rfl
  | rangeDesc a b => exact inv_read h _ rfl

/-- THE RUN: along ANY operation sequence every visited state satisfies `Inv` (in particular `WF`, not panicked)
    and every call meets the specification -/
theorem run_inv : ∀ (ops : List Op) (t : BTree), Inv t →
    ∀ k, k ≤ ops.length → Inv (t.run (ops.take k)) ∧
      (∀ (hk : k < ops.length), Spec.accepts (t.run (ops.take k)).unique (t.run (ops.take k)).abs ops[k]
        ((t.run (ops.take k)).step ops[k]).2 ((t.run (ops.take k)).step ops[k]).1.abs = true)
  | [], t, h, k, hk => by
    have : k = 0 := by simpa using hk
    subst this
    exact ⟨h, fun hk' => absurd hk' (by simp)⟩
  | op :: ops, t, h, k, hk => by
    cases k with
    | zero =>
      refine ⟨h, fun _ => ?_⟩
      exact (step_inv h op).2
    | succ k =>
      have ih := run_inv ops (t.step op).1 (step_inv h op).1 k (by simpa using hk)
      simp only [List.take_succ_cons, BTree.run]
      refine ⟨ih.1, fun hk' => ?_⟩
      have := ih.2 (by simpa using hk')
      simpa using this

end Sop.BTree
