import Sop.Lemmas.BTreeOps
/-! Enumeration by `First`/`Next` and `Last`/`Previous`, and the ascending `Range`, on a well-formed tree. -/
namespace Sop.BTree
set_option linter.unusedVariables false
set_option linter.unusedSimpArgs false

/-- the items read through the cursor while calling `Next` until it answers false (at most `fuel` items) -/
def scanFwd : Nat → BTree → List Item
  | 0, _ => []
  | fuel + 1, t => t.curItem :: (if t.next.2 then scanFwd fuel t.next.1 else [])

/-- the items read through the cursor while calling `Previous` until it answers false -/
def scanBwd : Nat → BTree → List Item
  | 0, _ => []
  | fuel + 1, t => t.curItem :: (if t.prev.2 then scanBwd fuel t.prev.1 else [])

/-- `First` then `Next` … : the forward scan of the whole store -/
def BTree.scanAll (t : BTree) : List Item := if t.first.2 then scanFwd t.count.toNat t.first.1 else []

/-- `Last` then `Previous` … : the backward scan of the whole store -/
def BTree.scanAllDesc (t : BTree) : List Item := if t.last.2 then scanBwd t.count.toNat t.last.1 else []

theorem scanFwd_spec {t₀ : BTree} (hwf : WF t₀) (hw : WFR t₀) : ∀ (fuel : Nat) (t : BTree) (L R : List Item),
    CursorPos t₀ t L R → R.length ≤ fuel → scanFwd fuel t = R
  | 0, t, L, R, h, hf => by
    obtain ⟨_, _, x, R', hR, _⟩ := cursorPos_abs hw h
    rw [hR] at hf; simp at hf
  | fuel + 1, t, L, R, h, hf => by
    obtain ⟨_, _, x, R', hR, hx⟩ := cursorPos_abs hw h
    subst hR
    obtain ⟨_, _, hnil, hcons⟩ := next_spec hwf h
    rw [scanFwd, hx]
    by_cases hR' : R' = []
    · rw [hnil hR', hR']; rfl
    · obtain ⟨h1, h2, _⟩ := hcons hR'
      rw [h1]
      simp only [if_true]
      rw [scanFwd_spec hwf hw fuel _ _ _ h2 (by simpa using hf)]

theorem scanBwd_spec {t₀ : BTree} (hwf : WF t₀) (hw : WFR t₀) : ∀ (fuel : Nat) (t : BTree) (L R : List Item),
    CursorPos t₀ t L R → L.length + 1 ≤ fuel → scanBwd fuel t = R.head?.toList ++ L.reverse
  | 0, t, L, R, h, hf => by omega
  | fuel + 1, t, L, R, h, hf => by
    obtain ⟨_, _, x, R', hR, hx⟩ := cursorPos_abs hw h
    subst hR
    obtain ⟨_, _, hnil, hcons⟩ := prev_spec hwf h
    rw [scanBwd, hx]
    by_cases hL : L = []
    · rw [hnil hL, hL]; rfl
    · obtain ⟨h1, L', y, hLy, h2, _⟩ := hcons hL
      rw [h1]
      simp only [if_true]
      rw [scanBwd_spec hwf hw fuel _ _ _ h2 (by rw [hLy] at hf; simp at hf; omega), hLy]
      simp

theorem count_toNat {t : BTree} (hwf : WF t) : t.count.toNat = t.abs.length := by
  have := (abs_sorted_of_WF t hwf).2.2
  omega

/-- `First`, then `Next` until it answers false, reads exactly the in-order contents -/
theorem scanAll_eq_abs {t : BTree} (hwf : WF t) (hp : t.panicked = false) : t.scanAll = t.abs := by
  unfold BTree.scanAll
  by_cases hne : t.abs = []
  · have hc : (t.count == 0) = true := by
      have := (abs_sorted_of_WF t hwf).2.2
      rw [hne] at this; simp [this]
    have : t.first = (t, false) := by unfold BTree.first; simp [hc]
    rw [this, hne]; rfl
  · obtain ⟨h1, h2, _⟩ := first_spec hwf hp hne
    have hw := hwf.wfr (hwf.count_ne hne).2
    rw [h1]
    simp only [if_true]
    exact scanFwd_spec hwf hw _ _ _ _ h2 (by rw [count_toNat hwf]; exact Nat.le_refl _)

/-- `Last`, then `Previous` until it answers false, reads exactly the in-order contents backwards -/
theorem scanAllDesc_eq_abs_reverse {t : BTree} (hwf : WF t) (hp : t.panicked = false) : t.scanAllDesc = t.abs.reverse := by
  unfold BTree.scanAllDesc
  by_cases hne : t.abs = []
  · have hc : (t.count == 0) = true := by
      have := (abs_sorted_of_WF t hwf).2.2
      rw [hne] at this; simp [this]
    have : t.last = (t, false) := by unfold BTree.last; simp [hc]
    rw [this, hne]; rfl
  · obtain ⟨h1, L, x, hLx, h2, _⟩ := last_spec hwf hp hne
    have hw := hwf.wfr (hwf.count_ne hne).2
    rw [h1]
    simp only [if_true]
    rw [scanBwd_spec hwf hw _ _ _ _ h2 (by rw [count_toNat hwf, hLx]; simp), hLx]
    simp

/-! ### ascending `Range` -/

theorem getCurrentKey_cached {t : BTree} (hc : t.cur.cached = true) : t.getCurrentKey = t.curItem := by
  simp [BTree.getCurrentKey, hc]

theorem getCurrentItem_cached {t : BTree} (hn : t.cur.node ≠ 0) (hc : t.cur.cached = true) :
    t.getCurrentItem = (t, some t.curItem) := by
  simp [BTree.getCurrentItem, hn, hc]



theorem cursorPos_node_ne {t₀ t : BTree} (hw : WFR t₀) {L R : List Item} (h : CursorPos t₀ t L R) : t.cur.node ≠ 0 := by
  obtain ⟨_, _, f, m, s, hn, _, ⟨p, pre, post, nd, hctx, hg, _⟩, _⟩ := h
  rw [hn]; exact (hctx.shape hw hg).2.2.2.1

theorem rangeCollect_spec {t₀ : BTree} (hwf : WF t₀) (hw : WFR t₀) (b : Int) : ∀ (fuel : Nat) (t : BTree)
    (L R acc : List Item), CursorPos t₀ t L R → t.cur.cached = true → R.length ≤ fuel →
    (rangeCollect b true fuel t acc).2 = acc.reverse ++ R.takeWhile (fun i => decide (i.key ≤ b))
  | 0, t, L, R, acc, h, hc, hf => by
    obtain ⟨_, _, x, R', hR, _⟩ := cursorPos_abs hw h
    rw [hR] at hf; simp at hf
  | fuel + 1, t, L, R, acc, h, hc, hf => by
    obtain ⟨_, _, x, R', hR, hx⟩ := cursorPos_abs hw h
    subst hR
    obtain ⟨_, _, hnil, hcons⟩ := next_spec hwf h
    rw [rangeCollect]
    simp only [getCurrentKey_cached hc, hx, if_true, getCurrentItem_cached (cursorPos_node_ne hw h) hc,
      Option.getD_some]
    by_cases hxb : x.key > b
    · simp only [hxb, if_true]
      have : ¬ (x.key ≤ b) := by omega
      simp [List.takeWhile_cons, this]
    · simp only [hxb, if_false]
      have hle : x.key ≤ b := by omega
      by_cases hR' : R' = []
      · have h2 := hnil hR'
        rcases hnx : t.next with ⟨t', ok⟩
        rw [hnx] at h2
        simp only at h2
        subst h2
        simp [hR', List.takeWhile_cons, hle]
      · obtain ⟨h1, h2, h3⟩ := hcons hR'
        rcases hnx : t.next with ⟨t', ok⟩
        rw [hnx] at h1 h2 h3
        simp only at h1 h2 h3
        subst h1
        simp only [Bool.not_true, Bool.false_eq_true, if_false]
        rw [rangeCollect_spec hwf hw b fuel t' _ R' _ h2 h3 (by simpa using hf)]
        simp [List.takeWhile_cons, hle]

theorem dropWhile_append_all {p : Item → Bool} : ∀ (L R : List Item), (∀ x ∈ L, p x = true) →
    (∀ y, R.head? = some y → p y = false) → (L ++ R).dropWhile p = R
  | [], R, _, hR => by
    cases R with
    | nil => rfl
    | cons y ys => simp [List.dropWhile_cons, hR y rfl]
  | x :: L, R, hL, hR => by
    simp only [List.cons_append, List.dropWhile_cons, hL x List.mem_cons_self, if_true]
    exact dropWhile_append_all L R (fun y hy => hL y (List.mem_cons_of_mem _ hy)) hR

/-- `Range(a, b)` on a well-formed tree returns exactly the items with `a ≤ key ≤ b`, in order -/
theorem range_asc_spec {t : BTree} (hwf : WF t) (hp : t.panicked = false) (hv : CursorValid t)
    (h0 : t.abs = [] → t.getCurrentKey.id = 0) (a b : Int) :
    (t.range a b true).2 = t.abs.filter (inRange a b) := by
  have hsorted := (abs_sorted_of_WF t hwf).1
  have hlive := (abs_sorted_of_WF t hwf).2.1
  rw [← scan_from_lower_bound_exact a b t.abs hsorted]
  unfold BTree.range
  simp only [if_true]
  by_cases hne : t.abs = []
  · have hc : (t.count == 0) = true := by
      have := (abs_sorted_of_WF t hwf).2.2
      rw [hne] at this; simp [this]
    have : t.find a true = (t, false) := by unfold BTree.find; simp [hc]
    simp [this, h0 hne, hne]
  · have hw := hwf.wfr (hwf.count_ne hne).2
    obtain ⟨he, hp', hcached, hres⟩ := find_spec hwf hp hv hne a
    rcases hfd : t.find a true with ⟨t1, found⟩
    rw [hfd] at he hp' hcached hres
    simp only at he hp' hcached hres ⊢
    have hfuel : t1.count.toNat = t.abs.length := by rw [he.count]; exact count_toNat hwf
    rcases hres with ⟨hr, L, y, R, hpos, hy, hL⟩ | ⟨hr, Lo, Hi, hLo, hHi, hpos⟩
    · subst hr
      simp only [if_true, Bool.not_true, Bool.false_eq_true, if_false]
      obtain ⟨habs, _⟩ := cursorPos_abs hw hpos
      rw [rangeCollect_spec hwf hw b _ t1 L (y :: R) [] hpos hcached (by
        have : (L ++ y :: R).length = t.abs.length := by rw [habs]
        simp at this ⊢; omega)]
      rw [habs, dropWhile_append_all L (y :: R) (fun x hx => by simpa using hL x hx)
        (fun z hz => by simp at hz; subst hz; simp; omega)]
      rfl
    · subst hr
      simp only [Bool.false_eq_true, if_false]
      rcases hpos with hpos | ⟨Lo', x, hLx, hpos⟩
      · obtain ⟨habs, _, y, Hi', hHi', hcur⟩ := cursorPos_abs hw hpos
        have hyid : y.id ≠ 0 := hlive y (by rw [habs, hHi']; simp)
        have hya : a < y.key := hHi y (by rw [hHi']; simp)
        simp only [getCurrentKey_cached hcached, hcur, hyid, if_false]
        have hskip : rangeSkip a true (t1.count.toNat + 3) t1 = (t1, true) := by
          rw [rangeSkip]
          have : ¬ (y.key < a) := by omega
          simp [getCurrentKey_cached hcached, hcur, this]
        rw [hskip]
        simp only [Bool.not_true, Bool.false_eq_true, if_false]
        rw [rangeCollect_spec hwf hw b _ t1 Lo Hi [] hpos hcached (by
          have : (Lo ++ Hi).length = t.abs.length := by rw [habs]
          simp at this ⊢; omega)]
        rw [habs, dropWhile_append_all Lo Hi (fun x hx => by simpa using hLo x hx)
          (fun z hz => by rw [hHi'] at hz; simp at hz; subst hz; simp; omega)]
        rfl
      · obtain ⟨habs, _, x, Hi, hxH, hcur⟩ := cursorPos_abs hw hpos
        simp only [List.cons.injEq] at hxH
        obtain ⟨rfl, rfl⟩ := hxH
        have hxid : x.id ≠ 0 := hlive x (by rw [habs]; simp)
        have hxa : x.key < a := hLo x (by rw [hLx]; simp)
        simp only [getCurrentKey_cached hcached, hcur, hxid, if_false]
        obtain ⟨_, _, hnil, hcons⟩ := next_spec hwf hpos
        have habs' : t.abs = Lo ++ Hi := by rw [habs, hLx]; simp
        by_cases hH : Hi = []
        · have hskip : (rangeSkip a true (t1.count.toNat + 3) t1).2 = false := by
            rw [rangeSkip]
            simp only [getCurrentKey_cached hcached, hcur, hxa, if_true]
            rcases hnx : t1.next with ⟨t', ok⟩
            have := hnil hH
            rw [hnx] at this
            simp only at this
            subst this
            simp
          rcases hsk : rangeSkip a true (t1.count.toNat + 3) t1 with ⟨t2, go⟩
          rw [hsk] at hskip
          simp only at hskip
          subst hskip
          simp only [Bool.not_false, if_true]
          rw [habs', hH, List.append_nil]
          have : Lo.dropWhile (fun i => decide (i.key < a)) = [] := by
            have := dropWhile_append_all (p := fun i => decide (i.key < a)) Lo []
              (fun x hx => by simpa using hLo x hx) (fun z hz => by simp at hz)
            simpa using this
          rw [this]; rfl
        · obtain ⟨h1, h2, h3⟩ := hcons hH
          obtain ⟨_, _, y, Hi'', hHi'', hcur2⟩ := cursorPos_abs hw h2
          have hya : a < y.key := hHi y (by rw [hHi'']; simp)
          have hskip : rangeSkip a true (t1.count.toNat + 3) t1 = (t1.next.1, true) := by
            rw [rangeSkip]
            simp only [getCurrentKey_cached hcached, hcur, hxa, if_true]
            rcases hnx : t1.next with ⟨t', ok⟩
            rw [hnx] at h1 h2 h3 hcur2
            simp only at h1 h2 h3 hcur2 ⊢
            subst h1
            simp only [Bool.not_true, Bool.false_eq_true, if_false]
            rw [rangeSkip]
            have : ¬ (y.key < a) := by omega
            simp [getCurrentKey_cached h3, hcur2, this]
          rw [hskip]
          simp only [Bool.not_true, Bool.false_eq_true, if_false]
          rw [rangeCollect_spec hwf hw b _ _ _ Hi [] h2 h3 (by
            have : (Lo ++ Hi).length = t.abs.length := by rw [habs']
            simp at this ⊢; omega)]
          rw [habs', dropWhile_append_all Lo Hi (fun x hx => by simpa using hLo x hx)
            (fun z hz => by rw [hHi''] at hz; simp at hz; subst hz; simp; omega)]
          rfl

end Sop.BTree
