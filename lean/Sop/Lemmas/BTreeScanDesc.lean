import Sop.Lemmas.BTreeDesc
/-! The descending `RangeDesc` of Model B on a well-formed tree. -/
namespace Sop.BTree
set_option linter.unusedVariables false
set_option linter.unusedSimpArgs false

/-- on a list sorted in DESCENDING key order: skipping the items `> a` and then taking the items `≥ b`
    gives exactly the items with `b ≤ key ≤ a` -/
theorem scan_desc_exact (a b : Int) : ∀ (l : List Item), l.Pairwise (fun x y => y.key ≤ x.key) →
    (l.dropWhile (fun i => decide (a < i.key))).takeWhile (fun i => decide (b ≤ i.key)) = l.filter (inRange b a)
  | [], _ => by simp
  | x :: xs, h => by
    have h' := List.pairwise_cons.mp h
    have ih := scan_desc_exact a b xs h'.2
    by_cases hxa : a < x.key
    · have : inRange b a x = false := by simp [inRange]; intro; omega
      simp [hxa, this, ih]
    · simp only [List.dropWhile_cons, hxa, decide_false, Bool.false_eq_true, if_false]
      have hdrop : xs.dropWhile (fun i => decide (a < i.key)) = xs := by
        cases xs with
        | nil => rfl
        | cons y ys =>
          have : ¬ a < y.key := by have := h'.1 y (List.mem_cons_self); omega
          simp [this]
      rw [hdrop] at ih
      by_cases hxb : b ≤ x.key
      · have : inRange b a x = true := by simp [inRange]; omega
        simp [hxb, this, ih]
      · have hx : inRange b a x = false := by simp [inRange]; intro; omega
        have hall : xs.filter (inRange b a) = [] := by
          apply List.filter_eq_nil_iff.mpr
          intro y hy
          have := h'.1 y hy
          simp [inRange]; intro; omega
        simp [hxb, hx, hall]

theorem scan_desc_exact' (a b : Int) (l : List Item) (h : Sorted l) :
    (l.reverse.dropWhile (fun i => decide (a < i.key))).takeWhile (fun i => decide (b ≤ i.key)) =
      (l.filter (inRange b a)).reverse := by
  rw [← List.filter_reverse]
  exact scan_desc_exact a b l.reverse (List.pairwise_reverse.mpr h)

theorem rangeCollect_desc_spec {t₀ : BTree} (hwf : WF t₀) (hw : WFR t₀) (b : Int) : ∀ (fuel : Nat) (t : BTree)
    (L R acc : List Item) (x : Item), CursorPos t₀ t L (x :: R) → t.cur.cached = true → L.length + 1 ≤ fuel →
    (rangeCollect b false fuel t acc).2 = acc.reverse ++ (x :: L.reverse).takeWhile (fun i => decide (b ≤ i.key))
  | 0, t, L, R, acc, x, h, hc, hf => by omega
  | fuel + 1, t, L, R, acc, x, h, hc, hf => by
    obtain ⟨_, _, x', R', hR, hx⟩ := cursorPos_abs hw h
    simp only [List.cons.injEq] at hR
    obtain ⟨rfl, rfl⟩ := hR
    obtain ⟨_, _, hnil, hcons⟩ := prev_spec hwf h
    rw [rangeCollect]
    simp only [getCurrentKey_cached hc, hx, Bool.false_eq_true, if_false,
      getCurrentItem_cached (cursorPos_node_ne hw h) hc, Option.getD_some]
    by_cases hxb : x.key < b
    · simp only [hxb, if_true]
      have : ¬ (b ≤ x.key) := by omega
      simp [List.takeWhile_cons, this]
    · simp only [hxb, if_false]
      have hle : b ≤ x.key := by omega
      by_cases hL : L = []
      · have h2 := hnil hL
        rcases hnx : t.prev with ⟨t', ok⟩
        rw [hnx] at h2
        simp only at h2
        subst h2
        simp [hL, List.takeWhile_cons, hle]
      · obtain ⟨h1, L', y, hLy, h2, h3⟩ := hcons hL
        rcases hnx : t.prev with ⟨t', ok⟩
        rw [hnx] at h1 h2 h3
        simp only at h1 h2 h3
        subst h1
        simp only [Bool.not_true, Bool.false_eq_true, if_false]
        rw [rangeCollect_desc_spec hwf hw b fuel t' L' _ _ y h2 h3 (by rw [hLy] at hf; simp at hf; omega), hLy]
        simp [List.takeWhile_cons, hle]

/-- `RangeDesc(a, b)` on a well-formed tree returns exactly the items with `b ≤ key ≤ a`, in descending order -/
theorem range_desc_spec {t : BTree} (hwf : WF t) (hp : t.panicked = false)
    (h0 : t.abs = [] → t.getCurrentKey.id = 0) (a b : Int) :
    (t.range a b false).2 = (t.abs.filter (inRange b a)).reverse := by
  have hsorted := (abs_sorted_of_WF t hwf).1
  have hlive := (abs_sorted_of_WF t hwf).2.1
  rw [← scan_desc_exact' a b t.abs hsorted]
  unfold BTree.range
  simp only [Bool.false_eq_true, if_false]
  by_cases hne : t.abs = []
  · have hc : (t.count == 0) = true := by
      have := (abs_sorted_of_WF t hwf).2.2
      rw [hne] at this; simp [this]
    have : t.findDesc a = (t, false) := by unfold BTree.findDesc; simp [hc]
    simp [this, h0 hne, hne]
  · have hw := hwf.wfr (hwf.count_ne hne).2
    obtain ⟨he, hp', hcached, hres⟩ := findDesc_spec hwf hp hne a
    rcases hfd : t.findDesc a with ⟨t1, found⟩
    rw [hfd] at he hp' hcached hres
    simp only at he hp' hcached hres ⊢
    have hfuel : t1.count.toNat = t.abs.length := by rw [he.count]; exact count_toNat hwf
    rcases hres with ⟨hr, L, y, R, hpos, hy, hL, hR⟩ | ⟨hr, Lo, Hi, hLo, hHi, hpos⟩
    · subst hr
      simp only [if_true, Bool.not_true, Bool.false_eq_true, if_false]
      obtain ⟨habs, _⟩ := cursorPos_abs hw hpos
      rw [rangeCollect_desc_spec hwf hw b _ t1 L R [] y hpos hcached (by
        have : (L ++ y :: R).length = t.abs.length := by rw [habs]
        simp at this; omega)]
      have hrev : t.abs.reverse = R.reverse ++ (y :: L.reverse) := by rw [habs]; simp
      rw [hrev, dropWhile_append_all (p := fun i => decide (a < i.key)) R.reverse (y :: L.reverse)
        (fun x hx => by simpa using hR x (by simpa using hx))
        (fun z hz => by simp at hz; subst hz; simp; omega)]
      rfl
    · subst hr
      simp only [Bool.false_eq_true, if_false]
      -- both miss positions end with the cursor on the last item of `Lo` (or nothing to return)
      have key : ∀ (t2 : BTree) (Lo' : List Item) (x : Item), Lo = Lo' ++ [x] → CursorPos t t2 Lo' (x :: Hi) →
          t2.cur.cached = true → t2.count.toNat = t.abs.length → t.abs = Lo ++ Hi →
          (rangeCollect b false (t2.count.toNat + 3) t2 []).2 =
            List.takeWhile (fun i => decide (b ≤ i.key)) (List.dropWhile (fun i => decide (a < i.key)) t.abs.reverse) := by
        intro t2 Lo' x hLx hpos2 hc2 hf2 habs'
        rw [rangeCollect_desc_spec hwf hw b _ t2 Lo' Hi [] x hpos2 hc2 (by
          have : (Lo ++ Hi).length = t.abs.length := by rw [habs']
          rw [hLx] at this; simp at this; omega)]
        have hrev : t.abs.reverse = Hi.reverse ++ (x :: Lo'.reverse) := by rw [habs', hLx]; simp
        have hxa : x.key < a := hLo x (by rw [hLx]; simp)
        rw [hrev, dropWhile_append_all (p := fun i => decide (a < i.key)) Hi.reverse (x :: Lo'.reverse)
          (fun z hz => by simpa using hHi z (by simpa using hz))
          (fun z hz => by simp at hz; subst hz; simp; omega)]
        rfl
      rcases hpos with hpos | ⟨Lo', x, hLx, hpos⟩
      · obtain ⟨habs, _, y, Hi', hHi', hcur⟩ := cursorPos_abs hw hpos
        have hyid : y.id ≠ 0 := hlive y (by rw [habs, hHi']; simp)
        have hya : a < y.key := hHi y (by rw [hHi']; simp)
        simp only [getCurrentKey_cached hcached, hcur, hyid, if_false]
        obtain ⟨_, _, hnil, hcons⟩ := prev_spec hwf hpos
        by_cases hL : Lo = []
        · have hskip : (rangeSkip a false (t1.count.toNat + 3) t1).2 = false := by
            rw [rangeSkip]
            have : y.key > a := hya
            simp only [getCurrentKey_cached hcached, hcur, Bool.false_eq_true, if_false, this, if_true]
            rcases hnx : t1.prev with ⟨t', ok⟩
            have := hnil hL
            rw [hnx] at this
            simp only at this
            subst this
            simp
          rcases hsk : rangeSkip a false (t1.count.toNat + 3) t1 with ⟨t2, go⟩
          rw [hsk] at hskip
          simp only at hskip
          subst hskip
          simp only [Bool.not_false, if_true]
          rw [habs, hL, List.nil_append]
          have : Hi.reverse.dropWhile (fun i => decide (a < i.key)) = [] := by
            have := dropWhile_append_all (p := fun i => decide (a < i.key)) Hi.reverse []
              (fun z hz => by simpa using hHi z (by simpa using hz)) (fun z hz => by simp at hz)
            simpa using this
          rw [this]; rfl
        · obtain ⟨h1, L', x, hLx, h2, h3⟩ := hcons hL
          obtain ⟨_, _, x', _, hxx, hcur2⟩ := cursorPos_abs hw h2
          simp only [List.cons.injEq] at hxx
          have hxa : x.key < a := hLo x (by rw [hLx]; simp)
          have hskip : rangeSkip a false (t1.count.toNat + 3) t1 = (t1.prev.1, true) := by
            rw [rangeSkip]
            have : y.key > a := hya
            simp only [getCurrentKey_cached hcached, hcur, Bool.false_eq_true, if_false, this, if_true]
            rcases hnx : t1.prev with ⟨t', ok⟩
            rw [hnx] at h1 h2 h3 hcur2
            simp only at h1 h2 h3 hcur2 ⊢
            subst h1
            simp only [Bool.not_true, Bool.false_eq_true, if_false]
            rw [rangeSkip]
            have : ¬ (x.key > a) := by omega
            simp [getCurrentKey_cached h3, hcur2, ← hxx.1, this]
          rw [hskip]
          simp only [Bool.not_true, Bool.false_eq_true, if_false]
          have hcnt : t1.prev.1.count = t1.count := by rw [h2.1.count, he.count]
          rw [← hcnt]
          exact key t1.prev.1 L' x hLx h2 h3 (by rw [hcnt]; exact hfuel) habs
      · obtain ⟨habs, _, x', Hi', hxH, hcur⟩ := cursorPos_abs hw hpos
        simp only [List.cons.injEq] at hxH
        have hxid : x.id ≠ 0 := hlive x (by rw [habs]; simp)
        have hxa : x.key < a := hLo x (by rw [hLx]; simp)
        rw [← hxH.1] at hcur
        simp only [getCurrentKey_cached hcached, hcur, hxid, if_false]
        have hskip : rangeSkip a false (t1.count.toNat + 3) t1 = (t1, true) := by
          rw [rangeSkip]
          have : ¬ (x.key > a) := by omega
          simp [getCurrentKey_cached hcached, hcur, this]
        rw [hskip]
        simp only [Bool.not_true, Bool.false_eq_true, if_false]
        exact key t1 Lo' x hLx hpos hcached hfuel (by rw [habs, hLx]; simp)

end Sop.BTree
