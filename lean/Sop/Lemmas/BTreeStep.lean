import Sop.Lemmas.BTreeReadAll
import Sop.Lemmas.BTreeRemove3
/-! `Statement_C17`'s conclusion for whole public calls, assembled from the read side (`BTreeReadAll`) and the
update/remove lemmas (`BTreeRemove*`): `UpdateCurrentItem/Key/Value`, `Update`, `UpdateKey`, and
`RemoveCurrentItem`/`Remove` when the item sits in a leaf. -/
namespace Sop.BTree
set_option linter.unusedVariables false
set_option linter.unusedSimpArgs false
open Sop.BTree.Rem

/-- what `Statement_C17` asks of one call -/
def StepOk (t : BTree) (op : Op) : Prop :=
  WF (t.step op).1 ∧ (t.step op).1.panicked = false ∧
    Spec.accepts t.unique t.abs op (t.step op).2 (t.step op).1.abs = true

/-- the cursor passes the common head of `UpdateCurrent*`/`RemoveCurrentItem` ⇒ it is on an occupied slot of a
    reachable node -/
theorem cursorOn_of_curNode {t : BTree} (hwf : WF t) {nd : Node} (h : t.curNode? = some nd) (hi : 0 ≤ t.cur.idx) :
    CursorOn t := by
  unfold BTree.curNode? at h
  by_cases h0 : t.cur.node = 0
  · simp [h0] at h
  · simp only [h0, if_false] at h
    cases hg : t.get? t.cur.node with
    | none => rw [hg] at h; simp at h
    | some nd' =>
      rw [hg] at h
      simp only at h
      by_cases hge : t.cur.idx ≥ (nd'.count : Int)
      · simp [hge] at h
      · have hr := hwf.root_ne_of_get hg
        refine ⟨hwf.all_reachable hr hg, hi, ?_⟩
        rw [get_of_get? hg]; omega

theorem perm_erase_mid {x : Item} (L R : List Item) : ((L ++ x :: R).erase x).Perm (L ++ R) := by
  have h1 : (L ++ x :: R).Perm (x :: (L ++ x :: R).erase x) := List.perm_cons_erase (by simp)
  have h2 : (L ++ x :: R).Perm (x :: (L ++ R)) := List.perm_middle
  exact (List.Perm.cons_inv (h1.symm.trans h2))

theorem removedOne_mid {p : Item → Bool} {x : Item} (L R : List Item) (hp : p x = true) :
    removedOne p (L ++ x :: R) (L ++ R) = true := by
  unfold removedOne
  rw [List.any_eq_true]
  exact ⟨x, by simp, by rw [hp, Bool.true_and]; exact List.isPerm_iff.mpr (perm_erase_mid L R)⟩

theorem replacedOne_mid {p : Item → Bool} {f : Item → Item} {x : Item} (L R : List Item) (hp : p x = true) :
    replacedOne p f (L ++ x :: R) (L ++ f x :: R) = true := by
  unfold replacedOne
  rw [List.any_eq_true]
  refine ⟨x, by simp, ?_⟩
  rw [hp, Bool.true_and]
  apply List.isPerm_iff.mpr
  exact ((perm_erase_mid L R).cons (f x)).trans List.perm_middle.symm

theorem keysSorted_of_WF {t : BTree} (h : WF t) : keysSorted t.abs = true :=
  (keysSorted_iff _).mpr (abs_sorted_of_WF t h).1

theorem isPerm_refl (l : List Item) : l.isPerm l = true := List.isPerm_iff.mpr (List.Perm.refl l)

/-! ### UpdateCurrentValue / UpdateCurrentItem / UpdateCurrentKey -/

theorem step_updateCurrentValue {t : BTree} (hwf : WF t) (hp : t.panicked = false) (hi : 0 ≤ t.cur.idx) (v : Nat) :
    StepOk t (.updateCurrentValue v) := by
  unfold StepOk
  simp only [BTree.step]
  cases hcn : t.curNode? with
  | none =>
    have : t.updateCurrentValue v = (t, .ok false) := by unfold BTree.updateCurrentValue; rw [hcn]
    rw [this]
    exact ⟨hwf, hp, by simp [Spec.accepts, keysSorted_of_WF hwf, isPerm_refl]⟩
  | some nd =>
    have hc := cursorOn_of_curNode hwf hcn hi
    obtain ⟨h1, h2, h3, _, _, L, R, h6, h7⟩ := updateCurrentValue_ok t v hwf hp hc
    refine ⟨h1, h2, ?_⟩
    rw [h3, h7, h6]
    simp only [Spec.accepts, if_true, Bool.and_eq_true]
    refine ⟨?_, replacedOne_mid L R rfl⟩
    rw [← h7]; exact keysSorted_of_WF h1

theorem step_updateCurrent {t : BTree} (hwf : WF t) (hp : t.panicked = false) (hi : 0 ≤ t.cur.idx)
    (hfe : t.fixErr = true) (k : Int) (val : Option Nat) :
    WF (t.updateCurrent k val).1 ∧ (t.updateCurrent k val).1.panicked = false ∧
    (((t.updateCurrent k val).2 = .ok false ∧ (t.updateCurrent k val).1 = t) ∨
     ((t.updateCurrent k val).2 = .err ∧ (t.updateCurrent k val).1 = t) ∨
     ((t.updateCurrent k val).2 = .ok true ∧ t.curItem.key = k ∧ ∃ L R, t.abs = L ++ t.curItem :: R ∧
        (t.updateCurrent k val).1.abs = L ++ { t.curItem with val := val.getD t.curItem.val } :: R)) := by
  cases hcn : t.curNode? with
  | none =>
    have : t.updateCurrent k val = (t, .ok false) := by unfold BTree.updateCurrent; rw [hcn]
    rw [this]
    exact ⟨hwf, hp, Or.inl ⟨rfl, rfl⟩⟩
  | some nd =>
    have hc := cursorOn_of_curNode hwf hcn hi
    by_cases hkey : t.curItem.key = k
    · obtain ⟨h1, h2, h3, _, _, h6⟩ := updateCurrent_ok t k val hwf hp hc hkey
      exact ⟨h1, h2, Or.inr (Or.inr ⟨h3, hkey, h6⟩)⟩
    · obtain ⟨h1, h2⟩ := updateCurrent_reject t k val hc hkey
      have h3 := h2 (by simp [hfe])
      rw [h3]
      exact ⟨hwf, hp, Or.inr (Or.inl ⟨h1, rfl⟩)⟩

theorem step_updateCurrentItem {t : BTree} (hwf : WF t) (hp : t.panicked = false) (hi : 0 ≤ t.cur.idx)
    (hfe : t.fixErr = true) (k : Int) (v : Nat) : StepOk t (.updateCurrentItem k v) := by
  unfold StepOk
  simp only [BTree.step]
  obtain ⟨h1, h2, h3⟩ := step_updateCurrent hwf hp hi hfe k (some v)
  refine ⟨h1, h2, ?_⟩
  rcases h3 with ⟨hr, hs⟩ | ⟨hr, hs⟩ | ⟨hr, _, L, R, ha, hb⟩
  · rw [hr, hs]; simp [Spec.accepts, keysSorted_of_WF hwf, isPerm_refl]
  · rw [hr, hs]; simp [Spec.accepts, keysSorted_of_WF hwf, isPerm_refl]
  · rw [hr, hb, ha]
    simp only [Spec.accepts, if_true, Bool.and_eq_true, Option.getD_some]
    refine ⟨?_, replacedOne_mid L R rfl⟩
    have := keysSorted_of_WF h1
    rw [hb] at this; simpa using this

theorem step_updateCurrentKey {t : BTree} (hwf : WF t) (hp : t.panicked = false) (hi : 0 ≤ t.cur.idx)
    (hfe : t.fixErr = true) (k : Int) : StepOk t (.updateCurrentKey k) := by
  unfold StepOk
  simp only [BTree.step]
  obtain ⟨h1, h2, h3⟩ := step_updateCurrent hwf hp hi hfe k none
  refine ⟨h1, h2, ?_⟩
  rcases h3 with ⟨hr, hs⟩ | ⟨hr, hs⟩ | ⟨hr, _, L, R, ha, hb⟩
  · rw [hr, hs]; simp [Spec.accepts, keysSorted_of_WF hwf, isPerm_refl]
  · rw [hr, hs]; simp [Spec.accepts, keysSorted_of_WF hwf, isPerm_refl]
  · have hsame : (t.updateCurrent k none).1.abs = t.abs := by
      rw [hb, ha]; simp only [Option.getD_none]
    rw [hr, hsame]
    simp [Spec.accepts, keysSorted_of_WF hwf, isPerm_refl]

/-! ### the search in front of Update / UpdateKey / Remove -/

/-- after a successful `Find(k, false)` the cursor satisfies `CursorOn` in the resulting state -/
theorem cursorOn_of_pos {t t' : BTree} (hwf : WF t) {L R : List Item} (h : CursorPos t t' L R) :
    CursorOn t' ∧ 0 ≤ t'.cur.idx := by
  obtain ⟨he, hp, f, m, s, hn, hi, hat⟩ := id h
  obtain ⟨_, nd, hg, hlt⟩ := hat
  obtain ⟨nd', hg', hcore⟩ := he.get_some hg
  have hwf' := WF_heapEq he hwf
  have hr' := hwf'.root_ne_of_get hg'
  refine ⟨⟨by rw [hn]; exact hwf'.all_reachable hr' hg', by omega, ?_⟩, by omega⟩
  rw [hn, get_of_get? hg', (core_eq hcore).2.2.2.1, hi]; omega

theorem hasKey_of_mem {l : List Item} {k : Int} {y : Item} (h : y ∈ l) (hk : y.key = k) : hasKey l k = true :=
  hasKey_iff'.mpr ⟨y, h, hk⟩

theorem hasKey_false {l : List Item} {k : Int} (h : ∀ x ∈ l, x.key ≠ k) : hasKey l k = false := by
  cases hh : hasKey l k with
  | false => rfl
  | true => obtain ⟨x, hx, hk⟩ := hasKey_iff'.mp hh; exact absurd hk (h x hx)

/-- the three outcomes of `Find(k, false)` used by the update-side wrappers -/
theorem find_any_cases {t : BTree} (hwf : WF t) (hp : t.panicked = false) (hv : CursorValid t) (hff : t.fixFast = true)
    (k : Int) :
    WF (t.find k false).1 ∧ (t.find k false).1.panicked = false ∧ (t.find k false).1.abs = t.abs ∧
    (((t.find k false).2 = false ∧ hasKey t.abs k = false) ∨
     ((t.find k false).2 = true ∧ hasKey t.abs k = true ∧ CursorOn (t.find k false).1 ∧ 0 ≤ (t.find k false).1.cur.idx ∧
        (t.find k false).1.curItem.key = k)) := by
  by_cases hne : t.abs = []
  · have hc : (t.count == 0) = true := by
      have := (abs_sorted_of_WF t hwf).2.2
      rw [hne] at this; simp [this]
    have : t.find k false = (t, false) := by unfold BTree.find; simp [hc]
    rw [this]
    exact ⟨hwf, hp, rfl, Or.inl ⟨rfl, by rw [hne]; rfl⟩⟩
  · obtain ⟨he, hp', hres⟩ := find_any_spec hwf hp hv hff hne k
    have hw := hwf.wfr (hwf.count_ne hne).2
    refine ⟨WF_heapEq he hwf, hp', abs_heapEq he, ?_⟩
    rcases hres with ⟨hr, L, y, R, hpos, hy⟩ | ⟨hr, hno, _⟩
    · right
      obtain ⟨habs, _, y', R', hR, hcur⟩ := cursorPos_abs hw hpos
      simp only [List.cons.injEq] at hR
      obtain ⟨hon, hidx⟩ := cursorOn_of_pos hwf hpos
      exact ⟨hr, hasKey_of_mem (by rw [habs]; simp) hy, hon, hidx, by rw [hcur, ← hR.1]; exact hy⟩
    · left; exact ⟨hr, hasKey_false hno⟩

/-! ### Update / UpdateKey -/

theorem step_update {t : BTree} (hwf : WF t) (hp : t.panicked = false) (hv : CursorValid t) (hff : t.fixFast = true)
    (hfe : t.fixErr = true) (k : Int) (v : Nat) : StepOk t (.update k v) := by
  unfold StepOk
  simp only [BTree.step, BTree.update]
  obtain ⟨h1, h2, h3, hres⟩ := find_any_cases hwf hp hv hff k
  rcases hfd : t.find k false with ⟨t1, ok⟩
  rw [hfd] at h1 h2 h3 hres
  simp only at h1 h2 h3 hres ⊢
  rcases hres with ⟨hr, hno⟩ | ⟨hr, hyes, hon, hidx, hkey⟩
  · subst hr
    simp only [Bool.not_false, if_true]
    refine ⟨h1, h2, ?_⟩
    rw [h3]
    simp [Spec.accepts, keysSorted_of_WF hwf, isPerm_refl, hno]
  · subst hr
    simp only [Bool.not_true, Bool.false_eq_true, if_false]
    obtain ⟨g1, g2, g3, _, _, L, R, g6, g7⟩ := updateCurrent_ok t1 k (some v) h1 h2 hon hkey
    refine ⟨g1, g2, ?_⟩
    rw [g3, g7, ← h3, g6]
    have hks : keysSorted (L ++ { t1.curItem with val := v } :: R) = true := by
      have := keysSorted_of_WF g1; rw [g7] at this; simpa using this
    have hk' : hasKey (L ++ t1.curItem :: R) k = true := by rw [← g6, h3]; exact hyes
    simp only [Spec.accepts, hk', if_true, Bool.true_and, Bool.and_eq_true, Option.getD_some]
    exact ⟨hks, replacedOne_mid L R (by simp [hkey])⟩

theorem step_updateKey {t : BTree} (hwf : WF t) (hp : t.panicked = false) (hv : CursorValid t) (hff : t.fixFast = true)
    (hfe : t.fixErr = true) (k : Int) : StepOk t (.updateKey k) := by
  unfold StepOk
  simp only [BTree.step, BTree.updateKey]
  obtain ⟨h1, h2, h3, hres⟩ := find_any_cases hwf hp hv hff k
  rcases hfd : t.find k false with ⟨t1, ok⟩
  rw [hfd] at h1 h2 h3 hres
  simp only at h1 h2 h3 hres ⊢
  rcases hres with ⟨hr, hno⟩ | ⟨hr, hyes, hon, hidx, hkey⟩
  · subst hr
    simp only [Bool.not_false, if_true]
    refine ⟨h1, h2, ?_⟩
    rw [h3]
    simp [Spec.accepts, keysSorted_of_WF hwf, isPerm_refl, hno]
  · subst hr
    simp only [Bool.not_true, Bool.false_eq_true, if_false]
    obtain ⟨g1, g2, g3, _⟩ := updateCurrent_ok t1 k none h1 h2 hon hkey
    have g4 := updateCurrentKey_abs t1 k h1 h2 hon hkey
    refine ⟨g1, g2, ?_⟩
    rw [g3, g4, h3]
    simp [Spec.accepts, keysSorted_of_WF hwf, isPerm_refl, hyes]

/-! ### RemoveCurrentItem / Remove, item in a leaf -/

/-- the cursor's node is a leaf (or the cursor does not pass the guards of `RemoveCurrentItem`) -/
def CursorInLeaf (t : BTree) : Prop := (t.get t.cur.node).children = none

theorem step_removeCurrent_leaf {t : BTree} (hwf : WF t) (hp : t.panicked = false) (hi : 0 ≤ t.cur.idx)
    (hleaf : CursorInLeaf t) : StepOk t .removeCurrent := by
  unfold StepOk
  simp only [BTree.step]
  cases hcn : t.curNode? with
  | none =>
    have : t.removeCurrent = (t, .ok false) := by unfold BTree.removeCurrent; rw [hcn]
    rw [this]
    exact ⟨hwf, hp, by simp [Spec.accepts, keysSorted_of_WF hwf, isPerm_refl]⟩
  | some nd =>
    have hc := cursorOn_of_curNode hwf hcn hi
    obtain ⟨h1, h2, h3, _, _, L, R, h6, h7⟩ := removeCurrent_leaf_ok t hwf hp hc hleaf
    refine ⟨h1, h2, ?_⟩
    rw [h3, h7, h6]
    simp only [Spec.accepts, if_true, Bool.and_eq_true]
    refine ⟨?_, removedOne_mid L R rfl⟩
    rw [← h7]; exact keysSorted_of_WF h1

theorem step_remove_leaf {t : BTree} (hwf : WF t) (hp : t.panicked = false) (hv : CursorValid t) (hff : t.fixFast = true)
    (k : Int) (hleaf : (t.find k false).2 = true → CursorInLeaf (t.find k false).1) : StepOk t (.remove k) := by
  unfold StepOk
  simp only [BTree.step, BTree.remove]
  obtain ⟨h1, h2, h3, hres⟩ := find_any_cases hwf hp hv hff k
  rcases hfd : t.find k false with ⟨t1, ok⟩
  rw [hfd] at h1 h2 h3 hres hleaf
  simp only at h1 h2 h3 hres hleaf ⊢
  rcases hres with ⟨hr, hno⟩ | ⟨hr, hyes, hon, hidx, hkey⟩
  · subst hr
    simp only [Bool.not_false, if_true]
    refine ⟨h1, h2, ?_⟩
    rw [h3]
    simp [Spec.accepts, keysSorted_of_WF hwf, isPerm_refl, hno]
  · subst hr
    simp only [Bool.not_true, Bool.false_eq_true, if_false]
    obtain ⟨g1, g2, g3, _, _, L, R, g6, g7⟩ := removeCurrent_leaf_ok t1 h1 h2 hon (hleaf rfl)
    refine ⟨g1, g2, ?_⟩
    rw [g3, g7, ← h3, g6]
    have hks : keysSorted (L ++ R) = true := by
      have := keysSorted_of_WF g1; rw [g7] at this; exact this
    have hk' : hasKey (L ++ t1.curItem :: R) k = true := by rw [← g6, h3]; exact hyes
    simp only [Spec.accepts, hk', if_true, Bool.true_and, Bool.and_eq_true]
    exact ⟨hks, removedOne_mid L R (by simp [hkey])⟩

end Sop.BTree
