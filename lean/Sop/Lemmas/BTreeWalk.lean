import Sop.Lemmas.BTreeNav
/-! The cursor-moving routines of Model B on a well-formed tree: `climbRight`/`descendRight`/`moveToNext`,
`climbLeft`/`descendLeft`/`moveToPrevious`, `moveToFirstAux`, `moveToLastAux`. -/
namespace Sop.BTree
set_option linter.unusedVariables false
set_option linter.unusedSimpArgs false

/-- outcome of a forward move from the in-order position `L | R`: the end of the tree (`R = []`), or the
    cursor on the first item of `R` -/
def FwdResult (t₀ : BTree) (L R : List Item) (r : BTree × Bool) : Prop :=
  HeapEq t₀ r.1 ∧ r.1.panicked = false ∧
  ((R = [] ∧ r.2 = false ∧ r.1.cur.node = 0) ∨
   (r.2 = true ∧ ∃ (f : Nat) (m : NodeId) (s : Nat), r.1.cur = ⟨m, (s : Int), false⟩ ∧ At t₀ f m s L R))

/-- outcome of a backward move from the in-order position `L | R`: the start of the tree (`L = []`), or
    the cursor on the last item of `L` -/
def BwdResult (t₀ : BTree) (L R : List Item) (r : BTree × Bool) : Prop :=
  HeapEq t₀ r.1 ∧ r.1.panicked = false ∧
  ((L = [] ∧ r.2 = false ∧ r.1.cur.node = 0) ∨
   (r.2 = true ∧ ∃ (f : Nat) (m : NodeId) (s : Nat) (L' : List Item) (x : Item), L = L' ++ [x] ∧ r.1.cur = ⟨m, (s : Int), false⟩ ∧ At t₀ f m s L' (x :: R)))

theorem parentOf_eq {t₀ t : BTree} (he : HeapEq t₀ t) {m : NodeId} {nd pn : Node} (hg : t₀.get? m = some nd)
    (hp0 : nd.parent ≠ 0) (hgp : t₀.get? nd.parent = some pn) : t.parentOf m = nd.parent := by
  obtain ⟨hcore, _⟩ := he.node hg
  obtain ⟨_, hsome⟩ := he.node hgp
  unfold BTree.parentOf
  simp only [(core_eq hcore).2.1, hp0, if_false, hsome, if_true]

theorem childOf_eq {t₀ t : BTree} (he : HeapEq t₀ t) {m : NodeId} {nd cn : Node} (hg : t₀.get? m = some nd) {i : Nat}
    (hc : nd.child i ≠ 0) (hgc : t₀.get? (nd.child i) = some cn) : t.childOf m i = nd.child i := by
  obtain ⟨hcore, _⟩ := he.node hg
  obtain ⟨_, hsome⟩ := he.node hgc
  unfold BTree.childOf
  simp only [core_eq_child hcore, hc, if_false, hsome, if_true]

/-- `Pre` just after separator `j` is `At` separator `j` -/
theorem Pre.toAt_pred {t : BTree} (hw : WFR t) {f m j L R} (h : Pre t f m (j + 1) L R) :
    ∃ L' x, L = L' ++ [x] ∧ At t f m j L' (x :: R) := by
  obtain ⟨p, pre, post, nd, hctx, hg, hs, rfl, rfl⟩ := h
  obtain ⟨hsh, _⟩ := hctx.shape hw hg
  have hlt : j < nd.count := hs
  refine ⟨pre ++ nd.pre (A t) j ++ A t (nd.child j), nd.slot j, ?_, ⟨p, pre, post, nd, hctx, hg, Nat.le_of_lt hlt, rfl, ?_⟩, nd, hg, hlt⟩
  · rw [Node.pre_succ hsh _ hlt]; simp [List.append_assoc]
  · rw [Node.post_of_lt hsh _ hlt, Node.weave_drop_succ hsh _ hlt]; simp [List.append_assoc]

/-! ### forward -/

theorem climbRight_spec {t₀ : BTree} (hw : WFR t₀) : ∀ (fuel : Nat) (t : BTree) (f : Nat) (m : NodeId) (s : Nat)
    (L R : List Item), HeapEq t₀ t → t.panicked = false → Gap t₀ f m s L R → t₀.nodes.length + 2 ≤ fuel + f →
    FwdResult t₀ L R (climbRight fuel t m (s : Int))
  | 0, t, f, m, s, L, R, he, hp, hgap, hfuel => by
    obtain ⟨p, pre, post, nd, hctx, _⟩ := hgap
    have := (hctx.wf hw).1; omega
  | fuel + 1, t, f, m, s, L, R, he, hp, hgap, hfuel => by
    obtain ⟨p, pre, post, nd, hctx, hg, hs, hL, hR⟩ := id hgap
    obtain ⟨hsh, hpar, hne, hm0, f', hf'⟩ := hctx.shape hw hg
    obtain ⟨hcore, _⟩ := he.node hg
    have hcnt : (t.get m).count = nd.count := (core_eq hcore).2.2.2.1
    rw [climbRight]
    simp only [hm0, if_false, hcnt]
    by_cases hlt : s < nd.count
    · have : ((s : Int) < (nd.count : Int)) := by omega
      simp only [this, if_true]
      exact ⟨he.setCur _ _, hp, Or.inr ⟨rfl, f, m, s, rfl, hgap, nd, hg, hlt⟩⟩
    · have hs' : s = nd.count := by omega
      have : ¬ ((s : Int) < (nd.count : Int)) := by omega
      simp only [this, if_false, core_eq_isRoot hcore]
      by_cases hroot : nd.parent = 0
      · simp only [Node.isRoot, hroot, beq_self_eq_true, if_true]
        exact ⟨he.setCur _ _, hp, Or.inl ⟨hgap.root_end hw hg hs' hroot, rfl, rfl⟩⟩
      · have : (nd.parent == 0) = false := by simpa using hroot
        simp only [Node.isRoot, this, Bool.false_eq_true, if_false]
        obtain ⟨pn, i, hgp, hi, hc, hc0, hgap', pp, pre', post', hctx'⟩ := hgap.up hw hg hs' rfl hroot
        rw [parentOf_eq he hg hroot hgp]
        simp only [hroot, if_false]
        have hsp := getIndexOfChild_spec hw he hctx' hgp hi hc hc0 hp
        rcases hx : t.getIndexOfChild nd.parent m with ⟨t1, i1⟩
        rw [hx] at hsp
        obtain ⟨hi1, he1, hp1, _⟩ := hsp
        simp only at hi1 he1 hp1 ⊢
        subst hi1
        exact climbRight_spec hw fuel t1 (f + 1) nd.parent i L R he1 hp1 hgap' (by omega)

theorem descendRight_spec {t₀ : BTree} (hw : WFR t₀) : ∀ (fuel : Nat) (t : BTree) (f : Nat) (m : NodeId) (s : Nat)
    (L R : List Item), HeapEq t₀ t → t.panicked = false → Pre t₀ f m s L R → f ≤ fuel →
    (∀ nd, t₀.get? m = some nd → nd.hasChildren = true ∨ (s = 0 ∧ 1 ≤ nd.count)) →
    FwdResult t₀ L R (descendRight fuel t m s)
  | 0, t, f, m, s, L, R, he, hp, hpre, hfuel, hleaf => by
    obtain ⟨p, pre, post, nd, hctx, hg, _⟩ := hpre
    obtain ⟨_, _, _, _, f', hf'⟩ := hctx.shape hw hg
    omega
  | fuel + 1, t, f, m, s, L, R, he, hp, hpre, hfuel, hleaf => by
    obtain ⟨p, pre, post, nd, hctx, hg, hs, hL, hR⟩ := id hpre
    obtain ⟨hsh, hpar, hne, hm0, f', hf'⟩ := hctx.shape hw hg
    subst hf'
    obtain ⟨hcore, _⟩ := he.node hg
    rw [descendRight]
    simp only [hm0, if_false, core_eq_hasChildren hcore, core_eq_child hcore]
    cases hch : nd.hasChildren with
    | true =>
      simp only [if_true]
      by_cases hc : nd.child s = 0
      · simp only [hc, beq_self_eq_true, if_true]
        have hgap : Gap t₀ (f' + 1) m s L R := hpre.toGap (fun nd' h' => by rw [hg] at h'; cases h'; exact hc)
        exact climbRight_spec hw _ t (f' + 1) m s L R he hp hgap (by simp [BTree.fuel, he.len]; omega)
      · have : (nd.child s == 0) = false := by simpa using hc
        simp only [this, Bool.false_eq_true, if_false]
        obtain ⟨cn, hgc⟩ := hctx.kid_some hw hg hs hc
        rw [childOf_eq he hg hc hgc]
        have hdown := hpre.down hw hg hc
        refine descendRight_spec hw fuel t f' (nd.child s) 0 L R he hp hdown (by omega) ?_
        intro cn' hgc'
        rw [hgc] at hgc'; cases hgc'
        obtain ⟨_, _, hne2, _⟩ := (Ctx.child hctx hg hs rfl hc).shape hw hgc
        cases hcc : cn.hasChildren with
        | true => left; rfl
        | false =>
          right
          rcases hne2 with h0 | h1
          · exact absurd h0 hm0
          · exact ⟨rfl, h1⟩
    | false =>
      simp only [Bool.false_eq_true, if_false]
      rcases hleaf nd hg with h1 | ⟨hs0, hc1⟩
      · rw [hch] at h1; exact absurd h1 (by simp)
      · subst hs0
        have hc : nd.child 0 = 0 := by
          have : nd.children = none := by simpa [Node.hasChildren] using hch
          simp [Node.child, this]
        have hgap : Gap t₀ (f' + 1) m 0 L R := hpre.toGap (fun nd' h' => by rw [hg] at h'; cases h'; exact hc)
        exact ⟨he.setCur _ _, hp, Or.inr ⟨rfl, f' + 1, m, 0, rfl, hgap, nd, hg, hc1⟩⟩

theorem leaf_child_zero {nd : Node} (h : nd.hasChildren = false) (i : Nat) : nd.child i = 0 := by
  have : nd.children = none := by simpa [Node.hasChildren] using h
  simp [Node.child, this]

/-- `node.moveToNext` from the cursor position `(m, s)`: the cursor moves to the in-order successor -/
theorem moveToNext_spec {t₀ t : BTree} (hw : WFR t₀) (he : HeapEq t₀ t) (hp : t.panicked = false)
    {f : Nat} {m : NodeId} {s : Nat} {L R : List Item} {x : Item} (hat : At t₀ f m s L (x :: R))
    (hcur : t.cur.idx = (s : Int)) : FwdResult t₀ (L ++ [x]) R (t.moveToNext m) := by
  have hpre := hat.toPre_succ hw
  obtain ⟨p, pre, post, nd, hctx, hg, hs, hL, hR⟩ := id hpre
  obtain ⟨hsh, hpar, hne, hm0, f', hf'⟩ := hctx.shape hw hg
  obtain ⟨hcore, _⟩ := he.node hg
  unfold BTree.moveToNext
  simp only [hcur, core_eq_hasChildren hcore]
  cases hch : nd.hasChildren with
  | true =>
    simp only [if_true]
    have : ¬ ((s : Int) + 1 < 0) := by omega
    simp only [this, if_false]
    have : ((s : Int) + 1).toNat = s + 1 := by omega
    rw [this]
    exact descendRight_spec hw _ t f m (s + 1) _ R he hp hpre (by
      have := (hctx.wf hw).1; simp [BTree.fuel, he.len]; omega) (fun nd' h' => by rw [hg] at h'; cases h'; left; exact hch)
  | false =>
    simp only [Bool.false_eq_true, if_false]
    have hgap : Gap t₀ f m (s + 1) (L ++ [x]) R :=
      hpre.toGap (fun nd' h' => by rw [hg] at h'; cases h'; exact leaf_child_zero hch _)
    have := climbRight_spec hw t.fuel t f m (s + 1) _ R he hp hgap (by simp [BTree.fuel, he.len]; omega)
    simpa using this

/-! ### backward -/

theorem climbLeft_spec {t₀ : BTree} (hw : WFR t₀) : ∀ (fuel : Nat) (t : BTree) (f : Nat) (m : NodeId) (s : Nat)
    (L R : List Item), HeapEq t₀ t → t.panicked = false → Pre t₀ f m s L R → t₀.nodes.length + 2 ≤ fuel + f →
    BwdResult t₀ L R (climbLeft fuel t m ((s : Int) - 1))
  | 0, t, f, m, s, L, R, he, hp, hpre, hfuel => by
    obtain ⟨p, pre, post, nd, hctx, _⟩ := hpre
    have := (hctx.wf hw).1; omega
  | fuel + 1, t, f, m, s, L, R, he, hp, hpre, hfuel => by
    obtain ⟨p, pre, post, nd, hctx, hg, hs, hL, hR⟩ := id hpre
    obtain ⟨hsh, hpar, hne, hm0, f', hf'⟩ := hctx.shape hw hg
    obtain ⟨hcore, _⟩ := he.node hg
    rw [climbLeft]
    cases s with
    | succ j =>
      have : ((j + 1 : Nat) : Int) - 1 ≥ 0 := by omega
      simp only [this, if_true]
      obtain ⟨L', x, hLx, hat⟩ := hpre.toAt_pred hw
      refine ⟨he.setCur _ _, hp, Or.inr ⟨rfl, f, m, j, L', x, hLx, ?_, hat⟩⟩
      simp only [BTree.setCur, Cursor.mk.injEq, and_true, true_and]
      omega
    | zero =>
      have : ¬ (((0 : Nat) : Int) - 1 ≥ 0) := by omega
      simp only [this, if_false, core_eq_isRoot hcore]
      by_cases hroot : nd.parent = 0
      · simp only [Node.isRoot, hroot, beq_self_eq_true, if_true]
        exact ⟨he.setCur _ _, hp, Or.inl ⟨hpre.root_start hw hg hroot, rfl, rfl⟩⟩
      · have : (nd.parent == 0) = false := by simpa using hroot
        simp only [Node.isRoot, this, Bool.false_eq_true, if_false]
        obtain ⟨pn, i, hgp, hi, hc, hc0, hpre', pp, pre', post', hctx'⟩ := hpre.up hw hg rfl hroot
        rw [parentOf_eq he hg hroot hgp]
        simp only [hroot, if_false]
        have hsp := getIndexOfChild_spec hw he hctx' hgp hi hc hc0 hp
        rcases hx : t.getIndexOfChild nd.parent m with ⟨t1, i1⟩
        rw [hx] at hsp
        obtain ⟨hi1, he1, hp1, _⟩ := hsp
        simp only at hi1 he1 hp1 ⊢
        subst hi1
        exact climbLeft_spec hw fuel t1 (f + 1) nd.parent i L R he1 hp1 hpre' (by omega)

theorem descendLeft_spec {t₀ : BTree} (hw : WFR t₀) : ∀ (fuel : Nat) (t : BTree) (f : Nat) (m : NodeId) (s : Nat)
    (L R : List Item), HeapEq t₀ t → t.panicked = false → Gap t₀ f m s L R → f ≤ fuel →
    (∀ nd, t₀.get? m = some nd → nd.hasChildren = true ∨ (s = nd.count ∧ 1 ≤ nd.count)) →
    BwdResult t₀ L R (descendLeft fuel t m (s : Int))
  | 0, t, f, m, s, L, R, he, hp, hgap, hfuel, hleaf => by
    obtain ⟨p, pre, post, nd, hctx, hg, _⟩ := hgap
    obtain ⟨_, _, _, _, f', hf'⟩ := hctx.shape hw hg
    omega
  | fuel + 1, t, f, m, s, L, R, he, hp, hgap, hfuel, hleaf => by
    obtain ⟨p, pre, post, nd, hctx, hg, hs, hL, hR⟩ := id hgap
    obtain ⟨hsh, hpar, hne, hm0, f', hf'⟩ := hctx.shape hw hg
    subst hf'
    obtain ⟨hcore, _⟩ := he.node hg
    rw [descendLeft]
    simp only [core_eq_hasChildren hcore, core_eq_child hcore]
    cases hch : nd.hasChildren with
    | true =>
      simp only [if_true]
      have : ¬ ((s : Int) < 0) := by omega
      simp only [this, if_false, Int.toNat_natCast]
      by_cases hc : nd.child s = 0
      · simp only [hc, beq_self_eq_true, if_true]
        have hpre : Pre t₀ (f' + 1) m s L R := hgap.toPre (fun nd' h' => by rw [hg] at h'; cases h'; exact hc)
        exact climbLeft_spec hw _ t (f' + 1) m s L R he hp hpre (by simp [BTree.fuel, he.len]; omega)
      · have : (nd.child s == 0) = false := by simpa using hc
        simp only [this, Bool.false_eq_true, if_false]
        obtain ⟨cn, hgc, hdown⟩ := hgap.down hw hg hc
        rw [childOf_eq he hg hc hgc]
        simp only [hc, if_false]
        obtain ⟨hcc, _⟩ := he.node hgc
        rw [(core_eq hcc).2.2.2.1]
        refine descendLeft_spec hw fuel t f' (nd.child s) cn.count L R he hp hdown (by omega) ?_
        intro cn' hgc'
        rw [hgc] at hgc'; cases hgc'
        obtain ⟨_, _, hne2, _⟩ := (Ctx.child hctx hg hs rfl hc).shape hw hgc
        cases hcc : cn.hasChildren with
        | true => left; rfl
        | false =>
          right
          rcases hne2 with h0 | h1
          · exact absurd h0 hm0
          · exact ⟨rfl, h1⟩
    | false =>
      simp only [Bool.false_eq_true, if_false]
      rcases hleaf nd hg with h1 | ⟨hs0, hc1⟩
      · rw [hch] at h1; exact absurd h1 (by simp)
      · have hpre : Pre t₀ (f' + 1) m s L R :=
          hgap.toPre (fun nd' h' => by rw [hg] at h'; cases h'; exact leaf_child_zero hch _)
        obtain ⟨j, rfl⟩ : ∃ j, s = j + 1 := ⟨s - 1, by omega⟩
        obtain ⟨L', x, hLx, hat⟩ := hpre.toAt_pred hw
        refine ⟨he.setCur _ _, hp, Or.inr ⟨rfl, f' + 1, m, j, L', x, hLx, ?_, hat⟩⟩
        simp only [BTree.setCur, Cursor.mk.injEq, and_true, true_and]
        omega

/-- `node.moveToPrevious` from the cursor position `(m, s)`: the cursor moves to the in-order predecessor -/
theorem moveToPrevious_spec {t₀ t : BTree} (hw : WFR t₀) (he : HeapEq t₀ t) (hp : t.panicked = false)
    {f : Nat} {m : NodeId} {s : Nat} {L R : List Item} (hat : At t₀ f m s L R)
    (hcur : t.cur.idx = (s : Int)) : BwdResult t₀ L R (t.moveToPrevious m) := by
  have hgap := hat.gap
  obtain ⟨p, pre, post, nd, hctx, hg, hs, hL, hR⟩ := id hgap
  obtain ⟨hsh, hpar, hne, hm0, f', hf'⟩ := hctx.shape hw hg
  obtain ⟨hcore, _⟩ := he.node hg
  unfold BTree.moveToPrevious
  simp only [hcur, core_eq_hasChildren hcore]
  cases hch : nd.hasChildren with
  | true =>
    simp only [if_true]
    exact descendLeft_spec hw _ t f m s L R he hp hgap (by
      have := (hctx.wf hw).1; simp [BTree.fuel, he.len]; omega) (fun nd' h' => by rw [hg] at h'; cases h'; left; exact hch)
  | false =>
    simp only [Bool.false_eq_true, if_false]
    have hpre : Pre t₀ f m s L R :=
      hgap.toPre (fun nd' h' => by rw [hg] at h'; cases h'; exact leaf_child_zero hch _)
    exact climbLeft_spec hw t.fuel t f m s L R he hp hpre (by simp [BTree.fuel, he.len]; omega)

/-! ### first / last -/

theorem moveToFirst_spec {t₀ : BTree} (hw : WFR t₀) : ∀ (fuel : Nat) (t : BTree) (f : Nat) (m : NodeId)
    (L R : List Item), HeapEq t₀ t → t.panicked = false → Pre t₀ f m 0 L R → f ≤ fuel → R ≠ [] →
    FwdResult t₀ L R (moveToFirstAux fuel t m)
  | 0, t, f, m, L, R, he, hp, hpre, hfuel, hR => by
    obtain ⟨p, pre, post, nd, hctx, hg, _⟩ := hpre
    obtain ⟨_, _, _, _, f', hf'⟩ := hctx.shape hw hg
    omega
  | fuel + 1, t, f, m, L, R, he, hp, hpre, hfuel, hRne => by
    obtain ⟨p, pre, post, nd, hctx, hg, hs, hL, hR⟩ := id hpre
    obtain ⟨hsh, hpar, hne, hm0, f', hf'⟩ := hctx.shape hw hg
    subst hf'
    obtain ⟨hcore, _⟩ := he.node hg
    -- the node is not empty when its first child is nil
    have hcount : nd.child 0 = 0 → 1 ≤ nd.count := by
      intro hc0
      rcases hne with h0 | h1
      · rcases hctx.up hw hg with ⟨_, _, hpost⟩ | ⟨_, hp0, _⟩
        · by_cases hc : 1 ≤ nd.count
          · exact hc
          · exfalso
            have hz : nd.count = 0 := by omega
            have : nd.post (A t₀) 0 = [] := by have := Node.post_count hsh (A t₀); rwa [hz] at this
            rw [hR, hc0, A_zero, this, hpost] at hRne
            exact hRne rfl
        · exact absurd h0 hp0
      · exact h1
    have hfin : nd.child 0 = 0 → FwdResult t₀ L R (t.setCur m 0, true) := by
      intro hc0
      have hgap : Gap t₀ (f' + 1) m 0 L R := hpre.toGap (fun nd' h' => by rw [hg] at h'; cases h'; exact hc0)
      exact ⟨he.setCur _ _, hp, Or.inr ⟨rfl, f' + 1, m, 0, rfl, hgap, nd, hg, hcount hc0⟩⟩
    rw [moveToFirstAux]
    simp only [core_eq_hasChildren hcore, core_eq_child hcore]
    cases hch : nd.hasChildren with
    | true =>
      simp only [if_true]
      by_cases hc : nd.child 0 = 0
      · simp only [hc, beq_self_eq_true, if_true]
        exact hfin hc
      · have : (nd.child 0 == 0) = false := by simpa using hc
        simp only [this, Bool.false_eq_true, if_false]
        obtain ⟨cn, hgc⟩ := hctx.kid_some hw hg hs hc
        obtain ⟨_, hsome⟩ := he.node hgc
        have : (t.get? (nd.child 0)).isNone = false := by
          cases h : t.get? (nd.child 0) with
          | none => rw [h] at hsome; simp at hsome
          | some _ => rfl
        simp only [this, Bool.false_eq_true, if_false]
        exact moveToFirst_spec hw fuel t f' (nd.child 0) L R he hp (hpre.down hw hg hc) (by omega) hRne
    | false =>
      simp only [Bool.false_eq_true, if_false]
      exact hfin (leaf_child_zero hch _)

theorem moveToLast_spec {t₀ : BTree} (hw : WFR t₀) : ∀ (fuel : Nat) (t : BTree) (f : Nat) (m : NodeId) (s : Nat)
    (L R : List Item), HeapEq t₀ t → t.panicked = false → Gap t₀ f m s L R → f ≤ fuel → L ≠ [] →
    (∀ nd, t₀.get? m = some nd → s = nd.count) →
    BwdResult t₀ L R (moveToLastAux fuel t m)
  | 0, t, f, m, s, L, R, he, hp, hgap, hfuel, hLne, hsc => by
    obtain ⟨p, pre, post, nd, hctx, hg, _⟩ := hgap
    obtain ⟨_, _, _, _, f', hf'⟩ := hctx.shape hw hg
    omega
  | fuel + 1, t, f, m, s, L, R, he, hp, hgap, hfuel, hLne, hsc => by
    obtain ⟨p, pre, post, nd, hctx, hg, hs, hL, hR⟩ := id hgap
    obtain ⟨hsh, hpar, hne, hm0, f', hf'⟩ := hctx.shape hw hg
    subst hf'
    have hsc' := hsc nd hg
    subst hsc'
    obtain ⟨hcore, _⟩ := he.node hg
    have hcnt : (t.get m).count = nd.count := (core_eq hcore).2.2.2.1
    have hcount : nd.child nd.count = 0 → 1 ≤ nd.count := by
      intro hc0
      rcases hne with h0 | h1
      · rcases hctx.up hw hg with ⟨_, hpre, _⟩ | ⟨_, hp0, _⟩
        · by_cases hc : 1 ≤ nd.count
          · exact hc
          · exfalso
            have hz : nd.count = 0 := by omega
            rw [hL, hc0, A_zero, hz, Node.pre_zero, hpre] at hLne
            exact hLne rfl
        · exact absurd h0 hp0
      · exact h1
    have hfin : nd.child nd.count = 0 → BwdResult t₀ L R (t.setCur m ((nd.count : Int) - 1), m != 0) := by
      intro hc0
      have hpre : Pre t₀ (f' + 1) m nd.count L R := hgap.toPre (fun nd' h' => by rw [hg] at h'; cases h'; exact hc0)
      have h1 := hcount hc0
      obtain ⟨j, hj⟩ : ∃ j, nd.count = j + 1 := ⟨nd.count - 1, by omega⟩
      rw [hj] at hpre
      obtain ⟨L', x, hLx, hat⟩ := hpre.toAt_pred hw
      refine ⟨he.setCur _ _, hp, Or.inr ⟨by simpa using hm0, f' + 1, m, j, L', x, hLx, ?_, hat⟩⟩
      simp only [BTree.setCur, Cursor.mk.injEq, and_true, true_and]
      omega
    rw [moveToLastAux]
    simp only [core_eq_hasChildren hcore, core_eq_child hcore, hcnt]
    cases hch : nd.hasChildren with
    | true =>
      simp only [if_true]
      by_cases hc : nd.child nd.count = 0
      · simp only [hc, beq_self_eq_true, if_true]
        exact hfin hc
      · have : (nd.child nd.count == 0) = false := by simpa using hc
        simp only [this, Bool.false_eq_true, if_false]
        obtain ⟨cn, hgc, hdown⟩ := hgap.down hw hg hc
        obtain ⟨_, hsome⟩ := he.node hgc
        have : (t.get? (nd.child nd.count)).isNone = false := by
          cases h : t.get? (nd.child nd.count) with
          | none => rw [h] at hsome; simp at hsome
          | some _ => rfl
        simp only [this, Bool.false_eq_true, if_false]
        exact moveToLast_spec hw fuel t f' (nd.child nd.count) cn.count L R he hp hdown (by omega) hLne
          (fun nd' h' => by rw [hgc] at h'; cases h'; rfl)
    | false =>
      simp only [Bool.false_eq_true, if_false]
      exact hfin (leaf_child_zero hch _)

end Sop.BTree
