import Sop.Lemmas.BlockCowSeq
/-! # Several writers on one registry block: what the per-block lock and the backup file guarantee

Model: `Sop.BlockCow.Actor.step` / `Sys.ev` (one step per lock / file operation, process deaths, lock expiry).
Here: the invariant that holds when every actor enters at `updateFileBlockRegion` (pc `lockPre`), i.e. when
all accesses to the block and its backup happen under the lock, and the backup is deleted BEFORE the unlock
(`late = false`). -/
namespace Sop.C22
open Sop.BlockCow

/-- the versions the block can take and the updates that are applied to it: every version has the block length and
a good checksum, updates lead from version to version, and the checksum detects every mixture of a version and its
successor (the hypothesis `Detects` of the sequential theorems, for every pair that occurs) -/
structure GoodSet (P : Params) (G : Block → Prop) (O : Nat → List Nat → Prop) : Prop where
  len : ∀ b, G b → b.length = P.n
  val : ∀ b, G b → valid P b = true
  cl : ∀ b off rec, G b → O off rec → G (newImage P b off rec)
  det : ∀ b off rec, G b → O off rec → Detects P b (newImage P b off rec)

/-- every reader is handed `b` and leaves the disk in such a state again (`Serves P b b`) -/
def Stable (P : Params) (b : Block) (d : Disk) : Prop :=
  d.blk = b ∨ (d.blk.length = P.n ∧ valid P d.blk = false ∧ d.cow = some b)

/-- program counters of an actor that is not inside `updateFileBlockRegion`'s critical section -/
def outside : WPc → Bool
  | .lockPre | .lockNo | .uPost | .done => true
  | _ => false

/-- what the lock holder's position says about the disk; `b` is the version before its update -/
def Sect (P : Params) (b : Block) (a : Actor) (d : Disk) : Prop :=
  match a.pc with
  | .lockOk | .bRead => Stable P b d
  | .bHave => a.buf = d.blk ∧ Stable P b d
  | .bRestore => a.buf = b ∧ Stable P b d
  | .bRestored | .cowNew => a.buf = b ∧ d.blk = b
  | .cowFill => a.buf = b ∧ d.blk = b ∧ d.cow.isSome = true
  | .wPre => a.buf = b ∧ a.img = newImage P b a.off a.rcd ∧ d.blk = b ∧ d.cow = some b
  | .wMid => a.img = newImage P b a.off a.rcd ∧ d.blk = torn b a.img a.cut ∧ d.cow = some b
  | .wPost => a.img = newImage P b a.off a.rcd ∧ d.blk = a.img
  | .uPre => a.img = newImage P b a.off a.rcd ∧ d.blk = a.img ∧ a.res = some .ok
  | _ => False

structure Inv (P : Params) (G : Block → Prop) (O : Nat → List Nat → Prop) (s : Sys) (b : Block) : Prop where
  good : G b
  ops : ∀ j, O (s.as j).off (s.as j).rcd
  out : ∀ j, s.sh.lock ≠ some j → outside (s.as j).pc = true ∨ (s.as j).dead = true
  free : s.sh.lock = none → Stable P b s.sh.disk
  held : ∀ i, s.sh.lock = some i → Sect P b (s.as i) s.sh.disk

theorem torn_take_drop (b img : Block) (c : Nat) (h : img.length = b.length) :
    (torn b img c).take c ++ img.drop c = img := by
  unfold torn
  by_cases hc : c ≤ img.length
  · rw [List.take_append_of_le_length (by simp [List.length_take]; omega)]
    rw [List.take_take, Nat.min_self, List.take_append_drop]
  · have e1 : List.take c img = img := List.take_of_length_le (by omega)
    have e2 : List.drop c b = [] := List.drop_of_length_le (by omega)
    have e3 : List.drop c img = [] := List.drop_of_length_le (by omega)
    rw [e1, e2, e3, List.append_nil, List.append_nil]
    exact List.take_of_length_le (by omega)

theorem torn_length (b img : Block) (c : Nat) (h : img.length = b.length) : (torn b img c).length = b.length := by
  unfold torn
  simp only [List.length_append, List.length_take, List.length_drop]; omega

/-- from the lock holder's invariant: which block every reader gets -/
theorem sect_view {P : Params} {G : Block → Prop} {O : Nat → List Nat → Prop} (hg : GoodSet P G O)
    {b : Block} (hb : G b) {a : Actor} (ho : O a.off a.rcd) {d : Disk} (h : Sect P b a d) :
    Stable P b d ∨ (a.img = newImage P b a.off a.rcd ∧ d.blk = a.img) := by
  have hl := hg.len b hb
  unfold Sect at h
  cases hp : a.pc <;> rw [hp] at h <;> simp only at h
  case lockOk => exact Or.inl h
  case bRead => exact Or.inl h
  case bHave => exact Or.inl h.2
  case bRestore => exact Or.inl h.2
  case bRestored => exact Or.inl (Or.inl h.2)
  case cowNew => exact Or.inl (Or.inl h.2)
  case cowFill => exact Or.inl (Or.inl h.2.1)
  case wPre => exact Or.inl (Or.inl h.2.2.1)
  case wMid =>
    obtain ⟨hi, hblk, hcow⟩ := h
    have hgi : G a.img := hi ▸ hg.cl b _ _ hb ho
    have hli : a.img.length = b.length := (hg.len _ hgi).trans hl.symm
    rcases hg.det b _ _ hb ho (torn b a.img a.cut) (hi ▸ mix_torn b a.img hli a.cut) with e | e | e
    · exact Or.inl (Or.inl (hblk.trans e))
    · exact Or.inr ⟨hi, hblk.trans (e.trans hi.symm)⟩
    · refine Or.inl (Or.inr ⟨?_, ?_, hcow⟩)
      · rw [hblk, torn_length b a.img a.cut hli, hl]
      · rw [hblk]; exact e
  case wPost => exact Or.inr h
  case uPre => exact Or.inr ⟨h.1, h.2.1⟩

theorem stable_len {P : Params} {G : Block → Prop} {O : Nat → List Nat → Prop} (hg : GoodSet P G O)
    {b : Block} (hb : G b) {d : Disk} (h : Stable P b d) : d.blk.length = P.n := by
  rcases h with e | ⟨e, _, _⟩
  · rw [e]; exact hg.len b hb
  · exact e

theorem checkCow_good {P : Params} {G : Block → Prop} {O : Nat → List Nat → Prop} (hg : GoodSet P G O)
    {b : Block} (hb : G b) : checkCow P (some b) = (b, true) := by
  have hl := hg.len b hb
  have hv := hg.val b hb
  have h4 := valid_len hv
  have hn : ¬ P.n = 0 := by omega
  simp [checkCow, hn, hl, hv]

/-- a step of the lock holder keeps its invariant, or is the unlock -/
theorem holder_step {P : Params} {G : Block → Prop} {O : Nat → List Nat → Prop} (hg : GoodSet P G O)
    {b : Block} (hb : G b) (i : Nat) (a : Actor) (d : Disk) (ho : O a.off a.rcd) (h : Sect P b a d) :
    (a.step P false i ⟨d, some i⟩).1.off = a.off ∧ (a.step P false i ⟨d, some i⟩).1.rcd = a.rcd ∧
    (a.step P false i ⟨d, some i⟩).1.dead = a.dead ∧
    (((a.step P false i ⟨d, some i⟩).2.lock = some i ∧
        Sect P b (a.step P false i ⟨d, some i⟩).1 (a.step P false i ⟨d, some i⟩).2.disk) ∨
     ((a.step P false i ⟨d, some i⟩).2.lock = none ∧ (a.step P false i ⟨d, some i⟩).1.pc = .uPost ∧
        (a.step P false i ⟨d, some i⟩).2.disk.blk = a.img ∧ a.img = newImage P b a.off a.rcd ∧
        a.pc = .uPre ∧ a.res = some .ok)) := by
  have hl := hg.len b hb
  have hv := hg.val b hb
  unfold Sect at h
  cases hp : a.pc <;> rw [hp] at h <;> simp only at h
  case lockOk => simp [Actor.step, hp, Sect, h]
  case bRead =>
    have := stable_len hg hb h
    simp [Actor.step, hp, Sect, h, this]
  case bHave =>
    obtain ⟨hbuf, hs⟩ := h
    by_cases hvb : valid P a.buf = true
    · rcases hs with e | ⟨_, e, _⟩
      · simp [Actor.step, hp, Sect, hbuf, e, hv]
      · rw [hbuf, e] at hvb; exact absurd hvb (by decide)
    · rcases hs with e | ⟨e1, e2, e3⟩
      · rw [hbuf, e, hv] at hvb; exact absurd rfl hvb
      · have hn : ¬ b = [] := by
          intro hb0; have := valid_len hv; rw [hb0] at this; simp at this
        simp [Actor.step, hp, Sect, hbuf, e3, checkCow_good hg hb, hn, Stable, e1, e2]
  case bRestore => simp [Actor.step, hp, Sect, h.1]
  case bRestored => simp [Actor.step, hp, Sect, h.1, h.2]
  case cowNew => simp [Actor.step, hp, Sect, h.1, h.2]
  case cowFill =>
    obtain ⟨h1, h2, h3⟩ := h
    obtain ⟨c, hc⟩ := Option.isSome_iff_exists.mp h3
    simp [Actor.step, hp, Sect, h1, h2, hc]
  case wPre => simp [Actor.step, hp, Sect, h.1, h.2.1, h.2.2.1, h.2.2.2, torn]
  case wMid =>
    obtain ⟨hi, hblk, hcow⟩ := h
    have hgi : G a.img := hi ▸ hg.cl b _ _ hb ho
    have hli : a.img.length = b.length := (hg.len _ hgi).trans hl.symm
    simp [Actor.step, hp, Sect, hi.symm, hblk, torn_take_drop b a.img a.cut hli]
  case wPost => simp [Actor.step, hp, Sect, h.1.symm, h.2]
  case uPre => simp [Actor.step, hp, h.1.symm, h.2.1, h.2.2]

/-- a step of an actor that is outside the critical section touches nothing but, possibly, the free lock -/
theorem outsider_step (P : Params) (i : Nat) (a : Actor) (sh : Shared) (hout : outside a.pc = true) :
    (a.step P false i sh).1.off = a.off ∧ (a.step P false i sh).1.rcd = a.rcd ∧
    (a.step P false i sh).1.dead = a.dead ∧ (a.step P false i sh).2.disk = sh.disk ∧
    (((a.step P false i sh).2.lock = sh.lock ∧ outside (a.step P false i sh).1.pc = true) ∨
     (sh.lock = none ∧ (a.step P false i sh).2.lock = some i ∧ (a.step P false i sh).1.pc = .lockOk)) := by
  cases hp : a.pc <;> rw [hp] at hout <;> simp [outside] at hout
  case lockPre =>
    cases hl : sh.lock <;> simp [Actor.step, hp, hl, outside]
  case lockNo => simp [Actor.step, hp, outside]
  case uPost => simp [Actor.step, hp, outside]
  case done => simp [Actor.step, hp, outside]

/-- the update an event acknowledges: a live actor holding the lock releases it after a complete block write -/
def ackOf (s : Sys) : Ev → Option Nat
  | .step i =>
    if (s.as i).dead = false ∧ (s.as i).pc = .uPre ∧ (s.as i).res = some .ok ∧ s.sh.lock = some i then some i
    else none
  | _ => none

/-- how the version every reader is handed moves with an event: not at all; or to the version updated by the
actor the event acknowledges; or, when the lock of a dead holder expires, possibly to the version with the dead
holder's update -/
def Trans (P : Params) (s : Sys) (e : Ev) (b b' : Block) : Prop :=
  (b' = b ∧ ackOf s e = none) ∨
  (∃ i, b' = newImage P b (s.as i).off (s.as i).rcd ∧
    (ackOf s e = some i ∨ (ackOf s e = none ∧ (s.as i).dead = true)))

theorem sect_dead (P : Params) (b : Block) (a : Actor) (d : Disk) (x : Bool) :
    Sect P b { a with dead := x } d = Sect P b a d := rfl

theorem inv_ev {P : Params} {G : Block → Prop} {O : Nat → List Nat → Prop} (hg : GoodSet P G O)
    {s : Sys} {b : Block} (h : Inv P G O s b) (e : Ev) :
    ∃ b', Inv P G O (s.ev P false e) b' ∧ Trans P s e b b' ∧
      ∀ j, ((s.ev P false e).as j).off = (s.as j).off ∧ ((s.ev P false e).as j).rcd = (s.as j).rcd := by
  cases e with
  | step i =>
    by_cases hd : (s.as i).dead = true
    · refine ⟨b, ?_, Or.inl ⟨rfl, ?_⟩, fun j => ?_⟩ <;> simp [Sys.ev, hd, ackOf]
      exact h
    · have hd' : (s.as i).dead = false := by simpa using hd
      by_cases hlk : s.sh.lock = some i
      · -- the lock holder
        have hsh : s.sh = ⟨s.sh.disk, some i⟩ := by
          cases hs : s.sh with | mk d l => simp [hs] at hlk; simp [hlk]
        have hst := holder_step hg h.good i (s.as i) s.sh.disk (h.ops i) (h.held i hlk)
        rw [← hsh] at hst
        obtain ⟨h1, h2, h3, h4⟩ := hst
        have hev : s.ev P false (.step i) = s.setActor i ((s.as i).step P false i s.sh).1 ((s.as i).step P false i s.sh).2 := by
          simp [Sys.ev, hd']
        have hoff : ∀ j, ((s.ev P false (.step i)).as j).off = (s.as j).off ∧ ((s.ev P false (.step i)).as j).rcd = (s.as j).rcd := by
          intro j
          rw [hev]
          by_cases hj : j = i
          · subst hj; simp [Sys.setActor, h1, h2]
          · simp [Sys.setActor, hj]
        rcases h4 with ⟨hl', hs'⟩ | ⟨hl', hpc', hblk', himg', hpc, hres⟩
        · refine ⟨b, ⟨h.good, ?_, ?_, ?_, ?_⟩, Or.inl ⟨rfl, ?_⟩, hoff⟩
          · intro j; rw [(hoff j).1, (hoff j).2]; exact h.ops j
          · intro j hj
            rw [hev] at hj ⊢
            have hji : j ≠ i := by intro e; subst e; exact hj (by simpa [Sys.setActor] using hl')
            have := h.out j (by rw [hlk]; intro e; exact hji (Option.some.inj e).symm)
            simpa [Sys.setActor, hji] using this
          · intro hf; rw [hev] at hf; simp [Sys.setActor, hl'] at hf
          · intro k hk
            rw [hev] at hk ⊢
            have : k = i := by simp [Sys.setActor, hl'] at hk; exact hk.symm
            subst this
            simpa [Sys.setActor] using hs'
          · have : ¬ (s.as i).pc = .uPre := by
              intro hp
              have := hs'
              -- the unlock step frees the lock
              simp [Actor.step, hp, hlk] at hl'
            simp [ackOf, this]
        · have hgi : G (s.as i).img := himg' ▸ hg.cl b _ _ h.good (h.ops i)
          refine ⟨(s.as i).img, ⟨hgi, ?_, ?_, ?_, ?_⟩, Or.inr ⟨i, himg', Or.inl ?_⟩, hoff⟩
          · intro j; rw [(hoff j).1, (hoff j).2]; exact h.ops j
          · intro j _
            rw [hev]
            by_cases hji : j = i
            · subst hji; simp [Sys.setActor, hpc', outside]
            · have := h.out j (by rw [hlk]; intro e; exact hji (Option.some.inj e).symm)
              simpa [Sys.setActor, hji] using this
          · intro _; rw [hev]; exact Or.inl (by simpa [Sys.setActor] using hblk')
          · intro k hk; rw [hev] at hk; simp [Sys.setActor, hl'] at hk
          · simp [ackOf, hd', hpc, hres, hlk]
      · -- an actor that does not hold the lock
        have hout : outside (s.as i).pc = true := by
          rcases h.out i hlk with e | e
          · exact e
          · exact absurd e hd
        obtain ⟨h1, h2, h3, h4, h5⟩ := outsider_step P i (s.as i) s.sh hout
        have hev : s.ev P false (.step i) = s.setActor i ((s.as i).step P false i s.sh).1 ((s.as i).step P false i s.sh).2 := by
          simp [Sys.ev, hd']
        have hoff : ∀ j, ((s.ev P false (.step i)).as j).off = (s.as j).off ∧ ((s.ev P false (.step i)).as j).rcd = (s.as j).rcd := by
          intro j
          rw [hev]
          by_cases hj : j = i
          · subst hj; simp [Sys.setActor, h1, h2]
          · simp [Sys.setActor, hj]
        have hack : ackOf s (.step i) = none := by simp [ackOf, hlk]
        refine ⟨b, ⟨h.good, ?_, ?_, ?_, ?_⟩, Or.inl ⟨rfl, hack⟩, hoff⟩
        · intro j; rw [(hoff j).1, (hoff j).2]; exact h.ops j
        · intro j hj
          rw [hev] at hj ⊢
          by_cases hji : j = i
          · subst hji
            rcases h5 with ⟨_, ho⟩ | ⟨_, hl', _⟩
            · left; simpa [Sys.setActor] using ho
            · exact absurd (by simpa [Sys.setActor] using hl') hj
          · have hj' : s.sh.lock ≠ some j := by
              rcases h5 with ⟨hl', _⟩ | ⟨hn, _, _⟩
              · rw [← hl']; simpa [Sys.setActor] using hj
              · rw [hn]; simp
            simpa [Sys.setActor, hji] using h.out j hj'
        · intro hf
          rw [hev] at hf ⊢
          rcases h5 with ⟨hl', _⟩ | ⟨_, hl', _⟩
          · have := h.free (by rw [← hl']; simpa [Sys.setActor] using hf)
            simpa [Sys.setActor, h4] using this
          · simp [Sys.setActor, hl'] at hf
        · intro k hk
          rw [hev] at hk ⊢
          rcases h5 with ⟨hl', _⟩ | ⟨hn, hl', hpc'⟩
          · have hk' : s.sh.lock = some k := by rw [← hl']; simpa [Sys.setActor] using hk
            have hki : k ≠ i := by intro e; subst e; exact hlk hk'
            have := h.held k hk'
            simpa [Sys.setActor, hki, h4] using this
          · have : k = i := by simp [Sys.setActor, hl'] at hk; exact hk.symm
            subst this
            have := h.free hn
            simp [Sys.setActor, Sect, hpc', h4, this]
  | kill i =>
    refine ⟨b, ⟨h.good, ?_, ?_, ?_, ?_⟩, Or.inl ⟨rfl, rfl⟩, ?_⟩
    · intro j; by_cases hj : j = i
      · subst hj; simpa [Sys.ev, Sys.setActor] using h.ops j
      · simpa [Sys.ev, Sys.setActor, hj] using h.ops j
    · intro j hj; by_cases hji : j = i
      · subst hji; right; simp [Sys.ev, Sys.setActor]
      · simpa [Sys.ev, Sys.setActor, hji] using h.out j (by simpa [Sys.ev, Sys.setActor] using hj)
    · intro hf; simpa [Sys.ev, Sys.setActor] using h.free (by simpa [Sys.ev, Sys.setActor] using hf)
    · intro k hk
      have := h.held k (by simpa [Sys.ev, Sys.setActor] using hk)
      by_cases hki : k = i
      · subst hki; simpa [Sys.ev, Sys.setActor, sect_dead] using this
      · simpa [Sys.ev, Sys.setActor, hki] using this
    · intro j; by_cases hj : j = i
      · subst hj; simp [Sys.ev, Sys.setActor]
      · simp [Sys.ev, Sys.setActor, hj]
  | killCow i k =>
    by_cases hc : (s.as i).pc = .wPre ∧ (s.as i).dead = false
    · have hlk : s.sh.lock = some i := by
        by_cases hn : s.sh.lock = some i
        · exact hn
        · rcases h.out i hn with e | e
          · rw [hc.1] at e; simp [outside] at e
          · rw [hc.2] at e; exact absurd e (by decide)
      have hs := h.held i hlk
      unfold Sect at hs
      rw [hc.1] at hs
      simp only at hs
      obtain ⟨hbuf, himg, hblk, hcow⟩ := hs
      refine ⟨b, ⟨h.good, ?_, ?_, ?_, ?_⟩, Or.inl ⟨rfl, rfl⟩, ?_⟩
      · intro j; by_cases hj : j = i
        · subst hj; simpa [Sys.ev, hc, Sys.setActor] using h.ops j
        · simpa [Sys.ev, hc, Sys.setActor, hj] using h.ops j
      · intro j hj; by_cases hji : j = i
        · subst hji; right; simp [Sys.ev, hc, Sys.setActor]
        · simpa [Sys.ev, hc, Sys.setActor, hji] using h.out j (by simpa [Sys.ev, hc, Sys.setActor] using hj)
      · intro hf; simp [Sys.ev, hc, Sys.setActor, hlk] at hf
      · intro k' hk
        have hk' : k' = i := by
          have : s.sh.lock = some k' := by simpa [Sys.ev, hc, Sys.setActor] using hk
          rw [hlk] at this; exact (Option.some.inj this).symm
        subst hk'
        simp [Sys.ev, hc, Sys.setActor, Sect, hbuf, hblk, hcow]
      · intro j; by_cases hj : j = i
        · subst hj; simp [Sys.ev, hc, Sys.setActor]
        · simp [Sys.ev, hc, Sys.setActor, hj]
    · refine ⟨b, ?_, Or.inl ⟨rfl, rfl⟩, fun j => ?_⟩ <;> simp [Sys.ev, hc]
      exact h
  | expire =>
    cases hl : s.sh.lock with
    | none =>
      refine ⟨b, ?_, Or.inl ⟨rfl, rfl⟩, fun j => ?_⟩ <;> simp [Sys.ev, hl]
      exact h
    | some hd =>
      by_cases hdead : (s.as hd).dead = true
      · have hev : s.ev P false .expire = ⟨{ s.sh with lock := none }, s.as⟩ := by simp [Sys.ev, hl, hdead]
        have hout : ∀ j, outside (s.as j).pc = true ∨ (s.as j).dead = true := by
          intro j
          by_cases hj : j = hd
          · subst hj; exact Or.inr hdead
          · exact h.out j (by rw [hl]; intro e; exact hj (Option.some.inj e).symm)
        rcases sect_view hg h.good (h.ops hd) (h.held hd hl) with hs | ⟨himg, hblk⟩
        · refine ⟨b, ⟨h.good, ?_, ?_, ?_, ?_⟩, Or.inl ⟨rfl, rfl⟩, fun j => by rw [hev]; exact ⟨rfl, rfl⟩⟩
          · rw [hev]; exact h.ops
          · intro j _; rw [hev]; exact hout j
          · intro _; rw [hev]; exact hs
          · intro k hk; rw [hev] at hk; simp at hk
        · have hgi : G (s.as hd).img := himg ▸ hg.cl b _ _ h.good (h.ops hd)
          refine ⟨(s.as hd).img, ⟨hgi, ?_, ?_, ?_, ?_⟩, Or.inr ⟨hd, himg, Or.inr ⟨rfl, hdead⟩⟩,
            fun j => by rw [hev]; exact ⟨rfl, rfl⟩⟩
          · rw [hev]; exact h.ops
          · intro j _; rw [hev]; exact hout j
          · intro _; rw [hev]; exact Or.inl hblk
          · intro k hk; rw [hev] at hk; simp at hk
      · refine ⟨b, ?_, Or.inl ⟨rfl, rfl⟩, fun j => ?_⟩ <;> simp [Sys.ev, hl, hdead]
        exact h

/-- the acknowledgements of a run, in order -/
def ackLog (P : Params) (late : Bool) : Sys → List Ev → List Nat
  | _, [] => []
  | s, e :: es => (ackOf s e).toList ++ ackLog P late (s.ev P late e) es

/-- `v0` with the updates of the actors `is` applied one after the other -/
def applyAll (P : Params) (ops : Nat → Nat × List Nat) (v0 : Block) (is : List Nat) : Block :=
  is.foldl (fun b i => newImage P b (ops i).1 (ops i).2) v0

theorem applyAll_snoc (P : Params) (ops : Nat → Nat × List Nat) (v0 : Block) (is : List Nat) (i : Nat) :
    applyAll P ops v0 (is ++ [i]) = newImage P (applyAll P ops v0 is) (ops i).1 (ops i).2 := by
  simp [applyAll, List.foldl_append]

theorem inv_run {P : Params} {G : Block → Prop} {O : Nat → List Nat → Prop} (hg : GoodSet P G O)
    (ops : Nat → Nat × List Nat) (v0 : Block) :
    ∀ (sched : List Ev) (s : Sys) (b : Block) (applied : List Nat),
      Inv P G O s b → (∀ j, (s.as j).off = (ops j).1 ∧ (s.as j).rcd = (ops j).2) → b = applyAll P ops v0 applied →
      ∃ b' ext, Inv P G O (s.run P false sched) b' ∧ b' = applyAll P ops v0 (applied ++ ext) ∧
        (ackLog P false s sched).Sublist ext ∧
        ∀ j, ((s.run P false sched).as j).off = (ops j).1 ∧ ((s.run P false sched).as j).rcd = (ops j).2 := by
  intro sched
  induction sched with
  | nil => intro s b applied h ho hb; exact ⟨b, [], h, by simpa using hb, by simp [ackLog], ho⟩
  | cons e es ih =>
    intro s b applied h ho hb
    obtain ⟨b1, h1, ht, hoff⟩ := inv_ev hg h e
    have ho1 : ∀ j, ((s.ev P false e).as j).off = (ops j).1 ∧ ((s.ev P false e).as j).rcd = (ops j).2 := by
      intro j; rw [(hoff j).1, (hoff j).2]; exact ho j
    rcases ht with ⟨e1, hack⟩ | ⟨i, e1, hack⟩
    · obtain ⟨b', ext, h', hb', hsub, ho'⟩ := ih (s.ev P false e) b1 applied h1 ho1 (e1 ▸ hb)
      exact ⟨b', ext, h', hb', by simpa [ackLog, hack] using hsub, ho'⟩
    · have hb1 : b1 = applyAll P ops v0 (applied ++ [i]) := by
        rw [applyAll_snoc, ← hb, e1, (ho i).1, (ho i).2]
      obtain ⟨b', ext, h', hb', hsub, ho'⟩ := ih (s.ev P false e) b1 (applied ++ [i]) h1 ho1 hb1
      refine ⟨b', i :: ext, h', by simpa using hb', ?_, ho'⟩
      rcases hack with hack | ⟨hack, _⟩
      · simpa [ackLog, hack] using hsub
      · simpa [ackLog, hack] using List.Sublist.cons i hsub

theorem stable_serves {P : Params} {b : Block} {d : Disk} (h : Stable P b d) : Serves P b b d := by
  rcases h with e | ⟨e1, e2, e3⟩
  · exact Or.inl e
  · exact Or.inr ⟨rfl, e1, e2, e3⟩

/-- what every later reader is handed, from the invariant -/
theorem inv_view {P : Params} {G : Block → Prop} {O : Nat → List Nat → Prop} (hg : GoodSet P G O)
    {s : Sys} {b : Block} (h : Inv P G O s b) :
    ∃ v, G v ∧ (v = b ∨ ∃ i, s.sh.lock = some i ∧ v = newImage P b (s.as i).off (s.as i).rcd) ∧
      ∀ rws, ∀ r ∈ readMany P rws s.sh.disk, r = .ok v := by
  have hl := hg.len b h.good
  have hv := hg.val b h.good
  cases hlk : s.sh.lock with
  | none =>
    exact ⟨b, h.good, Or.inl rfl, fun rws =>
      readMany_serves P b b hl hv hl hv rws _ (stable_serves (h.free hlk))⟩
  | some i =>
    rcases sect_view hg h.good (h.ops i) (h.held i hlk) with hs | ⟨himg, hblk⟩
    · exact ⟨b, h.good, Or.inl rfl, fun rws => readMany_serves P b b hl hv hl hv rws _ (stable_serves hs)⟩
    · have hgi : G (s.as i).img := himg ▸ hg.cl b _ _ h.good (h.ops i)
      exact ⟨(s.as i).img, hgi, Or.inr ⟨i, rfl, himg⟩, fun rws =>
        readMany_serves P b (s.as i).img hl hv (hg.len _ hgi) (hg.val _ hgi) rws _ (Or.inl hblk)⟩

/-! ### a later writer is not blocked -/

theorem step_dead (P : Params) (late : Bool) (i : Nat) (a : Actor) (sh : Shared) :
    (a.step P late i sh).1.dead = a.dead := by
  cases hp : a.pc <;> simp only [Actor.step, hp, Actor.afterFind] <;> (repeat' split) <;> simp_all

/-- actor `k` run alone -/
def soloN (P : Params) (k : Nat) : Nat → Actor × Shared → Actor × Shared
  | 0, x => x
  | n + 1, x => soloN P k n (x.1.step P false k x.2)

theorem soloN_dead (P : Params) (k : Nat) : ∀ (n : Nat) (x : Actor × Shared), (soloN P k n x).1.dead = x.1.dead := by
  intro n
  induction n with
  | zero => intro x; rfl
  | succ n ih => intro x; rw [soloN, ih, step_dead]

theorem run_solo (P : Params) (k : Nat) : ∀ (n : Nat) (s : Sys), (s.as k).dead = false →
    (Sys.run P false s (List.replicate n (.step k))).sh = (soloN P k n (s.as k, s.sh)).2 ∧
    (Sys.run P false s (List.replicate n (.step k))).as k = (soloN P k n (s.as k, s.sh)).1 := by
  intro n
  induction n with
  | zero => intro s _; exact ⟨rfl, rfl⟩
  | succ n ih =>
    intro s hd
    have hev : s.ev P false (.step k) = s.setActor k ((s.as k).step P false k s.sh).1 ((s.as k).step P false k s.sh).2 := by
      simp [Sys.ev, hd]
    have hd' : ((s.ev P false (.step k)).as k).dead = false := by
      rw [hev]; simp [Sys.setActor, step_dead, hd]
    have := ih (s.ev P false (.step k)) hd'
    simp only [List.replicate_succ, Sys.run, soloN]
    rw [this.1, this.2, hev]
    simp [Sys.setActor]

/-- from a free lock, a writer entering `updateFileBlockRegion` and running alone finishes in at most 12 steps,
acknowledged, with the block = the version every reader was handed + its update, no backup left, lock free -/
theorem solo_completes {P : Params} {G : Block → Prop} {O : Nat → List Nat → Prop} (hg : GoodSet P G O)
    {b : Block} (hb : G b) (k : Nat) (a : Actor) (d : Disk) (ho : O a.off a.rcd) (hpc : a.pc = .lockPre)
    (hs : Stable P b d) :
    (soloN P k 12 (a, ⟨d, none⟩)).1.pc = .done ∧ (soloN P k 12 (a, ⟨d, none⟩)).1.res = some .ok ∧
    (soloN P k 12 (a, ⟨d, none⟩)).2 = ⟨⟨newImage P b a.off a.rcd, none⟩, none⟩ := by
  have hl := hg.len b hb
  have hv := hg.val b hb
  have hgi := hg.cl b _ _ hb ho
  have hli : (newImage P b a.off a.rcd).length = b.length := (hg.len _ hgi).trans hl.symm
  have htd := torn_take_drop b (newImage P b a.off a.rcd) a.cut hli
  unfold torn at htd
  obtain ⟨blk, cow⟩ := d
  rcases hs with e | ⟨e1, e2, e3⟩
  · simp only at e
    subst e
    simp [soloN, Actor.step, hpc, hl, hv, htd]
  · simp only at e1 e2 e3
    subst e3
    have hP : ¬ P.n = 0 := by have := valid_len hv; omega
    simp [soloN, Actor.step, hpc, e1, e2, hl, htd, checkCow_good hg hb, hP]

/-! ### the slot choice of the step-wise actor (`plan`) is the one of the atomic operations -/

section Plan
open Sop.Handle

/-- what `plan` feeds `updateFileBlockRegion` with is what the atomic form of the operation does -/
def viaPlan (P : Params) (rd : Bool → Disk → Res × Disk) (d : Disk) (op : WOp) : OpRes × Disk :=
  match rd true d with
  | (.err, d') => (.err, d')
  | (.ok buf, d') =>
    match plan op buf with
    | .inl r => (r, d')
    | .inr (off, rec) =>
      match updateBlockW P rd d' off rec with
      | (.err, d'') => (.err, d'')
      | (.ok _, d'') => (.ok, d'')

theorem setOpW_plan (P : Params) (rd : Bool → Disk → Res × Disk) (d : Disk) (h : Handle) :
    setOpW P rd d h = viaPlan P rd d (.set h) := by
  unfold setOpW viaPlan
  cases hr : rd true d with
  | mk r d' =>
    cases r with
    | err => rfl
    | ok buf =>
      simp only [plan]
      cases hf : findInBlock true buf h.lid (idealOff h.lid) with
      | found off h0 => simp only; split <;> first | rfl | (split <;> split <;> simp_all)
      | free off => simp only; split <;> split <;> simp_all
      | nextSegment => simp
      | err => simp

theorem addOpW_plan (P : Params) (rd : Bool → Disk → Res × Disk) (d : Disk) (h : Handle) :
    addOpW P rd d h = viaPlan P rd d (.add h) := by
  unfold addOpW viaPlan
  cases hr : rd true d with
  | mk r d' =>
    cases r with
    | err => rfl
    | ok buf =>
      simp only [plan]
      cases hf : findInBlock true buf h.lid (idealOff h.lid) with
      | found off h0 => simp only; split <;> first | rfl | (split <;> split <;> simp_all)
      | free off => simp only; split <;> split <;> simp_all
      | nextSegment => simp
      | err => simp

theorem rmOpW_plan (P : Params) (rd : Bool → Disk → Res × Disk) (d : Disk) (id : List Nat) :
    rmOpW P rd d id = viaPlan P rd d (.rm id) := by
  unfold rmOpW viaPlan
  cases hr : rd true d with
  | mk r d' =>
    cases r with
    | err => rfl
    | ok buf =>
      simp only [plan]
      cases hf : findInBlock true buf id (idealOff id) with
      | found off h0 => simp only; split <;> first | rfl | (split <;> split <;> simp_all)
      | free off => simp
      | nextSegment => simp
      | err => simp
end Plan

end Sop.C22
