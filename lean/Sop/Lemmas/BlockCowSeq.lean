import Sop.Model.BlockCow
/-! # Definitions and lemmas for C22 with a dead writer and sequential readers
(`Mix`, `Crash`, `Detects`, `Serves`, `readMany`); the theorems are in `Sop/Props/C22.lean`. -/
namespace Sop.C22
open Sop.BlockCow

/-- `t` is a byte-wise mixture of `old` and `new` -/
def Mix (old new t : Block) : Prop :=
  t.length = old.length ∧ ∀ i : Nat, t[i]? = old[i]? ∨ t[i]? = new[i]?

/-- the disk states a writer that dies can leave behind -/
inductive Crash (old new : Block) : Disk → Prop
  | before : Crash old new ⟨old, none⟩
  | cowPartial (k : Nat) : Crash old new ⟨old, some (old.take k)⟩
  | tornWrite (t : Block) : Mix old new t → Crash old new ⟨t, some old⟩
  | after : Crash old new ⟨new, none⟩

/-- checksum-detection hypothesis: a mixture that is neither image fails the checksum -/
def Detects (P : Params) (old new : Block) : Prop :=
  ∀ t, Mix old new t → t = old ∨ t = new ∨ valid P t = false

/-! ### the crash states of the design document are instances -/

theorem mix_old (old new : Block) : Mix old new old := ⟨rfl, fun _ => Or.inl rfl⟩

theorem mix_new (old new : Block) (h : new.length = old.length) : Mix old new new := ⟨h, fun _ => Or.inr rfl⟩

/-- the first `L` bytes of `new` over `old` is a mixture, for every `L` -/
theorem mix_torn (old new : Block) (h : new.length = old.length) (L : Nat) : Mix old new (torn old new L) := by
  unfold torn
  constructor
  · simp only [List.length_append, List.length_take, List.length_drop]; omega
  · intro i
    by_cases hi : i < L
    · right
      by_cases hn : i < new.length
      · rw [List.getElem?_append_left (by simp only [List.length_take]; omega)]
        simp [hi]
      · have h1 : (List.take L new ++ List.drop L old).length ≤ i := by
          simp only [List.length_append, List.length_take, List.length_drop]; omega
        rw [List.getElem?_eq_none_iff.mpr h1, List.getElem?_eq_none_iff.mpr (by omega)]
    · left
      by_cases hL : L ≤ new.length
      · rw [List.getElem?_append_right (by simp only [List.length_take]; omega)]
        simp only [List.length_take, List.getElem?_drop, Nat.min_eq_left hL]
        congr 1; omega
      · have e1 : List.take L new = new := List.take_of_length_le (by omega)
        have e2 : List.drop L old = [] := List.drop_of_length_le (by omega)
        rw [e1, e2, List.append_nil, List.getElem?_eq_none_iff.mpr (by omega), List.getElem?_eq_none_iff.mpr (by omega)]

theorem crash_torn (old new : Block) (h : new.length = old.length) (L : Nat) :
    Crash old new ⟨torn old new L, some old⟩ := Crash.tornWrite _ (mix_torn old new h L)

/-- a restoring write of `old` that is itself torn (a reader dies, or is observed, half way) leaves a mixture again -/
theorem mix_restore (old new t t' : Block) (h : Mix old new t) (h' : Mix t old t') : Mix old new t' := by
  refine ⟨h'.1.trans h.1, fun i => ?_⟩
  rcases h'.2 i with e | e
  · rw [e]; exact h.2 i
  · exact Or.inl e

theorem valid_len {P : Params} {b : Block} (h : valid P b = true) : 4 ≤ b.length := by
  unfold valid at h
  by_cases hl : b.length < 4
  · simp [hl] at h
  · omega

/-- results of readers that run one after the other (each with its own read-write flag) -/
def readMany (P : Params) : List Bool → Disk → List Res
  | [], _ => []
  | rw :: rest, d => (readAndRestore P rw d).1 :: readMany P rest (readAndRestore P rw d).2

/-- the disk is in a state from which every reader is served `b` -/
def Serves (P : Params) (old b : Block) (d : Disk) : Prop :=
  d.blk = b ∨ (b = old ∧ d.blk.length = P.n ∧ valid P d.blk = false ∧ d.cow = some old)

theorem serves_read (P : Params) (old b : Block) (hlo : old.length = P.n) (hold : valid P old = true)
    (hlb : b.length = P.n) (hvb : valid P b = true) (d : Disk) (h : Serves P old b d) (rw : Bool) :
    (readAndRestore P rw d).1 = .ok b ∧ Serves P old b (readAndRestore P rw d).2 := by
  rcases h with e | ⟨eb, hl, hv, hc⟩
  · obtain ⟨blk, cow⟩ := d
    simp only at e
    subst e
    simp [readAndRestore, hlb, hvb, Serves]
  · obtain ⟨blk, cow⟩ := d
    simp only at hl hv hc
    subst hc eb
    have h4 := valid_len hold
    have hP : ¬ P.n = 0 := by omega
    cases rw <;> simp [readAndRestore, hl, hv, checkCow, hlo, hold, hP, Serves]

theorem crash_serves (P : Params) (old new : Block) (hlo : old.length = P.n)
    (hdet : Detects P old new) (c : Disk) (hc : Crash old new c) :
    ∃ b, (b = old ∨ b = new) ∧ Serves P old b c := by
  cases hc with
  | before => exact ⟨old, Or.inl rfl, Or.inl rfl⟩
  | cowPartial k => exact ⟨old, Or.inl rfl, Or.inl rfl⟩
  | after => exact ⟨new, Or.inr rfl, Or.inl rfl⟩
  | tornWrite t hm =>
    rcases hdet t hm with e | e | e
    · exact ⟨old, Or.inl rfl, Or.inl e⟩
    · exact ⟨new, Or.inr rfl, Or.inl e⟩
    · exact ⟨old, Or.inl rfl, Or.inr ⟨rfl, hm.1.trans hlo, e, rfl⟩⟩

theorem readMany_serves (P : Params) (old b : Block) (hlo : old.length = P.n) (hold : valid P old = true)
    (hlb : b.length = P.n) (hvb : valid P b = true) (rws : List Bool) :
    ∀ d, Serves P old b d → ∀ r ∈ readMany P rws d, r = .ok b := by
  induction rws with
  | nil => intro d _ r hr; simp [readMany] at hr
  | cons rw rest ih =>
    intro d hs r hr
    have h1 := serves_read P old b hlo hold hlb hvb d hs rw
    simp only [readMany, List.mem_cons] at hr
    rcases hr with e | hr
    · rw [e]; exact h1.1
    · exact ih _ h1.2 r hr

end Sop.C22
