import Sop.Model.Commit
/-!
Lemmas about Model P's pure parts: the Handle methods, the per-handle reservation / flip / undo functions,
and how registry and blob updates move a reader's `view`. Used by the property files C01, C03, C07, C10, C11, C37.
-/
namespace Sop.Commit

/-! ## Handle algebra -/

theorem Handle.flip_active (h : Handle) : h.flip.active = h.inactive := by
  unfold Handle.flip Handle.active Handle.inactive; cases h.activeB <;> simp

theorem Handle.flip_inactive (h : Handle) : h.flip.inactive = h.active := by
  unfold Handle.flip Handle.active Handle.inactive; cases h.activeB <;> simp

theorem Handle.allocate_spec (h h' : Handle) (f : UUID) (now : Int) (e : h.allocate f now = some h') :
    h'.lid = h.lid ∧ h'.active = h.active ∧ h'.inactive = f ∧ h'.version = h.version ∧ h'.deleted = h.deleted
      ∧ h'.activeB = h.activeB ∧ h'.wip = now := by
  unfold Handle.allocate at e
  unfold Handle.bothInUse at e
  unfold Handle.active Handle.inactive
  cases hb : h.activeB <;> simp [hb] at e ⊢
  · obtain ⟨_, rfl⟩ := e
    simp [hb]
  · obtain ⟨_, rfl⟩ := e
    simp [hb]

theorem Handle.clearInactive_spec (h : Handle) :
    h.clearInactive.lid = h.lid ∧ h.clearInactive.active = h.active ∧ h.clearInactive.inactive = 0
      ∧ h.clearInactive.version = h.version ∧ h.clearInactive.wip = 0 ∧ h.clearInactive.deleted = h.deleted := by
  unfold Handle.clearInactive Handle.active Handle.inactive
  cases h.activeB <;> simp

/-- **reservation is invisible**: whatever branch `commitUpdatedNodes` takes for a handle, the reserved image has
the same logical id, the same ACTIVE physical id and the same version; the new id sits in the inactive slot. -/
theorem reserveOne_spec (now hour : Int) (f : UUID) (h h' : Handle) (v : Int)
    (e : reserveOne now hour f h v = some h') :
    h'.lid = h.lid ∧ h'.active = h.active ∧ h'.version = h.version ∧ h'.inactive = f ∧ h.version = v
      ∧ h'.deleted = false ∧ h'.wip = now := by
  unfold reserveOne at e
  split at e
  · simp at e
  · rename_i hc
    simp only [Bool.or_eq_true, Bool.and_eq_true, Bool.not_eq_true', bne_iff_ne, ne_eq, not_or, not_and,
      Bool.not_eq_false, Decidable.not_not] at hc
    obtain ⟨hdel, hver⟩ := hc
    -- the handle after the "expired delete mark is cleared" adjustment
    generalize hg : (if (h.deleted && h.expiredInactive now hour) = true then { h with deleted := false } else h) = g at e
    have gl : g.lid = h.lid ∧ g.active = h.active ∧ g.version = h.version ∧ g.idA = h.idA ∧ g.idB = h.idB
        ∧ g.activeB = h.activeB ∧ g.wip = h.wip ∧ g.deleted = false := by
      subst hg
      by_cases hd : h.deleted = true
      · have := hdel hd
        simp [hd, this, Handle.active]
      · have hd' : h.deleted = false := by simpa using hd
        simp [hd', Handle.active]
    obtain ⟨g1, g2, g3, g4, g5, g6, g7, g8⟩ := gl
    dsimp only at e
    split at e
    · rename_i h1 ha
      have e' : h1 = h' := by simpa using e
      subst e'
      obtain ⟨a1, a2, a3, a4, a5, a6, a7⟩ := Handle.allocate_spec g h1 f now ha
      exact ⟨a1.trans g1, a2.trans g2, a4.trans g3, a3, hver, a5.trans g8, a7⟩
    · split at e
      · obtain ⟨c1, c2, c3, c4, c5, c6⟩ := Handle.clearInactive_spec g
        obtain ⟨a1, a2, a3, a4, a5, a6, a7⟩ := Handle.allocate_spec g.clearInactive h' f now e
        exact ⟨(a1.trans c1).trans g1, (a2.trans c2).trans g2, (a4.trans c4).trans g3, a3, hver, (a5.trans c6).trans g8, a7⟩
      · simp at e

/-- the flip of `activateInactiveNodes`: the staged id becomes the active one, the version goes up by one -/
theorem activate_spec (h : Handle) :
    (activate h).lid = h.lid ∧ (activate h).active = h.inactive ∧ (activate h).inactive = h.active
      ∧ (activate h).version = h.version + 1 ∧ (activate h).wip = 1 := by
  unfold activate
  refine ⟨rfl, ?_, ?_, rfl, rfl⟩
  · have := Handle.flip_active h
    unfold Handle.active Handle.flip at *; simpa using this
  · have := Handle.flip_inactive h
    unfold Handle.inactive Handle.flip Handle.active at *; simpa using this

/-- undoing a reservation (`rollbackUpdatedNodes`) gives back the pre-reservation image up to the cleared slot -/
theorem undo_reserve (now hour : Int) (f : UUID) (h h' : Handle) (v : Int)
    (e : reserveOne now hour f h v = some h') :
    h'.clearInactive.lid = h.lid ∧ h'.clearInactive.active = h.active ∧ h'.clearInactive.version = h.version
      ∧ h'.clearInactive.inactive = 0 ∧ h'.clearInactive.wip = 0 := by
  obtain ⟨r1, r2, r3, _, _, _, _⟩ := reserveOne_spec now hour f h h' v e
  obtain ⟨c1, c2, c3, c4, c5, _⟩ := Handle.clearInactive_spec h'
  exact ⟨c1.trans r1, c2.trans r2, c4.trans r3, c3, c5⟩

/-! ## Registry / blob updates and the reader's view -/

@[simp] theorem State.setReg_reg (s : State) (h : Handle) (k : UUID) :
    (s.setReg h).reg k = if k = h.lid then some h else s.reg k := rfl
@[simp] theorem State.setReg_blob (s : State) (h : Handle) : (s.setReg h).blob = s.blob := rfl
@[simp] theorem State.setReg_cnt (s : State) (h : Handle) : (s.setReg h).cnt = s.cnt := rfl
@[simp] theorem State.setBlob_reg (s : State) (i : UUID) (b : Bool) : (s.setBlob i b).reg = s.reg := rfl
@[simp] theorem State.setBlob_blob (s : State) (i : UUID) (b : Bool) (k : UUID) :
    (s.setBlob i b).blob k = if k = i then b else s.blob k := rfl
@[simp] theorem State.delReg_reg (s : State) (i k : UUID) : (s.delReg i).reg k = if k = i then none else s.reg k := rfl
@[simp] theorem State.delReg_blob (s : State) (i : UUID) : (s.delReg i).blob = s.blob := rfl

theorem State.setRegs_blob (s : State) (hs : List Handle) : (s.setRegs hs).blob = s.blob := by
  unfold State.setRegs
  induction hs generalizing s with
  | nil => rfl
  | cons h t ih => simp [List.foldl_cons, ih]

theorem State.setRegs_cnt (s : State) (hs : List Handle) : (s.setRegs hs).cnt = s.cnt := by
  unfold State.setRegs
  induction hs generalizing s with
  | nil => rfl
  | cons h t ih => simp [List.foldl_cons, ih]

theorem State.addBlobs_reg (s : State) (ids : List UUID) : (s.addBlobs ids).reg = s.reg := by
  unfold State.addBlobs
  induction ids generalizing s with
  | nil => rfl
  | cons h t ih => simp [List.foldl_cons, ih]

theorem State.delBlobs_reg (s : State) (ids : List UUID) : (s.delBlobs ids).reg = s.reg := by
  unfold State.delBlobs
  induction ids generalizing s with
  | nil => rfl
  | cons h t ih => simp [List.foldl_cons, ih]

theorem State.addBlobs_blob (s : State) (ids : List UUID) (k : UUID) :
    (s.addBlobs ids).blob k = (s.blob k || decide (k ∈ ids)) := by
  unfold State.addBlobs
  induction ids generalizing s with
  | nil => simp
  | cons h t ih =>
    simp only [List.foldl_cons, ih, State.setBlob_blob, List.mem_cons]
    by_cases e : k = h <;> simp [e]

theorem State.delBlobs_blob (s : State) (ids : List UUID) (k : UUID) :
    (s.delBlobs ids).blob k = (s.blob k && !decide (k ∈ ids)) := by
  unfold State.delBlobs
  induction ids generalizing s with
  | nil => simp
  | cons h t ih =>
    simp only [List.foldl_cons, ih, State.setBlob_blob, List.mem_cons]
    by_cases e : k = h <;> simp [e]

/-- registry lookup after a batch write: the LAST image written for that logical id, else the old entry -/
theorem State.setRegs_reg_of_not_mem (s : State) (hs : List Handle) (k : UUID) (hk : ∀ h ∈ hs, h.lid ≠ k) :
    (s.setRegs hs).reg k = s.reg k := by
  unfold State.setRegs
  induction hs generalizing s with
  | nil => rfl
  | cons h t ih =>
    simp only [List.foldl_cons]
    rw [ih _ (fun x hx => hk x (List.mem_cons_of_mem _ hx))]
    have := hk h (List.mem_cons_self ..)
    simp [State.setReg_reg, Ne.symm this]

theorem State.setRegs_reg_mem (s : State) (hs : List Handle) (k : UUID) (hk : ∃ h ∈ hs, h.lid = k) :
    ∃ h ∈ hs, h.lid = k ∧ (s.setRegs hs).reg k = some h := by
  unfold State.setRegs
  induction hs generalizing s with
  | nil => simp at hk
  | cons h t ih =>
    simp only [List.foldl_cons]
    by_cases ht : ∃ x ∈ t, x.lid = k
    · obtain ⟨x, hx, e1, e2⟩ := ih (s.setReg h) ht
      exact ⟨x, List.mem_cons_of_mem _ hx, e1, e2⟩
    · have hnot : ∀ x ∈ t, x.lid ≠ k := fun x hx e => ht ⟨x, hx, e⟩
      obtain ⟨x, hx, ex⟩ := hk
      have hxh : x = h := by
        rcases List.mem_cons.mp hx with r | r
        · exact r
        · exact absurd ex (hnot x r)
      subst hxh
      refine ⟨x, List.mem_cons_self .., ex, ?_⟩
      have := State.setRegs_reg_of_not_mem (s.setReg x) t k hnot
      unfold State.setRegs at this
      rw [this]; simp [State.setReg_reg, ex]

/-- **a batch of registry images that keep every handle's active id and version leaves every reader's view
unchanged**, provided no blob is removed (this is the registry half of "staging is invisible") -/
theorem view_setRegs_same (s : State) (hs : List Handle) (lid : UUID)
    (hsame : ∀ h' ∈ hs, ∃ h, s.reg h'.lid = some h ∧ h'.active = h.active ∧ h'.version = h.version) :
    (s.setRegs hs).view lid = s.view lid := by
  unfold State.view
  rw [State.setRegs_blob]
  by_cases hk : ∃ h ∈ hs, h.lid = lid
  · obtain ⟨h', hm, e1, e2⟩ := State.setRegs_reg_mem s hs lid hk
    obtain ⟨h, r1, r2, r3⟩ := hsame h' hm
    rw [e2]; rw [e1] at r1; rw [r1]
    simp [r2, r3]
  · have hnot : ∀ x ∈ hs, x.lid ≠ lid := fun x hx e => hk ⟨x, hx, e⟩
    rw [State.setRegs_reg_of_not_mem s hs lid hnot]

/-- adding blobs never hides anything; it can only make a previously unloadable node loadable -/
theorem view_addBlobs_of_loadable (s : State) (ids : List UUID) (lid : UUID) (hl : (s.view lid).isSome) :
    (s.addBlobs ids).view lid = s.view lid := by
  unfold State.view at *
  rw [State.addBlobs_reg]
  cases hr : s.reg lid with
  | none => rfl
  | some h =>
    rw [hr] at hl
    simp only [State.addBlobs_blob]
    by_cases hb : s.blob h.active = true
    · simp [hb]
    · simp [hb] at hl

/-- removing blobs that are nobody's active id leaves every view unchanged -/
theorem view_delBlobs_of_inactive (s : State) (ids : List UUID) (lid : UUID)
    (hin : ∀ h, s.reg lid = some h → h.active ∉ ids) :
    (s.delBlobs ids).view lid = s.view lid := by
  unfold State.view
  rw [State.delBlobs_reg]
  cases hr : s.reg lid with
  | none => rfl
  | some h =>
    simp only [State.delBlobs_blob]
    have := hin h hr
    simp [this]

end Sop.Commit
