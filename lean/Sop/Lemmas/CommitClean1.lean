import Sop.Lemmas.CommitPhase2After
/-!
C07 "no blockage", tools. Two generic preservation families over Model P's monad:

* `XFrame K I`: `I` looks only at the transaction id, its node keys, the node-lock table and the registry entries of
  the logical ids in `K` (and says the run has no observer stop point and is not halted). Every function of the model
  whose calls leave those alone keeps `I`, whatever fails.
* `SP0`: the run's single fault has been spent and there is no observer: every later call takes effect, so the
  error handling cannot fail (except where the backend itself reports an error: removing a log file that is not there).
-/
namespace Sop.Commit
set_option linter.unusedSectionVars false

/-! ### state lemmas: the node-lock table is touched by lock calls only -/

theorem State.setRegs_nodeLock (s : State) (hs : List Handle) : (s.setRegs hs).nodeLock = s.nodeLock := by
  unfold State.setRegs
  induction hs generalizing s with
  | nil => rfl
  | cons h t ih => simp only [List.foldl_cons, ih]; rfl

theorem State.delRegs_nodeLock (s : State) (ids : List UUID) : (s.delRegs ids).nodeLock = s.nodeLock := by
  unfold State.delRegs
  induction ids generalizing s with
  | nil => rfl
  | cons h t ih => simp only [List.foldl_cons, ih]; rfl

theorem State.addBlobs_nodeLock (s : State) (ids : List UUID) : (s.addBlobs ids).nodeLock = s.nodeLock := by
  unfold State.addBlobs
  induction ids generalizing s with
  | nil => rfl
  | cons h t ih => simp only [List.foldl_cons, ih]; rfl

theorem State.delBlobs_nodeLock (s : State) (ids : List UUID) : (s.delBlobs ids).nodeLock = s.nodeLock := by
  unfold State.delBlobs
  induction ids generalizing s with
  | nil => rfl
  | cons h t ih => simp only [List.foldl_cons, ih]; rfl

theorem foldl_addCnt_nodeLock (ds : List (Nat × Int)) (s : State) :
    (ds.foldl (fun s (x : Nat × Int) => match x with | (st, d) => s.addCnt st d) s).nodeLock = s.nodeLock := by
  induction ds generalizing s with
  | nil => rfl
  | cons x t ih =>
    simp only [List.foldl_cons]
    rw [ih]
    obtain ⟨st, d⟩ := x
    rfl

theorem State.delRegs_reg_mono (s : State) (ids : List UUID) (k : UUID) :
    (s.delRegs ids).reg k = s.reg k ∨ (s.delRegs ids).reg k = none := by
  cases h : (s.delRegs ids).reg k with
  | none => exact .inr rfl
  | some x => exact .inl (State.delRegs_reg_sub s ids k x h).symm

/-! ### the master call rule: every exit knows why it was taken, and the call counter is the real one -/

theorem Triple.callFull {P : Run → Prop} {Q : Unit → Run → Prop} {E : Run → Prop}
    (cls : Cls) (args : Args) (eff : State → State) (res : Args) (nat : State → Bool)
    (hok : ∀ r tr, P r → Q () { r with occs := (bumpOcc r.occs cls).1, trace := tr, s := eff r.s })
    (hstop : ∀ r occs, P r → r.stopAt.isSome → E { r with occs := occs, halted := true })
    (hnat : ∀ r tr, P r → nat r.s = true → E { r with occs := (bumpOcc r.occs cls).1, trace := tr })
    (hbefore : ∀ r tr f, P r → r.fault = some f → f.cls = cls → f.kind = .failBefore → f.occ = (bumpOcc r.occs cls).2 →
      E { r with occs := (bumpOcc r.occs cls).1, trace := tr })
    (hafter : ∀ r tr f, P r → r.fault = some f → f.cls = cls → f.kind = .failAfter → f.occ = (bumpOcc r.occs cls).2 →
      E { r with occs := (bumpOcc r.occs cls).1, trace := tr, s := eff r.s }) :
    Triple P (Sop.Commit.call cls args eff res nat) Q E := by
  intro r hr
  unfold Sop.Commit.call
  simp only
  by_cases hs : (r.stopAt == some (cls, (bumpOcc r.occs cls).2)) = true
  · simp only [hs, ↓reduceIte]
    refine hstop r _ hr ?_
    cases h : r.stopAt with
    | none => rw [h] at hs; simp at hs
    | some _ => rfl
  · simp only [hs]
    cases hf : faultHit r.fault cls (bumpOcc r.occs cls).2 with
    | none =>
      by_cases hn : nat r.s = true
      · simp only [hn, ↓reduceIte]
        exact hnat r _ hr hn
      · simp only [hn]
        exact hok r _ hr
    | some k =>
      have key : ∃ f, r.fault = some f ∧ f.cls = cls ∧ f.kind = k ∧ f.occ = (bumpOcc r.occs cls).2 := by
        unfold faultHit at hf
        cases hfa : r.fault with
        | none => rw [hfa] at hf; simp at hf
        | some f =>
          rw [hfa] at hf
          simp only at hf
          split at hf
          · rename_i hc
            simp only [Bool.and_eq_true, beq_iff_eq] at hc
            exact ⟨f, rfl, hc.1, Option.some.inj hf, hc.2⟩
          · cases hf
      obtain ⟨f, hfa, h1, h2, h3⟩ := key
      cases k with
      | failBefore => exact hbefore r _ f hr hfa h1 h2 h3
      | failAfter => exact hafter r _ f hr hfa h1 h2 h3

/-- the fault that has just fired is spent -/
theorem spent_of_hit {r : Run} {f : Fault} {cls : Cls} (hfa : r.fault = some f) (h1 : f.cls = cls)
    (h3 : f.occ = (bumpOcc r.occs cls).2) {r' : Run} (ef : r'.fault = r.fault) (eo : r'.occs = (bumpOcc r.occs cls).1) :
    Spent r' := by
  intro g hg
  rw [ef, hfa] at hg
  have : g = f := (Option.some.inj hg).symm
  subst this
  rw [eo, lookup_bump, h1, if_pos rfl, h3, bumpOcc_snd]
  omega

/-- making one more call keeps a spent fault spent -/
theorem spent_bump {r : Run} (hs : Spent r) (cls : Cls) {r' : Run} (ef : r'.fault = r.fault)
    (eo : r'.occs = (bumpOcc r.occs cls).1) : Spent r' := by
  intro g hg
  rw [ef] at hg
  have := hs g hg
  rw [eo, lookup_bump]
  split
  · rename_i h; rw [h] at this; omega
  · exact this

/-! ### `XFrame` -/

/-- no observer: no stop point set, not halted -/
def NS (r : Run) : Prop := r.stopAt = none ∧ r.halted = false

class XFrame (K : outParam (List UUID)) (I : Run → Prop) : Prop where
  ns : ∀ r, I r → NS r
  frame : ∀ r r' : Run, I r → r'.stopAt = r.stopAt → r'.halted = r.halted → r'.tid = r.tid → r'.nodesKeys = r.nodesKeys →
    r'.s.nodeLock = r.s.nodeLock → (∀ k ∈ K, r'.s.reg k = r.s.reg k ∨ r'.s.reg k = none) → I r'

instance : XFrame [] NS where
  ns _ h := h
  frame _ _ h a b _ _ _ _ := ⟨a ▸ h.1, b ▸ h.2⟩

section
variable {K : List UUID} {I : Run → Prop} [xf : XFrame K I]
include xf

theorem X.pure {E : Run → Prop} (a : α) : Triple I (Pure.pure a : M α) (fun _ => I) E := Triple.pure a (fun _ h => h)
theorem X.fail : Preserves I (fail : M α) := Triple.fail (fun _ h => h)
theorem X.bind {E : Run → Prop} {m : M α} {f : α → M β} (hm : Triple I m (fun _ => I) E)
    (hf : ∀ a, Triple I (f a) (fun _ => I) E) : Triple I (m >>= f) (fun _ => I) E := Triple.bind hm hf
theorem X.get {E : Run → Prop} : Triple I get (fun _ => I) E := Triple.get (fun _ h => h)
theorem X.getS {E : Run → Prop} : Triple I getS (fun _ => I) E := Triple.getS (fun _ h => h)
theorem X.modify {E : Run → Prop} (f : Run → Run)
    (h : ∀ r, (f r).s = r.s ∧ (f r).stopAt = r.stopAt ∧ (f r).halted = r.halted ∧ (f r).tid = r.tid ∧ (f r).nodesKeys = r.nodesKeys) :
    Triple I (modify f) (fun _ => I) E :=
  Triple.modify f (fun r hr => by
    obtain ⟨a, b, c, d, e⟩ := h r
    exact XFrame.frame r _ hr b c d e (by rw [a]) (fun k _ => .inl (by rw [a])))
/-- under an `XFrame` invariant `attempt` never raises -/
theorem X.attempt {E : Run → Prop} {m : M Unit} (h : Preserves I m) : Triple I (attempt m) (fun _ => I) E :=
  Triple.attempt' (Q := fun _ => I) h (fun r hr hh => by have := (XFrame.ns r hr).2; rw [this] at hh; cases hh)
theorem X.forIn {E : Run → Prop} (xs : List β) (f : β → Unit → M (ForInStep Unit))
    (hf : ∀ x, Triple I (f x ()) (fun _ => I) E) : Triple I (forIn xs () f) (fun _ => I) E := Triple.forIn xs f hf
theorem X.whenM {E : Run → Prop} (c : Bool) {m : M Unit} (h : Triple I m (fun _ => I) E) : Triple I (whenM c m) (fun _ => I) E := by
  unfold Sop.Commit.whenM; split
  · exact h
  · exact X.pure _

/-- a call whose effect keeps the invariant (the effect may or may not be applied) -/
theorem X.callEff (cls : Cls) (args : Args) (eff : State → State) (res : Args) (nat : State → Bool)
    (h : ∀ r occs tr, I r → I { r with occs := occs, trace := tr, s := eff r.s }) :
    Preserves I (Sop.Commit.call cls args eff res nat) :=
  Triple.call' cls args eff res nat (fun r o t hr => h r o t hr)
    (fun r _ hr hs => by have := (XFrame.ns r hr).1; rw [this] at hs; cases hs)
    (fun r _ _ hr => XFrame.frame r _ hr rfl rfl rfl rfl rfl (fun _ _ => .inl rfl))
    (fun r o t hr _ => h r o t hr)

/-- a call that leaves the node locks alone and, on the ids in `K`, at most deletes registry entries -/
theorem X.callMono (cls : Cls) (args : Args) (eff : State → State) (res : Args) (nat : State → Bool)
    (h : ∀ s, (eff s).nodeLock = s.nodeLock ∧ ∀ k ∈ K, (eff s).reg k = s.reg k ∨ (eff s).reg k = none) :
    Preserves I (Sop.Commit.call cls args eff res nat) :=
  X.callEff cls args eff res nat (fun r _ _ hr => XFrame.frame r _ hr rfl rfl rfl rfl (h r.s).1 (h r.s).2)

macro "x_auto" : tactic => `(tactic| repeat (first
  | exact X.pure _ | exact X.fail | exact X.get | exact X.getS
  | exact X.callMono _ _ _ _ _ (fun s => ⟨rfl, fun _ _ => .inl rfl⟩)
  | exact X.modify _ (fun r => ⟨rfl, rfl, rfl, rfl, rfl⟩)
  | refine X.bind ?_ (fun _ => ?_)
  | refine X.forIn _ _ (fun _ => ?_)
  | refine X.attempt ?_
  | refine X.whenM _ ?_
  | split))

theorem x_logStep (st : Step) : Preserves I (logStep st) := by
  unfold logStep
  refine X.bind (X.modify _ (fun r => ⟨rfl, rfl, rfl, rfl, rfl⟩)) (fun _ => ?_)
  x_auto
theorem x_lockItems (w : WS) : Preserves I (lockItems w) := by unfold lockItems; x_auto
theorem x_unlockItems (w : WS) : Preserves I (unlockItems w) := by unfold unlockItems; x_auto
theorem x_checkItems (w : WS) : Preserves I (checkItems w) := by unfold checkItems; x_auto
theorem x_regGet (ids : List UUID) : Preserves I (regGet ids) := by unfold regGet; x_auto
theorem x_dropNodeCache {E : Run → Prop} (ids : List UUID) : Triple I (dropNodeCache ids) (fun _ => I) E := by
  unfold dropNodeCache; x_auto

theorem x_fetchedIntact (w : WS) : Preserves I (fetchedIntact w) := by
  unfold fetchedIntact
  simp only
  split
  · exact X.pure _
  · exact X.bind (x_regGet _) (fun _ => X.pure _)

theorem x_commitStores (w : WS) : Preserves I (commitStores w) := by
  unfold commitStores
  simp only
  split
  · exact X.pure _
  · exact X.callMono _ _ _ _ _ (fun s => ⟨foldl_addCnt_nodeLock _ s, fun k _ => .inl (by rw [(foldl_addCnt_same _ s).1])⟩)

theorem x_rollbackStores {E : Run → Prop} (w : WS) : Triple I (rollbackStores w) (fun _ => I) E := by
  unfold rollbackStores
  simp only
  split
  · exact X.pure _
  · refine X.bind (X.attempt ?_) (fun _ => X.pure _)
    exact X.callMono _ _ _ _ _ (fun s => ⟨foldl_addCnt_nodeLock _ s, fun k _ => .inl (by rw [(foldl_addCnt_same _ s).1])⟩)

theorem x_addValues (w : WS) : Preserves I (addValues w) := by
  unfold addValues
  refine X.bind (X.forIn _ _ (fun st => ?_)) (fun _ => X.pure _)
  refine X.bind (X.whenM _ (X.callMono _ _ _ _ _ (fun s => ⟨State.addBlobs_nodeLock _ _, fun k _ => .inl (by rw [State.addBlobs_reg])⟩)))
    (fun _ => X.pure _)

theorem x_rollbackValues {E : Run → Prop} (w : WS) : Triple I (rollbackValues w) (fun _ => I) E := by
  unfold rollbackValues
  refine X.bind (X.forIn _ _ (fun st => ?_)) (fun _ => X.pure _)
  refine X.bind (X.whenM _ ?_) (fun _ => X.pure _)
  refine X.bind (X.attempt (X.callMono _ _ _ _ _ (fun s => ⟨State.delBlobs_nodeLock _ _, fun k _ => .inl (by rw [State.delBlobs_reg])⟩)))
    (fun _ => X.pure _)

theorem x_rollbackAdded {E : Run → Prop} (w : WS) : Triple I (rollbackAdded w) (fun _ => I) E := by
  unfold rollbackAdded
  simp only
  split
  · exact X.pure _
  · refine X.bind (X.attempt (X.callMono _ _ _ _ _ (fun s => ⟨State.delBlobs_nodeLock _ _, fun k _ => .inl (by rw [State.delBlobs_reg])⟩))) (fun _ => ?_)
    refine X.bind (X.attempt (X.callMono _ _ _ _ _ (fun s => ⟨State.delRegs_nodeLock _ _, fun k _ => State.delRegs_reg_mono _ _ _⟩))) (fun _ => ?_)
    exact x_dropNodeCache _

theorem x_rollbackNewRoots {E : Run → Prop} (w : WS) : Triple I (rollbackNewRoots w) (fun _ => I) E := by
  unfold rollbackNewRoots
  simp only
  split
  · exact X.pure _
  · refine X.bind (X.attempt (X.callMono _ _ _ _ _ (fun s => ⟨State.delBlobs_nodeLock _ _, fun k _ => .inl (by rw [State.delBlobs_reg])⟩))) (fun _ => ?_)
    refine X.bind (x_dropNodeCache _) (fun _ => ?_)
    refine X.bind (X.attempt (X.bind (x_regGet _) (fun _ => X.pure _))) (fun ok => ?_)
    split
    · exact X.pure _
    · refine X.bind X.getS (fun s => ?_)
      split
      · exact X.bind (X.attempt (X.callMono _ _ _ _ _ (fun s => ⟨State.delRegs_nodeLock _ _, fun k _ => State.delRegs_reg_mono _ _ _⟩))) (fun _ => X.pure _)
      · exact X.pure _

theorem x_removeCreatedStores {E : Run → Prop} (w : WS) : Triple I (removeCreatedStores w) (fun _ => I) E := by
  unfold removeCreatedStores
  refine X.bind (X.forIn _ _ (fun st => ?_)) (fun _ => X.pure _)
  refine X.bind (X.whenM _ ?_) (fun _ => X.pure _)
  refine X.bind (X.attempt (X.callMono _ _ _ _ _ (fun s => ⟨?_, fun k _ => ?_⟩))) (fun _ => X.pure _)
  · show ((s.delRegs (st.root ++ st.added)).delBlobs (st.root ++ st.added)).nodeLock = s.nodeLock
    rw [State.delBlobs_nodeLock, State.delRegs_nodeLock]
  · show ((s.delRegs (st.root ++ st.added)).delBlobs (st.root ++ st.added)).reg k = s.reg k ∨
      ((s.delRegs (st.root ++ st.added)).delBlobs (st.root ++ st.added)).reg k = none
    rw [State.delBlobs_reg]
    exact State.delRegs_reg_mono _ _ _

end

/-! ### `SP0`: the fault is spent and nobody observes -/

def SP0 (r : Run) : Prop := Spent r ∧ r.stopAt = none ∧ r.halted = false

section
variable {E : Run → Prop}

theorem S.pure (a : α) : Triple SP0 (Pure.pure a : M α) (fun _ => SP0) E := Triple.pure a (fun _ h => h)
theorem S.bind {m : M α} {f : α → M β} (hm : Triple SP0 m (fun _ => SP0) E)
    (hf : ∀ a, Triple SP0 (f a) (fun _ => SP0) E) : Triple SP0 (m >>= f) (fun _ => SP0) E := Triple.bind hm hf
theorem S.get : Triple SP0 get (fun _ => SP0) E := Triple.get (fun _ h => h)
theorem S.getS : Triple SP0 getS (fun _ => SP0) E := Triple.getS (fun _ h => h)
theorem S.modify (f : Run → Run)
    (h : ∀ r, (f r).fault = r.fault ∧ (f r).occs = r.occs ∧ (f r).stopAt = r.stopAt ∧ (f r).halted = r.halted) :
    Triple SP0 (modify f) (fun _ => SP0) E :=
  Triple.modify f (fun r hr => by
    obtain ⟨a, b, c, d⟩ := h r
    refine ⟨?_, c ▸ hr.2.1, d ▸ hr.2.2⟩
    intro g hg
    rw [a] at hg; rw [b]; exact hr.1 g hg)
theorem S.forIn (xs : List β) (f : β → Unit → M (ForInStep Unit))
    (hf : ∀ x, Triple SP0 (f x ()) (fun _ => SP0) E) : Triple SP0 (forIn xs () f) (fun _ => SP0) E := Triple.forIn xs f hf
theorem S.whenM (c : Bool) {m : M Unit} (h : Triple SP0 m (fun _ => SP0) E) : Triple SP0 (whenM c m) (fun _ => SP0) E := by
  unfold Sop.Commit.whenM; split
  · exact h
  · exact S.pure _
/-- any call: it takes effect, or the backend itself reports an error -/
theorem S.call (cls : Cls) (args : Args) (eff : State → State) (res : Args) (nat : State → Bool) :
    Preserves SP0 (Sop.Commit.call cls args eff res nat) :=
  Triple.callFull cls args eff res nat
    (fun r _ hr => ⟨spent_bump hr.1 cls rfl rfl, hr.2⟩)
    (fun r _ hr hs => by rw [hr.2.1] at hs; cases hs)
    (fun r _ hr _ => ⟨spent_bump hr.1 cls rfl rfl, hr.2⟩)
    (fun r _ _ hr _ _ _ _ => ⟨spent_bump hr.1 cls rfl rfl, hr.2⟩)
    (fun r _ _ hr _ _ _ _ => ⟨spent_bump hr.1 cls rfl rfl, hr.2⟩)
/-- a call of a backend with no error of its own: it takes effect -/
theorem S.callOk (cls : Cls) (args : Args) (eff : State → State) (res : Args) :
    Triple SP0 (Sop.Commit.call cls args eff res) (fun _ => SP0) E :=
  Triple.callOk cls args eff res (fun _ h => ⟨h.1, h.2.1⟩) (fun _ _ _ h hs => ⟨hs, h.2⟩)
/-- `attempt` never raises here -/
theorem S.attempt {m : M Unit} (h : Preserves SP0 m) : Triple SP0 (attempt m) (fun _ => SP0) E :=
  Triple.attempt' (Q := fun _ => SP0) h (fun r hr hh => by rw [hr.2.2] at hh; cases hh)

end

macro "sp_auto" : tactic => `(tactic| repeat (first
  | exact S.pure _ | exact S.get | exact S.getS
  | exact S.callOk _ _ _ _
  | exact S.call _ _ _ _ _
  | exact S.modify _ (fun r => ⟨rfl, rfl, rfl, rfl⟩)
  | refine S.bind ?_ (fun _ => ?_)
  | refine S.forIn _ _ (fun _ => ?_)
  | refine S.attempt ?_
  | refine S.whenM _ ?_
  | split))

/-- never raises once the fault is spent -/
abbrev NoRaise (m : M α) : Prop := Triple SP0 m (fun _ => SP0) (fun _ => False)

theorem nr_logStep (st : Step) : NoRaise (logStep st) := by unfold logStep; sp_auto
theorem nr_regGet (ids : List UUID) : NoRaise (regGet ids) := by unfold regGet; sp_auto
theorem nr_unlockItems (w : WS) : NoRaise (unlockItems w) := by unfold unlockItems; sp_auto
theorem nr_unlockKeys (ids : List UUID) : NoRaise (unlockKeys ids) := by unfold unlockKeys; sp_auto
theorem nr_unlockNodesKeys : NoRaise unlockNodesKeys := by unfold unlockNodesKeys unlockKeys; sp_auto
theorem nr_dropNodeCache (ids : List UUID) : NoRaise (dropNodeCache ids) := by unfold dropNodeCache; sp_auto
theorem nr_rollbackStores (w : WS) : NoRaise (rollbackStores w) := by unfold rollbackStores; simp only; sp_auto
theorem nr_rollbackAdded (w : WS) : NoRaise (rollbackAdded w) := by unfold rollbackAdded dropNodeCache; simp only; sp_auto
theorem nr_rollbackRemoved (w : WS) : NoRaise (rollbackRemoved w) := by unfold rollbackRemoved regGet; simp only; sp_auto
theorem nr_rollbackUpdated (w : WS) : NoRaise (rollbackUpdated w) := by unfold rollbackUpdated regGet dropNodeCache; simp only; sp_auto
theorem nr_rollbackNewRoots (w : WS) : NoRaise (rollbackNewRoots w) := by unfold rollbackNewRoots regGet dropNodeCache; simp only; sp_auto
theorem nr_rollbackValues (w : WS) : NoRaise (rollbackValues w) := by unfold rollbackValues; sp_auto
theorem nr_removeCreatedStores (w : WS) : NoRaise (removeCreatedStores w) := by unfold removeCreatedStores; sp_auto
theorem nr_priorityRollbackSelf : NoRaise priorityRollbackSelf := by unfold priorityRollbackSelf; sp_auto

end Sop.Commit
