import Sop.Lemmas.CommitClean1
/-!
C07 "no blockage", the live rollback once the fault is spent: `rollbackUpdatedNodes` clears every reservation,
`unlockNodesKeys` releases every node lock, and nothing after them brings either back.
-/
namespace Sop.Commit
set_option linter.unusedSectionVars false

/-- logical ids of the nodes the write set updates -/
def WS.updIds (w : WS) : List UUID := w.updated.map (·.1)

/-- every node lock of transaction `tid` is on one of the node keys it remembers -/
def LockI (tid : Tid) (r : Run) : Prop := NS r ∧ r.tid = tid ∧ ∀ k, r.s.nodeLock k = some tid → k ∈ keysOrEmpty r

/-- transaction `tid` holds no node lock -/
def NoLockI (tid : Tid) (r : Run) : Prop := NS r ∧ r.tid = tid ∧ ∀ k, r.s.nodeLock k ≠ some tid

/-- no updated node's handle carries a reservation: inactive id empty, work-in-progress timestamp 0 -/
def CleanAt (w : WS) (s : State) : Prop :=
  ∀ lid ∈ w.updIds, ∀ g, s.reg lid = some g → g.lid = lid → g.inactive = 0 ∧ g.wip = 0

def CleanI (w : WS) (r : Run) : Prop := NS r ∧ CleanAt w r.s

/-- the end state of a clean failure: no node lock of `tid`, no reservation on an updated node -/
def Done (w : WS) (tid : Tid) (r : Run) : Prop := NoLockI tid r ∧ CleanAt w r.s

instance (tid : Tid) : XFrame [] (LockI tid) where
  ns _ h := h.1
  frame r r' h a b c d e _ := by
    refine ⟨⟨a ▸ h.1.1, b ▸ h.1.2⟩, c ▸ h.2.1, ?_⟩
    intro k hk
    rw [e] at hk
    unfold keysOrEmpty; rw [d]
    exact h.2.2 k hk

instance (tid : Tid) : XFrame [] (NoLockI tid) where
  ns _ h := h.1
  frame r r' h a b c _ e _ := ⟨⟨a ▸ h.1.1, b ▸ h.1.2⟩, c ▸ h.2.1, fun k => by rw [e]; exact h.2.2 k⟩

theorem CleanAt.mono {w : WS} {s s' : State} (h : CleanAt w s)
    (hm : ∀ k ∈ w.updIds, s'.reg k = s.reg k ∨ s'.reg k = none) : CleanAt w s' := by
  intro lid hl g hg e
  rcases hm lid hl with a | a
  · rw [a] at hg; exact h lid hl g hg e
  · rw [a] at hg; cases hg

instance (w : WS) : XFrame w.updIds (CleanI w) where
  ns _ h := h.1
  frame r r' h a b _ _ _ f := ⟨⟨a ▸ h.1.1, b ▸ h.1.2⟩, h.2.mono f⟩

instance (w : WS) (tid : Tid) : XFrame w.updIds (Done w tid) where
  ns _ h := h.1.1
  frame r r' h a b c d e f :=
    ⟨XFrame.frame (K := []) r r' h.1 a b c d e (fun _ hk => by cases hk), h.2.mono f⟩

theorem SP0.ns {r : Run} (h : SP0 r) : NS r := h.2

/-! ### generic helpers -/

theorem Triple.whenM' {P : Run → Prop} {E : Run → Prop} (c : Bool) {m : M Unit} (h : Triple P m (fun _ => P) E) :
    Triple P (whenM c m) (fun _ => P) E := by
  unfold Sop.Commit.whenM; split
  · exact h
  · exact Triple.pure _ (fun _ h => h)

/-- once the fault is spent, an attempted call (of a backend with no error of its own) takes effect -/
theorem attempt_ok {P Q' E : Run → Prop} (cls : Cls) (args : Args) (eff : State → State) (res : Args)
    (hP : ∀ r, P r → Spent r ∧ r.stopAt = none)
    (hok : ∀ r occs tr, P r → Spent { r with occs := occs, trace := tr, s := eff r.s } →
      Q' { r with occs := occs, trace := tr, s := eff r.s }) :
    Triple P (attempt (Sop.Commit.call cls args eff res)) (fun _ => Q') E := by
  refine Triple.conseq (Q' := fun b r => b = true ∧ Q' r) (E' := E) ?_ (fun _ h => h) (fun _ _ h => h.2) (fun _ h => h)
  refine Triple.attempt' (Q := fun b r => b = true ∧ Q' r) ?_ (fun _ h _ => by cases h.1)
  exact Triple.callOk cls args eff res hP (fun r o t h hs => ⟨rfl, hok r o t h hs⟩)

/-- two preservation facts about the same program, the first of which says it never raises -/
theorem Triple.andNR {P1 P2 : Run → Prop} {E E2 : Run → Prop} {m : M α}
    (h1 : Triple P1 m (fun _ => P1) (fun _ => False)) (h2 : Triple P2 m (fun _ => P2) E2) :
    Triple (fun r => P1 r ∧ P2 r) m (fun _ r => P1 r ∧ P2 r) E :=
  Triple.conseq (Triple.and h1 h2) (fun _ h => h) (fun _ _ h => h) (fun _ h => h.1.elim)

/-! ### the registry-writing undo steps leave the node locks alone -/

section
variable {I : Run → Prop} [xf : XFrame [] I]
include xf

theorem x0_setRegs {E : Run → Prop} (cls : Cls) (hs : List Handle) (args res : Args) :
    Triple I (attempt (Sop.Commit.call cls args (fun s => s.setRegs hs) res)) (fun _ => I) E :=
  X.attempt (X.callMono _ _ _ _ _ (fun s => ⟨State.setRegs_nodeLock _ _, fun _ hk => by cases hk⟩))

theorem x0_rollbackRemoved {E : Run → Prop} (w : WS) : Triple I (rollbackRemoved w) (fun _ => I) E := by
  unfold rollbackRemoved
  simp only
  split
  · exact X.pure _
  · refine X.bind (X.attempt (X.bind (x_regGet _) (fun _ => X.pure _))) (fun ok => ?_)
    split
    · exact X.pure _
    · refine X.bind X.getS (fun s => ?_)
      refine X.bind X.get (fun r => ?_)
      split
      · exact X.bind (x0_setRegs _ _ _ _) (fun _ => X.pure _)
      · exact X.bind (x0_setRegs _ _ _ _) (fun _ => X.pure _)

theorem x0_rollbackUpdated (w : WS) : Preserves I (rollbackUpdated w) := by
  unfold rollbackUpdated
  simp only
  split
  · exact X.pure _
  · refine X.bind (x_regGet _) (fun hs => ?_)
    refine X.bind (X.attempt (X.callMono _ _ _ _ _ (fun s => ⟨State.delBlobs_nodeLock _ _, fun _ hk => by cases hk⟩))) (fun _ => ?_)
    refine X.bind X.get (fun r => ?_)
    split
    · exact X.bind (x0_setRegs _ _ _ _) (fun _ => x_dropNodeCache _)
    · exact X.bind (x0_setRegs _ _ _ _) (fun _ => x_dropNodeCache _)

end

/-! ### `rollbackUpdatedNodes`, fault spent: every reservation is cleared -/

/-- what `rollbackUpdatedNodes` writes for a handle -/
def clr (h : Handle) : Handle := if h.inactive = 0 then { h with wip := 0 } else h.clearInactive

theorem clr_spec (h : Handle) : (clr h).lid = h.lid ∧ (clr h).inactive = 0 ∧ (clr h).wip = 0 := by
  unfold clr
  split
  · rename_i hz
    refine ⟨rfl, ?_, rfl⟩
    unfold Handle.inactive at hz ⊢
    exact hz
  · obtain ⟨c1, _, c3, _, c5, _⟩ := Handle.clearInactive_spec h
    exact ⟨c1, c3, c5⟩

theorem cleanAt_setRegs (w : WS) (s : State) :
    CleanAt w (s.setRegs ((w.updIds.filterMap s.reg).map clr)) := by
  intro lid hl g hg e
  by_cases hx : ∃ x ∈ (w.updIds.filterMap s.reg).map clr, x.lid = lid
  · obtain ⟨x, hxm, _, e2⟩ := State.setRegs_reg_mem s _ lid hx
    rw [e2] at hg; cases hg
    obtain ⟨h, _, rfl⟩ := List.mem_map.mp hxm
    exact ⟨(clr_spec h).2.1, (clr_spec h).2.2⟩
  · rw [State.setRegs_reg_of_not_mem s _ lid (fun x hxm e' => hx ⟨x, hxm, e'⟩)] at hg
    refine absurd ⟨clr g, List.mem_map_of_mem (List.mem_filterMap.mpr ⟨lid, hl, hg⟩), ?_⟩ hx
    rw [(clr_spec g).1]; exact e

theorem regGet_spent (ids : List UUID) :
    Triple SP0 (regGet ids) (fun hs r => SP0 r ∧ hs = ids.filterMap r.s.reg) (fun _ => False) := by
  unfold regGet
  refine Triple.bind (Q1 := fun s r => SP0 r ∧ s = r.s) (Triple.getS (fun _ h => ⟨h, rfl⟩)) (fun s => ?_)
  refine Triple.bind (Q1 := fun _ r => SP0 r ∧ s = r.s) ?_ (fun _ => Triple.pure _ (fun r h => ⟨h.1, by rw [h.2]⟩))
  exact Triple.callOk _ _ _ _ (fun _ h => ⟨h.1.1, h.1.2.1⟩) (fun r _ _ h hs => ⟨⟨hs, h.1.2⟩, h.2⟩)

theorem rollbackUpdated_cleans (w : WS) :
    Triple SP0 (rollbackUpdated w) (fun _ => CleanI w) (fun _ => False) := by
  unfold rollbackUpdated
  simp only
  split
  · rename_i hemp
    refine Triple.pure _ (fun r h => ⟨h.ns, ?_⟩)
    intro lid hl
    unfold WS.updIds at hl
    rw [List.isEmpty_iff.mp hemp] at hl
    cases hl
  · refine Triple.bind (regGet_spent _) (fun hs => ?_)
    refine Triple.bind (Q1 := fun _ r => SP0 r ∧ hs = (w.updated.map (·.1)).filterMap r.s.reg) ?_ (fun _ => ?_)
    · exact attempt_ok _ _ _ _ (fun _ h => ⟨h.1.1, h.1.2.1⟩)
        (fun r _ _ h hsp => ⟨⟨hsp, h.1.2⟩, by
          show hs = (w.updated.map (·.1)).filterMap (r.s.delBlobs _).reg
          rw [State.delBlobs_reg]; exact h.2⟩)
    refine Triple.bind (Q1 := fun _ r => SP0 r ∧ hs = (w.updated.map (·.1)).filterMap r.s.reg) (Triple.get (fun _ h => h)) (fun r0 => ?_)
    have fin : ∀ (cls : Cls) (args res : Args),
        Triple (fun r => SP0 r ∧ hs = (w.updated.map (·.1)).filterMap r.s.reg)
          (attempt (Sop.Commit.call cls args (fun s => s.setRegs (hs.map
            (fun h => if h.inactive = 0 then { h with wip := 0 } else h.clearInactive))) res))
          (fun _ => CleanI w) (fun _ => False) := by
      intro cls args res
      refine attempt_ok _ _ _ _ (fun _ h => ⟨h.1.1, h.1.2.1⟩) (fun r _ _ h _ => ⟨h.1.ns, ?_⟩)
      show CleanAt w (r.s.setRegs _)
      rw [h.2]
      exact cleanAt_setRegs w r.s
    split
    · exact Triple.bind (fin _ _ _) (fun _ => x_dropNodeCache _)
    · exact Triple.bind (fin _ _ _) (fun _ => x_dropNodeCache _)

/-! ### `unlockNodesKeys`, fault spent: every node lock is released -/

theorem unlockNodesKeys_releases (tid : Tid) :
    Triple (fun r => SP0 r ∧ LockI tid r) unlockNodesKeys (fun _ r => SP0 r ∧ NoLockI tid r) (fun _ => False) := by
  unfold unlockNodesKeys
  refine Triple.bind (Q1 := fun r0 r => (SP0 r ∧ LockI tid r) ∧ r0 = r) (Triple.get (fun _ h => ⟨h, rfl⟩)) (fun r0 => ?_)
  split
  · rename_i hnk
    refine Triple.pure _ (fun r h => ?_)
    obtain ⟨⟨hs, hl⟩, e⟩ := h
    subst e
    refine ⟨hs, hl.1, hl.2.1, fun k hk => ?_⟩
    have := hl.2.2 k hk
    unfold keysOrEmpty at this
    rw [hnk] at this
    cases this
  · rename_i ks hnk
    refine Triple.bind (Q1 := fun _ r => SP0 r ∧ NoLockI tid r) ?_ (fun _ => ?_)
    · refine Triple.conseq (Q' := fun b r => b = true ∧ (SP0 r ∧ NoLockI tid r)) (E' := fun _ => False) ?_
        (fun _ h => h) (fun _ _ h => h.2) (fun _ h => h)
      refine Triple.attempt' (Q := fun b r => b = true ∧ (SP0 r ∧ NoLockI tid r)) ?_ (fun _ h _ => by cases h.1)
      unfold unlockKeys
      refine Triple.bind (Q1 := fun r1 r => ((SP0 r ∧ LockI tid r) ∧ r0 = r) ∧ r1 = r) (Triple.get (fun _ h => ⟨h, rfl⟩)) (fun r1 => ?_)
      refine Triple.callOk _ _ _ _ (fun _ h => ⟨h.1.1.1.1, h.1.1.1.2.1⟩) (fun r _ _ h hs => ⟨rfl, ⟨hs, h.1.1.1.2⟩, ?_⟩)
      obtain ⟨⟨⟨_, hl⟩, e0⟩, e1⟩ := h
      subst e0; subst e1
      refine ⟨hl.1, hl.2.1, fun k hk => ?_⟩
      simp only at hk
      split at hk
      · cases hk
      · rename_i hc
        have hin := hl.2.2 k hk
        unfold keysOrEmpty at hin
        rw [hnk] at hin
        apply hc
        simp only [Option.getD_some] at hin
        simp [hin, hk, hl.2.1]
    · exact Triple.modify _ (fun r h => ⟨⟨h.1.1, h.1.2⟩, h.2.1, h.2.2.1, h.2.2.2⟩)

/-- `unlockNodesKeys` does not touch the registry -/
theorem clean_unlockNodesKeys {E : Run → Prop} (w : WS) : Triple (CleanI w) unlockNodesKeys (fun _ => CleanI w) E := by
  unfold unlockNodesKeys
  refine X.bind X.get (fun r0 => ?_)
  split
  · exact X.pure _
  · refine X.bind (X.attempt ?_) (fun _ => Triple.modify _ (fun _ h => h))
    unfold unlockKeys
    refine X.bind X.get (fun r1 => ?_)
    exact X.callEff _ _ _ _ _ (fun r _ _ h => ⟨h.1, h.2⟩)

/-! ### the whole live rollback, fault spent -/

theorem done_tail {E : Run → Prop} (w : WS) (tid : Tid) (v : Bool) (c : Nat) (t : Tid) :
    Triple (Done w tid) (do
      whenM (decide (c > Step.commitNewRootNodes.ord)) (rollbackNewRoots w)
      whenM (v && decide (c ≥ Step.commitTrackedItemsValues.ord)) (rollbackValues w)
      whenM (decide (c ≥ Step.lockTrackedItems.ord)) (do let _ ← attempt (unlockItems w))
      whenM (decide (c ≥ Step.createStore.ord)) (removeCreatedStores w)
      let _ ← attempt (call .tlogRemove .none (fun s => { s with tlog := fun k => if k = t then false else s.tlog k }) .none (fun s => !s.tlog t))
      modify (fun r => { r with cs := .unknown }) : M Unit) (fun _ => Done w tid) E := by
  refine X.bind (X.whenM _ (x_rollbackNewRoots w)) (fun _ => ?_)
  refine X.bind (X.whenM _ (x_rollbackValues w)) (fun _ => ?_)
  refine X.bind (X.whenM _ (X.bind (X.attempt (x_unlockItems w)) (fun _ => X.pure _))) (fun _ => ?_)
  refine X.bind (X.whenM _ (x_removeCreatedStores w)) (fun _ => ?_)
  refine X.bind (X.attempt (X.callMono _ _ _ _ _ (fun s => ⟨rfl, fun _ _ => .inl rfl⟩))) (fun _ => ?_)
  exact X.modify _ (fun r => ⟨rfl, rfl, rfl, rfl, rfl⟩)

/-- **The live rollback with the fault spent, entered at a committed state past `commitUpdatedNodes`**: it cannot
fail; it clears the reservation of every updated node and releases every node lock of the transaction. -/
theorem rollback_spent_cleans (w : WS) (tid : Tid) (v : Bool) :
    Triple (fun r => (SP0 r ∧ LockI tid r) ∧ (Step.commitUpdatedNodes.ord < r.cs.ord ∧ r.cs.ord ≤ Step.finalizeCommit.ord))
      (rollback w v) (fun _ => Done w tid) (fun _ => False) := by
  unfold rollback
  refine Triple.bind (Q1 := fun r0 r => (SP0 r ∧ LockI tid r) ∧ (Step.commitUpdatedNodes.ord < r0.cs.ord ∧ r0.cs.ord ≤ Step.finalizeCommit.ord))
    (Triple.get (fun _ h => h)) (fun r0 r hr => ?_)
  obtain ⟨hA, hlo, hhi⟩ := hr
  revert r
  show Triple (fun r => SP0 r ∧ LockI tid r) _ _ _
  have A : ∀ {m : M Unit}, NoRaise m → (∀ E, Triple (LockI tid) m (fun _ => LockI tid) E) →
      Triple (fun r => SP0 r ∧ LockI tid r) m (fun _ r => SP0 r ∧ LockI tid r) (fun _ => False) :=
    fun h1 h2 => Triple.andNR h1 (h2 (fun _ => True))
  -- committedState ≤ finalizeCommit: no early exit
  refine Triple.bind (Q1 := fun _ r => SP0 r ∧ LockI tid r) ?_ (fun _ => ?_)
  · unfold Sop.Commit.whenM
    split
    · rename_i hc
      simp only [gt_iff_lt, decide_eq_true_eq] at hc
      omega
    · exact Triple.pure _ (fun _ h => h)
  refine Triple.bind (Triple.whenM' _ (A (by sp_auto) (fun E => X.bind (X.attempt (X.callMono _ _ _ _ _ (fun s => ⟨rfl, fun _ _ => .inl rfl⟩))) (fun _ => X.pure _)))) (fun _ => ?_)
  refine Triple.bind (Triple.whenM' _ (A (nr_rollbackStores w) (fun E => x_rollbackStores w))) (fun _ => ?_)
  refine Triple.bind (Triple.whenM' _ (A (nr_rollbackAdded w) (fun E => x_rollbackAdded w))) (fun _ => ?_)
  refine Triple.bind (Triple.whenM' _ (A (nr_rollbackRemoved w) (fun E => x0_rollbackRemoved w))) (fun _ => ?_)
  -- committedState > commitUpdatedNodes: the reservations are undone
  refine Triple.bind (Q1 := fun _ r => (SP0 r ∧ LockI tid r) ∧ CleanI w r) ?_ (fun _ => ?_)
  · unfold Sop.Commit.whenM
    split
    · refine Triple.conseq (Triple.and (Triple.andNR (E := fun _ => False) (nr_rollbackUpdated w) (x0_rollbackUpdated (I := LockI tid) w))
        (rollbackUpdated_cleans w)) (fun _ h => ⟨h, h.1⟩) (fun _ _ h => h) (fun _ h => h.1)
    · rename_i hc
      simp only [gt_iff_lt, decide_eq_true_eq] at hc
      omega
  refine Triple.bind (Q1 := fun _ => Done w tid) ?_ (fun _ => done_tail w tid v _ _)
  exact Triple.conseq (Triple.and (unlockNodesKeys_releases tid) (clean_unlockNodesKeys (E := fun _ => True) w))
    (fun _ h => h) (fun _ _ h => ⟨h.1.2, h.2.2⟩) (fun _ h => h.1)

end Sop.Commit
