import Sop.Lemmas.CommitClean2
/-!
C07 "no blockage": the node-lock bookkeeping through phase 1 and phase 2 (`LockI`: every node lock the transaction
holds is on one of the keys it remembers in `nodesKeys`), for every fault.
-/
namespace Sop.Commit
set_option linter.unusedSectionVars false

theorem NoLockI.toLockI {tid : Tid} {r : Run} (h : NoLockI tid r) : LockI tid r :=
  ⟨h.1, h.2.1, fun k hk => absurd hk (h.2.2 k)⟩

/-! ### functions that write the registry or the blobs leave the node locks alone -/

section
variable {I : Run → Prop} [xf : XFrame [] I]
include xf

theorem x0_call (cls : Cls) (args : Args) (eff : State → State) (res : Args) (nat : State → Bool)
    (h : ∀ s, (eff s).nodeLock = s.nodeLock) : Preserves I (Sop.Commit.call cls args eff res nat) :=
  X.callMono _ _ _ _ _ (fun s => ⟨h s, fun _ hk => by cases hk⟩)

theorem x0_commitNewRoots (w : WS) : Preserves I (commitNewRoots w) := by
  unfold commitNewRoots
  simp only
  split
  · exact X.pure _
  · refine X.bind (x_regGet _) (fun hs => ?_)
    split
    · exact X.pure _
    · refine X.bind (x0_call _ _ _ _ _ (fun s => State.addBlobs_nodeLock _ _)) (fun _ => ?_)
      exact X.bind (x0_call _ _ _ _ _ (fun s => State.setRegs_nodeLock _ _)) (fun _ => X.pure _)

theorem x0_commitUpdated (w : WS) : Preserves I (commitUpdated w) := by
  unfold commitUpdated
  simp only
  split
  · exact X.pure _
  · refine X.bind (x_regGet _) (fun hs => ?_)
    split
    · exact X.pure _
    · refine X.bind X.get (fun r => ?_)
      split
      · exact X.pure _
      · refine X.bind (X.modify _ (fun r => ⟨rfl, rfl, rfl, rfl, rfl⟩)) (fun _ => ?_)
        refine X.bind (x0_call _ _ _ _ _ (fun s => State.setRegs_nodeLock _ _)) (fun _ => ?_)
        refine X.bind (x0_call _ _ _ _ _ (fun s => State.addBlobs_nodeLock _ _)) (fun _ => ?_)
        exact X.bind (X.modify _ (fun r => ⟨rfl, rfl, rfl, rfl, rfl⟩)) (fun _ => X.pure _)

theorem x0_commitRemoved (w : WS) : Preserves I (commitRemoved w) := by
  unfold commitRemoved
  simp only
  split
  · exact X.pure _
  · refine X.bind (x_regGet _) (fun hs => ?_)
    refine X.bind X.get (fun r => ?_)
    split
    · exact X.pure _
    · refine X.bind (x0_call _ _ _ _ _ (fun s => State.setRegs_nodeLock _ _)) (fun _ => ?_)
      exact X.bind (X.modify _ (fun r => ⟨rfl, rfl, rfl, rfl, rfl⟩)) (fun _ => X.pure _)

theorem x0_commitAdded (w : WS) : Preserves I (commitAdded w) := by
  unfold commitAdded
  simp only
  split
  · exact X.pure _
  · refine X.bind (x0_call _ _ _ _ _ (fun s => State.setRegs_nodeLock _ _)) (fun _ => ?_)
    exact x0_call _ _ _ _ _ (fun s => State.addBlobs_nodeLock _ _)

theorem x0_phase1Body (w : WS) : Preserves I (phase1Body w) := by
  unfold phase1Body
  refine X.bind (x_logStep _) (fun _ => ?_)
  refine X.bind (x_addValues w) (fun _ => ?_)
  refine X.bind (x_logStep _) (fun _ => ?_)
  refine X.bind (x0_commitNewRoots w) (fun ok => ?_)
  split
  · exact X.pure _
  refine X.bind (x_logStep _) (fun _ => ?_)
  refine X.bind (x_fetchedIntact w) (fun ok => ?_)
  split
  · exact X.pure _
  refine X.bind (x0_commitUpdated w) (fun ok => ?_)
  refine X.bind (x_logStep _) (fun _ => ?_)
  split
  · exact X.pure _
  refine X.bind (x_logStep _) (fun _ => ?_)
  refine X.bind (x0_commitRemoved w) (fun ok => ?_)
  split
  · exact X.pure _
  refine X.bind (x_logStep _) (fun _ => ?_)
  exact X.bind (x0_commitAdded w) (fun _ => X.pure _)

theorem x0_cleanup {E : Run → Prop} (w : WS) : Triple I (cleanup w) (fun _ => I) E := by
  unfold cleanup
  refine X.bind X.get (fun r => ?_)
  refine X.bind (X.attempt (x_logStep _)) (fun ok => ?_)
  simp only
  have tail : Triple I (do
      let _ ← attempt (call Cls.regRemove (Args.ids (r.removedH.map (·.lid))) fun s => s.delRegs (r.removedH.map (·.lid)))
      let ok ← attempt (logStep Step.deleteTrackedItemsValues)
      if (!ok) = true then pure ()
        else do
          forIn w.stores PUnit.unit fun st __s =>
              if (!st.obsoleteValues.isEmpty) = true then do
                let _ ← attempt (call Cls.blobRemove (Args.ids st.obsoleteValues) fun s => s.delBlobs st.obsoleteValues)
                pure (ForInStep.yield PUnit.unit)
              else pure (ForInStep.yield PUnit.unit)
          let _ ← attempt (call Cls.tlogRemove Args.none
                  (fun s => { s with tlog := fun k => if k = r.tid then false else s.tlog k })
                  Args.none fun s => !s.tlog r.tid)
          pure ()) (fun _ => I) E := by
    refine X.bind (X.attempt (x0_call _ _ _ _ _ (fun s => State.delRegs_nodeLock _ _))) (fun _ => ?_)
    refine X.bind (X.attempt (x_logStep _)) (fun ok => ?_)
    split
    · exact X.pure _
    · refine X.bind (X.forIn _ _ (fun st => ?_)) (fun _ => ?_)
      · split
        · exact X.bind (X.attempt (x0_call _ _ _ _ _ (fun s => State.delBlobs_nodeLock _ _))) (fun _ => X.pure _)
        · exact X.pure _
      · exact X.bind (X.attempt (x0_call _ _ _ _ _ (fun s => rfl))) (fun _ => X.pure _)
  split
  · exact X.pure _
  · split
    · exact X.bind (X.attempt (x0_call _ _ _ _ _ (fun s => State.delBlobs_nodeLock _ _))) (fun _ => tail)
    · exact tail

theorem x0_priorityRollbackSelf {E : Run → Prop} : Triple I priorityRollbackSelf (fun _ => I) E := by
  unfold priorityRollbackSelf
  refine X.bind X.get (fun r => ?_)
  split
  · refine X.bind (x0_setRegs _ _ _ _) (fun _ => ?_)
    exact X.bind (X.attempt (x0_call _ _ _ _ _ (fun s => rfl))) (fun _ => X.pure _)
  · exact X.pure _

end

/-- the undo steps after `unlockNodesKeys`: they cannot raise (every call is merely attempted) -/
theorem x_tail {K : List UUID} {I : Run → Prop} [XFrame K I] {E : Run → Prop} (w : WS) (v : Bool) (c : Nat) (t : Tid) :
    Triple I (do
      whenM (decide (c > Step.commitNewRootNodes.ord)) (rollbackNewRoots w)
      whenM (v && decide (c ≥ Step.commitTrackedItemsValues.ord)) (rollbackValues w)
      whenM (decide (c ≥ Step.lockTrackedItems.ord)) (do let _ ← attempt (unlockItems w))
      whenM (decide (c ≥ Step.createStore.ord)) (removeCreatedStores w)
      let _ ← attempt (call .tlogRemove .none (fun s => { s with tlog := fun k => if k = t then false else s.tlog k }) .none (fun s => !s.tlog t))
      modify (fun r => { r with cs := .unknown }) : M Unit) (fun _ => I) E := by
  refine X.bind (X.whenM _ (x_rollbackNewRoots w)) (fun _ => ?_)
  refine X.bind (X.whenM _ (x_rollbackValues w)) (fun _ => ?_)
  refine X.bind (X.whenM _ (X.bind (X.attempt (x_unlockItems w)) (fun _ => X.pure _))) (fun _ => ?_)
  refine X.bind (X.whenM _ (x_removeCreatedStores w)) (fun _ => ?_)
  refine X.bind (X.attempt (X.callMono _ _ _ _ _ (fun s => ⟨rfl, fun _ _ => .inl rfl⟩))) (fun _ => ?_)
  exact X.modify _ (fun r => ⟨rfl, rfl, rfl, rfl, rfl⟩)

/-! ### the lock calls -/

section
variable {tid : Tid}

theorem lockI_unlockKeys (ids : List UUID) : Preserves (LockI tid) (unlockKeys ids) := by
  unfold unlockKeys
  refine X.bind X.get (fun r0 => ?_)
  refine X.callEff _ _ _ _ _ (fun r _ _ h => ⟨h.1, h.2.1, fun k hk => ?_⟩)
  simp only at hk
  split at hk
  · cases hk
  · exact h.2.2 k hk

theorem noLockI_unlockKeys (ids : List UUID) : Preserves (NoLockI tid) (unlockKeys ids) := by
  unfold unlockKeys
  refine X.bind X.get (fun r0 => ?_)
  refine X.callEff _ _ _ _ _ (fun r _ _ h => ⟨h.1, h.2.1, fun k hk => ?_⟩)
  simp only at hk
  split at hk
  · cases hk
  · exact h.2.2 k hk

theorem lockI_mergeNodesKeys (w : WS) : Triple (NoLockI tid) (mergeNodesKeys w) (fun _ => LockI tid) (LockI tid) := by
  unfold mergeNodesKeys
  split
  · refine Triple.bind (X.attempt (noLockI_unlockKeys _)) (fun _ => ?_)
    exact Triple.modify _ (fun r h => ⟨h.1, h.2.1, fun k hk => absurd hk (h.2.2 k)⟩)
  · exact Triple.modify _ (fun r h => ⟨h.1, h.2.1, fun k hk => absurd hk (h.2.2 k)⟩)

/-- the effect of a lock call on the node-lock table -/
def lockEff (ks : List UUID) (t : Tid) (s : State) : State :=
  { s with nodeLock := fun k => if ks.contains k then some t else s.nodeLock k }

/-- writing `tid` into the lock entries of the remembered keys keeps `LockI` -/
theorem lockI_lockEff {r0 r : Run} (h : LockI tid r) (e1 : r0.tid = r.tid) (e2 : keysOrEmpty r0 = keysOrEmpty r)
    (occs : List (Cls × Nat)) (tr : List Ev) :
    LockI tid { r with occs := occs, trace := tr, s := lockEff (keysOrEmpty r0) r0.tid r.s } := by
  refine ⟨h.1, h.2.1, fun k hk => ?_⟩
  simp only [lockEff] at hk
  split at hk
  · rename_i hc
    show k ∈ keysOrEmpty r
    rw [← e2]
    simpa using hc
  · exact h.2.2 k hk

theorem lockI_lockNodes : Preserves (LockI tid) lockNodes := by
  unfold lockNodes
  refine Triple.bind (Q1 := fun r0 r => LockI tid r ∧ r0 = r) (Triple.get (fun _ h => ⟨h, rfl⟩)) (fun r0 => ?_)
  simp only
  refine Triple.bind (Q1 := fun _ => LockI tid) ?_ (fun ok => ?_)
  · refine Triple.attempt' (Q := fun _ => LockI tid) ?_ (fun r h hh => by have := h.1.2; rw [this] at hh; cases hh)
    refine Triple.call' _ _ _ _ _ (fun r o t h => ?_) (fun r _ h hs => by have := h.1.1.1; rw [this] at hs; cases hs)
      (fun r _ _ h => XFrame.frame (K := []) r _ h.1 rfl rfl rfl rfl rfl (fun _ hk => by cases hk)) (fun r o t h _ => ?_)
    · split
      · exact lockI_lockEff h.1 (congrArg Run.tid h.2) (congrArg keysOrEmpty h.2) o t
      · exact XFrame.frame (K := []) r _ h.1 rfl rfl rfl rfl rfl (fun _ hk => by cases hk)
    · split
      · exact lockI_lockEff h.1 (congrArg Run.tid h.2) (congrArg keysOrEmpty h.2) o t
      · exact XFrame.frame (K := []) r _ h.1 rfl rfl rfl rfl rfl (fun _ hk => by cases hk)
  split
  · exact X.bind (X.attempt (lockI_unlockKeys _)) (fun _ => X.fail)
  split
  · exact X.pure _
  exact X.bind (x0_call _ _ _ _ _ (fun s => rfl)) (fun _ => X.pure _)

theorem lockI_finishPhase1 (w : WS) : Preserves (LockI tid) (finishPhase1 w) := by
  unfold finishPhase1
  refine X.bind (x_logStep _) (fun _ => ?_)
  refine X.bind (x_commitStores w) (fun _ => ?_)
  refine X.bind (x_logStep _) (fun _ => ?_)
  refine X.bind X.get (fun r => ?_)
  refine X.bind (X.whenM _ (x0_call _ _ _ _ _ (fun s => rfl))) (fun _ => ?_)
  refine X.bind (x_checkItems w) (fun _ => ?_)
  refine Triple.bind (Q1 := fun r0 r => LockI tid r ∧ r0 = r) (Triple.get (fun _ h => ⟨h, rfl⟩)) (fun r0 => ?_)
  unfold Sop.Commit.whenM
  split
  · refine Triple.bind (Q1 := fun _ r => LockI tid r ∧ r0.tid = r.tid ∧ keysOrEmpty r0 = keysOrEmpty r) ?_ (fun ok => ?_)
    · refine Triple.attempt' (Q := fun _ r => LockI tid r ∧ r0.tid = r.tid ∧ keysOrEmpty r0 = keysOrEmpty r) ?_
        (fun r h hh => by have := h.1.1.2; rw [this] at hh; cases hh)
      exact Triple.call' _ _ _ _ _ (fun r o t h => ⟨XFrame.frame (K := []) r _ h.1 rfl rfl rfl rfl rfl (fun _ hk => by cases hk), (by have e := h.2; subst e; rfl), (by have e := h.2; subst e; rfl)⟩)
        (fun r _ h hs => by have := h.1.1.1; rw [this] at hs; cases hs)
        (fun r _ _ h => ⟨XFrame.frame (K := []) r _ h.1 rfl rfl rfl rfl rfl (fun _ hk => by cases hk), (by have e := h.2; subst e; rfl), (by have e := h.2; subst e; rfl)⟩)
        (fun r o t h _ => ⟨XFrame.frame (K := []) r _ h.1 rfl rfl rfl rfl rfl (fun _ hk => by cases hk), (by have e := h.2; subst e; rfl), (by have e := h.2; subst e; rfl)⟩)
    · split
      · exact Triple.call' _ _ _ _ _ (fun r o t h => lockI_lockEff h.1 h.2.1 h.2.2 o t)
          (fun r _ h hs => by have := h.1.1.1; rw [this] at hs; cases hs)
          (fun r _ _ h => XFrame.frame (K := []) r _ h.1 rfl rfl rfl rfl rfl (fun _ hk => by cases hk))
          (fun r o t h _ => lockI_lockEff h.1 h.2.1 h.2.2 o t)
      · exact Triple.pure _ (fun _ h => h.1)
  · exact Triple.pure _ (fun _ h => h.1)

/-- `unlockNodesKeys` under any fault: the run stays unobserved (the locks may stay if the unlock call fails) -/
theorem ns_unlockNodesKeys {E : Run → Prop} : Triple (LockI tid) unlockNodesKeys (fun _ => NS) E := by
  unfold unlockNodesKeys
  refine Triple.bind (Q1 := fun _ => LockI tid) X.get (fun r0 => ?_)
  split
  · exact Triple.pure _ (fun _ h => h.1)
  · refine Triple.bind (Q1 := fun _ => LockI tid) (X.attempt (lockI_unlockKeys _)) (fun _ => ?_)
    exact Triple.modify _ (fun _ h => h.1)

/-- the live rollback under any fault: where it raises, the lock bookkeeping is still right -/
theorem lockI_rollback (w : WS) (v : Bool) : Triple (LockI tid) (rollback w v) (fun _ => NS) (LockI tid) := by
  unfold rollback
  refine Triple.bind (Q1 := fun _ => LockI tid) X.get (fun r0 => ?_)
  simp only
  refine Triple.bind (Q1 := fun _ => LockI tid) (X.whenM _ X.fail) (fun _ => ?_)
  refine Triple.bind (Q1 := fun _ => LockI tid)
    (X.whenM _ (X.bind (X.attempt (x0_call _ _ _ _ _ (fun s => rfl))) (fun _ => X.pure _))) (fun _ => ?_)
  refine Triple.bind (Q1 := fun _ => LockI tid) (X.whenM _ (x_rollbackStores w)) (fun _ => ?_)
  refine Triple.bind (Q1 := fun _ => LockI tid) (X.whenM _ (x_rollbackAdded w)) (fun _ => ?_)
  refine Triple.bind (Q1 := fun _ => LockI tid) (X.whenM _ (x0_rollbackRemoved w)) (fun _ => ?_)
  refine Triple.bind (Q1 := fun _ => LockI tid) (X.whenM _ (x0_rollbackUpdated w)) (fun _ => ?_)
  refine Triple.bind (Q1 := fun _ => NS) ns_unlockNodesKeys (fun _ => ?_)
  exact x_tail w v _ _

theorem lockI_phase1 (w : WS) (n : Nat) :
    Triple (NoLockI tid) (phase1 w n) (fun _ => LockI tid) (fun r => r.conflicted = true ∨ LockI tid r) := by
  have wk : ∀ {α : Type} {m : M α}, Preserves (LockI tid) m →
      Triple (LockI tid) m (fun _ => LockI tid) (fun r => r.conflicted = true ∨ LockI tid r) :=
    fun h => Triple.conseq h (fun _ h => h) (fun _ _ h => h) (fun _ h => .inr h)
  have wk0 : ∀ {α : Type} {m : M α}, Preserves (NoLockI tid) m →
      Triple (NoLockI tid) m (fun _ => NoLockI tid) (fun r => r.conflicted = true ∨ LockI tid r) :=
    fun h => Triple.conseq h (fun _ h => h) (fun _ _ h => h) (fun _ h => .inr h.toLockI)
  unfold phase1
  split
  · exact Triple.pure _ (fun _ h => h.toLockI)
  refine Triple.bind (wk0 (x_logStep _)) (fun _ => ?_)
  refine Triple.bind (wk0 (x_lockItems w)) (fun _ => ?_)
  refine Triple.bind (Triple.conseq (lockI_mergeNodesKeys w) (fun _ h => h) (fun _ _ h => h) (fun _ h => .inr h)) (fun _ => ?_)
  refine Triple.bind (wk lockI_lockNodes) (fun locked => ?_)
  split
  · -- giveUpLocked
    unfold giveUpLocked
    refine Triple.bind (wk X.get) (fun r => ?_)
    refine Triple.bind (wk (X.attempt (lockI_unlockKeys _))) (fun _ => ?_)
    refine Triple.bind (Q1 := fun _ r => r.conflicted = true) (Triple.modify _ (fun _ _ => rfl)) (fun _ => ?_)
    exact Triple.fail (fun _ h => .inl h)
  refine Triple.bind (wk (x0_phase1Body w)) (fun ok => ?_)
  split
  · -- conflictRound
    unfold conflictRound
    refine Triple.bind (wk (X.whenM _ X.fail)) (fun _ => ?_)
    refine Triple.bind (Triple.conseq (lockI_rollback w false) (fun _ h => h) (fun _ _ h => h) (fun _ h => .inr h)) (fun _ => ?_)
    refine Triple.bind (Q1 := fun _ r => r.conflicted = true) (Triple.modify _ (fun _ _ => rfl)) (fun _ => ?_)
    exact Triple.fail (fun _ h => .inl h)
  · exact wk (lockI_finishPhase1 w)

end
end Sop.Commit
