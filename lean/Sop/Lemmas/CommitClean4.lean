import Sop.Lemmas.CommitClean3
/-!
C07 "no blockage", whole runs. A commit that fails in phase 2 (any fault position), or in phase 1 with the fault
fired after `commitUpdatedNodes` was logged as done, ends with no reservation on any updated node and no node lock
of the transaction.
-/
namespace Sop.Commit
set_option linter.unusedSectionVars false

/-! ### `committedState` is not touched by the error handling before the live rollback reads it -/

theorem cs_call (c : Step) (cls : Cls) (args : Args) (eff : State → State) (res : Args) (nat : State → Bool) :
    Preserves (fun r => r.cs = c) (Sop.Commit.call cls args eff res nat) :=
  Triple.call _ _ _ _ _ (fun _ _ _ h => h) (fun _ _ _ _ h => h) (fun _ _ _ h => h)

theorem cs_unlockNodesKeys (c : Step) : Preserves (fun r => r.cs = c) unlockNodesKeys := by
  unfold unlockNodesKeys unlockKeys
  refine Triple.bind (Q1 := fun _ r => r.cs = c) (Triple.get (fun _ h => h)) (fun r0 => ?_)
  split
  · exact Triple.pure _ (fun _ h => h)
  · refine Triple.bind (Q1 := fun _ r => r.cs = c) (Triple.attempt ?_ (fun _ h => h)) (fun _ => Triple.modify _ (fun _ h => h))
    exact Triple.bind (Q1 := fun _ r => r.cs = c) (Triple.get (fun _ h => h)) (fun _ => cs_call c _ _ _ _ _)

theorem cs_priorityRollbackSelf (c : Step) : Preserves (fun r => r.cs = c) priorityRollbackSelf := by
  unfold priorityRollbackSelf
  refine Triple.bind (Q1 := fun _ r => r.cs = c) (Triple.get (fun _ h => h)) (fun r0 => ?_)
  split
  · refine Triple.bind (Q1 := fun _ r => r.cs = c) (Triple.attempt (cs_call c _ _ _ _ _) (fun _ h => h)) (fun _ => ?_)
    exact Triple.bind (Q1 := fun _ r => r.cs = c) (Triple.attempt (cs_call c _ _ _ _ _) (fun _ h => h)) (fun _ => Triple.pure _ (fun _ h => h))
  · exact Triple.pure _ (fun _ h => h)

/-- `unlockNodesKeys` with no observer, any fault -/
theorem nsx_unlockNodesKeys {E : Run → Prop} : Triple NS unlockNodesKeys (fun _ => NS) E := by
  unfold unlockNodesKeys
  refine X.bind X.get (fun r0 => ?_)
  split
  · exact X.pure _
  · refine X.bind (X.attempt ?_) (fun _ => Triple.modify _ (fun _ h => h))
    unfold unlockKeys
    exact X.bind X.get (fun _ => X.callEff _ _ _ _ _ (fun _ _ _ h => h))

section
variable {tid : Tid}

/-- what the error handling starts from after a failed phase 2: fault spent, lock bookkeeping right, committed
state `finalizeCommit` -/
def B2 (tid : Tid) (r : Run) : Prop := (SP0 r ∧ LockI tid r) ∧ r.cs = .finalizeCommit

theorem sp0_of {r : Run} (hs : Spent r) (h : LockI tid r) : SP0 r := ⟨hs, h.1.1, h.1.2⟩

theorem b2_unlockNodesKeys : Triple (B2 tid) unlockNodesKeys (fun _ => B2 tid) (fun _ => False) :=
  Triple.conseq (Triple.and (unlockNodesKeys_releases tid) (cs_unlockNodesKeys .finalizeCommit))
    (fun _ h => h) (fun _ _ h => ⟨⟨h.1.1, h.1.2.toLockI⟩, h.2⟩) (fun _ h => h.1)

/-- **however phase 2 raises, the run's one fault is spent** (it raises only at its first log write or at the
flip write), the lock bookkeeping is right and the committed state is `finalizeCommit` -/
theorem phase2_raise_sp (w : WS) : Triple (LockI tid) (phase2 w) (fun _ _ => True) (B2 tid) := by
  unfold phase2
  refine Triple.bind (Q1 := fun _ => LockI tid) X.get (fun r0 => ?_)
  refine Triple.bind (Q1 := fun b r => LockI tid r ∧ r.cs = .finalizeCommit ∧ (b = false → Spent r)) ?_ (fun okLog => ?_)
  · refine Triple.attempt' (Q := fun b r => LockI tid r ∧ r.cs = .finalizeCommit ∧ (b = false → Spent r)) ?_
      (fun r h hh => by have := h.1.1.2; rw [this] at hh; cases hh)
    unfold logStep
    refine Triple.bind (Q1 := fun _ r => LockI tid r ∧ r.cs = .finalizeCommit)
      (Triple.modify _ (fun r h => ⟨XFrame.frame (K := []) r _ h rfl rfl rfl rfl rfl (fun _ hk => by cases hk), rfl⟩)) (fun _ => ?_)
    refine Triple.bind (Q1 := fun _ r => LockI tid r ∧ r.cs = .finalizeCommit) (Triple.get (fun _ h => h)) (fun r1 => ?_)
    refine Triple.callFull _ _ _ _ _
      (fun r _ h => ⟨XFrame.frame (K := []) r _ h.1 rfl rfl rfl rfl rfl (fun _ hk => by cases hk), h.2, fun e => by cases e⟩)
      (fun r _ h hs => by have := h.1.1.1; rw [this] at hs; cases hs)
      (fun r _ _ hn => by cases hn)
      (fun r _ f h hfa h1 _ h3 => ⟨XFrame.frame (K := []) r _ h.1 rfl rfl rfl rfl rfl (fun _ hk => by cases hk), h.2,
        fun _ => spent_of_hit hfa h1 h3 rfl rfl⟩)
      (fun r _ f h hfa h1 _ h3 => ⟨XFrame.frame (K := []) r _ h.1 rfl rfl rfl rfl rfl (fun _ hk => by cases hk), h.2,
        fun _ => spent_of_hit hfa h1 h3 rfl rfl⟩)
  simp only
  have rest : ∀ (P : Run → Prop), (∀ r, P r → NS r) → Triple P (do
      unlockNodesKeys
      let _ ← attempt (unlockItems w)
      cleanup w) (fun _ _ => True) (B2 tid) := by
    intro P hP
    refine Triple.conseq (P' := NS) (Q' := fun _ => NS) (E' := fun _ => False) ?_ hP (fun _ _ _ => trivial) (fun _ h => h.elim)
    exact X.bind nsx_unlockNodesKeys (fun _ => X.bind (X.attempt (x_unlockItems w)) (fun _ => x0_cleanup w))
  split
  · rename_i hno
    have hf : okLog = false := by simpa using hno
    refine Triple.bind (Q1 := fun _ => B2 tid) ?_ (fun _ => ?_)
    · exact Triple.conseq b2_unlockNodesKeys (fun _ h => ⟨⟨sp0_of (h.2.2 hf) h.1, h.1⟩, h.2.1⟩) (fun _ _ h => h) (fun _ h => h.elim)
    · exact Triple.bind (Q1 := fun _ _ => False) (Triple.fail (fun _ h => h)) (fun _ r h => h.elim)
  · split
    · refine Triple.bind (Q1 := fun _ => NS) ?_ (fun _ => ?_)
      · refine Triple.callFull _ _ _ _ _ (fun r _ h => h.1.1)
          (fun r _ h hs => by have := h.1.1.1; rw [this] at hs; cases hs)
          (fun r _ _ hn => by cases hn)
          (fun r _ f h hfa h1 _ h3 => ?_) (fun r _ f h hfa h1 _ h3 => ?_)
        · refine ⟨⟨sp0_of (tid := tid) (spent_of_hit hfa h1 h3 rfl rfl) ?_, ?_⟩, h.2.1⟩ <;>
            exact XFrame.frame (K := []) r _ h.1 rfl rfl rfl rfl rfl (fun _ hk => by cases hk)
        · refine ⟨⟨sp0_of (tid := tid) (spent_of_hit hfa h1 h3 rfl rfl) ?_, ?_⟩, h.2.1⟩ <;>
            exact XFrame.frame (K := []) r _ h.1 rfl rfl rfl rfl (State.setRegs_nodeLock _ _) (fun _ hk => by cases hk)
      · refine Triple.bind (Q1 := fun _ => NS) ?_ (fun _ => rest NS (fun _ h => h))
        exact Triple.conseq (E' := fun _ => False) (X.attempt (x0_call _ _ _ _ _ (fun s => rfl))) (fun _ h => h) (fun _ _ h => h) (fun _ h => h.elim)
    · exact rest _ (fun _ h => h.1.1)

/-- **`Phase2Commit`'s error handling after any failure of phase 2 cannot fail and leaves nothing behind** on the
updated nodes' handles and in the node-lock table -/
theorem handler_spent_cleans (w : WS) :
    Triple (B2 tid) (do
        let r ← get
        if !(keysOrEmpty r).isEmpty then
          priorityRollbackSelf
          unlockNodesKeys
        else
          let _ ← attempt (call .plogRemove .none (fun s => { s with plog := fun k => if k = r.tid then false else s.plog k }))
        rollback w true : M Unit) (fun _ => Done w tid) (fun _ => False) := by
  refine Triple.bind (Q1 := fun _ => B2 tid) (Triple.get (fun _ h => h)) (fun r0 => ?_)
  simp only
  have rb : Triple (B2 tid) (rollback w true) (fun _ => Done w tid) (fun _ => False) :=
    Triple.conseq (rollback_spent_cleans w tid true) (fun r h => ⟨h.1, by rw [h.2]; decide⟩) (fun _ _ h => h) (fun _ h => h)
  split
  · refine Triple.bind (Q1 := fun _ => B2 tid) ?_ (fun _ => Triple.bind b2_unlockNodesKeys (fun _ => rb))
    exact Triple.conseq (Triple.and (Triple.andNR (E := fun _ => False) nr_priorityRollbackSelf (x0_priorityRollbackSelf (I := LockI tid) (E := fun _ => True)))
      (cs_priorityRollbackSelf .finalizeCommit)) (fun _ h => h) (fun _ _ h => h) (fun _ h => h.1)
  · refine Triple.bind (Q1 := fun _ => B2 tid) ?_ (fun _ => rb)
    refine Triple.conseq (Triple.and (Triple.andNR (E := fun _ => False) (S.attempt (S.call _ _ _ _ _))
      (X.attempt (I := LockI tid) (E := fun _ => True) (x0_call _ _ _ _ _ (fun s => rfl))))
      (Triple.attempt (cs_call .finalizeCommit _ _ _ _ _) (fun _ h => h))) (fun _ h => h) (fun _ _ h => h) (fun _ h => h.1)

end

section
variable {s0 : State} {w : WS} {fresh0 : List (UUID × UUID)}

/-- **A commit that fails in phase 2 — at any fault position — leaves no reservation and no node lock.** -/
theorem commit_phase2_failure_done (fault : Option Fault) {cs0 : Step} (tid : Tid) (n : Nat) (r1 r2 : Run)
    (hl : ∀ k, s0.nodeLock k ≠ some tid)
    (h1 : phase1 w n { s := s0, tid := tid, fault := fault, fresh := fresh0, cs := cs0 } = .ok ((), r1))
    (h2 : phase2 w r1 = .error r2) :
    Done w tid (commit w n { s := s0, tid := tid, fault := fault, fresh := fresh0, cs := cs0 }).2 := by
  have hp1 := lockI_phase1 (tid := tid) w n { s := s0, tid := tid, fault := fault, fresh := fresh0, cs := cs0 }
    ⟨⟨rfl, rfl⟩, rfl, hl⟩
  rw [h1] at hp1
  have hp2 := phase2_raise_sp (tid := tid) w r1 hp1
  rw [h2] at hp2
  have hk := handler_spent_cleans (tid := tid) w r2 hp2
  unfold commit
  simp only [h1, h2]
  split
  · rename_i r' e; rw [e] at hk; exact hk
  · rename_i r' e; rw [e] at hk; exact hk.elim

/-- …and the state invariant holds at the end (the proof of `commit_phase2_failure_keeps_views_all`, keeping the invariant) -/
theorem commit_phase2_failure_rinv (pre : Pre s0 w fresh0) (pre2 : Pre2 s0 w fresh0)
    (fault : Option Fault) {cs0 : Step} (tid : Tid) (n : Nat) (r1 r2 : Run)
    (h1 : phase1 w n { s := s0, tid := tid, fault := fault, fresh := fresh0, cs := cs0 } = .ok ((), r1))
    (h2 : phase2 w r1 = .error r2) :
    RInv s0 w fresh0 (commit w n { s := s0, tid := tid, fault := fault, fresh := fresh0, cs := cs0 }).2 := by
  have hj0 : J0 s0 w fresh0 { s := s0, tid := tid, fault := fault, fresh := fresh0, cs := cs0 } :=
    ⟨⟨SInv.init s0 w fresh0 pre, fun _ hp => hp⟩, rfl, rfl⟩
  have hst := staged_phase1 pre pre2 n _ hj0
  rw [h1] at hst
  have hf1 := h_phase1 (f0 := fault) w n { s := s0, tid := tid, fault := fault, fresh := fresh0, cs := cs0 } ⟨rfl, rfl, rfl⟩
  rw [h1] at hf1
  have hf2 := h_phase2 (f0 := fault) w r1 hf1
  rw [h2] at hf2
  have hpl := l_phase1 w n { s := s0, tid := tid, fault := fault, fresh := fresh0, cs := cs0 } ⟨rfl, rfl⟩
  rw [h1] at hpl
  have hnk := n_phase1 w n { s := s0, tid := tid, fault := fault, fresh := fresh0, cs := cs0 } trivial
  rw [h1] at hnk
  have htr := tr_phase1 (w := w) n { s := s0, tid := tid, fault := fault, fresh := fresh0, cs := cs0 } ⟨rfl, rfl⟩
  rw [h1] at htr
  have hr := phase2_raises' (s0 := s0) (w := w) (fresh0 := fresh0) r1 ⟨hst.1, hpl, hnk, htr⟩
  rw [h2] at hr
  have hdisj : Staged s0 w fresh0 r2 ∨ (After3 s0 w fresh0 r2 ∧ r2.stopAt = none) := by
    rcases hr with a | b | c
    · exact .inl a
    · rw [hf2.2.1] at b; cases b
    · exact .inr ⟨c, hf2.1⟩
  have hk := handler_any pre r2 hdisj
  unfold commit
  simp only [h1, h2]
  split
  · rename_i r' e; rw [e] at hk; exact hk
  · rename_i r' e; rw [e] at hk; exact hk

/-- the committed state at which phase 1 stopped lies past `commitUpdatedNodes`: the live rollback will run
`rollbackUpdatedNodes` -/
def pastUpdated (st : Step) : Bool :=
  decide (Step.commitUpdatedNodes.ord < st.ord) && decide (st.ord ≤ Step.finalizeCommit.ord)

/-- the run's fault has fired (decidable form of `Spent`) -/
def spentB (r : Run) : Bool :=
  match r.fault with
  | none => true
  | some f => decide (f.occ ≤ lookupOcc r.occs f.cls)

theorem spent_of_spentB {r : Run} (h : spentB r = true) : Spent r := by
  intro f hf
  unfold spentB at h
  rw [hf] at h
  simpa using h

/-- **A commit that fails in phase 1 after `commitUpdatedNodes` was logged as done, by its injected fault**, leaves
no reservation and no node lock: the live rollback runs `rollbackUpdatedNodes` and `unlockNodesKeys`, and neither can
fail any more. -/
theorem commit_phase1_late_failure_done (fault : Option Fault) {cs0 : Step} (tid : Tid) (n : Nat) (r1 : Run)
    (hl : ∀ k, s0.nodeLock k ≠ some tid)
    (h1 : phase1 w n { s := s0, tid := tid, fault := fault, fresh := fresh0, cs := cs0 } = .error r1)
    (hc : r1.conflicted = false) (hsp : spentB r1 = true) (hcs : pastUpdated r1.cs = true) :
    Done w tid (commit w n { s := s0, tid := tid, fault := fault, fresh := fresh0, cs := cs0 }).2 := by
  have hp1 := lockI_phase1 (tid := tid) w n { s := s0, tid := tid, fault := fault, fresh := fresh0, cs := cs0 }
    ⟨⟨rfl, rfl⟩, rfl, hl⟩
  rw [h1] at hp1
  have hli : LockI tid r1 := by
    rcases hp1 with a | a
    · rw [hc] at a; cases a
    · exact a
  have hb : Step.commitUpdatedNodes.ord < r1.cs.ord ∧ r1.cs.ord ≤ Step.finalizeCommit.ord := by
    unfold pastUpdated at hcs
    simpa using hcs
  have hk := rollback_spent_cleans w tid true r1 ⟨⟨sp0_of (spent_of_spentB hsp) hli, hli⟩, hb⟩
  unfold commit
  simp only [h1, hc, Bool.false_eq_true, ↓reduceIte]
  split
  · rename_i r' e; rw [e] at hk; exact hk
  · rename_i r' e; rw [e] at hk; exact hk.elim

end
end Sop.Commit
