import Sop.Lemmas.CommitClean4
/-!
C07 "no blockage": the end-state predicates in terms of the start state, and the two whole-run theorems in that form.
-/
namespace Sop.Commit
set_option linter.unusedSectionVars false

/-- every updated node that was loadable at the start has its handle back: same logical id, same active blob id,
same version, and the inactive slot and the work-in-progress timestamp are EMPTY — the next transaction can reserve
it at once (`Sop.C07.clean_handle_reservable`) -/
def HandlesCleared (s0 : State) (w : WS) (s' : State) : Prop :=
  ∀ lid ∈ w.updated.map (·.1), ∀ h0, s0.reg lid = some h0 → (s0.view lid).isSome →
    ∃ g, s'.reg lid = some g ∧ g.lid = lid ∧ g.active = h0.active ∧ g.version = h0.version ∧ g.inactive = 0 ∧ g.wip = 0

/-- no node-key lock of transaction `tid` is left -/
def NoNodeLocks (tid : Tid) (s' : State) : Prop := ∀ k, s'.nodeLock k ≠ some tid

section
variable {s0 : State} {w : WS} {fresh0 : List (UUID × UUID)}

theorem cleared_of_done {tid : Tid} {r : Run} (hd : Done w tid r) (hi : RInv s0 w fresh0 r) :
    HandlesCleared s0 w r.s ∧ NoNodeLocks tid r.s := by
  refine ⟨?_, hd.1.2.2⟩
  intro lid hl h0 e0 hv
  obtain ⟨g, g0, a, b, c, d, _⟩ := hi.1.loadable_active hv
  rw [e0] at b; cases b
  have hlid := hi.1.regwf lid g a
  obtain ⟨i1, i2⟩ := hd.2 lid hl g a hlid
  exact ⟨g, a, hlid, c, d, i1, i2⟩

/-- the state invariant at the end of a commit that failed in phase 1 -/
theorem commit_phase1_failure_rinv (pre : Pre s0 w fresh0) (fault : Option Fault) {cs0 : Step} (tid : Tid) (n : Nat) (r1 : Run)
    (hf : phase1 w n { s := s0, tid := tid, fault := fault, fresh := fresh0, cs := cs0 } = .error r1) :
    RInv s0 w fresh0 (commit w n { s := s0, tid := tid, fault := fault, fresh := fresh0, cs := cs0 }).2 := by
  have h := pres_phase1 pre n { s := s0, tid := tid, fault := fault, fresh := fresh0, cs := cs0 }
    ⟨SInv.init s0 w fresh0 pre, fun _ hp => hp⟩
  rw [hf] at h
  unfold commit
  simp only [hf]
  split
  · exact h
  · have h2 := pres_rollback pre true r1 h
    cases hr : rollback w true r1 with
    | error r2 => rw [hr] at h2; exact h2
    | ok p => obtain ⟨a, r2⟩ := p; rw [hr] at h2; exact h2

/-- **Phase-2 failures, every fault position.** -/
theorem commit_phase2_failure_no_blockage (pre : Pre s0 w fresh0) (pre2 : Pre2 s0 w fresh0)
    (fault : Option Fault) {cs0 : Step} (tid : Tid) (n : Nat) (r1 r2 : Run)
    (hl : ∀ k, s0.nodeLock k ≠ some tid)
    (h1 : phase1 w n { s := s0, tid := tid, fault := fault, fresh := fresh0, cs := cs0 } = .ok ((), r1))
    (h2 : phase2 w r1 = .error r2) :
    HandlesCleared s0 w (commit w n { s := s0, tid := tid, fault := fault, fresh := fresh0, cs := cs0 }).2.s ∧
    NoNodeLocks tid (commit w n { s := s0, tid := tid, fault := fault, fresh := fresh0, cs := cs0 }).2.s :=
  cleared_of_done (commit_phase2_failure_done fault tid n r1 r2 hl h1 h2)
    (commit_phase2_failure_rinv pre pre2 fault tid n r1 r2 h1 h2)

/-- **Phase-1 failures by the injected fault, after `commitUpdatedNodes` was logged as done.** -/
theorem commit_phase1_late_failure_no_blockage (pre : Pre s0 w fresh0)
    (fault : Option Fault) {cs0 : Step} (tid : Tid) (n : Nat) (r1 : Run)
    (hl : ∀ k, s0.nodeLock k ≠ some tid)
    (h1 : phase1 w n { s := s0, tid := tid, fault := fault, fresh := fresh0, cs := cs0 } = .error r1)
    (hc : r1.conflicted = false) (hsp : spentB r1 = true) (hcs : pastUpdated r1.cs = true) :
    HandlesCleared s0 w (commit w n { s := s0, tid := tid, fault := fault, fresh := fresh0, cs := cs0 }).2.s ∧
    NoNodeLocks tid (commit w n { s := s0, tid := tid, fault := fault, fresh := fresh0, cs := cs0 }).2.s :=
  cleared_of_done (commit_phase1_late_failure_done fault tid n r1 hl h1 hc hsp hcs)
    (commit_phase1_failure_rinv pre fault tid n r1 h1)

end
end Sop.Commit
