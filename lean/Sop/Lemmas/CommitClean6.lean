import Sop.Lemmas.CommitClean5
/-!
C07 "no blockage", failures BEFORE the reservation write of `commitUpdatedNodes`: tools. `CFrame`: invariants that
look only at the committed state (`logger.committedState`), which only `logger.log` and the end of `rollback` change.
-/
namespace Sop.Commit
set_option linter.unusedSectionVars false

class CFrame (I : Run → Prop) : Prop where
  frame : ∀ r r' : Run, I r → r'.cs = r.cs → I r'

section
variable {I : Run → Prop} [cf : CFrame I]
include cf

theorem Cf.pure (a : α) : Preserves I (Pure.pure a : M α) := Triple.pure a (fun _ h => h)
theorem Cf.fail : Preserves I (fail : M α) := Triple.fail (fun _ h => h)
theorem Cf.bind {m : M α} {f : α → M β} (hm : Preserves I m) (hf : ∀ a, Preserves I (f a)) : Preserves I (m >>= f) :=
  Triple.bind hm hf
theorem Cf.get : Preserves I get := Triple.get (fun _ h => h)
theorem Cf.getS : Preserves I getS := Triple.getS (fun _ h => h)
theorem Cf.modify (f : Run → Run) (h : ∀ r, (f r).cs = r.cs) : Preserves I (modify f) :=
  Triple.modify f (fun r hr => CFrame.frame r _ hr (h r))
theorem Cf.attempt {m : M Unit} (h : Preserves I m) : Preserves I (attempt m) := Triple.attempt h (fun _ h => h)
theorem Cf.forIn (xs : List β) (f : β → Unit → M (ForInStep Unit)) (hf : ∀ x, Preserves I (f x ())) :
    Preserves I (forIn xs () f) := Triple.forIn xs f hf
theorem Cf.whenM (c : Bool) {m : M Unit} (h : Preserves I m) : Preserves I (whenM c m) := by
  unfold Sop.Commit.whenM; split
  · exact h
  · exact Cf.pure _
theorem Cf.call (cls : Cls) (args : Args) (eff : State → State) (res : Args) (nat : State → Bool) :
    Preserves I (Sop.Commit.call cls args eff res nat) :=
  Triple.call cls args eff res nat (fun r _ _ h => CFrame.frame r _ h rfl) (fun r _ _ _ h => CFrame.frame r _ h rfl)
    (fun r _ _ h => CFrame.frame r _ h rfl)

macro "cf_auto" : tactic => `(tactic| repeat (first
  | exact Cf.pure _ | exact Cf.fail | exact Cf.get | exact Cf.getS
  | exact Cf.call _ _ _ _ _
  | exact Cf.modify _ (fun r => rfl)
  | refine Cf.bind ?_ (fun _ => ?_)
  | refine Cf.forIn _ _ (fun _ => ?_)
  | refine Cf.attempt ?_
  | refine Cf.whenM _ ?_
  | split))

theorem cf_lockItems (w : WS) : Preserves I (lockItems w) := by unfold lockItems; cf_auto
theorem cf_unlockItems (w : WS) : Preserves I (unlockItems w) := by unfold unlockItems; cf_auto
theorem cf_checkItems (w : WS) : Preserves I (checkItems w) := by unfold checkItems; cf_auto
theorem cf_unlockKeys (ids : List UUID) : Preserves I (unlockKeys ids) := by unfold unlockKeys; cf_auto
theorem cf_unlockNodesKeys : Preserves I unlockNodesKeys := by unfold unlockNodesKeys unlockKeys; cf_auto
theorem cf_mergeNodesKeys (w : WS) : Preserves I (mergeNodesKeys w) := by unfold mergeNodesKeys unlockKeys; cf_auto
theorem cf_regGet (ids : List UUID) : Preserves I (regGet ids) := by unfold regGet; cf_auto
theorem cf_addValues (w : WS) : Preserves I (addValues w) := by unfold addValues; cf_auto
theorem cf_commitStores (w : WS) : Preserves I (commitStores w) := by unfold commitStores; simp only; cf_auto
theorem cf_commitAdded (w : WS) : Preserves I (commitAdded w) := by unfold commitAdded; simp only; cf_auto
theorem cf_fetchedIntact (w : WS) : Preserves I (fetchedIntact w) := by unfold fetchedIntact regGet; simp only; cf_auto
theorem cf_commitNewRoots (w : WS) : Preserves I (commitNewRoots w) := by unfold commitNewRoots regGet; simp only; cf_auto
theorem cf_commitRemoved (w : WS) : Preserves I (commitRemoved w) := by unfold commitRemoved regGet; simp only; cf_auto
theorem cf_lockNodes : Preserves I lockNodes := by unfold lockNodes unlockKeys; simp only; cf_auto
theorem cf_dropNodeCache (ids : List UUID) : Preserves I (dropNodeCache ids) := by unfold dropNodeCache; cf_auto
theorem cf_rollbackStores (w : WS) : Preserves I (rollbackStores w) := by unfold rollbackStores; simp only; cf_auto
theorem cf_rollbackAdded (w : WS) : Preserves I (rollbackAdded w) := by unfold rollbackAdded dropNodeCache; simp only; cf_auto
theorem cf_rollbackRemoved (w : WS) : Preserves I (rollbackRemoved w) := by unfold rollbackRemoved regGet; simp only; cf_auto
theorem cf_rollbackUpdated (w : WS) : Preserves I (rollbackUpdated w) := by unfold rollbackUpdated regGet dropNodeCache; simp only; cf_auto
theorem cf_rollbackNewRoots (w : WS) : Preserves I (rollbackNewRoots w) := by unfold rollbackNewRoots regGet dropNodeCache; simp only; cf_auto
theorem cf_rollbackValues (w : WS) : Preserves I (rollbackValues w) := by unfold rollbackValues; cf_auto
theorem cf_removeCreatedStores (w : WS) : Preserves I (removeCreatedStores w) := by unfold removeCreatedStores; cf_auto

/-- where the live rollback raises, the committed state is still the one it was entered with -/
theorem cf_rollback (w : WS) (v : Bool) : Triple I (rollback w v) (fun _ _ => True) I := by
  unfold rollback
  refine Triple.bind (Q1 := fun _ => I) Cf.get (fun r0 => ?_)
  simp only
  refine Triple.bind (Q1 := fun _ => I) (Cf.whenM _ Cf.fail) (fun _ => ?_)
  refine Triple.bind (Q1 := fun _ => I) (Cf.whenM _ (Cf.bind (Cf.attempt (Cf.call _ _ _ _ _)) (fun _ => Cf.pure _))) (fun _ => ?_)
  refine Triple.bind (Q1 := fun _ => I) (Cf.whenM _ (cf_rollbackStores w)) (fun _ => ?_)
  refine Triple.bind (Q1 := fun _ => I) (Cf.whenM _ (cf_rollbackAdded w)) (fun _ => ?_)
  refine Triple.bind (Q1 := fun _ => I) (Cf.whenM _ (cf_rollbackRemoved w)) (fun _ => ?_)
  refine Triple.bind (Q1 := fun _ => I) (Cf.whenM _ (cf_rollbackUpdated w)) (fun _ => ?_)
  refine Triple.bind (Q1 := fun _ => I) cf_unlockNodesKeys (fun _ => ?_)
  refine Triple.bind (Q1 := fun _ => I) (Cf.whenM _ (cf_rollbackNewRoots w)) (fun _ => ?_)
  refine Triple.bind (Q1 := fun _ => I) (Cf.whenM _ (cf_rollbackValues w)) (fun _ => ?_)
  refine Triple.bind (Q1 := fun _ => I) (Cf.whenM _ (Cf.bind (Cf.attempt (cf_unlockItems w)) (fun _ => Cf.pure _))) (fun _ => ?_)
  refine Triple.bind (Q1 := fun _ => I) (Cf.whenM _ (cf_removeCreatedStores w)) (fun _ => ?_)
  refine Triple.bind (Q1 := fun _ => I) (Cf.attempt (Cf.call _ _ _ _ _)) (fun _ => ?_)
  exact Triple.modify _ (fun _ _ => trivial)

end

/-- `logger.log st`: the committed state is `st` from its first instruction on -/
theorem cs_logStep_set {P : Run → Prop} (st : Step) :
    Triple P (logStep st) (fun _ r => r.cs = st) (fun r => r.cs = st) := by
  unfold logStep
  refine Triple.bind (Q1 := fun _ r => r.cs = st) (Triple.modify _ (fun _ _ => rfl)) (fun _ => ?_)
  refine Triple.bind (Q1 := fun _ r => r.cs = st) (Triple.get (fun _ h => h)) (fun _ => ?_)
  exact Triple.call _ _ _ _ _ (fun _ _ _ h => h) (fun _ _ _ _ h => h) (fun _ _ _ h => h)

def CsLe (n : Nat) (r : Run) : Prop := r.cs.ord ≤ n
def CsGe (n : Nat) (r : Run) : Prop := n ≤ r.cs.ord

instance (n : Nat) : CFrame (CsLe n) where
  frame r r' h e := by unfold CsLe at *; rw [e]; exact h
instance (n : Nat) : CFrame (CsGe n) where
  frame r r' h e := by unfold CsGe at *; rw [e]; exact h
instance (c : Step) : CFrame (fun r => r.cs = c) where
  frame r r' h e := by rw [e]; exact h

theorem csge_logStep {P : Run → Prop} (n : Nat) (st : Step) (h : n ≤ st.ord) :
    Triple P (logStep st) (fun _ => CsGe n) (CsGe n) :=
  Triple.conseq (cs_logStep_set (P := P) st) (fun _ h => h) (fun _ r e => by unfold CsGe; rw [e]; exact h)
    (fun r e => by unfold CsGe; rw [e]; exact h)

theorem csge_finishPhase1 (w : WS) (n : Nat) (hn : n ≤ 9) {P : Run → Prop} :
    Triple P (finishPhase1 w) (fun _ => CsGe n) (CsGe n) := by
  unfold finishPhase1
  refine Triple.bind (csge_logStep n _ (by simpa [Step.ord] using hn)) (fun _ => ?_)
  refine Triple.bind (cf_commitStores w) (fun _ => ?_)
  refine Triple.bind (csge_logStep n _ (by simp [Step.ord]; omega)) (fun _ => ?_)
  refine Cf.bind Cf.get (fun r => ?_)
  refine Cf.bind (Cf.whenM _ (Cf.call _ _ _ _ _)) (fun _ => ?_)
  refine Cf.bind (cf_checkItems w) (fun _ => ?_)
  refine Cf.bind Cf.get (fun r => ?_)
  refine Cf.whenM _ ?_
  refine Cf.bind (Cf.attempt (Cf.call _ _ _ _ _)) (fun ok => ?_)
  exact Cf.whenM _ (Cf.call _ _ _ _ _)

end Sop.Commit
