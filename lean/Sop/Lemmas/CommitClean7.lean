import Sop.Lemmas.CommitClean6
/-!
C07 "no blockage", failures BEFORE the reservation write of `commitUpdatedNodes` takes effect: the registry entries
of the updated nodes are never written, the live rollback (which skips `rollbackUpdatedNodes` at that committed
state) has nothing to undo on them, and — the fault being spent — it releases the node locks.
-/
namespace Sop.Commit
set_option linter.unusedSectionVars false

/-- the registry entries of the updated nodes are the start state's (or gone) -/
def SameI (s0 : State) (w : WS) (r : Run) : Prop :=
  NS r ∧ ∀ lid ∈ w.updIds, r.s.reg lid = s0.reg lid ∨ r.s.reg lid = none

instance (s0 : State) (w : WS) : XFrame w.updIds (SameI s0 w) where
  ns _ h := h.1
  frame r r' h a b _ _ _ f := by
    refine ⟨⟨a ▸ h.1.1, b ▸ h.1.2⟩, fun lid hl => ?_⟩
    rcases f lid hl with e | e
    · rw [e]; exact h.2 lid hl
    · exact .inr e

/-- the fault classes that can fail at committed state `areFetchedItemsIntact` without a reservation having been written -/
def safe5 : Option Fault → Bool
  | none => true
  | some f => f.cls == .tlogAdd || f.cls == .regGet || (f.cls == .regUpdateNoLocks && f.kind == .failBefore)

/-- phase 1 stopped before the reservation write of `commitUpdatedNodes` took effect: the committed state is at
most `commitNewRootNodes`, or it is `areFetchedItemsIntact` and the fault is not one that fires after that write -/
def earlyB (r : Run) : Bool :=
  decide (r.cs.ord ≤ Step.commitNewRootNodes.ord) || (r.cs == .areFetchedItemsIntact && safe5 r.fault)

section
variable {s0 : State} {w : WS}

/-- what phase 1 promises where it raises -/
def E1 (s0 : State) (w : WS) (r : Run) : Prop := r.conflicted = true ∨ (earlyB r = true → SameI s0 w r)

theorem e1_of_same {r : Run} (h : SameI s0 w r) : E1 s0 w r := .inr (fun _ => h)

theorem e1_of_ge6 {r : Run} (h : CsGe 6 r) : E1 s0 w r := by
  refine .inr (fun he => ?_)
  unfold CsGe at h
  unfold earlyB at he
  cases hc : r.cs <;> rw [hc] at h he <;> simp [Step.ord] at h he

/-- lock calls, `nodesKeys` updates: the registry is not touched -/
theorem same_eff {r : Run} (h : SameI s0 w r) (occs : List (Cls × Nat)) (tr : List Ev) (s' : State) (e : s'.reg = r.s.reg) :
    SameI s0 w { r with occs := occs, trace := tr, s := s' } :=
  ⟨h.1, fun lid hl => by show s'.reg lid = _ ∨ s'.reg lid = none; rw [e]; exact h.2 lid hl⟩

theorem same_unlockKeys {E : Run → Prop} (ids : List UUID) : Triple (SameI s0 w) (attempt (unlockKeys ids)) (fun _ => SameI s0 w) E := by
  refine X.attempt ?_
  unfold unlockKeys
  exact X.bind X.get (fun _ => X.callEff _ _ _ _ _ (fun r o t h => same_eff h o t _ rfl))

theorem same_unlockNodesKeys {E : Run → Prop} : Triple (SameI s0 w) unlockNodesKeys (fun _ => SameI s0 w) E := by
  unfold unlockNodesKeys
  refine X.bind X.get (fun r0 => ?_)
  split
  · exact X.pure _
  · exact X.bind (same_unlockKeys _) (fun _ => Triple.modify _ (fun _ h => h))

theorem same_mergeNodesKeys (w' : WS) : Preserves (SameI s0 w) (mergeNodesKeys w') := by
  unfold mergeNodesKeys
  split
  · exact X.bind (same_unlockKeys _) (fun _ => Triple.modify _ (fun _ h => h))
  · exact Triple.modify _ (fun _ h => h)

theorem same_lockNodes : Preserves (SameI s0 w) lockNodes := by
  unfold lockNodes
  refine X.bind X.get (fun r0 => ?_)
  simp only
  refine X.bind (X.attempt (X.callEff _ _ _ _ _ (fun r o t h => same_eff h o t _ ?_))) (fun ok => ?_)
  · split <;> rfl
  split
  · exact X.bind (same_unlockKeys _) (fun _ => X.fail)
  split
  · exact X.pure _
  exact X.bind (X.callMono _ _ _ _ _ (fun s => ⟨rfl, fun _ _ => .inl rfl⟩)) (fun _ => X.pure _)

theorem same_commitNewRoots (pre2 : Pre2 s0 w fresh0) : Preserves (SameI s0 w) (commitNewRoots w) := by
  unfold commitNewRoots
  simp only
  split
  · exact X.pure _
  · refine X.bind (x_regGet _) (fun hs => ?_)
    split
    · exact X.pure _
    · refine X.bind (X.callMono _ _ _ _ _ (fun s => ⟨State.addBlobs_nodeLock _ _, fun k _ => .inl (by rw [State.addBlobs_reg])⟩)) (fun _ => ?_)
      refine X.bind (X.callMono _ _ _ _ _ (fun s => ⟨State.setRegs_nodeLock _ _, fun k hk => .inl ?_⟩)) (fun _ => X.pure _)
      apply State.setRegs_reg_of_not_mem
      intro h hm e
      obtain ⟨i, hi, rfl⟩ := List.mem_map.mp hm
      exact pre2.updOld k hk (by rw [← e]; exact rootIds_new hi)

/-! ### phase 1 -/

/-- the early part of phase 1: registry of the updated nodes untouched, committed state at most `areFetchedItemsIntact` -/
def EI (s0 : State) (w : WS) (r : Run) : Prop := SameI s0 w r ∧ CsLe 5 r

theorem ei_step {α : Type} {m : M α} (h1 : Preserves (SameI s0 w) m) (h2 : Preserves (CsLe 5) m) :
    Triple (EI s0 w) m (fun _ => EI s0 w) (E1 s0 w) :=
  Triple.conseq (Triple.and h1 h2) (fun _ h => h) (fun _ _ h => h) (fun _ h => e1_of_same h.1)

theorem ei_logStep {P : Run → Prop} (hP : ∀ r, P r → SameI s0 w r) (st : Step) (h : st.ord ≤ 5) :
    Triple P (logStep st) (fun _ r => SameI s0 w r ∧ r.cs = st) (E1 s0 w) :=
  Triple.conseq (Triple.and (x_logStep (I := SameI s0 w) st) (cs_logStep_set (P := fun _ => True) st))
    (fun r hr => ⟨hP r hr, trivial⟩) (fun _ _ h => h) (fun _ h => e1_of_same h.1)

theorem ge6_step {α : Type} {m : M α} (h : Preserves (CsGe 6) m) :
    Triple (CsGe 6) m (fun _ => CsGe 6) (E1 s0 w) :=
  Triple.conseq h (fun _ h => h) (fun _ _ h => h) (fun _ h => e1_of_ge6 h)

/-- `commitUpdatedNodes` entered at committed state `areFetchedItemsIntact`: where it raises with a fault of a safe
class, the reservation has not been written -/
theorem e1_commitUpdated :
    Triple (fun r => SameI s0 w r ∧ r.cs = .areFetchedItemsIntact) (commitUpdated w) (fun _ _ => True) (E1 s0 w) := by
  have I5 : ∀ {α : Type} {m : M α}, Preserves (SameI s0 w) m → Preserves (fun r => r.cs = Step.areFetchedItemsIntact) m →
      Triple (fun r => SameI s0 w r ∧ r.cs = .areFetchedItemsIntact) m (fun _ r => SameI s0 w r ∧ r.cs = .areFetchedItemsIntact) (E1 s0 w) :=
    fun h1 h2 => Triple.conseq (Triple.and h1 h2) (fun _ h => h) (fun _ _ h => h) (fun _ h => e1_of_same h.1)
  have dead : ∀ (r : Run) (f : Fault), r.cs = .areFetchedItemsIntact → r.fault = some f →
      (f.cls = .blobAdd ∨ (f.cls = .regUpdateNoLocks ∧ f.kind = .failAfter)) → E1 s0 w r := by
    intro r f hcs hfa hcl
    refine .inr (fun he => ?_)
    unfold earlyB at he
    rw [hcs, hfa] at he
    rcases hcl with e | ⟨e1, e2⟩
    · simp [Step.ord, safe5, e] at he
    · simp [Step.ord, safe5, e1, e2] at he
  unfold commitUpdated
  simp only
  split
  · exact Triple.pure _ (fun _ _ => trivial)
  · refine Triple.bind (I5 (x_regGet _) (cf_regGet _)) (fun hs => ?_)
    split
    · exact Triple.pure _ (fun _ _ => trivial)
    · refine Triple.bind (I5 X.get Cf.get) (fun r0 => ?_)
      split
      · exact Triple.pure _ (fun _ _ => trivial)
      · refine Triple.bind (I5 (X.modify _ (fun r => ⟨rfl, rfl, rfl, rfl, rfl⟩)) (Cf.modify _ (fun r => rfl))) (fun _ => ?_)
        refine Triple.bind (Q1 := fun _ r => NS r ∧ r.cs = .areFetchedItemsIntact) ?_ (fun _ => ?_)
        · exact Triple.callFull _ _ _ _ _ (fun r _ h => ⟨h.1.1, h.2⟩)
            (fun r _ h hs => by have := h.1.1.1; rw [this] at hs; cases hs)
            (fun r _ _ hn => by cases hn)
            (fun r _ f h _ _ _ _ => e1_of_same (same_eff h.1 _ _ r.s rfl))
            (fun r _ f h hfa h1 h2 _ => dead _ f h.2 hfa (.inr ⟨h1, h2⟩))
        refine Triple.bind (Q1 := fun _ _ => True) ?_ (fun _ => ?_)
        · exact Triple.callFull _ _ _ _ _ (fun _ _ _ => trivial)
            (fun r _ h hs => by have := h.1.1; rw [this] at hs; cases hs)
            (fun r _ _ hn => by cases hn)
            (fun r _ f h hfa h1 _ _ => dead _ f h.2 hfa (.inl h1))
            (fun r _ f h hfa h1 _ _ => dead _ f h.2 hfa (.inl h1))
        exact Triple.bind (Q1 := fun _ _ => True) (Triple.modify _ (fun _ _ => trivial)) (fun _ => Triple.pure _ (fun _ _ => trivial))

theorem e1_phase1Body (pre2 : Pre2 s0 w fresh0) :
    Triple (EI s0 w) (phase1Body w) (fun _ r => EI s0 w r ∨ CsGe 6 r) (E1 s0 w) := by
  have toEI : ∀ (st : Step), st.ord ≤ 5 → ∀ r, (SameI s0 w r ∧ r.cs = st) → EI s0 w r :=
    fun st h r hr => ⟨hr.1, by unfold CsLe; rw [hr.2]; exact h⟩
  unfold phase1Body
  refine Triple.bind (Triple.conseq (ei_logStep (P := EI s0 w) (fun _ h => h.1) .commitTrackedItemsValues (by decide))
    (fun _ h => h) (fun _ r h => toEI _ (by decide) r h) (fun _ h => h)) (fun _ => ?_)
  refine Triple.bind (ei_step (x_addValues w) (cf_addValues w)) (fun _ => ?_)
  refine Triple.bind (Triple.conseq (ei_logStep (P := EI s0 w) (fun _ h => h.1) .commitNewRootNodes (by decide))
    (fun _ h => h) (fun _ r h => toEI _ (by decide) r h) (fun _ h => h)) (fun _ => ?_)
  refine Triple.bind (ei_step (same_commitNewRoots pre2) (cf_commitNewRoots w)) (fun ok => ?_)
  split
  · exact Triple.pure _ (fun _ h => .inl h)
  refine Triple.bind (ei_logStep (P := EI s0 w) (fun _ h => h.1) .areFetchedItemsIntact (by decide)) (fun _ => ?_)
  refine Triple.bind (Q1 := fun _ r => SameI s0 w r ∧ r.cs = .areFetchedItemsIntact)
    (Triple.conseq (Triple.and (x_fetchedIntact (I := SameI s0 w) w) (cf_fetchedIntact (I := fun r => r.cs = Step.areFetchedItemsIntact) w))
      (fun _ h => h) (fun _ _ h => h) (fun _ h => e1_of_same h.1)) (fun ok => ?_)
  split
  · exact Triple.pure _ (fun r h => .inl (toEI _ (by decide) r h))
  refine Triple.bind e1_commitUpdated (fun ok => ?_)
  refine Triple.bind (Triple.conseq (csge_logStep (P := fun _ => True) 6 .commitUpdatedNodes (by decide))
    (fun _ h => h) (fun _ _ h => h) (fun _ h => e1_of_ge6 h)) (fun _ => ?_)
  split
  · exact Triple.pure _ (fun _ h => .inr h)
  refine Triple.bind (Triple.conseq (csge_logStep (P := CsGe 6) 6 .commitRemovedNodes (by decide))
    (fun _ h => h) (fun _ _ h => h) (fun _ h => e1_of_ge6 h)) (fun _ => ?_)
  refine Triple.bind (ge6_step (cf_commitRemoved w)) (fun ok => ?_)
  split
  · exact Triple.pure _ (fun _ h => .inr h)
  refine Triple.bind (Triple.conseq (csge_logStep (P := CsGe 6) 6 .commitAddedNodes (by decide))
    (fun _ h => h) (fun _ _ h => h) (fun _ h => e1_of_ge6 h)) (fun _ => ?_)
  exact Triple.bind (ge6_step (cf_commitAdded w)) (fun _ => Triple.pure _ (fun _ h => .inr h))

/-- decide an inequality between the committed state's number and a step constant -/
macro "ord_omega" : tactic => `(tactic| (
  have h6 : Step.commitUpdatedNodes.ord = 6 := rfl
  have h7 : Step.commitRemovedNodes.ord = 7 := rfl
  have h8 : Step.commitAddedNodes.ord = 8 := rfl
  have h9 : Step.commitStoreInfo.ord = 9 := rfl
  have h10 : Step.beforeFinalize.ord = 10 := rfl
  have h11 : Step.finalizeCommit.ord = 11 := rfl
  simp only [decide_eq_false_iff_not]
  omega))

theorem Triple.whenM_off {P : Run → Prop} {E : Run → Prop} (c : Bool) (m : M Unit) (hc : c = false) :
    Triple P (whenM c m) (fun _ => P) E := by
  subst hc
  exact Triple.pure _ (fun _ h => h)

/-- the live rollback entered at a committed state before `commitUpdatedNodes` was logged: it writes no registry
entry of an updated node (`rollbackUpdatedNodes` is skipped) -/
theorem same_rollback_early (v : Bool) : Triple (EI s0 w) (rollback w v) (fun _ => SameI s0 w) (EI s0 w) := by
  unfold rollback
  refine Triple.bind (Q1 := fun r0 r => EI s0 w r ∧ r0.cs.ord ≤ 5) (Triple.get (fun _ h => ⟨h, h.2⟩)) (fun r0 r hr => ?_)
  obtain ⟨hA, hle⟩ := hr
  revert r
  show Triple (EI s0 w) _ _ _
  have keep : ∀ {m : M Unit}, (∀ E, Triple (SameI s0 w) m (fun _ => SameI s0 w) E) → Preserves (CsLe 5) m →
      Triple (EI s0 w) m (fun _ => EI s0 w) (EI s0 w) :=
    fun h1 h2 => Triple.conseq (Triple.and (h1 (SameI s0 w)) h2) (fun _ h => h) (fun _ _ h => h) (fun _ h => h)
  refine Triple.bind (Triple.whenM_off _ _ (by ord_omega)) (fun _ => ?_)
  refine Triple.bind (Triple.whenM_off _ _ (by ord_omega)) (fun _ => ?_)
  refine Triple.bind (Triple.whenM_off _ _ (by ord_omega)) (fun _ => ?_)
  refine Triple.bind (Triple.whenM_off _ _ (by ord_omega)) (fun _ => ?_)
  refine Triple.bind (Triple.whenM_off _ _ (by ord_omega)) (fun _ => ?_)
  refine Triple.bind (Triple.whenM_off _ _ (by ord_omega)) (fun _ => ?_)
  refine Triple.bind (Q1 := fun _ => SameI s0 w)
    (Triple.conseq (same_unlockNodesKeys (E := EI s0 w)) (fun _ h => h.1) (fun _ _ h => h) (fun _ h => h)) (fun _ => ?_)
  exact x_tail w v _ _

/-- the live rollback with the fault spent releases every node lock, whatever the committed state -/
theorem rollback_spent_unlocks (tid : Tid) (v : Bool) :
    Triple (fun r => (SP0 r ∧ LockI tid r) ∧ r.cs.ord ≤ Step.finalizeCommit.ord)
      (rollback w v) (fun _ => NoLockI tid) (fun _ => False) := by
  unfold rollback
  refine Triple.bind (Q1 := fun r0 r => (SP0 r ∧ LockI tid r) ∧ r0.cs.ord ≤ Step.finalizeCommit.ord)
    (Triple.get (fun _ h => h)) (fun r0 r hr => ?_)
  obtain ⟨hA, hhi⟩ := hr
  revert r
  show Triple (fun r => SP0 r ∧ LockI tid r) _ _ _
  have A : ∀ {m : M Unit}, NoRaise m → (∀ E, Triple (LockI tid) m (fun _ => LockI tid) E) →
      Triple (fun r => SP0 r ∧ LockI tid r) m (fun _ r => SP0 r ∧ LockI tid r) (fun _ => False) :=
    fun h1 h2 => Triple.andNR h1 (h2 (fun _ => True))
  refine Triple.bind (Triple.whenM_off _ _ (by ord_omega)) (fun _ => ?_)
  refine Triple.bind (Triple.whenM' _ (A (by sp_auto) (fun E => X.bind (X.attempt (X.callMono _ _ _ _ _ (fun s => ⟨rfl, fun _ _ => .inl rfl⟩))) (fun _ => X.pure _)))) (fun _ => ?_)
  refine Triple.bind (Triple.whenM' _ (A (nr_rollbackStores w) (fun E => x_rollbackStores w))) (fun _ => ?_)
  refine Triple.bind (Triple.whenM' _ (A (nr_rollbackAdded w) (fun E => x_rollbackAdded w))) (fun _ => ?_)
  refine Triple.bind (Triple.whenM' _ (A (nr_rollbackRemoved w) (fun E => x0_rollbackRemoved w))) (fun _ => ?_)
  refine Triple.bind (Triple.whenM' _ (Triple.andNR (E := fun _ => False) (nr_rollbackUpdated w) (x0_rollbackUpdated (I := LockI tid) w))) (fun _ => ?_)
  refine Triple.bind (Q1 := fun _ => NoLockI tid)
    (Triple.conseq (unlockNodesKeys_releases tid) (fun _ h => h) (fun _ _ h => h.2) (fun _ h => h)) (fun _ => ?_)
  exact x_tail w v _ _

/-- **phase 1, wherever it raises without a conflict: if it stopped early (`earlyB`), no registry entry of an updated
node has been written** -/
theorem e1_phase1 (pre2 : Pre2 s0 w fresh0) (n : Nat) :
    Triple (SameI s0 w) (phase1 w n) (fun _ _ => True) (E1 s0 w) := by
  unfold phase1
  split
  · exact Triple.pure _ (fun _ _ => trivial)
  refine Triple.bind (Q1 := fun _ => EI s0 w) (Triple.conseq (ei_logStep (P := SameI s0 w) (fun _ h => h) .lockTrackedItems (by decide))
    (fun _ h => h) (fun _ r h => ⟨h.1, by unfold CsLe; rw [h.2]; decide⟩) (fun _ h => h)) (fun _ => ?_)
  refine Triple.bind (ei_step (x_lockItems w) (cf_lockItems w)) (fun _ => ?_)
  refine Triple.bind (ei_step (same_mergeNodesKeys w) (cf_mergeNodesKeys w)) (fun _ => ?_)
  refine Triple.bind (ei_step same_lockNodes cf_lockNodes) (fun locked => ?_)
  split
  · -- giveUpLocked: a conflict
    unfold giveUpLocked
    refine Triple.bind (Q1 := fun _ => SameI s0 w) (Triple.get (fun _ h => h.1)) (fun r => ?_)
    refine Triple.bind (same_unlockKeys _) (fun _ => ?_)
    refine Triple.bind (Q1 := fun _ r => r.conflicted = true) (Triple.modify _ (fun _ _ => rfl)) (fun _ => ?_)
    exact Triple.fail (fun _ h => .inl h)
  refine Triple.bind (e1_phase1Body pre2) (fun ok => ?_)
  split
  · -- conflictRound
    unfold conflictRound
    intro r hr
    rcases hr with hr | hr
    · revert r
      show Triple (EI s0 w) _ _ _
      refine Triple.bind (Q1 := fun _ => EI s0 w) (Triple.whenM' _ (Triple.fail (fun _ h => e1_of_same h.1))) (fun _ => ?_)
      refine Triple.bind (Triple.conseq (same_rollback_early false) (fun _ h => h) (fun _ _ h => h) (fun _ h => e1_of_same h.1)) (fun _ => ?_)
      refine Triple.bind (Q1 := fun _ r => r.conflicted = true) (Triple.modify _ (fun _ _ => rfl)) (fun _ => ?_)
      exact Triple.fail (fun _ h => .inl h)
    · revert r
      show Triple (CsGe 6) _ _ _
      refine Triple.bind (Q1 := fun _ => CsGe 6) (Triple.whenM' _ (Triple.fail (fun _ h => e1_of_ge6 h))) (fun _ => ?_)
      refine Triple.bind (Q1 := fun _ _ => True) (Triple.conseq (cf_rollback (I := CsGe 6) w false) (fun _ h => h) (fun _ _ h => h) (fun _ h => e1_of_ge6 h)) (fun _ => ?_)
      refine Triple.bind (Q1 := fun _ r => r.conflicted = true) (Triple.modify _ (fun _ _ => rfl)) (fun _ => ?_)
      exact Triple.fail (fun _ h => .inl h)
  · exact Triple.conseq (csge_finishPhase1 (P := fun r => EI s0 w r ∨ CsGe 6 r) w 6 (by decide)) (fun _ h => h) (fun _ _ _ => trivial) (fun _ h => e1_of_ge6 h)

end

section
variable {s0 : State} {w : WS} {fresh0 : List (UUID × UUID)}

/-- every updated node that was loadable at the start has exactly the registry entry it had -/
def HandlesUntouched (s0 : State) (w : WS) (s' : State) : Prop :=
  ∀ lid ∈ w.updated.map (·.1), (s0.view lid).isSome → s'.reg lid = s0.reg lid

/-- **A commit that fails in phase 1, by its injected fault, before the reservation write of `commitUpdatedNodes`
took effect** leaves the updated nodes' registry entries exactly as they were and no node lock. -/
theorem commit_phase1_early_failure_no_blockage (pre : Pre s0 w fresh0) (pre2 : Pre2 s0 w fresh0)
    (fault : Option Fault) {cs0 : Step} (tid : Tid) (n : Nat) (r1 : Run)
    (hl : ∀ k, s0.nodeLock k ≠ some tid)
    (h1 : phase1 w n { s := s0, tid := tid, fault := fault, fresh := fresh0, cs := cs0 } = .error r1)
    (hc : r1.conflicted = false) (hsp : spentB r1 = true) (he : earlyB r1 = true) :
    HandlesUntouched s0 w (commit w n { s := s0, tid := tid, fault := fault, fresh := fresh0, cs := cs0 }).2.s ∧
    NoNodeLocks tid (commit w n { s := s0, tid := tid, fault := fault, fresh := fresh0, cs := cs0 }).2.s := by
  have hri := commit_phase1_failure_rinv pre fault tid n r1 h1
  have hp1 := lockI_phase1 (tid := tid) w n { s := s0, tid := tid, fault := fault, fresh := fresh0, cs := cs0 }
    ⟨⟨rfl, rfl⟩, rfl, hl⟩
  rw [h1] at hp1
  have hli : LockI tid r1 := by
    rcases hp1 with a | a
    · rw [hc] at a; cases a
    · exact a
  have hs1 := e1_phase1 (s0 := s0) (w := w) pre2 n { s := s0, tid := tid, fault := fault, fresh := fresh0, cs := cs0 }
    ⟨⟨rfl, rfl⟩, fun _ _ => .inl rfl⟩
  rw [h1] at hs1
  have hsame : SameI s0 w r1 := by
    rcases hs1 with a | a
    · rw [hc] at a; cases a
    · exact a he
  have hle : r1.cs.ord ≤ 5 := by
    unfold earlyB at he
    cases hcs : r1.cs <;> rw [hcs] at he <;> simp [Step.ord] at he ⊢
  have hk1 := same_rollback_early (s0 := s0) (w := w) true r1 ⟨hsame, hle⟩
  have hk2 := rollback_spent_unlocks (w := w) tid true r1 ⟨⟨sp0_of (spent_of_spentB hsp) hli, hli⟩, by have h11 : Step.finalizeCommit.ord = 11 := rfl; omega⟩
  have key : ∀ rf, RInv s0 w fresh0 rf → SameI s0 w rf → NoLockI tid rf → HandlesUntouched s0 w rf.s ∧ NoNodeLocks tid rf.s := by
    intro rf hi hsm hnl
    refine ⟨?_, hnl.2.2⟩
    intro lid hlid hv
    obtain ⟨g, g0, a, b, _⟩ := hi.1.loadable_active hv
    rcases hsm.2 lid hlid with e | e
    · exact e
    · rw [a] at e; cases e
  revert hri
  unfold commit
  simp only [h1, hc, Bool.false_eq_true, ↓reduceIte]
  split
  · rename_i r' e
    rw [e] at hk1 hk2
    exact fun hri => key _ hri hk1 hk2
  · rename_i r' e
    rw [e] at hk2
    exact hk2.elim

end
end Sop.Commit
