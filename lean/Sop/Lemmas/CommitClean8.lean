import Sop.Lemmas.CommitClean7
/-!
C07 "no blockage": the three whole-run theorems under one decidable description of the covered failures.
-/
namespace Sop.Commit
set_option linter.unusedSectionVars false

/-- every updated node that was loadable at the start has its handle back — same logical id, same active blob id,
same version — and it is either exactly the registry entry it was, or its inactive slot and work-in-progress
timestamp are empty -/
def HandlesRestored (s0 : State) (w : WS) (s' : State) : Prop :=
  ∀ lid ∈ w.updated.map (·.1), ∀ h0, s0.reg lid = some h0 → (s0.view lid).isSome →
    ∃ g, s'.reg lid = some g ∧ g.lid = lid ∧ g.active = h0.active ∧ g.version = h0.version ∧
      (g = h0 ∨ (g.inactive = 0 ∧ g.wip = 0))

theorem HandlesCleared.restored {s0 : State} {w : WS} {s' : State} (h : HandlesCleared s0 w s') : HandlesRestored s0 w s' := by
  intro lid hl h0 e0 hv
  obtain ⟨g, a, b, c, d, e, f⟩ := h lid hl h0 e0 hv
  exact ⟨g, a, b, c, d, .inr ⟨e, f⟩⟩

theorem HandlesUntouched.restored {s0 : State} {w : WS} {s' : State} (hwf : ∀ i h, s0.reg i = some h → h.lid = i)
    (h : HandlesUntouched s0 w s') : HandlesRestored s0 w s' := by
  intro lid hl h0 e0 hv
  exact ⟨h0, by rw [h lid hl hv]; exact e0, hwf lid h0 e0, rfl, rfl, .inl rfl⟩

/-- where phase 1 stopped, as a decidable predicate on the run at the failing call: not a conflict round, the injected
fault has fired (the error is the fault's, not one the code detected by itself with the fault still pending), and the
committed state — which is what drives `rollback` — is either past `commitUpdatedNodes` or early (see `earlyB`).
What it excludes is exactly: committed state `areFetchedItemsIntact` with a `blob.Add` fault or a `failAfter` fault on
`registry.UpdateNoLocks` (inside `commitUpdatedNodes`, finding C07-F1), and committed state `commitUpdatedNodes`
(the log entry written after `commitUpdatedNodes` returned fails, C07-F1). -/
def coveredStop (r1 : Run) : Bool := !r1.conflicted && spentB r1 && (pastUpdated r1.cs || earlyB r1)

/-- the covered failures of a whole commit, computed on the model: every failure of phase 2, and the failures of
phase 1 that stop at a `coveredStop` -/
def coveredFailure (w : WS) (n : Nat) (r0 : Run) : Bool :=
  match phase1 w n r0 with
  | .ok _ => true
  | .error r1 => coveredStop r1

section
variable {s0 : State} {w : WS} {fresh0 : List (UUID × UUID)}

/-- **A failed commit leaves no reservation and no node lock** — for every write set and start state (`Pre`, `Pre2`),
every transaction id holding no node lock at the start, and every fault in the covered class. -/
theorem commit_failure_no_blockage (pre : Pre s0 w fresh0) (pre2 : Pre2 s0 w fresh0)
    (fault : Option Fault) {cs0 : Step} (tid : Tid) (n : Nat)
    (hl : ∀ k, s0.nodeLock k ≠ some tid)
    (herr : (commit w n { s := s0, tid := tid, fault := fault, fresh := fresh0, cs := cs0 }).1 = .err)
    (hcov : coveredFailure w n { s := s0, tid := tid, fault := fault, fresh := fresh0, cs := cs0 } = true) :
    HandlesRestored s0 w (commit w n { s := s0, tid := tid, fault := fault, fresh := fresh0, cs := cs0 }).2.s ∧
    NoNodeLocks tid (commit w n { s := s0, tid := tid, fault := fault, fresh := fresh0, cs := cs0 }).2.s := by
  cases h1 : phase1 w n { s := s0, tid := tid, fault := fault, fresh := fresh0, cs := cs0 } with
  | ok p =>
    obtain ⟨u, r1⟩ := p
    cases h2 : phase2 w r1 with
    | ok q =>
      obtain ⟨u', r2⟩ := q
      unfold commit at herr
      simp only [h1, h2] at herr
      cases herr
    | error r2 =>
      obtain ⟨a, b⟩ := commit_phase2_failure_no_blockage pre pre2 fault tid n r1 r2 hl h1 h2
      exact ⟨a.restored, b⟩
  | error r1 =>
    unfold coveredFailure coveredStop at hcov
    rw [h1] at hcov
    simp only [Bool.and_eq_true, Bool.not_eq_true', Bool.or_eq_true] at hcov
    obtain ⟨⟨hc, hsp⟩, hpos⟩ := hcov
    rcases hpos with hp | he
    · obtain ⟨a, b⟩ := commit_phase1_late_failure_no_blockage pre fault tid n r1 hl h1 hc hsp hp
      exact ⟨a.restored, b⟩
    · obtain ⟨a, b⟩ := commit_phase1_early_failure_no_blockage pre pre2 fault tid n r1 hl h1 hc hsp he
      exact ⟨a.restored pre.regwf, b⟩

/-- **…and the registry part needs no assumption on the fault at all**: a commit whose phase 1 stops early (`earlyB`) —
by the injected fault or by an error the code detects itself, with the fault then free to hit any call of the live
rollback — leaves the updated nodes' registry entries exactly as they were. -/
theorem commit_phase1_early_failure_untouched (pre : Pre s0 w fresh0) (pre2 : Pre2 s0 w fresh0)
    (fault : Option Fault) {cs0 : Step} (tid : Tid) (n : Nat) (r1 : Run)
    (h1 : phase1 w n { s := s0, tid := tid, fault := fault, fresh := fresh0, cs := cs0 } = .error r1)
    (hc : r1.conflicted = false) (he : earlyB r1 = true) :
    HandlesUntouched s0 w (commit w n { s := s0, tid := tid, fault := fault, fresh := fresh0, cs := cs0 }).2.s := by
  have hri := commit_phase1_failure_rinv pre fault tid n r1 h1
  have hs1 := e1_phase1 (s0 := s0) (w := w) pre2 n { s := s0, tid := tid, fault := fault, fresh := fresh0, cs := cs0 }
    ⟨⟨rfl, rfl⟩, fun _ _ => .inl rfl⟩
  rw [h1] at hs1
  have hsame : SameI s0 w r1 := by
    rcases hs1 with a | a
    · rw [hc] at a; cases a
    · exact a he
  have hle : r1.cs.ord ≤ 5 := by
    unfold earlyB at he
    cases hcs : r1.cs <;> rw [hcs] at he <;> simp [Step.ord] at he ⊢
  have hk1 := same_rollback_early (s0 := s0) (w := w) true r1 ⟨hsame, hle⟩
  have key : ∀ rf, RInv s0 w fresh0 rf → SameI s0 w rf → HandlesUntouched s0 w rf.s := by
    intro rf hi hsm lid hlid hv
    obtain ⟨g, g0, a, b, _⟩ := hi.1.loadable_active hv
    rcases hsm.2 lid hlid with e | e
    · exact e
    · rw [a] at e; cases e
  revert hri
  unfold commit
  simp only [h1, hc, Bool.false_eq_true, ↓reduceIte]
  split
  · rename_i r' e
    rw [e] at hk1
    exact fun hri => key _ hri hk1
  · rename_i r' e
    rw [e] at hk1
    exact fun hri => key _ hri hk1.1

end
end Sop.Commit

namespace Sop.Commit.Witness
open Sop.Commit

theorem pre2_wSplit : Pre2 s0 wSplit [(1, 9)] := by
  have hreg : ∀ i h, s0.reg i = some h → i = 1 := by
    intro i h e
    simp only [s0, State.setReg, State.setBlob] at e
    split at e
    · rename_i hi; exact hi
    · cases e
  refine ⟨by decide, ?_, by decide, ?_, ?_, ?_, ?_⟩
  · intro i _ hm; simp [WS.removed, wSplit] at hm
  · intro i hm; simp [WS.removed, wSplit] at hm
  · intro i j h h' e e' hne; exact absurd ((hreg i h e).trans (hreg j h' e').symm) hne
  · intro i h _ hm; simp [WS.obsoleteValues, wSplit] at hm
  · intro p _ hm; simp [WS.obsoleteValues, wSplit] at hm

theorem s0_no_locks (tid : Tid) : ∀ k, s0.nodeLock k ≠ some tid := by
  intro k h
  cases h

end Sop.Commit.Witness
