import Sop.Lemmas.CommitSuccess
/-!
Store counts on the success path: nothing but `commitStores` (one `StoreRepository.Update` with the stores'
deltas) touches a count between the start of `Commit` and its successful end.
-/
namespace Sop.Commit
set_option linter.unusedSectionVars false

theorem State.addBlobs_cnt (s : State) (ids : List UUID) : (s.addBlobs ids).cnt = s.cnt := by
  unfold State.addBlobs
  induction ids generalizing s with
  | nil => rfl
  | cons h t ih => simp only [List.foldl_cons, ih]; rfl
theorem State.delBlobs_cnt (s : State) (ids : List UUID) : (s.delBlobs ids).cnt = s.cnt := by
  unfold State.delBlobs
  induction ids generalizing s with
  | nil => rfl
  | cons h t ih => simp only [List.foldl_cons, ih]; rfl
theorem State.delRegs_cnt (s : State) (ids : List UUID) : (s.delRegs ids).cnt = s.cnt := by
  unfold State.delRegs
  induction ids generalizing s with
  | nil => rfl
  | cons h t ih => simp only [List.foldl_cons, ih]; rfl

/-- the counts are `c` -/
def CNT (c : Nat → Int) (r : Run) : Prop := r.s.cnt = c

section
variable {c : Nat → Int}
local notation "I" => CNT c

theorem C.pure (a : α) : Preserves I (Pure.pure a : M α) := Triple.pure a (fun _ h => h)
theorem C.fail : Preserves I (fail : M α) := Triple.fail (fun _ h => h)
theorem C.bind {m : M α} {f : α → M β} (hm : Preserves I m) (hf : ∀ a, Preserves I (f a)) : Preserves I (m >>= f) :=
  Triple.bind hm hf
theorem C.get : Preserves I get := Triple.get (fun _ h => h)
theorem C.getS : Preserves I getS := Triple.getS (fun _ h => h)
theorem C.modify (f : Run → Run) (h : ∀ r, (f r).s = r.s) : Preserves I (modify f) :=
  Triple.modify f (fun r hr => by unfold CNT at *; rw [h r]; exact hr)
theorem C.attempt {m : M Unit} (h : Preserves I m) : Preserves I (attempt m) := Triple.attempt h (fun _ h => h)
theorem C.forIn (xs : List β) (f : β → Unit → M (ForInStep Unit)) (hf : ∀ x, Preserves I (f x ())) :
    Preserves I (forIn xs () f) := Triple.forIn xs f hf
theorem C.whenM (b : Bool) {m : M Unit} (h : Preserves I m) : Preserves I (whenM b m) := by
  unfold Sop.Commit.whenM; split
  · exact h
  · exact C.pure _
theorem C.call (cls : Cls) (args : Args) (eff : State → State) (res : Args) (nat : State → Bool)
    (h : ∀ s, (eff s).cnt = s.cnt) : Preserves I (Sop.Commit.call cls args eff res nat) :=
  Triple.call cls args eff res nat
    (fun r _ _ hr => by show (eff r.s).cnt = c; rw [h]; exact hr) (fun _ _ _ _ hr => hr)
    (fun r _ _ hr => by show (eff r.s).cnt = c; rw [h]; exact hr)

macro "cnt_auto" : tactic => `(tactic| repeat (first
  | exact C.pure _ | exact C.fail | exact C.get | exact C.getS
  | exact C.call _ _ _ _ _ (fun s => rfl)
  | exact C.call _ _ _ _ _ (fun s => State.setRegs_cnt s _)
  | exact C.call _ _ _ _ _ (fun s => State.addBlobs_cnt s _)
  | exact C.call _ _ _ _ _ (fun s => State.delBlobs_cnt s _)
  | exact C.call _ _ _ _ _ (fun s => State.delRegs_cnt s _)
  | exact C.modify _ (fun r => rfl)
  | refine C.bind ?_ (fun _ => ?_)
  | refine C.forIn _ _ (fun _ => ?_)
  | refine C.attempt ?_
  | refine C.whenM _ ?_
  | split))

theorem c_logStep (st : Step) : Preserves I (logStep st) := by unfold logStep; cnt_auto
theorem c_lockItems (w : WS) : Preserves I (lockItems w) := by unfold lockItems; cnt_auto
theorem c_unlockItems (w : WS) : Preserves I (unlockItems w) := by unfold unlockItems; cnt_auto
theorem c_checkItems (w : WS) : Preserves I (checkItems w) := by unfold checkItems; cnt_auto
theorem c_unlockKeys (ids : List UUID) : Preserves I (unlockKeys ids) := by unfold unlockKeys; cnt_auto
theorem c_unlockNodesKeys : Preserves I unlockNodesKeys := by unfold unlockNodesKeys unlockKeys; cnt_auto
theorem c_mergeNodesKeys (w : WS) : Preserves I (mergeNodesKeys w) := by unfold mergeNodesKeys unlockKeys; cnt_auto
theorem c_regGet (ids : List UUID) : Preserves I (regGet ids) := by unfold regGet; cnt_auto
theorem c_addValues (w : WS) : Preserves I (addValues w) := by unfold addValues; cnt_auto
theorem c_commitAdded (w : WS) : Preserves I (commitAdded w) := by unfold commitAdded; simp only; cnt_auto

theorem c_fetchedIntact (w : WS) : Preserves I (fetchedIntact w) := by
  unfold fetchedIntact
  simp only
  split
  · exact C.pure _
  · exact C.bind (c_regGet _) (fun _ => C.pure _)

theorem c_commitNewRoots (w : WS) : Preserves I (commitNewRoots w) := by
  unfold commitNewRoots
  simp only
  split
  · exact C.pure _
  · refine C.bind (c_regGet _) (fun hs => ?_)
    cnt_auto

theorem c_commitUpdated (w : WS) : Preserves I (commitUpdated w) := by
  unfold commitUpdated
  simp only
  split
  · exact C.pure _
  · refine C.bind (c_regGet _) (fun hs => ?_)
    cnt_auto

theorem c_commitRemoved (w : WS) : Preserves I (commitRemoved w) := by
  unfold commitRemoved
  simp only
  split
  · exact C.pure _
  · refine C.bind (c_regGet _) (fun hs => ?_)
    cnt_auto

theorem c_lockNodes : Preserves I lockNodes := by
  unfold lockNodes
  refine C.bind C.get (fun r => ?_)
  simp only
  refine C.bind (C.attempt (C.call _ _ _ _ _ (fun s => ?_))) (fun ok => ?_)
  · split <;> rfl
  split
  · exact C.bind (C.attempt (c_unlockKeys _)) (fun _ => C.fail)
  split
  · exact C.pure _
  exact C.bind (C.call _ _ _ _ _ (fun s => rfl)) (fun _ => C.pure _)

theorem c_phase1Body (w : WS) : Preserves I (phase1Body w) := by
  unfold phase1Body
  refine C.bind (c_logStep _) (fun _ => ?_)
  refine C.bind (c_addValues w) (fun _ => ?_)
  refine C.bind (c_logStep _) (fun _ => ?_)
  refine C.bind (c_commitNewRoots w) (fun ok => ?_)
  split
  · exact C.pure _
  refine C.bind (c_logStep _) (fun _ => ?_)
  refine C.bind (c_fetchedIntact w) (fun ok => ?_)
  split
  · exact C.pure _
  refine C.bind (c_commitUpdated w) (fun ok => ?_)
  refine C.bind (c_logStep _) (fun _ => ?_)
  split
  · exact C.pure _
  refine C.bind (c_logStep _) (fun _ => ?_)
  refine C.bind (c_commitRemoved w) (fun ok => ?_)
  split
  · exact C.pure _
  refine C.bind (c_logStep _) (fun _ => ?_)
  exact C.bind (c_commitAdded w) (fun _ => C.pure _)

theorem c_cleanup (w : WS) : Preserves I (cleanup w) := by
  unfold cleanup
  refine C.bind C.get (fun r => ?_)
  refine C.bind (C.attempt (c_logStep _)) (fun ok => ?_)
  simp only
  split
  · exact C.pure _
  · split
    · refine C.bind (C.attempt (C.call _ _ _ _ _ (fun s => State.delBlobs_cnt s _))) (fun _ => ?_)
      refine C.bind (C.attempt (C.call _ _ _ _ _ (fun s => State.delRegs_cnt s _))) (fun _ => ?_)
      refine C.bind (C.attempt (c_logStep _)) (fun ok => ?_)
      cnt_auto
    · refine C.bind (C.attempt (C.call _ _ _ _ _ (fun s => State.delRegs_cnt s _))) (fun _ => ?_)
      refine C.bind (C.attempt (c_logStep _)) (fun ok => ?_)
      cnt_auto

theorem c_phase2 (w : WS) : Preserves I (phase2 w) := by
  unfold phase2
  refine C.bind C.get (fun r => ?_)
  refine C.bind (C.attempt (c_logStep _)) (fun ok => ?_)
  simp only
  split
  · refine C.bind c_unlockNodesKeys (fun _ => ?_)
    exact Triple.bind (Q1 := fun _ _ => False) (Triple.fail (fun _ h => h)) (fun _ r h => h.elim)
  · split
    · refine C.bind (C.call _ _ _ _ _ (fun s => State.setRegs_cnt s _)) (fun _ => ?_)
      refine C.bind (C.attempt (C.call _ _ _ _ _ (fun s => rfl))) (fun _ => ?_)
      refine C.bind c_unlockNodesKeys (fun _ => ?_)
      refine C.bind (C.attempt (c_unlockItems w)) (fun _ => ?_)
      exact c_cleanup w
    · refine C.bind c_unlockNodesKeys (fun _ => ?_)
      refine C.bind (C.attempt (c_unlockItems w)) (fun _ => ?_)
      exact c_cleanup w

end

/-- the counts after the deltas of the write set have been applied -/
def WS.countsAfter (w : WS) (s : State) : Nat → Int :=
  (((w.stores.filter (·.delta != 0)).map (fun st => (st.store, st.delta))).foldl (fun s (x : Nat × Int) => match x with | (st, d) => s.addCnt st d) s).cnt

theorem foldl_addCnt_cnt_congr (ds : List (Nat × Int)) (s s' : State) (h : s.cnt = s'.cnt) :
    (ds.foldl (fun s (x : Nat × Int) => match x with | (st, d) => s.addCnt st d) s).cnt =
    (ds.foldl (fun s (x : Nat × Int) => match x with | (st, d) => s.addCnt st d) s').cnt := by
  induction ds generalizing s s' with
  | nil => exact h
  | cons x t ih =>
    simp only [List.foldl_cons]
    apply ih
    obtain ⟨st, d⟩ := x
    show (s.addCnt st d).cnt = (s'.addCnt st d).cnt
    unfold State.addCnt
    simp only [h]

/-- **phase 1 applies exactly the write set's count deltas** (when it has tracked items; otherwise nothing) -/
theorem cnt_phase1 (s0 : State) (w : WS) (n : Nat) :
    Triple (CNT s0.cnt) (phase1 w n)
      (fun _ r => r.s.cnt = if w.hasTracked then w.countsAfter s0 else s0.cnt) (fun _ => True) := by
  unfold phase1
  split
  · rename_i hnt
    have : w.hasTracked = false := by simpa using hnt
    exact Triple.pure _ (fun r h => by rw [this]; exact h)
  rename_i ht
  have ht' : w.hasTracked = true := by simpa using ht
  refine Triple.bind (c_logStep _).dropE (fun _ => ?_)
  refine Triple.bind (c_lockItems w).dropE (fun _ => ?_)
  refine Triple.bind (c_mergeNodesKeys w).dropE (fun _ => ?_)
  refine Triple.bind (c_lockNodes).dropE (fun locked => ?_)
  split
  · exact giveUpLocked_raises
  refine Triple.bind (c_phase1Body w).dropE (fun ok => ?_)
  split
  · exact conflictRound_raises w n
  · unfold finishPhase1
    refine Triple.bind (c_logStep _).dropE (fun _ => ?_)
    refine Triple.bind (Q1 := fun _ => CNT (w.countsAfter s0)) ?_ (fun _ => ?_)
    · unfold commitStores
      simp only
      split
      · rename_i he
        refine Triple.pure _ (fun r h => ?_)
        unfold CNT WS.countsAfter
        rw [List.isEmpty_iff.mp he]
        exact h
      · refine Triple.call _ _ _ _ _ (fun r _ _ h => ?_) (fun _ _ _ _ _ => trivial) (fun _ _ _ _ => trivial)
        unfold CNT WS.countsAfter
        exact foldl_addCnt_cnt_congr _ _ _ h
    have rest : Preserves (CNT (w.countsAfter s0)) (do
        logStep .beforeFinalize
        let r ← get
        whenM (!r.reserved.isEmpty || !r.removedH.isEmpty)
          (call .plogAdd .none (fun s => { s with plog := fun k => if k = r.tid then true else s.plog k }))
        checkItems w
        let r ← get
        whenM (!(keysOrEmpty r).isEmpty) (do
          let ok ← attempt (call .l2IsLocked (.keys ((keysOrEmpty r))) id (.bool true))
          let ks := keysOrEmpty r
          whenM (!ok) (call .l2DualLock (.keys (ks)) (fun s => { s with nodeLock := fun k => if ks.contains k then some r.tid else s.nodeLock k }) (.bool true)))) := by
      refine C.bind (c_logStep _) (fun _ => ?_)
      refine C.bind C.get (fun r => ?_)
      refine C.bind (C.whenM _ (C.call _ _ _ _ _ (fun s => rfl))) (fun _ => ?_)
      refine C.bind (c_checkItems w) (fun _ => ?_)
      refine C.bind C.get (fun r => ?_)
      refine C.whenM _ ?_
      refine C.bind (C.attempt (C.call _ _ _ _ _ (fun s => rfl))) (fun ok => ?_)
      exact C.whenM _ (C.call _ _ _ _ _ (fun s => rfl))
    exact Triple.conseq rest (fun _ h => h) (fun _ r h => h) (fun _ _ => trivial)

/-- **A successful commit changes the store counts by exactly the write set's deltas** -/
theorem commit_ok_counts {s0 : State} {w : WS} {fresh0 : List (UUID × UUID)} (fault : Option Fault) {cs0 : Step} (tid : Tid) (n : Nat) (r2 : Run)
    (hok : commit w n { s := s0, tid := tid, fault := fault, fresh := fresh0, cs := cs0 } = (.ok, r2)) :
    r2.s.cnt = if w.hasTracked then w.countsAfter s0 else s0.cnt := by
  have h1 := cnt_phase1 s0 w n { s := s0, tid := tid, fault := fault, fresh := fresh0, cs := cs0 } rfl
  unfold commit at hok
  cases hp : phase1 w n { s := s0, tid := tid, fault := fault, fresh := fresh0, cs := cs0 } with
  | error r1 =>
    rw [hp] at hok
    simp only at hok
    split at hok
    · cases hok
    · split at hok <;> cases hok
  | ok p =>
    obtain ⟨u, r1⟩ := p
    rw [hp] at hok h1
    simp only at hok h1
    have h2 := c_phase2 (c := r1.s.cnt) w r1 rfl
    cases hq : phase2 w r1 with
    | error r2' => rw [hq] at hok; cases hok
    | ok q =>
      obtain ⟨u', r2'⟩ := q
      rw [hq] at hok h2
      simp only [Prod.mk.injEq, true_and] at hok
      subst hok
      simp only at h2
      rw [h2]; exact h1

end Sop.Commit
