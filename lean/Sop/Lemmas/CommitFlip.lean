import Sop.Lemmas.CommitStaged
/-!
Phase 2: the flip (`registry.UpdateNoLocks` of the activated images, all-or-nothing) makes exactly the staged
versions visible, and nothing the transaction does afterwards (lock release, cleanup of the old blobs, of the removed
nodes' handles and of obsolete value blobs — each of which may fail and is then merely logged) changes what a reader
sees: updated nodes show the new blob and version + 1, untouched nodes are as they were.
-/
namespace Sop.Commit
set_option linter.unusedSectionVars false

def touch_lid (g : Handle) : (touch g).lid = g.lid := rfl

/-- after the flip, relative to the lists the transaction reserved (`resv`) and marked removed (`remv`) -/
structure Flipped (s0 : State) (resv remv : List Handle) (r : Run) : Prop where
  eqR : r.reserved = resv
  eqM : r.removedH = remv
  new : ∀ h ∈ resv, h.inactive ≠ 0 → r.s.reg h.lid = some (activate h) ∧ r.s.blob h.inactive = true
  old : ∀ lid, (s0.view lid).isSome → (∀ h ∈ resv, h.lid ≠ lid) → (∀ g ∈ remv, g.lid ≠ lid) → r.s.view lid = s0.view lid

/-- static facts about the two lists, read off `Staged` at the end of phase 1 -/
structure Lists (s0 : State) (fresh0 : List (UUID × UUID)) (resv remv : List Handle) : Prop where
  resAct : ∀ h ∈ resv, OldAct s0 h
  resFresh : ∀ h ∈ resv, h.inactive = 0 ∨ ∃ p ∈ fresh0, p.2 = h.inactive
  resNodup : (resv.map (·.lid)).Nodup
  remAct : ∀ g ∈ remv, OldAct s0 g
  disj : ∀ h ∈ resv, ∀ g ∈ remv, h.lid ≠ g.lid

section
variable {s0 : State} {w : WS} {fresh0 : List (UUID × UUID)} {resv remv : List Handle}

theorem Staged.lists {r : Run} (h : Staged s0 w fresh0 r) (pre2 : Pre2 s0 w fresh0) : Lists s0 fresh0 r.reserved r.removedH :=
  ⟨h.resAct, h.resFresh, h.resSub.nodup pre2.updNodup, h.remAct,
    fun x hx g hg e => pre2.updRem _ (h.resLid hx) (e ▸ h.remSub g hg)⟩

instance : Frame (Flipped s0 resv remv) where
  frame r r' h hr hb _ h1 h2 := by
    refine ⟨by rw [h1]; exact h.eqR, by rw [h2]; exact h.eqM, ?_, ?_⟩
    · intro x hx hz; rw [hr, hb]; exact h.new x hx hz
    · intro lid hl a b
      have : r'.s.view lid = r.s.view lid := by unfold State.view; rw [hr, hb]
      rw [this]; exact h.old lid hl a b

/-- the invariant between the end of phase 1 and the flip -/
def P2 (s0 : State) (w : WS) (fresh0 : List (UUID × UUID)) (resv remv : List Handle) (r : Run) : Prop :=
  Staged s0 w fresh0 r ∧ r.reserved = resv ∧ r.removedH = remv

instance : Frame (P2 s0 w fresh0 resv remv) where
  frame r r' h hr hb hf h1 h2 := ⟨Frame.frame r r' h.1 hr hb hf h1 h2, by rw [h1]; exact h.2.1, by rw [h2]; exact h.2.2⟩

/-- a node whose view equals its (loadable) view at the start still carries the start state's active id -/
theorem view_eq_active {s : State} {lid : UUID} (e : s.view lid = s0.view lid) (hl : (s0.view lid).isSome)
    {g : Handle} (hg : s.reg lid = some g) : ∃ h0, s0.reg lid = some h0 ∧ g.active = h0.active := by
  unfold State.view at e hl
  rw [hg] at e
  cases h0r : s0.reg lid with
  | none => simp [h0r] at hl
  | some h0 =>
    rw [h0r] at e hl
    refine ⟨h0, rfl, ?_⟩
    by_cases hb0 : s0.blob h0.active = true
    · simp only [hb0, ↓reduceIte] at e
      by_cases hb : s.blob g.active = true
      · simp only [hb, ↓reduceIte, Option.some.injEq, Prod.mk.injEq] at e; exact e.1
      · simp [hb] at e
    · simp [hb0] at hl

/-- the flip itself -/
theorem flip_establishes (L : Lists s0 fresh0 resv remv) {r : Run} (h : P2 s0 w fresh0 resv remv r)
    (occs : List (Cls × Nat)) (tr : List Ev) :
    Flipped s0 resv remv { r with occs := occs, trace := tr, s := r.s.setRegs (resv.map activate ++ remv.map touch) } := by
  obtain ⟨hS, e1, e2⟩ := h
  refine ⟨e1, e2, ?_, ?_⟩
  · intro x hx _
    show (r.s.setRegs _).reg x.lid = some (activate x) ∧ (r.s.setRegs _).blob x.inactive = true
    rw [State.setRegs_blob]
    refine ⟨?_, (hS.res x (e1 ▸ hx)).2⟩
    obtain ⟨y, hy, e3, e4⟩ := State.setRegs_reg_mem r.s (resv.map activate ++ remv.map touch) x.lid
      ⟨activate x, List.mem_append_left _ (List.mem_map_of_mem hx), (activate_spec x).1⟩
    rw [e4]
    rcases List.mem_append.mp hy with hy | hy
    · obtain ⟨z, hz, rfl⟩ := List.mem_map.mp hy
      rw [(activate_spec z).1] at e3
      rw [eq_of_nodup_map (·.lid) L.resNodup hz hx e3]
    · obtain ⟨g, hg, rfl⟩ := List.mem_map.mp hy
      exact absurd e3.symm (L.disj x hx g hg)
  · intro lid hl a b
    have hreg : (r.s.setRegs (resv.map activate ++ remv.map touch)).reg lid = r.s.reg lid := by
      apply State.setRegs_reg_of_not_mem
      intro y hy
      rcases List.mem_append.mp hy with hy | hy
      · obtain ⟨z, hz, rfl⟩ := List.mem_map.mp hy
        rw [(activate_spec z).1]; exact a z hz
      · obtain ⟨g, hg, rfl⟩ := List.mem_map.mp hy
        exact b g hg
    show (r.s.setRegs _).view lid = s0.view lid
    unfold State.view
    rw [hreg, State.setRegs_blob]
    exact hS.rinv.1.stable lid hl

/-- nothing to flip: the state at the end of phase 1 already is the final one -/
theorem flipped_of_empty {r : Run} (h : P2 s0 w fresh0 resv remv r) (he : (resv.map activate ++ remv.map touch).isEmpty = true) :
    Flipped s0 resv remv r := by
  obtain ⟨hS, e1, e2⟩ := h
  have hnil : resv = [] ∧ remv = [] := by
    cases resv with
    | nil => cases remv with
      | nil => exact ⟨rfl, rfl⟩
      | cons _ _ => simp at he
    | cons _ _ => simp at he
  refine ⟨e1, e2, ?_, ?_⟩
  · intro x hx; rw [hnil.1] at hx; cases hx
  · intro lid hl _ _; exact hS.rinv.1.stable lid hl

/-- deleting blobs that are neither a flipped node's new blob nor an untouched node's blob -/
theorem Flipped.delBlobs {r : Run} (h : Flipped s0 resv remv r) (occs : List (Cls × Nat)) (tr : List Ev) (ids : List UUID)
    (hA : ∀ x ∈ resv, x.inactive ≠ 0 → x.inactive ∉ ids)
    (hB : ∀ lid h0, s0.reg lid = some h0 → (∀ x ∈ resv, x.lid ≠ lid) → (∀ g ∈ remv, g.lid ≠ lid) → h0.active ∉ ids) :
    Flipped s0 resv remv { r with occs := occs, trace := tr, s := r.s.delBlobs ids } := by
  refine ⟨h.eqR, h.eqM, ?_, ?_⟩
  · intro x hx hz
    show (r.s.delBlobs ids).reg x.lid = some (activate x) ∧ (r.s.delBlobs ids).blob x.inactive = true
    rw [State.delBlobs_reg, State.delBlobs_blob, (h.new x hx hz).2]
    refine ⟨(h.new x hx hz).1, ?_⟩
    simp [hA x hx hz]
  · intro lid hl a b
    show (r.s.delBlobs ids).view lid = s0.view lid
    rw [view_delBlobs_of_inactive r.s ids lid (fun g hg => by
      obtain ⟨h0, e0, e1⟩ := view_eq_active (h.old lid hl a b) hl hg
      rw [e1]; exact hB lid h0 e0 a b)]
    exact h.old lid hl a b

/-- removing the registry entries of nodes that are neither flipped nor untouched -/
theorem Flipped.delRegs {r : Run} (h : Flipped s0 resv remv r) (occs : List (Cls × Nat)) (tr : List Ev) (ids : List UUID)
    (hA : ∀ x ∈ resv, x.lid ∉ ids) (hB : ∀ lid, (∀ g ∈ remv, g.lid ≠ lid) → lid ∉ ids) :
    Flipped s0 resv remv { r with occs := occs, trace := tr, s := r.s.delRegs ids } := by
  refine ⟨h.eqR, h.eqM, ?_, ?_⟩
  · intro x hx hz
    show (r.s.delRegs ids).reg x.lid = some (activate x) ∧ (r.s.delRegs ids).blob x.inactive = true
    rw [State.delRegs_reg_of_not_mem r.s ids x.lid (hA x hx), State.delRegs_blob]
    exact h.new x hx hz
  · intro lid hl a b
    show (r.s.delRegs ids).view lid = s0.view lid
    unfold State.view
    rw [State.delRegs_reg_of_not_mem r.s ids lid (hB lid b), State.delRegs_blob]
    exact h.old lid hl a b

theorem obsolete_sub {st : StoreWS} (hst : st ∈ w.stores) {x : UUID} (hx : x ∈ st.obsoleteValues) : x ∈ w.obsoleteValues := by
  unfold WS.obsoleteValues
  exact List.mem_flatMap.mpr ⟨st, hst, hx⟩

/-- an old active id is never one of the ids this transaction generated -/
theorem fresh_ne_act (pre : Pre s0 w fresh0) {x : Handle} (hf : x.inactive = 0 ∨ ∃ p ∈ fresh0, p.2 = x.inactive) (hz : x.inactive ≠ 0)
    {i : UUID} {h0 : Handle} (e : s0.reg i = some h0) : x.inactive ≠ h0.active := by
  rcases hf with z | ⟨p, hp, ep⟩
  · exact absurd z hz
  · rw [← ep]; exact pre.actFresh i h0 e p hp

/-- `cleanup` after the flip changes no reader's view -/
theorem flipped_cleanup (pre : Pre s0 w fresh0) (pre2 : Pre2 s0 w fresh0) (L : Lists s0 fresh0 resv remv) :
    Preserves (Flipped s0 resv remv) (cleanup w) := by
  unfold cleanup
  refine Triple.bind (Q1 := fun r0 r => Flipped s0 resv remv r ∧ r0.reserved = resv ∧ r0.removedH = remv)
    (Triple.get (fun r h => ⟨h, h.eqR, h.eqM⟩)) (fun r0 r hr => ?_)
  obtain ⟨_, e1, e2⟩ := hr
  revert r
  show Preserves (Flipped s0 resv remv) _
  refine G.bind (G.attempt (gen_logStep _)) (fun ok => ?_)
  simp only [e1, e2]
  -- the tail after the (optional) removal of the unused blobs
  have tail : Preserves (Flipped s0 resv remv) (do
      let _ ← attempt (call Cls.regRemove (Args.ids (remv.map (·.lid))) fun s => s.delRegs (remv.map (·.lid)))
      let ok ← attempt (logStep Step.deleteTrackedItemsValues)
      if (!ok) = true then pure ()
        else do
          forIn w.stores PUnit.unit fun st __s =>
              if (!st.obsoleteValues.isEmpty) = true then do
                let _ ← attempt (call Cls.blobRemove (Args.ids st.obsoleteValues) fun s => s.delBlobs st.obsoleteValues)
                pure (ForInStep.yield PUnit.unit)
              else pure (ForInStep.yield PUnit.unit)
          let _ ← attempt (call Cls.tlogRemove Args.none
                  (fun s => { s with tlog := fun k => if k = r0.tid then false else s.tlog k })
                  Args.none fun s => !s.tlog r0.tid)
          pure ()) := by
    refine G.bind (G.attempt (G.callEff _ _ _ _ _ (fun r o t hr => hr.delRegs o t _ ?_ ?_))) (fun _ => ?_)
    · intro x hx hm
      obtain ⟨g, hg, e⟩ := List.mem_map.mp hm
      exact L.disj x hx g hg e.symm
    · intro lid b hm
      obtain ⟨g, hg, e⟩ := List.mem_map.mp hm
      exact b g hg e
    refine G.bind (G.attempt (gen_logStep _)) (fun ok => ?_)
    split
    · exact G.pure _
    · refine G.bind (Triple.forIn_mem _ _ (fun st hst => ?_)) (fun _ => ?_)
      · split
        · refine G.bind (G.attempt (G.callEff _ _ _ _ _ (fun r o t hr => hr.delBlobs o t _ ?_ ?_))) (fun _ => G.pure _)
          · intro x hx hz hm
            rcases L.resFresh x hx with z | ⟨p, hp, ep⟩
            · exact hz z
            · exact pre2.freshObs p hp (ep ▸ obsolete_sub hst hm)
          · intro lid h0 e0 _ _ hm
            exact pre2.actObs lid h0 e0 (obsolete_sub hst hm)
        · exact G.pure _
      · exact G.bind (G.attempt (G.callSame _ _ _ _ _ (fun s => ⟨rfl, rfl⟩))) (fun _ => G.pure _)
  split
  · exact G.pure _
  · split
    · refine G.bind (G.attempt (G.callEff _ _ _ _ _ (fun r o t hr => hr.delBlobs o t _ ?_ ?_))) (fun _ => tail)
      · -- a flipped node's new blob is not among the unused ids (old active ids)
        intro x hx hz hm
        rcases List.mem_append.mp hm with hm | hm
        · obtain ⟨y, hy, e⟩ := List.mem_map.mp hm
          obtain ⟨z, hz', rfl⟩ := List.mem_map.mp hy
          rw [(activate_spec z).2.2.1] at e
          obtain ⟨h0, e0, ea⟩ := L.resAct z hz'
          exact fresh_ne_act pre (L.resFresh x hx) hz e0 (by rw [← ea, e])
        · obtain ⟨g, hg, e⟩ := List.mem_map.mp hm
          obtain ⟨h0, e0, ea⟩ := L.remAct g hg
          exact fresh_ne_act pre (L.resFresh x hx) hz e0 (by rw [← ea, e])
      · -- nor is an untouched node's blob
        intro lid h0 e0 a b hm
        rcases List.mem_append.mp hm with hm | hm
        · obtain ⟨y, hy, e⟩ := List.mem_map.mp hm
          obtain ⟨z, hz', rfl⟩ := List.mem_map.mp hy
          rw [(activate_spec z).2.2.1] at e
          obtain ⟨h1, e1', ea⟩ := L.resAct z hz'
          exact pre2.actInj z.lid lid h1 h0 e1' e0 (a z hz') (by rw [← ea, e])
        · obtain ⟨g, hg, e⟩ := List.mem_map.mp hm
          obtain ⟨h1, e1', ea⟩ := L.remAct g hg
          exact pre2.actInj g.lid lid h1 h0 e1' e0 (b g hg) (by rw [← ea, e])
    · exact tail

/-- **phase 2, when it succeeds, ends in `Flipped`** — whatever fault hits its cleanup calls -/
theorem flipped_phase2 (pre : Pre s0 w fresh0) (pre2 : Pre2 s0 w fresh0) (L : Lists s0 fresh0 resv remv) :
    Triple (P2 s0 w fresh0 resv remv) (phase2 w) (fun _ => Flipped s0 resv remv) (fun _ => True) := by
  unfold phase2
  refine Triple.bind (Q1 := fun r0 r => P2 s0 w fresh0 resv remv r ∧ r0.reserved = resv ∧ r0.removedH = remv)
    (Triple.get (fun r h => ⟨h, h.2⟩)) (fun r0 r hr => ?_)
  obtain ⟨_, e1, e2⟩ := hr
  revert r
  show Triple (P2 s0 w fresh0 resv remv) _ _ _
  refine Triple.bind (G.attempt (gen_logStep _)).dropE (fun okLog => ?_)
  simp only [e1, e2]
  have rest : Triple (Flipped s0 resv remv) (do
      unlockNodesKeys
      let _ ← attempt (unlockItems w)
      cleanup w) (fun _ => Flipped s0 resv remv) (fun _ => True) := by
    refine Triple.bind (gen_unlockNodesKeys).dropE (fun _ => ?_)
    refine Triple.bind (G.attempt (gen_unlockItems w)).dropE (fun _ => ?_)
    exact (flipped_cleanup pre pre2 L).dropE
  split
  · refine Triple.bind (gen_unlockNodesKeys).dropE (fun _ => ?_)
    exact Triple.bind (Q1 := fun _ _ => False) (Triple.fail (fun _ _ => trivial)) (fun _ r h => h.elim)
  · split
    · refine Triple.bind (Q1 := fun _ => Flipped s0 resv remv) ?_ (fun _ => ?_)
      · exact Triple.call _ _ _ _ _ (fun r o t hr => flip_establishes L hr o t) (fun _ _ _ _ _ => trivial) (fun _ _ _ _ => trivial)
      · refine Triple.bind (Triple.dropE (G.attempt ?_)) (fun _ => rest)
        exact G.callSame _ _ _ _ _ (fun s => ⟨rfl, rfl⟩)
    · rename_i hne
      exact Triple.conseq rest (fun r h => flipped_of_empty h (by simpa using hne)) (fun _ _ h => h) (fun _ h => h)

/-- what a reader sees of an updated node once the state is flipped -/
theorem Flipped.view_new {r : Run} (h : Flipped s0 resv remv r) {x : Handle} (hx : x ∈ resv) (hz : x.inactive ≠ 0) :
    r.s.view x.lid = some (x.inactive, x.version + 1) := by
  obtain ⟨a, b⟩ := h.new x hx hz
  obtain ⟨_, a2, _, a4, _⟩ := activate_spec x
  unfold State.view
  rw [a]
  simp [a2, a4, b]

/-- **Phase 2 is atomic for readers.** However phase 2 ends — normally, at a failing call, or stopped by an observer
right before ANY of its calls — the state is either still the staged one (every pre-existing node as before) or the
flipped one (every updated node at its new version, every other node as before): there is no exit in between. -/
theorem phase2_atomic (pre : Pre s0 w fresh0) (pre2 : Pre2 s0 w fresh0) (L : Lists s0 fresh0 resv remv) :
    Triple (P2 s0 w fresh0 resv remv) (phase2 w) (fun _ => Flipped s0 resv remv)
      (fun r' => Staged s0 w fresh0 r' ∨ Flipped s0 resv remv r') := by
  unfold phase2
  refine Triple.bind (Q1 := fun r0 r => P2 s0 w fresh0 resv remv r ∧ r0.reserved = resv ∧ r0.removedH = remv)
    (Triple.get (fun r h => ⟨h, h.2⟩)) (fun r0 r hr => ?_)
  obtain ⟨_, e1, e2⟩ := hr
  revert r
  show Triple (P2 s0 w fresh0 resv remv) _ _ _
  refine Triple.bind (Q1 := fun _ => P2 s0 w fresh0 resv remv) ?_ (fun okLog => ?_)
  · exact Triple.attempt (Q := fun _ => P2 s0 w fresh0 resv remv) (gen_logStep _) (fun _ h => .inl h.1)
  simp only [e1, e2]
  have rest : Triple (Flipped s0 resv remv) (do
      unlockNodesKeys
      let _ ← attempt (unlockItems w)
      cleanup w) (fun _ => Flipped s0 resv remv) (fun r' => Staged s0 w fresh0 r' ∨ Flipped s0 resv remv r') := by
    have : Preserves (Flipped s0 resv remv) (do
        unlockNodesKeys
        let _ ← attempt (unlockItems w)
        cleanup w) :=
      G.bind gen_unlockNodesKeys (fun _ => G.bind (G.attempt (gen_unlockItems w)) (fun _ => flipped_cleanup pre pre2 L))
    exact Triple.conseq this (fun _ h => h) (fun _ _ h => h) (fun _ h => .inr h)
  split
  · refine Triple.bind (Q1 := fun _ => P2 s0 w fresh0 resv remv) ?_ (fun _ => ?_)
    · exact Triple.conseq (gen_unlockNodesKeys (I := P2 s0 w fresh0 resv remv)) (fun _ h => h) (fun _ _ h => h) (fun _ h => .inl h.1)
    · exact Triple.bind (Q1 := fun _ _ => False) (Triple.fail (fun _ h => .inl h.1)) (fun _ r h => h.elim)
  · split
    · refine Triple.bind (Q1 := fun _ => Flipped s0 resv remv) ?_ (fun _ => ?_)
      · exact Triple.call _ _ _ _ _ (fun r o t hr => flip_establishes L hr o t)
          (fun r o t hl hr => .inl (Frame.frame r _ hr.1 rfl rfl rfl rfl rfl)) (fun r o t hr => .inr (flip_establishes L hr o t))
      · refine Triple.bind (Q1 := fun _ => Flipped s0 resv remv) ?_ (fun _ => rest)
        refine Triple.conseq (G.attempt (I := Flipped s0 resv remv) ?_) (fun _ h => h) (fun _ _ h => h) (fun _ h => .inr h)
        exact G.callSame _ _ _ _ _ (fun s => ⟨rfl, rfl⟩)
    · rename_i hne
      exact Triple.conseq rest (fun r h => flipped_of_empty h (by simpa using hne)) (fun _ _ h => h) (fun _ h => h)

end
end Sop.Commit
