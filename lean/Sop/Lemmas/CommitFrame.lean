import Sop.Lemmas.CommitPhase1
/-!
Generic preservation lemmas: an invariant that looks only at the registry, the blobs and the transaction's
`fresh` / `reserved` / `removedH` lists (`Frame`) is kept by every function of Model P whose backend calls leave the
registry and the blobs alone (locks, logs, counts, cache deletes) — proved once, for every such invariant.
-/
namespace Sop.Commit
set_option linter.unusedSectionVars false

class Frame (I : Run → Prop) : Prop where
  frame : ∀ r r' : Run, I r → r'.s.reg = r.s.reg → r'.s.blob = r.s.blob → r'.fresh = r.fresh →
    r'.reserved = r.reserved → r'.removedH = r.removedH → I r'

theorem Triple.triv {P : Run → Prop} {m : M α} : Triple P m (fun _ _ => True) (fun _ => True) := by
  intro r _
  cases m r with
  | error r' => trivial
  | ok p => trivial

theorem Triple.and {P1 P2 : Run → Prop} {Q1 Q2 : α → Run → Prop} {E1 E2 : Run → Prop} {m : M α}
    (h1 : Triple P1 m Q1 E1) (h2 : Triple P2 m Q2 E2) :
    Triple (fun r => P1 r ∧ P2 r) m (fun a r => Q1 a r ∧ Q2 a r) (fun r => E1 r ∧ E2 r) := by
  intro r hr
  have a := h1 r hr.1
  have b := h2 r hr.2
  cases hm : m r with
  | error r' => rw [hm] at a b; exact ⟨a, b⟩
  | ok p => obtain ⟨x, r'⟩ := p; rw [hm] at a b; exact ⟨a, b⟩

/-- forget what an error leaves behind -/
theorem Triple.dropE {P : Run → Prop} {Q : α → Run → Prop} {E : Run → Prop} {m : M α} (h : Triple P m Q E) :
    Triple P m Q (fun _ => True) := Triple.conseq h (fun _ h => h) (fun _ _ h => h) (fun _ _ => trivial)

/-- `for x in xs do body` with an invariant, the body's proof may use `x ∈ xs` -/
theorem Triple.forIn_mem {I : Run → Prop} {E : Run → Prop} (xs : List β) (f : β → Unit → M (ForInStep Unit))
    (hf : ∀ x ∈ xs, Triple I (f x ()) (fun _ => I) E) : Triple I (ForIn.forIn xs () f) (fun _ => I) E := by
  induction xs with
  | nil => intro r h; exact h
  | cons x t ih =>
    rw [List.forIn_cons]
    apply Triple.bind (hf x (List.mem_cons_self ..))
    intro st
    cases st with
    | done b => exact Triple.pure b (fun r h => h)
    | yield b => exact ih (fun y hy => hf y (List.mem_cons_of_mem _ hy))

section
variable {I : Run → Prop} [Frame I]

theorem G.pure (a : α) : Preserves I (Pure.pure a : M α) := Triple.pure a (fun _ h => h)
theorem G.fail : Preserves I (fail : M α) := Triple.fail (fun _ h => h)
theorem G.bind {m : M α} {f : α → M β} (hm : Preserves I m) (hf : ∀ a, Preserves I (f a)) : Preserves I (m >>= f) :=
  Triple.bind hm hf
theorem G.get : Preserves I get := Triple.get (fun _ h => h)
theorem G.getS : Preserves I getS := Triple.getS (fun _ h => h)
theorem G.modify (f : Run → Run)
    (h : ∀ r, (f r).s = r.s ∧ (f r).fresh = r.fresh ∧ (f r).reserved = r.reserved ∧ (f r).removedH = r.removedH) :
    Preserves I (modify f) :=
  Triple.modify f (fun r hr => by
    obtain ⟨a, b, c, d⟩ := h r
    exact Frame.frame r _ hr (by rw [a]) (by rw [a]) b c d)
theorem G.attempt {m : M Unit} (h : Preserves I m) : Preserves I (attempt m) := Triple.attempt h (fun _ h => h)
theorem G.forIn (xs : List β) (f : β → Unit → M (ForInStep Unit)) (hf : ∀ x, Preserves I (f x ())) :
    Preserves I (forIn xs () f) := Triple.forIn xs f hf
theorem G.whenM (c : Bool) {m : M Unit} (h : Preserves I m) : Preserves I (whenM c m) := by
  unfold Sop.Commit.whenM; split
  · exact h
  · exact G.pure _

/-- a call whose effect keeps the invariant (the effect may or may not be applied) -/
theorem G.callEff (cls : Cls) (args : Args) (eff : State → State) (res : Args) (nat : State → Bool)
    (h : ∀ r occs tr, I r → I { r with occs := occs, trace := tr, s := eff r.s }) :
    Preserves I (Sop.Commit.call cls args eff res nat) :=
  Triple.call cls args eff res nat (fun r o t hr => h r o t hr)
    (fun r _ _ _ hr => Frame.frame r _ hr rfl rfl rfl rfl rfl) (fun r o t hr => h r o t hr)

/-- a call that leaves the registry and the blobs alone -/
theorem G.callSame (cls : Cls) (args : Args) (eff : State → State) (res : Args) (nat : State → Bool)
    (h : ∀ s, (eff s).reg = s.reg ∧ (eff s).blob = s.blob) : Preserves I (Sop.Commit.call cls args eff res nat) :=
  G.callEff cls args eff res nat (fun r _ _ hr => Frame.frame r _ hr (h r.s).1 (h r.s).2 rfl rfl rfl)

/-- bind where the first part also establishes a pure fact about its result -/
theorem G.bindFact {m : M α} {f : α → M β} (F : α → Prop)
    (hm : Triple I m (fun a r => I r ∧ F a) I) (hf : ∀ a, F a → Preserves I (f a)) : Preserves I (m >>= f) :=
  Triple.bind hm (fun a r hr => hf a hr.2 r hr.1)

macro "frame_auto" : tactic => `(tactic| repeat (first
  | exact G.pure _ | exact G.fail | exact G.get | exact G.getS
  | exact G.callSame _ _ _ _ _ (fun s => ⟨rfl, rfl⟩)
  | exact G.modify _ (fun r => ⟨rfl, rfl, rfl, rfl⟩)
  | refine G.bind ?_ (fun _ => ?_)
  | refine G.forIn _ _ (fun _ => ?_)
  | refine G.attempt ?_
  | refine G.whenM _ ?_
  | split))

theorem gen_logStep (st : Step) : Preserves I (logStep st) := by unfold logStep; frame_auto
theorem gen_lockItems (w : WS) : Preserves I (lockItems w) := by unfold lockItems; frame_auto
theorem gen_unlockItems (w : WS) : Preserves I (unlockItems w) := by unfold unlockItems; frame_auto
theorem gen_checkItems (w : WS) : Preserves I (checkItems w) := by unfold checkItems; frame_auto
theorem gen_unlockKeys (ids : List UUID) : Preserves I (unlockKeys ids) := by unfold unlockKeys; frame_auto
theorem gen_unlockNodesKeys : Preserves I unlockNodesKeys := by unfold unlockNodesKeys unlockKeys; frame_auto
theorem gen_mergeNodesKeys (w : WS) : Preserves I (mergeNodesKeys w) := by unfold mergeNodesKeys unlockKeys; frame_auto
theorem gen_regGet (ids : List UUID) : Preserves I (regGet ids) := by unfold regGet; frame_auto

theorem gen_fetchedIntact (w : WS) : Preserves I (fetchedIntact w) := by
  unfold fetchedIntact
  simp only
  split
  · exact G.pure _
  · exact G.bind (gen_regGet _) (fun _ => G.pure _)

theorem gen_commitStores (w : WS) : Preserves I (commitStores w) := by
  unfold commitStores
  simp only
  split
  · exact G.pure _
  · exact G.callSame _ _ _ _ _ (fun s => foldl_addCnt_same _ s)

theorem gen_lockNodes : Preserves I lockNodes := by
  unfold lockNodes
  refine G.bind G.get (fun r => ?_)
  simp only
  refine G.bind (G.attempt (G.callSame _ _ _ _ _ (fun s => ?_))) (fun ok => ?_)
  · split <;> exact ⟨rfl, rfl⟩
  split
  · exact G.bind (G.attempt (gen_unlockKeys _)) (fun _ => G.fail)
  split
  · exact G.pure _
  exact G.bind (G.callSame _ _ _ _ _ (fun s => ⟨rfl, rfl⟩)) (fun _ => G.pure _)

theorem gen_finishPhase1 (w : WS) : Preserves I (finishPhase1 w) := by
  unfold finishPhase1
  refine G.bind (gen_logStep _) (fun _ => ?_)
  refine G.bind (gen_commitStores w) (fun _ => ?_)
  refine G.bind (gen_logStep _) (fun _ => ?_)
  refine G.bind G.get (fun r => ?_)
  refine G.bind (G.whenM _ (G.callSame _ _ _ _ _ (fun s => ⟨rfl, rfl⟩))) (fun _ => ?_)
  refine G.bind (gen_checkItems w) (fun _ => ?_)
  refine G.bind G.get (fun r => ?_)
  refine G.whenM _ ?_
  refine G.bind (G.attempt (G.callSame _ _ _ _ _ (fun s => ⟨rfl, rfl⟩))) (fun ok => ?_)
  exact G.whenM _ (G.callSame _ _ _ _ _ (fun s => ⟨rfl, rfl⟩))

end

/-- `giveUpLocked` and `conflictRound` never end normally -/
theorem giveUpLocked_raises {P : Run → Prop} {Q : Unit → Run → Prop} : Triple P giveUpLocked Q (fun _ => True) := by
  have : Triple P giveUpLocked (fun _ _ => False) (fun _ => True) := by
    unfold giveUpLocked
    refine Triple.bind (Q1 := fun _ _ => True) Triple.triv (fun r => ?_)
    refine Triple.bind (Q1 := fun _ _ => True) Triple.triv (fun _ => ?_)
    refine Triple.bind (Q1 := fun _ _ => True) Triple.triv (fun _ => ?_)
    exact Triple.fail (fun _ _ => trivial)
  exact Triple.conseq this (fun _ h => h) (fun _ _ h => h.elim) (fun _ h => h)

theorem conflictRound_raises {P : Run → Prop} {Q : Unit → Run → Prop} (w : WS) (n : Nat) :
    Triple P (conflictRound w n) Q (fun _ => True) := by
  have : Triple P (conflictRound w n) (fun _ _ => False) (fun _ => True) := by
    unfold conflictRound
    refine Triple.bind (Q1 := fun _ _ => True) Triple.triv (fun _ => ?_)
    refine Triple.bind (Q1 := fun _ _ => True) Triple.triv (fun _ => ?_)
    refine Triple.bind (Q1 := fun _ _ => True) Triple.triv (fun _ => ?_)
    exact Triple.fail (fun _ _ => trivial)
  exact Triple.conseq this (fun _ h => h) (fun _ _ h => h.elim) (fun _ h => h)

end Sop.Commit
