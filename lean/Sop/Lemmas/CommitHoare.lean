import Sop.Lemmas.CommitInv
/-!
A small Hoare logic for Model P's monad `M` (state = the running transaction, errors keep the state): triples with
a normal and an exceptional postcondition, and one rule per primitive of the model (`call`, `attempt`, `modify`, …).
-/
namespace Sop.Commit

/-- from any run satisfying `P`, `m` ends normally with `a` in a run satisfying `Q a`, or raises in a run satisfying `E` -/
def Triple (P : Run → Prop) (m : M α) (Q : α → Run → Prop) (E : Run → Prop) : Prop :=
  ∀ r, P r → match m r with | .ok (a, r') => Q a r' | .error r' => E r'

theorem Triple.pure {P : Run → Prop} {Q : α → Run → Prop} {E : Run → Prop} (a : α) (h : ∀ r, P r → Q a r) :
    Triple P (Pure.pure a : M α) Q E := fun r hr => h r hr

theorem Triple.bind {P : Run → Prop} {Q1 : α → Run → Prop} {Q : β → Run → Prop} {E : Run → Prop}
    {m : M α} {f : α → M β} (hm : Triple P m Q1 E) (hf : ∀ a, Triple (Q1 a) (f a) Q E) :
    Triple P (m >>= f) Q E := by
  intro r hr
  have h1 := hm r hr
  show match (M.bind m f) r with | .ok (a, r') => Q a r' | .error r' => E r'
  unfold M.bind
  cases hmr : m r with
  | error r' => rw [hmr] at h1; exact h1
  | ok p => obtain ⟨a, r'⟩ := p; rw [hmr] at h1; exact hf a r' h1

theorem Triple.conseq {P P' : Run → Prop} {Q Q' : α → Run → Prop} {E E' : Run → Prop} {m : M α}
    (h : Triple P' m Q' E') (hp : ∀ r, P r → P' r) (hq : ∀ a r, Q' a r → Q a r) (he : ∀ r, E' r → E r) :
    Triple P m Q E := by
  intro r hr
  have := h r (hp r hr)
  cases hm : m r with
  | error r' => rw [hm] at this; exact he _ this
  | ok p => obtain ⟨a, r'⟩ := p; rw [hm] at this; exact hq _ _ this

theorem Triple.get {P : Run → Prop} {Q : Run → Run → Prop} {E : Run → Prop} (h : ∀ r, P r → Q r r) :
    Triple P get Q E := fun r hr => h r hr

theorem Triple.getS {P : Run → Prop} {Q : State → Run → Prop} {E : Run → Prop} (h : ∀ r, P r → Q r.s r) :
    Triple P getS Q E := fun r hr => h r hr

theorem Triple.modify {P : Run → Prop} {Q : Unit → Run → Prop} {E : Run → Prop} (f : Run → Run)
    (h : ∀ r, P r → Q () (f r)) : Triple P (modify f) Q E := fun r hr => h r hr

theorem Triple.fail {P : Run → Prop} {Q : α → Run → Prop} {E : Run → Prop} (h : ∀ r, P r → E r) :
    Triple P (fail : M α) Q E := fun r hr => h r hr

/-- the rule for one backend call: it may succeed (effect applied), fail before (no effect) or fail after (effect applied) -/
theorem Triple.call {P : Run → Prop} {Q : Unit → Run → Prop} {E : Run → Prop}
    (cls : Cls) (args : Args) (eff : State → State) (res : Args) (nat : State → Bool)
    (hok : ∀ r occs tr, P r → Q () { r with occs := occs, trace := tr, s := eff r.s })
    (hbefore : ∀ r occs tr hl, P r → E { r with occs := occs, trace := tr, halted := hl })
    (hafter : ∀ r occs tr, P r → E { r with occs := occs, trace := tr, s := eff r.s }) :
    Triple P (call cls args eff res nat) Q E := by
  intro r hr
  unfold Sop.Commit.call
  simp only
  by_cases hs : (r.stopAt == some (cls, (bumpOcc r.occs cls).2)) = true
  · simp only [hs, ↓reduceIte]
    exact hbefore r _ r.trace true hr
  · simp only [hs]
    cases faultHit r.fault cls (bumpOcc r.occs cls).2 with
    | none =>
      by_cases hn : nat r.s = true
      · simp only [hn, ↓reduceIte]
        exact hbefore r _ _ r.halted hr
      · simp only [hn]
        exact hok r _ _ hr
    | some k =>
      cases k with
      | failBefore => exact hbefore r _ _ r.halted hr
      | failAfter => exact hafter r _ _ hr

/-- `attempt` never raises: the Boolean says which way `m` ended -/
theorem Triple.attempt {P : Run → Prop} {Q : Bool → Run → Prop} {E : Run → Prop} {m : M Unit}
    (h : Triple P m (fun _ => Q true) (Q false)) (hE : ∀ r, Q false r → E r) : Triple P (attempt m) Q E := by
  intro r hr
  have := h r hr
  unfold Sop.Commit.attempt
  cases hm : m r with
  | error r' =>
    rw [hm] at this
    by_cases hh : r'.halted = true
    · simp only [hh, ↓reduceIte]; exact hE _ this
    · simp only [hh]; exact this
  | ok p => obtain ⟨a, r'⟩ := p; rw [hm] at this; exact this

/-- `for x in xs do body` with an invariant -/
theorem Triple.forIn {I : Run → Prop} {E : Run → Prop} (xs : List β) (f : β → Unit → M (ForInStep Unit))
    (hf : ∀ x, Triple I (f x ()) (fun _ => I) E) : Triple I (forIn xs () f) (fun _ => I) E := by
  induction xs with
  | nil => intro r h; exact h
  | cons x t ih =>
    rw [List.forIn_cons]
    apply Triple.bind (hf x)
    intro st
    cases st with
    | done b => exact Triple.pure b (fun r h => h)
    | yield b => exact ih

/-- `I` holds after `m` however it ends -/
abbrev Preserves (I : Run → Prop) (m : M α) : Prop := Triple I m (fun _ => I) I

end Sop.Commit
