import Sop.Lemmas.CommitFrame
/-!
Facts about the parts of a run the commit code never changes: the injected fault, the observation stop point, and —
when no stop point is set — the `halted` flag. Needed to say "this error exit was not the flip failing after its
effect" and "this run was not stopped by an observer".
-/
namespace Sop.Commit
set_option linter.unusedSectionVars false

/-- the call rule with what each exit knows: a stop only happens at the stop point, an after-effect failure only
under a `failAfter` fault of that class -/
theorem Triple.call' {P : Run → Prop} {Q : Unit → Run → Prop} {E : Run → Prop}
    (cls : Cls) (args : Args) (eff : State → State) (res : Args) (nat : State → Bool)
    (hok : ∀ r occs tr, P r → Q () { r with occs := occs, trace := tr, s := eff r.s })
    (hstop : ∀ r occs, P r → r.stopAt.isSome → E { r with occs := occs, halted := true })
    (hbefore : ∀ r occs tr, P r → E { r with occs := occs, trace := tr })
    (hafter : ∀ r occs tr, P r → (∃ f, r.fault = some f ∧ f.cls = cls ∧ f.kind = .failAfter) →
      E { r with occs := occs, trace := tr, s := eff r.s }) :
    Triple P (Sop.Commit.call cls args eff res nat) Q E := by
  intro r hr
  unfold Sop.Commit.call
  simp only
  by_cases hs : (r.stopAt == some (cls, (bumpOcc r.occs cls).2)) = true
  · simp only [hs, ↓reduceIte]
    refine hstop r _ hr ?_
    cases h : r.stopAt with
    | none => rw [h] at hs; simp at hs
    | some _ => rfl
  · simp only [hs]
    cases hf : faultHit r.fault cls (bumpOcc r.occs cls).2 with
    | none =>
      by_cases hn : nat r.s = true
      · simp only [hn, ↓reduceIte]
        exact hbefore r _ _ hr
      · simp only [hn]
        exact hok r _ _ hr
    | some k =>
      cases k with
      | failBefore => exact hbefore r _ _ hr
      | failAfter =>
        refine hafter r _ _ hr ?_
        unfold faultHit at hf
        cases hfa : r.fault with
        | none => rw [hfa] at hf; simp at hf
        | some f =>
          rw [hfa] at hf
          simp only at hf
          split at hf
          · rename_i hc
            simp only [Bool.and_eq_true, beq_iff_eq] at hc
            exact ⟨f, rfl, hc.1, Option.some.inj hf⟩
          · cases hf

/-- `attempt` re-raises only a stopped run -/
theorem Triple.attempt' {P : Run → Prop} {Q : Bool → Run → Prop} {E : Run → Prop} {m : M Unit}
    (h : Triple P m (fun _ => Q true) (Q false)) (hE : ∀ r, Q false r → r.halted = true → E r) : Triple P (Sop.Commit.attempt m) Q E := by
  intro r hr
  have := h r hr
  unfold Sop.Commit.attempt
  cases hm : m r with
  | error r' =>
    rw [hm] at this
    by_cases hh : r'.halted = true
    · simp only [hh, ↓reduceIte]; exact hE _ this hh
    · simp only [hh]; exact this
  | ok p => obtain ⟨a, r'⟩ := p; rw [hm] at this; exact this

/-- no observer, not stopped, and the fault is `f0` -/
def HF (f0 : Option Fault) (r : Run) : Prop := r.stopAt = none ∧ r.halted = false ∧ r.fault = f0

section
variable {f0 : Option Fault}
local notation "I" => HF f0

theorem H.pure (a : α) : Preserves I (Pure.pure a : M α) := Triple.pure a (fun _ h => h)
theorem H.fail : Preserves I (fail : M α) := Triple.fail (fun _ h => h)
theorem H.bind {m : M α} {f : α → M β} (hm : Preserves I m) (hf : ∀ a, Preserves I (f a)) : Preserves I (m >>= f) :=
  Triple.bind hm hf
theorem H.get : Preserves I get := Triple.get (fun _ h => h)
theorem H.getS : Preserves I getS := Triple.getS (fun _ h => h)
theorem H.modify (f : Run → Run) (h : ∀ r, (f r).stopAt = r.stopAt ∧ (f r).halted = r.halted ∧ (f r).fault = r.fault) :
    Preserves I (modify f) :=
  Triple.modify f (fun r hr => by
    obtain ⟨a, b, c⟩ := h r
    exact ⟨a ▸ hr.1, b ▸ hr.2.1, c ▸ hr.2.2⟩)
theorem H.attempt {m : M Unit} (h : Preserves I m) : Preserves I (attempt m) := Triple.attempt h (fun _ h => h)
theorem H.forIn (xs : List β) (f : β → Unit → M (ForInStep Unit)) (hf : ∀ x, Preserves I (f x ())) :
    Preserves I (forIn xs () f) := Triple.forIn xs f hf
theorem H.whenM (c : Bool) {m : M Unit} (h : Preserves I m) : Preserves I (whenM c m) := by
  unfold Sop.Commit.whenM; split
  · exact h
  · exact H.pure _
theorem H.call (cls : Cls) (args : Args) (eff : State → State) (res : Args) (nat : State → Bool) :
    Preserves I (Sop.Commit.call cls args eff res nat) :=
  Triple.call' cls args eff res nat (fun _ _ _ h => h) (fun r _ (h : HF f0 r) hs => by have e := h.1; rw [e] at hs; cases hs)
    (fun _ _ _ h => h) (fun _ _ _ h _ => h)

macro "inert_auto" : tactic => `(tactic| repeat (first
  | exact H.pure _ | exact H.fail | exact H.get | exact H.getS
  | exact H.call _ _ _ _ _
  | exact H.modify _ (fun r => ⟨rfl, rfl, rfl⟩)
  | refine H.bind ?_ (fun _ => ?_)
  | refine H.forIn _ _ (fun _ => ?_)
  | refine H.attempt ?_
  | refine H.whenM _ ?_
  | split))

theorem h_logStep (st : Step) : Preserves I (logStep st) := by unfold logStep; inert_auto
theorem h_lockItems (w : WS) : Preserves I (lockItems w) := by unfold lockItems; inert_auto
theorem h_unlockItems (w : WS) : Preserves I (unlockItems w) := by unfold unlockItems; inert_auto
theorem h_checkItems (w : WS) : Preserves I (checkItems w) := by unfold checkItems; inert_auto
theorem h_unlockKeys (ids : List UUID) : Preserves I (unlockKeys ids) := by unfold unlockKeys; inert_auto
theorem h_unlockNodesKeys : Preserves I unlockNodesKeys := by unfold unlockNodesKeys unlockKeys; inert_auto
theorem h_mergeNodesKeys (w : WS) : Preserves I (mergeNodesKeys w) := by unfold mergeNodesKeys unlockKeys; inert_auto
theorem h_regGet (ids : List UUID) : Preserves I (regGet ids) := by unfold regGet; inert_auto
theorem h_addValues (w : WS) : Preserves I (addValues w) := by unfold addValues; inert_auto
theorem h_commitStores (w : WS) : Preserves I (commitStores w) := by unfold commitStores; simp only; inert_auto
theorem h_commitAdded (w : WS) : Preserves I (commitAdded w) := by unfold commitAdded; simp only; inert_auto

theorem h_fetchedIntact (w : WS) : Preserves I (fetchedIntact w) := by
  unfold fetchedIntact
  simp only
  split
  · exact H.pure _
  · exact H.bind (h_regGet _) (fun _ => H.pure _)

theorem h_commitNewRoots (w : WS) : Preserves I (commitNewRoots w) := by
  unfold commitNewRoots
  simp only
  split
  · exact H.pure _
  · refine H.bind (h_regGet _) (fun hs => ?_)
    inert_auto

theorem h_commitUpdated (w : WS) : Preserves I (commitUpdated w) := by
  unfold commitUpdated
  simp only
  split
  · exact H.pure _
  · refine H.bind (h_regGet _) (fun hs => ?_)
    inert_auto

theorem h_commitRemoved (w : WS) : Preserves I (commitRemoved w) := by
  unfold commitRemoved
  simp only
  split
  · exact H.pure _
  · refine H.bind (h_regGet _) (fun hs => ?_)
    inert_auto

theorem h_lockNodes : Preserves I lockNodes := by
  unfold lockNodes
  refine H.bind H.get (fun r => ?_)
  simp only
  refine H.bind (H.attempt (H.call _ _ _ _ _)) (fun ok => ?_)
  split
  · exact H.bind (H.attempt (h_unlockKeys _)) (fun _ => H.fail)
  split
  · exact H.pure _
  exact H.bind (H.call _ _ _ _ _) (fun _ => H.pure _)

theorem h_finishPhase1 (w : WS) : Preserves I (finishPhase1 w) := by
  unfold finishPhase1
  refine H.bind (h_logStep _) (fun _ => ?_)
  refine H.bind (h_commitStores w) (fun _ => ?_)
  refine H.bind (h_logStep _) (fun _ => ?_)
  refine H.bind H.get (fun r => ?_)
  refine H.bind (H.whenM _ (H.call _ _ _ _ _)) (fun _ => ?_)
  refine H.bind (h_checkItems w) (fun _ => ?_)
  refine H.bind H.get (fun r => ?_)
  refine H.whenM _ ?_
  refine H.bind (H.attempt (H.call _ _ _ _ _)) (fun ok => ?_)
  exact H.whenM _ (H.call _ _ _ _ _)

theorem h_phase1Body (w : WS) : Preserves I (phase1Body w) := by
  unfold phase1Body
  refine H.bind (h_logStep _) (fun _ => ?_)
  refine H.bind (h_addValues w) (fun _ => ?_)
  refine H.bind (h_logStep _) (fun _ => ?_)
  refine H.bind (h_commitNewRoots w) (fun ok => ?_)
  split
  · exact H.pure _
  refine H.bind (h_logStep _) (fun _ => ?_)
  refine H.bind (h_fetchedIntact w) (fun ok => ?_)
  split
  · exact H.pure _
  refine H.bind (h_commitUpdated w) (fun ok => ?_)
  refine H.bind (h_logStep _) (fun _ => ?_)
  split
  · exact H.pure _
  refine H.bind (h_logStep _) (fun _ => ?_)
  refine H.bind (h_commitRemoved w) (fun ok => ?_)
  split
  · exact H.pure _
  refine H.bind (h_logStep _) (fun _ => ?_)
  exact H.bind (h_commitAdded w) (fun _ => H.pure _)

/-- a successful phase 1 leaves the fault, the (absent) stop point and the `halted` flag as they were -/
theorem h_phase1 (w : WS) (n : Nat) : Triple I (phase1 w n) (fun _ => I) (fun _ => True) := by
  unfold phase1
  split
  · exact Triple.pure _ (fun _ h => h)
  refine Triple.bind (h_logStep _).dropE (fun _ => ?_)
  refine Triple.bind (h_lockItems w).dropE (fun _ => ?_)
  refine Triple.bind (h_mergeNodesKeys w).dropE (fun _ => ?_)
  refine Triple.bind (h_lockNodes).dropE (fun locked => ?_)
  split
  · exact giveUpLocked_raises
  refine Triple.bind (h_phase1Body w).dropE (fun ok => ?_)
  split
  · exact conflictRound_raises w n
  · exact (h_finishPhase1 w).dropE

theorem h_cleanup (w : WS) : Preserves I (cleanup w) := by
  unfold cleanup
  refine H.bind H.get (fun r => ?_)
  refine H.bind (H.attempt (h_logStep _)) (fun ok => ?_)
  simp only
  split
  · exact H.pure _
  · have tail : ∀ (m : M Unit), Preserves I m → Preserves I m := fun _ h => h
    split
    · refine H.bind (H.attempt (H.call _ _ _ _ _)) (fun _ => ?_)
      refine H.bind (H.attempt (H.call _ _ _ _ _)) (fun _ => ?_)
      refine H.bind (H.attempt (h_logStep _)) (fun ok => ?_)
      inert_auto
    · refine H.bind (H.attempt (H.call _ _ _ _ _)) (fun _ => ?_)
      refine H.bind (H.attempt (h_logStep _)) (fun ok => ?_)
      inert_auto

theorem h_phase2 (w : WS) : Preserves I (phase2 w) := by
  unfold phase2
  refine H.bind H.get (fun r => ?_)
  refine H.bind (H.attempt (h_logStep _)) (fun ok => ?_)
  simp only
  split
  · refine H.bind h_unlockNodesKeys (fun _ => ?_)
    exact Triple.bind (Q1 := fun _ _ => False) (Triple.fail (fun _ h => h)) (fun _ r h => h.elim)
  · split
    · refine H.bind (H.call _ _ _ _ _) (fun _ => ?_)
      refine H.bind (H.attempt (H.call _ _ _ _ _)) (fun _ => ?_)
      refine H.bind h_unlockNodesKeys (fun _ => ?_)
      refine H.bind (H.attempt (h_unlockItems w)) (fun _ => ?_)
      exact h_cleanup w
    · refine H.bind h_unlockNodesKeys (fun _ => ?_)
      refine H.bind (H.attempt (h_unlockItems w)) (fun _ => ?_)
      exact h_cleanup w

end
end Sop.Commit
