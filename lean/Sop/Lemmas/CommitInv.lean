import Sop.Lemmas.Commit
/-!
The state invariant behind "nothing a transaction does before its commit point is visible" (C01 error half, C03,
C10): relative to the state `s0` the transaction started from, every node that was loadable in `s0` is still
loadable with the same active blob id and version, and every physical id in the registry has a known provenance
(so that the ids the undo routines delete can be shown to be nobody's active id).
-/
namespace Sop.Commit

/-- ids of the nodes the transaction creates (their logical id is also their first blob id) -/
def WS.newIds (w : WS) : List UUID := w.rootIds ++ w.addedIds

/-- what is assumed of the starting state, the write set and the ids the run will generate -/
structure Pre (s0 : State) (w : WS) (fresh0 : List (UUID × UUID)) : Prop where
  regwf : ∀ i h, s0.reg i = some h → h.lid = i
  /-- the new nodes' ids are not registered yet (this transaction really creates them) -/
  newAbsent : ∀ i ∈ w.newIds, s0.reg i = none
  /-- new node ids and generated ids are nobody's active id -/
  actNew : ∀ i h, s0.reg i = some h → h.active ∉ w.newIds
  actFresh : ∀ i h, s0.reg i = some h → ∀ p ∈ fresh0, p.2 ≠ h.active
  /-- physical ids are not shared: an inactive id in use is nobody's active id and not a new node's id -/
  inactAct : ∀ i j h h', s0.reg i = some h → s0.reg j = some h' → h.inactive ≠ 0 → h.inactive ≠ h'.active
  inactNew : ∀ i h, s0.reg i = some h → h.inactive ≠ 0 → h.inactive ∉ w.newIds
  freshNew : ∀ p ∈ fresh0, p.2 ∉ w.newIds
  /-- separate-segment value blobs carry item ids, never a node's physical id -/
  actValues : ∀ i h, s0.reg i = some h → h.active ∉ w.values

/-- provenance of an active id at logical id `i` -/
def ActOK (s0 : State) (w : WS) (i a : UUID) : Prop :=
  (i ∈ w.newIds ∧ a = i) ∨ ∃ h0, s0.reg i = some h0 ∧ a = h0.active

/-- provenance of an inactive id at logical id `i` -/
def InactOK (s0 : State) (fresh0 : List (UUID × UUID)) (i x : UUID) : Prop :=
  x = 0 ∨ (∃ h0, s0.reg i = some h0 ∧ x = h0.inactive) ∨ ∃ p ∈ fresh0, p.2 = x

structure SInv (s0 : State) (w : WS) (fresh0 : List (UUID × UUID)) (s : State) : Prop where
  regwf : ∀ i h, s.reg i = some h → h.lid = i
  /-- every node loadable at the start is loadable now, same blob id, same version -/
  stable : ∀ lid, (s0.view lid).isSome → s.view lid = s0.view lid
  prov : ∀ i h, s.reg i = some h → ActOK s0 w i h.active ∧ InactOK s0 fresh0 i h.inactive

theorem SInv.init (s0 : State) (w : WS) (fresh0 : List (UUID × UUID)) (pre : Pre s0 w fresh0) : SInv s0 w fresh0 s0 :=
  ⟨pre.regwf, fun _ _ => rfl, fun i h e => ⟨.inr ⟨h, e, rfl⟩, .inr (.inl ⟨h, e, rfl⟩)⟩⟩

/-- an inactive id that is in use is never an active id (of the same or another handle) -/
theorem act_ne_inact {s0 : State} {w : WS} {fresh0 : List (UUID × UUID)} (pre : Pre s0 w fresh0)
    {i j a x : UUID} (ha : ActOK s0 w j a) (hx : InactOK s0 fresh0 i x) (hx0 : x ≠ 0) : x ≠ a := by
  rcases hx with h0 | ⟨h0, e0, rfl⟩ | ⟨p, hp, rfl⟩
  · exact absurd h0 hx0
  · rcases ha with ⟨hn, rfl⟩ | ⟨h1, e1, rfl⟩
    · intro e; exact pre.inactNew i h0 e0 hx0 (e ▸ hn)
    · exact pre.inactAct i j h0 h1 e0 e1 hx0
  · rcases ha with ⟨hn, rfl⟩ | ⟨h1, e1, rfl⟩
    · intro e; exact pre.freshNew p hp (e ▸ hn)
    · exact pre.actFresh j h1 e1 p hp

/-- a loadable node of the start state: its current handle still has the start state's active id -/
theorem SInv.loadable_active {s0 : State} {w : WS} {fresh0 : List (UUID × UUID)} {s : State} (inv : SInv s0 w fresh0 s)
    {lid : UUID} (hl : (s0.view lid).isSome) :
    ∃ h h0, s.reg lid = some h ∧ s0.reg lid = some h0 ∧ h.active = h0.active ∧ h.version = h0.version ∧ s.blob h.active = true := by
  have e := inv.stable lid hl
  unfold State.view at e hl
  cases h0r : s0.reg lid with
  | none => simp [h0r] at hl
  | some h0 =>
    rw [h0r] at e hl
    have hb0 : s0.blob h0.active = true := by
      by_cases hb0 : s0.blob h0.active = true
      · exact hb0
      · simp [hb0] at hl
    simp only [hb0, ↓reduceIte] at e
    cases hr : s.reg lid with
    | none => rw [hr] at e; simp at e
    | some h =>
      rw [hr] at e
      by_cases hb : s.blob h.active = true
      · simp only [hb, ↓reduceIte, Option.some.injEq, Prod.mk.injEq] at e
        exact ⟨h, h0, rfl, rfl, e.1, e.2, hb⟩
      · simp [hb] at e

/-! ## Preservation by the kinds of effect the commit code applies -/

/-- P1: overwrite handles by images that keep the active id and the version (reserve, mark removed, clear, undo) -/
theorem SInv.setRegs_same {s0 : State} {w : WS} {fresh0 : List (UUID × UUID)} {s : State} (inv : SInv s0 w fresh0 s)
    (hs : List Handle)
    (hsame : ∀ h' ∈ hs, ∃ h, s.reg h'.lid = some h ∧ h'.active = h.active ∧ h'.version = h.version ∧
        InactOK s0 fresh0 h'.lid h'.inactive) :
    SInv s0 w fresh0 (s.setRegs hs) := by
  refine ⟨?_, ?_, ?_⟩
  · intro i h e
    by_cases hk : ∃ x ∈ hs, x.lid = i
    · obtain ⟨x, hx, e1, e2⟩ := State.setRegs_reg_mem s hs i hk
      rw [e2] at e; cases e; exact e1
    · rw [State.setRegs_reg_of_not_mem s hs i (fun x hx e' => hk ⟨x, hx, e'⟩)] at e
      exact inv.regwf i h e
  · intro lid hl
    rw [view_setRegs_same s hs lid (fun h' hm => by
      obtain ⟨h, a, b, c, _⟩ := hsame h' hm; exact ⟨h, a, b, c⟩)]
    exact inv.stable lid hl
  · intro i h e
    by_cases hk : ∃ x ∈ hs, x.lid = i
    · obtain ⟨x, hx, e1, e2⟩ := State.setRegs_reg_mem s hs i hk
      rw [e2] at e; cases e
      obtain ⟨g, g1, g2, _, g4⟩ := hsame h hx
      rw [e1] at g1 g4
      exact ⟨g2 ▸ (inv.prov i g g1).1, g4⟩
    · rw [State.setRegs_reg_of_not_mem s hs i (fun x hx e' => hk ⟨x, hx, e'⟩)] at e
      exact inv.prov i h e

/-- P2: register the transaction's new nodes -/
theorem SInv.setRegs_new {s0 : State} {w : WS} {fresh0 : List (UUID × UUID)} {s : State} (pre : Pre s0 w fresh0)
    (inv : SInv s0 w fresh0 s) (hs : List Handle)
    (hnew : ∀ h ∈ hs, h.lid ∈ w.newIds ∧ h.active = h.lid ∧ h.inactive = 0) :
    SInv s0 w fresh0 (s.setRegs hs) := by
  refine ⟨?_, ?_, ?_⟩
  · intro i h e
    by_cases hk : ∃ x ∈ hs, x.lid = i
    · obtain ⟨x, hx, e1, e2⟩ := State.setRegs_reg_mem s hs i hk
      rw [e2] at e; cases e; exact e1
    · rw [State.setRegs_reg_of_not_mem s hs i (fun x hx e' => hk ⟨x, hx, e'⟩)] at e
      exact inv.regwf i h e
  · intro lid hl
    have hnot : ∀ x ∈ hs, x.lid ≠ lid := by
      intro x hx e
      have := pre.newAbsent lid (e ▸ (hnew x hx).1)
      unfold State.view at hl; simp [this] at hl
    unfold State.view
    rw [State.setRegs_blob, State.setRegs_reg_of_not_mem s hs lid hnot]
    exact inv.stable lid hl
  · intro i h e
    by_cases hk : ∃ x ∈ hs, x.lid = i
    · obtain ⟨x, hx, e1, e2⟩ := State.setRegs_reg_mem s hs i hk
      rw [e2] at e; cases e
      obtain ⟨n1, n2, n3⟩ := hnew h hx
      rw [e1] at n1 n2
      exact ⟨.inl ⟨n1, n2⟩, .inl n3⟩
    · rw [State.setRegs_reg_of_not_mem s hs i (fun x hx e' => hk ⟨x, hx, e'⟩)] at e
      exact inv.prov i h e

/-- P3: adding blobs -/
theorem SInv.addBlobs {s0 : State} {w : WS} {fresh0 : List (UUID × UUID)} {s : State} (inv : SInv s0 w fresh0 s)
    (ids : List UUID) : SInv s0 w fresh0 (s.addBlobs ids) := by
  refine ⟨?_, ?_, ?_⟩
  · intro i h e; rw [State.addBlobs_reg] at e; exact inv.regwf i h e
  · intro lid hl
    rw [view_addBlobs_of_loadable s ids lid (by rw [inv.stable lid hl]; exact hl)]
    exact inv.stable lid hl
  · intro i h e; rw [State.addBlobs_reg] at e; exact inv.prov i h e

/-- P4: deleting blobs whose ids are new-node ids or inactive ids currently in use -/
theorem SInv.delBlobs {s0 : State} {w : WS} {fresh0 : List (UUID × UUID)} {s : State} (pre : Pre s0 w fresh0)
    (inv : SInv s0 w fresh0 s) (ids : List UUID)
    (hids : ∀ x ∈ ids, x ∈ w.newIds ∨ (x ≠ 0 ∧ ∃ i h, s.reg i = some h ∧ h.inactive = x)) :
    SInv s0 w fresh0 (s.delBlobs ids) := by
  refine ⟨?_, ?_, ?_⟩
  · intro i h e; rw [State.delBlobs_reg] at e; exact inv.regwf i h e
  · intro lid hl
    obtain ⟨h, h0, e1, e2, e3, _, _⟩ := inv.loadable_active hl
    rw [view_delBlobs_of_inactive s ids lid (by
      intro g eg hm
      rw [e1] at eg; cases eg
      rcases hids _ hm with hn | ⟨hx0, i, g, eg, hg⟩
      · exact pre.actNew lid h0 e2 (e3 ▸ hn)
      · have := act_ne_inact pre (i := i) (j := lid) (.inr ⟨h0, e2, e3⟩) (hg ▸ (inv.prov i g eg).2) hx0
        exact this rfl)]
    exact inv.stable lid hl
  · intro i h e; rw [State.delBlobs_reg] at e; exact inv.prov i h e

theorem State.delRegs_reg_of_not_mem (s : State) (ids : List UUID) (k : UUID) (hk : k ∉ ids) :
    (s.delRegs ids).reg k = s.reg k := by
  unfold State.delRegs
  induction ids generalizing s with
  | nil => rfl
  | cons h t ih =>
    simp only [List.foldl_cons]
    rw [ih _ (fun hm => hk (List.mem_cons_of_mem _ hm))]
    have : k ≠ h := fun e => hk (e ▸ List.mem_cons_self ..)
    simp [State.delReg_reg, this]

theorem State.delRegs_reg_sub (s : State) (ids : List UUID) (k : UUID) (h : Handle)
    (e : (s.delRegs ids).reg k = some h) : s.reg k = some h := by
  unfold State.delRegs at e
  induction ids generalizing s with
  | nil => exact e
  | cons x t ih =>
    simp only [List.foldl_cons] at e
    have := ih _ e
    simp only [State.delReg_reg] at this
    split at this
    · simp at this
    · exact this

theorem State.delRegs_blob (s : State) (ids : List UUID) : (s.delRegs ids).blob = s.blob := by
  unfold State.delRegs
  induction ids generalizing s with
  | nil => rfl
  | cons h t ih => simp [List.foldl_cons, ih]

/-- P5: unregistering the transaction's new nodes -/
theorem SInv.delRegs {s0 : State} {w : WS} {fresh0 : List (UUID × UUID)} {s : State} (pre : Pre s0 w fresh0)
    (inv : SInv s0 w fresh0 s) (ids : List UUID) (hids : ∀ x ∈ ids, x ∈ w.newIds) :
    SInv s0 w fresh0 (s.delRegs ids) := by
  refine ⟨?_, ?_, ?_⟩
  · intro i h e; exact inv.regwf i h (State.delRegs_reg_sub s ids i h e)
  · intro lid hl
    have hnot : lid ∉ ids := by
      intro hm
      have := pre.newAbsent lid (hids lid hm)
      unfold State.view at hl; simp [this] at hl
    unfold State.view
    rw [State.delRegs_blob, State.delRegs_reg_of_not_mem s ids lid hnot]
    exact inv.stable lid hl
  · intro i h e; exact inv.prov i h (State.delRegs_reg_sub s ids i h e)

/-- P6: anything that leaves the registry and the blobs alone -/
theorem SInv.of_same {s0 : State} {w : WS} {fresh0 : List (UUID × UUID)} {s s' : State} (inv : SInv s0 w fresh0 s)
    (hr : s'.reg = s.reg) (hb : s'.blob = s.blob) : SInv s0 w fresh0 s' := by
  refine ⟨?_, ?_, ?_⟩
  · intro i h e; rw [hr] at e; exact inv.regwf i h e
  · intro lid hl
    have : s'.view lid = s.view lid := by unfold State.view; rw [hr, hb]
    rw [this]; exact inv.stable lid hl
  · intro i h e; rw [hr] at e; exact inv.prov i h e


/-! ## Static form: conditions on the written values only, established when the values are read -/

/-- a handle image whose ids have a known provenance and which, if its node was loadable at the start, still
shows the start state's active id and version -/
def Known (s0 : State) (w : WS) (fresh0 : List (UUID × UUID)) (h : Handle) : Prop :=
  ActOK s0 w h.lid h.active ∧ InactOK s0 fresh0 h.lid h.inactive ∧
    ∀ h0, s0.reg h.lid = some h0 → (s0.view h.lid).isSome → h.active = h0.active ∧ h.version = h0.version

/-- every registered handle is `Known` -/
theorem SInv.known {s0 : State} {w : WS} {fresh0 : List (UUID × UUID)} {s : State} (inv : SInv s0 w fresh0 s)
    {i : UUID} {h : Handle} (e : s.reg i = some h) : Known s0 w fresh0 h := by
  have hl := inv.regwf i h e
  subst hl
  refine ⟨(inv.prov _ h e).1, (inv.prov _ h e).2, ?_⟩
  intro h0 e0 hv
  obtain ⟨g, g0, a, b, c, d, _⟩ := inv.loadable_active hv
  rw [e] at a; cases a
  rw [e0] at b; cases b
  exact ⟨c, d⟩

theorem SInv.known_of_filterMap {s0 : State} {w : WS} {fresh0 : List (UUID × UUID)} {s : State} (inv : SInv s0 w fresh0 s)
    (ids : List UUID) : ∀ h ∈ ids.filterMap s.reg, Known s0 w fresh0 h := by
  intro h hm
  obtain ⟨i, _, e⟩ := List.mem_filterMap.mp hm
  exact inv.known e

/-- writing `Known` images keeps the invariant -/
theorem SInv.setRegs_known {s0 : State} {w : WS} {fresh0 : List (UUID × UUID)} {s : State} (inv : SInv s0 w fresh0 s)
    (hs : List Handle) (hk : ∀ h ∈ hs, Known s0 w fresh0 h) : SInv s0 w fresh0 (s.setRegs hs) := by
  refine ⟨?_, ?_, ?_⟩
  · intro i h e
    by_cases hx : ∃ x ∈ hs, x.lid = i
    · obtain ⟨x, hx, e1, e2⟩ := State.setRegs_reg_mem s hs i hx
      rw [e2] at e; cases e; exact e1
    · rw [State.setRegs_reg_of_not_mem s hs i (fun x hx' e' => hx ⟨x, hx', e'⟩)] at e
      exact inv.regwf i h e
  · intro lid hl
    by_cases hx : ∃ x ∈ hs, x.lid = lid
    · obtain ⟨x, hxm, e1, e2⟩ := State.setRegs_reg_mem s hs lid hx
      obtain ⟨g, g0, a, b, c, d, bl⟩ := inv.loadable_active hl
      obtain ⟨_, _, k3⟩ := hk x hxm
      rw [e1] at k3
      obtain ⟨ka, kv⟩ := k3 g0 b hl
      have hs0 : s0.view lid = some (g0.active, g0.version) := by
        unfold State.view at hl ⊢
        rw [b] at hl ⊢
        by_cases hb : s0.blob g0.active = true
        · simp [hb]
        · simp [hb] at hl
      rw [hs0]
      unfold State.view
      rw [e2, State.setRegs_blob]
      simp [ka, kv, ← c, bl]
    · unfold State.view
      rw [State.setRegs_blob, State.setRegs_reg_of_not_mem s hs lid (fun x hx' e' => hx ⟨x, hx', e'⟩)]
      exact inv.stable lid hl
  · intro i h e
    by_cases hx : ∃ x ∈ hs, x.lid = i
    · obtain ⟨x, hxm, e1, e2⟩ := State.setRegs_reg_mem s hs i hx
      rw [e2] at e; cases e
      obtain ⟨k1, k2, _⟩ := hk h hxm
      rw [e1] at k1 k2
      exact ⟨k1, k2⟩
    · rw [State.setRegs_reg_of_not_mem s hs i (fun x hx' e' => hx ⟨x, hx', e'⟩)] at e
      exact inv.prov i h e

/-- deleting blobs whose ids are new-node ids or ids with inactive provenance keeps the invariant -/
theorem SInv.delBlobs_static {s0 : State} {w : WS} {fresh0 : List (UUID × UUID)} {s : State} (pre : Pre s0 w fresh0)
    (inv : SInv s0 w fresh0 s) (ids : List UUID)
    (hids : ∀ x ∈ ids, x ∈ w.newIds ∨ x ∈ w.values ∨ (x ≠ 0 ∧ ∃ i, InactOK s0 fresh0 i x)) :
    SInv s0 w fresh0 (s.delBlobs ids) := by
  refine ⟨?_, ?_, ?_⟩
  · intro i h e; rw [State.delBlobs_reg] at e; exact inv.regwf i h e
  · intro lid hl
    obtain ⟨h, h0, e1, e2, e3, _, _⟩ := inv.loadable_active hl
    rw [view_delBlobs_of_inactive s ids lid (by
      intro g eg hm
      rw [e1] at eg; cases eg
      rcases hids _ hm with hn | hv | ⟨hx0, i, hi⟩
      · exact pre.actNew lid h0 e2 (e3 ▸ hn)
      · exact pre.actValues lid h0 e2 (e3 ▸ hv)
      · exact act_ne_inact pre (i := i) (j := lid) (.inr ⟨h0, e2, e3⟩) hi hx0 rfl)]
    exact inv.stable lid hl
  · intro i h e; rw [State.delBlobs_reg] at e; exact inv.prov i h e

/-- the transaction's new node handles are `Known` -/
theorem known_new {s0 : State} {w : WS} {fresh0 : List (UUID × UUID)} (pre : Pre s0 w fresh0)
    (h : Handle) (hl : h.lid ∈ w.newIds) (ha : h.active = h.lid) (hi : h.inactive = 0) : Known s0 w fresh0 h :=
  ⟨.inl ⟨hl, ha⟩, .inl hi, fun h0 e0 _ => by rw [pre.newAbsent _ hl] at e0; cases e0⟩

end Sop.Commit
