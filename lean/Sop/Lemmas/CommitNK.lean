import Sop.Lemmas.CommitInert
/-!
`nodesKeys` after phase 1: the keys merged at the start of the commit loop are still the transaction's when phase 1
ends successfully (nothing on the success path touches them).
-/
namespace Sop.Commit
set_option linter.unusedSectionVars false

/-- the node keys the transaction locked are the write set's (when it has any) -/
def NKp (w : WS) (r : Run) : Prop := w.nodeKeys ≠ [] → r.nodesKeys = some w.nodeKeys

section
variable {w0 : WS}
local notation "I" => NKp w0

theorem N.pure (a : α) : Preserves I (Pure.pure a : M α) := Triple.pure a (fun _ h => h)
theorem N.fail : Preserves I (fail : M α) := Triple.fail (fun _ h => h)
theorem N.bind {m : M α} {f : α → M β} (hm : Preserves I m) (hf : ∀ a, Preserves I (f a)) : Preserves I (m >>= f) :=
  Triple.bind hm hf
theorem N.get : Preserves I get := Triple.get (fun _ h => h)
theorem N.getS : Preserves I getS := Triple.getS (fun _ h => h)
theorem N.modify (f : Run → Run) (h : ∀ r, (f r).nodesKeys = r.nodesKeys) :
    Preserves I (modify f) :=
  Triple.modify f (fun r hr hne => by rw [h r]; exact hr hne)
theorem N.attempt {m : M Unit} (h : Preserves I m) : Preserves I (attempt m) := Triple.attempt h (fun _ h => h)
theorem N.forIn (xs : List β) (f : β → Unit → M (ForInStep Unit)) (hf : ∀ x, Preserves I (f x ())) :
    Preserves I (forIn xs () f) := Triple.forIn xs f hf
theorem N.whenM (c : Bool) {m : M Unit} (h : Preserves I m) : Preserves I (whenM c m) := by
  unfold Sop.Commit.whenM; split
  · exact h
  · exact N.pure _
theorem N.call (cls : Cls) (args : Args) (eff : State → State) (res : Args) (nat : State → Bool) :
    Preserves I (Sop.Commit.call cls args eff res nat) :=
  Triple.call cls args eff res nat (fun _ _ _ h => h) (fun _ _ _ _ h => h) (fun _ _ _ h => h)

macro "nk_auto" : tactic => `(tactic| repeat (first
  | exact N.pure _ | exact N.fail | exact N.get | exact N.getS
  | exact N.call _ _ _ _ _
  | exact N.modify _ (fun r => rfl)
  | refine N.bind ?_ (fun _ => ?_)
  | refine N.forIn _ _ (fun _ => ?_)
  | refine N.attempt ?_
  | refine N.whenM _ ?_
  | split))

theorem n_logStep (st : Step) : Preserves I (logStep st) := by unfold logStep; nk_auto
theorem n_lockItems (w : WS) : Preserves I (lockItems w) := by unfold lockItems; nk_auto
theorem n_unlockItems (w : WS) : Preserves I (unlockItems w) := by unfold unlockItems; nk_auto
theorem n_checkItems (w : WS) : Preserves I (checkItems w) := by unfold checkItems; nk_auto
theorem n_unlockKeys (ids : List UUID) : Preserves I (unlockKeys ids) := by unfold unlockKeys; nk_auto
theorem n_regGet (ids : List UUID) : Preserves I (regGet ids) := by unfold regGet; nk_auto
theorem n_addValues (w : WS) : Preserves I (addValues w) := by unfold addValues; nk_auto
theorem n_commitStores (w : WS) : Preserves I (commitStores w) := by unfold commitStores; simp only; nk_auto
theorem n_commitAdded (w : WS) : Preserves I (commitAdded w) := by unfold commitAdded; simp only; nk_auto

theorem n_fetchedIntact (w : WS) : Preserves I (fetchedIntact w) := by
  unfold fetchedIntact
  simp only
  split
  · exact N.pure _
  · exact N.bind (n_regGet _) (fun _ => N.pure _)

theorem n_commitNewRoots (w : WS) : Preserves I (commitNewRoots w) := by
  unfold commitNewRoots
  simp only
  split
  · exact N.pure _
  · refine N.bind (n_regGet _) (fun hs => ?_)
    nk_auto

theorem n_commitUpdated (w : WS) : Preserves I (commitUpdated w) := by
  unfold commitUpdated
  simp only
  split
  · exact N.pure _
  · refine N.bind (n_regGet _) (fun hs => ?_)
    nk_auto

theorem n_commitRemoved (w : WS) : Preserves I (commitRemoved w) := by
  unfold commitRemoved
  simp only
  split
  · exact N.pure _
  · refine N.bind (n_regGet _) (fun hs => ?_)
    nk_auto

theorem n_lockNodes : Preserves I lockNodes := by
  unfold lockNodes
  refine N.bind N.get (fun r => ?_)
  simp only
  refine N.bind (N.attempt (N.call _ _ _ _ _)) (fun ok => ?_)
  split
  · exact N.bind (N.attempt (n_unlockKeys _)) (fun _ => N.fail)
  split
  · exact N.pure _
  exact N.bind (N.call _ _ _ _ _) (fun _ => N.pure _)

theorem n_finishPhase1 (w : WS) : Preserves I (finishPhase1 w) := by
  unfold finishPhase1
  refine N.bind (n_logStep _) (fun _ => ?_)
  refine N.bind (n_commitStores w) (fun _ => ?_)
  refine N.bind (n_logStep _) (fun _ => ?_)
  refine N.bind N.get (fun r => ?_)
  refine N.bind (N.whenM _ (N.call _ _ _ _ _)) (fun _ => ?_)
  refine N.bind (n_checkItems w) (fun _ => ?_)
  refine N.bind N.get (fun r => ?_)
  refine N.whenM _ ?_
  refine N.bind (N.attempt (N.call _ _ _ _ _)) (fun ok => ?_)
  exact N.whenM _ (N.call _ _ _ _ _)

theorem n_phase1Body (w : WS) : Preserves I (phase1Body w) := by
  unfold phase1Body
  refine N.bind (n_logStep _) (fun _ => ?_)
  refine N.bind (n_addValues w) (fun _ => ?_)
  refine N.bind (n_logStep _) (fun _ => ?_)
  refine N.bind (n_commitNewRoots w) (fun ok => ?_)
  split
  · exact N.pure _
  refine N.bind (n_logStep _) (fun _ => ?_)
  refine N.bind (n_fetchedIntact w) (fun ok => ?_)
  split
  · exact N.pure _
  refine N.bind (n_commitUpdated w) (fun ok => ?_)
  refine N.bind (n_logStep _) (fun _ => ?_)
  split
  · exact N.pure _
  refine N.bind (n_logStep _) (fun _ => ?_)
  refine N.bind (n_commitRemoved w) (fun ok => ?_)
  split
  · exact N.pure _
  refine N.bind (n_logStep _) (fun _ => ?_)
  exact N.bind (n_commitAdded w) (fun _ => N.pure _)


/-- a successful phase 1 of a transaction with tracked items and node keys still holds exactly those keys -/
theorem n_phase1 (w : WS) (n : Nat) :
    Triple (fun _ => True) (phase1 w n) (fun _ r => w.hasTracked = true → NKp w r) (fun _ => True) := by
  unfold phase1
  split
  · rename_i hnt
    exact Triple.pure _ (fun r _ ht => by simp [ht] at hnt)
  refine Triple.bind (Q1 := fun _ _ => True) Triple.triv (fun _ => ?_)
  refine Triple.bind (Q1 := fun _ _ => True) Triple.triv (fun _ => ?_)
  refine Triple.bind (Q1 := fun _ => NKp w) ?_ (fun _ => ?_)
  · unfold mergeNodesKeys
    split
    · rename_i he
      refine Triple.bind (Q1 := fun _ _ => True) Triple.triv (fun _ => ?_)
      exact Triple.modify _ (fun r _ hne => absurd (List.isEmpty_iff.mp he) hne)
    · exact Triple.modify _ (fun r _ _ => rfl)
  refine Triple.bind (n_lockNodes (w0 := w)).dropE (fun locked => ?_)
  split
  · exact giveUpLocked_raises
  refine Triple.bind (n_phase1Body (w0 := w) w).dropE (fun ok => ?_)
  split
  · exact conflictRound_raises w n
  · exact Triple.conseq (n_finishPhase1 (w0 := w) w).dropE (fun _ h => h) (fun _ _ h _ => h) (fun _ h => h)

end
end Sop.Commit
