import Sop.Lemmas.CommitFlip
/-!
The transaction's NEW nodes (first roots, added nodes) after a successful commit: once `commitNewRootNodes` /
`commitAddedNodes` have registered them and written their blobs, nothing on the way to the successful end touches
them — the writes that follow go to the logical ids of updated and removed nodes, the deletions to old blob ids.
-/
namespace Sop.Commit
set_option linter.unusedSectionVars false

/-- extra premises about the new nodes: their ids are distinct, and no obsolete value blob carries one of them -/
structure Pre3 (w : WS) : Prop where
  newNodup : w.newIds.Nodup
  newObs : ∀ i ∈ w.newIds, i ∉ w.obsoleteValues

/-- the nodes `ids` are registered with the images `m` and their blobs are stored -/
def Fixed (m : UUID → Handle) (ids : List UUID) (r : Run) : Prop :=
  ∀ i ∈ ids, r.s.reg i = some (m i) ∧ r.s.blob i = true

section
variable {m : UUID → Handle} {ids : List UUID}

instance : Frame (Fixed m ids) where
  frame r r' h hr hb _ _ _ := fun i hi => by rw [hr, hb]; exact h i hi

theorem Fixed.setRegs {r : Run} (h : Fixed m ids r) (occs : List (Cls × Nat)) (tr : List Ev) (hs : List Handle)
    (hd : ∀ x ∈ hs, x.lid ∉ ids) : Fixed m ids { r with occs := occs, trace := tr, s := r.s.setRegs hs } := by
  intro i hi
  show (r.s.setRegs hs).reg i = some (m i) ∧ (r.s.setRegs hs).blob i = true
  rw [State.setRegs_blob, State.setRegs_reg_of_not_mem r.s hs i (fun x hx e => hd x hx (e ▸ hi))]
  exact h i hi

theorem Fixed.addBlobs {r : Run} (h : Fixed m ids r) (occs : List (Cls × Nat)) (tr : List Ev) (xs : List UUID) :
    Fixed m ids { r with occs := occs, trace := tr, s := r.s.addBlobs xs } := by
  intro i hi
  show (r.s.addBlobs xs).reg i = some (m i) ∧ (r.s.addBlobs xs).blob i = true
  rw [State.addBlobs_reg, State.addBlobs_blob, (h i hi).2]
  exact ⟨(h i hi).1, rfl⟩

theorem Fixed.delBlobs {r : Run} (h : Fixed m ids r) (occs : List (Cls × Nat)) (tr : List Ev) (xs : List UUID)
    (hd : ∀ i ∈ ids, i ∉ xs) : Fixed m ids { r with occs := occs, trace := tr, s := r.s.delBlobs xs } := by
  intro i hi
  show (r.s.delBlobs xs).reg i = some (m i) ∧ (r.s.delBlobs xs).blob i = true
  rw [State.delBlobs_reg, State.delBlobs_blob, (h i hi).2]
  refine ⟨(h i hi).1, ?_⟩
  simp [hd i hi]

theorem Fixed.delRegs {r : Run} (h : Fixed m ids r) (occs : List (Cls × Nat)) (tr : List Ev) (xs : List UUID)
    (hd : ∀ i ∈ ids, i ∉ xs) : Fixed m ids { r with occs := occs, trace := tr, s := r.s.delRegs xs } := by
  intro i hi
  show (r.s.delRegs xs).reg i = some (m i) ∧ (r.s.delRegs xs).blob i = true
  rw [State.delRegs_reg_of_not_mem r.s xs i (hd i hi), State.delRegs_blob]
  exact h i hi

end

/-- `Staged` together with a set of fixed new nodes -/
def SFX (s0 : State) (w : WS) (fresh0 : List (UUID × UUID)) (m : UUID → Handle) (ids : List UUID) (r : Run) : Prop :=
  Staged s0 w fresh0 r ∧ Fixed m ids r

section
variable {s0 : State} {w : WS} {fresh0 : List (UUID × UUID)} {m : UUID → Handle} {ids : List UUID}

instance : Frame (SFX s0 w fresh0 m ids) where
  frame r r' h hr hb hf h1 h2 := ⟨Frame.frame r r' h.1 hr hb hf h1 h2, Frame.frame r r' h.2 hr hb hf h1 h2⟩

/-- `commitNewRootNodes`, when it reports success, has registered the roots and stored their blobs -/
theorem fx_commitNewRoots (p3 : Pre3 w) :
    Triple (fun _ => True) (commitNewRoots w) (fun ok r => ok = true → Fixed Handle.new w.rootIds r) (fun _ => True) := by
  unfold commitNewRoots
  simp only
  split
  · rename_i he
    exact Triple.pure _ (fun r _ _ i hi => by rw [List.isEmpty_iff.mp he] at hi; cases hi)
  · refine Triple.bind (Q1 := fun _ _ => True) Triple.triv (fun hs => ?_)
    split
    · exact Triple.pure _ (fun _ _ e => by cases e)
    · refine Triple.bind (Q1 := fun _ r => ∀ i ∈ w.rootIds, r.s.blob i = true) ?_ (fun _ => ?_)
      · refine Triple.call _ _ _ _ _ (fun r _ _ _ i hi => ?_) (fun _ _ _ _ _ => trivial) (fun _ _ _ _ => trivial)
        show (r.s.addBlobs w.rootIds).blob i = true
        rw [State.addBlobs_blob]; simp [hi]
      · refine Triple.bind (Q1 := fun _ => Fixed Handle.new w.rootIds) ?_ (fun _ => Triple.pure _ (fun _ h _ => h))
        refine Triple.call _ _ _ _ _ (fun r _ _ hb i hi => ?_) (fun _ _ _ _ _ => trivial) (fun _ _ _ _ => trivial)
        show (r.s.setRegs (w.rootIds.map Handle.new)).reg i = some (Handle.new i) ∧ (r.s.setRegs (w.rootIds.map Handle.new)).blob i = true
        rw [State.setRegs_blob]
        refine ⟨?_, hb i hi⟩
        have hn : ((w.rootIds.map Handle.new).map (·.lid)).Nodup := by
          have : (w.rootIds.map Handle.new).map (·.lid) = w.rootIds := by
            rw [List.map_map]
            have : ((fun (x : Handle) => x.lid) ∘ Handle.new) = id := by funext i; rfl
            rw [this, List.map_id]
          rw [this]
          exact (List.nodup_append.mp p3.newNodup).1
        exact State.setRegs_reg_nodup r.s _ hn (List.mem_map_of_mem hi)

/-- `commitUpdatedNodes` writes only at the logical ids of the write set's updated nodes -/
theorem fx_commitUpdated (hdis : ∀ i ∈ ids, i ∉ w.updated.map (·.1)) :
    Triple (Fixed m ids) (commitUpdated w) (fun _ => Fixed m ids) (fun _ => True) := by
  unfold commitUpdated
  simp only
  split
  · exact Triple.pure _ (fun _ h => h)
  · refine Triple.bind (gen_regGet _).dropE (fun hs => ?_)
    split
    · exact Triple.pure _ (fun _ h => h)
    · refine Triple.bind (Q1 := fun _ => Fixed m ids) (Triple.get (fun _ h => h)) (fun r0 => ?_)
      split
      · exact Triple.pure _ (fun _ h => h)
      · rename_i res fr' e
        obtain ⟨sh1, _⟩ := reserveAll_shape _ _ _ _ e
        have hsub : (res.map (·.lid)).Sublist (w.updated.map (·.1)) := by rw [sh1]; exact pairs_lids_sublist _ hs
        refine Triple.bind (Q1 := fun _ => Fixed m ids) (Triple.modify _ (fun r hr => hr)) (fun _ => ?_)
        refine Triple.bind (Q1 := fun _ => Fixed m ids) ?_ (fun _ => ?_)
        · refine Triple.call _ _ _ _ _ (fun r o t hr => hr.setRegs o t _ ?_) (fun _ _ _ _ _ => trivial) (fun _ _ _ _ => trivial)
          intro x hx hin
          exact hdis _ hin (hsub.subset (List.mem_map_of_mem (f := (·.lid)) hx))
        refine Triple.bind (Q1 := fun _ => Fixed m ids) ?_ (fun _ => ?_)
        · exact Triple.call _ _ _ _ _ (fun r o t hr => hr.addBlobs o t _) (fun _ _ _ _ _ => trivial) (fun _ _ _ _ => trivial)
        exact Triple.bind (Q1 := fun _ => Fixed m ids) (Triple.modify _ (fun r hr => hr)) (fun _ => Triple.pure _ (fun _ h => h))

/-- `commitRemovedNodes` writes only at the logical ids of the write set's removed nodes -/
theorem fx_commitRemoved (hdis : ∀ i ∈ ids, i ∉ w.removed.map (·.1)) :
    Triple (SFX s0 w fresh0 m ids) (commitRemoved w) (fun _ => Fixed m ids) (fun _ => True) := by
  unfold commitRemoved
  simp only
  split
  · exact Triple.pure _ (fun _ h => h.2)
  · refine Triple.bind (regGet_known (I := SFX s0 w fresh0 m ids) (fun _ h => h.1.rinv) _).dropE (fun hs r hr => ?_)
    obtain ⟨hJ, _, hlid, _⟩ := hr
    revert r
    show Triple (SFX s0 w fresh0 m ids) _ _ _
    refine Triple.bind (Q1 := fun _ => SFX s0 w fresh0 m ids) (Triple.get (fun _ h => h)) (fun r0 => ?_)
    split
    · exact Triple.pure _ (fun _ h => h.2)
    · refine Triple.bind (Q1 := fun _ => Fixed m ids) ?_ (fun _ => ?_)
      · refine Triple.call _ _ _ _ _ (fun r o t hr => hr.2.setRegs o t _ ?_) (fun _ _ _ _ _ => trivial) (fun _ _ _ _ => trivial)
        intro x hx hin
        obtain ⟨y, hy, rfl⟩ := List.mem_map.mp hx
        exact hdis _ hin (hlid y hy)
      exact Triple.bind (Q1 := fun _ => Fixed m ids) (Triple.modify _ (fun r hr => hr)) (fun _ => Triple.pure _ (fun _ h => h))

/-- `commitAddedNodes` leaves other fixed nodes alone … -/
theorem fx_commitAdded_keep (hdis : ∀ i ∈ ids, i ∉ w.addedIds) : Preserves (Fixed m ids) (commitAdded w) := by
  unfold commitAdded
  simp only
  split
  · exact G.pure _
  · refine G.bind (G.callEff _ _ _ _ _ (fun r o t hr => hr.setRegs o t _ ?_)) (fun _ => ?_)
    · intro x hx hin
      obtain ⟨i, hi, rfl⟩ := List.mem_map.mp hx
      exact hdis _ hin hi
    · exact G.callEff _ _ _ _ _ (fun r o t hr => hr.addBlobs o t _)

/-- the image `commitAddedNodes` registers for a new node -/
def addedImage (i : UUID) : Handle := { Handle.new i with version := 1 }

/-- … and registers its own, with their blobs -/
theorem fx_commitAdded_new (p3 : Pre3 w) :
    Triple (fun _ => True) (commitAdded w) (fun _ => Fixed addedImage w.addedIds) (fun _ => True) := by
  unfold commitAdded
  simp only
  split
  · rename_i he
    exact Triple.pure _ (fun r _ i hi => by rw [List.isEmpty_iff.mp he] at hi; cases hi)
  · refine Triple.bind (Q1 := fun _ r => ∀ i ∈ w.addedIds, r.s.reg i = some (addedImage i)) ?_ (fun _ => ?_)
    · refine Triple.call _ _ _ _ _ (fun r _ _ _ i hi => ?_) (fun _ _ _ _ _ => trivial) (fun _ _ _ _ => trivial)
      have hn : ((w.addedIds.map (fun i => { Handle.new i with version := 1 })).map (·.lid)).Nodup := by
        have : (w.addedIds.map (fun i => { Handle.new i with version := 1 })).map (·.lid) = w.addedIds := by
          rw [List.map_map]
          have : ((fun (x : Handle) => x.lid) ∘ fun i => { Handle.new i with version := 1 }) = id := by funext i; rfl
          rw [this, List.map_id]
        rw [this]
        exact (List.nodup_append.mp p3.newNodup).2.1
      exact State.setRegs_reg_nodup r.s _ hn (List.mem_map_of_mem (f := fun i => { Handle.new i with version := 1 }) hi)
    · refine Triple.call _ _ _ _ _ (fun r _ _ hr i hi => ?_) (fun _ _ _ _ _ => trivial) (fun _ _ _ _ => trivial)
      show (r.s.addBlobs w.addedIds).reg i = some (addedImage i) ∧ (r.s.addBlobs w.addedIds).blob i = true
      rw [State.addBlobs_reg, State.addBlobs_blob]
      exact ⟨hr i hi, by simp [hi]⟩

/-- the conjunction of two frame invariants -/
def AndI (A B : Run → Prop) (r : Run) : Prop := A r ∧ B r
instance {A B : Run → Prop} [Frame A] [Frame B] : Frame (AndI A B) where
  frame r r' h hr hb hf h1 h2 := ⟨Frame.frame r r' h.1 hr hb hf h1 h2, Frame.frame r r' h.2 hr hb hf h1 h2⟩

/-- the post-commit cleanup deletes no new node: its targets are old blob ids, removed nodes and obsolete values -/
theorem fx_cleanup (pre : Pre s0 w fresh0) (pre2 : Pre2 s0 w fresh0) (p3 : Pre3 w) (hids : ∀ i ∈ ids, i ∈ w.newIds)
    {resv remv : List Handle} (L : Lists s0 fresh0 resv remv) (hrem : ∀ g ∈ remv, g.lid ∈ w.removed.map (·.1)) :
    Triple (fun r => Fixed m ids r ∧ r.reserved = resv ∧ r.removedH = remv) (cleanup w) (fun _ => Fixed m ids) (fun _ => True) := by
  unfold cleanup
  refine Triple.bind (Q1 := fun r0 r => Fixed m ids r ∧ r0.reserved = resv ∧ r0.removedH = remv)
    (Triple.get (fun r h => ⟨h.1, h.2⟩)) (fun r0 r hr => ?_)
  obtain ⟨_, e1, e2⟩ := hr
  revert r
  show Triple (Fixed m ids) _ _ _
  refine Triple.bind (G.attempt (gen_logStep _)).dropE (fun ok => ?_)
  simp only [e1, e2]
  have oldact : ∀ x ∈ resv ++ remv, ∀ i ∈ ids, i ≠ x.active := by
    intro x hx i hi e
    have ho : OldAct s0 x := by
      rcases List.mem_append.mp hx with h | h
      · exact L.resAct x h
      · exact L.remAct x h
    obtain ⟨h0, e0, ea⟩ := ho
    exact pre.actNew _ h0 e0 (ea ▸ e ▸ hids i hi)
  have tail : Triple (Fixed m ids) (do
      let _ ← attempt (call Cls.regRemove (Args.ids (remv.map (·.lid))) fun s => s.delRegs (remv.map (·.lid)))
      let ok ← attempt (logStep Step.deleteTrackedItemsValues)
      if (!ok) = true then pure ()
        else do
          forIn w.stores PUnit.unit fun st __s =>
              if (!st.obsoleteValues.isEmpty) = true then do
                let _ ← attempt (call Cls.blobRemove (Args.ids st.obsoleteValues) fun s => s.delBlobs st.obsoleteValues)
                pure (ForInStep.yield PUnit.unit)
              else pure (ForInStep.yield PUnit.unit)
          let _ ← attempt (call Cls.tlogRemove Args.none
                  (fun s => { s with tlog := fun k => if k = r0.tid then false else s.tlog k })
                  Args.none fun s => !s.tlog r0.tid)
          pure ()) (fun _ => Fixed m ids) (fun _ => True) := by
    refine Triple.dropE (E := Fixed m ids) ?_
    refine G.bind (G.attempt (G.callEff _ _ _ _ _ (fun r o t hr => hr.delRegs o t _ ?_))) (fun _ => ?_)
    · intro i hi hm
      obtain ⟨g, hg, e⟩ := List.mem_map.mp hm
      exact pre2.remOld _ (hrem g hg) (e ▸ hids i hi)
    refine G.bind (G.attempt (gen_logStep _)) (fun ok => ?_)
    split
    · exact G.pure _
    · refine G.bind (Triple.forIn_mem _ _ (fun st hst => ?_)) (fun _ => ?_)
      · split
        · refine G.bind (G.attempt (G.callEff _ _ _ _ _ (fun r o t hr => hr.delBlobs o t _ ?_))) (fun _ => G.pure _)
          intro i hi hm
          exact p3.newObs i (hids i hi) (obsolete_sub hst hm)
        · exact G.pure _
      · exact G.bind (G.attempt (G.callSame _ _ _ _ _ (fun s => ⟨rfl, rfl⟩))) (fun _ => G.pure _)
  split
  · exact Triple.pure _ (fun _ h => h)
  · split
    · refine Triple.bind (Triple.dropE (G.attempt (G.callEff _ _ _ _ _ (fun r o t hr => hr.delBlobs o t _ ?_)))) (fun _ => tail)
      intro i hi hm
      rcases List.mem_append.mp hm with hm | hm
      · obtain ⟨y, hy, e⟩ := List.mem_map.mp hm
        obtain ⟨z, hz, rfl⟩ := List.mem_map.mp hy
        rw [(activate_spec z).2.2.1] at e
        exact oldact z (List.mem_append_left _ hz) i hi e.symm
      · obtain ⟨g, hg, e⟩ := List.mem_map.mp hm
        exact oldact g (List.mem_append_right _ hg) i hi e.symm
    · exact tail

/-- fixed nodes plus the identity of the two lists (what the cleanup reads) -/
def FXL (m : UUID → Handle) (ids : List UUID) (resv remv : List Handle) (r : Run) : Prop :=
  Fixed m ids r ∧ r.reserved = resv ∧ r.removedH = remv

instance {resv remv : List Handle} : Frame (FXL m ids resv remv) where
  frame r r' h hr hb hf h1 h2 := ⟨Frame.frame r r' h.1 hr hb hf h1 h2, by rw [h1]; exact h.2.1, by rw [h2]; exact h.2.2⟩

/-- phase 2 leaves the new nodes as phase 1 registered them -/
theorem fx_phase2 (pre : Pre s0 w fresh0) (pre2 : Pre2 s0 w fresh0) (p3 : Pre3 w) (hids : ∀ i ∈ ids, i ∈ w.newIds)
    {resv remv : List Handle} (L : Lists s0 fresh0 resv remv) :
    Triple (AndI (P2 s0 w fresh0 resv remv) (Fixed m ids)) (phase2 w) (fun _ => Fixed m ids) (fun _ => True) := by
  unfold phase2
  refine Triple.bind (Q1 := fun r0 r => AndI (P2 s0 w fresh0 resv remv) (Fixed m ids) r ∧ r0.reserved = resv ∧ r0.removedH = remv)
    (Triple.get (fun r h => ⟨h, h.1.2⟩)) (fun r0 r hr => ?_)
  obtain ⟨_, e1, e2⟩ := hr
  revert r
  show Triple (AndI (P2 s0 w fresh0 resv remv) (Fixed m ids)) _ _ _
  refine Triple.bind (G.attempt (gen_logStep _)).dropE (fun okLog => ?_)
  simp only [e1, e2]
  have toL : ∀ r, AndI (P2 s0 w fresh0 resv remv) (Fixed m ids) r → FXL m ids resv remv r := fun r h => ⟨h.2, h.1.2⟩
  have rest : ∀ (hrem : ∀ g ∈ remv, g.lid ∈ w.removed.map (·.1)), Triple (FXL m ids resv remv) (do
      unlockNodesKeys
      let _ ← attempt (unlockItems w)
      cleanup w) (fun _ => Fixed m ids) (fun _ => True) := by
    intro hrem
    refine Triple.bind (gen_unlockNodesKeys).dropE (fun _ => ?_)
    refine Triple.bind (G.attempt (gen_unlockItems w)).dropE (fun _ => ?_)
    exact fx_cleanup pre pre2 p3 hids L hrem
  split
  · refine Triple.bind (gen_unlockNodesKeys).dropE (fun _ => ?_)
    exact Triple.bind (Q1 := fun _ _ => False) (Triple.fail (fun _ _ => trivial)) (fun _ r h => h.elim)
  · -- the lists' logical ids, read off `Staged`, needed below; obtained inside each branch from the precondition
    split
    · refine Triple.bind (Q1 := fun _ r => FXL m ids resv remv r ∧ ∀ g ∈ remv, g.lid ∈ w.removed.map (·.1)) ?_ (fun _ r hr => ?_)
      · refine Triple.call _ _ _ _ _ (fun r o t hr => ⟨⟨hr.2.setRegs o t _ ?_, hr.1.2⟩, fun g hg => hr.1.1.remSub g (hr.1.2.2 ▸ hg)⟩)
          (fun _ _ _ _ _ => trivial) (fun _ _ _ _ => trivial)
        intro x hx hin
        rcases List.mem_append.mp hx with hx | hx
        · obtain ⟨z, hz, rfl⟩ := List.mem_map.mp hx
          rw [(activate_spec z).1] at hin
          exact pre2.updOld _ (hr.1.1.resLid (hr.1.2.1 ▸ hz)) (hids _ hin)
        · obtain ⟨g, hg, rfl⟩ := List.mem_map.mp hx
          exact pre2.remOld _ (hr.1.1.remSub g (hr.1.2.2 ▸ hg)) (hids _ hin)
      · obtain ⟨hL, hrem⟩ := hr
        revert r
        show Triple (FXL m ids resv remv) _ _ _
        refine Triple.bind (Triple.dropE (G.attempt ?_)) (fun _ => rest hrem)
        exact G.callSame _ _ _ _ _ (fun s => ⟨rfl, rfl⟩)
    · intro r hr
      exact rest (fun g hg => hr.1.1.remSub g (hr.1.2.2 ▸ hg)) r (toL r hr)

/-- both kinds of new nodes -/
def NewV (w : WS) (r : Run) : Prop := Fixed Handle.new w.rootIds r ∧ Fixed addedImage w.addedIds r

theorem new_disjoint (pre2 : Pre2 s0 w fresh0) (p3 : Pre3 w) :
    (∀ i ∈ w.rootIds, i ∉ w.updated.map (·.1)) ∧ (∀ i ∈ w.rootIds, i ∉ w.removed.map (·.1)) ∧ (∀ i ∈ w.rootIds, i ∉ w.addedIds) ∧
    (∀ i ∈ w.addedIds, i ∉ w.updated.map (·.1)) ∧ (∀ i ∈ w.addedIds, i ∉ w.removed.map (·.1)) := by
  refine ⟨?_, ?_, ?_, ?_, ?_⟩
  · intro i hi hu; exact pre2.updOld i hu (rootIds_new hi)
  · intro i hi hu; exact pre2.remOld i hu (rootIds_new hi)
  · intro i hi ha; exact (List.nodup_append.mp p3.newNodup).2.2 i hi i ha rfl
  · intro i hi hu; exact pre2.updOld i hu (addedIds_new hi)
  · intro i hi hu; exact pre2.remOld i hu (addedIds_new hi)

/-- **a successful body of the commit loop has registered and stored every new node** -/
theorem new_phase1Body (pre : Pre s0 w fresh0) (pre2 : Pre2 s0 w fresh0) (p3 : Pre3 w) :
    Triple (J0 s0 w fresh0) (phase1Body w)
      (fun ok r => Staged s0 w fresh0 r ∧ (ok = true → Covered w r ∧ NewV w r)) (fun _ => True) := by
  obtain ⟨d1, d2, d3, d4, d5⟩ := new_disjoint pre2 p3
  unfold phase1Body
  refine Triple.bind (gen_logStep _).dropE (fun _ => ?_)
  refine Triple.bind j0_addValues.dropE (fun _ => ?_)
  refine Triple.bind (gen_logStep _).dropE (fun _ => ?_)
  refine Triple.bind (Q1 := fun ok r => J0 s0 w fresh0 r ∧ (ok = true → Fixed Handle.new w.rootIds r))
    (Triple.conseq (Triple.and (j0_commitNewRoots pre).dropE (fx_commitNewRoots p3)) (fun _ h => ⟨h, trivial⟩) (fun _ _ h => h) (fun _ _ => trivial)) (fun ok => ?_)
  cases ok with
  | false =>
    simp only [Bool.not_false, ↓reduceIte]
    exact Triple.pure _ (fun _ h => ⟨staged_of_j0 h.1, fun e => by cases e⟩)
  | true =>
  simp only [Bool.not_true, Bool.false_eq_true, ↓reduceIte]
  refine Triple.bind (Q1 := fun _ => AndI (J0 s0 w fresh0) (Fixed Handle.new w.rootIds))
    (Triple.conseq (gen_logStep (I := AndI (J0 s0 w fresh0) (Fixed Handle.new w.rootIds)) _).dropE (fun _ h => ⟨h.1, h.2 trivial⟩) (fun _ _ h => h) (fun _ h => h)) (fun _ => ?_)
  refine Triple.bind (gen_fetchedIntact w).dropE (fun ok => ?_)
  split
  · exact Triple.pure _ (fun _ h => ⟨staged_of_j0 h.1, fun e => by cases e⟩)
  refine Triple.bind (Q1 := fun ok r => (Staged s0 w fresh0 r ∧ (ok = true → Covered w r)) ∧ Fixed Handle.new w.rootIds r)
    (Triple.conseq (Triple.and (staged_commitUpdated pre pre2) (fx_commitUpdated d1)) (fun _ h => h) (fun _ _ h => h) (fun _ _ => trivial)) (fun ok => ?_)
  cases ok with
  | false =>
    refine Triple.bind (Q1 := fun _ => Staged s0 w fresh0) (Triple.conseq (gen_logStep _).dropE (fun _ h => h.1.1) (fun _ _ h => h) (fun _ h => h)) (fun _ => ?_)
    simp only [Bool.not_false, ↓reduceIte]
    exact Triple.pure _ (fun _ h => ⟨h, fun e => by cases e⟩)
  | true =>
    refine Triple.bind (Q1 := fun _ => AndI (SCov s0 w fresh0) (Fixed Handle.new w.rootIds))
      (Triple.conseq (gen_logStep (I := AndI (SCov s0 w fresh0) (Fixed Handle.new w.rootIds)) _).dropE (fun _ h => ⟨⟨h.1.1, h.1.2 rfl⟩, h.2⟩) (fun _ _ h => h) (fun _ h => h)) (fun _ => ?_)
    simp only [Bool.not_true, Bool.false_eq_true, ↓reduceIte]
    refine Triple.bind (gen_logStep _).dropE (fun _ => ?_)
    refine Triple.bind (Q1 := fun _ => AndI (SCov s0 w fresh0) (Fixed Handle.new w.rootIds))
      (Triple.conseq (Triple.and (Triple.and (staged_commitRemoved pre pre2) cov_commitRemoved) (fx_commitRemoved (s0 := s0) (fresh0 := fresh0) d2))
        (fun _ h => ⟨⟨h.1.1, h.1.2⟩, ⟨h.1.1, h.2⟩⟩) (fun _ _ h => ⟨⟨h.1.1, h.1.2⟩, h.2⟩) (fun _ _ => trivial)) (fun ok => ?_)
    split
    · exact Triple.pure _ (fun _ h => ⟨h.1.1, fun e => by cases e⟩)
    refine Triple.bind (gen_logStep _).dropE (fun _ => ?_)
    refine Triple.bind (Q1 := fun _ r => SCov s0 w fresh0 r ∧ NewV w r)
      (Triple.conseq (Triple.and (Triple.and (staged_commitAdded pre pre2).dropE cov_commitAdded.dropE)
          (Triple.and (fx_commitAdded_keep d3).dropE (fx_commitAdded_new p3)))
        (fun _ h => ⟨⟨h.1.1, h.1.2⟩, ⟨h.2, trivial⟩⟩) (fun _ _ h => ⟨⟨h.1.1, h.1.2⟩, ⟨h.2.1, h.2.2⟩⟩) (fun _ _ => trivial)) (fun _ => ?_)
    exact Triple.pure _ (fun _ h => ⟨h.1.1, fun _ => ⟨h.1.2, h.2⟩⟩)

theorem new_phase1 (pre : Pre s0 w fresh0) (pre2 : Pre2 s0 w fresh0) (p3 : Pre3 w) (n : Nat) :
    Triple (J0 s0 w fresh0) (phase1 w n)
      (fun _ r => Staged s0 w fresh0 r ∧ (w.hasTracked = true → Covered w r ∧ NewV w r)) (fun _ => True) := by
  unfold phase1
  split
  · rename_i hnt
    exact Triple.pure _ (fun _ h => ⟨staged_of_j0 h, fun e => by simp [e] at hnt⟩)
  refine Triple.bind (gen_logStep _).dropE (fun _ => ?_)
  refine Triple.bind (gen_lockItems w).dropE (fun _ => ?_)
  refine Triple.bind (gen_mergeNodesKeys w).dropE (fun _ => ?_)
  refine Triple.bind (gen_lockNodes).dropE (fun locked => ?_)
  split
  · exact giveUpLocked_raises
  refine Triple.bind (new_phase1Body pre pre2 p3) (fun ok => ?_)
  cases ok with
  | false =>
    simp only [Bool.not_false, ↓reduceIte]
    exact conflictRound_raises w n
  | true =>
    simp only [Bool.not_true, Bool.false_eq_true, ↓reduceIte]
    exact Triple.conseq (gen_finishPhase1 (I := AndI (SCov s0 w fresh0) (AndI (Fixed Handle.new w.rootIds) (Fixed addedImage w.addedIds))) w).dropE
      (fun _ h => ⟨⟨h.1, (h.2 trivial).1⟩, (h.2 trivial).2⟩) (fun _ _ h => ⟨h.1.1, fun _ => ⟨h.1.2, h.2⟩⟩) (fun _ h => h)

/-- **A successful commit makes every new node visible**: the first root of an empty store at version 0, every node
added by a split at version 1, each under the blob written for it. -/
theorem commit_ok_new_nodes (pre : Pre s0 w fresh0) (pre2 : Pre2 s0 w fresh0) (p3 : Pre3 w)
    (fault : Option Fault) {cs0 : Step} (tid : Tid) (n : Nat) (r2 : Run) (ht : w.hasTracked = true)
    (hok : commit w n { s := s0, tid := tid, fault := fault, fresh := fresh0, cs := cs0 } = (.ok, r2)) :
    (∀ i ∈ w.rootIds, r2.s.view i = some (i, 0)) ∧ (∀ i ∈ w.addedIds, r2.s.view i = some (i, 1)) := by
  have hj0 : J0 s0 w fresh0 { s := s0, tid := tid, fault := fault, fresh := fresh0, cs := cs0 } :=
    ⟨⟨SInv.init s0 w fresh0 pre, fun _ hp => hp⟩, rfl, rfl⟩
  have h1 := new_phase1 pre pre2 p3 n _ hj0
  unfold commit at hok
  cases hp : phase1 w n { s := s0, tid := tid, fault := fault, fresh := fresh0, cs := cs0 } with
  | error r1 =>
    rw [hp] at hok
    simp only at hok
    split at hok
    · cases hok
    · split at hok <;> cases hok
  | ok p =>
    obtain ⟨u, r1⟩ := p
    rw [hp] at hok h1
    simp only at hok h1
    obtain ⟨hst, hrest⟩ := h1
    obtain ⟨_, hroot, hadd⟩ := hrest ht
    have L := hst.lists pre2
    have ha := fx_phase2 (m := Handle.new) (ids := w.rootIds) pre pre2 p3 (fun i hi => rootIds_new hi) L r1 ⟨⟨hst, rfl, rfl⟩, hroot⟩
    have hb := fx_phase2 (m := addedImage) (ids := w.addedIds) pre pre2 p3 (fun i hi => addedIds_new hi) L r1 ⟨⟨hst, rfl, rfl⟩, hadd⟩
    cases hq : phase2 w r1 with
    | error r2' => rw [hq] at hok; cases hok
    | ok q =>
      obtain ⟨u', r2'⟩ := q
      rw [hq] at hok ha hb
      simp only [Prod.mk.injEq, true_and] at hok
      subst hok
      simp only at ha hb
      refine ⟨fun i hi => ?_, fun i hi => ?_⟩
      · obtain ⟨a, b⟩ := ha i hi
        unfold State.view
        rw [a]
        simp [Handle.new, Handle.active, b]
      · obtain ⟨a, b⟩ := hb i hi
        unfold State.view
        rw [a]
        simp [addedImage, Handle.new, Handle.active, b]

end
end Sop.Commit
