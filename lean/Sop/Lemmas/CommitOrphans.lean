import Sop.Lemmas.CommitPhase2After
import Sop.Lemmas.CommitNew
/-!
No orphaned blobs after a successful fault-free commit (C11, success half), on Model P.

`BI X s`: every blob in the store is the ACTIVE blob of some registered handle, or one of the listed exceptions
`X`. The exception list follows the run: before the flip it holds the staged ids (`reserved.map inactive`), after
the flip the old active ids of the updated nodes, after the cleanup nothing.
-/
namespace Sop.Commit
set_option linter.unusedSectionVars false

/-- every blob is some registered handle's active blob -/
def NoOrphan (s : State) : Prop := ∀ b, s.blob b = true → ∃ lid h, s.reg lid = some h ∧ h.active = b

/-- … or one of the exceptions `X` -/
def BI (X : List UUID) (s : State) : Prop :=
  ∀ b, s.blob b = true → (∃ lid h, s.reg lid = some h ∧ h.active = b) ∨ b ∈ X

theorem BI.nil {s : State} : BI [] s ↔ NoOrphan s := by
  constructor
  · intro h b hb
    rcases h b hb with a | a
    · exact a
    · cases a
  · intro h b hb; exact .inl (h b hb)

theorem BI.mono {X X' : List UUID} {s : State} (h : BI X s) (hx : ∀ b ∈ X, b ∈ X') : BI X' s := by
  intro b hb
  rcases h b hb with a | a
  · exact .inl a
  · exact .inr (hx b a)

theorem BI.of_same {X : List UUID} {s s' : State} (h : BI X s) (hr : s'.reg = s.reg) (hb : s'.blob = s.blob) : BI X s' := by
  intro b e; rw [hb] at e; rw [hr]; exact h b e

/-- a batch write whose images keep the active id of whatever handle they overwrite -/
theorem BI.setRegs_same {X : List UUID} {s : State} (h : BI X s) (hs : List Handle)
    (hsame : ∀ x ∈ hs, ∀ g, s.reg x.lid = some g → x.active = g.active) : BI X (s.setRegs hs) := by
  intro b hb
  rw [State.setRegs_blob] at hb
  rcases h b hb with ⟨k, g, e, ea⟩ | a
  · by_cases hk : ∃ x ∈ hs, x.lid = k
    · obtain ⟨x, hx, e1, e2⟩ := State.setRegs_reg_mem s hs k hk
      refine .inl ⟨k, x, e2, ?_⟩
      rw [hsame x hx g (e1 ▸ e)]; exact ea
    · refine .inl ⟨k, g, ?_, ea⟩
      rw [State.setRegs_reg_of_not_mem s hs k (fun x hx e' => hk ⟨x, hx, e'⟩)]; exact e
  · exact .inr a

/-- adding blobs each of which is a registered handle's active id or an exception -/
theorem BI.addBlobs {X : List UUID} {s : State} (h : BI X s) (ids : List UUID)
    (hids : ∀ i ∈ ids, (∃ lid g, s.reg lid = some g ∧ g.active = i) ∨ i ∈ X) : BI X (s.addBlobs ids) := by
  intro b hb
  rw [State.addBlobs_blob] at hb
  rw [State.addBlobs_reg]
  simp only [Bool.or_eq_true, decide_eq_true_eq] at hb
  rcases hb with hb | hb
  · exact h b hb
  · exact hids b hb

/-- adding blobs as new exceptions -/
theorem BI.addBlobs_ex {X : List UUID} {s : State} (h : BI X s) (ids : List UUID) : BI (X ++ ids) (s.addBlobs ids) :=
  (h.mono (fun _ hb => List.mem_append_left _ hb)).addBlobs ids (fun _ hi => .inr (List.mem_append_right _ hi))

/-- deleting blobs never orphans anything; exceptions that are deleted can be dropped -/
theorem BI.delBlobs {X A : List UUID} {s : State} (h : BI (X ++ A) s) (ids : List UUID) (hA : ∀ a ∈ A, a ∈ ids) :
    BI X (s.delBlobs ids) := by
  intro b hb
  rw [State.delBlobs_blob] at hb
  rw [State.delBlobs_reg]
  simp only [Bool.and_eq_true, Bool.not_eq_true', decide_eq_false_iff_not] at hb
  rcases h b hb.1 with a | a
  · exact .inl a
  · rcases List.mem_append.mp a with a | a
    · exact .inr a
    · exact absurd (hA b a) hb.2

theorem BI.delBlobs' {X : List UUID} {s : State} (h : BI X s) (ids : List UUID) : BI X (s.delBlobs ids) :=
  BI.delBlobs (A := []) (h.mono (fun _ hb => List.mem_append_left _ hb)) ids (fun _ ha => by cases ha)

/-- unregistering handles whose active blob is gone -/
theorem BI.delRegs {X : List UUID} {s : State} (h : BI X s) (ids : List UUID)
    (hgone : ∀ k ∈ ids, ∀ g, s.reg k = some g → s.blob g.active = false) : BI X (s.delRegs ids) := by
  intro b hb
  rw [State.delRegs_blob] at hb
  rcases h b hb with ⟨k, g, e, ea⟩ | a
  · by_cases hk : k ∈ ids
    · have := hgone k hk g e
      rw [ea, hb] at this; cases this
    · exact .inl ⟨k, g, by rw [State.delRegs_reg_of_not_mem s ids k hk]; exact e, ea⟩
  · exact .inr a

/-- registering new nodes under their own ids: the blobs written for them stop being exceptions -/
theorem BI.setRegs_new {X : List UUID} {s : State} (ids : List UUID) (h : BI (X ++ ids) s) (hs : List Handle)
    (hact : ∀ x ∈ hs, x.active = x.lid) (hcov : ∀ i ∈ ids, ∃ x ∈ hs, x.lid = i)
    (hold : ∀ x ∈ hs, ∀ g, s.reg x.lid = some g → g.active = x.lid) : BI X (s.setRegs hs) := by
  have h1 : BI (X ++ ids) (s.setRegs hs) :=
    h.setRegs_same hs (fun x hx g e => by rw [hact x hx, hold x hx g e])
  intro b hb
  rcases h1 b hb with a | a
  · exact .inl a
  · rcases List.mem_append.mp a with a | a
    · exact .inr a
    · obtain ⟨x, hx, e1, e2⟩ := State.setRegs_reg_mem s hs b (hcov b a)
      exact .inl ⟨b, x, e2, by rw [hact x hx, e1]⟩

theorem touch_active (g : Handle) : (touch g).active = g.active := rfl

/-- **the flip**: the staged ids become active ids, the old active ids of the updated nodes become the exceptions;
removed nodes' handles keep their active id -/
theorem BI.flip {X : List UUID} {s : State} {resv remv : List Handle}
    (h : BI (X ++ resv.map (·.inactive)) s)
    (hres : ∀ g ∈ resv, s.reg g.lid = some g)
    (hnd : (resv.map (·.lid)).Nodup)
    (hdisj : ∀ x ∈ resv, ∀ g ∈ remv, x.lid ≠ g.lid)
    (hrem : ∀ g ∈ remv, ∀ x, s.reg g.lid = some x → x.active = g.active)
    (hrem2 : ∀ g ∈ remv, ∀ g' ∈ remv, g.lid = g'.lid → g.active = g'.active) :
    BI (X ++ resv.map (·.active)) (s.setRegs (resv.map activate ++ remv.map touch)) ∧
    ∀ g ∈ remv, ∀ x, (s.setRegs (resv.map activate ++ remv.map touch)).reg g.lid = some x → x.active = g.active := by
  refine ⟨?_, ?_⟩
  · intro b hb
    rw [State.setRegs_blob] at hb
    rcases h b hb with ⟨k, g, e, ea⟩ | a
    · by_cases hk : ∃ x ∈ resv.map activate ++ remv.map touch, x.lid = k
      · obtain ⟨x, hx, e1, e2⟩ := State.setRegs_reg_mem s _ k hk
        rcases List.mem_append.mp hx with hx | hx
        · obtain ⟨z, hz, rfl⟩ := List.mem_map.mp hx
          rw [(activate_spec z).1] at e1
          have := hres z hz
          rw [e1, e] at this
          cases this
          exact .inr (List.mem_append_right _ (ea ▸ List.mem_map_of_mem (f := (·.active)) hz))
        · obtain ⟨z, hz, rfl⟩ := List.mem_map.mp hx
          refine .inl ⟨k, touch z, e2, ?_⟩
          rw [touch_active, ← hrem z hz g (by rw [show z.lid = k from e1]; exact e)]; exact ea
      · refine .inl ⟨k, g, ?_, ea⟩
        rw [State.setRegs_reg_of_not_mem s _ k (fun x hx e' => hk ⟨x, hx, e'⟩)]; exact e
    · rcases List.mem_append.mp a with a | a
      · exact .inr (List.mem_append_left _ a)
      · obtain ⟨z, hz, rfl⟩ := List.mem_map.mp a
        obtain ⟨x, hx, e1, e2⟩ := State.setRegs_reg_mem s (resv.map activate ++ remv.map touch) z.lid
          ⟨activate z, List.mem_append_left _ (List.mem_map_of_mem hz), (activate_spec z).1⟩
        rcases List.mem_append.mp hx with hx | hx
        · obtain ⟨z', hz', rfl⟩ := List.mem_map.mp hx
          rw [(activate_spec z').1] at e1
          have : z' = z := eq_of_nodup_map (·.lid) hnd hz' hz e1
          subst this
          exact .inl ⟨z'.lid, activate z', e2, (activate_spec z').2.1⟩
        · obtain ⟨g, hg, rfl⟩ := List.mem_map.mp hx
          exact absurd e1.symm (hdisj z hz g hg)
  · intro g hg x e
    obtain ⟨y, hy, e1, e2⟩ := State.setRegs_reg_mem s (resv.map activate ++ remv.map touch) g.lid
      ⟨touch g, List.mem_append_right _ (List.mem_map_of_mem hg), rfl⟩
    rw [e2] at e; cases e
    rcases List.mem_append.mp hy with hy | hy
    · obtain ⟨z, hz, rfl⟩ := List.mem_map.mp hy
      rw [(activate_spec z).1] at e1
      exact absurd e1 (hdisj z hz g hg)
    · obtain ⟨g', hg', rfl⟩ := List.mem_map.mp hy
      rw [touch_active]
      exact hrem2 g' hg' g hg e1

end Sop.Commit
