import Sop.Lemmas.CommitOrphansPhase2
/-!
The log half of "a successful fault-free commit leaves nothing behind": when `Commit` returns ok in a run with no
injected fault and no observer, the transaction's transaction-log file and its priority-log file are gone (the
priority log provided it did not exist before). No premise on the state or the write set is needed: this is about
the control flow only (the priority log is written exactly when there is something to flip, and removed right
after the flip; the cleanup's last call removes the transaction log, which its own `log` call has just (re)created).
-/
namespace Sop.Commit
set_option linter.unusedSectionVars false

/-- invariants that look only at the transaction id, the priority logs and the two lists -/
class LFrame (I : Run → Prop) : Prop where
  frame : ∀ r r' : Run, I r → r'.tid = r.tid → r'.s.plog = r.s.plog → r'.reserved = r.reserved →
    r'.removedH = r.removedH → I r'

theorem State.addBlobs_plog (s : State) (ids : List UUID) : (s.addBlobs ids).plog = s.plog := by
  unfold State.addBlobs
  induction ids generalizing s with
  | nil => rfl
  | cons h t ih => simp only [List.foldl_cons, ih]; rfl

theorem State.delBlobs_plog (s : State) (ids : List UUID) : (s.delBlobs ids).plog = s.plog := by
  unfold State.delBlobs
  induction ids generalizing s with
  | nil => rfl
  | cons h t ih => simp only [List.foldl_cons, ih]; rfl

theorem State.delBlobs_tlog (s : State) (ids : List UUID) : (s.delBlobs ids).tlog = s.tlog := by
  unfold State.delBlobs
  induction ids generalizing s with
  | nil => rfl
  | cons h t ih => simp only [List.foldl_cons, ih]; rfl

theorem State.delRegs_plog (s : State) (ids : List UUID) : (s.delRegs ids).plog = s.plog := by
  unfold State.delRegs
  induction ids generalizing s with
  | nil => rfl
  | cons h t ih => simp only [List.foldl_cons, ih]; rfl

theorem foldl_addCnt_plog (ds : List (Nat × Int)) (s : State) :
    (ds.foldl (fun s (x : Nat × Int) => match x with | (st, d) => s.addCnt st d) s).plog = s.plog := by
  induction ds generalizing s with
  | nil => rfl
  | cons x t ih =>
    simp only [List.foldl_cons]
    rw [ih]
    obtain ⟨st, d⟩ := x
    rfl

section
variable {I : Run → Prop} [LFrame I]

theorem LF.pure (a : α) : Preserves I (Pure.pure a : M α) := Triple.pure a (fun _ h => h)
theorem LF.fail : Preserves I (fail : M α) := Triple.fail (fun _ h => h)
theorem LF.bind {m : M α} {f : α → M β} (hm : Preserves I m) (hf : ∀ a, Preserves I (f a)) : Preserves I (m >>= f) :=
  Triple.bind hm hf
theorem LF.get : Preserves I get := Triple.get (fun _ h => h)
theorem LF.getS : Preserves I getS := Triple.getS (fun _ h => h)
theorem LF.modify (f : Run → Run)
    (h : ∀ r, (f r).s = r.s ∧ (f r).tid = r.tid ∧ (f r).reserved = r.reserved ∧ (f r).removedH = r.removedH) :
    Preserves I (modify f) :=
  Triple.modify f (fun r hr => by
    obtain ⟨a, b, c, d⟩ := h r
    exact LFrame.frame r _ hr b (by rw [a]) c d)
theorem LF.attempt {m : M Unit} (h : Preserves I m) : Preserves I (attempt m) := Triple.attempt h (fun _ h => h)
theorem LF.forIn (xs : List β) (f : β → Unit → M (ForInStep Unit)) (hf : ∀ x, Preserves I (f x ())) :
    Preserves I (forIn xs () f) := Triple.forIn xs f hf
theorem LF.whenM (c : Bool) {m : M Unit} (h : Preserves I m) : Preserves I (whenM c m) := by
  unfold Sop.Commit.whenM; split
  · exact h
  · exact LF.pure _
/-- a call whose effect leaves the priority logs alone -/
theorem LF.call (cls : Cls) (args : Args) (eff : State → State) (res : Args) (nat : State → Bool)
    (h : ∀ s, (eff s).plog = s.plog) : Preserves I (Sop.Commit.call cls args eff res nat) :=
  Triple.call cls args eff res nat (fun r _ _ hr => LFrame.frame r _ hr rfl (h r.s) rfl rfl)
    (fun r _ _ _ hr => LFrame.frame r _ hr rfl rfl rfl rfl) (fun r _ _ hr => LFrame.frame r _ hr rfl (h r.s) rfl rfl)

macro "lf_auto" : tactic => `(tactic| repeat (first
  | exact LF.pure _ | exact LF.fail | exact LF.get | exact LF.getS
  | exact LF.call _ _ _ _ _ (fun s => rfl)
  | exact LF.call _ _ _ _ _ (fun s => State.setRegs_plog s _)
  | exact LF.call _ _ _ _ _ (fun s => State.addBlobs_plog s _)
  | exact LF.call _ _ _ _ _ (fun s => State.delBlobs_plog s _)
  | exact LF.call _ _ _ _ _ (fun s => State.delRegs_plog s _)
  | exact LF.modify _ (fun r => ⟨rfl, rfl, rfl, rfl⟩)
  | refine LF.bind ?_ (fun _ => ?_)
  | refine LF.forIn _ _ (fun _ => ?_)
  | refine LF.attempt ?_
  | refine LF.whenM _ ?_
  | split))

theorem lf_logStep (st : Step) : Preserves I (logStep st) := by unfold logStep; lf_auto
theorem lf_lockItems (w : WS) : Preserves I (lockItems w) := by unfold lockItems; lf_auto
theorem lf_unlockItems (w : WS) : Preserves I (unlockItems w) := by unfold unlockItems; lf_auto
theorem lf_checkItems (w : WS) : Preserves I (checkItems w) := by unfold checkItems; lf_auto
theorem lf_unlockKeys (ids : List UUID) : Preserves I (unlockKeys ids) := by unfold unlockKeys; lf_auto
theorem lf_unlockNodesKeys : Preserves I unlockNodesKeys := by unfold unlockNodesKeys unlockKeys; lf_auto
theorem lf_mergeNodesKeys (w : WS) : Preserves I (mergeNodesKeys w) := by unfold mergeNodesKeys unlockKeys; lf_auto
theorem lf_regGet (ids : List UUID) : Preserves I (regGet ids) := by unfold regGet; lf_auto
theorem lf_addValues (w : WS) : Preserves I (addValues w) := by unfold addValues; lf_auto
theorem lf_commitAdded (w : WS) : Preserves I (commitAdded w) := by unfold commitAdded; simp only; lf_auto

theorem lf_commitStores (w : WS) : Preserves I (commitStores w) := by
  unfold commitStores
  simp only
  split
  · exact LF.pure _
  · exact LF.call _ _ _ _ _ (fun s => foldl_addCnt_plog _ s)

theorem lf_fetchedIntact (w : WS) : Preserves I (fetchedIntact w) := by
  unfold fetchedIntact
  simp only
  split
  · exact LF.pure _
  · exact LF.bind (lf_regGet _) (fun _ => LF.pure _)

theorem lf_commitNewRoots (w : WS) : Preserves I (commitNewRoots w) := by
  unfold commitNewRoots
  simp only
  split
  · exact LF.pure _
  · refine LF.bind (lf_regGet _) (fun hs => ?_)
    lf_auto

theorem lf_lockNodes : Preserves I lockNodes := by
  unfold lockNodes
  refine LF.bind LF.get (fun r => ?_)
  simp only
  refine LF.bind (LF.attempt (LF.call _ _ _ _ _ (fun s => ?_))) (fun ok => ?_)
  · split <;> rfl
  split
  · exact LF.bind (LF.attempt (lf_unlockKeys _)) (fun _ => LF.fail)
  split
  · exact LF.pure _
  exact LF.bind (LF.call _ _ _ _ _ (fun s => rfl)) (fun _ => LF.pure _)

end

/-- phase 1 up to the priority-log write: the transaction is `t` and has no priority log -/
def PZ (t : Tid) (r : Run) : Prop := r.tid = t ∧ r.s.plog t = false

/-- from the priority-log write on: a priority log exists only if there is something to flip -/
def PE (t : Tid) (r : Run) : Prop := r.tid = t ∧ ((r.reserved = [] ∧ r.removedH = []) → r.s.plog t = false)

instance {t : Tid} : LFrame (PZ t) where
  frame r r' h ht hp _ _ := by unfold PZ at *; rw [ht, hp]; exact h

instance {t : Tid} : LFrame (PE t) where
  frame r r' h ht hp h1 h2 := by unfold PE at *; rw [ht, hp, h1, h2]; exact h

section
variable {w : WS} {t : Tid}

theorem pz_commitUpdated : Triple (PZ t) (commitUpdated w) (fun _ => PZ t) (fun _ => True) := by
  unfold commitUpdated
  simp only
  split
  · exact Triple.pure _ (fun _ h => h)
  · refine Triple.bind (lf_regGet _).dropE (fun hs => ?_)
    split
    · exact Triple.pure _ (fun _ h => h)
    · refine Triple.bind LF.get.dropE (fun r0 => ?_)
      split
      · exact Triple.pure _ (fun _ h => h)
      · refine Triple.bind (Q1 := fun _ => PZ t) (Triple.modify _ (fun r hr => hr)) (fun _ => ?_)
        refine Triple.bind (LF.call _ _ _ _ _ (fun s => State.setRegs_plog s _)).dropE (fun _ => ?_)
        refine Triple.bind (LF.call _ _ _ _ _ (fun s => State.addBlobs_plog s _)).dropE (fun _ => ?_)
        exact Triple.bind (Q1 := fun _ => PZ t) (Triple.modify _ (fun r hr => hr)) (fun _ => Triple.pure _ (fun _ h => h))

theorem pz_commitRemoved : Triple (PZ t) (commitRemoved w) (fun _ => PZ t) (fun _ => True) := by
  unfold commitRemoved
  simp only
  split
  · exact Triple.pure _ (fun _ h => h)
  · refine Triple.bind (lf_regGet _).dropE (fun hs => ?_)
    refine Triple.bind LF.get.dropE (fun r0 => ?_)
    split
    · exact Triple.pure _ (fun _ h => h)
    · refine Triple.bind (LF.call _ _ _ _ _ (fun s => State.setRegs_plog s _)).dropE (fun _ => ?_)
      exact Triple.bind (Q1 := fun _ => PZ t) (Triple.modify _ (fun r hr => hr)) (fun _ => Triple.pure _ (fun _ h => h))

theorem pz_phase1Body : Triple (PZ t) (phase1Body w) (fun _ => PZ t) (fun _ => True) := by
  unfold phase1Body
  refine Triple.bind (lf_logStep _).dropE (fun _ => ?_)
  refine Triple.bind (lf_addValues w).dropE (fun _ => ?_)
  refine Triple.bind (lf_logStep _).dropE (fun _ => ?_)
  refine Triple.bind (lf_commitNewRoots w).dropE (fun ok => ?_)
  split
  · exact Triple.pure _ (fun _ h => h)
  refine Triple.bind (lf_logStep _).dropE (fun _ => ?_)
  refine Triple.bind (lf_fetchedIntact w).dropE (fun ok => ?_)
  split
  · exact Triple.pure _ (fun _ h => h)
  refine Triple.bind pz_commitUpdated (fun ok => ?_)
  refine Triple.bind (lf_logStep _).dropE (fun _ => ?_)
  split
  · exact Triple.pure _ (fun _ h => h)
  refine Triple.bind (lf_logStep _).dropE (fun _ => ?_)
  refine Triple.bind pz_commitRemoved (fun ok => ?_)
  split
  · exact Triple.pure _ (fun _ h => h)
  refine Triple.bind (lf_logStep _).dropE (fun _ => ?_)
  exact Triple.bind (lf_commitAdded w).dropE (fun _ => Triple.pure _ (fun _ h => h))

theorem pe_finishPhase1 : Triple (PZ t) (finishPhase1 w) (fun _ => PE t) (fun _ => True) := by
  unfold finishPhase1
  refine Triple.bind (lf_logStep _).dropE (fun _ => ?_)
  refine Triple.bind (lf_commitStores w).dropE (fun _ => ?_)
  refine Triple.bind (lf_logStep _).dropE (fun _ => ?_)
  refine Triple.bind (Q1 := fun r0 r => PZ t r ∧ r0.reserved = r.reserved ∧ r0.removedH = r.removedH)
    (Triple.get (fun _ h => ⟨h, rfl, rfl⟩)) (fun r0 => ?_)
  refine Triple.bind (Q1 := fun _ => PE t) ?_ (fun _ => ?_)
  · unfold Sop.Commit.whenM
    split
    · rename_i hc
      refine Triple.call _ _ _ _ _ (fun r _ _ hr => ⟨hr.1.1, fun hl => ?_⟩) (fun _ _ _ _ _ => trivial) (fun _ _ _ _ => trivial)
      rw [← hr.2.1, ← hr.2.2] at hl
      rw [hl.1, hl.2] at hc
      simp at hc
    · exact Triple.pure _ (fun r hr => ⟨hr.1.1, fun _ => hr.1.2⟩)
  refine Triple.bind (lf_checkItems w).dropE (fun _ => ?_)
  refine Triple.bind LF.get.dropE (fun r => ?_)
  refine Triple.dropE (LF.whenM _ ?_)
  refine LF.bind (LF.attempt (LF.call _ _ _ _ _ (fun s => rfl))) (fun ok => ?_)
  exact LF.whenM _ (LF.call _ _ _ _ _ (fun s => rfl))

theorem pe_phase1 (n : Nat) : Triple (PZ t) (phase1 w n) (fun _ => PE t) (fun _ => True) := by
  unfold phase1
  split
  · exact Triple.pure _ (fun r h => ⟨h.1, fun _ => h.2⟩)
  refine Triple.bind (lf_logStep _).dropE (fun _ => ?_)
  refine Triple.bind (lf_lockItems w).dropE (fun _ => ?_)
  refine Triple.bind (lf_mergeNodesKeys w).dropE (fun _ => ?_)
  refine Triple.bind (lf_lockNodes).dropE (fun locked => ?_)
  split
  · exact giveUpLocked_raises
  refine Triple.bind pz_phase1Body (fun ok => ?_)
  split
  · exact conflictRound_raises w n
  · exact pe_finishPhase1

end

/-- with no fault and no observer, a call whose backend reports no error of its own takes effect -/
theorem Triple.callNFn {P : Run → Prop} {Q : Unit → Run → Prop} {E : Run → Prop}
    (cls : Cls) (args : Args) (eff : State → State) (res : Args) (nat : State → Bool)
    (hP : ∀ r, P r → HF none r ∧ nat r.s = false)
    (hok : ∀ r occs tr, P r → Q () { r with occs := occs, trace := tr, s := eff r.s }) :
    Triple P (Sop.Commit.call cls args eff res nat) Q E := by
  intro r hr
  obtain ⟨hf, hn⟩ := hP r hr
  obtain ⟨occs, tr, e, _⟩ := call_of_spent (r := r) (fun f h => (by rw [hf.2.2] at h; cases h)) hf.1 cls args eff res nat hn
  rw [e]
  exact hok r occs tr hr

/-- `logStep` cannot fail in a fault-free run, and the transaction-log file exists afterwards -/
theorem nfl_logStep {I : Run → Prop} [LFrame I] {E : Run → Prop} (st : Step) :
    Triple (AndI I (HF none)) (attempt (logStep st))
      (fun ok r => ok = true ∧ (AndI I (HF none) r ∧ r.s.tlog r.tid = true)) E := by
  refine Triple.attempt (Q := fun ok r => ok = true ∧ (AndI I (HF none) r ∧ r.s.tlog r.tid = true)) ?_ (fun r h => by cases h.1)
  unfold logStep
  refine Triple.bind (Q1 := fun _ => AndI I (HF none))
    (Triple.modify _ (fun r hr => ⟨LFrame.frame r _ hr.1 rfl rfl rfl rfl, hr.2⟩)) (fun _ => ?_)
  refine Triple.bind (Q1 := fun r0 r => AndI I (HF none) r ∧ r0.tid = r.tid) (Triple.get (fun _ h => ⟨h, rfl⟩)) (fun r0 => ?_)
  refine Triple.callNF _ _ _ _ (fun r h => h.1.2) (fun r o t h => ⟨rfl, ⟨LFrame.frame r _ h.1.1 rfl rfl rfl rfl, h.1.2⟩, ?_⟩)
  show (if r.tid = r0.tid then true else r.s.tlog r.tid) = true
  rw [h.2]; simp

/-- phase 2 is entered knowing the transaction id and both lists -/
def PEL (t : Tid) (resv remv : List Handle) (r : Run) : Prop :=
  r.tid = t ∧ r.reserved = resv ∧ r.removedH = remv ∧ ((resv = [] ∧ remv = []) → r.s.plog t = false)

instance {t : Tid} {resv remv : List Handle} : LFrame (PEL t resv remv) where
  frame r r' h ht hp h1 h2 := by unfold PEL at *; rw [ht, hp, h1, h2]; exact h

/-- no priority log, and the transaction log exists -/
def TLK (t : Tid) (r : Run) : Prop := AndI (PZ t) (HF none) r ∧ r.s.tlog t = true

section
variable {w : WS} {t : Tid}

/-- **the cleanup of a fault-free commit removes the transaction log** -/
theorem lg_cleanup :
    Triple (AndI (PZ t) (HF none)) (cleanup w) (fun _ r => r.s.tlog t = false ∧ r.s.plog t = false) (fun _ => True) := by
  unfold cleanup
  refine Triple.bind (Q1 := fun r0 r => AndI (PZ t) (HF none) r ∧ r0.tid = t) (Triple.get (fun r h => ⟨h, h.1.1⟩)) (fun r0 r hr => ?_)
  obtain ⟨_, e0⟩ := hr
  revert r
  show Triple (AndI (PZ t) (HF none)) _ _ _
  refine Triple.bind (nfl_logStep _) (fun ok r hr => ?_)
  obtain ⟨hok, hK, -⟩ := hr
  subst hok
  revert r
  show Triple (AndI (PZ t) (HF none)) _ _ _
  simp only [e0, Bool.not_true, Bool.false_eq_true, ↓reduceIte]
  have tail : Triple (AndI (PZ t) (HF none)) (do
      let _ ← attempt (call Cls.regRemove (Args.ids (r0.removedH.map (·.lid))) fun s => s.delRegs (r0.removedH.map (·.lid)))
      let ok ← attempt (logStep Step.deleteTrackedItemsValues)
      if (!ok) = true then pure ()
        else do
          forIn w.stores PUnit.unit fun st __s =>
              if (!st.obsoleteValues.isEmpty) = true then do
                let _ ← attempt (call Cls.blobRemove (Args.ids st.obsoleteValues) fun s => s.delBlobs st.obsoleteValues)
                pure (ForInStep.yield PUnit.unit)
              else pure (ForInStep.yield PUnit.unit)
          let _ ← attempt (call Cls.tlogRemove Args.none
                  (fun s => { s with tlog := fun k => if k = t then false else s.tlog k })
                  Args.none fun s => !s.tlog t)
          pure ()) (fun _ r => r.s.tlog t = false ∧ r.s.plog t = false) (fun _ => True) := by
    refine Triple.bind (Q1 := fun _ => AndI (PZ t) (HF none)) ?_ (fun _ => ?_)
    · refine Triple.dropE (E := AndI (PZ t) (HF none)) (nf_pres ?_ ?_)
      · exact LF.attempt (LF.call _ _ _ _ _ (fun s => State.delRegs_plog s _))
      · exact H.attempt (H.call _ _ _ _ _)
    refine Triple.bind (nfl_logStep _) (fun ok r hr => ?_)
    obtain ⟨hok, hK, htl⟩ := hr
    subst hok
    have hT : TLK t r := ⟨hK, by rw [← hK.1.1]; exact htl⟩
    clear htl hK
    revert r
    show Triple (TLK t) _ _ _
    simp only [Bool.not_true, Bool.false_eq_true, ↓reduceIte]
    refine Triple.bind (Q1 := fun _ => TLK t) ?_ (fun _ => ?_)
    · refine Triple.forIn _ _ (fun st => ?_)
      split
      · refine Triple.bind (Q1 := fun _ => TLK t) ?_ (fun _ => Triple.pure _ (fun _ h => h))
        refine Triple.attempt (Q := fun _ => TLK t) ?_ (fun _ _ => trivial)
        refine Triple.callNF _ _ _ _ (fun r h => h.1.2) (fun r o tr h => ⟨⟨⟨h.1.1.1, ?_⟩, h.1.2⟩, ?_⟩)
        · show (r.s.delBlobs _).plog t = false
          rw [State.delBlobs_plog]; exact h.1.1.2
        · show (r.s.delBlobs _).tlog t = true
          rw [State.delBlobs_tlog]; exact h.2
      · exact Triple.pure _ (fun _ h => h)
    · refine Triple.bind (Q1 := fun _ r => r.s.tlog t = false ∧ r.s.plog t = false) ?_ (fun _ => Triple.pure _ (fun _ h => h))
      refine Triple.attempt (Q := fun _ r => r.s.tlog t = false ∧ r.s.plog t = false) ?_ (fun _ _ => trivial)
      refine Triple.callNFn _ _ _ _ _ (fun r h => ⟨h.1.2, by simp [h.2]⟩) (fun r o tr h => ⟨?_, h.1.1.2⟩)
      show (if t = t then false else r.s.tlog t) = false
      simp
  split
  · refine Triple.bind (Q1 := fun _ => AndI (PZ t) (HF none)) ?_ (fun _ => tail)
    refine Triple.dropE (E := AndI (PZ t) (HF none)) (nf_pres ?_ ?_)
    · exact LF.attempt (LF.call _ _ _ _ _ (fun s => State.delBlobs_plog s _))
    · exact H.attempt (H.call _ _ _ _ _)
  · exact tail

/-- **phase 2 of a fault-free commit removes both log files** -/
theorem lg_phase2 {resv remv : List Handle} :
    Triple (AndI (PEL t resv remv) (HF none)) (phase2 w) (fun _ r => r.s.tlog t = false ∧ r.s.plog t = false) (fun _ => True) := by
  unfold phase2
  refine Triple.bind (Q1 := fun r0 r => AndI (PEL t resv remv) (HF none) r ∧ r0.reserved = resv ∧ r0.removedH = remv ∧ r0.tid = t)
    (Triple.get (fun r h => ⟨h, h.1.2.1, h.1.2.2.1, h.1.1⟩)) (fun r0 r hr => ?_)
  obtain ⟨_, e1, e2, e0⟩ := hr
  revert r
  show Triple (AndI (PEL t resv remv) (HF none)) _ _ _
  refine Triple.bind (nf_pres (LF.attempt (lf_logStep _)) (H.attempt (h_logStep _))).dropE (fun okLog => ?_)
  simp only [e1, e2, e0]
  have rest : Triple (AndI (PZ t) (HF none)) (do
      unlockNodesKeys
      let _ ← attempt (unlockItems w)
      cleanup w) (fun _ r => r.s.tlog t = false ∧ r.s.plog t = false) (fun _ => True) := by
    refine Triple.bind (nf_pres lf_unlockNodesKeys h_unlockNodesKeys).dropE (fun _ => ?_)
    refine Triple.bind (nf_pres (LF.attempt (lf_unlockItems w)) (H.attempt (h_unlockItems w))).dropE (fun _ => ?_)
    exact lg_cleanup
  split
  · refine Triple.bind (Q1 := fun _ _ => True) Triple.triv (fun _ => ?_)
    exact Triple.bind (Q1 := fun _ _ => False) (Triple.fail (fun _ _ => trivial)) (fun _ r h => h.elim)
  · split
    · refine Triple.bind (Q1 := fun _ => AndI (PEL t resv remv) (HF none)) ?_ (fun _ => ?_)
      · refine Triple.dropE (E := AndI (PEL t resv remv) (HF none)) (nf_pres ?_ ?_)
        · exact LF.call _ _ _ _ _ (fun s => State.setRegs_plog s _)
        · exact H.call _ _ _ _ _
      · refine Triple.bind (Q1 := fun _ => AndI (PZ t) (HF none)) ?_ (fun _ => rest)
        refine Triple.attempt (Q := fun _ => AndI (PZ t) (HF none)) ?_ (fun _ _ => trivial)
        refine Triple.callNF _ _ _ _ (fun r h => h.2) (fun r o tr h => ⟨⟨h.1.1, ?_⟩, h.2⟩)
        show (if t = t then false else r.s.plog t) = false
        simp
    · rename_i hne
      have hnil : resv = [] ∧ remv = [] := by
        cases resv with
        | nil => cases remv with
          | nil => exact ⟨rfl, rfl⟩
          | cons _ _ => simp at hne
        | cons _ _ => simp at hne
      exact Triple.conseq rest (fun r h => ⟨⟨h.1.1, h.1.2.2.2 hnil⟩, h.2⟩) (fun _ _ h => h) (fun _ h => h)

/-- **C11, success half, logs: a successful fault-free commit leaves no log file of its own behind** — the
transaction log is removed by the cleanup's last call, the priority log (written only when there is something to
flip) right after the flip. No premise on the state or the write set other than that the transaction had no
priority log to begin with. -/
theorem commit_ok_no_logs {s0 : State} {fresh0 : List (UUID × UUID)} {cs0 : Step} (tid : Tid) (n : Nat) (r2 : Run)
    (hp0 : s0.plog tid = false)
    (hok : commit w n { s := s0, tid := tid, fault := none, fresh := fresh0, cs := cs0 } = (.ok, r2)) :
    r2.s.tlog tid = false ∧ r2.s.plog tid = false := by
  have h1 := pe_phase1 (w := w) (t := tid) n { s := s0, tid := tid, fault := none, fresh := fresh0, cs := cs0 } ⟨rfl, hp0⟩
  have hf1 := h_phase1 (f0 := none) w n { s := s0, tid := tid, fault := none, fresh := fresh0, cs := cs0 } ⟨rfl, rfl, rfl⟩
  unfold commit at hok
  cases hp : phase1 w n { s := s0, tid := tid, fault := none, fresh := fresh0, cs := cs0 } with
  | error r1 =>
    rw [hp] at hok
    simp only at hok
    split at hok
    · cases hok
    · split at hok <;> cases hok
  | ok p =>
    obtain ⟨u, r1⟩ := p
    rw [hp] at hok h1 hf1
    simp only at hok h1 hf1
    have h2 := lg_phase2 (w := w) (t := tid) (resv := r1.reserved) (remv := r1.removedH) r1 ⟨⟨h1.1, rfl, rfl, h1.2⟩, hf1⟩
    cases hq : phase2 w r1 with
    | error r2' => rw [hq] at hok; cases hok
    | ok q =>
      obtain ⟨u', r2'⟩ := q
      rw [hq] at hok h2
      simp only [Prod.mk.injEq, true_and] at hok
      subst hok
      exact h2

end
end Sop.Commit
