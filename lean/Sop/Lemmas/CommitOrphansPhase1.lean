import Sop.Lemmas.CommitOrphans
/-!
Phase 1 keeps "no orphans except the staged blobs": the invariant `BIr Y r` = every blob is a registered handle's
active blob, a listed exception `Y` (value blobs) or one of the staged ids `r.reserved.map inactive`.
-/
namespace Sop.Commit
set_option linter.unusedSectionVars false

/-- `BI` of the run's state, fixed exception list -/
def BIs (Z : List UUID) (r : Run) : Prop := BI Z r.s

/-- no orphans except `Y` and the blobs staged for the reserved handles -/
def BIr (Y : List UUID) (r : Run) : Prop := BI (Y ++ r.reserved.map (·.inactive)) r.s

/-- nothing reserved yet -/
def NoRes (r : Run) : Prop := r.reserved = []

/-- the handles `hs` are what the registry holds at their logical ids -/
def Cur (hs : List Handle) (r : Run) : Prop := ∀ h ∈ hs, r.s.reg h.lid = some h

instance {Z : List UUID} : Frame (BIs Z) where
  frame _ _ h hr hb _ _ _ := BI.of_same h hr hb

instance {Y : List UUID} : Frame (BIr Y) where
  frame r r' h hr hb _ h1 _ := by
    unfold BIr at *
    rw [h1]; exact BI.of_same h hr hb

instance : Frame NoRes where
  frame r r' h _ _ _ h1 _ := by unfold NoRes at *; rw [h1]; exact h

instance {hs : List Handle} : Frame (Cur hs) where
  frame r r' h hr _ _ _ _ := by unfold Cur at *; rw [hr]; exact h

section
variable {s0 : State} {w : WS} {fresh0 : List (UUID × UUID)} {Y : List UUID}

/-- `regGet` returns handles that are the registry's current entries -/
theorem regGet_cur {I : Run → Prop} [Frame I] (hI : ∀ r, I r → ∀ i h, r.s.reg i = some h → h.lid = i) (ids : List UUID) :
    Triple I (regGet ids) (fun hs r => AndI I (Cur hs) r) (fun _ => True) := by
  unfold regGet
  refine Triple.bind (Q1 := fun s r => AndI I (Cur (ids.filterMap s.reg)) r) (Triple.getS (fun r h => ⟨h, ?_⟩)) (fun s => ?_)
  · intro x hx
    obtain ⟨i, _, e⟩ := List.mem_filterMap.mp hx
    rw [hI r h i x e]; exact e
  refine Triple.bind (Q1 := fun _ r => AndI I (Cur (ids.filterMap s.reg)) r) ?_ (fun _ => Triple.pure _ (fun _ h => h))
  exact (G.callSame _ _ _ _ _ (fun s => ⟨rfl, rfl⟩)).dropE

/-- a registered handle at a new node's id has that id as its active id -/
theorem new_active (pre : Pre s0 w fresh0) {s : State} (inv : SInv s0 w fresh0 s) {i : UUID} {h : Handle}
    (hi : i ∈ w.newIds) (e : s.reg i = some h) : h.active = i := by
  rcases (inv.prov i h e).1 with ⟨_, a⟩ | ⟨h0, e0, _⟩
  · exact a
  · rw [pre.newAbsent i hi] at e0; cases e0

theorem bi_addValues (hv : ∀ b ∈ w.values, b ∈ Y) : Preserves (BIr Y) (addValues w) := by
  unfold addValues
  refine G.bind (Triple.forIn_mem _ _ (fun st hst => ?_)) (fun _ => G.pure _)
  refine G.bind (G.whenM _ (G.callEff _ _ _ _ _ (fun r o t hr => ?_))) (fun _ => G.pure _)
  exact BI.addBlobs hr _ (fun i hi => .inr (List.mem_append_left _ (hv i (values_sub hst hi))))

theorem bi_commitNewRoots (pre : Pre s0 w fresh0) :
    Triple (AndI (J0 s0 w fresh0) (BIr Y)) (commitNewRoots w) (fun _ => BIr Y) (fun _ => True) := by
  unfold commitNewRoots
  simp only
  split
  · exact Triple.pure _ (fun _ h => h.2)
  · refine Triple.bind (gen_regGet _).dropE (fun hs => ?_)
    split
    · exact Triple.pure _ (fun _ h => h.2)
    · refine Triple.bind (Q1 := fun _ r => J0 s0 w fresh0 r ∧ BI ((Y ++ r.reserved.map (·.inactive)) ++ w.rootIds) r.s) ?_ (fun _ => ?_)
      · exact Triple.call _ _ _ _ _ (fun r o t hr => ⟨j0_eff o t hr.1 (hr.1.1.1.addBlobs _), BI.addBlobs_ex hr.2 _⟩)
          (fun _ _ _ _ _ => trivial) (fun _ _ _ _ => trivial)
      · refine Triple.bind (Q1 := fun _ => BIr Y) ?_ (fun _ => Triple.pure _ (fun _ h => h))
        refine Triple.call _ _ _ _ _ (fun r o t hr => ?_) (fun _ _ _ _ _ => trivial) (fun _ _ _ _ => trivial)
        refine BI.setRegs_new w.rootIds hr.2 _ ?_ ?_ ?_
        · intro x hx; obtain ⟨i, _, rfl⟩ := List.mem_map.mp hx; rfl
        · intro i hi; exact ⟨Handle.new i, List.mem_map_of_mem hi, rfl⟩
        · intro x hx g e
          obtain ⟨i, hi, rfl⟩ := List.mem_map.mp hx
          exact new_active pre hr.1.1.1 (rootIds_new hi) e

theorem mem_pairs {u : List (UUID × Int)} {hs : List Handle} {p : Handle × Int}
    (hp : p ∈ u.filterMap (fun (x : UUID × Int) => (hs.find? (·.lid == x.1)).map (fun h => (h, x.2)))) : p.1 ∈ hs := by
  obtain ⟨x, _, e⟩ := List.mem_filterMap.mp hp
  cases hf : hs.find? (·.lid == x.1) with
  | none => simp [hf] at e
  | some h =>
    simp only [hf, Option.map_some, Option.some.injEq] at e
    subst e
    exact List.mem_of_find?_eq_some hf

theorem bi_commitUpdated :
    Triple (AndI (J0 s0 w fresh0) (BIr Y)) (commitUpdated w) (fun _ => BIr Y) (fun _ => True) := by
  unfold commitUpdated
  simp only
  split
  · exact Triple.pure _ (fun _ h => h.2)
  · refine Triple.bind (regGet_cur (fun r h => h.1.1.1.regwf) _) (fun hs => ?_)
    -- from here on only: BIr, nothing reserved, `hs` current
    refine Triple.conseq (P' := AndI (AndI (BIr Y) NoRes) (Cur hs)) (Q' := fun _ => BIr Y) (E' := fun _ => True) ?_
      (fun r h => ⟨⟨h.1.2, h.1.1.2.1⟩, h.2⟩) (fun _ _ h => h) (fun _ h => h)
    split
    · exact Triple.pure _ (fun _ h => h.1.1)
    · refine Triple.bind G.get.dropE (fun r0 => ?_)
      split
      · exact Triple.pure _ (fun _ h => h.1.1)
      · rename_i res fr' e
        obtain ⟨_, sh2⟩ := reserveAll_shape _ _ _ _ e
        refine Triple.bind (Q1 := fun _ => AndI (AndI (BIr Y) NoRes) (Cur hs)) (Triple.modify _ (fun r hr => hr)) (fun _ => ?_)
        refine Triple.bind (Q1 := fun _ => AndI (BIr Y) NoRes) ?_ (fun _ => ?_)
        · refine Triple.call _ _ _ _ _ (fun r o t hr => ⟨BI.setRegs_same hr.1.1 _ ?_, hr.1.2⟩) (fun _ _ _ _ _ => trivial) (fun _ _ _ _ => trivial)
          intro x hx g eg
          obtain ⟨_, p, hp, e1, e2⟩ := sh2 x hx
          have := hr.2 p.1 (mem_pairs hp)
          rw [e1, this] at eg
          cases eg
          exact e2
        refine Triple.bind (Q1 := fun _ r => BI (Y ++ res.map (·.inactive)) r.s) ?_ (fun _ => ?_)
        · refine Triple.call _ _ _ _ _ (fun r o t hr => ?_) (fun _ _ _ _ _ => trivial) (fun _ _ _ _ => trivial)
          have h1 : BI Y r.s := by
            have := hr.1
            unfold BIr at this
            rw [show r.reserved = [] from hr.2] at this
            exact this.mono (fun b hb => by simpa using hb)
          exact BI.addBlobs_ex h1 _
        exact Triple.bind (Q1 := fun _ => BIr Y) (Triple.modify _ (fun r hr => hr)) (fun _ => Triple.pure _ (fun _ h => h))

theorem bi_commitRemoved :
    Triple (AndI (Staged s0 w fresh0) (BIr Y)) (commitRemoved w) (fun _ => BIr Y) (fun _ => True) := by
  unfold commitRemoved
  simp only
  split
  · exact Triple.pure _ (fun _ h => h.2)
  · refine Triple.bind (regGet_cur (fun r h => h.1.rinv.1.regwf) _) (fun hs => ?_)
    refine Triple.conseq (P' := AndI (BIr Y) (Cur hs)) (Q' := fun _ => BIr Y) (E' := fun _ => True) ?_
      (fun r h => ⟨h.1.2, h.2⟩) (fun _ _ h => h) (fun _ h => h)
    refine Triple.bind G.get.dropE (fun r0 => ?_)
    split
    · exact Triple.pure _ (fun _ h => h.1)
    · refine Triple.bind (Q1 := fun _ => BIr Y) ?_ (fun _ => ?_)
      · refine Triple.call _ _ _ _ _ (fun r o t hr => BI.setRegs_same hr.1 _ ?_) (fun _ _ _ _ _ => trivial) (fun _ _ _ _ => trivial)
        intro x hx g eg
        obtain ⟨y, hy, rfl⟩ := List.mem_map.mp hx
        have := hr.2 y hy
        rw [show ({ y with deleted := true, wip := r0.s.now } : Handle).lid = y.lid from rfl, this] at eg
        cases eg
        rfl
      · exact Triple.bind (Q1 := fun _ => BIr Y) (Triple.modify _ (fun r hr => hr)) (fun _ => Triple.pure _ (fun _ h => h))

theorem bi_commitAdded (pre : Pre s0 w fresh0) :
    Triple (AndI (Staged s0 w fresh0) (BIr Y)) (commitAdded w) (fun _ => BIr Y) (fun _ => True) := by
  unfold commitAdded
  simp only
  split
  · exact Triple.pure _ (fun _ h => h.2)
  · refine Triple.bind (Q1 := fun _ r => BIr Y r ∧ ∀ i ∈ w.addedIds, ∃ lid g, r.s.reg lid = some g ∧ g.active = i) ?_ (fun _ => ?_)
    · refine Triple.call _ _ _ _ _ (fun r o t hr => ⟨?_, ?_⟩) (fun _ _ _ _ _ => trivial) (fun _ _ _ _ => trivial)
      · refine BI.setRegs_same hr.2 _ ?_
        intro x hx g e
        obtain ⟨i, hi, rfl⟩ := List.mem_map.mp hx
        exact (new_active pre hr.1.rinv.1 (addedIds_new hi) e).symm
      · intro i hi
        obtain ⟨x, hx, e1, e2⟩ := State.setRegs_reg_mem r.s (w.addedIds.map (fun i => { Handle.new i with version := 1 })) i
          ⟨_, List.mem_map_of_mem hi, rfl⟩
        refine ⟨i, x, e2, ?_⟩
        obtain ⟨j, _, rfl⟩ := List.mem_map.mp hx
        exact e1
    · exact Triple.call _ _ _ _ _ (fun r o t hr => BI.addBlobs hr.1 _ (fun i hi => .inl (hr.2 i hi)))
        (fun _ _ _ _ _ => trivial) (fun _ _ _ _ => trivial)


/-- the invariant of phase 1 up to `commitUpdatedNodes`, and after it -/
abbrev JB (s0 : State) (w : WS) (fresh0 : List (UUID × UUID)) (Y : List UUID) : Run → Prop := AndI (J0 s0 w fresh0) (BIr Y)
abbrev SB (s0 : State) (w : WS) (fresh0 : List (UUID × UUID)) (Y : List UUID) : Run → Prop := AndI (Staged s0 w fresh0) (BIr Y)

/-- every removed node of the write set has a marked handle in `removedH` -/
def RemCov (w : WS) (r : Run) : Prop := ∀ i ∈ w.removed.map (·.1), ∃ g ∈ r.removedH, g.lid = i

instance : Frame (RemCov w) where
  frame r r' h _ _ _ _ h2 := by unfold RemCov at *; rw [h2]; exact h

/-- a successful `commitRemovedNodes` has marked every removed node of the write set -/
theorem rc_commitRemoved :
    Triple (Staged s0 w fresh0) (commitRemoved w) (fun ok r => ok = true → RemCov w r) (fun _ => True) := by
  unfold commitRemoved
  simp only
  split
  · rename_i he
    refine Triple.pure _ (fun r _ _ i hi => ?_)
    rw [List.isEmpty_iff.mp he] at hi; cases hi
  · refine Triple.bind (regGet_known (fun _ h => h.rinv) _).dropE (fun hs r hr => ?_)
    obtain ⟨_, _, _, hall⟩ := hr
    revert r
    show Triple (Staged s0 w fresh0) _ _ _
    refine Triple.bind (Q1 := fun _ _ => True) Triple.triv (fun r0 => ?_)
    split
    · exact Triple.pure _ (fun _ _ e => by cases e)
    · rename_i hc
      have hlen : hs.length = (w.removed.map (·.1)).length := by
        rw [List.length_map]
        simp only [Bool.or_eq_true, Bool.not_eq_true', bne_iff_ne, ne_eq, not_or, Bool.not_eq_false, Decidable.not_not] at hc
        exact hc.2
      refine Triple.bind (Q1 := fun _ _ => True) Triple.triv (fun _ => ?_)
      refine Triple.bind (Q1 := fun _ => RemCov w) (Triple.modify _ (fun r _ i hi => ?_)) (fun _ => Triple.pure _ (fun _ h _ => h))
      obtain ⟨h, hm, e⟩ := hall hlen i hi
      exact ⟨_, List.mem_map_of_mem hm, e⟩

theorem rc_commitAdded : Preserves (RemCov w) (commitAdded w) := by
  unfold commitAdded
  simp only
  split
  · exact G.pure _
  · exact G.bind (G.callEff _ _ _ _ _ (fun _ _ _ h => h)) (fun _ => G.callEff _ _ _ _ _ (fun _ _ _ h => h))

theorem bi_phase1Body (pre : Pre s0 w fresh0) (pre2 : Pre2 s0 w fresh0) (hv : ∀ b ∈ w.values, b ∈ Y) :
    Triple (JB s0 w fresh0 Y) (phase1Body w) (fun ok r => SB s0 w fresh0 Y r ∧ (ok = true → RemCov w r)) (fun _ => True) := by
  have toS : ∀ r, JB s0 w fresh0 Y r → SB s0 w fresh0 Y r := fun r h => ⟨staged_of_j0 h.1, h.2⟩
  unfold phase1Body
  refine Triple.bind (gen_logStep _).dropE (fun _ => ?_)
  refine Triple.bind (Q1 := fun _ => JB s0 w fresh0 Y)
    (Triple.conseq (Triple.and j0_addValues (bi_addValues hv)) (fun _ h => h) (fun _ _ h => h) (fun _ _ => trivial)) (fun _ => ?_)
  refine Triple.bind (gen_logStep _).dropE (fun _ => ?_)
  refine Triple.bind (Q1 := fun _ => JB s0 w fresh0 Y)
    (Triple.conseq (Triple.and (j0_commitNewRoots pre).dropE (bi_commitNewRoots pre)) (fun _ h => ⟨h.1, h⟩) (fun _ _ h => h) (fun _ _ => trivial)) (fun ok => ?_)
  split
  · exact Triple.pure _ (fun r h => ⟨toS r h, fun e => by cases e⟩)
  refine Triple.bind (gen_logStep _).dropE (fun _ => ?_)
  refine Triple.bind (gen_fetchedIntact w).dropE (fun ok => ?_)
  split
  · exact Triple.pure _ (fun r h => ⟨toS r h, fun e => by cases e⟩)
  refine Triple.bind (Q1 := fun _ => SB s0 w fresh0 Y)
    (Triple.conseq (Triple.and (staged_commitUpdated pre pre2) bi_commitUpdated) (fun _ h => ⟨h.1, h⟩) (fun _ _ h => ⟨h.1.1, h.2⟩) (fun _ _ => trivial)) (fun ok => ?_)
  refine Triple.bind (gen_logStep _).dropE (fun _ => ?_)
  split
  · exact Triple.pure _ (fun _ h => ⟨h, fun e => by cases e⟩)
  refine Triple.bind (gen_logStep _).dropE (fun _ => ?_)
  refine Triple.bind (Q1 := fun ok r => SB s0 w fresh0 Y r ∧ (ok = true → RemCov w r))
    (Triple.conseq (Triple.and (Triple.and (staged_commitRemoved pre pre2) bi_commitRemoved) rc_commitRemoved)
      (fun _ h => ⟨⟨h.1, h⟩, h.1⟩) (fun _ _ h => ⟨h.1, h.2⟩) (fun _ _ => trivial)) (fun ok => ?_)
  cases ok with
  | false =>
    simp only [Bool.not_false, ↓reduceIte]
    exact Triple.pure _ (fun _ h => ⟨h.1, fun e => by cases e⟩)
  | true =>
    simp only [Bool.not_true, Bool.false_eq_true, ↓reduceIte]
    refine Triple.conseq (P' := AndI (SB s0 w fresh0 Y) (RemCov w)) (Q' := fun _ => AndI (SB s0 w fresh0 Y) (RemCov w)) (E' := fun _ => True) ?_
      (fun _ h => ⟨h.1, h.2 trivial⟩) (fun _ _ h => ⟨h.1, fun _ => h.2⟩) (fun _ h => h)
    refine Triple.bind (gen_logStep _).dropE (fun _ => ?_)
    refine Triple.bind (Q1 := fun _ => AndI (SB s0 w fresh0 Y) (RemCov w))
      (Triple.conseq (Triple.and (Triple.and (staged_commitAdded pre pre2).dropE (bi_commitAdded pre)) rc_commitAdded.dropE)
        (fun _ h => ⟨⟨h.1.1, h.1⟩, h.2⟩) (fun _ _ h => h) (fun _ _ => trivial)) (fun _ => ?_)
    exact Triple.pure _ (fun _ h => h)

/-- **a successful phase 1 leaves no orphan except the staged blobs (and the value blobs it wrote)**, and has marked
every removed node of the write set -/
theorem bi_phase1 (pre : Pre s0 w fresh0) (pre2 : Pre2 s0 w fresh0) (hv : ∀ b ∈ w.values, b ∈ Y) (n : Nat) :
    Triple (JB s0 w fresh0 Y) (phase1 w n) (fun _ r => SB s0 w fresh0 Y r ∧ (w.hasTracked = true → RemCov w r)) (fun _ => True) := by
  unfold phase1
  split
  · rename_i hnt
    exact Triple.pure _ (fun r h => ⟨⟨staged_of_j0 h.1, h.2⟩, fun e => by simp [e] at hnt⟩)
  refine Triple.bind (gen_logStep _).dropE (fun _ => ?_)
  refine Triple.bind (gen_lockItems w).dropE (fun _ => ?_)
  refine Triple.bind (gen_mergeNodesKeys w).dropE (fun _ => ?_)
  refine Triple.bind (gen_lockNodes).dropE (fun locked => ?_)
  split
  · exact giveUpLocked_raises
  refine Triple.bind (bi_phase1Body pre pre2 hv) (fun ok => ?_)
  cases ok with
  | false =>
    simp only [Bool.not_false, ↓reduceIte]
    exact conflictRound_raises w n
  | true =>
    simp only [Bool.not_true, Bool.false_eq_true, ↓reduceIte]
    exact Triple.conseq (gen_finishPhase1 (I := AndI (SB s0 w fresh0 Y) (RemCov w)) w).dropE
      (fun _ h => ⟨h.1, h.2 trivial⟩) (fun _ _ h => ⟨h.1, fun _ => h.2⟩) (fun _ h => h)

end
end Sop.Commit
