import Sop.Lemmas.CommitOrphansPhase1
/-!
Phase 2 and the cleanup of a FAULT-FREE, unobserved commit (`HF none`: no fault, no stop point, not halted): the
flip turns the staged blobs into active blobs and the old active blobs into the only exceptions; the cleanup's
`blob.Remove` deletes exactly those (and the removed nodes' blobs), its `registry.Remove` then drops the removed
nodes' handles, whose blobs are gone. Every one of these calls provably takes effect because nothing can fail.
-/
namespace Sop.Commit
set_option linter.unusedSectionVars false

/-- after the flip: the only exceptions (besides `X`) are the old active ids of the updated nodes; a removed
node's handle still carries the active id recorded in `remv` -/
structure Fl (X : List UUID) (resv remv : List Handle) (r : Run) : Prop where
  eqR : r.reserved = resv
  eqM : r.removedH = remv
  bi : BI (X ++ resv.map (·.active)) r.s
  rem : ∀ g ∈ remv, ∀ x, r.s.reg g.lid = some x → x.active = g.active

/-- after the unused blobs are deleted: no exception left; the removed nodes' handles point at deleted blobs -/
def Dl (X : List UUID) (remv : List Handle) (r : Run) : Prop :=
  BI X r.s ∧ ∀ g ∈ remv, ∀ x, r.s.reg g.lid = some x → r.s.blob x.active = false

instance {X : List UUID} {resv remv : List Handle} : Frame (Fl X resv remv) where
  frame r r' h hr hb _ h1 h2 :=
    ⟨by rw [h1]; exact h.eqR, by rw [h2]; exact h.eqM, BI.of_same h.bi hr hb, by rw [hr]; exact h.rem⟩

instance {X : List UUID} {remv : List Handle} : Frame (Dl X remv) where
  frame r r' h hr hb _ _ _ := ⟨BI.of_same h.1 hr hb, by rw [hr, hb]; exact h.2⟩

/-- with no fault and no observer, a call that has no error of its own takes effect -/
theorem Triple.callNF {P : Run → Prop} {Q : Unit → Run → Prop} {E : Run → Prop}
    (cls : Cls) (args : Args) (eff : State → State) (res : Args)
    (hP : ∀ r, P r → HF none r)
    (hok : ∀ r occs tr, P r → Q () { r with occs := occs, trace := tr, s := eff r.s }) :
    Triple P (Sop.Commit.call cls args eff res) Q E :=
  Triple.callOk cls args eff res
    (fun r h => ⟨fun f hf => (by rw [(hP r h).2.2] at hf; cases hf), (hP r h).1⟩) (fun r o t h _ => hok r o t h)

/-- a frame invariant together with "no fault, no observer" -/
theorem nf_pres {I : Run → Prop} {m : M α} (h1 : Preserves I m) (h2 : Preserves (HF none) m) :
    Preserves (AndI I (HF none)) m :=
  Triple.conseq (Triple.and h1 h2) (fun _ h => h) (fun _ _ h => h) (fun _ h => h)

/-- `logStep` cannot fail in such a run -/
theorem nf_logStep {I : Run → Prop} [Frame I] {E : Run → Prop} (st : Step) :
    Triple (AndI I (HF none)) (attempt (logStep st)) (fun ok r => ok = true ∧ AndI I (HF none) r) E := by
  refine Triple.attempt (Q := fun ok r => ok = true ∧ AndI I (HF none) r) ?_ (fun r h => by cases h.1)
  unfold logStep
  refine Triple.bind (Q1 := fun _ => AndI I (HF none))
    (Triple.modify _ (fun r hr => ⟨Frame.frame r _ hr.1 rfl rfl rfl rfl rfl, hr.2⟩)) (fun _ => ?_)
  refine Triple.bind (Q1 := fun _ => AndI I (HF none)) (Triple.get (fun _ h => h)) (fun r0 => ?_)
  exact Triple.callNF _ _ _ _ (fun r h => h.2) (fun r o t h => ⟨rfl, Frame.frame r _ h.1 rfl rfl rfl rfl rfl, h.2⟩)

/-- the blobs `Z` are not in the store -/
def Gone (Z : List UUID) (r : Run) : Prop := ∀ b ∈ Z, r.s.blob b = false

instance {Z : List UUID} : Frame (Gone Z) where
  frame r r' h _ hb _ _ _ := by unfold Gone at *; rw [hb]; exact h

/-- the logical ids `ids` are not registered -/
def Unreg (ids : List UUID) (r : Run) : Prop := ∀ i ∈ ids, r.s.reg i = none

instance {ids : List UUID} : Frame (Unreg ids) where
  frame r r' h hr _ _ _ _ := by unfold Unreg at *; rw [hr]; exact h

/-- no exceptions besides `X`, and the ids `dead` unregistered -/
abbrev BU (X : List UUID) (dead : List UUID) : Run → Prop := AndI (BIs X) (Unreg dead)

theorem State.delRegs_reg_mem (s : State) (ids : List UUID) (k : UUID) (hk : k ∈ ids) : (s.delRegs ids).reg k = none := by
  induction ids generalizing s with
  | nil => cases hk
  | cons x t ih =>
    by_cases ht : k ∈ t
    · exact ih (s.delReg x) ht
    · have hx : k = x := by
        rcases List.mem_cons.mp hk with h | h
        · exact h
        · exact absurd h ht
      have := State.delRegs_reg_of_not_mem (s.delReg x) t k ht
      unfold State.delRegs at this ⊢
      rw [List.foldl_cons, this]
      simp [State.delReg_reg, hx]

/-- `for x in xs do body` with an invariant indexed by the elements processed so far (the body always yields) -/
theorem Triple.forIn_acc {β : Type} {I : List β → Run → Prop} {E : Run → Prop} (f : β → Unit → M (ForInStep Unit))
    (hf : ∀ (done : List β) (x : β), Triple (I done) (f x ()) (fun st r => st = ForInStep.yield () ∧ I (done ++ [x]) r) E) :
    ∀ (xs done : List β), Triple (I done) (ForIn.forIn xs () f) (fun _ => I (done ++ xs)) E := by
  intro xs
  induction xs with
  | nil => intro done; rw [List.append_nil]; intro r h; exact h
  | cons x t ih =>
    intro done
    rw [List.forIn_cons, show done ++ x :: t = (done ++ [x]) ++ t by simp]
    refine Triple.bind (hf done x) (fun st r hr => ?_)
    obtain ⟨rfl, h⟩ := hr
    exact ih (done ++ [x]) r h

section
variable {s0 : State} {w : WS} {fresh0 : List (UUID × UUID)} {X : List UUID} {resv remv : List Handle}

/-- **the cleanup of a fault-free commit leaves no exception behind** -/
theorem bi_cleanup :
    Triple (AndI (Fl X resv remv) (HF none)) (cleanup w)
      (fun _ => AndI (BU X (remv.map (·.lid))) (Gone w.obsoleteValues)) (fun _ => True) := by
  unfold cleanup
  refine Triple.bind (Q1 := fun r0 r => AndI (Fl X resv remv) (HF none) r ∧ r0.reserved = resv ∧ r0.removedH = remv)
    (Triple.get (fun r h => ⟨h, h.1.eqR, h.1.eqM⟩)) (fun r0 r hr => ?_)
  obtain ⟨_, e1, e2⟩ := hr
  revert r
  show Triple (AndI (Fl X resv remv) (HF none)) _ _ _
  refine Triple.bind (nf_logStep _) (fun ok r hr => ?_)
  obtain ⟨hok, _⟩ := hr
  subst hok
  revert r
  show Triple (AndI (Fl X resv remv) (HF none)) _ _ _
  simp only [e1, e2, Bool.not_true, Bool.false_eq_true, ↓reduceIte]
  have tail : Triple (AndI (Dl X remv) (HF none)) (do
      let _ ← attempt (call Cls.regRemove (Args.ids (remv.map (·.lid))) fun s => s.delRegs (remv.map (·.lid)))
      let ok ← attempt (logStep Step.deleteTrackedItemsValues)
      if (!ok) = true then pure ()
        else do
          forIn w.stores PUnit.unit fun st __s =>
              if (!st.obsoleteValues.isEmpty) = true then do
                let _ ← attempt (call Cls.blobRemove (Args.ids st.obsoleteValues) fun s => s.delBlobs st.obsoleteValues)
                pure (ForInStep.yield PUnit.unit)
              else pure (ForInStep.yield PUnit.unit)
          let _ ← attempt (call Cls.tlogRemove Args.none
                  (fun s => { s with tlog := fun k => if k = r0.tid then false else s.tlog k })
                  Args.none fun s => !s.tlog r0.tid)
          pure ()) (fun _ => AndI (BU X (remv.map (·.lid))) (Gone w.obsoleteValues)) (fun _ => True) := by
    refine Triple.bind (Q1 := fun ok r => ok = true ∧ AndI (BU X (remv.map (·.lid))) (HF none) r) ?_ (fun ok => ?_)
    · refine Triple.attempt (Q := fun ok r => ok = true ∧ AndI (BU X (remv.map (·.lid))) (HF none) r) ?_ (fun r h => by cases h.1)
      refine Triple.callNF _ _ _ _ (fun r h => h.2) (fun r o t h => ⟨rfl, ⟨?_, fun i hi => State.delRegs_reg_mem r.s _ i hi⟩, h.2⟩)
      refine BI.delRegs h.1.1 _ ?_
      intro k hk g e
      obtain ⟨y, hy, rfl⟩ := List.mem_map.mp hk
      exact h.1.2 y hy g e
    · refine Triple.conseq (P' := AndI (BU X (remv.map (·.lid))) (HF none)) (Q' := fun _ => AndI (BU X (remv.map (·.lid))) (Gone w.obsoleteValues)) (E' := fun _ => True) ?_
        (fun _ h => h.2) (fun _ _ h => h) (fun _ h => h)
      refine Triple.bind (nf_logStep _) (fun ok r hr => ?_)
      obtain ⟨hok, _⟩ := hr
      subst hok
      revert r
      show Triple (AndI (BU X (remv.map (·.lid))) (HF none)) _ _ _
      simp only [Bool.not_true, Bool.false_eq_true, ↓reduceIte]
      refine Triple.bind (Q1 := fun _ => AndI (AndI (BU X (remv.map (·.lid))) (Gone w.obsoleteValues)) (HF none)) ?_ (fun _ => ?_)
      · -- the loop over the stores: every obsolete value blob of the stores processed so far is gone
        refine Triple.conseq
          (Triple.forIn_acc (I := fun done => AndI (AndI (BU X (remv.map (·.lid))) (Gone (done.flatMap (·.obsoleteValues)))) (HF none))
            (E := fun _ => True) _ (fun done st => ?_) w.stores [])
          (fun r h => ⟨⟨h.1, fun b hb => by cases hb⟩, h.2⟩) (fun _ r h => by simpa [WS.obsoleteValues] using h) (fun _ h => h)
        have hext : ∀ r : Run, Gone (done.flatMap (·.obsoleteValues)) r → (∀ b ∈ st.obsoleteValues, r.s.blob b = false) →
            Gone ((done ++ [st]).flatMap (·.obsoleteValues)) r := by
          intro r h1 h2 b hb
          simp only [List.flatMap_append, List.flatMap_cons, List.flatMap_nil, List.append_nil, List.mem_append] at hb
          rcases hb with hb | hb
          · exact h1 b hb
          · exact h2 b hb
        split
        · refine Triple.bind (Q1 := fun ok r => ok = true ∧
              AndI (AndI (BU X (remv.map (·.lid))) (Gone ((done ++ [st]).flatMap (·.obsoleteValues)))) (HF none) r) ?_
            (fun _ => Triple.pure _ (fun r h => ⟨rfl, h.2⟩))
          refine Triple.attempt (Q := fun ok r => ok = true ∧
              AndI (AndI (BU X (remv.map (·.lid))) (Gone ((done ++ [st]).flatMap (·.obsoleteValues)))) (HF none) r) ?_ (fun r h => by cases h.1)
          refine Triple.callNF _ _ _ _ (fun r h => h.2) (fun r o t h => ⟨rfl, ⟨⟨BI.delBlobs' h.1.1.1 _, fun i hi => by show (r.s.delBlobs _).reg i = none; rw [State.delBlobs_reg]; exact h.1.1.2 i hi⟩, ?_⟩, h.2⟩)
          refine hext _ ?_ ?_
          · intro b hb
            show (r.s.delBlobs _).blob b = false
            rw [State.delBlobs_blob, h.1.2 b hb]; rfl
          · intro b hb
            show (r.s.delBlobs _).blob b = false
            rw [State.delBlobs_blob]
            simp only [decide_eq_true hb, Bool.not_true, Bool.and_false]
        · rename_i hemp
          refine Triple.pure _ (fun r h => ⟨rfl, ⟨h.1.1, hext r h.1.2 ?_⟩, h.2⟩)
          intro b hb
          have : st.obsoleteValues = [] := by
            cases hl : st.obsoleteValues with
            | nil => rfl
            | cons _ _ => rw [hl] at hemp; simp at hemp
          rw [this] at hb; cases hb
      · refine Triple.conseq (P' := AndI (BU X (remv.map (·.lid))) (Gone w.obsoleteValues)) (Q' := fun _ => AndI (BU X (remv.map (·.lid))) (Gone w.obsoleteValues))
          (E' := fun _ => True) ?_ (fun _ h => h.1) (fun _ _ h => h) (fun _ h => h)
        refine Triple.dropE (E := AndI (BU X (remv.map (·.lid))) (Gone w.obsoleteValues)) ?_
        exact G.bind (G.attempt (G.callSame _ _ _ _ _ (fun s => ⟨rfl, rfl⟩))) (fun _ => G.pure _)
  split
  · refine Triple.bind (Q1 := fun ok r => ok = true ∧ AndI (Dl X remv) (HF none) r) ?_ (fun ok r hr => tail r hr.2)
    refine Triple.attempt (Q := fun ok r => ok = true ∧ AndI (Dl X remv) (HF none) r) ?_ (fun r h => by cases h.1)
    refine Triple.callNF _ _ _ _ (fun r h => h.2) (fun r o t h => ⟨rfl, ⟨?_, ?_⟩, h.2⟩)
    · refine BI.delBlobs h.1.bi _ ?_
      intro a ha
      obtain ⟨z, hz, rfl⟩ := List.mem_map.mp ha
      refine List.mem_append_left _ (List.mem_map.mpr ⟨activate z, List.mem_map_of_mem hz, (activate_spec z).2.2.1⟩)
    · intro g hg x e
      show (r.s.delBlobs _).blob x.active = false
      rw [State.delBlobs_reg] at e
      rw [State.delBlobs_blob, h.1.rem g hg x e]
      have : g.active ∈ List.map (·.inactive) (List.map activate resv) ++ List.map (·.active) remv :=
        List.mem_append_right _ (List.mem_map_of_mem (f := (·.active)) hg)
      simp only [decide_eq_true this, Bool.not_true, Bool.and_false]
  · rename_i hemp
    have hnil : resv = [] ∧ remv = [] := by
      cases resv with
      | nil => cases remv with
        | nil => exact ⟨rfl, rfl⟩
        | cons _ _ => simp at hemp
      | cons _ _ => simp at hemp
    refine Triple.conseq tail (fun r h => ⟨⟨?_, ?_⟩, h.2⟩) (fun _ _ h => h) (fun _ h => h)
    · have := h.1.bi
      rw [hnil.1] at this
      exact this.mono (fun b hb => by simpa using hb)
    · intro g hg; rw [hnil.2] at hg; cases hg

/-- at the end of phase 1 a removed node's registered handle still has the active id of the marked image -/
theorem Staged.remCur (pre2 : Pre2 s0 w fresh0) {r : Run} (h : Staged s0 w fresh0 r) :
    ∀ g ∈ r.removedH, ∀ x, r.s.reg g.lid = some x → x.active = g.active := by
  intro g hg x e
  obtain ⟨h0, e0, ea⟩ := h.remAct g hg
  rcases (h.rinv.1.prov _ x e).1 with ⟨hn, _⟩ | ⟨h1, e1, eb⟩
  · exact absurd hn (pre2.remOld _ (h.remSub g hg))
  · rw [e0] at e1; cases e1; rw [eb, ea]

theorem Lists.remSame (L : Lists s0 fresh0 resv remv) :
    ∀ g ∈ remv, ∀ g' ∈ remv, g.lid = g'.lid → g.active = g'.active := by
  intro g hg g' hg' e
  obtain ⟨h0, e0, ea⟩ := L.remAct g hg
  obtain ⟨h1, e1, eb⟩ := L.remAct g' hg'
  rw [e, e1] at e0; cases e0
  rw [ea, eb]

/-- **phase 2 of a fault-free commit**: from "no orphans except the staged blobs" to "no orphans" -/
theorem bi_phase2 (pre2 : Pre2 s0 w fresh0) (L : Lists s0 fresh0 resv remv) :
    Triple (AndI (AndI (P2 s0 w fresh0 resv remv) (BIs (X ++ resv.map (·.inactive)))) (HF none)) (phase2 w)
      (fun _ => AndI (BU X (remv.map (·.lid))) (Gone w.obsoleteValues)) (fun _ => True) := by
  unfold phase2
  refine Triple.bind (Q1 := fun r0 r => AndI (AndI (P2 s0 w fresh0 resv remv) (BIs (X ++ resv.map (·.inactive)))) (HF none) r ∧
      r0.reserved = resv ∧ r0.removedH = remv) (Triple.get (fun r h => ⟨h, h.1.1.2⟩)) (fun r0 r hr => ?_)
  obtain ⟨_, e1, e2⟩ := hr
  revert r
  show Triple (AndI (AndI (P2 s0 w fresh0 resv remv) (BIs (X ++ resv.map (·.inactive)))) (HF none)) _ _ _
  refine Triple.bind (nf_pres (G.attempt (gen_logStep _)) (H.attempt (h_logStep _))).dropE (fun okLog => ?_)
  simp only [e1, e2]
  have rest : Triple (AndI (Fl X resv remv) (HF none)) (do
      unlockNodesKeys
      let _ ← attempt (unlockItems w)
      cleanup w) (fun _ => AndI (BU X (remv.map (·.lid))) (Gone w.obsoleteValues)) (fun _ => True) := by
    refine Triple.bind (nf_pres gen_unlockNodesKeys h_unlockNodesKeys).dropE (fun _ => ?_)
    refine Triple.bind (nf_pres (G.attempt (gen_unlockItems w)) (H.attempt (h_unlockItems w))).dropE (fun _ => ?_)
    exact bi_cleanup
  split
  · refine Triple.bind (Q1 := fun _ _ => True) Triple.triv (fun _ => ?_)
    exact Triple.bind (Q1 := fun _ _ => False) (Triple.fail (fun _ _ => trivial)) (fun _ r h => h.elim)
  · split
    · refine Triple.bind (Q1 := fun _ => AndI (Fl X resv remv) (HF none)) ?_ (fun _ => ?_)
      · refine Triple.call _ _ _ _ _ (fun r o t hr => ⟨?_, hr.2⟩) (fun _ _ _ _ _ => trivial) (fun _ _ _ _ => trivial)
        obtain ⟨⟨⟨hS, q1, q2⟩, hb⟩, _⟩ := hr
        have hf := BI.flip (X := X) (s := r.s) (resv := resv) (remv := remv) hb
          (fun g hg => (hS.res g (q1 ▸ hg)).1) L.resNodup L.disj (q2 ▸ hS.remCur pre2) L.remSame
        exact ⟨q1, q2, hf.1, hf.2⟩
      · refine Triple.bind (Q1 := fun _ => AndI (Fl X resv remv) (HF none)) ?_ (fun _ => rest)
        refine Triple.dropE (E := AndI (Fl X resv remv) (HF none)) (nf_pres ?_ ?_)
        · exact G.attempt (G.callSame _ _ _ _ _ (fun s => ⟨rfl, rfl⟩))
        · exact H.attempt (H.call _ _ _ _ _)
    · rename_i hne
      have hnil : resv = [] ∧ remv = [] := by
        cases resv with
        | nil => cases remv with
          | nil => exact ⟨rfl, rfl⟩
          | cons _ _ => simp at hne
        | cons _ _ => simp at hne
      refine Triple.conseq rest (fun r h => ⟨⟨h.1.1.2.1, h.1.1.2.2, ?_, ?_⟩, h.2⟩) (fun _ _ h => h) (fun _ h => h)
      · have := h.1.2
        unfold BIs at this
        rw [hnil.1] at this ⊢
        exact this
      · intro g hg; rw [hnil.2] at hg; cases hg

/-- **No orphans after a successful fault-free commit (general form).** If before the commit every blob is a
registered handle's active blob or one of the exceptions `X0` (e.g. the live separate-segment value blobs), then after
a commit that returned ok — with no injected fault and no observer — every blob is a registered handle's active
blob, one of `X0`, or a value blob this transaction wrote; no blob the write set declared obsolete is left; and
(for a write set with tracked items) no removed node is registered any more: the staged blobs became active, the old
blobs of the updated nodes and the blobs of the removed nodes were deleted, the removed nodes' handles are gone with
them, the obsolete value blobs were deleted. -/
theorem commit_ok_cleanup_complete (pre : Pre s0 w fresh0) (pre2 : Pre2 s0 w fresh0) (X0 : List UUID) (h0 : BI X0 s0)
    {cs0 : Step} (tid : Tid) (n : Nat) (r2 : Run)
    (hok : commit w n { s := s0, tid := tid, fault := none, fresh := fresh0, cs := cs0 } = (.ok, r2)) :
    BI (X0 ++ w.values) r2.s ∧ (∀ b ∈ w.obsoleteValues, r2.s.blob b = false) ∧
      (w.hasTracked = true → ∀ i ∈ w.removed.map (·.1), r2.s.reg i = none) := by
  have hjb : JB s0 w fresh0 (X0 ++ w.values) { s := s0, tid := tid, fault := none, fresh := fresh0, cs := cs0 } :=
    ⟨⟨⟨SInv.init s0 w fresh0 pre, fun _ hp => hp⟩, rfl, rfl⟩,
      h0.mono (fun b hb => List.mem_append_left _ (List.mem_append_left _ hb))⟩
  have h1 := bi_phase1 pre pre2 (Y := X0 ++ w.values) (fun b hb => List.mem_append_right _ hb) n _ hjb
  have hf1 := h_phase1 (f0 := none) w n { s := s0, tid := tid, fault := none, fresh := fresh0, cs := cs0 } ⟨rfl, rfl, rfl⟩
  unfold commit at hok
  cases hp : phase1 w n { s := s0, tid := tid, fault := none, fresh := fresh0, cs := cs0 } with
  | error r1 =>
    rw [hp] at hok
    simp only at hok
    split at hok
    · cases hok
    · split at hok <;> cases hok
  | ok p =>
    obtain ⟨u, r1⟩ := p
    rw [hp] at hok h1 hf1
    simp only at hok h1 hf1
    obtain ⟨⟨hst, hbi⟩, hrc⟩ := h1
    have h2 := bi_phase2 (X := X0 ++ w.values) pre2 (hst.lists pre2) r1 ⟨⟨⟨hst, rfl, rfl⟩, hbi⟩, hf1⟩
    cases hq : phase2 w r1 with
    | error r2' => rw [hq] at hok; cases hok
    | ok q =>
      obtain ⟨u', r2'⟩ := q
      rw [hq] at hok h2
      simp only [Prod.mk.injEq, true_and] at hok
      subst hok
      refine ⟨h2.1.1, h2.2, fun ht i hi => ?_⟩
      obtain ⟨g, hg, e⟩ := hrc ht i hi
      exact e ▸ h2.1.2 g.lid (List.mem_map_of_mem (f := (·.lid)) hg)

theorem commit_ok_no_orphans_gen (pre : Pre s0 w fresh0) (pre2 : Pre2 s0 w fresh0) (X0 : List UUID) (h0 : BI X0 s0)
    {cs0 : Step} (tid : Tid) (n : Nat) (r2 : Run)
    (hok : commit w n { s := s0, tid := tid, fault := none, fresh := fresh0, cs := cs0 } = (.ok, r2)) :
    BI (X0 ++ w.values) r2.s ∧ ∀ b ∈ w.obsoleteValues, r2.s.blob b = false :=
  ⟨(commit_ok_cleanup_complete pre pre2 X0 h0 tid n r2 hok).1, (commit_ok_cleanup_complete pre pre2 X0 h0 tid n r2 hok).2.1⟩

/-- no orphans relative to a set `V` of live separate-segment value blobs -/
def NoOrphanV (V : List UUID) (s : State) : Prop :=
  ∀ b, s.blob b = true → (∃ lid h, s.reg lid = some h ∧ h.active = b) ∨ b ∈ V

/-- **C11, success half, with separate-segment value blobs**: the live value blobs after the commit are the old
ones and the ones this transaction wrote, minus the ones it made obsolete. -/
theorem commit_ok_no_orphans_values (pre : Pre s0 w fresh0) (pre2 : Pre2 s0 w fresh0) (V : List UUID)
    (h0 : NoOrphanV V s0) {cs0 : Step} (tid : Tid) (n : Nat) (r2 : Run)
    (hok : commit w n { s := s0, tid := tid, fault := none, fresh := fresh0, cs := cs0 } = (.ok, r2)) :
    NoOrphanV ((V ++ w.values).filter (fun b => !w.obsoleteValues.contains b)) r2.s := by
  obtain ⟨h1, h2⟩ := commit_ok_no_orphans_gen pre pre2 V h0 tid n r2 hok
  intro b hb
  rcases h1 b hb with a | a
  · exact .inl a
  · refine .inr (List.mem_filter.mpr ⟨a, ?_⟩)
    simp only [Bool.not_eq_true', List.contains_eq_mem, decide_eq_false_iff_not]
    intro hm
    rw [h2 b hm] at hb; cases hb

/-- **C11, success half: a successful fault-free commit leaves no orphaned blob** (write sets without
separate-segment value blobs). -/
theorem commit_ok_no_orphans (pre : Pre s0 w fresh0) (pre2 : Pre2 s0 w fresh0) (hv : w.values = [])
    (h0 : NoOrphan s0) {cs0 : Step} (tid : Tid) (n : Nat) (r2 : Run)
    (hok : commit w n { s := s0, tid := tid, fault := none, fresh := fresh0, cs := cs0 } = (.ok, r2)) :
    NoOrphan r2.s := by
  have := (commit_ok_no_orphans_gen pre pre2 [] (BI.nil.mpr h0) tid n r2 hok).1
  rw [hv] at this
  exact BI.nil.mp this

end
end Sop.Commit
