import Sop.Lemmas.CommitNK
/-!
The priority log after phase 1: a transaction that reserved or marked any node has its priority-log file (the
pre-flip images) when phase 1 ends successfully.
-/
namespace Sop.Commit
set_option linter.unusedSectionVars false

def PLp (r : Run) : Prop := (!r.reserved.isEmpty || !r.removedH.isEmpty) = true → r.s.plog r.tid = true

section
local notation "I" => PLp

theorem L.pure (a : α) : Preserves I (Pure.pure a : M α) := Triple.pure a (fun _ h => h)
theorem L.fail : Preserves I (fail : M α) := Triple.fail (fun _ h => h)
theorem L.bind {m : M α} {f : α → M β} (hm : Preserves I m) (hf : ∀ a, Preserves I (f a)) : Preserves I (m >>= f) :=
  Triple.bind hm hf
theorem L.get : Preserves I get := Triple.get (fun _ h => h)
theorem L.modify (f : Run → Run)
    (h : ∀ r, (f r).s = r.s ∧ (f r).tid = r.tid ∧ (f r).reserved = r.reserved ∧ (f r).removedH = r.removedH) :
    Preserves I (modify f) :=
  Triple.modify f (fun r hr => by
    obtain ⟨a, b, c, d⟩ := h r
    unfold PLp at *
    rw [a, b, c, d]; exact hr)
theorem L.attempt {m : M Unit} (h : Preserves I m) : Preserves I (attempt m) := Triple.attempt h (fun _ h => h)
theorem L.forIn (xs : List β) (f : β → Unit → M (ForInStep Unit)) (hf : ∀ x, Preserves I (f x ())) :
    Preserves I (forIn xs () f) := Triple.forIn xs f hf
theorem L.whenM (c : Bool) {m : M Unit} (h : Preserves I m) : Preserves I (whenM c m) := by
  unfold Sop.Commit.whenM; split
  · exact h
  · exact L.pure _
/-- a call whose effect leaves the priority logs alone -/
theorem L.call (cls : Cls) (args : Args) (eff : State → State) (res : Args) (nat : State → Bool)
    (h : ∀ s, (eff s).plog = s.plog) : Preserves I (Sop.Commit.call cls args eff res nat) :=
  Triple.call cls args eff res nat
    (fun r _ _ hr hl => by show (eff r.s).plog r.tid = true; rw [h]; exact hr hl)
    (fun _ _ _ _ hr => hr)
    (fun r _ _ hr hl => by show (eff r.s).plog r.tid = true; rw [h]; exact hr hl)

macro "pl_auto" : tactic => `(tactic| repeat (first
  | exact L.pure _ | exact L.fail | exact L.get
  | exact L.call _ _ _ _ _ (fun s => rfl)
  | exact L.modify _ (fun r => ⟨rfl, rfl, rfl, rfl⟩)
  | refine L.bind ?_ (fun _ => ?_)
  | refine L.forIn _ _ (fun _ => ?_)
  | refine L.attempt ?_
  | refine L.whenM _ ?_
  | split))

theorem l_logStep (st : Step) : Preserves I (logStep st) := by unfold logStep; pl_auto
theorem l_checkItems (w : WS) : Preserves I (checkItems w) := by unfold checkItems; pl_auto

/-- `finishPhase1` writes the priority log whenever there is something to flip -/
theorem l_finishPhase1 (w : WS) : Triple (fun _ => True) (finishPhase1 w) (fun _ => PLp) (fun _ => True) := by
  unfold finishPhase1
  refine Triple.bind (Q1 := fun _ _ => True) Triple.triv (fun _ => ?_)
  refine Triple.bind (Q1 := fun _ _ => True) Triple.triv (fun _ => ?_)
  refine Triple.bind (Q1 := fun _ _ => True) Triple.triv (fun _ => ?_)
  refine Triple.bind (Q1 := fun r0 r => r0 = r) (Triple.get (fun _ _ => rfl)) (fun r0 => ?_)
  refine Triple.bind (Q1 := fun _ => PLp) ?_ (fun _ => ?_)
  · unfold Sop.Commit.whenM
    split
    · refine Triple.call _ _ _ _ _ (fun r _ _ hr _ => ?_) (fun _ _ _ _ _ => trivial) (fun _ _ _ _ => trivial)
      subst hr
      show (if r0.tid = r0.tid then true else r0.s.plog r0.tid) = true
      simp
    · rename_i hc
      exact Triple.pure _ (fun r hr hl => by subst hr; exact absurd hl hc)
  refine Triple.bind (l_checkItems w).dropE (fun _ => ?_)
  refine Triple.bind (L.get).dropE (fun r => ?_)
  refine Triple.dropE (L.whenM _ ?_)
  refine L.bind (L.attempt (L.call _ _ _ _ _ (fun s => rfl))) (fun ok => ?_)
  exact L.whenM _ (L.call _ _ _ _ _ (fun s => rfl))

theorem l_phase1 (w : WS) (n : Nat) :
    Triple (fun r => r.reserved = [] ∧ r.removedH = []) (phase1 w n) (fun _ => PLp) (fun _ => True) := by
  unfold phase1
  split
  · exact Triple.pure _ (fun r h hl => by rw [h.1, h.2] at hl; simp at hl)
  refine Triple.bind (Q1 := fun _ _ => True) Triple.triv (fun _ => ?_)
  refine Triple.bind (Q1 := fun _ _ => True) Triple.triv (fun _ => ?_)
  refine Triple.bind (Q1 := fun _ _ => True) Triple.triv (fun _ => ?_)
  refine Triple.bind (Q1 := fun _ _ => True) Triple.triv (fun locked => ?_)
  split
  · exact giveUpLocked_raises
  refine Triple.bind (Q1 := fun _ _ => True) Triple.triv (fun ok => ?_)
  split
  · exact conflictRound_raises w n
  · exact l_finishPhase1 w

end
end Sop.Commit
