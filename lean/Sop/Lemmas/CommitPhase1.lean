import Sop.Lemmas.CommitHoare
import Sop.Lemmas.CommitWitness
/-!
Phase 1 of the commit and the live rollback preserve the state invariant `SInv`, for every write set, every
starting state satisfying `Pre`, and EVERY fault (the proofs never look at which call fails: each call is
shown to keep the invariant whether it takes effect or not).
-/
namespace Sop.Commit

/-- invariant of the running transaction: the shared state satisfies `SInv` and the ids still to be generated come from `fresh0` -/
def RInv (s0 : State) (w : WS) (fresh0 : List (UUID × UUID)) (r : Run) : Prop :=
  SInv s0 w fresh0 r.s ∧ ∀ p ∈ r.fresh, p ∈ fresh0

/-! ### `Known` is kept by the per-handle transformations -/

section known
variable {s0 : State} {w : WS} {fresh0 : List (UUID × UUID)}

theorem known_congr {h h' : Handle} (hk : Known s0 w fresh0 h) (e1 : h'.lid = h.lid) (e2 : h'.active = h.active)
    (e3 : h'.version = h.version) (e4 : InactOK s0 fresh0 h.lid h'.inactive) : Known s0 w fresh0 h' := by
  obtain ⟨k1, _, k3⟩ := hk
  unfold Known
  rw [e1, e2, e3]
  exact ⟨k1, e4, k3⟩

theorem known_clear {h : Handle} (hk : Known s0 w fresh0 h) : Known s0 w fresh0 h.clearInactive := by
  obtain ⟨c1, c2, c3, c4, _, _⟩ := Handle.clearInactive_spec h
  exact known_congr hk c1 c2 c4 (.inl c3)

theorem known_reserve {now hour : Int} {f : UUID} {h h' : Handle} {v : Int}
    (e : reserveOne now hour f h v = some h') (hk : Known s0 w fresh0 h)
    (hf : f = 0 ∨ ∃ q ∈ fresh0, q.2 = f) : Known s0 w fresh0 h' := by
  obtain ⟨r1, r2, r3, r4, _, _, _⟩ := reserveOne_spec now hour f h h' v e
  refine known_congr hk r1 r2 r3 ?_
  rw [r4]
  rcases hf with h0 | ⟨q, hq, e⟩
  · exact .inl h0
  · exact .inr (.inr ⟨q, hq, e⟩)

theorem takeFresh_spec (fr : List (UUID × UUID)) (lid : UUID) :
    ((takeFresh fr lid).1 = 0 ∨ ∃ q ∈ fr, q.2 = (takeFresh fr lid).1) ∧ ∀ q ∈ (takeFresh fr lid).2, q ∈ fr := by
  unfold takeFresh
  split
  · exact ⟨.inl rfl, fun q hq => hq⟩
  · rename_i p hp
    exact ⟨.inr ⟨p, List.mem_of_find?_eq_some hp, rfl⟩, fun q hq => List.mem_of_mem_erase hq⟩

theorem reserveAll_known {now hour : Int} :
    ∀ (pairs : List (Handle × Int)) (fr fr' : List (UUID × UUID)) (res : List Handle),
      reserveAll now hour fr pairs = some (res, fr') → (∀ q ∈ fr, q ∈ fresh0) → (∀ p ∈ pairs, Known s0 w fresh0 p.1) →
      (∀ h' ∈ res, Known s0 w fresh0 h') ∧ ∀ q ∈ fr', q ∈ fresh0 := by
  intro pairs
  induction pairs with
  | nil =>
    intro fr fr' res e hfr _
    simp only [reserveAll, Option.some.injEq, Prod.mk.injEq] at e
    obtain ⟨rfl, rfl⟩ := e
    exact ⟨fun _ hm => by simp at hm, hfr⟩
  | cons p t ih =>
    intro fr fr' res e hfr hp
    obtain ⟨h, v⟩ := p
    unfold reserveAll at e
    simp only at e
    obtain ⟨tf1, tf2⟩ := takeFresh_spec fr h.lid
    split at e
    · simp at e
    · rename_i h1 e1
      split at e
      · simp at e
      · rename_i hs fr2 e2
        simp only [Option.some.injEq, Prod.mk.injEq] at e
        obtain ⟨rfl, rfl⟩ := e
        have hfr1 : ∀ q ∈ (takeFresh fr h.lid).2, q ∈ fresh0 := fun q hq => hfr q (tf2 q hq)
        obtain ⟨ih1, ih2⟩ := ih _ _ _ e2 hfr1 (fun p hpm => hp p (List.mem_cons_of_mem _ hpm))
        refine ⟨?_, ih2⟩
        intro h' hm
        rcases List.mem_cons.mp hm with rfl | hm'
        · refine known_reserve e1 (hp (h, v) (List.mem_cons_self ..)) ?_
          rcases tf1 with z | ⟨q, hq, eq⟩
          · exact .inl z
          · exact .inr ⟨q, hfr q hq, eq⟩
        · exact ih1 h' hm'

theorem foldl_addCnt_same (ds : List (Nat × Int)) (s : State) :
    (ds.foldl (fun s (x : Nat × Int) => match x with | (st, d) => s.addCnt st d) s).reg = s.reg ∧
    (ds.foldl (fun s (x : Nat × Int) => match x with | (st, d) => s.addCnt st d) s).blob = s.blob := by
  induction ds generalizing s with
  | nil => exact ⟨rfl, rfl⟩
  | cons x t ih =>
    simp only [List.foldl_cons]
    obtain ⟨a, b⟩ := ih (match x with | (st, d) => s.addCnt st d)
    obtain ⟨st, d⟩ := x
    exact ⟨a, b⟩

end known

section
variable {s0 : State} {w : WS} {fresh0 : List (UUID × UUID)}
local notation "I" => RInv s0 w fresh0

theorem P.pure (a : α) : Preserves I (Pure.pure a : M α) := Triple.pure a (fun _ h => h)
theorem P.fail : Preserves I (fail : M α) := Triple.fail (fun _ h => h)
theorem P.bind {m : M α} {f : α → M β} (hm : Preserves I m) (hf : ∀ a, Preserves I (f a)) : Preserves I (m >>= f) :=
  Triple.bind hm hf
theorem P.get : Preserves I get := Triple.get (fun _ h => h)
theorem P.getS : Preserves I getS := Triple.getS (fun _ h => h)
theorem P.modify (f : Run → Run) (h : ∀ r, (f r).s = r.s ∧ (f r).fresh = r.fresh) : Preserves I (modify f) :=
  Triple.modify f (fun r hr => by
    obtain ⟨a, b⟩ := h r
    exact ⟨a ▸ hr.1, b ▸ hr.2⟩)
theorem P.attempt {m : M Unit} (h : Preserves I m) : Preserves I (attempt m) := Triple.attempt h (fun _ h => h)
theorem P.forIn (xs : List β) (f : β → Unit → M (ForInStep Unit)) (hf : ∀ x, Preserves I (f x ())) :
    Preserves I (forIn xs () f) := Triple.forIn xs f hf

/-- a call whose effect keeps `SInv` from any state that has it -/
theorem P.callInv (cls : Cls) (args : Args) (eff : State → State) (res : Args) (nat : State → Bool)
    (h : ∀ s, SInv s0 w fresh0 s → SInv s0 w fresh0 (eff s)) : Preserves I (Sop.Commit.call cls args eff res nat) :=
  Triple.call cls args eff res nat (fun _ _ _ hr => ⟨h _ hr.1, hr.2⟩) (fun _ _ _ _ hr => hr) (fun _ _ _ hr => ⟨h _ hr.1, hr.2⟩)

/-- a call that leaves the registry and the blobs alone -/
theorem P.callSame (cls : Cls) (args : Args) (eff : State → State) (res : Args) (nat : State → Bool)
    (h : ∀ s, (eff s).reg = s.reg ∧ (eff s).blob = s.blob) : Preserves I (Sop.Commit.call cls args eff res nat) :=
  P.callInv cls args eff res nat (fun s inv => inv.of_same (h s).1 (h s).2)

/-- bind where the first part also establishes a pure fact about its result -/
theorem P.bindFact {m : M α} {f : α → M β} (F : α → Prop)
    (hm : Triple I m (fun a r => I r ∧ F a) I) (hf : ∀ a, F a → Preserves I (f a)) : Preserves I (m >>= f) :=
  Triple.bind hm (fun a r hr => hf a hr.2 r hr.1)

/-- walk a `do` block of calls that leave registry and blobs alone -/
macro "pres_auto" : tactic => `(tactic| repeat (first
  | exact P.pure _ | exact P.fail | exact P.get | exact P.getS
  | exact P.callSame _ _ _ _ _ (fun s => ⟨rfl, rfl⟩)
  | exact P.modify _ (fun r => ⟨rfl, rfl⟩)
  | refine P.bind ?_ (fun _ => ?_)
  | refine P.forIn _ _ (fun _ => ?_)
  | refine P.attempt ?_
  | split))

theorem pres_logStep (st : Step) : Preserves I (logStep st) := by unfold logStep; pres_auto
theorem pres_lockItems : Preserves I (lockItems w) := by unfold lockItems; pres_auto
theorem pres_unlockItems : Preserves I (unlockItems w) := by unfold unlockItems; pres_auto
theorem pres_checkItems : Preserves I (checkItems w) := by unfold checkItems; pres_auto
theorem pres_unlockKeys (ids : List UUID) : Preserves I (unlockKeys ids) := by unfold unlockKeys; pres_auto
theorem pres_unlockNodesKeys : Preserves I unlockNodesKeys := by unfold unlockNodesKeys unlockKeys; pres_auto
theorem pres_mergeNodesKeys : Preserves I (mergeNodesKeys w) := by unfold mergeNodesKeys unlockKeys; pres_auto
theorem pres_dropNodeCache (ids : List UUID) : Preserves I (dropNodeCache ids) := by unfold dropNodeCache; pres_auto

/-- `regGet` keeps the invariant and every handle it returns is `Known` -/
theorem pres_regGet (ids : List UUID) :
    Triple I (regGet ids) (fun hs r => I r ∧ ∀ h ∈ hs, Known s0 w fresh0 h) I := by
  unfold regGet
  refine Triple.bind (Q1 := fun s r => I r ∧ ∀ h ∈ ids.filterMap s.reg, Known s0 w fresh0 h)
    (Triple.getS (fun r h => ⟨h, h.1.known_of_filterMap ids⟩)) (fun s => ?_)
  refine Triple.bind (Q1 := fun _ r => I r ∧ ∀ h ∈ ids.filterMap s.reg, Known s0 w fresh0 h) ?_ (fun _ => ?_)
  · exact Triple.call _ _ _ _ _ (fun _ _ _ hr => ⟨⟨hr.1.1, hr.1.2⟩, hr.2⟩) (fun _ _ _ _ hr => hr.1) (fun _ _ _ hr => hr.1)
  · exact Triple.pure _ (fun _ h => h)

theorem pres_regGet' (ids : List UUID) : Preserves I (regGet ids) :=
  Triple.conseq (pres_regGet ids) (fun _ h => h) (fun _ _ h => h.1) (fun _ h => h)

theorem pres_commitStores : Preserves I (commitStores w) := by
  unfold commitStores
  simp only
  split
  · exact P.pure _
  · exact P.callSame _ _ _ _ _ (fun s => foldl_addCnt_same _ s)

theorem pres_rollbackStores : Preserves I (rollbackStores w) := by
  unfold rollbackStores
  simp only
  split
  · exact P.pure _
  · refine P.bind (P.attempt ?_) (fun _ => P.pure _)
    exact P.callSame _ _ _ _ _ (fun s => foldl_addCnt_same _ s)

theorem pres_fetchedIntact : Preserves I (fetchedIntact w) := by
  unfold fetchedIntact
  simp only
  split
  · exact P.pure _
  · exact P.bind (pres_regGet' _) (fun _ => P.pure _)

theorem rootIds_new {i : UUID} (h : i ∈ w.rootIds) : i ∈ w.newIds := List.mem_append_left _ h
theorem addedIds_new {i : UUID} (h : i ∈ w.addedIds) : i ∈ w.newIds := List.mem_append_right _ h

theorem pres_commitNewRoots (pre : Pre s0 w fresh0) : Preserves I (commitNewRoots w) := by
  unfold commitNewRoots
  simp only
  split
  · exact P.pure _
  · refine P.bind (pres_regGet' _) (fun hs => ?_)
    split
    · exact P.pure _
    · refine P.bind (P.callInv _ _ _ _ _ (fun s inv => inv.addBlobs _)) (fun _ => ?_)
      refine P.bind (P.callInv _ _ _ _ _ (fun s inv => inv.setRegs_known _ ?_)) (fun _ => P.pure _)
      intro h hm
      obtain ⟨i, hi, rfl⟩ := List.mem_map.mp hm
      exact known_new pre _ (rootIds_new hi) rfl rfl

theorem pres_commitAdded (pre : Pre s0 w fresh0) : Preserves I (commitAdded w) := by
  unfold commitAdded
  simp only
  split
  · exact P.pure _
  · refine P.bind (P.callInv _ _ _ _ _ (fun s inv => inv.setRegs_known _ ?_)) (fun _ => ?_)
    · intro h hm
      obtain ⟨i, hi, rfl⟩ := List.mem_map.mp hm
      exact known_new pre _ (addedIds_new hi) rfl rfl
    · exact P.callInv _ _ _ _ _ (fun s inv => inv.addBlobs _)

theorem pairs_known (u : List (UUID × Int)) (hs : List Handle) (hk : ∀ h ∈ hs, Known s0 w fresh0 h) :
    ∀ p ∈ u.filterMap (fun (x : UUID × Int) => (hs.find? (·.lid == x.1)).map (fun h => (h, x.2))), Known s0 w fresh0 p.1 := by
  intro p hp
  obtain ⟨x, _, e⟩ := List.mem_filterMap.mp hp
  cases hf : hs.find? (·.lid == x.1) with
  | none => simp [hf] at e
  | some h =>
    simp only [hf, Option.map_some, Option.some.injEq] at e
    subst e
    exact hk h (List.mem_of_find?_eq_some hf)

theorem pres_commitUpdated : Preserves I (commitUpdated w) := by
  unfold commitUpdated
  simp only
  split
  · exact P.pure _
  · refine P.bindFact _ (pres_regGet _) (fun hs hk => ?_)
    split
    · exact P.pure _
    · -- `get` hands us the run: its `fresh` list comes from `fresh0`
      refine Triple.bind (Q1 := fun r0 r => I r ∧ ∀ q ∈ r0.fresh, q ∈ fresh0) (Triple.get (fun r h => ⟨h, h.2⟩)) (fun r0 => ?_)
      intro r hr
      obtain ⟨hI, hfr⟩ := hr
      revert r
      show Preserves I _
      split
      · exact P.pure _
      · rename_i res fr' e
        obtain ⟨k1, k2⟩ := reserveAll_known _ _ _ _ e hfr (pairs_known _ hs hk)
        refine P.bind (Triple.modify _ (fun r hr => ⟨hr.1, k2⟩)) (fun _ => ?_)
        refine P.bind (P.callInv _ _ _ _ _ (fun s inv => inv.setRegs_known _ k1)) (fun _ => ?_)
        refine P.bind (P.callInv _ _ _ _ _ (fun s inv => inv.addBlobs _)) (fun _ => ?_)
        exact P.bind (P.modify _ (fun r => ⟨rfl, rfl⟩)) (fun _ => P.pure _)

theorem pres_commitRemoved : Preserves I (commitRemoved w) := by
  unfold commitRemoved
  simp only
  split
  · exact P.pure _
  · refine P.bindFact _ (pres_regGet _) (fun hs hk => ?_)
    refine P.bind P.get (fun r => ?_)
    split
    · exact P.pure _
    · refine P.bind (P.callInv _ _ _ _ _ (fun s inv => inv.setRegs_known _ ?_)) (fun _ => ?_)
      · intro h hm
        obtain ⟨g, hg, rfl⟩ := List.mem_map.mp hm
        exact known_congr (hk g hg) rfl rfl rfl (hk g hg).2.1
      · exact P.bind (P.modify _ (fun r => ⟨rfl, rfl⟩)) (fun _ => P.pure _)

theorem pres_rollbackAdded (pre : Pre s0 w fresh0) : Preserves I (rollbackAdded w) := by
  unfold rollbackAdded
  simp only
  split
  · exact P.pure _
  · refine P.bind (P.attempt (P.callInv _ _ _ _ _ (fun s inv => inv.delBlobs_static pre _ (fun x hx => .inl (addedIds_new hx))))) (fun _ => ?_)
    refine P.bind (P.attempt (P.callInv _ _ _ _ _ (fun s inv => inv.delRegs pre _ (fun x hx => addedIds_new hx)))) (fun _ => ?_)
    exact pres_dropNodeCache _

theorem pres_rollbackUpdated (pre : Pre s0 w fresh0) : Preserves I (rollbackUpdated w) := by
  unfold rollbackUpdated
  simp only
  split
  · exact P.pure _
  · refine P.bindFact _ (pres_regGet _) (fun hs hk => ?_)
    have hdel : ∀ x ∈ (hs.filter (·.inactive != 0)).map (·.inactive), x ∈ w.newIds ∨ x ∈ w.values ∨ (x ≠ 0 ∧ ∃ i, InactOK s0 fresh0 i x) := by
      intro x hx
      obtain ⟨g, hg, rfl⟩ := List.mem_map.mp hx
      obtain ⟨hg1, hg2⟩ := List.mem_filter.mp hg
      exact .inr (.inr ⟨by simpa using hg2, g.lid, (hk g hg1).2.1⟩)
    have hclr : ∀ h ∈ hs.map (fun h => if h.inactive = 0 then { h with wip := 0 } else h.clearInactive), Known s0 w fresh0 h := by
      intro h hm
      obtain ⟨g, hg, rfl⟩ := List.mem_map.mp hm
      split
      · exact known_congr (hk g hg) rfl rfl rfl (hk g hg).2.1
      · exact known_clear (hk g hg)
    refine P.bind (P.attempt (P.callInv _ _ _ _ _ (fun s inv => inv.delBlobs_static pre _ hdel))) (fun _ => ?_)
    refine P.bind P.get (fun r => ?_)
    split
    · refine P.bind (P.attempt (P.callInv _ _ _ _ _ (fun s inv => inv.setRegs_known _ hclr))) (fun _ => ?_)
      exact pres_dropNodeCache _
    · refine P.bind (P.attempt (P.callInv _ _ _ _ _ (fun s inv => inv.setRegs_known _ hclr))) (fun _ => ?_)
      exact pres_dropNodeCache _

theorem pres_rollbackRemoved : Preserves I (rollbackRemoved w) := by
  unfold rollbackRemoved
  simp only
  split
  · exact P.pure _
  · refine P.bind (P.attempt (P.bind (pres_regGet' _) (fun _ => P.pure _))) (fun ok => ?_)
    split
    · exact P.pure _
    · refine Triple.bind (Q1 := fun s r => I r ∧ ∀ h ∈ (w.removed.map (·.1)).filterMap s.reg, Known s0 w fresh0 h)
        (Triple.getS (fun r h => ⟨h, h.1.known_of_filterMap _⟩)) (fun s => ?_)
      intro r hr
      obtain ⟨hI, hk⟩ := hr
      revert r
      show Preserves I _
      have hundo : ∀ h ∈ (((w.removed.map (·.1)).filterMap s.reg).filter (fun h => h.deleted || h.wip > 0)).map
          (fun h => { h with deleted := false, wip := if h.bothInUse then 1 else 0 }), Known s0 w fresh0 h := by
        intro h hm
        obtain ⟨g, hg, rfl⟩ := List.mem_map.mp hm
        have hg1 := (List.mem_filter.mp hg).1
        exact known_congr (hk g hg1) rfl rfl rfl (hk g hg1).2.1
      refine P.bind P.get (fun r => ?_)
      split
      · exact P.bind (P.attempt (P.callInv _ _ _ _ _ (fun s inv => inv.setRegs_known _ hundo))) (fun _ => P.pure _)
      · exact P.bind (P.attempt (P.callInv _ _ _ _ _ (fun s inv => inv.setRegs_known _ hundo))) (fun _ => P.pure _)

theorem pres_rollbackNewRoots (pre : Pre s0 w fresh0) : Preserves I (rollbackNewRoots w) := by
  unfold rollbackNewRoots
  simp only
  split
  · exact P.pure _
  · refine P.bind (P.attempt (P.callInv _ _ _ _ _ (fun s inv => inv.delBlobs_static pre _ (fun x hx => .inl (rootIds_new hx))))) (fun _ => ?_)
    refine P.bind (pres_dropNodeCache _) (fun _ => ?_)
    refine P.bind (P.attempt (P.bind (pres_regGet' _) (fun _ => P.pure _))) (fun ok => ?_)
    split
    · exact P.pure _
    · refine Triple.bind (Q1 := fun s r => I r ∧ ∀ i h, s.reg i = some h → h.lid = i)
        (Triple.getS (fun r h => ⟨h, h.1.regwf⟩)) (fun s => ?_)
      intro r hr
      obtain ⟨hI, hwf⟩ := hr
      revert r
      show Preserves I _
      have hpres : ∀ x ∈ (w.rootIds.filterMap s.reg).map (·.lid), x ∈ w.newIds := by
        intro x hx
        obtain ⟨g, hg, rfl⟩ := List.mem_map.mp hx
        obtain ⟨i, hi, e⟩ := List.mem_filterMap.mp hg
        rw [hwf i g e]
        exact rootIds_new hi
      split
      · exact P.bind (P.attempt (P.callInv _ _ _ _ _ (fun s inv => inv.delRegs pre _ hpres))) (fun _ => P.pure _)
      · exact P.pure _


theorem values_sub {st : StoreWS} (hst : st ∈ w.stores) {x : UUID} (hx : x ∈ st.values) : x ∈ w.values := by
  unfold WS.values
  exact List.mem_flatMap.mpr ⟨st, hst, hx⟩

/-- walk a `do` block using every lemma above -/
macro "pres_all" : tactic => `(tactic| repeat (first
  | exact P.pure _ | exact P.fail | exact P.get | exact P.getS
  | exact pres_logStep _ | exact pres_lockItems | exact pres_unlockItems | exact pres_checkItems
  | exact pres_unlockKeys _ | exact pres_unlockNodesKeys | exact pres_mergeNodesKeys | exact pres_dropNodeCache _
  | exact pres_commitStores | exact pres_rollbackStores | exact pres_fetchedIntact
  | exact pres_commitNewRoots (by assumption) | exact pres_commitAdded (by assumption) | exact pres_commitUpdated
  | exact pres_commitRemoved | exact pres_rollbackAdded (by assumption) | exact pres_rollbackUpdated (by assumption)
  | exact pres_rollbackRemoved | exact pres_rollbackNewRoots (by assumption)
  | exact P.callSame _ _ _ _ _ (fun s => ⟨rfl, rfl⟩)
  | exact P.modify _ (fun r => ⟨rfl, rfl⟩)
  | refine P.bind ?_ (fun _ => ?_)
  | refine P.attempt ?_
  | split))

theorem P.whenM (c : Bool) {m : M Unit} (h : Preserves I m) : Preserves I (whenM c m) := by
  unfold Sop.Commit.whenM; split
  · exact h
  · exact P.pure _

theorem pres_addValues : Preserves I (addValues w) := by
  unfold addValues
  refine P.bind (P.forIn _ _ (fun st => ?_)) (fun _ => P.pure _)
  refine P.bind (P.whenM _ (P.callInv _ _ _ _ _ (fun s inv => inv.addBlobs _))) (fun _ => P.pure _)

theorem pres_rollbackValues (pre : Pre s0 w fresh0) : Preserves I (rollbackValues w) := by
  unfold rollbackValues
  -- membership of the store in `w.stores` is needed to know its value ids are `w.values`
  have key : ∀ (l : List StoreWS), (∀ st ∈ l, st ∈ w.stores) →
      Preserves I (forIn l () (fun (st : StoreWS) (_ : Unit) => do
        whenM (!st.values.isEmpty) (do let _ ← attempt (call .blobRemove (.ids (st.values)) (fun s => s.delBlobs st.values)))
        Pure.pure (ForInStep.yield ()))) := by
    intro l
    induction l with
    | nil => intro _; exact P.pure _
    | cons st t ih =>
      intro hl
      rw [List.forIn_cons]
      refine P.bind ?_ (fun st' => ?_)
      · refine P.bind (P.whenM _ ?_) (fun _ => P.pure _)
        refine P.bind (P.attempt (P.callInv _ _ _ _ _ (fun s inv => inv.delBlobs_static pre _ (fun x hx => ?_)))) (fun _ => P.pure _)
        exact .inr (.inl (values_sub (hl st (List.mem_cons_self ..)) hx))
      · cases st' with
        | done b => exact P.pure _
        | yield b => exact ih (fun x hx => hl x (List.mem_cons_of_mem _ hx))
  exact P.bind (key w.stores (fun _ h => h)) (fun _ => P.pure _)

theorem storeNew_sub {st : StoreWS} (hst : st ∈ w.stores) {x : UUID} (hx : x ∈ st.root ++ st.added) : x ∈ w.newIds := by
  unfold WS.newIds WS.rootIds WS.addedIds
  rcases List.mem_append.mp hx with h | h
  · exact List.mem_append_left _ (List.mem_flatMap.mpr ⟨st, hst, h⟩)
  · exact List.mem_append_right _ (List.mem_flatMap.mpr ⟨st, hst, h⟩)

theorem pres_removeCreatedStores (pre : Pre s0 w fresh0) : Preserves I (removeCreatedStores w) := by
  unfold removeCreatedStores
  have key : ∀ (l : List StoreWS), (∀ st ∈ l, st ∈ w.stores) →
      Preserves I (forIn l () (fun (st : StoreWS) (_ : Unit) => do
        whenM st.created (do
          let _ ← attempt (call .srRemove (.store st.store)
            (fun s => { ((s.delRegs (st.root ++ st.added)).delBlobs (st.root ++ st.added)) with
                          storeExists := fun k => if k = st.store then false else s.storeExists k,
                          cnt := fun k => if k = st.store then 0 else s.cnt k })))
        Pure.pure (ForInStep.yield ()))) := by
    intro l
    induction l with
    | nil => intro _; exact P.pure _
    | cons st t ih =>
      intro hl
      rw [List.forIn_cons]
      refine P.bind ?_ (fun st' => ?_)
      · refine P.bind (P.whenM _ ?_) (fun _ => P.pure _)
        refine P.bind (P.attempt (P.callInv _ _ _ _ _ (fun s inv => ?_))) (fun _ => P.pure _)
        have hsub : ∀ x ∈ st.root ++ st.added, x ∈ w.newIds := fun x hx => storeNew_sub (hl st (List.mem_cons_self ..)) hx
        have h1 := inv.delRegs pre _ hsub
        have h2 := h1.delBlobs_static pre _ (fun x hx => .inl (hsub x hx))
        exact h2.of_same rfl rfl
      · cases st' with
        | done b => exact P.pure _
        | yield b => exact ih (fun x hx => hl x (List.mem_cons_of_mem _ hx))
  exact P.bind (key w.stores (fun _ h => h)) (fun _ => P.pure _)

theorem pres_rollback (pre : Pre s0 w fresh0) (values : Bool) : Preserves I (rollback w values) := by
  unfold rollback
  refine P.bind P.get (fun r => ?_)
  simp only
  refine P.bind (P.whenM _ P.fail) (fun _ => ?_)
  refine P.bind (P.whenM _ (P.bind (P.attempt (P.callSame _ _ _ _ _ (fun s => ⟨rfl, rfl⟩))) (fun _ => P.pure _))) (fun _ => ?_)
  refine P.bind (P.whenM _ pres_rollbackStores) (fun _ => ?_)
  refine P.bind (P.whenM _ (pres_rollbackAdded pre)) (fun _ => ?_)
  refine P.bind (P.whenM _ pres_rollbackRemoved) (fun _ => ?_)
  refine P.bind (P.whenM _ (pres_rollbackUpdated pre)) (fun _ => ?_)
  refine P.bind pres_unlockNodesKeys (fun _ => ?_)
  refine P.bind (P.whenM _ (pres_rollbackNewRoots pre)) (fun _ => ?_)
  refine P.bind (P.whenM _ (pres_rollbackValues pre)) (fun _ => ?_)
  refine P.bind (P.whenM _ (P.bind (P.attempt pres_unlockItems) (fun _ => P.pure _))) (fun _ => ?_)
  refine P.bind (P.whenM _ (pres_removeCreatedStores pre)) (fun _ => ?_)
  refine P.bind (P.attempt (P.callSame _ _ _ _ _ (fun s => ⟨rfl, rfl⟩))) (fun _ => ?_)
  exact P.modify _ (fun r => ⟨rfl, rfl⟩)

theorem pres_phase1Body (pre : Pre s0 w fresh0) : Preserves I (phase1Body w) := by
  unfold phase1Body
  refine P.bind (pres_logStep _) (fun _ => ?_)
  refine P.bind pres_addValues (fun _ => ?_)
  refine P.bind (pres_logStep _) (fun _ => ?_)
  refine P.bind (pres_commitNewRoots pre) (fun ok => ?_)
  split
  · exact P.pure _
  refine P.bind (pres_logStep _) (fun _ => ?_)
  refine P.bind pres_fetchedIntact (fun ok => ?_)
  split
  · exact P.pure _
  refine P.bind pres_commitUpdated (fun ok => ?_)
  refine P.bind (pres_logStep _) (fun _ => ?_)
  split
  · exact P.pure _
  refine P.bind (pres_logStep _) (fun _ => ?_)
  refine P.bind pres_commitRemoved (fun ok => ?_)
  split
  · exact P.pure _
  refine P.bind (pres_logStep _) (fun _ => ?_)
  exact P.bind (pres_commitAdded pre) (fun _ => P.pure _)

theorem pres_lockNodes : Preserves I lockNodes := by
  unfold lockNodes
  refine P.bind P.get (fun r => ?_)
  simp only
  refine P.bind (P.attempt (P.callSame _ _ _ _ _ (fun s => ?_))) (fun ok => ?_)
  · split <;> exact ⟨rfl, rfl⟩
  split
  · exact P.bind (P.attempt (pres_unlockKeys _)) (fun _ => P.fail)
  split
  · exact P.pure _
  exact P.bind (P.callSame _ _ _ _ _ (fun s => ⟨rfl, rfl⟩)) (fun _ => P.pure _)

theorem pres_giveUpLocked : Preserves I giveUpLocked := by
  unfold giveUpLocked
  refine P.bind P.get (fun r => ?_)
  refine P.bind (P.attempt (pres_unlockKeys _)) (fun _ => ?_)
  exact P.bind (P.modify _ (fun r => ⟨rfl, rfl⟩)) (fun _ => P.fail)

theorem pres_conflictRound (pre : Pre s0 w fresh0) (n : Nat) : Preserves I (conflictRound w n) := by
  unfold conflictRound
  refine P.bind (P.whenM _ P.fail) (fun _ => ?_)
  refine P.bind (pres_rollback pre false) (fun _ => ?_)
  exact P.bind (P.modify _ (fun r => ⟨rfl, rfl⟩)) (fun _ => P.fail)

theorem pres_finishPhase1 : Preserves I (finishPhase1 w) := by
  unfold finishPhase1
  refine P.bind (pres_logStep _) (fun _ => ?_)
  refine P.bind pres_commitStores (fun _ => ?_)
  refine P.bind (pres_logStep _) (fun _ => ?_)
  refine P.bind P.get (fun r => ?_)
  refine P.bind (P.whenM _ (P.callSame _ _ _ _ _ (fun s => ⟨rfl, rfl⟩))) (fun _ => ?_)
  refine P.bind pres_checkItems (fun _ => ?_)
  refine P.bind P.get (fun r => ?_)
  refine P.whenM _ ?_
  refine P.bind (P.attempt (P.callSame _ _ _ _ _ (fun s => ⟨rfl, rfl⟩))) (fun ok => ?_)
  exact P.whenM _ (P.callSame _ _ _ _ _ (fun s => ⟨rfl, rfl⟩))

theorem pres_phase1 (pre : Pre s0 w fresh0) (n : Nat) : Preserves I (phase1 w n) := by
  unfold phase1
  split
  · exact P.pure _
  refine P.bind (pres_logStep _) (fun _ => ?_)
  refine P.bind pres_lockItems (fun _ => ?_)
  refine P.bind pres_mergeNodesKeys (fun _ => ?_)
  refine P.bind pres_lockNodes (fun locked => ?_)
  split
  · exact pres_giveUpLocked
  refine P.bind (pres_phase1Body pre) (fun ok => ?_)
  split
  · exact pres_conflictRound pre n
  · exact pres_finishPhase1

end
end Sop.Commit

namespace Sop.Commit

/-- **Phase 1 and its rollback are invisible at the node level, whatever fails.** From a state and write set
satisfying `Pre`, for every fault, transaction id and retry cap: when `phase1` ends — normally (the gap before
phase 2) or by raising at the failing call — every node that was loadable at the start is still loadable with the
same blob id and the same version. -/
theorem phase1_keeps_views {s0 : State} {w : WS} {fresh0 : List (UUID × UUID)} (pre : Pre s0 w fresh0)
    (fault : Option Fault) {cs0 : Step} (tid : Tid) (n : Nat) :
    match phase1 w n { s := s0, tid := tid, fault := fault, fresh := fresh0, cs := cs0 } with
    | .ok (_, r) => ∀ lid, (s0.view lid).isSome → r.s.view lid = s0.view lid
    | .error r => ∀ lid, (s0.view lid).isSome → r.s.view lid = s0.view lid := by
  have h := pres_phase1 pre n { s := s0, tid := tid, fault := fault, fresh := fresh0, cs := cs0 }
    ⟨SInv.init s0 w fresh0 pre, fun _ hp => hp⟩
  cases hr : phase1 w n { s := s0, tid := tid, fault := fault, fresh := fresh0, cs := cs0 } with
  | error r => rw [hr] at h; exact h.1.stable
  | ok p => obtain ⟨a, r⟩ := p; rw [hr] at h; exact h.1.stable

/-- **A commit that fails in phase 1 (error or conflict round) leaves every node as it was**, after its live
rollback has run — for every fault position and kind, including faults that hit the rollback's own calls. -/
theorem commit_phase1_failure_keeps_views {s0 : State} {w : WS} {fresh0 : List (UUID × UUID)} (pre : Pre s0 w fresh0)
    (fault : Option Fault) {cs0 : Step} (tid : Tid) (n : Nat) (r1 : Run)
    (hf : phase1 w n { s := s0, tid := tid, fault := fault, fresh := fresh0, cs := cs0 } = .error r1) :
    ∀ lid, (s0.view lid).isSome →
      (commit w n { s := s0, tid := tid, fault := fault, fresh := fresh0, cs := cs0 }).2.s.view lid = s0.view lid := by
  have h := pres_phase1 pre n { s := s0, tid := tid, fault := fault, fresh := fresh0, cs := cs0 }
    ⟨SInv.init s0 w fresh0 pre, fun _ hp => hp⟩
  rw [hf] at h
  unfold commit
  simp only [hf]
  split
  · exact h.1.stable
  · have h2 := pres_rollback pre true r1 h
    cases hr : rollback w true r1 with
    | error r2 => rw [hr] at h2; exact h2.1.stable
    | ok p => obtain ⟨a, r2⟩ := p; rw [hr] at h2; exact h2.1.stable

end Sop.Commit

namespace Sop.Commit.Witness
open Sop.Commit

/-- the hypotheses of the phase-1 theorems are satisfiable: the split witness (node 1 updated, node 2 added, staged id 9) -/
theorem pre_wSplit : Pre s0 wSplit [(1, 9)] := by
  have hreg : ∀ i h, s0.reg i = some h → i = 1 ∧ h = { lid := 1, idA := 1, version := 1 } := by
    intro i h e
    simp only [s0, State.setReg, State.setBlob] at e
    split at e
    · rename_i hi; cases e; exact ⟨hi, rfl⟩
    · cases e
  refine ⟨?_, ?_, ?_, ?_, ?_, ?_, ?_, ?_⟩
  · intro i h e; obtain ⟨rfl, rfl⟩ := hreg i h e; rfl
  · intro i hi
    have : i = 2 := by simpa [WS.newIds, WS.rootIds, WS.addedIds, wSplit] using hi
    subst this
    simp [s0, State.setReg, State.setBlob]
  · intro i h e; obtain ⟨rfl, rfl⟩ := hreg i h e; decide
  · intro i h e; obtain ⟨rfl, rfl⟩ := hreg i h e; decide
  · intro i j h h' e e' hne; obtain ⟨rfl, rfl⟩ := hreg i h e; exact absurd rfl hne
  · intro i h e hne; obtain ⟨rfl, rfl⟩ := hreg i h e; exact absurd rfl hne
  · decide
  · intro i h e; obtain ⟨rfl, rfl⟩ := hreg i h e; decide

end Sop.Commit.Witness
