import Sop.Lemmas.CommitPhase2Fail
import Sop.Lemmas.CommitSpent
import Sop.Lemmas.CommitPL
/-!
The last failure case of phase 2: the flip write (`registry.UpdateNoLocks`, all-or-nothing) takes effect and then
reports an error. `Phase2Commit` restores the pre-flip images it logged in the priority log (the node keys are
still held, the priority log exists, and — the run's single fault being spent — the restoring write succeeds), then
runs the live rollback: every node ends as it was.
-/
namespace Sop.Commit
set_option linter.unusedSectionVars false

/-- registry lookup after a batch write, as a function: the last image written for that id, else the old entry -/
theorem State.setRegs_reg_eq (s : State) (hs : List Handle) (k : UUID) :
    (s.setRegs hs).reg k = match hs.reverse.find? (·.lid == k) with | some h => some h | none => s.reg k := by
  unfold State.setRegs
  induction hs generalizing s with
  | nil => rfl
  | cons h t ih =>
    simp only [List.foldl_cons, ih, List.reverse_cons, List.find?_append]
    cases hf : t.reverse.find? (·.lid == k) with
    | some x => rfl
    | none =>
      simp only [Option.none_or, List.find?_cons, List.find?_nil, State.setReg_reg]
      by_cases e : k = h.lid
      · subst e; simp
      · have : (h.lid == k) = false := by simpa using fun x => e x.symm
        simp [this, e]

theorem State.setRegs_plog (s : State) (hs : List Handle) : (s.setRegs hs).plog = s.plog := by
  unfold State.setRegs
  induction hs generalizing s with
  | nil => rfl
  | cons h t ih => simp only [List.foldl_cons, ih]; rfl

/-- writing `b` over `a` when every id written by `a` is also written by `b`: as if only `b` had been written -/
theorem State.setRegs_cover (s : State) (a b : List Handle) (hc : ∀ x ∈ a, ∃ y ∈ b, y.lid = x.lid) :
    ((s.setRegs a).setRegs b).reg = (s.setRegs b).reg := by
  funext k
  rw [State.setRegs_reg_eq, State.setRegs_reg_eq s b]
  cases hf : b.reverse.find? (·.lid == k) with
  | some x => rfl
  | none =>
    simp only
    apply State.setRegs_reg_of_not_mem
    intro x hx e
    obtain ⟨y, hy, ey⟩ := hc x hx
    have := List.find?_eq_none.mp hf y (List.mem_reverse.mpr hy)
    simp [ey, e] at this

section
variable {s0 : State} {w : WS} {fresh0 : List (UUID × UUID)} {resv remv : List Handle}

/-- the state right after a flip write that took effect and reported an error -/
structure After3 (s0 : State) (w : WS) (fresh0 : List (UUID × UUID)) (r : Run) : Prop where
  spent : Spent r
  nonempty : (r.reserved.map activate ++ r.removedH.map touch).isEmpty = false
  state : ∃ s1 : State, r.s = s1.setRegs (r.reserved.map activate ++ r.removedH.map touch) ∧ SInv s0 w fresh0 s1 ∧ s1.plog r.tid = true
  fresh : ∀ p ∈ r.fresh, p ∈ fresh0
  known : ∀ h ∈ r.reserved ++ r.removedH, Known s0 w fresh0 h
  keys : w.nodeKeys ≠ [] → r.nodesKeys = some w.nodeKeys
  resIn : ∀ h ∈ r.reserved, h.lid ∈ w.updated.map (·.1)
  remIn : ∀ g ∈ r.removedH, g.lid ∈ w.removed.map (·.1)

/-- whoever has something to flip has tracked items (a commit without tracked items does nothing at all) -/
def TRp (w : WS) (r : Run) : Prop := (!r.reserved.isEmpty || !r.removedH.isEmpty) = true → w.hasTracked = true

/-- what phase 2 is entered with -/
def PX (s0 : State) (w : WS) (fresh0 : List (UUID × UUID)) (r : Run) : Prop :=
  Staged s0 w fresh0 r ∧ PLp r ∧ (w.hasTracked = true → NKp w r) ∧ TRp w r

theorem px_logStep (st : Step) : Preserves (PX s0 w fresh0) (logStep st) := by
  have h3 : Preserves (fun r => w.hasTracked = true → NKp w r) (logStep st) := by
    by_cases ht : w.hasTracked = true
    · exact Triple.conseq (n_logStep (w0 := w) st) (fun _ h => h ht) (fun _ _ h _ => h) (fun _ h _ => h)
    · exact Triple.conseq (Triple.triv) (fun _ _ => trivial) (fun _ _ _ h => absurd h ht) (fun _ _ h => absurd h ht)
  have h4 : Preserves (TRp w) (logStep st) := by
    unfold logStep
    refine Triple.bind (Q1 := fun _ => TRp w) (Triple.modify _ (fun _ h => h)) (fun _ => ?_)
    refine Triple.bind (Q1 := fun _ => TRp w) (Triple.get (fun _ h => h)) (fun _ => ?_)
    exact Triple.call _ _ _ _ _ (fun _ _ _ h => h) (fun _ _ _ _ h => h) (fun _ _ _ h => h)
  exact Triple.and (gen_logStep (I := Staged s0 w fresh0) st) (Triple.and (l_logStep st) (Triple.and h3 h4))

/-- how phase 2 can raise, with the third case described -/
theorem phase2_raises' :
    Triple (PX s0 w fresh0) (phase2 w) (fun _ _ => True)
      (fun r' => Staged s0 w fresh0 r' ∨ r'.halted = true ∨ After3 s0 w fresh0 r') := by
  unfold phase2
  refine Triple.bind (Q1 := fun r0 r => PX s0 w fresh0 r ∧ r0 = r) (Triple.get (fun _ h => ⟨h, rfl⟩)) (fun r0 => ?_)
  refine Triple.bind (Q1 := fun _ r => PX s0 w fresh0 r ∧ r.reserved = r0.reserved ∧ r.removedH = r0.removedH) ?_ (fun okLog => ?_)
  · refine Triple.attempt' (Q := fun _ r => PX s0 w fresh0 r ∧ r.reserved = r0.reserved ∧ r.removedH = r0.removedH) ?_ (fun _ _ h => .inr (.inl h))
    have : Preserves (fun r => r.reserved = r0.reserved ∧ r.removedH = r0.removedH) (logStep .finalizeCommit) := by
      unfold logStep
      refine Triple.bind (Q1 := fun _ r => r.reserved = r0.reserved ∧ r.removedH = r0.removedH) (Triple.modify _ (fun _ h => h)) (fun _ => ?_)
      refine Triple.bind (Q1 := fun _ r => r.reserved = r0.reserved ∧ r.removedH = r0.removedH) (Triple.get (fun _ h => h)) (fun _ => ?_)
      exact Triple.call _ _ _ _ _ (fun _ _ _ h => h) (fun _ _ _ _ h => h) (fun _ _ _ h => h)
    exact Triple.conseq (Triple.and (px_logStep _) this) (fun r h => ⟨h.1, by rw [h.2]; exact ⟨rfl, rfl⟩⟩) (fun _ _ h => h) (fun _ h => h)
  simp only
  have rest : Triple (fun _ => True) (do
      unlockNodesKeys
      let _ ← attempt (unlockItems w)
      cleanup w) (fun _ _ => True) (fun r' => Staged s0 w fresh0 r' ∨ r'.halted = true ∨ After3 s0 w fresh0 r') := by
    refine Triple.conseq (?_ : OnlyHalt _) (fun _ h => h) (fun _ _ h => h) (fun _ h => .inr (.inl h))
    exact OH.bind oh_unlockNodesKeys (fun _ => OH.bind (OH.attempt _) (fun _ => oh_cleanup w))
  split
  · refine Triple.bind (Q1 := fun _ => Staged s0 w fresh0) ?_ (fun _ => ?_)
    · exact Triple.conseq (gen_unlockNodesKeys (I := Staged s0 w fresh0)) (fun _ h => h.1.1) (fun _ _ h => h) (fun _ h => .inl h)
    · exact Triple.bind (Q1 := fun _ _ => False) (Triple.fail (fun _ h => .inl h)) (fun _ r h => h.elim)
  · split
    · rename_i hne
      refine Triple.bind (Q1 := fun _ _ => True) ?_ (fun _ => ?_)
      · refine Triple.callSpent _ _ _ _ _ (fun _ _ _ _ => trivial)
          (fun r o _ _ => .inr (.inl rfl))
          (fun r o t h => .inl (Frame.frame r _ h.1.1 rfl rfl rfl rfl rfl))
          (fun r o t h _ hsp => .inr (.inr ?_))
        obtain ⟨⟨hS, hpl, hnk, htr⟩, e1, e2⟩ := h
        have hne' : (r.reserved.map activate ++ r.removedH.map touch).isEmpty = false := by
          rw [e1, e2]; simpa using hne
        have hlists : (!r.reserved.isEmpty || !r.removedH.isEmpty) = true := by
          cases hr : r.reserved with
          | nil =>
            cases hm : r.removedH with
            | nil => rw [hr, hm] at hne'; simp at hne'
            | cons _ _ => simp
          | cons _ _ => simp
        refine ⟨hsp, hne', ⟨r.s, ?_, hS.rinv.1, hpl hlists⟩, hS.rinv.2, hS.known, hnk (htr hlists), fun h hm => hS.resLid hm, hS.remSub⟩
        show r.s.setRegs _ = r.s.setRegs _
        rw [e1, e2]
      · refine Triple.bind (Q1 := fun _ _ => True) ?_ (fun _ => rest)
        exact Triple.conseq (OH.attempt _) (fun _ _ => trivial) (fun _ _ h => h) (fun _ h => .inr (.inl h))
    · exact Triple.conseq rest (fun _ _ => trivial) (fun _ _ h => h) (fun _ h => h)

/-- a call that cannot fail: fault spent, no observer, no error of its own -/
theorem Triple.callOk {P : Run → Prop} {Q : Unit → Run → Prop} {E : Run → Prop}
    (cls : Cls) (args : Args) (eff : State → State) (res : Args)
    (hP : ∀ r, P r → Spent r ∧ r.stopAt = none)
    (hok : ∀ r occs tr, P r → Spent { r with occs := occs, trace := tr, s := eff r.s } →
      Q () { r with occs := occs, trace := tr, s := eff r.s }) :
    Triple P (Sop.Commit.call cls args eff res) Q E := by
  intro r hr
  obtain ⟨hs, hst⟩ := hP r hr
  obtain ⟨occs, tr, e, hs'⟩ := call_of_spent hs hst cls args eff res (fun _ => false) rfl
  rw [e]
  exact hok r occs tr hr hs'

/-- `Phase2Commit`'s error handling after a flip that failed after its effect: the images are restored -/
theorem handler_restores (pre : Pre s0 w fresh0) :
    Triple (fun r => After3 s0 w fresh0 r ∧ r.stopAt = none) (do
        let r ← get
        if !(keysOrEmpty r).isEmpty then
          priorityRollbackSelf
          unlockNodesKeys
        else
          let _ ← attempt (call .plogRemove .none (fun s => { s with plog := fun k => if k = r.tid then false else s.plog k }))
        rollback w true : M Unit) (fun _ => RInv s0 w fresh0) (RInv s0 w fresh0) := by
  refine Triple.bind (Q1 := fun r0 r => (After3 s0 w fresh0 r ∧ r.stopAt = none) ∧ r0 = r) (Triple.get (fun _ h => ⟨h, rfl⟩)) (fun r0 => ?_)
  simp only
  split
  · -- the keys are held: priority rollback
    refine Triple.bind (Q1 := fun _ => RInv s0 w fresh0) ?_ (fun _ => Triple.bind pres_unlockNodesKeys (fun _ => pres_rollback pre true))
    unfold priorityRollbackSelf
    refine Triple.bind (Q1 := fun r1 r => (After3 s0 w fresh0 r ∧ r.stopAt = none) ∧ r1 = r) (Triple.get (fun _ h => ⟨h.1, rfl⟩)) (fun r1 => ?_)
    split
    · refine Triple.bind (Q1 := fun _ => RInv s0 w fresh0) ?_ (fun _ => ?_)
      · refine Triple.attempt (Q := fun _ => RInv s0 w fresh0) ?_ (fun _ h => h)
        refine Triple.callOk _ _ _ _ (fun r h => ⟨h.1.1.spent, h.1.2⟩) (fun r o t h _ => ?_)
        obtain ⟨⟨a3, _⟩, e⟩ := h
        subst e
        obtain ⟨s1, es, inv1, _⟩ := a3.state
        refine ⟨?_, a3.fresh⟩
        show SInv s0 w fresh0 (r1.s.setRegs (r1.reserved ++ r1.removedH))
        have hcover : ∀ x ∈ r1.reserved.map activate ++ r1.removedH.map touch, ∃ y ∈ r1.reserved ++ r1.removedH, y.lid = x.lid := by
          intro x hx
          rcases List.mem_append.mp hx with hx | hx
          · obtain ⟨z, hz, rfl⟩ := List.mem_map.mp hx
            exact ⟨z, List.mem_append_left _ hz, ((activate_spec z).1).symm⟩
          · obtain ⟨z, hz, rfl⟩ := List.mem_map.mp hx
            exact ⟨z, List.mem_append_right _ hz, rfl⟩
        refine (inv1.setRegs_known _ a3.known).of_same ?_ ?_
        · rw [es]; exact State.setRegs_cover s1 _ _ hcover
        · rw [es, State.setRegs_blob, State.setRegs_blob, State.setRegs_blob]
      · exact P.bind (P.attempt (P.callSame _ _ _ _ _ (fun s => ⟨rfl, rfl⟩))) (fun _ => P.pure _)
    · -- the priority log is there
      rename_i hpl
      refine Triple.pure _ (fun r h => ?_)
      obtain ⟨⟨a3, _⟩, e⟩ := h
      subst e
      obtain ⟨s1, es, _, hp⟩ := a3.state
      rw [es, State.setRegs_plog] at hpl
      exact absurd hp hpl
  · -- impossible: something was flipped, so the transaction has node keys
    rename_i hk
    refine Triple.conseq (P' := fun _ => False) ?_ (fun r h => ?_) (fun _ _ h => h) (fun _ h => h)
    · intro r h; exact h.elim
    · obtain ⟨⟨a3, _⟩, e⟩ := h
      subst e
      have hnk : w.nodeKeys ≠ [] := by
        intro hnil
        have hu : w.updated.map (·.1) = [] ∧ w.removed.map (·.1) = [] := by
          unfold WS.nodeKeys at hnil
          exact List.append_eq_nil_iff.mp hnil
        have h1 : r0.reserved = [] := by
          cases hr : r0.reserved with
          | nil => rfl
          | cons x t => have := a3.resIn x (by rw [hr]; exact List.mem_cons_self ..); rw [hu.1] at this; cases this
        have h2 : r0.removedH = [] := by
          cases hr : r0.removedH with
          | nil => rfl
          | cons x t => have := a3.remIn x (by rw [hr]; exact List.mem_cons_self ..); rw [hu.2] at this; cases this
        have := a3.nonempty
        rw [h1, h2] at this
        simp at this
      have := a3.keys hnk
      unfold keysOrEmpty at hk
      rw [this] at hk
      simp only [Option.getD_some] at hk
      cases hw : w.nodeKeys with
      | nil => exact hnk hw
      | cons _ _ => rw [hw] at hk; simp at hk

/-- the error handling of `Phase2Commit`, from either kind of state phase 2 can raise in -/
theorem handler_any (pre : Pre s0 w fresh0) :
    Triple (fun r => Staged s0 w fresh0 r ∨ (After3 s0 w fresh0 r ∧ r.stopAt = none)) (do
        let r ← get
        if !(keysOrEmpty r).isEmpty then
          priorityRollbackSelf
          unlockNodesKeys
        else
          let _ ← attempt (call .plogRemove .none (fun s => { s with plog := fun k => if k = r.tid then false else s.plog k }))
        rollback w true : M Unit) (fun _ => RInv s0 w fresh0) (RInv s0 w fresh0) :=
  fun r h => h.elim (handler_keeps pre r) (handler_restores pre r)

/-- lists are only filled by a transaction with tracked items -/
theorem tr_phase1 (n : Nat) :
    Triple (fun r => r.reserved = [] ∧ r.removedH = []) (phase1 w n) (fun _ => TRp w) (fun _ => True) := by
  by_cases ht : w.hasTracked = true
  · exact Triple.conseq Triple.triv (fun _ _ => trivial) (fun _ _ _ _ => ht) (fun _ h => h)
  · unfold phase1
    rw [if_pos (by simpa using ht)]
    exact Triple.pure _ (fun r h hl => by rw [h.1, h.2] at hl; simp at hl)

/-- **A commit that fails in phase 2 leaves every node as it was — for every fault.** -/
theorem commit_phase2_failure_keeps_views_all (pre : Pre s0 w fresh0) (pre2 : Pre2 s0 w fresh0)
    (fault : Option Fault) {cs0 : Step} (tid : Tid) (n : Nat) (r1 r2 : Run)
    (h1 : phase1 w n { s := s0, tid := tid, fault := fault, fresh := fresh0, cs := cs0 } = .ok ((), r1))
    (h2 : phase2 w r1 = .error r2) :
    ∀ lid, (s0.view lid).isSome →
      (commit w n { s := s0, tid := tid, fault := fault, fresh := fresh0, cs := cs0 }).2.s.view lid = s0.view lid := by
  have hj0 : J0 s0 w fresh0 { s := s0, tid := tid, fault := fault, fresh := fresh0, cs := cs0 } :=
    ⟨⟨SInv.init s0 w fresh0 pre, fun _ hp => hp⟩, rfl, rfl⟩
  have hst := staged_phase1 pre pre2 n _ hj0
  rw [h1] at hst
  have hf1 := h_phase1 (f0 := fault) w n { s := s0, tid := tid, fault := fault, fresh := fresh0, cs := cs0 } ⟨rfl, rfl, rfl⟩
  rw [h1] at hf1
  have hf2 := h_phase2 (f0 := fault) w r1 hf1
  rw [h2] at hf2
  have hpl := l_phase1 w n { s := s0, tid := tid, fault := fault, fresh := fresh0, cs := cs0 } ⟨rfl, rfl⟩
  rw [h1] at hpl
  have hnk := n_phase1 w n { s := s0, tid := tid, fault := fault, fresh := fresh0, cs := cs0 } trivial
  rw [h1] at hnk
  have htr := tr_phase1 (w := w) n { s := s0, tid := tid, fault := fault, fresh := fresh0, cs := cs0 } ⟨rfl, rfl⟩
  rw [h1] at htr
  have hr := phase2_raises' (s0 := s0) (w := w) (fresh0 := fresh0) r1 ⟨hst.1, hpl, hnk, htr⟩
  rw [h2] at hr
  have hdisj : Staged s0 w fresh0 r2 ∨ (After3 s0 w fresh0 r2 ∧ r2.stopAt = none) := by
    rcases hr with a | b | c
    · exact .inl a
    · rw [hf2.2.1] at b; cases b
    · exact .inr ⟨c, hf2.1⟩
  have hk := handler_any pre r2 hdisj
  unfold commit
  simp only [h1, h2]
  split
  · rename_i r' e; rw [e] at hk; exact hk.1.stable
  · rename_i r' e; rw [e] at hk; exact hk.1.stable

end
end Sop.Commit
