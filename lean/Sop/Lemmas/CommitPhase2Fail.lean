import Sop.Lemmas.CommitFlip
import Sop.Lemmas.CommitInert
/-!
A commit that fails in phase 2. Phase 2 raises in three ways: its first log write fails (nothing changed yet), the
flip write fails WITHOUT effect (nothing changed), or the flip write fails AFTER its effect. In the first two the
state still satisfies `Staged`; `Phase2Commit`'s error handling (priority rollback of the logged pre-flip images,
then the live rollback) keeps the state invariant whatever happens inside it, so every node is as it was. The
third case (a `failAfter` fault on `registry.UpdateNoLocks`) is not covered here: it needs "the one fault has been
spent" and is explored by the correspondence run.
-/
namespace Sop.Commit
set_option linter.unusedSectionVars false

/-- raises only when the run was stopped by an observer -/
abbrev OnlyHalt (m : M α) : Prop := Triple (fun _ => True) m (fun _ _ => True) (fun r => r.halted = true)

theorem OH.pure (a : α) : OnlyHalt (Pure.pure a : M α) := Triple.pure a (fun _ _ => trivial)
theorem OH.bind {m : M α} {f : α → M β} (hm : OnlyHalt m) (hf : ∀ a, OnlyHalt (f a)) : OnlyHalt (m >>= f) :=
  Triple.bind hm hf
theorem OH.get : OnlyHalt get := Triple.get (fun _ _ => trivial)
theorem OH.modify (f : Run → Run) : OnlyHalt (modify f) := Triple.modify f (fun _ _ => trivial)
theorem OH.attempt (m : M Unit) : OnlyHalt (attempt m) :=
  Triple.attempt' (Q := fun _ _ => True) (Triple.triv) (fun _ _ h => h)
theorem OH.forIn (xs : List β) (f : β → Unit → M (ForInStep Unit)) (hf : ∀ x, OnlyHalt (f x ())) :
    OnlyHalt (forIn xs () f) := Triple.forIn xs f hf

macro "oh_auto" : tactic => `(tactic| repeat (first
  | exact OH.pure _ | exact OH.get | exact OH.attempt _ | exact OH.modify _
  | refine OH.bind ?_ (fun _ => ?_)
  | refine OH.forIn _ _ (fun _ => ?_)
  | split))

theorem oh_unlockNodesKeys : OnlyHalt unlockNodesKeys := by unfold unlockNodesKeys; oh_auto
theorem oh_cleanup (w : WS) : OnlyHalt (cleanup w) := by unfold cleanup; simp only; oh_auto

section
variable {s0 : State} {w : WS} {fresh0 : List (UUID × UUID)} {resv remv : List Handle}

/-- the fault is a `failAfter` on a `registry.UpdateNoLocks` call -/
def FlipAfter (r : Run) : Prop := ∃ f, r.fault = some f ∧ f.cls = .regUpdateNoLocks ∧ f.kind = .failAfter

/-- how phase 2 can raise -/
theorem phase2_raises :
    Triple (P2 s0 w fresh0 resv remv) (phase2 w) (fun _ _ => True)
      (fun r' => Staged s0 w fresh0 r' ∨ r'.halted = true ∨ FlipAfter r') := by
  unfold phase2
  refine Triple.bind (Q1 := fun _ => P2 s0 w fresh0 resv remv) (Triple.get (fun _ h => h)) (fun r0 => ?_)
  refine Triple.bind (Q1 := fun _ => P2 s0 w fresh0 resv remv) ?_ (fun okLog => ?_)
  · exact Triple.attempt' (Q := fun _ => P2 s0 w fresh0 resv remv) (gen_logStep _) (fun _ _ h => .inr (.inl h))
  simp only
  have rest : Triple (fun _ => True) (do
      unlockNodesKeys
      let _ ← attempt (unlockItems w)
      cleanup w) (fun _ _ => True) (fun r' => Staged s0 w fresh0 r' ∨ r'.halted = true ∨ FlipAfter r') := by
    refine Triple.conseq (?_ : OnlyHalt _) (fun _ h => h) (fun _ _ h => h) (fun _ h => .inr (.inl h))
    exact OH.bind oh_unlockNodesKeys (fun _ => OH.bind (OH.attempt _) (fun _ => oh_cleanup w))
  split
  · refine Triple.bind (Q1 := fun _ => P2 s0 w fresh0 resv remv) ?_ (fun _ => ?_)
    · exact Triple.conseq (gen_unlockNodesKeys (I := P2 s0 w fresh0 resv remv)) (fun _ h => h) (fun _ _ h => h) (fun _ h => .inl h.1)
    · exact Triple.bind (Q1 := fun _ _ => False) (Triple.fail (fun _ h => .inl h.1)) (fun _ r h => h.elim)
  · split
    · refine Triple.bind (Q1 := fun _ _ => True) ?_ (fun _ => ?_)
      · exact Triple.call' _ _ _ _ _ (fun _ _ _ _ => trivial)
          (fun r o _ _ => .inr (.inl rfl))
          (fun r o t h => .inl (Frame.frame r _ h.1 rfl rfl rfl rfl rfl))
          (fun r o t _ hf => .inr (.inr hf))
      · refine Triple.bind (Q1 := fun _ _ => True) ?_ (fun _ => rest)
        exact Triple.conseq (OH.attempt _) (fun _ _ => trivial) (fun _ _ h => h) (fun _ h => .inr (.inl h))
    · exact Triple.conseq rest (fun _ _ => trivial) (fun _ _ h => h) (fun _ h => h)

/-- `Phase2Commit`'s error handling keeps the state invariant, from a state that still satisfies `Staged` -/
theorem handler_keeps (pre : Pre s0 w fresh0) :
    Triple (Staged s0 w fresh0) (do
        let r ← get
        if !(keysOrEmpty r).isEmpty then
          priorityRollbackSelf
          unlockNodesKeys
        else
          let _ ← attempt (call .plogRemove .none (fun s => { s with plog := fun k => if k = r.tid then false else s.plog k }))
        rollback w true : M Unit) (fun _ => RInv s0 w fresh0) (RInv s0 w fresh0) := by
  have toR : ∀ r, Staged s0 w fresh0 r → RInv s0 w fresh0 r := fun _ h => h.rinv
  have prs : Triple (Staged s0 w fresh0) priorityRollbackSelf (fun _ => RInv s0 w fresh0) (RInv s0 w fresh0) := by
    unfold priorityRollbackSelf
    refine Triple.bind (Q1 := fun r0 r => P2 s0 w fresh0 r0.reserved r0.removedH r)
      (Triple.get (fun _ h => ⟨h, rfl, rfl⟩)) (fun r0 => ?_)
    split
    · refine Triple.bind (Q1 := fun _ => RInv s0 w fresh0) ?_ (fun _ => ?_)
      · refine Triple.attempt (Q := fun _ => RInv s0 w fresh0) ?_ (fun _ h => h)
        -- writing back images that are all `Known` keeps the state invariant, applied or not
        refine Triple.call _ _ _ _ _ (fun r o t hr => ?_) (fun r o t hl hr => hr.1.rinv) (fun r o t hr => ?_)
        · exact ⟨hr.1.rinv.1.setRegs_known _ (fun h hm => hr.1.known h (by rw [hr.2.1, hr.2.2]; exact hm)), hr.1.rinv.2⟩
        · exact ⟨hr.1.rinv.1.setRegs_known _ (fun h hm => hr.1.known h (by rw [hr.2.1, hr.2.2]; exact hm)), hr.1.rinv.2⟩
      · exact P.bind (P.attempt (P.callSame _ _ _ _ _ (fun s => ⟨rfl, rfl⟩))) (fun _ => P.pure _)
    · exact Triple.pure _ (fun _ h => h.1.rinv)
  refine Triple.bind (Q1 := fun _ => Staged s0 w fresh0) (Triple.get (fun _ h => h)) (fun r0 => ?_)
  simp only
  split
  · refine Triple.bind prs (fun _ => ?_)
    exact Triple.bind pres_unlockNodesKeys (fun _ => pres_rollback pre true)
  · refine Triple.bind (Q1 := fun _ => RInv s0 w fresh0) ?_ (fun _ => pres_rollback pre true)
    exact Triple.conseq (P.attempt (P.callSame _ _ _ _ _ (fun s => ⟨rfl, rfl⟩))) toR (fun _ _ h => h) (fun _ h => h)

/-- **A commit that fails in phase 2 leaves every node as it was** — for every fault except a `failAfter` on the
flip write itself (see the header). -/
theorem commit_phase2_failure_keeps_views (pre : Pre s0 w fresh0) (pre2 : Pre2 s0 w fresh0)
    (fault : Option Fault) {cs0 : Step} (tid : Tid) (n : Nat) (r1 r2 : Run)
    (hnf : ¬ ∃ f, fault = some f ∧ f.cls = .regUpdateNoLocks ∧ f.kind = .failAfter)
    (h1 : phase1 w n { s := s0, tid := tid, fault := fault, fresh := fresh0, cs := cs0 } = .ok ((), r1))
    (h2 : phase2 w r1 = .error r2) :
    ∀ lid, (s0.view lid).isSome →
      (commit w n { s := s0, tid := tid, fault := fault, fresh := fresh0, cs := cs0 }).2.s.view lid = s0.view lid := by
  have hj0 : J0 s0 w fresh0 { s := s0, tid := tid, fault := fault, fresh := fresh0, cs := cs0 } :=
    ⟨⟨SInv.init s0 w fresh0 pre, fun _ hp => hp⟩, rfl, rfl⟩
  have hst := staged_phase1 pre pre2 n _ hj0
  rw [h1] at hst
  have hf1 := h_phase1 (f0 := fault) w n { s := s0, tid := tid, fault := fault, fresh := fresh0, cs := cs0 } ⟨rfl, rfl, rfl⟩
  rw [h1] at hf1
  have hf2 := h_phase2 (f0 := fault) w r1 hf1
  rw [h2] at hf2
  have hr := phase2_raises (s0 := s0) (w := w) (fresh0 := fresh0) (resv := r1.reserved) (remv := r1.removedH) r1 ⟨hst.1, rfl, rfl⟩
  rw [h2] at hr
  have hs2 : Staged s0 w fresh0 r2 := by
    rcases hr with a | b | ⟨f, e, c⟩
    · exact a
    · rw [hf2.2.1] at b; cases b
    · exact absurd ⟨f, by rw [← hf2.2.2]; exact e, c⟩ hnf
  have hk := handler_keeps pre r2 hs2
  unfold commit
  simp only [h1, h2]
  split
  · rename_i r' e; rw [e] at hk; exact hk.1.stable
  · rename_i r' e; rw [e] at hk; exact hk.1.stable

end
end Sop.Commit
