import Sop.Model.CommitPre
import Sop.Lemmas.CommitNew
/-!
The executable premise checker is sound: when it reports no violation for a state whose registered logical ids are
all in `lids`, the premises `Pre`, `Pre2` and `Pre3` of the Model P theorems hold.
-/
namespace Sop.Commit

theorem newIds'_eq (w : WS) : w.newIds' = w.newIds := rfl

theorem mem_hs {lids : List UUID} {s : State} (hcl : ∀ i, i ∉ lids → s.reg i = none) {i : UUID} {h : Handle}
    (e : s.reg i = some h) : h ∈ lids.filterMap s.reg := by
  have hi : i ∈ lids := by
    by_cases hm : i ∈ lids
    · exact hm
    · rw [hcl i hm] at e; cases e
  exact List.mem_filterMap.mpr ⟨i, hi, e⟩

theorem chk_nil {name : String} {b : Bool} (h : (if b then ([] : List String) else [name]) = []) : b = true := by
  cases b
  · simp at h
  · rfl

theorem hypCheck_sound (lids : List UUID) (s : State) (w : WS) (fresh : List (UUID × UUID))
    (hcl : ∀ i, i ∉ lids → s.reg i = none) (hv : hypViolations lids s w fresh = []) :
    Pre s w fresh ∧ Pre2 s w fresh ∧ Pre3 w := by
  unfold hypViolations at hv
  simp only [List.append_eq_nil_iff, and_assoc] at hv
  obtain ⟨c1, c2, c3, c4, c5, c6, c7, c8, c9, c10, c11, c12, c13, c14, c15, c16, c17⟩ := hv
  have c1 := chk_nil c1; have c2 := chk_nil c2; have c3 := chk_nil c3; have c4 := chk_nil c4
  have c5 := chk_nil c5; have c6 := chk_nil c6; have c7 := chk_nil c7; have c8 := chk_nil c8
  have c9 := chk_nil c9; have c10 := chk_nil c10; have c11 := chk_nil c11; have c12 := chk_nil c12
  have c13 := chk_nil c13; have c14 := chk_nil c14; have c15 := chk_nil c15; have c16 := chk_nil c16
  have c17 := chk_nil c17
  simp only [List.all_eq_true, Bool.not_eq_true', List.contains_eq_mem, decide_eq_false_iff_not, bne_iff_ne, ne_eq,
    Bool.or_eq_true, beq_iff_eq, decide_eq_true_eq, Option.isNone_iff_eq_none, newIds'_eq] at c1 c2 c3 c4 c5 c6 c7 c8 c9 c10 c11 c12 c13 c14 c15 c16 c17
  have regwf : ∀ i h, s.reg i = some h → h.lid = i := by
    intro i h e
    have hi : i ∈ lids := by
      by_cases hm : i ∈ lids
      · exact hm
      · rw [hcl i hm] at e; cases e
    have := c1 i hi
    rw [e] at this
    simpa using this
  refine ⟨⟨regwf, c2, ?_, ?_, ?_, ?_, ?_, ?_⟩, ⟨c9, ?_, ?_, ?_, ?_, ?_, ?_⟩, ⟨of_decide_eq_true c16, c17⟩⟩
  · intro i h e; exact c3 h (mem_hs hcl e)
  · intro i h e p hp; exact c4 h (mem_hs hcl e) p hp
  · intro i j h h' e e' hne
    rcases c5 h (mem_hs hcl e) with z | z
    · exact absurd z hne
    · exact z h' (mem_hs hcl e')
  · intro i h e hne
    rcases c6 h (mem_hs hcl e) with z | z
    · exact absurd z hne
    · exact z
  · exact c7
  · intro i h e; exact c8 h (mem_hs hcl e)
  · exact c10
  · exact c11
  · exact c12
  · intro i j h h' e e' hne
    rcases c13 h (mem_hs hcl e) h' (mem_hs hcl e') with z | z
    · rw [regwf i h e, regwf j h' e'] at z; exact absurd z hne
    · exact z
  · intro i h e; exact c14 h (mem_hs hcl e)
  · exact c15

end Sop.Commit
