import Sop.Lemmas.CommitInert
/-!
"The one fault has been spent": a run carries at most one fault, aimed at the n-th call of one class. Once that
class has been called n times the fault can never fire again, and (with no observer stop point) every later call
takes effect. Needed where the error handling must SUCCEED at something: the priority rollback after a flip write
that failed after taking effect.
-/
namespace Sop.Commit

/-- how many calls of a class have been made -/
def lookupOcc (occs : List (Cls × Nat)) (cls : Cls) : Nat :=
  match occs.find? (·.1 == cls) with
  | some p => p.2
  | none => 0

theorem bumpOcc_snd (occs : List (Cls × Nat)) (cls : Cls) : (bumpOcc occs cls).2 = lookupOcc occs cls + 1 := by
  unfold bumpOcc lookupOcc
  cases h : occs.find? (·.1 == cls) with
  | none => rfl
  | some p => rfl

theorem lookup_bump (occs : List (Cls × Nat)) (cls c : Cls) :
    lookupOcc (bumpOcc occs cls).1 c = if c = cls then lookupOcc occs cls + 1 else lookupOcc occs c := by
  unfold bumpOcc
  cases h : occs.find? (·.1 == cls) with
  | none =>
    simp only
    unfold lookupOcc
    by_cases e : c = cls
    · subst e; simp [h]
    · have : (cls == c) = false := by simpa using fun x => e x.symm
      simp [List.find?_cons, this, e]
  | some p =>
    obtain ⟨pc, n⟩ := p
    simp only
    have hpc : pc = cls := by
      have := List.find?_some h
      simpa using this
    subst hpc
    unfold lookupOcc
    rw [List.find?_map]
    have hfun : ((fun (p : Cls × Nat) => p.1 == c) ∘ fun (p : Cls × Nat) => if (p.1 == pc) = true then (p.1, n + 1) else p) =
        fun (p : Cls × Nat) => p.1 == c := by
      funext p
      simp only [Function.comp]
      split <;> rfl
    rw [hfun]
    by_cases e : c = pc
    · subst e
      simp [h]
    · cases hc : occs.find? (·.1 == c) with
      | none => simp [e]
      | some q =>
        have hq : q.1 = c := by
          have := List.find?_some hc
          simpa using this
        have hne : ¬ q.1 = pc := by rw [hq]; exact e
        simp [hne, e]

/-- the run's fault (if any) is aimed at a call that has already been made -/
def Spent (r : Run) : Prop := ∀ f, r.fault = some f → f.occ ≤ lookupOcc r.occs f.cls

theorem faultHit_of_spent {r : Run} (hs : Spent r) (cls : Cls) : faultHit r.fault cls (bumpOcc r.occs cls).2 = none := by
  unfold faultHit
  cases hf : r.fault with
  | none => rfl
  | some f =>
    simp only
    split
    · rename_i hc
      simp only [Bool.and_eq_true, beq_iff_eq] at hc
      have := hs f hf
      rw [bumpOcc_snd, ← hc.1] at hc
      omega
    · rfl

/-- with the fault spent and no observer, a call whose backend has no error of its own takes effect -/
theorem call_of_spent {r : Run} (hs : Spent r) (hst : r.stopAt = none) (cls : Cls) (args : Args) (eff : State → State)
    (res : Args) (nat : State → Bool) (hn : nat r.s = false) :
    ∃ occs tr, call cls args eff res nat r = .ok ((), { r with occs := occs, trace := tr, s := eff r.s }) ∧
      Spent { r with occs := occs, trace := tr, s := eff r.s } := by
  refine ⟨(bumpOcc r.occs cls).1, { cls := cls, args := args, res := res, err := false } :: r.trace, ?_, ?_⟩
  · unfold call
    simp only [hst, faultHit_of_spent hs cls, hn]
    rfl
  · intro f hf
    have := hs f hf
    show f.occ ≤ lookupOcc (bumpOcc r.occs cls).1 f.cls
    rw [lookup_bump]
    split
    · rename_i h; rw [h] at this; omega
    · omega

/-- the call rule that tells a `failAfter` exit that the fault is now spent -/
theorem Triple.callSpent {P : Run → Prop} {Q : Unit → Run → Prop} {E : Run → Prop}
    (cls : Cls) (args : Args) (eff : State → State) (res : Args) (nat : State → Bool)
    (hok : ∀ r occs tr, P r → Q () { r with occs := occs, trace := tr, s := eff r.s })
    (hstop : ∀ r occs, P r → r.stopAt.isSome → E { r with occs := occs, halted := true })
    (hbefore : ∀ r occs tr, P r → E { r with occs := occs, trace := tr })
    (hafter : ∀ r occs tr, P r → (∃ f, r.fault = some f ∧ f.cls = cls ∧ f.kind = .failAfter) →
      Spent { r with occs := occs, trace := tr, s := eff r.s } → E { r with occs := occs, trace := tr, s := eff r.s }) :
    Triple P (Sop.Commit.call cls args eff res nat) Q E := by
  intro r hr
  unfold Sop.Commit.call
  simp only
  by_cases hs : (r.stopAt == some (cls, (bumpOcc r.occs cls).2)) = true
  · simp only [hs, ↓reduceIte]
    refine hstop r _ hr ?_
    cases h : r.stopAt with
    | none => rw [h] at hs; simp at hs
    | some _ => rfl
  · simp only [hs]
    cases hf : faultHit r.fault cls (bumpOcc r.occs cls).2 with
    | none =>
      by_cases hn : nat r.s = true
      · simp only [hn, ↓reduceIte]
        exact hbefore r _ _ hr
      · simp only [hn]
        exact hok r _ _ hr
    | some k =>
      cases k with
      | failBefore => exact hbefore r _ _ hr
      | failAfter =>
        have key : ∃ f, r.fault = some f ∧ f.cls = cls ∧ f.kind = .failAfter ∧ f.occ = (bumpOcc r.occs cls).2 := by
          unfold faultHit at hf
          cases hfa : r.fault with
          | none => rw [hfa] at hf; simp at hf
          | some f =>
            rw [hfa] at hf
            simp only at hf
            split at hf
            · rename_i hc
              simp only [Bool.and_eq_true, beq_iff_eq] at hc
              exact ⟨f, rfl, hc.1, Option.some.inj hf, hc.2⟩
            · cases hf
        obtain ⟨f, hfa, h1, h2, h3⟩ := key
        refine hafter r _ _ hr ⟨f, hfa, h1, h2⟩ ?_
        intro g hg
        have : g = f := by
          have : r.fault = some g := hg
          rw [hfa] at this; exact (Option.some.inj this).symm
        subst this
        show g.occ ≤ lookupOcc (bumpOcc r.occs cls).1 g.cls
        rw [lookup_bump, h1, if_pos rfl, h3, bumpOcc_snd]
        omega

end Sop.Commit
