import Sop.Lemmas.CommitFrame
/-!
What a SUCCESSFUL phase 1 leaves behind (`Staged`): every handle in the transaction's `reserved` list is the image
now in the registry, its new blob is stored under the reserved (inactive) id, and the lists are tied to the write
set. This is the precondition of the phase-2 flip.
-/
namespace Sop.Commit
set_option linter.unusedSectionVars false

/-- assumptions of the success direction, on top of `Pre`: a well-formed write set (a node is updated at most
once, not both updated and removed, existing nodes are not "new") and distinct physical ids -/
structure Pre2 (s0 : State) (w : WS) (fresh0 : List (UUID × UUID)) : Prop where
  updNodup : (w.updated.map (·.1)).Nodup
  updRem : ∀ i ∈ w.updated.map (·.1), i ∉ w.removed.map (·.1)
  updOld : ∀ i ∈ w.updated.map (·.1), i ∉ w.newIds
  remOld : ∀ i ∈ w.removed.map (·.1), i ∉ w.newIds
  actInj : ∀ i j h h', s0.reg i = some h → s0.reg j = some h' → i ≠ j → h.active ≠ h'.active
  actObs : ∀ i h, s0.reg i = some h → h.active ∉ w.obsoleteValues
  freshObs : ∀ p ∈ fresh0, p.2 ∉ w.obsoleteValues

/-- the handle's active id is the one its node had at the start -/
def OldAct (s0 : State) (h : Handle) : Prop := ∃ h0, s0.reg h.lid = some h0 ∧ h.active = h0.active

structure Staged (s0 : State) (w : WS) (fresh0 : List (UUID × UUID)) (r : Run) : Prop where
  rinv : RInv s0 w fresh0 r
  res : ∀ h ∈ r.reserved, r.s.reg h.lid = some h ∧ r.s.blob h.inactive = true
  resAct : ∀ h ∈ r.reserved, OldAct s0 h
  resFresh : ∀ h ∈ r.reserved, h.inactive = 0 ∨ ∃ p ∈ fresh0, p.2 = h.inactive
  resSub : (r.reserved.map (·.lid)).Sublist (w.updated.map (·.1))
  remAct : ∀ g ∈ r.removedH, OldAct s0 g
  remSub : ∀ g ∈ r.removedH, g.lid ∈ w.removed.map (·.1)
  /-- the images in both lists are `Known`: writing them back (priority rollback) keeps the state invariant -/
  known : ∀ h ∈ r.reserved ++ r.removedH, Known s0 w fresh0 h

/-- before `commitUpdatedNodes`: nothing reserved, nothing marked -/
def J0 (s0 : State) (w : WS) (fresh0 : List (UUID × UUID)) (r : Run) : Prop :=
  RInv s0 w fresh0 r ∧ r.reserved = [] ∧ r.removedH = []

/-- every updated node of the write set has been reserved, at the version the transaction read -/
def Covered (w : WS) (r : Run) : Prop := r.reserved.map (fun h => (h.lid, h.version)) = w.updated

/-- `Staged` and `Covered`: the invariant from a successful `commitUpdatedNodes` to the flip -/
def SCov (s0 : State) (w : WS) (fresh0 : List (UUID × UUID)) (r : Run) : Prop := Staged s0 w fresh0 r ∧ Covered w r

section
variable {s0 : State} {w : WS} {fresh0 : List (UUID × UUID)}

theorem RInv.frame {r r' : Run} (h : RInv s0 w fresh0 r) (hr : r'.s.reg = r.s.reg) (hb : r'.s.blob = r.s.blob)
    (hf : r'.fresh = r.fresh) : RInv s0 w fresh0 r' :=
  ⟨h.1.of_same hr hb, by rw [hf]; exact h.2⟩

instance : Frame (J0 s0 w fresh0) where
  frame r r' h hr hb hf h1 h2 := ⟨h.1.frame hr hb hf, by rw [h1]; exact h.2.1, by rw [h2]; exact h.2.2⟩

instance : Frame (Staged s0 w fresh0) where
  frame r r' h hr hb hf h1 h2 := by
    refine ⟨h.rinv.frame hr hb hf, ?_, ?_, ?_, ?_, ?_, ?_, ?_⟩
    · intro x hx; rw [h1] at hx; rw [hr, hb]; exact h.res x hx
    · intro x hx; rw [h1] at hx; exact h.resAct x hx
    · intro x hx; rw [h1] at hx; exact h.resFresh x hx
    · rw [h1]; exact h.resSub
    · intro x hx; rw [h2] at hx; exact h.remAct x hx
    · intro x hx; rw [h2] at hx; exact h.remSub x hx
    · intro x hx; rw [h1, h2] at hx; exact h.known x hx

instance : Frame (Covered w) where
  frame r r' h _ _ _ h1 _ := by unfold Covered at *; rw [h1]; exact h

instance : Frame (SCov s0 w fresh0) where
  frame r r' h hr hb hf h1 h2 := ⟨Frame.frame r r' h.1 hr hb hf h1 h2, Frame.frame r r' h.2 hr hb hf h1 h2⟩

theorem staged_of_j0 {r : Run} (h : J0 s0 w fresh0 r) : Staged s0 w fresh0 r := by
  obtain ⟨a, b, c⟩ := h
  refine ⟨a, ?_, ?_, ?_, ?_, ?_, ?_, ?_⟩
  · intro x hx; rw [b] at hx; cases hx
  · intro x hx; rw [b] at hx; cases hx
  · intro x hx; rw [b] at hx; cases hx
  · rw [b]; exact List.nil_sublist _
  · intro x hx; rw [c] at hx; cases hx
  · intro x hx; rw [c] at hx; cases hx
  · intro x hx; rw [b, c] at hx; cases hx

/-! ### list facts -/

theorem eq_of_nodup_map {α β : Type} (f : α → β) : ∀ {l : List α} {a b : α}, (l.map f).Nodup → a ∈ l → b ∈ l → f a = f b → a = b := by
  intro l
  induction l with
  | nil => intro a b _ ha; cases ha
  | cons x t ih =>
    intro a b hn ha hb e
    rw [List.map_cons, List.nodup_cons] at hn
    rcases List.mem_cons.mp ha with rfl | ha'
    · rcases List.mem_cons.mp hb with rfl | hb'
      · rfl
      · exact absurd (e ▸ List.mem_map_of_mem (f := f) hb') hn.1
    · rcases List.mem_cons.mp hb with rfl | hb'
      · exact absurd (e ▸ List.mem_map_of_mem (f := f) ha') hn.1
      · exact ih hn.2 ha' hb' e

/-- after a batch write with distinct logical ids every written image is the one in the registry -/
theorem State.setRegs_reg_nodup (s : State) (hs : List Handle) (hn : (hs.map (·.lid)).Nodup) {h : Handle} (hm : h ∈ hs) :
    (s.setRegs hs).reg h.lid = some h := by
  obtain ⟨x, hx, e1, e2⟩ := State.setRegs_reg_mem s hs h.lid ⟨h, hm, rfl⟩
  have : x = h := eq_of_nodup_map (·.lid) hn hx hm e1
  rw [e2, this]

/-- the handles paired with the updated nodes keep the nodes' order: their logical ids are a sublist of the write set's -/
theorem pairs_lids_sublist (u : List (UUID × Int)) (hs : List Handle) :
    ((u.filterMap (fun (x : UUID × Int) => (hs.find? (·.lid == x.1)).map (fun h => (h, x.2)))).map (·.1.lid)).Sublist
      (u.map (·.1)) := by
  induction u with
  | nil => exact List.Sublist.slnil
  | cons x t ih =>
    rw [List.filterMap_cons]
    cases hf : hs.find? (·.lid == x.1) with
    | none => simp only [Option.map_none, List.map_cons]; exact List.Sublist.cons _ ih
    | some h =>
      simp only [Option.map_some, List.map_cons]
      have : h.lid = x.1 := by
        have := List.find?_some hf
        simpa using this
      rw [this]
      exact List.Sublist.cons₂ _ ih

theorem reserveAll_shape {now hour : Int} :
    ∀ (pairs : List (Handle × Int)) (fr fr' : List (UUID × UUID)) (res : List Handle),
      reserveAll now hour fr pairs = some (res, fr') →
      res.map (·.lid) = pairs.map (·.1.lid) ∧
      ∀ h' ∈ res, (h'.inactive = 0 ∨ ∃ q ∈ fr, q.2 = h'.inactive) ∧ ∃ p ∈ pairs, h'.lid = p.1.lid ∧ h'.active = p.1.active := by
  intro pairs
  induction pairs with
  | nil =>
    intro fr fr' res e
    simp only [reserveAll, Option.some.injEq, Prod.mk.injEq] at e
    obtain ⟨rfl, rfl⟩ := e
    exact ⟨rfl, fun _ hm => by cases hm⟩
  | cons p t ih =>
    intro fr fr' res e
    obtain ⟨h, v⟩ := p
    unfold reserveAll at e
    simp only at e
    obtain ⟨tf1, tf2⟩ := takeFresh_spec fr h.lid
    split at e
    · simp at e
    · rename_i h1 e1
      split at e
      · simp at e
      · rename_i hs fr2 e2
        simp only [Option.some.injEq, Prod.mk.injEq] at e
        obtain ⟨rfl, rfl⟩ := e
        obtain ⟨r1, r2, _, r4, _⟩ := reserveOne_spec now hour _ h h1 v e1
        obtain ⟨ih1, ih2⟩ := ih _ _ _ e2
        refine ⟨by simp only [List.map_cons, ih1, r1], ?_⟩
        intro h' hm
        rcases List.mem_cons.mp hm with rfl | hm'
        · refine ⟨?_, (h, v), List.mem_cons_self .., r1, r2⟩
          rw [r4]
          exact tf1
        · obtain ⟨a, p, hp, b⟩ := ih2 h' hm'
          refine ⟨?_, p, List.mem_cons_of_mem _ hp, b⟩
          rcases a with z | ⟨q, hq, eq⟩
          · exact .inl z
          · exact .inr ⟨q, tf2 q hq, eq⟩

theorem reserveAll_lidver {now hour : Int} :
    ∀ (pairs : List (Handle × Int)) (fr fr' : List (UUID × UUID)) (res : List Handle),
      reserveAll now hour fr pairs = some (res, fr') →
      res.map (fun h => (h.lid, h.version)) = pairs.map (fun p => (p.1.lid, p.2)) := by
  intro pairs
  induction pairs with
  | nil =>
    intro fr fr' res e
    simp only [reserveAll, Option.some.injEq, Prod.mk.injEq] at e
    obtain ⟨rfl, rfl⟩ := e
    rfl
  | cons p t ih =>
    intro fr fr' res e
    obtain ⟨h, v⟩ := p
    unfold reserveAll at e
    simp only at e
    split at e
    · simp at e
    · rename_i h1 e1
      split at e
      · simp at e
      · rename_i hs fr2 e2
        simp only [Option.some.injEq, Prod.mk.injEq] at e
        obtain ⟨rfl, rfl⟩ := e
        obtain ⟨r1, _, r3, _, r5, _⟩ := reserveOne_spec now hour _ h h1 v e1
        simp only [List.map_cons, ih _ _ _ e2, r1, r3, r5]

/-- when every updated node has a handle among those read, the pairs cover the write set in order -/
theorem pairs_cover (u : List (UUID × Int)) (hs : List Handle) (hall : ∀ x ∈ u, ∃ h ∈ hs, h.lid = x.1) :
    (u.filterMap (fun (x : UUID × Int) => (hs.find? (·.lid == x.1)).map (fun h => (h, x.2)))).map (fun p => (p.1.lid, p.2)) = u := by
  induction u with
  | nil => rfl
  | cons x t ih =>
    rw [List.filterMap_cons]
    cases hf : hs.find? (·.lid == x.1) with
    | none =>
      obtain ⟨h, hm, e⟩ := hall x (List.mem_cons_self ..)
      have := List.find?_eq_none.mp hf h hm
      simp [e] at this
    | some h =>
      simp only [Option.map_some, List.map_cons]
      have : h.lid = x.1 := by
        have := List.find?_some hf
        simpa using this
      rw [this, ih (fun y hy => hall y (List.mem_cons_of_mem _ hy))]

theorem filterMap_length_all {α β : Type} (f : α → Option β) : ∀ (l : List α), (l.filterMap f).length = l.length →
    ∀ a ∈ l, ∃ b, f a = some b := by
  intro l
  induction l with
  | nil => intro _ a ha; cases ha
  | cons x t ih =>
    intro hl a ha
    rw [List.filterMap_cons] at hl
    cases hx : f x with
    | none =>
      rw [hx] at hl
      have := List.length_filterMap_le f t
      simp only [List.length_cons] at hl
      omega
    | some b =>
      rw [hx] at hl
      simp only [List.length_cons, Nat.add_right_cancel_iff] at hl
      rcases List.mem_cons.mp ha with rfl | ha'
      · exact ⟨b, hx⟩
      · exact ih hl a ha'

/-- a handle that is `Known`, at a logical id that is not one of the transaction's new nodes, has the start state's active id -/
theorem oldAct_of_known {h : Handle} (pre : Pre s0 w fresh0) (hk : Known s0 w fresh0 h) (hn : h.lid ∉ w.newIds) : OldAct s0 h := by
  rcases hk.1 with ⟨a, _⟩ | ⟨h0, e0, e1⟩
  · exact absurd a hn
  · exact ⟨h0, e0, e1⟩

/-! ### `regGet` with what it returns -/

theorem regGet_known {I : Run → Prop} [Frame I] (hI : ∀ r, I r → RInv s0 w fresh0 r) (ids : List UUID) :
    Triple I (regGet ids) (fun hs r => I r ∧ ((∀ h ∈ hs, Known s0 w fresh0 h) ∧ (∀ h ∈ hs, h.lid ∈ ids) ∧
      (hs.length = ids.length → ∀ i ∈ ids, ∃ h ∈ hs, h.lid = i))) I := by
  unfold regGet
  refine Triple.bind (Q1 := fun s r => I r ∧ ((∀ h ∈ ids.filterMap s.reg, Known s0 w fresh0 h) ∧ (∀ h ∈ ids.filterMap s.reg, h.lid ∈ ids) ∧
      ((ids.filterMap s.reg).length = ids.length → ∀ i ∈ ids, ∃ h ∈ ids.filterMap s.reg, h.lid = i)))
    (Triple.getS (fun r h => ⟨h, (hI r h).1.known_of_filterMap ids, ?_, ?_⟩)) (fun s => ?_)
  · intro x hx
    obtain ⟨i, hi, e⟩ := List.mem_filterMap.mp hx
    rw [(hI r h).1.regwf i x e]; exact hi
  · intro hl i hi
    obtain ⟨b, hb⟩ := filterMap_length_all r.s.reg ids hl i hi
    exact ⟨b, List.mem_filterMap.mpr ⟨i, hi, hb⟩, (hI r h).1.regwf i b hb⟩
  refine Triple.bind (Q1 := fun _ r => I r ∧ ((∀ h ∈ ids.filterMap s.reg, Known s0 w fresh0 h) ∧ (∀ h ∈ ids.filterMap s.reg, h.lid ∈ ids) ∧
      ((ids.filterMap s.reg).length = ids.length → ∀ i ∈ ids, ∃ h ∈ ids.filterMap s.reg, h.lid = i))) ?_ (fun _ => ?_)
  · exact Triple.call _ _ _ _ _ (fun r _ _ hr => ⟨Frame.frame r _ hr.1 rfl rfl rfl rfl rfl, hr.2⟩)
      (fun r _ _ _ hr => Frame.frame r _ hr.1 rfl rfl rfl rfl rfl) (fun r _ _ hr => Frame.frame r _ hr.1 rfl rfl rfl rfl rfl)
  · exact Triple.pure _ (fun _ h => h)

/-! ### the prefix of phase 1 keeps `J0` -/

theorem j0_eff {r : Run} {s' : State} (occs : List (Cls × Nat)) (tr : List Ev) (h : J0 s0 w fresh0 r)
    (hs : SInv s0 w fresh0 s') : J0 s0 w fresh0 { r with occs := occs, trace := tr, s := s' } :=
  ⟨⟨hs, h.1.2⟩, h.2⟩

theorem j0_addValues : Preserves (J0 s0 w fresh0) (addValues w) := by
  unfold addValues
  refine G.bind (G.forIn _ _ (fun st => ?_)) (fun _ => G.pure _)
  refine G.bind (G.whenM _ (G.callEff _ _ _ _ _ (fun r o t hr => j0_eff o t hr (hr.1.1.addBlobs _)))) (fun _ => G.pure _)

theorem j0_commitNewRoots (pre : Pre s0 w fresh0) : Preserves (J0 s0 w fresh0) (commitNewRoots w) := by
  unfold commitNewRoots
  simp only
  split
  · exact G.pure _
  · refine G.bind (gen_regGet _) (fun hs => ?_)
    split
    · exact G.pure _
    · refine G.bind (G.callEff _ _ _ _ _ (fun r o t hr => j0_eff o t hr (hr.1.1.addBlobs _))) (fun _ => ?_)
      refine G.bind (G.callEff _ _ _ _ _ (fun r o t hr => j0_eff o t hr (hr.1.1.setRegs_known _ ?_))) (fun _ => G.pure _)
      intro h hm
      obtain ⟨i, hi, rfl⟩ := List.mem_map.mp hm
      exact known_new pre _ (rootIds_new hi) rfl rfl

/-! ### `commitUpdatedNodes` establishes `Staged` -/

theorem staged_commitUpdated (pre : Pre s0 w fresh0) (pre2 : Pre2 s0 w fresh0) :
    Triple (J0 s0 w fresh0) (commitUpdated w) (fun ok r => Staged s0 w fresh0 r ∧ (ok = true → Covered w r)) (fun _ => True) := by
  unfold commitUpdated
  simp only
  split
  · rename_i hemp
    refine Triple.pure _ (fun r h => ⟨staged_of_j0 h, fun _ => ?_⟩)
    unfold Covered
    rw [h.2.1, List.isEmpty_iff.mp hemp]; rfl
  · refine Triple.bind (regGet_known (fun _ h => h.1) _).dropE (fun hs r hr => ?_)
    obtain ⟨hJ, hk, hlid, hall⟩ := hr
    revert r
    show Triple (J0 s0 w fresh0) _ _ _
    split
    · exact Triple.pure _ (fun _ h => ⟨staged_of_j0 h, fun e => by cases e⟩)
    · rename_i hlen
      refine Triple.bind (Q1 := fun r0 r => J0 s0 w fresh0 r ∧ ∀ q ∈ r0.fresh, q ∈ fresh0) (Triple.get (fun r h => ⟨h, h.1.2⟩)) (fun r0 r hr => ?_)
      obtain ⟨hJ, hfr⟩ := hr
      revert r
      show Triple (J0 s0 w fresh0) _ _ _
      split
      · exact Triple.pure _ (fun _ h => ⟨staged_of_j0 h, fun e => by cases e⟩)
      · rename_i res fr' e
        have hcov : res.map (fun h => (h.lid, h.version)) = w.updated := by
          rw [reserveAll_lidver _ _ _ _ e]
          apply pairs_cover
          intro x hx
          have hl : hs.length = (w.updated.map (·.1)).length := by
            rw [List.length_map]
            simpa using hlen
          exact hall hl x.1 (List.mem_map_of_mem (f := (·.1)) hx)
        obtain ⟨k1, k2⟩ := reserveAll_known _ _ _ _ e hfr (pairs_known _ hs hk)
        obtain ⟨sh1, sh2⟩ := reserveAll_shape _ _ _ _ e
        have hsub : (res.map (·.lid)).Sublist (w.updated.map (·.1)) := by rw [sh1]; exact pairs_lids_sublist _ hs
        have hnd : (res.map (·.lid)).Nodup := hsub.nodup pre2.updNodup
        refine Triple.bind (Q1 := fun _ => J0 s0 w fresh0) (Triple.modify _ (fun r hr => ⟨⟨hr.1.1, k2⟩, hr.2⟩)) (fun _ => ?_)
        refine Triple.bind (Q1 := fun _ r => J0 s0 w fresh0 r ∧ ∀ h ∈ res, r.s.reg h.lid = some h) ?_ (fun _ => ?_)
        · exact Triple.call _ _ _ _ _
            (fun r o t hr => ⟨j0_eff o t hr (hr.1.1.setRegs_known _ k1), fun h hm => State.setRegs_reg_nodup _ _ hnd hm⟩)
            (fun _ _ _ _ _ => trivial) (fun _ _ _ _ => trivial)
        refine Triple.bind (Q1 := fun _ r => J0 s0 w fresh0 r ∧ ∀ h ∈ res, r.s.reg h.lid = some h ∧ r.s.blob h.inactive = true) ?_ (fun _ => ?_)
        · refine Triple.call _ _ _ _ _ (fun r o t hr => ⟨j0_eff o t hr.1 (hr.1.1.1.addBlobs _), fun h hm => ⟨?_, ?_⟩⟩)
            (fun _ _ _ _ _ => trivial) (fun _ _ _ _ => trivial)
          · show (r.s.addBlobs _).reg h.lid = some h
            rw [State.addBlobs_reg]; exact hr.2 h hm
          · show (r.s.addBlobs _).blob h.inactive = true
            rw [State.addBlobs_blob]
            simp only [Bool.or_eq_true, decide_eq_true_eq]
            exact .inr (List.mem_map_of_mem (f := (·.inactive)) hm)
        refine Triple.bind (Q1 := fun _ r => Staged s0 w fresh0 r ∧ Covered w r) (Triple.modify _ (fun r hr => ⟨?_, hcov⟩))
          (fun _ => Triple.pure _ (fun _ h => ⟨h.1, fun _ => h.2⟩))
        obtain ⟨⟨hri, _, hrm⟩, hfacts⟩ := hr
        refine ⟨hri, hfacts, ?_, ?_, hsub, ?_, ?_, ?_⟩
        rotate_right
        · intro h hm
          rw [show ({ r with reserved := res } : Run).removedH = r.removedH from rfl, hrm, List.append_nil] at hm
          exact k1 h hm
        · intro h hm
          obtain ⟨_, p, hp, e1, e2⟩ := sh2 h hm
          have kp : Known s0 w fresh0 p.1 := pairs_known _ hs hk p hp
          have hin : h.lid ∈ w.updated.map (·.1) := hsub.subset (List.mem_map_of_mem (f := (·.lid)) hm)
          obtain ⟨h0, a, b⟩ := oldAct_of_known pre kp (e1 ▸ pre2.updOld _ hin)
          exact ⟨h0, e1 ▸ a, e2 ▸ b⟩
        · intro h hm
          rcases (sh2 h hm).1 with z | ⟨q, hq, eq⟩
          · exact .inl z
          · exact .inr ⟨q, hfr q hq, eq⟩
        · intro g hg; rw [show ({ r with reserved := res } : Run).removedH = r.removedH from rfl, hrm] at hg; cases hg
        · intro g hg; rw [show ({ r with reserved := res } : Run).removedH = r.removedH from rfl, hrm] at hg; cases hg

/-! ### the rest of phase 1 keeps `Staged` -/

/-- writing `Known` images at logical ids none of which is reserved keeps `Staged` -/
theorem Staged.setRegs_other {r : Run} (h : Staged s0 w fresh0 r) (occs : List (Cls × Nat)) (tr : List Ev) (hs : List Handle)
    (hk : ∀ x ∈ hs, Known s0 w fresh0 x) (hd : ∀ x ∈ hs, ∀ g ∈ r.reserved, x.lid ≠ g.lid) :
    Staged s0 w fresh0 { r with occs := occs, trace := tr, s := r.s.setRegs hs } := by
  refine ⟨⟨h.rinv.1.setRegs_known _ hk, h.rinv.2⟩, ?_, h.resAct, h.resFresh, h.resSub, h.remAct, h.remSub, h.known⟩
  intro g hg
  show (r.s.setRegs hs).reg g.lid = some g ∧ (r.s.setRegs hs).blob g.inactive = true
  rw [State.setRegs_blob, State.setRegs_reg_of_not_mem r.s hs g.lid (fun x hx => hd x hx g hg)]
  exact h.res g hg

theorem Staged.addBlobs {r : Run} (h : Staged s0 w fresh0 r) (occs : List (Cls × Nat)) (tr : List Ev) (ids : List UUID) :
    Staged s0 w fresh0 { r with occs := occs, trace := tr, s := r.s.addBlobs ids } := by
  refine ⟨⟨h.rinv.1.addBlobs _, h.rinv.2⟩, ?_, h.resAct, h.resFresh, h.resSub, h.remAct, h.remSub, h.known⟩
  intro g hg
  show (r.s.addBlobs ids).reg g.lid = some g ∧ (r.s.addBlobs ids).blob g.inactive = true
  rw [State.addBlobs_reg, State.addBlobs_blob, (h.res g hg).2]
  exact ⟨(h.res g hg).1, rfl⟩

theorem Staged.resLid {r : Run} (h : Staged s0 w fresh0 r) {g : Handle} (hg : g ∈ r.reserved) : g.lid ∈ w.updated.map (·.1) :=
  h.resSub.subset (List.mem_map_of_mem (f := (·.lid)) hg)

theorem staged_commitRemoved (pre : Pre s0 w fresh0) (pre2 : Pre2 s0 w fresh0) :
    Triple (Staged s0 w fresh0) (commitRemoved w) (fun _ => Staged s0 w fresh0) (fun _ => True) := by
  unfold commitRemoved
  simp only
  split
  · exact Triple.pure _ (fun _ h => h)
  · refine Triple.bind (regGet_known (fun _ h => h.rinv) _).dropE (fun hs r hr => ?_)
    obtain ⟨hJ, hk, hlid, hall⟩ := hr
    revert r
    show Triple (Staged s0 w fresh0) _ _ _
    refine Triple.bind (Q1 := fun _ => Staged s0 w fresh0) (Triple.get (fun _ h => h)) (fun r0 => ?_)
    split
    · exact Triple.pure _ (fun _ h => h)
    · have hmk : ∀ x ∈ hs.map (fun h => { h with deleted := true, wip := r0.s.now }), Known s0 w fresh0 x := by
        intro x hx
        obtain ⟨g, hg, rfl⟩ := List.mem_map.mp hx
        exact known_congr (hk g hg) rfl rfl rfl (hk g hg).2.1
      refine Triple.bind (Q1 := fun _ => Staged s0 w fresh0) ?_ (fun _ => ?_)
      · refine Triple.call _ _ _ _ _ (fun r o t hr => hr.setRegs_other o t _ hmk ?_) (fun _ _ _ _ _ => trivial) (fun _ _ _ _ => trivial)
        intro x hx g hg e
        obtain ⟨y, hy, rfl⟩ := List.mem_map.mp hx
        exact pre2.updRem _ (hr.resLid hg) (e ▸ hlid y hy)
      refine Triple.bind (Q1 := fun _ => Staged s0 w fresh0) (Triple.modify _ (fun r hr => ?_)) (fun _ => Triple.pure _ (fun _ h => h))
      refine ⟨hr.rinv, hr.res, hr.resAct, hr.resFresh, hr.resSub, ?_, ?_, ?_⟩
      rotate_right
      · intro x hx
        rcases List.mem_append.mp hx with hx | hx
        · exact hr.known x (List.mem_append_left _ hx)
        · exact hmk x hx
      · intro x hx
        obtain ⟨g, hg, rfl⟩ := List.mem_map.mp hx
        exact oldAct_of_known pre (hmk _ hx) (pre2.remOld _ (hlid g hg))
      · intro x hx
        obtain ⟨g, hg, rfl⟩ := List.mem_map.mp hx
        exact hlid g hg

theorem staged_commitAdded (pre : Pre s0 w fresh0) (pre2 : Pre2 s0 w fresh0) : Preserves (Staged s0 w fresh0) (commitAdded w) := by
  unfold commitAdded
  simp only
  split
  · exact G.pure _
  · refine G.bind (G.callEff _ _ _ _ _ (fun r o t hr => hr.setRegs_other o t _ ?_ ?_)) (fun _ => ?_)
    · intro h hm
      obtain ⟨i, hi, rfl⟩ := List.mem_map.mp hm
      exact known_new pre _ (addedIds_new hi) rfl rfl
    · intro x hx g hg e
      obtain ⟨i, hi, rfl⟩ := List.mem_map.mp hx
      exact pre2.updOld _ (hr.resLid hg) (e ▸ addedIds_new hi)
    · exact G.callEff _ _ _ _ _ (fun r o t hr => hr.addBlobs o t _)

/-- the effectful steps after `commitUpdatedNodes` do not touch the `reserved` list -/
theorem cov_commitRemoved : Triple (Covered w) (commitRemoved w) (fun _ => Covered w) (fun _ => True) := by
  unfold commitRemoved
  simp only
  split
  · exact Triple.pure _ (fun _ h => h)
  · refine Triple.bind (gen_regGet _).dropE (fun hs => ?_)
    refine Triple.bind (Q1 := fun _ => Covered w) (Triple.get (fun _ h => h)) (fun r0 => ?_)
    split
    · exact Triple.pure _ (fun _ h => h)
    · refine Triple.bind (Q1 := fun _ => Covered w) ?_ (fun _ => ?_)
      · exact Triple.call _ _ _ _ _ (fun _ _ _ h => h) (fun _ _ _ _ _ => trivial) (fun _ _ _ _ => trivial)
      · exact Triple.bind (Q1 := fun _ => Covered w) (Triple.modify _ (fun _ h => h)) (fun _ => Triple.pure _ (fun _ h => h))

theorem cov_commitAdded : Preserves (Covered w) (commitAdded w) := by
  unfold commitAdded
  simp only
  split
  · exact G.pure _
  · exact G.bind (G.callEff _ _ _ _ _ (fun _ _ _ h => h)) (fun _ => G.callEff _ _ _ _ _ (fun _ _ _ h => h))

theorem staged_phase1Body (pre : Pre s0 w fresh0) (pre2 : Pre2 s0 w fresh0) :
    Triple (J0 s0 w fresh0) (phase1Body w) (fun ok r => Staged s0 w fresh0 r ∧ (ok = true → Covered w r)) (fun _ => True) := by
  unfold phase1Body
  refine Triple.bind (gen_logStep _).dropE (fun _ => ?_)
  refine Triple.bind j0_addValues.dropE (fun _ => ?_)
  refine Triple.bind (gen_logStep _).dropE (fun _ => ?_)
  refine Triple.bind (j0_commitNewRoots pre).dropE (fun ok => ?_)
  split
  · exact Triple.pure _ (fun _ h => ⟨staged_of_j0 h, fun e => by cases e⟩)
  refine Triple.bind (gen_logStep _).dropE (fun _ => ?_)
  refine Triple.bind (gen_fetchedIntact w).dropE (fun ok => ?_)
  split
  · exact Triple.pure _ (fun _ h => ⟨staged_of_j0 h, fun e => by cases e⟩)
  refine Triple.bind (staged_commitUpdated pre pre2) (fun ok => ?_)
  cases ok with
  | false =>
    refine Triple.bind (Q1 := fun _ => Staged s0 w fresh0) (Triple.conseq (gen_logStep _).dropE (fun _ h => h.1) (fun _ _ h => h) (fun _ h => h)) (fun _ => ?_)
    simp only [Bool.not_false, ↓reduceIte]
    exact Triple.pure _ (fun _ h => ⟨h, fun e => by cases e⟩)
  | true =>
    refine Triple.bind (Q1 := fun _ => SCov s0 w fresh0) (Triple.conseq (gen_logStep _).dropE (fun _ h => ⟨h.1, h.2 rfl⟩) (fun _ _ h => h) (fun _ h => h)) (fun _ => ?_)
    simp only [Bool.not_true, Bool.false_eq_true, ↓reduceIte]
    refine Triple.bind (gen_logStep _).dropE (fun _ => ?_)
    refine Triple.bind (Q1 := fun _ => SCov s0 w fresh0)
      (Triple.conseq (Triple.and (staged_commitRemoved pre pre2) cov_commitRemoved) (fun _ h => h) (fun _ _ h => h) (fun _ _ => trivial)) (fun ok => ?_)
    split
    · exact Triple.pure _ (fun _ h => ⟨h.1, fun e => by cases e⟩)
    refine Triple.bind (gen_logStep _).dropE (fun _ => ?_)
    refine Triple.bind (Q1 := fun _ => SCov s0 w fresh0)
      (Triple.conseq (Triple.and (staged_commitAdded pre pre2) cov_commitAdded) (fun _ h => h) (fun _ _ h => h) (fun _ _ => trivial)) (fun _ => ?_)
    exact Triple.pure _ (fun _ h => ⟨h.1, fun _ => h.2⟩)

/-- **phase 1, when it succeeds, has staged everything** -/
theorem staged_phase1 (pre : Pre s0 w fresh0) (pre2 : Pre2 s0 w fresh0) (n : Nat) :
    Triple (J0 s0 w fresh0) (phase1 w n) (fun _ r => Staged s0 w fresh0 r ∧ (w.hasTracked = true → Covered w r)) (fun _ => True) := by
  unfold phase1
  split
  · rename_i hnt
    exact Triple.pure _ (fun _ h => ⟨staged_of_j0 h, fun e => by simp [e] at hnt⟩)
  refine Triple.bind (gen_logStep _).dropE (fun _ => ?_)
  refine Triple.bind (gen_lockItems w).dropE (fun _ => ?_)
  refine Triple.bind (gen_mergeNodesKeys w).dropE (fun _ => ?_)
  refine Triple.bind (gen_lockNodes).dropE (fun locked => ?_)
  split
  · exact giveUpLocked_raises
  refine Triple.bind (staged_phase1Body pre pre2) (fun ok => ?_)
  cases ok with
  | false =>
    simp only [Bool.not_false, ↓reduceIte]
    exact conflictRound_raises w n
  | true =>
    simp only [Bool.not_true, Bool.false_eq_true, ↓reduceIte]
    exact Triple.conseq (gen_finishPhase1 (I := SCov s0 w fresh0) w).dropE (fun _ h => ⟨h.1, h.2 trivial⟩) (fun _ _ h => ⟨h.1, fun _ => h.2⟩) (fun _ h => h)

end
end Sop.Commit
