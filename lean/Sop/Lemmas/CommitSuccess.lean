import Sop.Lemmas.CommitFlip
/-!
The success half: `commit` returning `ok` — under ANY single fault (a fault that lets the commit succeed can only
have hit a call whose failure the code tolerates: lock release, priority-log removal, cleanup) — ends with every
node the transaction reserved showing its staged blob at version + 1 and every other node that was loadable at
the start unchanged.
-/
namespace Sop.Commit

theorem commit_ok_installs {s0 : State} {w : WS} {fresh0 : List (UUID × UUID)} (pre : Pre s0 w fresh0) (pre2 : Pre2 s0 w fresh0)
    (fault : Option Fault) {cs0 : Step} (tid : Tid) (n : Nat) (r2 : Run)
    (hok : commit w n { s := s0, tid := tid, fault := fault, fresh := fresh0, cs := cs0 } = (.ok, r2)) :
    ∃ r1, phase1 w n { s := s0, tid := tid, fault := fault, fresh := fresh0, cs := cs0 } = .ok ((), r1) ∧
      (w.hasTracked = true → r1.reserved.map (fun h => (h.lid, h.version)) = w.updated) ∧
      (∀ h ∈ r1.reserved, h.inactive ≠ 0 → r2.s.view h.lid = some (h.inactive, h.version + 1)) ∧
      (∀ lid, (s0.view lid).isSome → (∀ h ∈ r1.reserved, h.lid ≠ lid) → (∀ g ∈ r1.removedH, g.lid ≠ lid) →
        r2.s.view lid = s0.view lid) := by
  have hj0 : J0 s0 w fresh0 { s := s0, tid := tid, fault := fault, fresh := fresh0, cs := cs0 } :=
    ⟨⟨SInv.init s0 w fresh0 pre, fun _ hp => hp⟩, rfl, rfl⟩
  have h1 := staged_phase1 pre pre2 n _ hj0
  unfold commit at hok
  cases hp : phase1 w n { s := s0, tid := tid, fault := fault, fresh := fresh0, cs := cs0 } with
  | error r1 =>
    rw [hp] at hok
    simp only at hok
    split at hok
    · cases hok
    · split at hok <;> cases hok
  | ok p =>
    obtain ⟨u, r1⟩ := p
    rw [hp] at hok h1
    simp only at hok h1
    have h2 := flipped_phase2 pre pre2 (h1.1.lists pre2) r1 ⟨h1.1, rfl, rfl⟩
    cases hq : phase2 w r1 with
    | error r2' => rw [hq] at hok; cases hok
    | ok q =>
      obtain ⟨u', r2'⟩ := q
      rw [hq] at hok h2
      simp only [Prod.mk.injEq, true_and] at hok
      subst hok
      simp only at h2
      refine ⟨r1, rfl, h1.2, ?_, h2.old⟩
      intro h hm hz
      obtain ⟨a, b⟩ := h2.new h hm hz
      obtain ⟨a1, a2, _, a4, _⟩ := activate_spec h
      unfold State.view
      rw [a]
      simp [a2, a4, b]

end Sop.Commit
