import Sop.Model.Commit
/-! Tiny concrete runs of Model P used as counterexample witnesses (evaluated by the kernel: `decide +kernel`). -/
namespace Sop.Commit.Witness
open Sop.Commit

/-- one store with one node (lid 1, version 1, blob 1) and count 5 -/
def s0 : State :=
  { ((({} : State).setReg { lid := 1, idA := 1, version := 1 }).setBlob 1 true) with
      cnt := fun k => if k = 0 then 5 else 0, storeExists := fun k => k = 0 }

/-- a transaction that updates node 1 (one tracked non-add item) and adds one item: delta +1 -/
def wUpd : WS := { stores := [{ store := 0, updated := [(1, 1)], items := 1, delta := 1 }] }
/-- a transaction that splits: updates node 1 and adds node 2 -/
def wSplit : WS := { stores := [{ store := 0, updated := [(1, 1)], added := [2], items := 0, delta := 1 }] }
/-- a transaction whose removal empties node 1: the node is removed -/
def wRem : WS := { stores := [{ store := 0, removed := [(1, 1)], items := 1, delta := -1 }] }
/-- first item of an empty store: new root 3 -/
def sEmpty : State := { ({} : State) with storeExists := fun k => k = 0 }
def wRoot : WS := { stores := [{ store := 0, root := [3], items := 0, delta := 1 }] }

def run (s : State) (w : WS) (tid : Nat) (f : Option Fault) (fresh : List (UUID × UUID)) : Outcome × Run :=
  commit w 30 { s := s, tid := tid, fault := f, fresh := fresh }

end Sop.Commit.Witness
