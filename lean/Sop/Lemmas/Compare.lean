import Sop.Model.Compare
/-! Order lemmas about the building blocks of `Sop.Compare` (shared by C29 and C30). -/
namespace Sop.Compare

/-- a comparison result is -1, 0 or 1 -/
def Tri (r : Int) : Prop := r = -1 ∨ r = 0 ∨ r = 1

/-- transitivity of three comparison results `x = c a b`, `y = c b c'`, `z = c a c'`, in the strong
form that survives lexicographic combination -/
def Tr (x y z : Int) : Prop :=
  (x < 0 → y ≤ 0 → z < 0) ∧ (x ≤ 0 → y < 0 → z < 0) ∧ (x = 0 → y = 0 → z = 0)

theorem Tr.le {x y z : Int} (h : Tr x y z) (hx : x ≤ 0) (hy : y ≤ 0) : z ≤ 0 := by
  obtain ⟨h1, h2, h3⟩ := h
  by_cases hx0 : x < 0
  · have := h1 hx0 hy; omega
  · by_cases hy0 : y < 0
    · have := h2 hx hy0; omega
    · have := h3 (by omega) (by omega); omega

/-! ### integers -/

theorem cmpInt_tri (a b : Int) : Tri (cmpInt a b) := by
  unfold cmpInt Tri; repeat' split
  all_goals omega

theorem cmpInt_refl (a : Int) : cmpInt a a = 0 := by
  unfold cmpInt; repeat' split
  all_goals omega

theorem cmpInt_antisymm (a b : Int) : cmpInt a b = -cmpInt b a := by
  unfold cmpInt; repeat' split
  all_goals omega

theorem cmpInt_tr (a b c : Int) : Tr (cmpInt a b) (cmpInt b c) (cmpInt a c) := by
  unfold Tr cmpInt; repeat' split
  all_goals omega

theorem cmpInt_lt_iff (a b : Int) : cmpInt a b = -1 ↔ a < b := by
  unfold cmpInt; repeat' split
  all_goals omega
theorem cmpInt_eq_iff (a b : Int) : cmpInt a b = 0 ↔ a = b := by
  unfold cmpInt; repeat' split
  all_goals omega
theorem cmpInt_gt_iff (a b : Int) : cmpInt a b = 1 ↔ b < a := by
  unfold cmpInt; repeat' split
  all_goals omega

/-! ### first non-zero decides -/

theorem lex_tri {r s : Int} (hr : Tri r) (hs : Tri s) : Tri (lex r s) := by
  unfold lex; split <;> assumption

theorem lex_antisymm {r r' s s' : Int} (hr : r = -r') (hs : s = -s') : lex r s = -lex r' s' := by
  unfold lex; repeat' split
  all_goals omega

theorem lex_tr {x y z x' y' z' : Int} (h : Tr x y z) (h' : Tr x' y' z') :
    Tr (lex x x') (lex y y') (lex z z') := by
  obtain ⟨h1, h2, h3⟩ := h
  obtain ⟨g1, g2, g3⟩ := h'
  unfold lex
  refine ⟨?_, ?_, ?_⟩
  · intro a b
    by_cases hx : x = 0 <;> by_cases hy : y = 0 <;> simp only [hx, hy, ne_eq, not_true_eq_false, not_false_eq_true, ↓reduceIte] at a b
    · have hz := h3 hx hy; simp only [hz, ne_eq, not_true_eq_false, ↓reduceIte]; exact g1 a b
    · have hz := h2 (by omega) (by omega); rw [if_pos (by omega)]; exact hz
    · have hz := h1 (by omega) (by omega); rw [if_pos (by omega)]; exact hz
    · have hz := h1 (by omega) (by omega); rw [if_pos (by omega)]; exact hz
  · intro a b
    by_cases hx : x = 0 <;> by_cases hy : y = 0 <;> simp only [hx, hy, ne_eq, not_true_eq_false, not_false_eq_true, ↓reduceIte] at a b
    · have hz := h3 hx hy; simp only [hz, ne_eq, not_true_eq_false, ↓reduceIte]; exact g2 a b
    · have hz := h2 (by omega) (by omega); rw [if_pos (by omega)]; exact hz
    · have hz := h1 (by omega) (by omega); rw [if_pos (by omega)]; exact hz
    · have hz := h1 (by omega) (by omega); rw [if_pos (by omega)]; exact hz
  · intro a b
    by_cases hx : x = 0 <;> by_cases hy : y = 0 <;> simp only [hx, hy, ne_eq, not_true_eq_false, not_false_eq_true, ↓reduceIte] at a b
    · have hz := h3 hx hy; simp only [hz, ne_eq, not_true_eq_false, ↓reduceIte]; exact g3 a b

/-! ### floats -/

theorem cmpFloat_tri (e m a b : Nat) : Tri (cmpFloat e m a b) := by
  unfold cmpFloat
  have := cmpInt_tri (fKey e m a) (fKey e m b)
  unfold Tri at *
  repeat' split
  all_goals omega

theorem cmpFloat_refl (e m a : Nat) : cmpFloat e m a a = 0 := by
  unfold cmpFloat
  cases fIsNaN e m a <;> simp [cmpInt_refl]

theorem cmpFloat_antisymm (e m a b : Nat) : cmpFloat e m a b = -cmpFloat e m b a := by
  unfold cmpFloat
  have := cmpInt_antisymm (fKey e m a) (fKey e m b)
  repeat' split
  all_goals omega

theorem cmpFloat_tr (e m a b c : Nat) :
    Tr (cmpFloat e m a b) (cmpFloat e m b c) (cmpFloat e m a c) := by
  unfold cmpFloat
  have h := cmpInt_tr (fKey e m a) (fKey e m b) (fKey e m c)
  have t1 := cmpInt_tri (fKey e m a) (fKey e m b)
  have t2 := cmpInt_tri (fKey e m b) (fKey e m c)
  have t3 := cmpInt_tri (fKey e m a) (fKey e m c)
  generalize cmpInt (fKey e m a) (fKey e m b) = x at *
  generalize cmpInt (fKey e m b) (fKey e m c) = y at *
  generalize cmpInt (fKey e m a) (fKey e m c) = z at *
  cases fIsNaN e m a <;> cases fIsNaN e m b <;> cases fIsNaN e m c <;>
    simp only [Bool.false_eq_true, ↓reduceIte] <;>
    first
      | exact h
      | (unfold Tr Tri at *; omega)

/-! ### slices -/

theorem cmpSlice_tri {α : Type} (c : α → α → Int) (hc : ∀ a b, Tri (c a b)) :
    ∀ l m, Tri (cmpSlice c l m)
  | [], [] => by simp [cmpSlice, Tri]
  | [], _ :: _ => by simp [cmpSlice, Tri]
  | _ :: _, [] => by simp [cmpSlice, Tri]
  | a :: l, b :: m => by
    simp only [cmpSlice]
    exact lex_tri (hc a b) (cmpSlice_tri c hc l m)

theorem cmpSlice_refl {α : Type} (c : α → α → Int) (hc : ∀ a, c a a = 0) :
    ∀ l, cmpSlice c l l = 0
  | [] => by simp [cmpSlice]
  | a :: l => by simp [cmpSlice, lex, hc a, cmpSlice_refl c hc l]

theorem cmpSlice_antisymm {α : Type} (c : α → α → Int) (hc : ∀ a b, c a b = -c b a) :
    ∀ l m, cmpSlice c l m = -cmpSlice c m l
  | [], [] => by simp [cmpSlice]
  | [], _ :: _ => by simp [cmpSlice]
  | _ :: _, [] => by simp [cmpSlice]
  | a :: l, b :: m => by
    simp only [cmpSlice]
    exact lex_antisymm (hc a b) (cmpSlice_antisymm c hc l m)

theorem cmpSlice_tr {α : Type} (c : α → α → Int) (hc : ∀ a b d, Tr (c a b) (c b d) (c a d)) :
    ∀ l m n, Tr (cmpSlice c l m) (cmpSlice c m n) (cmpSlice c l n)
  | [], [], [] => by simp [cmpSlice, Tr]
  | [], [], _ :: _ => by simp [cmpSlice, Tr]
  | [], _ :: _, [] => by simp [cmpSlice, Tr]
  | [], _ :: _, _ :: _ => by simp [cmpSlice, Tr]
  | _ :: _, [], [] => by simp [cmpSlice, Tr]
  | _ :: _, [], _ :: _ => by simp [cmpSlice, Tr]
  | _ :: _, _ :: _, [] => by simp [cmpSlice, Tr]
  | a :: l, b :: m, d :: n => by
    simp only [cmpSlice]
    exact lex_tr (hc a b d) (cmpSlice_tr c hc l m n)

/-- the order a slice comparison decides, stated independently of the loop: `l` is a proper prefix
of `m`, or at the first position where the elements do not compare equal, `l`'s is smaller -/
inductive SliceLt {α : Type} (c : α → α → Int) : List α → List α → Prop
  | nil (b : α) (m : List α) : SliceLt c [] (b :: m)
  | head (a b : α) (l m : List α) : c a b < 0 → SliceLt c (a :: l) (b :: m)
  | tail (a b : α) (l m : List α) : c a b = 0 → SliceLt c l m → SliceLt c (a :: l) (b :: m)

/-- element-wise equality up to `c`, same length -/
inductive SliceEq {α : Type} (c : α → α → Int) : List α → List α → Prop
  | nil : SliceEq c [] []
  | cons (a b : α) (l m : List α) : c a b = 0 → SliceEq c l m → SliceEq c (a :: l) (b :: m)

theorem cmpSlice_lt_iff {α : Type} (c : α → α → Int) :
    ∀ l m, cmpSlice c l m < 0 ↔ SliceLt c l m
  | [], [] => by simp [cmpSlice]; intro h; cases h
  | [], b :: m => by simp [cmpSlice]; exact SliceLt.nil b m
  | _ :: _, [] => by simp [cmpSlice]; intro h; cases h
  | a :: l, b :: m => by
    simp only [cmpSlice, lex]
    have ih := cmpSlice_lt_iff c l m
    constructor
    · intro h
      by_cases h0 : c a b = 0
      · simp only [h0, ne_eq, not_true_eq_false, ↓reduceIte] at h
        exact SliceLt.tail a b l m h0 (ih.mp h)
      · simp only [ne_eq, h0, not_false_eq_true, ↓reduceIte] at h
        exact SliceLt.head a b l m h
    · intro h
      cases h with
      | head _ _ _ _ hlt => rw [if_pos (by omega)]; exact hlt
      | tail _ _ _ _ h0 hr => simp only [h0, ne_eq, not_true_eq_false, ↓reduceIte]; exact ih.mpr hr

theorem cmpSlice_eq_iff {α : Type} (c : α → α → Int) :
    ∀ l m, cmpSlice c l m = 0 ↔ SliceEq c l m
  | [], [] => by simp [cmpSlice]; exact SliceEq.nil
  | [], b :: m => by simp [cmpSlice]; intro h; cases h
  | _ :: _, [] => by simp [cmpSlice]; intro h; cases h
  | a :: l, b :: m => by
    simp only [cmpSlice, lex]
    have ih := cmpSlice_eq_iff c l m
    constructor
    · intro h
      by_cases h0 : c a b = 0
      · simp only [h0, ne_eq, not_true_eq_false, ↓reduceIte] at h
        exact SliceEq.cons a b l m h0 (ih.mp h)
      · rw [if_pos h0] at h
        exact absurd h h0
    · intro h
      cases h with
      | cons _ _ _ _ h0 hr => simp only [h0, ne_eq, not_true_eq_false, ↓reduceIte]; exact ih.mpr hr

/-- when `c a b = 0` means `a = b`, slice-equality is equality -/
theorem sliceEq_iff_eq {α : Type} (c : α → α → Int) (hc : ∀ a b, c a b = 0 ↔ a = b) :
    ∀ l m, SliceEq c l m ↔ l = m := by
  intro l m
  constructor
  · intro h
    induction h with
    | nil => rfl
    | cons a b l m h0 _ ih => rw [(hc a b).mp h0, ih]
  · intro h
    subst h
    induction l with
    | nil => exact SliceEq.nil
    | cons a l ih => exact SliceEq.cons a a l l ((hc a a).mpr rfl) ih

/-! ### bytes -/

theorem cmpBytes_tri (a b : List Nat) : Tri (cmpBytes a b) :=
  cmpSlice_tri (fun (x y : Nat) => cmpInt x y) (fun x y => cmpInt_tri x y) a b
theorem cmpBytes_refl (a : List Nat) : cmpBytes a a = 0 :=
  cmpSlice_refl (fun (x y : Nat) => cmpInt x y) (fun x => cmpInt_refl x) a
theorem cmpBytes_antisymm (a b : List Nat) : cmpBytes a b = -cmpBytes b a :=
  cmpSlice_antisymm (fun (x y : Nat) => cmpInt x y) (fun x y => cmpInt_antisymm x y) a b
theorem cmpBytes_tr (a b c : List Nat) : Tr (cmpBytes a b) (cmpBytes b c) (cmpBytes a c) :=
  cmpSlice_tr (fun (x y : Nat) => cmpInt x y) (fun x y z => cmpInt_tr x y z) a b c
theorem cmpBytes_eq_iff (a b : List Nat) : cmpBytes a b = 0 ↔ a = b := by
  unfold cmpBytes
  rw [cmpSlice_eq_iff]
  exact sliceEq_iff_eq _ (fun x y => by rw [cmpInt_eq_iff]; omega) a b

/-! ### times -/

theorem cmpWall_tri (s : Int) (n : Nat) (s' : Int) (n' : Nat) : Tri (cmpWall s n s' n') := by
  unfold cmpWall; split <;> exact cmpInt_tri _ _

theorem cmpWall_refl (s : Int) (n : Nat) : cmpWall s n s n = 0 := by
  simp [cmpWall, cmpInt_refl]

theorem cmpWall_antisymm (s : Int) (n : Nat) (s' : Int) (n' : Nat) :
    cmpWall s n s' n' = -cmpWall s' n' s n := by
  unfold cmpWall cmpInt; repeat' split
  all_goals omega

theorem cmpWall_tr (s : Int) (n : Nat) (s' : Int) (n' : Nat) (s'' : Int) (n'' : Nat) :
    Tr (cmpWall s n s' n') (cmpWall s' n' s'' n'') (cmpWall s n s'' n'') := by
  unfold Tr cmpWall cmpInt; repeat' split
  all_goals omega

/-- with nanoseconds below one second (as `time.Time` guarantees) the wall comparison is the order of
the instants `sec·10⁹ + nsec` -/
theorem cmpWall_instant (s : Int) (n : Nat) (s' : Int) (n' : Nat) (hn : n < 1000000000) (hn' : n' < 1000000000) :
    cmpWall s n s' n' = cmpInt (s * 1000000000 + n) (s' * 1000000000 + n') := by
  unfold cmpWall cmpInt; repeat' split
  all_goals omega

end Sop.Compare
