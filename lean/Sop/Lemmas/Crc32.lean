import Sop.Model.BlockCow
/-!
# CRC-32 detects every single-byte change

`crcBit` restricted to 32-bit values is injective, because the reflected polynomial `0xEDB88320` has bit 31
set: for `c < 2^32`, `c / 2 < 2^31`, so bit 31 of `crcBit c` is exactly the parity of `c`, and the remaining
bits give `c / 2` back (after xoring the polynomial away when the parity is 1). From there `crcByte` is
injective both in the running state and in the byte, and a fold over `pre ++ x :: suf` versus
`pre ++ y :: suf` reaches the same state after `pre`, different states after the differing byte, and stays
different through `suf`. No GF(2) linearity is used.
-/
namespace Sop.BlockCow
open Sop.Handle

/-! ## xor cancellation -/

theorem xor_cancel_right (a b k : Nat) (h : a ^^^ k = b ^^^ k) : a = b := by
  have h' : (a ^^^ k) ^^^ k = (b ^^^ k) ^^^ k := by rw [h]
  simpa [Nat.xor_assoc, Nat.xor_self, Nat.xor_zero] using h'

theorem xor_cancel_left (k a b : Nat) (h : k ^^^ a = k ^^^ b) : a = b := by
  rw [Nat.xor_comm k a, Nat.xor_comm k b] at h
  exact xor_cancel_right a b k h

/-! ## One bit step -/

theorem crcPoly_lt : crcPoly < 2^32 := by decide

theorem crcPoly_bit31 : crcPoly.testBit 31 = true := by decide

theorem crcBit_lt (c : Nat) (h : c < 2^32) : crcBit c < 2^32 := by
  unfold crcBit
  split
  · exact Nat.xor_lt_two_pow (by omega) crcPoly_lt
  · omega

/-- Xoring the polynomial into a value below `2^31` sets bit 31. -/
theorem xor_poly_ge (d : Nat) (hd : d < 2^31) : 2^31 ≤ d ^^^ crcPoly := by
  apply Nat.ge_two_pow_of_testBit
  rw [Nat.testBit_xor, Nat.testBit_lt_two_pow hd, crcPoly_bit31]
  rfl

/-- Explicit inverse of `crcBit` on 32-bit values. -/
def crcBitInv (d : Nat) : Nat := if 2^31 ≤ d then ((d ^^^ crcPoly) * 2 + 1) else d * 2

theorem crcBitInv_crcBit (c : Nat) (h : c < 2^32) : crcBitInv (crcBit c) = c := by
  have h2 : c / 2 < 2^31 := by omega
  unfold crcBit
  split
  · rename_i hodd
    have hge := xor_poly_ge (c / 2) h2
    unfold crcBitInv
    rw [if_pos hge, Nat.xor_assoc, Nat.xor_self, Nat.xor_zero]
    omega
  · rename_i heven
    unfold crcBitInv
    rw [if_neg (by omega)]
    omega

theorem crcBit_inj (a b : Nat) (ha : a < 2^32) (hb : b < 2^32) (h : crcBit a = crcBit b) : a = b := by
  rw [← crcBitInv_crcBit a ha, ← crcBitInv_crcBit b hb, h]

/-! ## One byte step -/

theorem byte_lt32 (x : Nat) (hx : x < 256) : x < 2^32 := by omega

theorem crcByte_lt (c x : Nat) (hc : c < 2^32) (hx : x < 256) : crcByte c x < 2^32 := by
  unfold crcByte
  have h0 : c ^^^ x < 2^32 := Nat.xor_lt_two_pow hc (byte_lt32 x hx)
  exact crcBit_lt _ (crcBit_lt _ (crcBit_lt _ (crcBit_lt _ (crcBit_lt _ (crcBit_lt _ (crcBit_lt _
    (crcBit_lt _ h0)))))))

/-- Eight bit steps are injective on 32-bit values. -/
theorem crcBit8_inj (u v : Nat) (hu : u < 2^32) (hv : v < 2^32)
    (h : crcBit (crcBit (crcBit (crcBit (crcBit (crcBit (crcBit (crcBit u)))))))
       = crcBit (crcBit (crcBit (crcBit (crcBit (crcBit (crcBit (crcBit v)))))))) : u = v := by
  have u1 := crcBit_lt _ hu
  have v1 := crcBit_lt _ hv
  have u2 := crcBit_lt _ u1
  have v2 := crcBit_lt _ v1
  have u3 := crcBit_lt _ u2
  have v3 := crcBit_lt _ v2
  have u4 := crcBit_lt _ u3
  have v4 := crcBit_lt _ v3
  have u5 := crcBit_lt _ u4
  have v5 := crcBit_lt _ v4
  have u6 := crcBit_lt _ u5
  have v6 := crcBit_lt _ v5
  have u7 := crcBit_lt _ u6
  have v7 := crcBit_lt _ v6
  have e7 := crcBit_inj _ _ u7 v7 h
  have e6 := crcBit_inj _ _ u6 v6 e7
  have e5 := crcBit_inj _ _ u5 v5 e6
  have e4 := crcBit_inj _ _ u4 v4 e5
  have e3 := crcBit_inj _ _ u3 v3 e4
  have e2 := crcBit_inj _ _ u2 v2 e3
  have e1 := crcBit_inj _ _ u1 v1 e2
  exact crcBit_inj _ _ hu hv e1

theorem crcByte_inj_state (a b x : Nat) (ha : a < 2^32) (hb : b < 2^32) (hx : x < 256)
    (h : crcByte a x = crcByte b x) : a = b := by
  unfold crcByte at h
  have hx' := byte_lt32 x hx
  exact xor_cancel_right a b x
    (crcBit8_inj _ _ (Nat.xor_lt_two_pow ha hx') (Nat.xor_lt_two_pow hb hx') h)

theorem crcByte_inj_byte (c x y : Nat) (hc : c < 2^32) (hx : x < 256) (hy : y < 256)
    (h : crcByte c x = crcByte c y) : x = y := by
  unfold crcByte at h
  exact xor_cancel_left c x y
    (crcBit8_inj _ _ (Nat.xor_lt_two_pow hc (byte_lt32 x hx)) (Nat.xor_lt_two_pow hc (byte_lt32 y hy)) h)

/-! ## Folding over a byte string -/

theorem bytesOk_cons {b : Nat} {l : List Nat} (h : bytesOk (b :: l)) : b < 256 ∧ bytesOk l :=
  ⟨h b (List.mem_cons_self ..), fun c hc => h c (List.mem_cons_of_mem _ hc)⟩

theorem foldl_crcByte_lt (bs : List Nat) (hb : bytesOk bs) (s : Nat) (hs : s < 2^32) :
    bs.foldl crcByte s < 2^32 := by
  induction bs generalizing s with
  | nil => simpa using hs
  | cons b l ih =>
    have ⟨hb0, hl⟩ := bytesOk_cons hb
    rw [List.foldl_cons]
    exact ih hl _ (crcByte_lt s b hs hb0)

theorem foldl_crcByte_inj (bs : List Nat) (hb : bytesOk bs) (s t : Nat) (hs : s < 2^32) (ht : t < 2^32)
    (h : bs.foldl crcByte s = bs.foldl crcByte t) : s = t := by
  induction bs generalizing s t with
  | nil => simpa using h
  | cons b l ih =>
    have ⟨hb0, hl⟩ := bytesOk_cons hb
    rw [List.foldl_cons, List.foldl_cons] at h
    exact crcByte_inj_state s t b hs ht hb0
      (ih hl _ _ (crcByte_lt s b hs hb0) (crcByte_lt t b ht hb0) h)

theorem crcRaw_lt (bs : List Nat) (hb : bytesOk bs) : crcRaw bs < 2^32 := by
  unfold crcRaw
  exact foldl_crcByte_lt bs hb _ (by decide)

theorem crc32_lt (bs : List Nat) (hb : bytesOk bs) : crc32 bs < 2^32 := by
  unfold crc32
  exact Nat.xor_lt_two_pow (crcRaw_lt bs hb) (by decide)

/-- Changing exactly one byte of the input always changes the raw CRC state. -/
theorem crcRaw_single_byte (pre suf : List Nat) (x y : Nat) (hpre : bytesOk pre) (hsuf : bytesOk suf)
    (hx : x < 256) (hy : y < 256) (hxy : x ≠ y) : crcRaw (pre ++ x :: suf) ≠ crcRaw (pre ++ y :: suf) := by
  intro h
  unfold crcRaw at h
  rw [List.foldl_append, List.foldl_append, List.foldl_cons, List.foldl_cons] at h
  have hs : pre.foldl crcByte 0xFFFFFFFF < 2^32 := foldl_crcByte_lt pre hpre _ (by decide)
  have h1 := foldl_crcByte_inj suf hsuf _ _ (crcByte_lt _ x hs hx) (crcByte_lt _ y hs hy) h
  exact hxy (crcByte_inj_byte _ x y hs hx hy h1)

/-- Changing exactly one byte of the input always changes the CRC-32. -/
theorem crc32_single_byte (pre suf : List Nat) (x y : Nat) (hpre : bytesOk pre) (hsuf : bytesOk suf)
    (hx : x < 256) (hy : y < 256) (hxy : x ≠ y) : crc32 (pre ++ x :: suf) ≠ crc32 (pre ++ y :: suf) := by
  intro h
  unfold crc32 at h
  exact crcRaw_single_byte pre suf x y hpre hsuf hx hy hxy (xor_cancel_right _ _ _ h)

end Sop.BlockCow
