import Sop.Model.Erasure
/-! Lemmas about `Sop.Model.Erasure` used by `Props/C25.lean` and `Props/C26.lean`. -/
namespace Sop.Erasure

/-! ## `Split` / `Join` arithmetic -/

theorem perShard_spec (d size : Nat) (hd : 0 < d) :
    size ≤ d * perShard d size ∧ d * perShard d size - size = (if size % d ≠ 0 then d - size % d else 0) := by
  unfold perShard
  have h3 := Nat.div_add_mod size d
  have h4 := Nat.mod_lt size hd
  by_cases hr : size % d = 0
  · have : (size + d - 1) / d = size / d := by
      apply Nat.div_eq_of_lt_le
      · rw [Nat.mul_comm]; omega
      · rw [Nat.add_mul, Nat.mul_comm]; omega
    rw [this]; simp [hr]; omega
  · have : (size + d - 1) / d = size / d + 1 := by
      apply Nat.div_eq_of_lt_le
      · rw [Nat.add_mul, Nat.mul_comm]; omega
      · rw [Nat.add_mul, Nat.add_mul, Nat.mul_comm]; omega
    rw [this, Nat.mul_add]; simp [hr]; omega

theorem perShard_pos (d size : Nat) (hd : 0 < d) (hs : 0 < size) : 0 < perShard d size := by
  have := (perShard_spec d size hd).1
  rcases Nat.eq_zero_or_pos (perShard d size) with h | h
  · rw [h] at this; omega
  · exact h

theorem padCount_eq (d size : Nat) (hd : 0 < d) (h256 : d < 256) :
    padCount d size = d * perShard d size - size := by
  rw [(perShard_spec d size hd).2]
  unfold padCount
  have h4 := Nat.mod_lt size hd
  split
  · rw [Nat.mod_eq_of_lt]; omega
  · rfl

theorem chunks_length (L n : Nat) (xs : Bytes) : (chunks L n xs).length = n := by
  induction n generalizing xs with
  | zero => rfl
  | succ n ih => simp [chunks, ih]

theorem chunks_flatten (L n : Nat) (xs : Bytes) : (chunks L n xs).flatten = xs.take (L * n) := by
  induction n generalizing xs with
  | zero => simp [chunks]
  | succ n ih =>
    simp only [chunks, List.flatten_cons, ih]
    rw [Nat.mul_succ, Nat.add_comm, List.take_add]

theorem chunks_each (L n : Nat) (xs : Bytes) (h : L * n ≤ xs.length) : ∀ s ∈ chunks L n xs, s.length = L := by
  induction n generalizing xs with
  | zero => intro s hs; simp [chunks] at hs
  | succ n ih =>
    intro s hs
    simp only [chunks, List.mem_cons] at hs
    rw [Nat.mul_succ] at h
    rcases hs with rfl | hs
    · simp; omega
    · exact ih (xs.drop L) (by simp; omega) s hs

theorem split_length (d : Nat) (data : Bytes) : (split d data).length = d := by
  simp [split, chunks_length]

theorem split_each (d : Nat) (data : Bytes) (hd : 0 < d) : ∀ s ∈ split d data, s.length = perShard d data.length := by
  unfold split
  apply chunks_each
  have := (perShard_spec d data.length hd).1
  have e := Nat.mul_comm (perShard d data.length) d
  simp only [List.length_append, List.length_replicate]
  omega

theorem split_flatten (d : Nat) (data : Bytes) (hd : 0 < d) :
    (split d data).flatten = data ++ List.replicate (d * perShard d data.length - data.length) 0 := by
  unfold split
  simp only [chunks_flatten]
  apply List.take_of_length_le
  have := (perShard_spec d data.length hd).1
  have e := Nat.mul_comm (perShard d data.length) d
  simp only [List.length_append, List.length_replicate]
  omega

theorem unpad (data : Bytes) (k : Nat) :
    (data ++ List.replicate k 0).take ((data ++ List.replicate k 0).length - k) = data := by
  simp

/-! ## the library's checks on a masked code word -/

theorem joinCheck_somes (bs : List Bytes) (size out : Nat) :
    joinCheck (bs.map some) size out = some (decide (out ≤ size + bs.flatten.length)) := by
  induction bs generalizing size with
  | nil => simp [joinCheck]
  | cons b bs ih =>
    simp only [List.map_cons, joinCheck, List.flatten_cons, List.length_append]
    split
    · simp; omega
    · rw [ih]; simp [Nat.add_assoc]

/-- every present shard has length `L` -/
def Uni (L : Nat) (ss : List Shard) : Prop := ∀ s ∈ ss, s = none ∨ ∃ b, s = some b ∧ b.length = L

theorem Uni.tail {L : Nat} {s : Shard} {ss : List Shard} (h : Uni L (s :: ss)) : Uni L ss :=
  fun t ht => h t (List.mem_cons_of_mem _ ht)

theorem slen_none : slen none = 0 := rfl
theorem slen_some (b : Bytes) : slen (some b) = b.length := rfl

theorem present_of_uni {L : Nat} (hL : 0 < L) {s : Shard} (h : s = none ∨ ∃ b, s = some b ∧ b.length = L) :
    present s = s.isSome := by
  rcases h with rfl | ⟨b, rfl, hb⟩
  · rfl
  · simp [present, slen_some, hb]; omega

theorem shardSize_uni {L : Nat} (hL : 0 < L) {ss : List Shard} (h : Uni L ss) :
    shardSize ss = if ss.any Option.isSome then L else 0 := by
  induction ss with
  | nil => rfl
  | cons s ss ih =>
    have hs := h s (List.mem_cons_self ..)
    rcases hs with rfl | ⟨b, rfl, hb⟩
    · simp [shardSize, slen_none, ih h.tail]
    · simp [shardSize, slen_some, hb]; omega

theorem checkShards_nilok_uni {L : Nat} (hL : 0 < L) {ss : List Shard} (h : Uni L ss) :
    checkShards ss true = ss.any Option.isSome := by
  unfold checkShards
  rw [shardSize_uni hL h]
  by_cases ha : ss.any Option.isSome = true
  · simp only [ha, if_true]
    have : (ss.all fun s => slen s == L || (true && slen s == 0)) = true := by
      rw [List.all_eq_true]
      intro s hs
      rcases h s hs with rfl | ⟨b, rfl, hb⟩
      · simp [slen_none]
      · simp [slen_some, hb]
    rw [this]; simp; omega
  · simp [ha]

theorem checkShards_strict_uni {L : Nat} (hL : 0 < L) {ss : List Shard} (h : Uni L ss) :
    checkShards ss false = (ss.any Option.isSome && ss.all Option.isSome) := by
  unfold checkShards
  rw [shardSize_uni hL h]
  by_cases ha : ss.any Option.isSome = true
  · simp only [ha, if_true, Bool.true_and]
    have : ∀ (l : List Shard), Uni L l → (l.all fun s => slen s == L || (false && slen s == 0)) = l.all Option.isSome := by
      intro l hl
      induction l with
      | nil => rfl
      | cons s l ih =>
        simp only [List.all_cons, ih hl.tail]
        rcases hl s (List.mem_cons_self ..) with rfl | ⟨b, rfl, hb⟩
        · have : (0 == L) = false := by simp; omega
          simp [slen_none, this]
        · simp [slen_some, hb]
    have := this ss h
    rw [this]
    have : (L != 0) = true := by simp; omega
    rw [this]; simp
  · simp [ha]

theorem countP_present_uni {L : Nat} (hL : 0 < L) {ss : List Shard} (h : Uni L ss) :
    ss.countP present = ss.countP Option.isSome := by
  apply List.countP_congr
  intro s hs
  rw [present_of_uni hL (h s hs)]

theorem missingRequired_uni {L : Nat} (hL : 0 < L) {ss : List Shard} (h : Uni L ss) :
    missingRequired ss (ss.map Option.isNone) = ss.countP Option.isNone := by
  induction ss with
  | nil => rfl
  | cons s ss ih =>
    have hs := h s (List.mem_cons_self ..)
    simp only [List.map_cons, missingRequired, ih h.tail, present_of_uni hL hs]
    cases s <;> simp <;> omega

theorem asMask_uni {L : Nat} (hL : 0 < L) {ss : List Shard} (h : Uni L ss) : asMask ss = ss := by
  unfold asMask
  conv => rhs; rw [← List.map_id ss]
  apply List.map_congr_left
  intro s hs
  rw [present_of_uni hL (h s hs)]
  cases s <;> simp

theorem IsMask.length_eq {ss : List Shard} {cw : List Bytes} (h : IsMask ss cw) : ss.length = cw.length := by
  induction ss generalizing cw with
  | nil => cases cw <;> simp_all [IsMask]
  | cons s ss ih =>
    cases cw with
    | nil => simp [IsMask] at h
    | cons c cs => simp [IsMask] at h; simp [ih h.2]

theorem IsMask.uni {L : Nat} {ss : List Shard} {cw : List Bytes} (h : IsMask ss cw) (hcw : ∀ c ∈ cw, c.length = L) :
    Uni L ss := by
  induction ss generalizing cw with
  | nil => intro s hs; simp at hs
  | cons s ss ih =>
    cases cw with
    | nil => simp [IsMask] at h
    | cons c cs =>
      simp only [IsMask] at h
      intro t ht
      simp only [List.mem_cons] at ht
      rcases ht with rfl | ht
      · rcases h.1 with h1 | h1
        · exact Or.inl h1
        · exact Or.inr ⟨c, h1, hcw c (List.mem_cons_self ..)⟩
      · exact ih h.2 (fun c' hc' => hcw c' (List.mem_cons_of_mem _ hc')) t ht

theorem IsMask.fill_eq {L : Nat} (hL : 0 < L) {ss : List Shard} {cw : List Bytes} (h : IsMask ss cw)
    (hcw : ∀ c ∈ cw, c.length = L) : fill ss (ss.map Option.isNone) cw = cw.map some := by
  induction ss generalizing cw with
  | nil => cases cw <;> simp_all [IsMask, Erasure.fill]
  | cons s ss ih =>
    cases cw with
    | nil => simp [IsMask] at h
    | cons c cs =>
      simp only [IsMask] at h
      have hc := hcw c (List.mem_cons_self ..)
      simp only [List.map_cons, Erasure.fill, ih h.2 (fun c' hc' => hcw c' (List.mem_cons_of_mem _ hc'))]
      rcases h.1 with rfl | rfl
      · simp [present, slen_none]
      · simp [present, slen_some, hc]

theorem IsMask.all_some {ss : List Shard} {cw : List Bytes} (h : IsMask ss cw) (ha : ss.all Option.isSome = true) :
    ss = cw.map some := by
  induction ss generalizing cw with
  | nil => cases cw <;> simp_all [IsMask]
  | cons s ss ih =>
    cases cw with
    | nil => simp [IsMask] at h
    | cons c cs =>
      simp only [IsMask] at h
      simp only [List.all_cons, Bool.and_eq_true] at ha
      rcases h.1 with rfl | rfl
      · simp at ha
      · simp [ih h.2 ha.2]

theorem isMask_self (cw : List Bytes) : IsMask (cw.map some) cw := by
  induction cw with
  | nil => simp [IsMask]
  | cons c cs ih => simp [IsMask, ih]

theorem countP_isNone (ss : List Shard) : ss.countP Option.isNone = ss.length - ss.countP Option.isSome := by
  induction ss with
  | nil => rfl
  | cons s ss ih =>
    have := List.countP_le_length (p := Option.isSome) (l := ss)
    cases s <;> simp [ih] <;> omega

theorem all_isSome_of_countP {ss : List Shard} (h : ss.countP Option.isSome = ss.length) : ss.all Option.isSome = true := by
  rw [List.all_eq_true]
  exact List.countP_eq_length.mp h

theorem any_isSome_of_countP {ss : List Shard} (h : 0 < ss.countP Option.isSome) : ss.any Option.isSome = true := by
  rw [List.any_eq_true]
  obtain ⟨a, ha, hp⟩ := List.countP_pos_iff.mp h
  exact ⟨a, ha, hp⟩

section laws
variable {C : Code} (hC : C.Laws) {ds : List Bytes} {L : Nat} (hL : 0 < L) (hd : 0 < C.d)
  (hds : ds.length = C.d) (hl : ∀ s ∈ ds, s.length = L)
include hC hL hd hds hl

theorem cw_length : (ds ++ C.parity ds).length = C.d + C.p := by
  simp [hds, (hC.parity_shape ds L hds hl).1]

theorem cw_each : ∀ c ∈ ds ++ C.parity ds, c.length = L := by
  intro c hc
  rcases List.mem_append.mp hc with h | h
  · exact hl c h
  · exact (hC.parity_shape ds L hds hl).2 c h

theorem verify_cw : verify C ((ds ++ C.parity ds).map some) = .pass := by
  have hlen := cw_length hC hL hd hds hl
  have huni : Uni L ((ds ++ C.parity ds).map some) := (isMask_self _).uni (cw_each hC hL hd hds hl)
  unfold verify
  rw [if_neg (by simp only [List.length_map]; omega), checkShards_strict_uni hL huni]
  have h1 : ((ds ++ C.parity ds).map some).all Option.isSome = true := by simp
  have h2 : ((ds ++ C.parity ds).map some).any Option.isSome = true := by
    apply any_isSome_of_countP
    rw [List.countP_eq_length.mpr (by
      intro a ha
      obtain ⟨b, _, rfl⟩ := List.mem_map.mp ha
      rfl)]
    simp only [List.length_map]; omega
  simp only [h1, h2, Bool.and_self, Bool.not_true, Bool.false_eq_true, if_false]
  have e : ((ds ++ C.parity ds).map some).map (fun x => x.getD []) = ds ++ C.parity ds := by
    simp [List.map_map, Function.comp_def]
  rw [e, ← hds, List.take_left, List.drop_left]
  simp

theorem reconstruct_mask {ss : List Shard} (hm : IsMask ss (ds ++ C.parity ds)) :
    reconstruct C ss (some (ss.map Option.isNone)) =
      if C.d ≤ ss.countP Option.isSome then some ((ds ++ C.parity ds).map some) else none := by
  have hlen := cw_length hC hL hd hds hl
  have hsl := hm.length_eq
  have huni : Uni L ss := hm.uni (cw_each hC hL hd hds hl)
  have hle := List.countP_le_length (p := Option.isSome) (l := ss)
  unfold reconstruct
  rw [if_neg (by omega), checkShards_nilok_uni hL huni]
  simp only [Option.getD_some, Option.isSome_some, Bool.true_and, countP_present_uni hL huni,
    missingRequired_uni hL huni, countP_isNone, asMask_uni hL huni]
  by_cases hk : C.d ≤ ss.countP Option.isSome
  · rw [if_pos hk, any_isSome_of_countP (by omega)]
    simp only [Bool.not_true, Bool.false_eq_true, if_false]
    by_cases hall : ss.countP Option.isSome = ss.length
    · have : ss = (ds ++ C.parity ds).map some := hm.all_some (all_isSome_of_countP hall)
      have h1 : (ss.countP Option.isSome = C.d + C.p) := by omega
      simp only [h1, decide_true, Bool.true_or, if_true]
      rw [← this]
    · have h1 : ¬ (ss.countP Option.isSome = C.d + C.p) := by omega
      have h2 : ¬ (ss.length - ss.countP Option.isSome = 0) := by omega
      have h3 : ¬ (ss.countP Option.isSome < C.d) := by omega
      simp only [h1, h2, h3, decide_false, Bool.or_self, Bool.false_eq_true, if_false]
      rw [hC.recon_spec ds L ss hds hl hm hk, hm.fill_eq hL (cw_each hC hL hd hds hl)]
  · rw [if_neg hk]
    by_cases ha : ss.any Option.isSome = true
    · simp only [ha, Bool.not_true, Bool.false_eq_true, if_false]
      have h1 : ¬ (ss.countP Option.isSome = C.d + C.p) := by omega
      have h2 : ¬ (ss.length - ss.countP Option.isSome = 0) := by omega
      have h3 : (ss.countP Option.isSome < C.d) := by omega
      simp [h1, h2, h3]
    · simp [ha]

end laws

/-! ## the read path of the fixed code over a damaged set of shard files

`tr` pairs every shard file as it is now (`none` = absent) with the shard that was written there. -/

/-- `readShard .fixed`, which never panics -/
def rd (f : Option Bytes) : Shard × Option Bytes :=
  match f with
  | none => (none, none)
  | some ba => if ba.length < metaSize then (none, none) else (some (ba.drop metaSize), some (ba.take metaSize))

theorem rd_some (ba : Bytes) : rd (some ba) =
    if ba.length < metaSize then (none, none) else (some (ba.drop metaSize), some (ba.take metaSize)) := rfl

theorem readShard_fixed (f : Option Bytes) : readShard .fixed f = some (rd f) := by
  cases f with
  | none => rfl
  | some ba =>
    simp only [readShard, rd_some]
    by_cases h : ba.length < metaSize <;> simp [h]

theorem readAll_fixed (fs : List (Option Bytes)) : readAll .fixed fs = some (fs.map rd) := by
  induction fs with
  | nil => rfl
  | cons f fs ih => simp [readAll, ih, readShard_fixed]

theorem getOne_fixed_fst (C : Code) (md5 : Bytes → Bytes) (repair : Bool) (fs : List (Option Bytes)) :
    (getOne .fixed C md5 repair fs).1 =
      if (fs.map rd).all (fun x => x.1.isNone) then .err else decode .fixed C md5 (fs.map rd) := by
  unfold getOne
  rw [readAll_fixed]
  dsimp only
  split
  · rfl
  · cases h : decode .fixed C md5 (fs.map rd) with
    | err => rfl
    | panic => rfl
    | ok data idxs =>
      dsimp only
      split
      · split <;> rfl
      · rfl

theorem getOne_fixed_files (C : Code) (md5 : Bytes → Bytes) (fs : List (Option Bytes)) (data : Bytes)
    (idxs : List Nat) (fresh : List Bytes)
    (hne : ((fs.map rd).all fun x => x.1.isNone) = false)
    (hdec : decode .fixed C md5 (fs.map rd) = .ok data idxs) (henc : encodeFiles C md5 data = some fresh) :
    (getOne .fixed C md5 true fs).2.1 = if idxs.isEmpty then fs else rewrite fs fresh idxs := by
  unfold getOne
  rw [readAll_fixed]
  dsimp only
  rw [if_neg (by rw [hne]; simp), hdec]
  dsimp only
  rw [henc]
  cases idxs <;> simp

theorem rewrite_nil (fs : List (Option Bytes)) (fresh : List Bytes) (h : fs.length = fresh.length) :
    rewrite fs fresh [] = fs := by
  unfold rewrite
  simp only [List.contains_nil, Bool.false_eq_true, if_false]
  have e : (fun (x : (Option Bytes × Bytes) × Nat) => x.1.1) = Prod.fst ∘ Prod.fst := rfl
  have e2 : (fun (x : (Option Bytes × Bytes) × Nat) => match x with | ((f, _), _) => f) = Prod.fst ∘ Prod.fst := by
    funext x; rfl
  first
    | rw [e, ← List.map_map, List.zipIdx_map_fst, List.map_fst_zip (by omega)]
    | rw [e2, ← List.map_map, List.zipIdx_map_fst, List.map_fst_zip (by omega)]

theorem nilIdx_ge (ss : List Shard) (k : Nat) : ∀ i ∈ nilIdx ss k, k ≤ i := by
  induction ss generalizing k with
  | nil => intro i hi; simp [nilIdx] at hi
  | cons s ss ih =>
    intro i hi
    simp only [nilIdx] at hi
    split at hi
    · simp only [List.mem_cons] at hi
      rcases hi with rfl | hi
      · exact Nat.le_refl _
      · have := ih (k+1) i hi; omega
    · have := ih (k+1) i hi; omega

section read
variable (md5 : Bytes → Bytes) (d size : Nat)

/-- the file is exactly what `Add` wrote -/
def intact (x : Option Bytes × Bytes) : Bool := x.1 == some (shardFile md5 d size x.2)

/-- the checksum detects the damage: a present file that differs from what was written is either
shorter than the metadata prefix or its body does not match its checksum field -/
def Detects (tr : List (Option Bytes × Bytes)) : Prop :=
  ∀ x ∈ tr, ∀ b, x.1 = some b → b ≠ shardFile md5 d size x.2 → metaSize ≤ b.length →
    (b.take metaSize).drop 1 ≠ md5 (b.drop metaSize)

variable (hmd : ∀ b, (md5 b).length = 16)
include hmd

theorem rd_file (c : Bytes) : rd (some (shardFile md5 d size c)) = (some c, some (padCount d size :: md5 c)) := by
  have h17 : (padCount d size :: md5 c).length = metaSize := by simp [hmd, metaSize]
  rw [rd_some]
  unfold shardFile
  rw [if_neg (by simp only [List.length_append]; omega), ← h17, List.drop_left, List.take_left]

theorem prepass_rd (x : Option Bytes × Bytes)
    (hx : ∀ b, x.1 = some b → b ≠ shardFile md5 d size x.2 → metaSize ≤ b.length →
      (b.take metaSize).drop 1 ≠ md5 (b.drop metaSize)) :
    prepass1 md5 (rd x.1) =
      if intact md5 d size x then (some x.2, some (padCount d size :: md5 x.2)) else (none, none) := by
  obtain ⟨f, c⟩ := x
  cases f with
  | none => simp [rd, prepass1, intact]
  | some b =>
    by_cases hi : b = shardFile md5 d size c
    · subst hi
      simp only [intact, beq_self_eq_true, if_true]
      rw [rd_file md5 d size hmd]
      simp [prepass1, hmd, metaSize]
    · have hni : intact md5 d size (some b, c) = false := by simp [intact, hi]
      rw [hni]
      simp only [rd_some]
      split
      · rfl
      · rename_i hlen
        have hlen' : metaSize ≤ b.length := by omega
        have := hx b rfl hi hlen'
        have ht : (b.take metaSize).length = metaSize := by simp; omega
        simp only [prepass1]
        rw [if_pos]
        · rfl
        · have h2 : ((b.take metaSize).drop 1 != md5 (b.drop metaSize)) = true := by
            simp only [bne_iff_ne, ne_eq]; exact this
          rw [h2]; simp

omit hmd in
theorem rewrite_aux (tr : List (Option Bytes × Bytes)) (k : Nat) (idxs : List Nat)
    (h : ∀ i, k ≤ i → (idxs.contains i = true ↔
      i ∈ nilIdx (tr.map fun x => if intact md5 d size x then some x.2 else none) k)) :
    (((tr.map (·.1)).zip (tr.map fun x => shardFile md5 d size x.2)).zipIdx k).map
        (fun x => if idxs.contains x.2 then some x.1.2 else x.1.1)
      = tr.map fun x => some (shardFile md5 d size x.2) := by
  induction tr generalizing k with
  | nil => rfl
  | cons x tr ih =>
    simp only [List.map_cons, List.zip_cons_cons, List.zipIdx_cons, List.cons.injEq]
    constructor
    · by_cases hi : intact md5 d size x = true
      · have : x.1 = some (shardFile md5 d size x.2) := by simpa [intact] using hi
        rw [this]; split <;> rfl
      · have hi' : intact md5 d size x = false := by simpa using hi
        have hk := (h k (Nat.le_refl _)).mpr (by simp [nilIdx, hi'])
        rw [if_pos hk]
    · apply ih (k+1)
      intro i hi
      rw [h i (by omega)]
      simp only [List.map_cons, nilIdx]
      by_cases hx : intact md5 d size x = true
      · simp [hx]
      · have hx' : intact md5 d size x = false := by simpa using hx
        simp only [hx', Bool.false_eq_true, if_false, Option.isNone_none, if_true, List.mem_cons]
        constructor
        · rintro (rfl | h1)
          · omega
          · exact h1
        · exact Or.inr

end read

/-! ## the tail of `Decode` on a complete, correct shard set -/

section main
variable {C : Code} (hC : C.Laws) (md5 : Bytes → Bytes) (data : Bytes) (hdata : 0 < data.length)
  (hd : 0 < C.d) (h256 : C.d < 256)

/-- the code word `Encode data` produces -/
def cwOf (C : Code) (data : Bytes) : List Bytes := split C.d data ++ C.parity (split C.d data)

include hC hdata hd h256

theorem finish_fixed (sm : List (Shard × Option Bytes)) (idxs : List Nat)
    (hs : sm.map (·.1) = (cwOf C data).map some)
    (hpad : ∀ x ∈ sm, metaMatches md5 x.1 x.2 = true → (x.2.getD []).headD 0 = padCount C.d data.length) :
    finish .fixed C md5 sm idxs =
      if sm.any (fun x => metaMatches md5 x.1 x.2) then .ok data idxs else .err := by
  have hL := perShard_pos C.d data.length hd hdata
  have hds := split_length C.d data
  have hl := split_each C.d data hd
  have hsz := (perShard_spec C.d data.length hd).1
  have hflat := split_flatten C.d data hd
  have hcwl := cw_length hC hL hd hds hl
  obtain ⟨s0, rest, hs0⟩ : ∃ s0 rest, split C.d data = s0 :: rest := by
    cases h : split C.d data with
    | nil => rw [h] at hds; simp at hds; omega
    | cons a b => exact ⟨a, b, rfl⟩
  have hhead : slen ((List.map some (cwOf C data)).headD none) = perShard C.d data.length := by
    unfold cwOf
    rw [hs0]
    simp only [List.cons_append, List.map_cons, List.headD_cons, slen_some]
    exact hl s0 (by rw [hs0]; exact List.mem_cons_self ..)
  have htake : (List.map some (cwOf C data)).take C.d = (split C.d data).map some := by
    unfold cwOf
    rw [List.map_append]
    apply List.take_left'
    simp [hds]
  have hfl : (split C.d data).flatten.length = perShard C.d data.length * C.d := by
    rw [hflat]
    have e := Nat.mul_comm (perShard C.d data.length) C.d
    simp only [List.length_append, List.length_replicate]
    omega
  have hjoin : join C (List.map some (cwOf C data)) (perShard C.d data.length * C.d) =
      some (data ++ List.replicate (C.d * perShard C.d data.length - data.length) 0) := by
    unfold join
    rw [if_neg (by unfold cwOf; simp only [List.length_map]; omega), htake, joinCheck_somes, hfl]
    simp only [Nat.zero_add, Nat.le_refl, decide_true, List.map_map]
    have : (fun x => Option.getD x []) ∘ some = (id : Bytes → Bytes) := rfl
    rw [this, List.map_id, ← hfl, List.take_length, hflat]
  unfold finish
  simp only [hs, hhead, hjoin]
  cases hf : sm.find? (fun x => metaMatches md5 x.1 x.2) with
  | none =>
    have : sm.any (fun x => metaMatches md5 x.1 x.2) = false := by
      rw [List.any_eq_false]
      intro x hx
      have := List.find?_eq_none.mp hf x hx
      simpa using this
    simp [this]
  | some x =>
    have hx := List.mem_of_find?_eq_some hf
    have hp := List.find?_some hf
    have : sm.any (fun x => metaMatches md5 x.1 x.2) = true := List.any_eq_true.mpr ⟨x, hx, hp⟩
    simp only [this, if_true, hpad x hx hp, padCount_eq C.d data.length hd h256]
    rw [if_neg (by simp only [List.length_append, List.length_replicate]; omega), unpad]

variable (hmd : ∀ b, (md5 b).length = 16) (tr : List (Option Bytes × Bytes))
  (htr : tr.map (·.2) = cwOf C data) (hdet : Detects md5 C.d data.length tr)
include hmd htr hdet

/-- what the shards look like after the checksum pre-pass -/
def maskOf (md5 : Bytes → Bytes) (d size : Nat) (tr : List (Option Bytes × Bytes)) : List Shard :=
  tr.map fun x => if intact md5 d size x then some x.2 else none

omit hC hdata hd h256 hmd hdet in
theorem maskOf_isMask : IsMask (maskOf md5 C.d data.length tr) (cwOf C data) := by
  rw [← htr]
  clear htr
  induction tr with
  | nil => simp [maskOf, IsMask]
  | cons x tr ih =>
    simp only [maskOf, List.map_cons, IsMask]
    refine ⟨?_, ih⟩
    split <;> simp

omit hC hdata hd h256 hmd htr hdet in
theorem maskOf_countP : (maskOf md5 C.d data.length tr).countP Option.isSome = tr.countP (intact md5 C.d data.length) := by
  induction tr with
  | nil => rfl
  | cons x tr ih =>
    simp only [maskOf, List.map_cons, List.countP_cons] at ih ⊢
    rw [ih]
    by_cases h : intact md5 C.d data.length x = true <;> simp [h]

omit hC hdata hd h256 htr in
theorem prepass_all :
    (tr.map fun x => rd x.1).map (prepass1 md5) =
      tr.map fun x => if intact md5 C.d data.length x then (some x.2, some (padCount C.d data.length :: md5 x.2)) else (none, none) := by
  rw [List.map_map]
  apply List.map_congr_left
  intro x hx
  exact prepass_rd md5 C.d data.length hmd x (hdet x hx)

theorem tr_length : tr.length = C.d + C.p := by
  have hL := perShard_pos C.d data.length hd hdata
  have := cw_length hC hL hd (split_length C.d data) (split_each C.d data hd)
  have h2 := congrArg List.length htr
  simp only [List.length_map] at h2
  unfold cwOf at h2
  omega

theorem decode_fixed_slow (hv : verify C ((tr.map fun x => rd x.1).map (·.1)) ≠ .pass) :
    decode .fixed C md5 (tr.map fun x => rd x.1) =
      if C.d ≤ tr.countP (intact md5 C.d data.length) then .ok data (nilIdx (maskOf md5 C.d data.length tr) 0)
      else .err := by
  have hL := perShard_pos C.d data.length hd hdata
  have hds := split_length C.d data
  have hl := split_each C.d data hd
  have hn := tr_length hC md5 data hdata hd h256 hmd tr htr hdet
  have hmask := maskOf_isMask md5 data tr htr
  unfold decode
  rw [if_neg (by simp only [List.length_map]; omega)]
  have hpre := prepass_all md5 data hmd tr hdet
  have hfst : ((tr.map fun x => rd x.1).map (prepass1 md5)).map (·.1) = maskOf md5 C.d data.length tr := by
    rw [hpre, List.map_map]
    apply List.map_congr_left
    intro x _
    simp only [Function.comp]
    split <;> rfl
  have hrec := reconstruct_mask hC hL hd hds hl hmask
  rw [maskOf_countP] at hrec
  unfold cwOf at htr
  split
  · rename_i h; exact absurd h hv
  · dsimp only
    rw [hfst]
    unfold reconstructMissing
    rw [hrec]
    by_cases hk : C.d ≤ tr.countP (intact md5 C.d data.length)
    · simp only [if_pos hk, verify_cw hC hL hd hds hl]
      have hz : ((split C.d data ++ C.parity (split C.d data)).map some).zip
            (((tr.map fun x => rd x.1).map (prepass1 md5)).map (·.2)) =
          tr.map fun x => ((some x.2 : Shard), if intact md5 C.d data.length x then some (padCount C.d data.length :: md5 x.2) else none) := by
        rw [← htr, hpre, List.map_map, List.map_map]
        rw [List.zip_map']
        apply List.map_congr_left
        intro x _
        simp only [Function.comp]
        split <;> rfl
      rw [hz]
      rw [finish_fixed hC md5 data hdata hd h256]
      · have : (tr.map fun x => ((some x.2 : Shard), if intact md5 C.d data.length x then some (padCount C.d data.length :: md5 x.2) else none)).any
            (fun x => metaMatches md5 x.1 x.2) = true := by
          have hpos : 0 < tr.countP (intact md5 C.d data.length) := by omega
          obtain ⟨x, hx, hi⟩ := List.countP_pos_iff.mp hpos
          rw [List.any_eq_true]
          refine ⟨_, List.mem_map.mpr ⟨x, hx, rfl⟩, ?_⟩
          simp [hi, metaMatches, hmd, metaSize]
        rw [this]; rfl
      · unfold cwOf
        rw [List.map_map, ← htr, List.map_map]; rfl
      · intro y hy hm
        obtain ⟨x, _, rfl⟩ := List.mem_map.mp hy
        by_cases hi : intact md5 C.d data.length x = true
        · simp [hi]
        · simp [hi, metaMatches] at hm
    · simp only [if_neg hk]

omit hC hdata hd h256 htr in
theorem pad_of_match (y : Shard × Option Bytes) (hy : y ∈ tr.map fun x => rd x.1)
    (hm : metaMatches md5 y.1 y.2 = true) : (y.2.getD []).headD 0 = padCount C.d data.length := by
  obtain ⟨x, hx, rfl⟩ := List.mem_map.mp hy
  obtain ⟨f, c⟩ := x
  cases f with
  | none => simp [rd, metaMatches] at hm
  | some b =>
    simp only [rd_some] at hm ⊢
    by_cases hlen : b.length < metaSize
    · simp [hlen, metaMatches] at hm
    · simp only [hlen, if_false, metaMatches, Option.getD_some, Bool.and_eq_true, beq_iff_eq] at hm
      have hb : b = shardFile md5 C.d data.length c := by
        apply Classical.byContradiction
        intro hne
        exact hdet (some b, c) hx b rfl hne (by omega) hm.2
      subst hb
      have := rd_file md5 C.d data.length hmd c
      rw [rd_some, if_neg hlen] at this
      rw [if_neg hlen, this]
      rfl

theorem decode_fixed_fast (hv : verify C ((tr.map fun x => rd x.1).map (·.1)) = .pass)
    (h2 : (tr.map fun x => rd x.1).map (·.1) = (cwOf C data).map some) :
    decode .fixed C md5 (tr.map fun x => rd x.1) =
      if (tr.map fun x => rd x.1).any (fun x => metaMatches md5 x.1 x.2) then .ok data [] else .err := by
  have hn := tr_length hC md5 data hdata hd h256 hmd tr htr hdet
  unfold decode
  rw [if_neg (by simp only [List.length_map]; omega)]
  simp only [hv]
  exact finish_fixed hC md5 data hdata hd h256 _ _ h2 (pad_of_match md5 data hmd tr hdet)

omit hC hdata hd h256 htr hdet in
theorem maskOf_isMask_raw :
    IsMask (maskOf md5 C.d data.length tr) ((tr.map fun x => (rd x.1).1).map (·.getD [])) := by
  induction tr with
  | nil => simp [maskOf, IsMask]
  | cons x tr ih =>
    simp only [maskOf, List.map_cons, IsMask] at ih ⊢
    refine ⟨?_, ih⟩
    by_cases hi : intact md5 C.d data.length x = true
    · right
      obtain ⟨f, c⟩ := x
      simp only [intact, beq_iff_eq] at hi
      subst hi
      simp [intact, rd_file md5 C.d data.length hmd]
    · left; simp [hi]

omit hC hdata hd h256 hmd htr hdet in
theorem checkShards_strict_elim {ss : List Shard} (h : checkShards ss false = true) :
    shardSize ss ≠ 0 ∧ ∀ s ∈ ss, slen s = shardSize ss := by
  unfold checkShards at h
  simp only [Bool.and_eq_true, bne_iff_ne, ne_eq, List.all_eq_true, Bool.false_and, Bool.or_false, beq_iff_eq] at h
  exact h

/-- with at least `d` intact shard files, a shard set that passes `Verify` is the original one -/
theorem verify_pass_eq (hk : C.d ≤ tr.countP (intact md5 C.d data.length))
    (hv : verify C (tr.map fun x => (rd x.1).1) = .pass) :
    (tr.map fun x => (rd x.1).1) = (cwOf C data).map some := by
  have hL := perShard_pos C.d data.length hd hdata
  have hds := split_length C.d data
  have hl := split_each C.d data hd
  have hmask := maskOf_isMask md5 data tr htr
  have hmraw := maskOf_isMask_raw md5 data hmd tr (C := C)
  have hcnt := maskOf_countP md5 data tr (C := C)
  unfold verify at hv
  split at hv
  · exact absurd hv (by simp)
  rename_i hlen
  split at hv
  · exact absurd hv (by simp)
  rename_i hchk
  have hchk : checkShards (tr.map fun x => (rd x.1).1) false = true := by
    cases h : checkShards (tr.map fun x => (rd x.1).1) false
    · rw [h] at hchk; simp at hchk
    · rfl
  have hlen : (tr.map fun x => (rd x.1).1).length = C.d + C.p := by
    apply Classical.byContradiction; intro h; exact hlen h
  obtain ⟨hnz, hall⟩ := checkShards_strict_elim hchk
  dsimp only at hv
  split at hv
  · rename_i hpar
    -- the raw bodies form the code word of their own first d entries
    have hbs : ((tr.map fun x => (rd x.1).1).map (·.getD [])) =
        ((tr.map fun x => (rd x.1).1).map (·.getD [])).take C.d ++
          C.parity (((tr.map fun x => (rd x.1).1).map (·.getD [])).take C.d) := by
      rw [hpar, List.take_append_drop]
    have hd' : (((tr.map fun x => (rd x.1).1).map (·.getD [])).take C.d).length = C.d := by
      simp only [List.length_take, List.length_map] at hlen ⊢; omega
    have hl' : ∀ s ∈ ((tr.map fun x => (rd x.1).1).map (·.getD [])).take C.d,
        s.length = shardSize (tr.map fun x => (rd x.1).1) := by
      intro s hs
      have := List.mem_of_mem_take hs
      obtain ⟨t, ht, rfl⟩ := List.mem_map.mp this
      exact hall t ht
    rw [hbs] at hmraw
    have e1 := hC.recon_spec _ _ _ hd' hl' hmraw (by rw [hcnt]; exact hk)
    have e2 := hC.recon_spec _ _ _ hds hl hmask (by rw [hcnt]; exact hk)
    have hbody : ((tr.map fun x => (rd x.1).1).map (·.getD [])) = cwOf C data := by
      rw [hbs, ← e1, e2]; rfl
    rw [← hbody, List.map_map]
    conv => lhs; rw [← List.map_id (tr.map fun x => (rd x.1).1)]
    apply List.map_congr_left
    intro s hs
    have h1 := hall s hs
    cases s with
    | none => rw [slen_none] at h1; exact absurd h1.symm hnz
    | some b => rfl
  · exact absurd hv (by simp)

end main

end Sop.Erasure
