import Sop.Model.JsonPatch
/-! Helper lemmas about the metadata-file model (`Sop/Model/JsonPatch.lean`) used by `Sop/Props/C13.lean`. -/
namespace Sop.JsonPatch

/-! ## prefix search -/

theorem isPrefixOf_self_append (n r : List Char) : n.isPrefixOf (n ++ r) = true := by
  induction n with
  | nil => simp [List.isPrefixOf]
  | cons c n ih => simp [ih]

theorem splitAt_here (k : Char) (n r : List Char) : splitAt (k :: n) ((k :: n) ++ r) = some ([], r) := by
  have h := isPrefixOf_self_append (k :: n) r
  have e : (k :: n) ++ r = k :: (n ++ r) := rfl
  rw [e] at h ⊢
  unfold splitAt
  rw [if_pos h]
  have : List.drop (k :: n).length (k :: (n ++ r)) = r := by
    rw [← e]; exact List.drop_left
  rw [this]

theorem splitAt_skip1 (needle : List Char) (c : Char) (t a b : List Char)
    (hn : needle.isPrefixOf (c :: t) = false) (h : splitAt needle t = some (a, b)) :
    splitAt needle (c :: t) = some (c :: a, b) := by
  unfold splitAt
  simp [hn, h]

/-- side condition under which a piece of text `l` cannot contain or begin an occurrence of `,"k0…`:
every `,` in `l` is followed inside `l` by two characters that are not `"` `k0`. -/
def litOk (k0 : Char) : List Char → Bool
  | [] => true
  | c :: t =>
    (c != ',' || (match t with
      | d :: e :: _ => (d != '"' || e != k0)
      | _ => false)) && litOk k0 t

theorem skipLit (k0 : Char) (n : List Char) (L R a b : List Char) (hL : litOk k0 L = true)
    (h : splitAt (',' :: '"' :: k0 :: n) R = some (a, b)) :
    splitAt (',' :: '"' :: k0 :: n) (L ++ R) = some (L ++ a, b) := by
  induction L with
  | nil => simpa using h
  | cons c t ih =>
    simp only [litOk, Bool.and_eq_true] at hL
    obtain ⟨h1, h2⟩ := hL
    have := ih h2
    rw [List.cons_append, List.cons_append]
    apply splitAt_skip1 _ _ _ _ _ _ this
    by_cases hc : c = ','
    · subst hc
      match t, h1 with
      | d :: e :: t', h1 =>
        simp only [bne_self_eq_false, Bool.false_or, Bool.or_eq_true, bne_iff_ne, ne_eq] at h1
        simp only [List.cons_append, List.isPrefixOf, Bool.and_eq_false_imp, beq_iff_eq]
        intro _ hd he
        rcases h1 with h1 | h1
        · exact absurd hd.symm h1
        · exact absurd he.symm h1
      | [], h1 => simp at h1
      | [_], h1 => simp at h1
    · simp only [List.isPrefixOf, Bool.and_eq_false_imp, beq_iff_eq]
      intro h; exact absurd h.symm hc

theorem litOk_of_noComma (k0 : Char) (L : List Char) (h : ∀ c ∈ L, c ≠ ',') : litOk k0 L = true := by
  induction L with
  | nil => rfl
  | cons c t ih =>
    have hc : c ≠ ',' := h c (by simp)
    have := ih (fun c hc => h c (by simp [hc]))
    simp [litOk, hc, this]

/-- every `"` of the text is immediately preceded by a backslash (`p` says whether the character before the
text is one). -/
def guardedFrom (p : Bool) : List Char → Bool
  | [] => true
  | c :: t => (c != '"' || p) && guardedFrom (c == '\\') t

theorem guardedFrom_mono (l : List Char) (p : Bool) (h : guardedFrom p l = true) : guardedFrom true l = true := by
  cases l with
  | nil => rfl
  | cons c t =>
    simp only [guardedFrom, Bool.and_eq_true] at h ⊢
    exact ⟨by simp, h.2⟩

theorem skipGuarded (k0 : Char) (n : List Char) (E R a b : List Char) (p : Bool) (hE : guardedFrom p E = true)
    (hR : ['"', k0].isPrefixOf R = false)
    (h : splitAt (',' :: '"' :: k0 :: n) R = some (a, b)) :
    splitAt (',' :: '"' :: k0 :: n) (E ++ R) = some (E ++ a, b) := by
  induction E generalizing p with
  | nil => simpa using h
  | cons c t ih =>
    simp only [guardedFrom, Bool.and_eq_true] at hE
    obtain ⟨_, h2⟩ := hE
    have := ih _ h2
    rw [List.cons_append, List.cons_append]
    apply splitAt_skip1 _ _ _ _ _ _ this
    by_cases hc : c = ','
    · subst hc
      cases t with
      | nil =>
        simp only [List.nil_append]
        cases R with
        | nil => simp [List.isPrefixOf]
        | cons r0 R' =>
          cases R' with
          | nil => simp [List.isPrefixOf]
          | cons r1 R'' =>
            simp only [List.isPrefixOf, Bool.and_true, Bool.and_eq_false_imp, beq_iff_eq] at hR ⊢
            intro _ h0 h1
            exact absurd h1 (by simpa using hR h0)
      | cons d t' =>
        simp only [guardedFrom, Bool.and_eq_true] at h2
        have hd : d ≠ '"' := by
          have := h2.1
          simpa using this
        simp only [List.cons_append, List.isPrefixOf, Bool.and_eq_false_imp, beq_iff_eq]
        intro _ h; exact absurd h.symm hd
    · simp only [List.isPrefixOf, Bool.and_eq_false_imp, beq_iff_eq]
      intro h; exact absurd h.symm hc

/-! ## the concrete escaping is guarded -/

theorem hexDigit_ne (d : Nat) : hexDigit d ≠ '"' ∧ hexDigit d ≠ '\\' := by
  unfold hexDigit
  split <;> decide

theorem guarded_escChar (c : Char) (X : List Char) (p : Bool) (hX : guardedFrom false X = true) :
    guardedFrom p (escChar c ++ X) = true := by
  have hT := guardedFrom_mono X false hX
  unfold escChar
  split
  · simp [guardedFrom, hX]
  split
  · simp [guardedFrom, hT]
  split
  · simp [guardedFrom, hX]
  split
  · simp [guardedFrom, hX]
  split
  · simp [guardedFrom, hX]
  split
  · simp [guardedFrom, hX]
  split
  · simp [guardedFrom, hX]
  split
  · have h1 := hexDigit_ne (c.toNat / 4096 % 16)
    have h2 := hexDigit_ne (c.toNat / 256 % 16)
    have h3 := hexDigit_ne (c.toNat / 16 % 16)
    have h4 := hexDigit_ne (c.toNat % 16)
    have e4 : (hexDigit (c.toNat % 16) == '\\') = false := by simp [h4.2]
    simp [guardedFrom, hex4, h1.1, h2.1, h3.1, h4.1, h1.2, h2.2, h3.2, e4, hX]
  · rename_i h1 h2 _ _ _ _ _ _
    have e : (c == '\\') = false := by simp [h2]
    simp [guardedFrom, h1, e, hX]

theorem guarded_escape (s : List Char) (p : Bool) : guardedFrom p (escape s) = true := by
  induction s generalizing p with
  | nil => rfl
  | cons c s ih => exact guarded_escChar c _ p (ih false)

/-! ## integers -/

theorem digitChar_isDigit (d : Nat) : isDigit (digitChar d) = true := by
  unfold digitChar
  split <;> decide

theorem digitVal_digitChar (d : Nat) (h : d < 10) : digitVal (digitChar d) = some d := by
  match d, h with
  | 0, _ | 1, _ | 2, _ | 3, _ | 4, _ | 5, _ | 6, _ | 7, _ | 8, _ | 9, _ => decide

theorem natDigitsF_isDigit (f n : Nat) : ∀ c ∈ natDigitsF f n, isDigit c = true := by
  induction f generalizing n with
  | zero => intro c hc; simp [natDigitsF] at hc; subst hc; exact digitChar_isDigit _
  | succ f ih =>
    intro c hc
    rw [natDigitsF] at hc
    split at hc
    · simp at hc; subst hc; exact digitChar_isDigit _
    · simp only [List.mem_append, List.mem_singleton] at hc
      rcases hc with hc | hc
      · exact ih _ c hc
      · subst hc; exact digitChar_isDigit _

theorem natDigits_isDigit (n : Nat) : ∀ c ∈ natDigits n, isDigit c = true := natDigitsF_isDigit n n

theorem natDigits_ne_nil (n : Nat) : natDigits n ≠ [] := by
  unfold natDigits
  cases n with
  | zero => simp [natDigitsF]
  | succ f => rw [natDigitsF]; split <;> simp

theorem digitsVal_snoc (l : List Char) (c : Char) : digitsVal (l ++ [c]) = digitsVal l * 10 + (digitVal c).getD 0 := by
  simp [digitsVal, List.foldl_append]

theorem digitsVal_natDigitsF (f n : Nat) (h : n ≤ f) : digitsVal (natDigitsF f n) = n := by
  induction f generalizing n with
  | zero =>
    have : n = 0 := by omega
    subst this; simp [natDigitsF, digitsVal, digitVal_digitChar 0 (by decide)]
  | succ f ih =>
    rw [natDigitsF]
    split
    · rename_i h10
      simp [digitsVal, digitVal_digitChar n h10]
    · rw [digitsVal_snoc, ih (n / 10) (by omega), digitVal_digitChar _ (Nat.mod_lt _ (by decide))]
      simp only [Option.getD_some]
      omega

theorem digitsVal_natDigits (n : Nat) : digitsVal (natDigits n) = n := digitsVal_natDigitsF n n (Nat.le_refl _)

theorem isDigit_facts (c : Char) (h : isDigit c = true) : c ≠ ',' ∧ c ≠ '}' ∧ c ≠ '-' ∧ isWs c = false ∧ notDelim c = true := by
  refine ⟨?_, ?_, ?_, ?_, ?_⟩
  · rintro rfl; exact absurd h (by decide)
  · rintro rfl; exact absurd h (by decide)
  · rintro rfl; exact absurd h (by decide)
  · unfold isWs
    have h1 : c ≠ ' ' := by rintro rfl; exact absurd h (by decide)
    have h2 : c ≠ '\t' := by rintro rfl; exact absurd h (by decide)
    have h3 : c ≠ '\n' := by rintro rfl; exact absurd h (by decide)
    have h4 : c ≠ '\r' := by rintro rfl; exact absurd h (by decide)
    simp [h1, h2, h3, h4]
  · unfold notDelim
    have h1 : c ≠ ',' := by rintro rfl; exact absurd h (by decide)
    have h2 : c ≠ '}' := by rintro rfl; exact absurd h (by decide)
    simp [h1, h2]

theorem takeWhile_append_stop (p : Char → Bool) (L : List Char) (x : Char) (R : List Char)
    (hL : ∀ c ∈ L, p c = true) (hx : p x = false) :
    (L ++ x :: R).takeWhile p = L ∧ (L ++ x :: R).dropWhile p = x :: R := by
  induction L with
  | nil => simp [hx]
  | cons c t ih =>
    have hc := hL c (by simp)
    have := ih (fun c hc => hL c (by simp [hc]))
    simp [hc, this.1, this.2]

theorem takeWhile_all (p : Char → Bool) (L : List Char) (hL : ∀ c ∈ L, p c = true) :
    L.takeWhile p = L ∧ L.dropWhile p = [] := by
  induction L with
  | nil => simp
  | cons c t ih =>
    have hc := hL c (by simp)
    have := ih (fun c hc => hL c (by simp [hc]))
    simp [hc, this.1, this.2]

theorem takeWhile_stop_nil (p : Char → Bool) (R : List Char) (h : ∀ x ∈ R.head?, p x = false) :
    R.takeWhile p = [] ∧ R.dropWhile p = R := by
  cases R with
  | nil => simp
  | cons x R =>
    have := h x (by simp)
    simp [this]

/-- the characters of a printed integer: no `,`, no `}`, no whitespace; never empty -/
theorem showInt_chars (i : Int) : ∀ c ∈ showInt i, c ≠ ',' ∧ isWs c = false ∧ notDelim c = true := by
  intro c hc
  unfold showInt at hc
  have dig : ∀ c ∈ natDigits i.natAbs, c ≠ ',' ∧ isWs c = false ∧ notDelim c = true := by
    intro c hc
    have := isDigit_facts c (natDigits_isDigit _ c hc)
    exact ⟨this.1, this.2.2.2.1, this.2.2.2.2⟩
  split at hc
  · simp only [List.mem_cons] at hc
    rcases hc with rfl | hc
    · decide
    · exact dig c hc
  · exact dig c hc

theorem showInt_ne_nil (i : Int) : showInt i ≠ [] := by
  unfold showInt
  split
  · simp
  · exact natDigits_ne_nil _

theorem readInt_showInt (i : Int) (R : List Char) (hR : ∀ x ∈ R.head?, isDigit x = false) :
    readInt (showInt i ++ R) = some (i, R) := by
  have hd := natDigits_isDigit i.natAbs
  have hne := natDigits_ne_nil i.natAbs
  have key : (natDigits i.natAbs ++ R).takeWhile isDigit = natDigits i.natAbs ∧
      (natDigits i.natAbs ++ R).dropWhile isDigit = R := by
    cases R with
    | nil =>
      simp only [List.append_nil]
      exact takeWhile_all isDigit _ hd
    | cons x R => exact takeWhile_append_stop isDigit _ x R hd (hR x (by simp))
  unfold showInt
  split
  · rename_i hneg
    simp only [List.cons_append, readInt, key.1, key.2]
    have : (natDigits i.natAbs).isEmpty = false := by
      cases h : natDigits i.natAbs with
      | nil => exact absurd h hne
      | cons _ _ => rfl
    simp only [this, Bool.false_eq_true, ↓reduceIte, digitsVal_natDigits, Option.some.injEq, Prod.mk.injEq, and_true]
    omega
  · rename_i hpos
    -- the head is a digit, so the `'-'` branch of `readInt` is not taken
    cases h : natDigits i.natAbs with
    | nil => exact absurd h hne
    | cons d ds =>
      have hdd : isDigit d = true := hd d (by simp [h])
      have hdm : d ≠ '-' := (isDigit_facts d hdd).2.2.1
      have k1 := key.1; have k2 := key.2
      rw [h] at k1 k2
      simp only [List.cons_append] at k1 k2 ⊢
      unfold readInt
      split
      · rename_i heq; simp only [List.cons.injEq] at heq; exact absurd heq.1 hdm
      · simp only [k1, k2, List.isEmpty_cons, Bool.false_eq_true, ↓reduceIte, Option.some.injEq, Prod.mk.injEq, and_true]
        rw [← h, digitsVal_natDigits]
        omega

/-! ## the value rewrite -/

theorem rewriteValue_int (before R : List Char) (old v : Int) (x : Char) (hx : notDelim x = false) :
    rewriteValue before (showInt old ++ x :: R) v = some (before ++ showInt v ++ x :: R) := by
  have hc := showInt_chars old
  have hne := showInt_ne_nil old
  have h1 : (showInt old ++ x :: R).takeWhile isWs = [] ∧ (showInt old ++ x :: R).dropWhile isWs = showInt old ++ x :: R := by
    apply takeWhile_stop_nil
    cases h : showInt old with
    | nil => exact absurd h hne
    | cons d ds =>
      intro y hy
      simp only [List.cons_append, List.head?_cons, Option.mem_def, Option.some.injEq] at hy
      subst hy
      exact (hc d (by simp [h])).2.1
  have h2 := takeWhile_append_stop notDelim (showInt old) x R (fun c h => (hc c h).2.2) hx
  unfold rewriteValue
  simp only [h1.1, h1.2, h2.1, h2.2, List.append_nil]
  have : (showInt old).isEmpty = false := by
    cases h : showInt old with
    | nil => exact absurd h hne
    | cons _ _ => rfl
  simp [this]

/-! ## reading back -/

theorem expect_append (L R : List Char) : expect L (L ++ R) = some R := by
  unfold expect
  rw [if_pos (isPrefixOf_self_append L R), List.drop_left]

theorem readBool_show (b : Bool) (R : List Char) : readBool (showBool b ++ R) = some (b, R) := by
  cases b
  · have : expect (chars! "true") (showBool false ++ R) = none := by
      simp [expect, showBool, List.isPrefixOf]
    have h2 := expect_append (chars! "false") R
    unfold readBool
    rw [this]
    simp only [showBool, Bool.false_eq_true, ↓reduceIte] at h2 ⊢
    rw [h2]
  · have h2 := expect_append (chars! "true") R
    unfold readBool
    simp only [showBool, ↓reduceIte] at h2 ⊢
    rw [h2]

end Sop.JsonPatch
