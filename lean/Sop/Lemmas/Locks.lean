import Sop.Model.Locks
/-! Lemmas for C28: the association-list map, the ghost leases, and the lease invariant
("every live lease is backed by the store entry of its owner") for both implementations. -/
namespace Sop.Locks

/-! ### the map -/
theorem find_congr {α : Type} {p q : α → Bool} : ∀ {l : List α}, (∀ x ∈ l, p x = q x) → l.find? p = l.find? q
  | [], _ => rfl
  | x :: xs, h => by
    have hx := h x (List.mem_cons_self ..)
    have ih := find_congr (l := xs) (fun y hy => h y (List.mem_cons_of_mem _ hy))
    simp [List.find?, hx, ih]

theorem get_key {es : List Entry} {k : Nat} {e : Entry} (h : get es k = some e) : e.key = k := by
  unfold get at h
  have := List.find?_some h
  simpa using this

theorem get_del_same (es : List Entry) (k : Nat) : get (del es k) k = none := by
  unfold get del
  rw [List.find?_eq_none]
  intro x hx
  simp only [List.mem_filter] at hx
  simpa using hx.2

theorem get_del_ne (es : List Entry) {k k' : Nat} (h : k' ≠ k) : get (del es k) k' = get es k' := by
  unfold get del
  rw [List.find?_filter]
  apply find_congr
  intro x _
  by_cases hx : x.key = k'
  · have : x.key ≠ k := fun h' => h (hx ▸ h')
    simp [hx, this, h]
  · simp [hx]

theorem get_put_same (es : List Entry) (e : Entry) : get (put es e) e.key = some e := by
  simp [get, put, List.find?]

theorem get_put_ne (es : List Entry) (e : Entry) {k : Nat} (h : k ≠ e.key) : get (put es e) k = get es k := by
  have h' : ¬ e.key = k := fun x => h x.symm
  have : get (put es e) k = get (del es e.key) k := by simp [get, put, List.find?, h']
  rw [this, get_del_ne es h]

theorem get_filter_shard (f : Nat → Nat) (es : List Entry) (k0 vk : Nat) (v : Entry)
    (h : get (es.filter (fun e => f e.key == f k0)) vk = some v) : get es vk = some v := by
  unfold get at *
  rw [List.find?_filter] at h
  have hv := List.find?_some h
  have hv' : f v.key = f k0 ∧ v.key = vk := by simpa using hv
  rw [← h]
  apply find_congr
  intro x _
  by_cases hx : x.key = vk
  · have : f vk = f k0 := hv'.2 ▸ hv'.1
    simp [hx, this]
  · simp [hx]

/-! ### ghost leases -/
theorem mem_release {gs : List Grant} {k o : Nat} {g : Grant} :
    g ∈ release gs k o ↔ g ∈ gs ∧ ¬ (g.key = k ∧ g.owner = o) := by
  simp only [release, List.mem_filter, Bool.not_eq_true', Bool.and_eq_false_iff, beq_eq_false_iff_ne, ne_eq,
    Bool.not_eq_eq_eq_not, Bool.not_true, Bool.and_eq_true, beq_iff_eq]
  constructor
  · rintro ⟨h1, h2⟩; exact ⟨h1, fun ⟨a, b⟩ => by rcases h2 with h | h <;> contradiction⟩
  · rintro ⟨h1, h2⟩
    refine ⟨h1, ?_⟩
    by_cases hk : g.key = k
    · exact Or.inr (fun ho => h2 ⟨hk, ho⟩)
    · exact Or.inl hk

theorem mem_grant {gs : List Grant} {g0 g : Grant} :
    g ∈ grant gs g0 ↔ g = g0 ∨ (g ∈ gs ∧ ¬ (g.key = g0.key ∧ g.owner = g0.owner)) := by
  simp [grant, mem_release]

theorem mem_releaseAll {o : Nat} {ks : List Nat} {gs : List Grant} {g : Grant} :
    g ∈ releaseAll o ks gs ↔ g ∈ gs ∧ ¬ (g.key ∈ ks ∧ g.owner = o) := by
  induction ks generalizing gs with
  | nil => simp [releaseAll]
  | cons k ks ih =>
    simp only [releaseAll, ih, mem_release, List.mem_cons]
    constructor
    · rintro ⟨⟨h1, h2⟩, h3⟩
      refine ⟨h1, ?_⟩
      rintro ⟨hk | hk, ho⟩
      · exact h2 ⟨hk, ho⟩
      · exact h3 ⟨hk, ho⟩
    · rintro ⟨h1, h2⟩
      exact ⟨⟨h1, fun ⟨a, b⟩ => h2 ⟨Or.inl a, b⟩⟩, fun ⟨a, b⟩ => h2 ⟨Or.inr a, b⟩⟩

/-! ### the lease invariant, generic in the liveness relation
`live now d`: a lease/entry with deadline `d` is still running at time `now`
(in-memory: `now ≤ d`, Redis: `now < d`). -/
structure LiveRel where
  live : Nat → Nat → Prop
  mono_t : ∀ {n n' d}, n ≤ n' → live n' d → live n d
  mono_d : ∀ {n d d'}, d ≤ d' → live n d → live n d'

def memLive : LiveRel := ⟨fun n d => n ≤ d, by intros; omega, by intros; omega⟩
def redisLive : LiveRel := ⟨fun n d => n < d, by intros; omega, by intros; omega⟩

/-- every live lease is backed by an entry of the same owner that lasts at least as long -/
def Inv (L : LiveRel) (es : List Entry) (gs : List Grant) (now : Nat) : Prop :=
  ∀ g ∈ gs, L.live now g.dl → ∃ e, get es g.key = some e ∧ e.owner = g.owner ∧ g.dl ≤ e.exp

variable {L : LiveRel} {es : List Entry} {gs : List Grant} {n : Nat}

theorem Inv.time (h : Inv L es gs n) {n' : Nat} (hn : n ≤ n') : Inv L es gs n' :=
  fun g hg hl => h g hg (L.mono_t hn hl)

theorem Inv.rel (h : Inv L es gs n) (k o : Nat) : Inv L es (release gs k o) n :=
  fun g hg hl => h g (mem_release.1 hg).1 hl

/-- deleting a key whose entry (if any) is dead -/
theorem Inv.del_dead (h : Inv L es gs n) {k : Nat} (hd : ∀ e, get es k = some e → ¬ L.live n e.exp) :
    Inv L (del es k) gs n := by
  intro g hg hl
  obtain ⟨e, he, ho, hx⟩ := h g hg hl
  by_cases hk : g.key = k
  · exact absurd (L.mono_d hx hl) (hd e (hk ▸ he))
  · exact ⟨e, by rw [get_del_ne es hk]; exact he, ho, hx⟩

/-- deleting one's own entry together with one's own lease -/
theorem Inv.del_own (h : Inv L es gs n) {k o : Nat} (hown : ∀ e, get es k = some e → e.owner = o) :
    Inv L (del es k) (release gs k o) n := by
  intro g hg hl
  obtain ⟨hg1, hg2⟩ := mem_release.1 hg
  obtain ⟨e, he, ho, hx⟩ := h g hg1 hl
  by_cases hk : g.key = k
  · exact absurd ⟨hk, ho ▸ hown e (hk ▸ he)⟩ hg2
  · exact ⟨e, by rw [get_del_ne es hk]; exact he, ho, hx⟩

/-- overwriting a key whose entry (if any) is dead, no lease handed out -/
theorem Inv.put_dead (h : Inv L es gs n) {k o x : Nat} (hd : ∀ e, get es k = some e → ¬ L.live n e.exp) :
    Inv L (put es ⟨k, o, x⟩) gs n := by
  intro g hg hl
  obtain ⟨e, he, ho, hx⟩ := h g hg hl
  by_cases hk : g.key = k
  · exact absurd (L.mono_d hx hl) (hd e (hk ▸ he))
  · exact ⟨e, by rw [get_put_ne es _ (by simpa using hk)]; exact he, ho, hx⟩

/-- writing `(k, o, x)` over nothing, a dead entry or `o`'s own entry, and handing out the lease `(k, o, x)` -/
theorem Inv.put_grant (h : Inv L es gs n) {k o x : Nat}
    (hd : ∀ e, get es k = some e → ¬ L.live n e.exp ∨ e.owner = o) :
    Inv L (put es ⟨k, o, x⟩) (grant gs ⟨k, o, x⟩) n := by
  intro g hg hl
  rcases mem_grant.1 hg with rfl | ⟨hg1, hg2⟩
  · exact ⟨⟨k, o, x⟩, get_put_same es ⟨k, o, x⟩, rfl, Nat.le_refl _⟩
  · obtain ⟨e, he, ho, hx⟩ := h g hg1 hl
    by_cases hk : g.key = k
    · rcases hd e (hk ▸ he) with hdead | hown
      · exact absurd (L.mono_d hx hl) hdead
      · exact absurd ⟨hk, ho ▸ hown⟩ hg2
    · exact ⟨e, by rw [get_put_ne es _ (by simpa using hk)]; exact he, ho, hx⟩

/-- recording the lease the store already holds for `o` -/
theorem Inv.grant_existing (h : Inv L es gs n) {k o : Nat} {e : Entry} (he : get es k = some e) (ho : e.owner = o) :
    Inv L es (grant gs ⟨k, o, e.exp⟩) n := by
  intro g hg hl
  rcases mem_grant.1 hg with rfl | ⟨hg1, _⟩
  · exact ⟨e, he, ho, Nat.le_refl _⟩
  · exact h g hg1 hl

/-- rewriting the expiry of a key to something not earlier, owner unchanged -/
theorem Inv.extend (h : Inv L es gs n) {k x : Nat} {e : Entry} (he : get es k = some e) (hx : e.exp ≤ x) :
    Inv L (put es ⟨k, e.owner, x⟩) gs n := by
  intro g hg hl
  obtain ⟨e', he', ho', hx'⟩ := h g hg hl
  by_cases hk : g.key = k
  · rw [hk, he] at he'
    cases he'
    exact ⟨⟨k, e.owner, x⟩, hk ▸ get_put_same es ⟨k, e.owner, x⟩, ho', by simp; omega⟩
  · exact ⟨e', by rw [get_put_ne es _ (by simpa using hk)]; exact he', ho', hx'⟩

/-- at most one owner: two live leases on one key belong to the same owner -/
theorem Inv.unique (h : Inv L es gs n) {g1 g2 : Grant} (h1 : g1 ∈ gs) (h2 : g2 ∈ gs)
    (l1 : L.live n g1.dl) (l2 : L.live n g2.dl) (hk : g1.key = g2.key) : g1.owner = g2.owner := by
  obtain ⟨e1, he1, ho1, _⟩ := h g1 h1 l1
  obtain ⟨e2, he2, ho2, _⟩ := h g2 h2 l2
  rw [hk, he2] at he1
  cases he1
  rw [← ho1, ← ho2]


/-! ## in-memory cache: the lease invariant is preserved by every call (repaired eviction) -/

def MemInv (s : Mem) : Prop := Inv memLive s.entries s.grants s.now

theorem tick_fst (cfg : MemCfg) (s : Mem) : (tick cfg s).1 = { s with now := s.now + cfg.readCost } := rfl
theorem tick_snd (cfg : MemCfg) (s : Mem) : (tick cfg s).2 = s.now := rfl

theorem MemInv.tick {cfg : MemCfg} {s : Mem} (h : MemInv s) : MemInv (tick cfg s).1 :=
  Inv.time (n' := s.now + cfg.readCost) h (Nat.le_add_right _ _)

theorem evictKey_spec {cfg : MemCfg} {s s' : Mem} {t k vk : Nat}
    (h : evictKey cfg s t (shardEntries cfg s.entries k) vk = some s') :
    ∃ v, get s.entries vk = some v ∧ evictable cfg t v = true ∧ s' = { s with entries := del s.entries vk } := by
  unfold evictKey at h
  split at h
  · rename_i v hv
    split at h
    · rename_i ha
      refine ⟨v, get_filter_shard cfg.shardOf _ _ _ _ hv, ?_, (Option.some.inj h).symm⟩
      unfold admissibleVictim at ha
      exact (Bool.and_eq_true _ _ ▸ ha).1
    · cases h
  · cases h

theorem evictChoose_spec {cfg : MemCfg} {s s' : Mem} {t k : Nat} {hints h' : List Nat}
    (h : evictChoose cfg s t (shardEntries cfg s.entries k) hints = some (s', h')) :
    s' = s ∨ ∃ vk v, get s.entries vk = some v ∧ evictable cfg t v = true ∧ s' = { s with entries := del s.entries vk } := by
  unfold evictChoose at h
  split at h
  · rename_i vk rest
    cases hk : evictKey cfg s t (shardEntries cfg s.entries k) vk with
    | none => simp [hk] at h
    | some s'' =>
      simp [hk] at h
      obtain ⟨rfl, _⟩ := h
      obtain ⟨v, hv, hev, rfl⟩ := evictKey_spec hk
      exact Or.inr ⟨vk, v, hv, hev, rfl⟩
  · split at h
    · cases h; exact Or.inl rfl
    · rename_i v _
      cases hk : evictKey cfg s t (shardEntries cfg s.entries k) v.key with
      | none => simp [hk] at h
      | some s'' =>
        simp [hk] at h
        obtain ⟨rfl, _⟩ := h
        obtain ⟨v', hv, hev, rfl⟩ := evictKey_spec hk
        exact Or.inr ⟨v.key, v', hv, hev, rfl⟩
    · cases h

theorem evict_inv {cfg : MemCfg} (hp : cfg.protectLive = true) {s s' : Mem} {k : Nat} {hints h' : List Nat}
    (hi : MemInv s) (h : evict cfg s k hints = some (s', h')) :
    MemInv s' ∧ (get s.entries k = none → get s'.entries k = none) := by
  unfold evict at h
  simp only [hp, if_true] at h
  split at h
  · cases h; exact ⟨hi, id⟩
  · -- the clock was read; the victim (if any) is dead at that reading
    rcases evictChoose_spec (s := (tick cfg s).1) h with rfl | ⟨vk, v, hv, hev, rfl⟩
    · exact ⟨MemInv.tick hi, id⟩
    · refine ⟨?_, ?_⟩
      · apply Inv.del_dead (MemInv.tick hi)
        intro e he
        rw [show (tick cfg s).1.entries = s.entries from rfl] at hv
        rw [show (tick cfg s).1.entries = s.entries from rfl] at he
        rw [hv] at he; cases he
        have hlt : v.exp < s.now := by
          simp only [evictable, hp, after, tick_snd, Bool.not_true, Bool.false_or] at hev
          exact of_decide_eq_true hev
        show ¬ (s.now + cfg.readCost ≤ v.exp)
        omega
      · intro hn
        show get (del s.entries vk) k = none
        by_cases hkv : k = vk
        · subst hkv; exact get_del_same _ _
        · rw [get_del_ne _ hkv]; exact hn

theorem rollback_inv (o : Nat) : ∀ (acq : List Nat) (s : Mem), MemInv s → MemInv (rollback o s acq)
  | [], _, h => h
  | a :: as, s, h => by
    unfold rollback
    apply rollback_inv o as
    cases hg : get s.entries a with
    | none => exact Inv.rel h a o
    | some v =>
      by_cases hv : v.owner = o
      · simp only [hv, beq_self_eq_true, if_true]
        exact Inv.del_own h (fun e he => by rw [hg] at he; cases he; exact hv)
      · have : (v.owner == o) = false := by simpa using hv
        simp only [this]
        exact Inv.rel h a o

theorem rollback_now (o : Nat) : ∀ (acq : List Nat) (s : Mem), (rollback o s acq).now = s.now
  | [], _ => rfl
  | a :: as, s => by
    unfold rollback
    rw [rollback_now o as]
    cases get s.entries a with
    | none => rfl
    | some v => by_cases hv : (v.owner == o) = true <;> simp [hv]

theorem lockLoop_inv {cfg : MemCfg} (hp : cfg.protectLive = true) (o d : Nat) :
    ∀ (ks : List Nat) (s : Mem) (acq hints : List Nat), MemInv s → MemInv (lockLoop cfg o d ks s acq hints).s
  | [], _, _, _, h => h
  | k :: ks, s, acq, hints, h => by
    unfold lockLoop
    simp only [tick_fst, tick_snd]
    have h1 : MemInv { s with now := s.now + cfg.readCost } := MemInv.tick (cfg := cfg) h
    cases hg : get s.entries k with
    | some ex =>
      simp only []
      have h2 : Inv memLive s.entries s.grants (s.now + cfg.readCost + cfg.readCost) :=
        Inv.time h1 (Nat.le_add_right _ _)
      by_cases ha : after (s.now + cfg.readCost) ex.exp = true
      · simp only [ha, if_true]
        apply lockLoop_inv hp o d ks
        apply Inv.put_grant h2
        intro e he
        rw [hg] at he; cases he
        left
        have : ex.exp < s.now + cfg.readCost := of_decide_eq_true ha
        show ¬ (s.now + cfg.readCost + cfg.readCost ≤ ex.exp)
        omega
      · simp only [ha]
        by_cases ho : ex.owner = o
        · simp only [ho, beq_self_eq_true, if_true]
          apply lockLoop_inv hp o d ks
          exact Inv.grant_existing h2 hg ho
        · have : (ex.owner == o) = false := by simpa using ho
          simp only [this]
          exact rollback_inv o acq _ h2
    | none =>
      simp only []
      cases he : evict cfg { s with now := s.now + cfg.readCost } k hints with
      | none => exact h1
      | some r =>
        obtain ⟨s', hints'⟩ := r
        simp only []
        obtain ⟨hi', hn'⟩ := evict_inv hp h1 he
        apply lockLoop_inv hp o d ks
        apply Inv.put_grant hi'
        intro e he'
        rw [hn' hg] at he'; cases he'

theorem isLockedLoop_inv {cfg : MemCfg} (o : Nat) :
    ∀ (ks : List Nat) (s : Mem), MemInv s → MemInv (memIsLockedLoop cfg o ks s).1
  | [], _, h => h
  | k :: ks, s, h => by
    unfold memIsLockedLoop
    cases get s.entries k with
    | none => exact h
    | some e =>
      simp only []
      by_cases ho : (e.owner != o) = true
      · simp only [ho, if_true]; exact h
      · simp only [ho]
        by_cases ha : after (tick cfg s).2 e.exp = true
        · simp only [ha, if_true]; exact MemInv.tick h
        · simp only [ha]; exact isLockedLoop_inv o ks _ (MemInv.tick h)

theorem ttlCheck_inv {cfg : MemCfg} (o : Nat) :
    ∀ (ks : List Nat) (s : Mem), MemInv s → MemInv (memTtlCheck cfg o ks s).1
  | [], _, h => h
  | k :: ks, s, h => by
    unfold memTtlCheck
    cases hg : get s.entries k with
    | none => exact h
    | some e =>
      simp only []
      by_cases ho : (e.owner != o) = true
      · simp only [ho, if_true]; exact h
      · simp only [ho]
        by_cases ha : after (tick cfg s).2 e.exp = true
        · simp only [ha, if_true]
          apply Inv.del_dead (MemInv.tick (cfg := cfg) h)
          intro e' he'
          rw [show (tick cfg s).1.entries = s.entries from rfl, hg] at he'; cases he'
          have : e.exp < s.now := of_decide_eq_true ha
          show ¬ (s.now + cfg.readCost ≤ e.exp)
          omega
        · simp only [ha]; exact ttlCheck_inv o ks _ (MemInv.tick h)

theorem ttlRefresh_inv (o x : Nat) :
    ∀ (ks : List Nat) (s : Mem), MemInv s → MemInv (memTtlRefresh o x ks s).1
  | [], _, h => h
  | k :: ks, s, h => by
    unfold memTtlRefresh
    cases hg : get s.entries k with
    | none => exact h
    | some e =>
      simp only []
      by_cases ho : (e.owner != o) = true
      · simp only [ho, if_true]; exact h
      · simp only [ho]
        apply ttlRefresh_inv o x ks
        apply Inv.put_grant h
        intro e' he'
        rw [hg] at he'; cases he'
        right
        simpa using ho

theorem memIsLockedTTL_inv {cfg : MemCfg} (s : Mem) (o d : Nat) (keys : List Nat) (h : MemInv s) :
    MemInv (memIsLockedTTL cfg s o d keys).1 := by
  unfold memIsLockedTTL
  have h1 := ttlCheck_inv (cfg := cfg) o keys s h
  cases hc : memTtlCheck cfg o keys s with
  | mk s1 b =>
    rw [hc] at h1
    cases b with
    | false => exact h1
    | true => exact ttlRefresh_inv o _ keys _ (MemInv.tick h1)

theorem memUnlock_inv (o : Nat) : ∀ (ks : List Nat) (s : Mem), MemInv s → MemInv (memUnlock o ks s)
  | [], _, h => h
  | k :: ks, s, h => by
    unfold memUnlock
    apply memUnlock_inv o ks
    cases hg : get s.entries k with
    | none => exact Inv.rel h k o
    | some v =>
      by_cases hv : v.owner = o
      · simp only [hv, beq_self_eq_true, if_true]
        exact Inv.del_own h (fun e he => by rw [hg] at he; cases he; exact hv)
      · have : (v.owner == o) = false := by simpa using hv
        simp only [this]
        exact Inv.rel h k o

theorem memLock_inv {cfg : MemCfg} (hp : cfg.protectLive = true) (s : Mem) (o d : Nat) (keys hints : List Nat)
    (h : MemInv s) : MemInv (memLock cfg s o d keys hints).s := by
  unfold memLock
  exact lockLoop_inv hp o _ _ s [] hints h

theorem memStep_inv {cfg : MemCfg} (hp : cfg.protectLive = true) (s : Mem) (op : MemOp) (h : MemInv s) :
    MemInv (memStep cfg s op).1 := by
  cases op with
  | adv d => exact Inv.time (n' := s.now + d) h (Nat.le_add_right _ _)
  | lock o d keys hints =>
    simp only [memStep]
    split
    · exact h
    · exact memLock_inv hp s o d keys hints h
  | dualLock o d keys hints =>
    simp only [memStep]
    split
    · exact h
    · split
      · exact memLock_inv hp s o d keys hints h
      · exact isLockedLoop_inv o _ _ (memLock_inv hp s o d keys hints h)
  | isLocked o keys => exact isLockedLoop_inv o keys s h
  | isLockedTTL o d keys => exact memIsLockedTTL_inv s o d keys h
  | unlock o keys => exact memUnlock_inv o keys s h

theorem memRun_inv {cfg : MemCfg} (hp : cfg.protectLive = true) : ∀ (ops : List MemOp) (s : Mem), MemInv s → MemInv (memRun cfg s ops)
  | [], _, h => h
  | op :: ops, s, h => by
    show MemInv (memRun cfg (memStep cfg s op).1 ops)
    exact memRun_inv hp ops _ (memStep_inv hp s op h)

theorem memInit_inv : MemInv {} := by intro g hg; cases hg

theorem mem_memHolders {s : Mem} {k o : Nat} :
    o ∈ memHolders s k ↔ ∃ g ∈ s.grants, g.key = k ∧ s.now ≤ g.dl ∧ g.owner = o := by
  simp only [memHolders, List.mem_map, List.mem_filter, Bool.and_eq_true, beq_iff_eq, decide_eq_true_eq]
  constructor
  · rintro ⟨g, ⟨hg, hk, hl⟩, ho⟩; exact ⟨g, hg, hk, hl, ho⟩
  · rintro ⟨g, hg, hk, hl, ho⟩; exact ⟨g, ⟨hg, hk, hl⟩, ho⟩

/-- in a state satisfying the lease invariant a key has at most one holder, and the store confirms it -/
theorem MemInv.mutex {s : Mem} (h : MemInv s) {k o1 o2 : Nat} (h1 : o1 ∈ memHolders s k) (h2 : o2 ∈ memHolders s k) : o1 = o2 := by
  obtain ⟨g1, hg1, hk1, hl1, rfl⟩ := mem_memHolders.1 h1
  obtain ⟨g2, hg2, hk2, hl2, rfl⟩ := mem_memHolders.1 h2
  exact Inv.unique h hg1 hg2 hl1 hl2 (hk1.trans hk2.symm)

theorem MemInv.confirmed {s : Mem} (h : MemInv s) {k o : Nat} (ho : o ∈ memHolders s k) : memHolds s o k = true := by
  obtain ⟨g, hg, hk, hl, rfl⟩ := mem_memHolders.1 ho
  obtain ⟨e, he, heo, hx⟩ := h g hg hl
  unfold memHolds
  rw [← hk, he]
  have : ¬ e.exp < s.now := by omega
  simp [heo, after, this]

/-! ### leases of other owners are never touched -/
def KeepsOthers (o' : Nat) (s s' : Mem) : Prop := ∀ g ∈ s.grants, g.owner ≠ o' → g ∈ s'.grants

theorem KeepsOthers.refl (o' : Nat) (s : Mem) : KeepsOthers o' s s := fun _ h _ => h
theorem KeepsOthers.trans {o' : Nat} {a b c : Mem} (h1 : KeepsOthers o' a b) (h2 : KeepsOthers o' b c) : KeepsOthers o' a c :=
  fun g hg ho => h2 g (h1 g hg ho) ho
theorem KeepsOthers.of_grants_eq {o' : Nat} {a b : Mem} (h : b.grants = a.grants) : KeepsOthers o' a b :=
  fun g hg _ => h ▸ hg
theorem keeps_release {o' k : Nat} {gs : List Grant} {g : Grant} (hg : g ∈ gs) (ho : g.owner ≠ o') : g ∈ release gs k o' :=
  mem_release.2 ⟨hg, fun ⟨_, h⟩ => ho h⟩
theorem keeps_grant {o' k x : Nat} {gs : List Grant} {g : Grant} (hg : g ∈ gs) (ho : g.owner ≠ o') : g ∈ grant gs ⟨k, o', x⟩ :=
  mem_grant.2 (Or.inr ⟨hg, fun ⟨_, h⟩ => ho h⟩)

theorem rollback_keeps (o : Nat) : ∀ (acq : List Nat) (s : Mem), KeepsOthers o s (rollback o s acq)
  | [], s => KeepsOthers.refl o s
  | a :: as, s => by
    unfold rollback
    refine KeepsOthers.trans ?_ (rollback_keeps o as _)
    intro g hg ho
    have : g ∈ release s.grants a o := keeps_release hg ho
    cases get s.entries a with
    | none => exact this
    | some v => by_cases hv : (v.owner == o) = true <;> simpa [hv] using this

theorem evict_grants {cfg : MemCfg} {s s' : Mem} {k : Nat} {hints h' : List Nat}
    (h : evict cfg s k hints = some (s', h')) : s'.grants = s.grants := by
  unfold evict at h
  cases hpl : cfg.protectLive with
  | true =>
    simp only [hpl, if_true] at h
    split at h
    · cases h; rfl
    · rcases evictChoose_spec (s := (tick cfg s).1) h with rfl | ⟨_, _, _, _, rfl⟩ <;> rfl
  | false =>
    simp only [hpl, Bool.false_eq_true, if_false] at h
    split at h
    · cases h; rfl
    · rcases evictChoose_spec h with rfl | ⟨_, _, _, _, rfl⟩ <;> rfl

theorem lockLoop_keeps {cfg : MemCfg} (o d : Nat) :
    ∀ (ks : List Nat) (s : Mem) (acq hints : List Nat), KeepsOthers o s (lockLoop cfg o d ks s acq hints).s
  | [], s, _, _ => KeepsOthers.refl o s
  | k :: ks, s, acq, hints => by
    unfold lockLoop
    simp only [tick_fst, tick_snd]
    cases hg : get s.entries k with
    | some ex =>
      simp only []
      by_cases ha : after (s.now + cfg.readCost) ex.exp = true
      · simp only [ha, if_true]
        refine KeepsOthers.trans ?_ (lockLoop_keeps o d ks _ _ _)
        intro g hg' ho; exact keeps_grant hg' ho
      · simp only [ha]
        by_cases ho : (ex.owner == o) = true
        · simp only [ho, if_true]
          refine KeepsOthers.trans ?_ (lockLoop_keeps o d ks _ _ _)
          intro g hg' ho'; exact keeps_grant hg' ho'
        · simp only [ho]
          refine KeepsOthers.trans ?_ (rollback_keeps o acq _)
          exact KeepsOthers.of_grants_eq rfl
    | none =>
      simp only []
      cases he : evict cfg { s with now := s.now + cfg.readCost } k hints with
      | none => exact KeepsOthers.of_grants_eq rfl
      | some r =>
        obtain ⟨s', hints'⟩ := r
        simp only []
        refine KeepsOthers.trans ?_ (lockLoop_keeps o d ks _ _ _)
        intro g hg' ho
        apply keeps_grant _ ho
        rw [evict_grants he]; exact hg'

theorem isLockedLoop_grants {cfg : MemCfg} (o : Nat) :
    ∀ (ks : List Nat) (s : Mem), (memIsLockedLoop cfg o ks s).1.grants = s.grants
  | [], _ => rfl
  | k :: ks, s => by
    unfold memIsLockedLoop
    cases get s.entries k with
    | none => rfl
    | some e =>
      simp only []
      by_cases ho : (e.owner != o) = true
      · simp only [ho, if_true]
      · simp only [ho]
        by_cases ha : after (tick cfg s).2 e.exp = true
        · simp only [ha, if_true]; rfl
        · simp only [ha, Bool.false_eq_true, if_false]; rw [isLockedLoop_grants o ks]; rfl

theorem ttlCheck_grants {cfg : MemCfg} (o : Nat) :
    ∀ (ks : List Nat) (s : Mem), (memTtlCheck cfg o ks s).1.grants = s.grants
  | [], _ => rfl
  | k :: ks, s => by
    unfold memTtlCheck
    cases get s.entries k with
    | none => rfl
    | some e =>
      simp only []
      by_cases ho : (e.owner != o) = true
      · simp only [ho, if_true]
      · simp only [ho]
        by_cases ha : after (tick cfg s).2 e.exp = true
        · simp only [ha, if_true]; rfl
        · simp only [ha, Bool.false_eq_true, if_false]; rw [ttlCheck_grants o ks]; rfl

theorem ttlRefresh_keeps (o x : Nat) : ∀ (ks : List Nat) (s : Mem), KeepsOthers o s (memTtlRefresh o x ks s).1
  | [], s => KeepsOthers.refl o s
  | k :: ks, s => by
    unfold memTtlRefresh
    cases get s.entries k with
    | none => exact KeepsOthers.refl o s
    | some e =>
      simp only []
      by_cases ho : (e.owner != o) = true
      · simp only [ho, if_true]; exact KeepsOthers.refl o s
      · simp only [ho]
        refine KeepsOthers.trans ?_ (ttlRefresh_keeps o x ks _)
        intro g hg ho'; exact keeps_grant hg ho'

theorem memUnlock_keeps (o : Nat) : ∀ (ks : List Nat) (s : Mem), KeepsOthers o s (memUnlock o ks s)
  | [], s => KeepsOthers.refl o s
  | k :: ks, s => by
    unfold memUnlock
    refine KeepsOthers.trans ?_ (memUnlock_keeps o ks _)
    intro g hg ho
    have : g ∈ release s.grants k o := keeps_release hg ho
    cases get s.entries k with
    | none => exact this
    | some v => by_cases hv : (v.owner == o) = true <;> simpa [hv] using this

theorem memUnlock_now (o : Nat) : ∀ (ks : List Nat) (s : Mem), (memUnlock o ks s).now = s.now
  | [], _ => rfl
  | k :: ks, s => by
    unfold memUnlock
    rw [memUnlock_now o ks]
    cases get s.entries k with
    | none => rfl
    | some v => by_cases hv : (v.owner == o) = true <;> simp [hv]

/-- the owner on whose behalf a call is made -/
def memActor : MemOp → Option Nat
  | .adv _ => none
  | .lock o _ _ _ => some o
  | .dualLock o _ _ _ => some o
  | .isLocked o _ => some o
  | .isLockedTTL o _ _ => some o
  | .unlock o _ => some o

theorem memStep_keeps {cfg : MemCfg} (s : Mem) (op : MemOp) (o : Nat) (ho : memActor op ≠ some o) :
    ∀ g ∈ s.grants, g.owner = o → g ∈ (memStep cfg s op).1.grants := by
  intro g hg hgo
  cases op with
  | adv d => exact hg
  | lock o' d keys hints =>
    have hne : g.owner ≠ o' := fun h => ho (by simp [memActor, ← h, hgo])
    simp only [memStep]
    split
    · exact hg
    · exact lockLoop_keeps o' _ _ s [] hints g hg hne
  | dualLock o' d keys hints =>
    have hne : g.owner ≠ o' := fun h => ho (by simp [memActor, ← h, hgo])
    simp only [memStep]
    have hl : g ∈ (memLock cfg s o' d keys hints).s.grants := lockLoop_keeps o' _ _ s [] hints g hg hne
    split
    · exact hg
    · split
      · exact hl
      · show g ∈ (memIsLockedLoop cfg o' (sortKeys keys) (memLock cfg s o' d keys hints).s).1.grants
        rw [isLockedLoop_grants]; exact hl
  | isLocked o' keys =>
    show g ∈ (memIsLockedLoop cfg o' keys s).1.grants
    rw [isLockedLoop_grants]; exact hg
  | isLockedTTL o' d keys =>
    have hne : g.owner ≠ o' := fun h => ho (by simp [memActor, ← h, hgo])
    show g ∈ (memIsLockedTTL cfg s o' d keys).1.grants
    unfold memIsLockedTTL
    have h1 := ttlCheck_grants (cfg := cfg) o' keys s
    cases hc : memTtlCheck cfg o' keys s with
    | mk s1 b =>
      rw [hc] at h1
      cases b with
      | false => simp only []; rw [h1]; exact hg
      | true =>
        simp only []
        apply ttlRefresh_keeps o' _ keys _ g _ hne
        show g ∈ s1.grants
        rw [h1]; exact hg
  | unlock o' keys =>
    have hne : g.owner ≠ o' := fun h => ho (by simp [memActor, ← h, hgo])
    exact memUnlock_keeps o' keys s g hg hne


/-! ## Redis: the lease invariant is preserved by every call that obeys the usage rule -/

def RInv (s : Redis) : Prop := Inv redisLive s.entries s.grants s.now

theorem RInv.congr {s s' : Redis} (h : RInv s) (he : s'.entries = s.entries) (hg : s'.grants = s.grants) (hn : s'.now = s.now) :
    RInv s' := by unfold RInv; rw [he, hg, hn]; exact h

theorem vget_some {s : Redis} {k : Nat} {e : Entry} (h : vget s k = some e) : get s.entries k = some e ∧ s.now < e.exp := by
  unfold vget at h
  split at h
  · rename_i e' he'
    split at h
    · cases h; exact ⟨he', by assumption⟩
    · cases h
  · cases h

theorem vget_none {s : Redis} {k : Nat} (h : vget s k = none) : ∀ e, get s.entries k = some e → ¬ redisLive.live s.now e.exp := by
  intro e he hl
  unfold vget at h
  rw [he] at h
  have : s.now < e.exp := hl
  simp [this] at h

theorem vget_congr {s s' : Redis} (he : s'.entries = s.entries) (hn : s'.now = s.now) (k : Nat) : vget s' k = vget s k := by
  unfold vget; rw [he, hn]

theorem setnxAll_inv (o d : Nat) : ∀ (ks : List Nat) (s : Redis), RInv s → RInv (redisSetnxAll o d ks s).1
  | [], _, h => h
  | k :: ks, s, h => by
    unfold redisSetnxAll
    cases hv : vget s k with
    | none =>
      simp only []
      apply setnxAll_inv o d ks
      exact Inv.put_dead (L := redisLive) h (vget_none hv)
    | some e =>
      simp only []
      exact setnxAll_inv o d ks s h

theorem checkFailed_same (o : Nat) : ∀ (ks : List Nat) (s : Redis),
    (redisCheckFailed o ks s).1.entries = s.entries ∧ (redisCheckFailed o ks s).1.grants = s.grants ∧ (redisCheckFailed o ks s).1.now = s.now
  | [], _ => ⟨rfl, rfl, rfl⟩
  | k :: ks, s => by
    unfold redisCheckFailed
    cases vget s k with
    | none => exact ⟨rfl, rfl, rfl⟩
    | some e =>
      simp only []
      by_cases ho : (e.owner == o) = true
      · simp only [ho, if_true]
        exact checkFailed_same o ks (setFlag s o k true)
      · simp only [ho]; exact ⟨rfl, rfl, rfl⟩

theorem grantAll_inv (o : Nat) : ∀ (ks : List Nat) (s : Redis), RInv s → RInv (redisGrantAll o ks s)
  | [], _, h => h
  | k :: ks, s, h => by
    unfold redisGrantAll
    cases hv : vget s k with
    | none => exact grantAll_inv o ks s h
    | some e =>
      simp only []
      by_cases ho : (e.owner == o) = true
      · simp only [ho, if_true]
        apply grantAll_inv o ks
        exact Inv.grant_existing (L := redisLive) h (vget_some hv).1 (by simpa using ho)
      · simp only [ho]; exact grantAll_inv o ks s h

theorem redisLock_inv (s : Redis) (o d : Nat) (keys : List Nat) (h : RInv s) : RInv (redisLock s o d keys).1 := by
  unfold redisLock
  have h1 := setnxAll_inv o d keys s h
  cases hs : redisSetnxAll o d keys s with
  | mk s1 failed =>
    rw [hs] at h1
    simp only []
    cases failed with
    | nil => exact grantAll_inv o keys s1 h1
    | cons f fs =>
      simp only []
      have hc := checkFailed_same o (f :: fs) s1
      cases hr : redisCheckFailed o (f :: fs) s1 with
      | mk s2 r =>
        rw [hr] at hc
        obtain ⟨b, ow⟩ := r
        have h2 : RInv s2 := RInv.congr h1 hc.1 hc.2.1 hc.2.2
        cases b with
        | true => exact grantAll_inv o keys s2 h2
        | false => exact h2

theorem isLockedLoop_same (o : Nat) : ∀ (ks : List Nat) (s : Redis) (r : Bool),
    (redisIsLockedLoop o ks s r).1.entries = s.entries ∧ (redisIsLockedLoop o ks s r).1.grants = s.grants ∧ (redisIsLockedLoop o ks s r).1.now = s.now
  | [], _, _ => ⟨rfl, rfl, rfl⟩
  | k :: ks, s, r => by
    unfold redisIsLockedLoop
    cases vget s k with
    | none => exact isLockedLoop_same o ks (setFlag s o k false) false
    | some e =>
      simp only []
      by_cases ho : (e.owner != o) = true
      · simp only [ho, if_true]; exact isLockedLoop_same o ks (setFlag s o k false) false
      · simp only [ho, Bool.false_eq_true, if_false]; exact isLockedLoop_same o ks (setFlag s o k true) r

theorem redisIsLocked_inv (s : Redis) (o : Nat) (keys : List Nat) (h : RInv s) : RInv (redisIsLocked s o keys).1 := by
  have := isLockedLoop_same o keys s true
  exact RInv.congr h this.1 this.2.1 this.2.2

/-- the per-key usage rule of `IsLockedTTL` -/
def TtlOk (s : Redis) (o d k : Nat) : Prop := ∀ e, vget s k = some e → e.owner = o ∨ e.exp ≤ s.now + d

theorem ttlLoop_inv (o d : Nat) : ∀ (ks : List Nat) (s : Redis) (r : Bool), RInv s → (∀ k ∈ ks, TtlOk s o d k) →
    RInv (redisTtlLoop o d ks s r).1
  | [], _, _, h, _ => h
  | k :: ks, s, r, h, hg => by
    unfold redisTtlLoop
    cases hv : vget s k with
    | none =>
      simp only []
      apply ttlLoop_inv o d ks (setFlag s o k false) false (RInv.congr (s' := setFlag s o k false) h rfl rfl rfl)
      intro k' hk' e he
      exact hg k' (List.mem_cons_of_mem _ hk') e (by rw [← he]; exact (vget_congr (s' := setFlag s o k false) rfl rfl k').symm)
    | some e =>
      simp only []
      obtain ⟨hget, hvis⟩ := vget_some hv
      -- the guard survives the rewrite of key k's expiry
      have guard' : ∀ (s1 : Redis), s1.entries = put s.entries ⟨k, e.owner, s.now + d⟩ → s1.now = s.now →
          ∀ k' ∈ ks, TtlOk s1 o d k' := by
        intro s1 he1 hn1 k' hk' e' he'
        obtain ⟨hget', _⟩ := vget_some he'
        rw [he1] at hget'
        rw [hn1]
        by_cases hkk : k' = k
        · subst hkk
          rw [get_put_same] at hget'
          cases hget'
          exact Or.inr (Nat.le_refl _)
        · rw [get_put_ne _ _ (by simpa using hkk)] at hget'
          apply hg k' (List.mem_cons_of_mem _ hk') e'
          unfold vget
          rw [hget']
          have := (vget_some he').2
          rw [hn1] at this
          simp [this]
      by_cases ho : (e.owner != o) = true
      · simp only [ho, if_true]
        have hfor : e.exp ≤ s.now + d := by
          rcases hg k (List.mem_cons_self ..) e hv with h1 | h1
          · exact absurd h1 (by simpa using ho)
          · exact h1
        apply ttlLoop_inv o d ks
        · exact Inv.extend (L := redisLive) h hget hfor
        · exact guard' _ rfl rfl
      · simp only [ho, Bool.false_eq_true, if_false]
        have hown : e.owner = o := by simpa using ho
        apply ttlLoop_inv o d ks
        · show Inv redisLive (put s.entries ⟨k, e.owner, s.now + d⟩) (grant s.grants ⟨k, o, s.now + d⟩) s.now
          rw [hown]
          apply Inv.put_grant h
          intro e' he'
          rw [hget] at he'; cases he'
          exact Or.inr hown
        · exact guard' _ rfl rfl

theorem delAll_same : ∀ (ks : List Nat) (s : Redis),
    (redisDelAll ks s).grants = s.grants ∧ (redisDelAll ks s).now = s.now ∧ (redisDelAll ks s).flags = s.flags
  | [], _ => ⟨rfl, rfl, rfl⟩
  | k :: ks, s => by unfold redisDelAll; exact delAll_same ks _

theorem delAll_get_mem : ∀ (ks : List Nat) (s : Redis) (k : Nat), k ∈ ks → get (redisDelAll ks s).entries k = none
  | [], _, _, h => by cases h
  | k0 :: ks, s, k, h => by
    unfold redisDelAll
    by_cases hm : k ∈ ks
    · exact delAll_get_mem ks _ k hm
    · have : k = k0 := by simpa [hm] using h
      subst this
      have : ∀ (ks : List Nat) (s : Redis), get s.entries k = none → get (redisDelAll ks s).entries k = none := by
        intro ks
        induction ks with
        | nil => intro s h; exact h
        | cons a as ih =>
          intro s h
          unfold redisDelAll
          apply ih
          by_cases ha : k = a
          · subst ha; exact get_del_same _ _
          · show get (del s.entries a) k = none
            rw [get_del_ne _ ha]; exact h
      exact this ks _ (get_del_same _ _)

theorem delAll_get_not_mem : ∀ (ks : List Nat) (s : Redis) (k : Nat), k ∉ ks → get (redisDelAll ks s).entries k = get s.entries k
  | [], _, _, _ => rfl
  | k0 :: ks, s, k, h => by
    unfold redisDelAll
    have h1 : k ≠ k0 := fun e => h (e ▸ List.mem_cons_self ..)
    have h2 : k ∉ ks := fun e => h (List.mem_cons_of_mem _ e)
    rw [delAll_get_not_mem ks _ k h2]
    exact get_del_ne _ h1

theorem redisUnlock_inv (s : Redis) (o : Nat) (keys : List Nat) (h : RInv s)
    (hg : ∀ k ∈ keys, flagged s o k = true → ∀ e, vget s k = some e → e.owner = o) : RInv (redisUnlock s o keys) := by
  unfold redisUnlock
  intro g hgm hl
  have hsame := delAll_same (keys.filter (flagged s o)) s
  simp only [] at hgm hl ⊢
  rw [hsame.1] at hgm
  rw [hsame.2.1] at hl
  obtain ⟨hg1, hg2⟩ := mem_releaseAll.1 hgm
  obtain ⟨e, he, ho, hx⟩ := h g hg1 hl
  by_cases hdel : g.key ∈ keys.filter (flagged s o)
  · -- the key was deleted: then it carried the caller's value, so the lease was the caller's and is released
    obtain ⟨hk, hf⟩ := List.mem_filter.1 hdel
    have hvis : s.now < e.exp := Nat.lt_of_lt_of_le hl hx
    have hv : vget s g.key = some e := by unfold vget; rw [he]; simp [hvis]
    exact absurd ⟨hk, ho ▸ hg g.key hk hf e hv⟩ hg2
  · exact ⟨e, by rw [delAll_get_not_mem _ _ _ hdel]; exact he, ho, hx⟩

theorem redisStep_inv (s : Redis) (op : RedisOp) (h : RInv s) (hok : redisOpOk s op = true) : RInv (redisStep s op).1 := by
  cases op with
  | adv d => exact Inv.time (n' := s.now + d) h (Nat.le_add_right _ _)
  | lock o d keys => exact redisLock_inv s o d keys h
  | dualLock o d keys =>
    simp only [redisStep]
    have h1 := redisLock_inv s o d keys h
    cases hr : redisLock s o d keys with
    | mk s2 r =>
      rw [hr] at h1
      obtain ⟨b, ow⟩ := r
      cases b with
      | false => exact h1
      | true => exact redisIsLocked_inv s2 o keys h1
  | isLocked o keys => exact redisIsLocked_inv s o keys h
  | isLockedTTL o d keys =>
    apply ttlLoop_inv o d keys s true h
    intro k hk e he
    simp only [redisOpOk, List.all_eq_true] at hok
    have := hok k hk
    rw [he] at this
    simpa using this
  | unlock o keys =>
    apply redisUnlock_inv s o keys h
    intro k hk hf e he
    simp only [redisOpOk, List.all_eq_true] at hok
    have := hok k hk
    rw [he, hf] at this
    simpa using this

theorem redisRun_inv : ∀ (ops : List RedisOp) (s : Redis), RInv s → redisDisciplined s ops = true → RInv (redisRun s ops)
  | [], _, h, _ => h
  | op :: ops, s, h, hd => by
    simp only [redisDisciplined, Bool.and_eq_true] at hd
    show RInv (redisRun (redisStep s op).1 ops)
    exact redisRun_inv ops _ (redisStep_inv s op h hd.1) hd.2



/-! ## Redis: a Lock that answers true has granted every key (the ghost misses no holder) -/

/-- the server holds a visible entry of owner `o` under `k` -/
def Own (o : Nat) (s : Redis) (k : Nat) : Prop := ∃ e, vget s k = some e ∧ e.owner = o

theorem Own.congr {o : Nat} {s s' : Redis} {k : Nat} (h : Own o s k) (he : s'.entries = s.entries) (hn : s'.now = s.now) : Own o s' k := by
  obtain ⟨e, hv, ho⟩ := h
  exact ⟨e, by rw [vget_congr he hn]; exact hv, ho⟩

theorem setnxAll_now (o d : Nat) : ∀ (ks : List Nat) (s : Redis), (redisSetnxAll o d ks s).1.now = s.now
  | [], _ => rfl
  | k :: ks, s => by
    unfold redisSetnxAll
    cases vget s k with
    | none => simp only []; rw [setnxAll_now o d ks]; rfl
    | some e => simp only []; exact setnxAll_now o d ks s

theorem setnxAll_mono (o d : Nat) (k : Nat) : ∀ (ks : List Nat) (s : Redis), Own o s k → Own o (redisSetnxAll o d ks s).1 k
  | [], _, h => h
  | k0 :: ks, s, h => by
    unfold redisSetnxAll
    cases hv : vget s k0 with
    | none =>
      simp only []
      apply setnxAll_mono o d k ks
      obtain ⟨e, he, ho⟩ := h
      have hne : k ≠ k0 := by intro hk; subst hk; rw [hv] at he; cases he
      refine ⟨e, ?_, ho⟩
      obtain ⟨hg, hvis⟩ := vget_some he
      unfold vget
      show (match get (put s.entries ⟨k0, o, s.now + d⟩) k with
        | some e => if s.now < e.exp then some e else none | none => none) = some e
      rw [get_put_ne _ _ (by simpa using hne), hg]
      simp [hvis]
    | some e => simp only []; exact setnxAll_mono o d k ks s h

theorem setnxAll_own (o d : Nat) (hd : 0 < d) : ∀ (ks : List Nat) (s : Redis) (k : Nat), k ∈ ks →
    Own o (redisSetnxAll o d ks s).1 k ∨ k ∈ (redisSetnxAll o d ks s).2
  | [], _, _, h => by cases h
  | k0 :: ks, s, k, h => by
    unfold redisSetnxAll
    cases hv : vget s k0 with
    | none =>
      simp only []
      rcases List.mem_cons.1 h with rfl | hk
      · left
        apply setnxAll_mono o d k ks
        refine ⟨⟨k, o, s.now + d⟩, ?_, rfl⟩
        unfold vget
        show (match get (put s.entries ⟨k, o, s.now + d⟩) k with
          | some e => if s.now < e.exp then some e else none | none => none) = _
        rw [show get (put s.entries ⟨k, o, s.now + d⟩) k = some ⟨k, o, s.now + d⟩ from get_put_same _ ⟨k, o, s.now + d⟩]
        have : s.now < s.now + d := by omega
        simp [this]
      · exact setnxAll_own o d hd ks _ k hk
    | some e =>
      simp only []
      rcases List.mem_cons.1 h with rfl | hk
      · exact Or.inr (List.mem_cons_self ..)
      · rcases setnxAll_own o d hd ks s k hk with h1 | h1
        · exact Or.inl h1
        · exact Or.inr (List.mem_cons_of_mem _ h1)

theorem checkFailed_own (o : Nat) : ∀ (ks : List Nat) (s : Redis), (redisCheckFailed o ks s).2.1 = true → ∀ k ∈ ks, Own o s k
  | [], _, _, _, h => by cases h
  | k0 :: ks, s, hr, k, hk => by
    unfold redisCheckFailed at hr
    cases hv : vget s k0 with
    | none => rw [hv] at hr; cases hr
    | some e =>
      rw [hv] at hr
      simp only [] at hr
      by_cases ho : (e.owner == o) = true
      · simp only [ho, if_true] at hr
        rcases List.mem_cons.1 hk with rfl | hk'
        · exact ⟨e, hv, by simpa using ho⟩
        · exact (checkFailed_own o ks _ hr k hk').congr rfl rfl
      · simp only [ho] at hr; cases hr

/-- `o` has a live lease on `k` -/
def Holds (o : Nat) (s : Redis) (k : Nat) : Prop := ∃ g ∈ s.grants, g.key = k ∧ s.now < g.dl ∧ g.owner = o

theorem grantAll_same (o : Nat) : ∀ (ks : List Nat) (s : Redis),
    (redisGrantAll o ks s).entries = s.entries ∧ (redisGrantAll o ks s).now = s.now
  | [], _ => ⟨rfl, rfl⟩
  | k :: ks, s => by
    unfold redisGrantAll
    cases vget s k with
    | none => exact grantAll_same o ks s
    | some e =>
      simp only []
      by_cases ho : (e.owner == o) = true
      · simp only [ho, if_true]; exact grantAll_same o ks _
      · simp only [ho]; exact grantAll_same o ks s

theorem grantAll_keeps (o k : Nat) : ∀ (ks : List Nat) (s : Redis), Holds o s k → Holds o (redisGrantAll o ks s) k
  | [], _, h => h
  | k0 :: ks, s, h => by
    unfold redisGrantAll
    cases hv : vget s k0 with
    | none => exact grantAll_keeps o k ks s h
    | some e =>
      simp only []
      by_cases ho : (e.owner == o) = true
      · simp only [ho, if_true]
        apply grantAll_keeps o k ks
        obtain ⟨g, hg, hk, hl, hgo⟩ := h
        by_cases hkk : k = k0
        · exact ⟨⟨k0, o, e.exp⟩, mem_grant.2 (Or.inl rfl), hkk.symm, (vget_some hv).2, rfl⟩
        · exact ⟨g, mem_grant.2 (Or.inr ⟨hg, fun ⟨a, _⟩ => hkk (hk ▸ a)⟩), hk, hl, hgo⟩
      · simp only [ho]; exact grantAll_keeps o k ks s h

theorem grantAll_holds (o : Nat) : ∀ (ks : List Nat) (s : Redis) (k : Nat), k ∈ ks → Own o s k → Holds o (redisGrantAll o ks s) k
  | [], _, _, h, _ => by cases h
  | k0 :: ks, s, k, hk, hown => by
    unfold redisGrantAll
    by_cases hkk : k = k0
    · subst hkk
      obtain ⟨e, hv, ho⟩ := hown
      rw [hv]
      have : (e.owner == o) = true := by simpa using ho
      simp only [this, if_true]
      apply grantAll_keeps o k ks
      exact ⟨⟨k, o, e.exp⟩, mem_grant.2 (Or.inl rfl), rfl, (vget_some hv).2, rfl⟩
    · have hk' : k ∈ ks := by simpa [hkk] using hk
      cases hv : vget s k0 with
      | none => exact grantAll_holds o ks s k hk' hown
      | some e =>
        simp only []
        by_cases ho : (e.owner == o) = true
        · simp only [ho, if_true]
          exact grantAll_holds o ks _ k hk' (hown.congr rfl rfl)
        · simp only [ho]; exact grantAll_holds o ks s k hk' hown

/-- a `Lock` that answers true has handed out a live lease on every listed key -/
theorem redisLock_true_holds (s : Redis) (o d : Nat) (keys : List Nat) (hd : 0 < d)
    (hok : (redisLock s o d keys).2.1 = true) : ∀ k ∈ keys, Holds o (redisLock s o d keys).1 k := by
  intro k hk
  unfold redisLock at hok ⊢
  have hown := setnxAll_own o d hd keys s k hk
  cases hs : redisSetnxAll o d keys s with
  | mk s1 failed =>
    rw [hs] at hown hok
    simp only [] at hok hown ⊢
    cases failed with
    | nil =>
      simp only [] at hok ⊢
      rcases hown with h1 | h1
      · exact grantAll_holds o keys s1 k hk h1
      · cases h1
    | cons f fs =>
      simp only [] at hok ⊢
      have hc := checkFailed_same o (f :: fs) s1
      have hco := checkFailed_own o (f :: fs) s1
      cases hr : redisCheckFailed o (f :: fs) s1 with
      | mk s2 r =>
        rw [hr] at hc hco hok
        obtain ⟨b, ow⟩ := r
        cases b with
        | false => simp at hok
        | true =>
          simp only [] at hok ⊢
          apply grantAll_holds o keys s2 k hk
          rcases hown with h1 | h1
          · exact h1.congr hc.1 hc.2.2
          · exact (hco rfl k h1).congr hc.1 hc.2.2

end Sop.Locks
