import Sop.Model.Locks
/-! Lemmas for C28: the association-list map, the ghost leases, and the lease invariant
("every live lease is backed by the store entry of its owner") for both implementations. -/
namespace Sop.Locks

/-! ### the map -/
theorem find_congr {α : Type} {p q : α → Bool} : ∀ {l : List α}, (∀ x ∈ l, p x = q x) → l.find? p = l.find? q
  | [], _ => rfl
  | x :: xs, h => by
    have hx := h x (List.mem_cons_self ..)
    have ih := find_congr (l := xs) (fun y hy => h y (List.mem_cons_of_mem _ hy))
    simp [List.find?, hx, ih]

theorem get_key {es : List Entry} {k : Nat} {e : Entry} (h : get es k = some e) : e.key = k := by
  unfold get at h
  have := List.find?_some h
  simpa using this

theorem get_del_same (es : List Entry) (k : Nat) : get (del es k) k = none := by
  unfold get del
  rw [List.find?_eq_none]
  intro x hx
  simp only [List.mem_filter] at hx
  simpa using hx.2

theorem get_del_ne (es : List Entry) {k k' : Nat} (h : k' ≠ k) : get (del es k) k' = get es k' := by
  unfold get del
  rw [List.find?_filter]
  apply find_congr
  intro x _
  by_cases hx : x.key = k'
  · have : x.key ≠ k := fun h' => h (hx ▸ h')
    simp [hx, this, h]
  · simp [hx]

theorem get_put_same (es : List Entry) (e : Entry) : get (put es e) e.key = some e := by
  simp [get, put, List.find?]

theorem get_put_ne (es : List Entry) (e : Entry) {k : Nat} (h : k ≠ e.key) : get (put es e) k = get es k := by
  have h' : ¬ e.key = k := fun x => h x.symm
  have : get (put es e) k = get (del es e.key) k := by simp [get, put, List.find?, h']
  rw [this, get_del_ne es h]

theorem get_filter_shard (f : Nat → Nat) (es : List Entry) (k0 vk : Nat) (v : Entry)
    (h : get (es.filter (fun e => f e.key == f k0)) vk = some v) : get es vk = some v := by
  unfold get at *
  rw [List.find?_filter] at h
  have hv := List.find?_some h
  have hv' : f v.key = f k0 ∧ v.key = vk := by simpa using hv
  rw [← h]
  apply find_congr
  intro x _
  by_cases hx : x.key = vk
  · have : f vk = f k0 := hv'.2 ▸ hv'.1
    simp [hx, this]
  · simp [hx]

/-! ### ghost leases -/
theorem mem_release {gs : List Grant} {k o : Nat} {g : Grant} :
    g ∈ release gs k o ↔ g ∈ gs ∧ ¬ (g.key = k ∧ g.owner = o) := by
  simp only [release, List.mem_filter, Bool.not_eq_true', Bool.and_eq_false_iff, beq_eq_false_iff_ne, ne_eq,
    Bool.not_eq_eq_eq_not, Bool.not_true, Bool.and_eq_true, beq_iff_eq]
  constructor
  · rintro ⟨h1, h2⟩; exact ⟨h1, fun ⟨a, b⟩ => by rcases h2 with h | h <;> contradiction⟩
  · rintro ⟨h1, h2⟩
    refine ⟨h1, ?_⟩
    by_cases hk : g.key = k
    · exact Or.inr (fun ho => h2 ⟨hk, ho⟩)
    · exact Or.inl hk

theorem mem_grant {gs : List Grant} {g0 g : Grant} :
    g ∈ grant gs g0 ↔ g = g0 ∨ (g ∈ gs ∧ ¬ (g.key = g0.key ∧ g.owner = g0.owner)) := by
  simp [grant, mem_release]

theorem mem_releaseAll {o : Nat} {ks : List Nat} {gs : List Grant} {g : Grant} :
    g ∈ releaseAll o ks gs ↔ g ∈ gs ∧ ¬ (g.key ∈ ks ∧ g.owner = o) := by
  induction ks generalizing gs with
  | nil => simp [releaseAll]
  | cons k ks ih =>
    simp only [releaseAll, ih, mem_release, List.mem_cons]
    constructor
    · rintro ⟨⟨h1, h2⟩, h3⟩
      refine ⟨h1, ?_⟩
      rintro ⟨hk | hk, ho⟩
      · exact h2 ⟨hk, ho⟩
      · exact h3 ⟨hk, ho⟩
    · rintro ⟨h1, h2⟩
      exact ⟨⟨h1, fun ⟨a, b⟩ => h2 ⟨Or.inl a, b⟩⟩, fun ⟨a, b⟩ => h2 ⟨Or.inr a, b⟩⟩

/-! ### the lease invariant, generic in the liveness relation
`live now d`: a lease/entry with deadline `d` is still running at time `now`
(in-memory: `now ≤ d`, Redis: `now < d`). -/
structure LiveRel where
  live : Nat → Nat → Prop
  mono_t : ∀ {n n' d}, n ≤ n' → live n' d → live n d
  mono_d : ∀ {n d d'}, d ≤ d' → live n d → live n d'

def memLive : LiveRel := ⟨fun n d => n ≤ d, by intros; omega, by intros; omega⟩
def redisLive : LiveRel := ⟨fun n d => n < d, by intros; omega, by intros; omega⟩

/-- every live lease is backed by an entry of the same owner that lasts at least as long -/
def Inv (L : LiveRel) (es : List Entry) (gs : List Grant) (now : Nat) : Prop :=
  ∀ g ∈ gs, L.live now g.dl → ∃ e, get es g.key = some e ∧ e.owner = g.owner ∧ g.dl ≤ e.exp

variable {L : LiveRel} {es : List Entry} {gs : List Grant} {n : Nat}

theorem Inv.time (h : Inv L es gs n) {n' : Nat} (hn : n ≤ n') : Inv L es gs n' :=
  fun g hg hl => h g hg (L.mono_t hn hl)

theorem Inv.rel (h : Inv L es gs n) (k o : Nat) : Inv L es (release gs k o) n :=
  fun g hg hl => h g (mem_release.1 hg).1 hl

/-- deleting a key whose entry (if any) is dead -/
theorem Inv.del_dead (h : Inv L es gs n) {k : Nat} (hd : ∀ e, get es k = some e → ¬ L.live n e.exp) :
    Inv L (del es k) gs n := by
  intro g hg hl
  obtain ⟨e, he, ho, hx⟩ := h g hg hl
  by_cases hk : g.key = k
  · exact absurd (L.mono_d hx hl) (hd e (hk ▸ he))
  · exact ⟨e, by rw [get_del_ne es hk]; exact he, ho, hx⟩

/-- deleting one's own entry together with one's own lease -/
theorem Inv.del_own (h : Inv L es gs n) {k o : Nat} (hown : ∀ e, get es k = some e → e.owner = o) :
    Inv L (del es k) (release gs k o) n := by
  intro g hg hl
  obtain ⟨hg1, hg2⟩ := mem_release.1 hg
  obtain ⟨e, he, ho, hx⟩ := h g hg1 hl
  by_cases hk : g.key = k
  · exact absurd ⟨hk, ho ▸ hown e (hk ▸ he)⟩ hg2
  · exact ⟨e, by rw [get_del_ne es hk]; exact he, ho, hx⟩

/-- overwriting a key whose entry (if any) is dead, no lease handed out -/
theorem Inv.put_dead (h : Inv L es gs n) {k o x : Nat} (hd : ∀ e, get es k = some e → ¬ L.live n e.exp) :
    Inv L (put es ⟨k, o, x⟩) gs n := by
  intro g hg hl
  obtain ⟨e, he, ho, hx⟩ := h g hg hl
  by_cases hk : g.key = k
  · exact absurd (L.mono_d hx hl) (hd e (hk ▸ he))
  · exact ⟨e, by rw [get_put_ne es _ (by simpa using hk)]; exact he, ho, hx⟩

/-- writing `(k, o, x)` over nothing, a dead entry or `o`'s own entry, and handing out the lease `(k, o, x)` -/
theorem Inv.put_grant (h : Inv L es gs n) {k o x : Nat}
    (hd : ∀ e, get es k = some e → ¬ L.live n e.exp ∨ e.owner = o) :
    Inv L (put es ⟨k, o, x⟩) (grant gs ⟨k, o, x⟩) n := by
  intro g hg hl
  rcases mem_grant.1 hg with rfl | ⟨hg1, hg2⟩
  · exact ⟨⟨k, o, x⟩, get_put_same es ⟨k, o, x⟩, rfl, Nat.le_refl _⟩
  · obtain ⟨e, he, ho, hx⟩ := h g hg1 hl
    by_cases hk : g.key = k
    · rcases hd e (hk ▸ he) with hdead | hown
      · exact absurd (L.mono_d hx hl) hdead
      · exact absurd ⟨hk, ho ▸ hown⟩ hg2
    · exact ⟨e, by rw [get_put_ne es _ (by simpa using hk)]; exact he, ho, hx⟩

/-- recording the lease the store already holds for `o` -/
theorem Inv.grant_existing (h : Inv L es gs n) {k o : Nat} {e : Entry} (he : get es k = some e) (ho : e.owner = o) :
    Inv L es (grant gs ⟨k, o, e.exp⟩) n := by
  intro g hg hl
  rcases mem_grant.1 hg with rfl | ⟨hg1, _⟩
  · exact ⟨e, he, ho, Nat.le_refl _⟩
  · exact h g hg1 hl

/-- rewriting the expiry of a key to something not earlier, owner unchanged -/
theorem Inv.extend (h : Inv L es gs n) {k x : Nat} {e : Entry} (he : get es k = some e) (hx : e.exp ≤ x) :
    Inv L (put es ⟨k, e.owner, x⟩) gs n := by
  intro g hg hl
  obtain ⟨e', he', ho', hx'⟩ := h g hg hl
  by_cases hk : g.key = k
  · rw [hk, he] at he'
    cases he'
    exact ⟨⟨k, e.owner, x⟩, hk ▸ get_put_same es ⟨k, e.owner, x⟩, ho', by simp; omega⟩
  · exact ⟨e', by rw [get_put_ne es _ (by simpa using hk)]; exact he', ho', hx'⟩

/-- at most one owner: two live leases on one key belong to the same owner -/
theorem Inv.unique (h : Inv L es gs n) {g1 g2 : Grant} (h1 : g1 ∈ gs) (h2 : g2 ∈ gs)
    (l1 : L.live n g1.dl) (l2 : L.live n g2.dl) (hk : g1.key = g2.key) : g1.owner = g2.owner := by
  obtain ⟨e1, he1, ho1, _⟩ := h g1 h1 l1
  obtain ⟨e2, he2, ho2, _⟩ := h g2 h2 l2
  rw [hk, he2] at he1
  cases he1
  rw [← ho1, ← ho2]

end Sop.Locks
